#!/bin/bash
# Build the framework from files on disk only (offline): translator + full .vo build.
set -u
cd "$(dirname "$0")"
mkdir -p .work evidence replays
export PYTHONHASHSEED=0
/venv/bin/python harness/py2coq.py || echo "setup: translator failed (checks will report it)"
cd coq
coq_makefile -f _CoqProject -o Makefile
timeout 3000 make -k -j16 2>&1 | tail -5
exit 0
