(* Prelude: data types shared by the NumPy model and the dimarray model.
   No proofs here except the order lemmas on labels (needed by every search proof). *)
From Coq Require Export List Arith ZArith QArith String Ascii Bool Lia.
Export ListNotations.
Open Scope nat_scope.

(* ---------------------------------------------------------------- errors *)
Inductive exn := IndexError | ValueError | TypeError | KeyError | AssertionError
               | AttributeError | RecursionError | OtherError.
Inductive res (A : Type) := Ok (a : A) | Err (e : exn).
Arguments Ok {A} a.
Arguments Err {A} e.
Definition bind {A B} (r : res A) (f : A -> res B) : res B :=
  match r with Ok a => f a | Err e => Err e end.
Notation "'let!' x ':=' r 'in' k" := (bind r (fun x => k))
  (at level 200, x pattern, r at level 100, k at level 200, right associativity).
Definition exn_eqb (a b : exn) : bool :=
  match a, b with
  | IndexError, IndexError | ValueError, ValueError | TypeError, TypeError
  | KeyError, KeyError | AssertionError, AssertionError | AttributeError, AttributeError
  | RecursionError, RecursionError | OtherError, OtherError => true
  | _, _ => false
  end.
Fixpoint mapM {A B} (f : A -> res B) (l : list A) : res (list B) :=
  match l with
  | [] => Ok []
  | x :: t => let! y := f x in let! ys := mapM f t in Ok (y :: ys)
  end.

(* ---------------------------------------------------------------- labels *)
(* numpy dtype.kind of an array *)
Inductive kind := KB | KI | KF | KO | KU | KS.
Definition kind_eqb (a b : kind) : bool :=
  match a, b with
  | KB, KB | KI, KI | KF, KF | KO, KO | KU, KU | KS, KS => true
  | _, _ => false
  end.

Inductive atom := ANum (q : Q) | AStr (s : string) | ANone.
Inductive label := LAt (a : atom) | LTup (l : list atom).
Coercion LAt : atom >-> label.
Definition LNum (q : Q) : label := LAt (ANum q).
Definition LStr (s : string) : label := LAt (AStr s).
Definition LNone : label := LAt ANone.

(* Generic lexicographic total preorder on lists *)
Section Lex.
  Variable A : Type.
  Variable le : A -> A -> bool.
  Fixpoint lex_le (x y : list A) : bool :=
    match x, y with
    | [], _ => true
    | _ :: _, [] => false
    | a :: x', b :: y' =>
        if le a b then (if le b a then lex_le x' y' else true) else false
    end.
  Hypothesis le_refl : forall a, le a a = true.
  Hypothesis le_trans : forall a b c, le a b = true -> le b c = true -> le a c = true.
  Hypothesis le_total : forall a b, le a b = true \/ le b a = true.
  Lemma lex_le_refl x : lex_le x x = true.
  Proof. induction x as [|a x IH]; simpl; [reflexivity|]. rewrite le_refl. exact IH. Qed.
  Lemma lex_le_total x y : lex_le x y = true \/ lex_le y x = true.
  Proof.
    revert y; induction x as [|a x IH]; intros [|b y]; simpl; auto.
    destruct (le a b) eqn:Hab, (le b a) eqn:Hba; auto.
    destruct (le_total a b); congruence.
  Qed.
  Lemma lex_le_trans x y z : lex_le x y = true -> lex_le y z = true -> lex_le x z = true.
  Proof.
    revert y z; induction x as [|a x IH]; intros [|b y] [|c z]; simpl; auto; try discriminate.
    destruct (le a b) eqn:Hab; [|discriminate].
    destruct (le b c) eqn:Hbc; [|destruct (le b a); discriminate].
    rewrite (le_trans _ _ _ Hab Hbc).
    destruct (le b a) eqn:Hba; destruct (le c b) eqn:Hcb; intros H1 H2.
    - destruct (le c a) eqn:Hca; [eapply IH; eassumption | reflexivity].
    - destruct (le c a) eqn:Hca; [|reflexivity].
      rewrite (le_trans _ _ _ Hca Hab) in Hcb. discriminate.
    - destruct (le c a) eqn:Hca; [|reflexivity].
      rewrite (le_trans _ _ _ Hbc Hca) in Hba. discriminate.
    - destruct (le c a) eqn:Hca; [|reflexivity].
      rewrite (le_trans _ _ _ Hca Hab) in Hcb. discriminate.
  Qed.
End Lex.
Arguments lex_le {A} le x y.

Definition str_codes (s : string) : list N := map N_of_ascii (list_ascii_of_string s).
Definition str_le (a b : string) : bool := lex_le N.leb (str_codes a) (str_codes b).

Definition atom_rank (a : atom) : nat :=
  match a with ANone => 0 | ANum _ => 1 | AStr _ => 2 end.
Definition atom_le (a b : atom) : bool :=
  match a, b with
  | ANum p, ANum q => Qle_bool p q
  | AStr s, AStr t => str_le s t
  | _, _ => atom_rank a <=? atom_rank b
  end.
Definition label_le (a b : label) : bool :=
  match a, b with
  | LAt x, LAt y => atom_le x y
  | LAt _, LTup _ => true
  | LTup _, LAt _ => false
  | LTup x, LTup y => lex_le atom_le x y
  end.
(* numpy's == on labels: numeric equality on numbers, string equality, None == None,
   tuple equality; it is the kernel of the preorder *)
Definition label_eqb (a b : label) : bool := label_le a b && label_le b a.
Definition label_ltb (a b : label) : bool := negb (label_le b a).

Lemma Nleb_refl a : N.leb a a = true. Proof. apply N.leb_refl. Qed.
Lemma Nleb_trans a b c : N.leb a b = true -> N.leb b c = true -> N.leb a c = true.
Proof. rewrite !N.leb_le. lia. Qed.
Lemma Nleb_total a b : N.leb a b = true \/ N.leb b a = true.
Proof. rewrite !N.leb_le. lia. Qed.

Lemma atom_le_refl a : atom_le a a = true.
Proof.
  destruct a as [q|s|]; simpl; auto.
  - apply Qle_bool_iff. apply Qle_refl.
  - apply lex_le_refl. exact Nleb_refl.
Qed.
Lemma atom_le_total a b : atom_le a b = true \/ atom_le b a = true.
Proof.
  destruct a as [p|s|], b as [q|t|]; simpl; auto.
  - rewrite !Qle_bool_iff. destruct (Qlt_le_dec p q) as [H|H]; [left; apply Qlt_le_weak|right]; exact H.
  - apply lex_le_total. exact Nleb_total.
Qed.
Lemma atom_le_trans a b c : atom_le a b = true -> atom_le b c = true -> atom_le a c = true.
Proof.
  destruct a as [p|s|], b as [q|t|], c as [r|u|]; simpl; auto; try discriminate.
  - rewrite !Qle_bool_iff. apply Qle_trans.
  - apply (lex_le_trans _ _ Nleb_trans).
Qed.
Lemma label_le_refl a : label_le a a = true.
Proof. destruct a; simpl; [apply atom_le_refl | apply lex_le_refl; exact atom_le_refl]. Qed.
Lemma label_le_total a b : label_le a b = true \/ label_le b a = true.
Proof.
  destruct a, b; simpl; auto; [apply atom_le_total | apply lex_le_total; exact atom_le_total].
Qed.
Lemma label_le_trans a b c : label_le a b = true -> label_le b c = true -> label_le a c = true.
Proof.
  destruct a, b, c; simpl; auto; try discriminate.
  - apply atom_le_trans.
  - apply (lex_le_trans _ _ atom_le_trans).
Qed.
Lemma label_eqb_refl a : label_eqb a a = true.
Proof. unfold label_eqb. rewrite label_le_refl. reflexivity. Qed.
Lemma label_eqb_sym a b : label_eqb a b = label_eqb b a.
Proof. unfold label_eqb. apply andb_comm. Qed.
Lemma label_eqb_trans a b c : label_eqb a b = true -> label_eqb b c = true -> label_eqb a c = true.
Proof.
  unfold label_eqb. rewrite !andb_true_iff. intros [H1 H2] [H3 H4]. split.
  - eapply label_le_trans; eassumption.
  - eapply label_le_trans; eassumption.
Qed.

Definition qz (n : Z) (d : positive) : Q := Qmake n d.

(* ---------------------------------------------------------------- cells *)
Inductive cell := CNum (q : Q) | CNaN | CBool (b : bool) | CStr (s : string) | CNone.
Definition cell_eqb (a b : cell) : bool :=
  match a, b with
  | CNum p, CNum q => Qeq_bool p q
  | CNaN, CNaN => true
  | CBool x, CBool y => Bool.eqb x y
  | CStr s, CStr t => String.eqb s t
  | CNone, CNone => true
  | _, _ => false
  end.
Definition is_nan (c : cell) : bool := match c with CNaN => true | _ => false end.

(* ---------------------------------------------------------------- metadata *)
Inductive mval := MNum (q : Q) | MStr (s : string) | MList (l : list Q) | MBool (b : bool).
Definition meta := list (string * mval).
Definition mval_eqb (a b : mval) : bool :=
  match a, b with
  | MNum p, MNum q => Qeq_bool p q
  | MStr s, MStr t => String.eqb s t
  | MBool x, MBool y => Bool.eqb x y
  | MList x, MList y =>
      (List.length x =? List.length y) && forallb (fun pq => Qeq_bool (fst pq) (snd pq)) (combine x y)
  | _, _ => false
  end.

(* ---------------------------------------------------------------- generic list helpers *)
Fixpoint list_eqb {A} (eqb : A -> A -> bool) (x y : list A) : bool :=
  match x, y with
  | [], [] => true
  | a :: x', b :: y' => eqb a b && list_eqb eqb x' y'
  | _, _ => false
  end.
Definition prod (l : list nat) : nat := fold_right Nat.mul 1 l.
Fixpoint index_of {A} (p : A -> bool) (l : list A) : option nat :=
  match l with
  | [] => None
  | x :: t => if p x then Some 0 else option_map S (index_of p t)
  end.
Definition mem_str (s : string) (l : list string) : bool := existsb (String.eqb s) l.
Fixpoint distinct_str (l : list string) : bool :=
  match l with [] => true | x :: t => negb (mem_str x t) && distinct_str t end.
Fixpoint remove_nth {A} (n : nat) (l : list A) : list A :=
  match n, l with
  | _, [] => []
  | 0, _ :: t => t
  | S n', x :: t => x :: remove_nth n' t
  end.
Fixpoint insert_nth {A} (n : nat) (x : A) (l : list A) : list A :=
  match n, l with
  | 0, _ => x :: l
  | S n', y :: t => y :: insert_nth n' x t
  | S _, [] => [x]
  end.
Fixpoint set_nth {A} (n : nat) (x : A) (l : list A) : list A :=
  match n, l with
  | _, [] => []
  | 0, _ :: t => x :: t
  | S n', y :: t => y :: set_nth n' x t
  end.
Fixpoint nodupb {A} (eqb : A -> A -> bool) (l : list A) : bool :=
  match l with
  | [] => true
  | x :: t => negb (existsb (eqb x) t) && nodupb eqb t
  end.

(* indices of failing cases *)
Fixpoint failing_from {A} (i : nat) (f : A -> bool) (l : list A) : list nat :=
  match l with
  | [] => []
  | x :: t => if f x then failing_from (S i) f t else i :: failing_from (S i) f t
  end.
Definition failing {A} (f : A -> bool) (l : list A) : list nat := failing_from 0 f l.
