(* C14 - Dataset-wide operations equal the per-variable operations. *)
From Coq Require Import Qround Qabs.
From DA Require Import Prelude NDArray Array PyRT.
From DA.Model Require Import Value Reshape SliceSpec Indexing Align Transform Flatten Dataset DatasetOps.
From DA.Proofs Require Import C10_proofs C01_proofs C13_proofs C14_proofs.
Open Scope nat_scope.
Open Scope list_scope.

(* every Dataset-wide operation builds its result by assembling / constructing a Dataset from the
   per-variable results; such a Dataset satisfies the shared-axes rule (C13) and carries the given metadata *)
Theorem C14_assembled_shared : forall first vars m s, ds_assemble first vars m = Ok s -> Shared s /\ dsattrs s = m.
Proof. exact assemble_shared. Qed.
Print Assumptions C14_assembled_shared.
Theorem C14_constructed_shared : forall vars m s, ds_construct vars m = Ok s -> Shared s /\ dsattrs s = m.
Proof. exact construct_shared. Qed.
Print Assumptions C14_constructed_shared.

(* shared-axes rule + dataset metadata carried over by indexing, take_axis / sort_axis, reindex_axis, interp_axis *)
Theorem C14_take : forall f tol kd s s', ds_take f tol kd s = Ok s' -> Shared s' /\ dsattrs s' = dsattrs s.
Proof. exact ds_take_shared. Qed.
Print Assumptions C14_take.
Theorem C14_take_axis : forall idxs id s s', ds_take_axis_pos idxs id s = Ok s' -> Shared s' /\ dsattrs s' = dsattrs s.
Proof. exact ds_take_axis_pos_shared. Qed.
Print Assumptions C14_take_axis.
Theorem C14_sort_axis : forall r s s', ds_sort_axis r s = Ok s' -> Shared s' /\ dsattrs s' = dsattrs s.
Proof. exact ds_sort_axis_shared. Qed.
Print Assumptions C14_sort_axis.
Theorem C14_reindex_axis : forall k news r fill fk re s s',
  ds_reindex_axis k news r fill fk re s = Ok s' -> Shared s' /\ dsattrs s' = dsattrs s.
Proof. exact ds_reindex_shared. Qed.
Print Assumptions C14_reindex_axis.
Theorem C14_interp_axis : forall k news r l rr s s',
  ds_interp_axis k news r l rr s = Ok s' -> Shared s' /\ dsattrs s' = dsattrs s.
Proof. exact ds_interp_shared. Qed.
Print Assumptions C14_interp_axis.
Theorem C14_reduce_shared : forall f r s s', ds_reduce f r s = Ok s' -> Shared s'.
Proof. exact ds_reduce_shared. Qed.
Print Assumptions C14_reduce_shared.
Theorem C14_arithmetic_shared : forall o s1 s2 s', ds_binop o s1 s2 = Ok s' -> Shared s'.
Proof. exact ds_binop_shared. Qed.
Print Assumptions C14_arithmetic_shared.

(* the per-variable rule: a variable lacking the affected dimension is handed over unchanged, the others
   receive exactly the array-level operation *)
Theorem C14_per_variable_rule : forall d (f : darr -> res darr) vars out,
  mapM_vars (fun a => if has_dim a d then f a else Ok a) vars = Ok out ->
  List.length out = List.length vars /\
  forall i, i < List.length vars ->
    let p := nth i vars dpair in
    let q := nth i out dpair in
    fst q = fst p /\ (if has_dim (snd p) d then f (snd p) = Ok (snd q) else snd q = snd p).
Proof. exact mapM_vars_rule. Qed.
Print Assumptions C14_per_variable_rule.
(* instances: reductions (array reduction of C08), reindex / interp (C07 / C18), arithmetic (C04) *)
Theorem C14_reductions : forall f r s s',
  ds_reduce f r s = Ok s' ->
  exists id vars',
    ds_axis_ref s r = Ok id /\
    mapM_vars (fun a => if has_dim a (aname (hget (heap s) id))
                        then (let! v := reduce_any f false (AxOne (ByName (aname (hget (heap s) id)))) a in
                              as_arr v (red_kind f (kd (vals a))) (attrs a))
                        else Ok a) (ds_vars_arr s) = Ok vars' /\
    ds_construct vars' [] = Ok s'.
Proof. exact ds_reduce_rule. Qed.
Print Assumptions C14_reductions.
Theorem C14_reindex_interp : forall d f nx s s',
  ds_per_variable d f nx s = Ok s' ->
  exists vars', mapM_vars (fun a => if has_dim a d then f a else Ok a) (ds_vars_arr s) = Ok vars' /\
    exists first, ds_assemble first vars' (dsattrs s) = Ok s'.
Proof. exact ds_per_variable_rule. Qed.
Print Assumptions C14_reindex_interp.
Theorem C14_scalar_arithmetic : forall o c k refl s s',
  ds_binop_scalar o c k refl s = Ok s' ->
  exists vars', mapM_vars (op_scalar o c k refl) (ds_vars_arr s) = Ok vars' /\ ds_assemble [] vars' [] = Ok s'.
Proof. exact ds_scalar_rule. Qed.
Print Assumptions C14_scalar_arithmetic.
(* take_axis / sort_axis on a variable whose axis is the dataset's: exactly DimArray.take_axis (C17) *)
Theorem C14_take_axis_is_array_take : forall idxs (ax : axis) i a,
  nth i (axes a) dax0 = ax -> amem ax = [] ->
  mkarr (set_nth i (ax_new (aname ax) (akind ax) (map (nth_lab (alab ax)) idxs) (aattrs ax)) (axes a))
        (np_take idxs i (vals a)) (attrs a)
  = take_axis_pos idxs i a.
Proof. exact ds_take_axis_is_array_take. Qed.
Print Assumptions C14_take_axis_is_array_take.

Definition va : darr := Arr [Ax "t" KI [L_ 3; L_ 1] [] []; Ax "u" KO [LStr "p"; LStr "q"] [] []] [2; 2] KI [N_ 1; N_ 2; N_ 3; N_ 4] [].
Definition vb : darr := Arr [Ax "u" KO [LStr "p"; LStr "q"] [] []] [2] KI [N_ 7; N_ 8] [].
Example C14_nonvacuous :
  exists s s', build [("a", va); ("b", vb)]%string [("title", MStr "T")]%string = Ok s /\
    ds_sort_axis (ByName "t") s = Ok s' /\ dsattrs s' = [("title", MStr "T")]%string /\
    map (fun p => dat (vals (snd p))) (ds_vars_arr s') = [[N_ 3; N_ 4; N_ 1; N_ 2]; [N_ 7; N_ 8]].
Proof. eexists. eexists. repeat split; reflexivity. Qed.
