(* C11 - Flatten, unflatten and reshape group dimensions losslessly. *)
From Coq Require Import Qround Qabs.
From DA Require Import Prelude NDArray Array PyRT.
From DA.Model Require Import Value Reshape SliceSpec Indexing Align Transform Flatten.
From DA.Proofs Require Import C10_proofs C11_proofs C05_proofs C11_roundtrip.
Open Scope nat_scope.
Open Scope list_scope.

(* the grouped axis: named by the comma-joined member names; its labels are the tuples of member
   labels, the members kept for unflatten *)
Theorem C11_grouped_axis : forall mems g,
  List.length mems <> 1 -> multi_axis mems = Ok g ->
  exists atoms, mapM (fun m => mapM label_atom (alab m)) mems = Ok atoms /\
    aname g = join_names (map aname mems) /\
    alab g = map LTup (product_labels atoms) /\
    amem g = map to_maxis mems.
Proof. exact multi_axis_labels. Qed.
Print Assumptions C11_grouped_axis.

(* the i-th grouped label is the i-th combination of member labels in row-major order of the listed
   members: component j is member j's label at position (unravel i)[j] *)
Theorem C11_row_major_labels : forall mems k,
  k < prod (map (@List.length atom) mems) ->
  nth k (product_labels mems) [] = pick mems (unravel (map (@List.length atom) mems) k).
Proof. exact product_labels_nth. Qed.
Print Assumptions C11_row_major_labels.

(* grouping contiguous dimensions: axes before / after untouched, data and metadata the same ... *)
Theorem C11_group : forall names ins a r,
  group_at names ins a = Ok r ->
  let k := List.length names in
  let mems := firstn k (skipn ins (axes a)) in
  exists g, multi_axis mems = Ok g /\
    axes r = firstn ins (axes a) ++ [g] ++ skipn (ins + k) (axes a) /\
    attrs r = attrs a /\ dat (vals r) = dat (vals a) /\
    sh (vals r) = map alen (firstn ins (axes a) ++ [g] ++ skipn (ins + k) (axes a)).
Proof. exact group_at_spec. Qed.
Print Assumptions C11_group.
(* ... so that the value at grouped position k is the original value at the member coordinates
   (unravel k), whatever the dimensions before and after *)
Theorem C11_group_value : forall s1 g s2 (d : list cell) c1 k c2,
  List.length c1 = List.length s1 -> k < prod g ->
  getl CNaN (s1 ++ [prod g] ++ s2) d (c1 ++ [k] ++ c2) = getl CNaN (s1 ++ g ++ s2) d (c1 ++ unravel g k ++ c2).
Proof. exact group_get. Qed.
Print Assumptions C11_group_value.

(* dimensions that do not follow each other (any subset, any order): one transpose (C10) brings them
   contiguously to the insert position - the termination argument of the recursive source *)
Theorem C11_one_transpose_suffices : forall (others names : list string) ins,
  ins <= List.length others ->
  firstn (List.length names) (skipn ins (firstn ins others ++ names ++ skipn ins others)) = names.
Proof. exact flatten_newdims_contiguous. Qed.
Print Assumptions C11_one_transpose_suffices.

(* unflatten restores the member axes exactly, and the data *)
Theorem C11_unflatten_flatten : forall names ins a r,
  wf_shape a -> NoDup (dims a) -> Forall (fun ax => amem ax = []) (axes a) ->
  ins + List.length names <= List.length (axes a) -> names <> [] ->
  group_at names ins a = Ok r -> unflatten r = Ok a.
Proof. exact unflatten_group_at. Qed.
Print Assumptions C11_unflatten_flatten.

(* ... for ANY subset of dimensions in ANY order, given as tuple / list / set, at any insert position: flatten followed by
   unflatten gives back the array itself (contiguous group in order) or the transposed array flatten worked on - and C10 says
   that a transposed array holds every element at the same label coordinates *)
Theorem C11_unflatten_flatten_any : forall rs as_set insert a r,
  WF a -> plain a -> flatten rs as_set insert a = Ok r ->
  exists b, (b = a \/ exists newdims, transpose (map ByName newdims) a = Ok b) /\ unflatten r = Ok b.
Proof. exact unflatten_flatten. Qed.
Print Assumptions C11_unflatten_flatten_any.

Definition ex_a : darr :=
  Arr [Ax "x" KI [L_ 1; L_ 2] [] []; Ax "y" KO [LStr "a"; LStr "b"; LStr "c"] [] []; Ax "z" KF [LNum (qz 1 2)] [] []]
      [2; 3; 1] KI [N_ 0; N_ 1; N_ 2; N_ 3; N_ 4; N_ 5] [].
Example C11_nonvacuous :
  (exists r, flatten [ByName "z"; ByName "x"] false None ex_a = Ok r /\ dims r = ["y"; "z,x"]%string /\
     alab (nth 1 (axes r) dax0) = [LTup [ANum (qz 1 2); ANum (qz 1 1)]; LTup [ANum (qz 1 2); ANum (qz 2 1)]] /\
     dat (vals r) = [N_ 0; N_ 3; N_ 1; N_ 4; N_ 2; N_ 5] /\ unflatten r = transpose [ByName "y"; ByName "z"; ByName "x"] ex_a) /\
  (exists r, reshape ["y,x"; "z"]%string ex_a = Ok r /\ dims r = ["y,x"; "z"]%string).
Proof. split; eexists; repeat split; reflexivity. Qed.
Example C11_roundtrip_premises : WF ex_a /\ plain ex_a.
Proof. split; [apply wfb_WF; vm_compute; reflexivity | repeat constructor]. Qed.
