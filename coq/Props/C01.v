(* C01 - Label indexing returns exactly the data stored at those labels. *)
From DA Require Import Prelude NDArray Array PyRT.
From DA.Model Require Import Value Reshape SliceSpec Indexing.
From Coq Require Import Qabs.
From DA.Proofs Require Import C10_proofs C01_proofs C17_proofs C01_complete C01_tolerance.
Open Scope nat_scope.

(* a scalar label resolves to the first position carrying that label ... *)
Theorem C01_locate_one : forall ls v i,
  locate_one ls v = Ok i ->
  i < List.length ls /\ label_eqb (nth i ls LNone) v = true /\
  forall j, j < i -> label_eqb (nth j ls LNone) v = false.
Proof. exact locate_one_ok. Qed.
Print Assumptions C01_locate_one.

(* ... and a label that is not on the axis raises IndexError instead of returning another element *)
Theorem C01_locate_one_absent : forall ls v e,
  locate_one ls v = Err e -> e = IndexError /\ forall x, In x ls -> label_eqb x v = false.
Proof. exact locate_one_err. Qed.
Print Assumptions C01_locate_one_absent.

Theorem C01_locate_one_present : forall ls v,
  (exists x, In x ls /\ label_eqb x v = true) -> exists i, locate_one ls v = Ok i.
Proof. exact locate_one_present. Qed.
Print Assumptions C01_locate_one_present.

(* lists of labels (argsort + searchsorted + take(clip) + guard): every returned position carries
   exactly the requested label, in the requested order; any failure is an IndexError *)
Theorem C01_locate_many : forall ls vs ms,
  locate_many ls vs = Ok ms ->
  List.length ms = List.length vs /\
  forall k, k < List.length vs -> label_eqb (nth (nth k ms 0) ls LNone) (nth k vs LNone) = true.
Proof. exact locate_many_sound. Qed.
Print Assumptions C01_locate_many.
Theorem C01_locate_many_err : forall ls vs e, locate_many ls vs = Err e -> e = IndexError.
Proof. exact locate_many_err. Qed.
Print Assumptions C01_locate_many_err.

(* boolean masks select exactly the true positions *)
Theorem C01_mask : forall bs i,
  In i (mask_positions bs) <-> (i < List.length bs /\ nth i bs false = true).
Proof. exact mask_positions_spec. Qed.
Print Assumptions C01_mask.

(* main: for every index form (tuple / dict / axis=), mode and tolerance, the result is the
   orthogonal sample at the resolved positions; dims dropped/kept as [getaxes] says; attrs kept *)
Theorem C01_getitem : forall f tol kd a r,
  wf_shape a -> getitem f tol kd a = Ok (VArr r) ->
  exists ps, get_indices a f tol kd = Ok ps /\
    wf_shape r /\ attrs r = attrs a /\
    axes r = getaxes (axes a) ps /\
    forall c', inb (sh (vals r)) c' = true -> get (vals r) c' = get (vals a) (src_of ps c').
Proof. exact getitem_spec. Qed.
Print Assumptions C01_getitem.

Theorem C01_getitem_scalar : forall f tol kd a c,
  getitem f tol kd a = Ok (VCell c) ->
  exists ps, get_indices a f tol kd = Ok ps /\ all_int ps = true /\ c = get (vals a) (src_of ps []).
Proof. exact getitem_scalar. Qed.
Print Assumptions C01_getitem_scalar.

(* per-dimension resolution of each kind of label index *)
Theorem C01_loc_scalar : forall ax v p,
  axis_loc ax (IScalar v) TolNone false = Ok p ->
  exists i, p = XInt i /\ i < alen ax /\ label_eqb (nth i (alab ax) LNone) v = true.
Proof. exact axis_loc_scalar. Qed.
Print Assumptions C01_loc_scalar.
Theorem C01_loc_scalar_absent : forall ax v e,
  axis_loc ax (IScalar v) TolNone false = Err e ->
  e = IndexError /\ forall x, In x (alab ax) -> label_eqb x v = false.
Proof. exact axis_loc_scalar_absent. Qed.
Print Assumptions C01_loc_scalar_absent.
Theorem C01_loc_list : forall ax vs p,
  axis_loc ax (IList vs) TolNone false = Ok p ->
  exists ms, p = XPos ms /\ List.length ms = List.length vs /\
    forall k, k < List.length vs -> label_eqb (nth (nth k ms 0) (alab ax) LNone) (nth k vs LNone) = true.
Proof. exact axis_loc_list. Qed.
Print Assumptions C01_loc_list.
Theorem C01_loc_list_err : forall ax vs e, axis_loc ax (IList vs) TolNone false = Err e -> e = IndexError.
Proof. exact axis_loc_list_err. Qed.
Print Assumptions C01_loc_list_err.
Theorem C01_loc_mask : forall ax bs tol p,
  axis_loc ax (IMask bs) tol false = Ok p -> List.length bs = alen ax /\ p = XPos (mask_positions bs).
Proof. exact axis_loc_mask. Qed.
Print Assumptions C01_loc_mask.

(* axes of the result: scalar-indexed dimensions dropped, full slices keep the very axis, list/mask
   indexed dimensions keep name, kind and metadata with the selected labels in the requested order *)
Theorem C01_axes_pos : forall ax axs l ps,
  getaxes (ax :: axs) (XPos l :: ps)
  = with_labels ax (akind ax) (map (fun j => nth j (alab ax) LNone) l) :: getaxes axs ps.
Proof. exact getaxes_cons_pos. Qed.
Theorem C01_axes_int : forall ax axs i ps, getaxes (ax :: axs) (XInt i :: ps) = getaxes axs ps.
Proof. exact getaxes_cons_int. Qed.
Theorem C01_axes_full : forall ax axs ps, getaxes (ax :: axs) (XFull :: ps) = ax :: getaxes axs ps.
Proof. exact getaxes_cons_full. Qed.
Print Assumptions C01_axes_pos.
Print Assumptions C01_axes_int.
Print Assumptions C01_axes_full.

(* non-vacuity *)
(* "... unless a tolerance is given, in which case the nearest label is used if and only if it lies within the
   tolerance": on a numeric axis [qs] (empty or not), for a numeric request [qv] and a tolerance t, either a position is
   returned - it is then in range, its label is a NEAREST one (the first such in stored order) and lies within t -
   or IndexError is raised and then EVERY label is farther than t.  [dists qs qv] = |label - request| per position. *)
Theorem C01_tolerance : forall ls qs v qv t,
  label_num v = Some qv ->
  mapM (fun x => match label_num x with Some q => Ok q | None => Err TypeError end) ls = Ok qs ->
  (exists m, locate_one_tol ls v (TolQ t) = Ok m /\ m < List.length qs /\
             (nth m (dists qs qv) 0 <= t)%Q /\
             (forall j, j < List.length qs -> (nth m (dists qs qv) 0 <= nth j (dists qs qv) 0)%Q) /\
             (forall j, j < m -> (nth m (dists qs qv) 0 < nth j (dists qs qv) 0)%Q))
  \/ (locate_one_tol ls v (TolQ t) = Err IndexError /\
      forall j, j < List.length qs -> (t < nth j (dists qs qv) 0)%Q).
Proof. exact locate_one_tol_spec. Qed.
Print Assumptions C01_tolerance.
(* .nloc / tol='inf': the nearest label, always *)
Theorem C01_nearest : forall ls qs v qv,
  label_num v = Some qv ->
  mapM (fun x => match label_num x with Some q => Ok q | None => Err TypeError end) ls = Ok qs ->
  qs <> [] ->
  exists m, locate_one_tol ls v TolInf = Ok m /\ m < List.length qs /\
            (forall j, j < List.length qs -> (nth m (dists qs qv) 0 <= nth j (dists qs qv) 0)%Q).
Proof. exact locate_one_tol_inf. Qed.
Print Assumptions C01_nearest.
Example C01_tolerance_nonvacuous :
  locate_one_tol [L_ 10; L_ 30; L_ 20] (L_ 22) (TolQ 3) = Ok 2 /\
  locate_one_tol [L_ 10; L_ 30; L_ 20] (L_ 25) (TolQ 3) = Err IndexError /\
  locate_one_tol [L_ 10; L_ 30; L_ 20] (L_ 25) TolInf = Ok 1.
Proof. repeat split; vm_compute; reflexivity. Qed.

(* completeness: argsort + searchsorted + clip + guard finds EVERY label that is on the axis (duplicates and any
   stored order included), so the list lookup fails exactly when some requested label is absent *)
Theorem C01_locate_many_complete : forall ls vs,
  (forall v, In v vs -> exists i, i < List.length ls /\ label_eqb (nth i ls LNone) v = true) ->
  exists ms, locate_many ls vs = Ok ms.
Proof. exact locate_many_complete. Qed.
Print Assumptions C01_locate_many_complete.
Definition ex_a : darr :=
  Arr [Ax "x" KI [L_ 3; L_ 1; L_ 2] [] []; Ax "y" KO [LStr "a"; LStr "b"] [] []]
      [3; 2] KF [N_ 1; N_ 2; N_ 3; N_ 4; N_ 5; N_ 6] [("units", MStr "K")].
Example C01_nonvacuous :
  wf_shape ex_a /\
  (exists r, getitem (FTuple [IList [L_ 2; L_ 3]; IScalar (LStr "b")]) TolNone false ex_a = Ok (VArr r)
             /\ dat (vals r) = [N_ 6; N_ 2]) /\
  getitem (FDict [(ByName "y", IScalar (LStr "a")); (ByPos 0, IScalar (L_ 1))]) TolNone false ex_a = Ok (VCell (N_ 3)) /\
  getitem (FTuple [IScalar (L_ 7)]) TolNone false ex_a = Err IndexError.
Proof.
  split; [split; reflexivity|]. split; [eexists; split; reflexivity|]. split; reflexivity.
Qed.
