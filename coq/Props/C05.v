(* C05 - every produced array is well-formed and history-independent. *)
From Coq Require Import Qround Qabs Permutation.
From DA Require Import Prelude NDArray Array PyRT.
From DA.Model Require Import Value Reshape SliceSpec Indexing Align Transform Flatten Construct Cache Ops.
From DA.Proofs Require Import C10_proofs C05_proofs C05_join C05_flatten C05_programs.
Open Scope string_scope.
Open Scope nat_scope.
Open Scope list_scope.

(* WF a: one axis per dimension with matching length, data of the right size, dimension names distinct and
   non-empty; it is the boolean test [wfb] that the case files evaluate on every model result *)
Theorem C05_wf_is_wfb : forall a, wfb a = true <-> WF a.
Proof. exact wfb_WF. Qed.
Print Assumptions C05_wf_is_wfb.

(* ---- constructors ---- *)
(* every array a constructor form returns is well-formed *)
Theorem C05_ctor_wf : forall sp v a, spec_ok sp -> List.length (dat v) = prod (sh v) -> ctor sp v = Ok a -> WF a.
Proof. exact ctor_wf. Qed.
Print Assumptions C05_ctor_wf.
Theorem C05_ctor_fill_wf : forall sp shape c k a, spec_ok sp -> ctor_fill sp shape c k = Ok a -> WF a.
Proof. exact ctor_fill_wf. Qed.
Print Assumptions C05_ctor_fill_wf.

(* all documented forms of the same axes build the same array (or fail alike): label lists + dims =
   (name, labels) pairs = Axis objects = dict (in any order) + dims; dims only = lists 0..n-1 + dims;
   nothing = dims x0, x1, ...; zeros / ones / empty = the constructor on the constant array *)
Theorem C05_lists_pairs : forall (ns : list dname) ls v,
  List.length ns = List.length ls -> ctor (SLists ls (Some ns)) v = ctor (SPairs (combine ns ls)) v.
Proof. exact ctor_lists_pairs. Qed.
Print Assumptions C05_lists_pairs.
Theorem C05_pairs_objs : forall (ns : list string) ls v,
  List.length ns = List.length ls -> ~ In "" ns ->
  ctor (SPairs (combine (map DStr ns) ls)) v = ctor (SAxisObjs (axes_of ns ls)) v.
Proof. exact ctor_pairs_objs. Qed.
Print Assumptions C05_pairs_objs.
Theorem C05_dict_objs : forall (ns : list string) ls l' v,
  ns <> [] -> List.length ns = List.length ls -> NoDup ns -> ~ In "" ns ->
  Permutation l' (combine (map DStr ns) ls) ->
  ctor (SDict l' (map DStr ns)) v = ctor (SAxisObjs (axes_of ns ls)) v.
Proof. exact ctor_dict_objs. Qed.
Print Assumptions C05_dict_objs.
Theorem C05_dims_only : forall ds v,
  List.length ds = List.length (sh v) ->
  ctor (SDimsOnly ds) v = ctor (SLists (map (fun n => (KI, arange_labels n)) (sh v)) (Some ds)) v.
Proof. exact ctor_dims_only. Qed.
Print Assumptions C05_dims_only.
Theorem C05_nothing : forall v,
  ctor SNothing v = ctor (SDimsOnly (map (fun i => DStr (default_name i)) (seq 0 (List.length (sh v))))) v.
Proof. exact ctor_nothing. Qed.
Print Assumptions C05_nothing.
Theorem C05_fill : forall sp c k axs,
  shape_free sp = true -> init_axes sp [] = Ok axs ->
  ctor_fill sp None c k = ctor sp (mk (map alen axs) k (fun _ => c)).
Proof. exact ctor_fill_ctor. Qed.
Print Assumptions C05_fill.

(* rejections: data whose shape disagrees with the axes; duplicate dimension names *)
Theorem C05_rejects_shape : forall sp v axs,
  init_axes sp (sh v) = Ok axs -> map alen axs <> sh v -> ctor sp v = Err OtherError.
Proof. exact ctor_rejects_shape. Qed.
Print Assumptions C05_rejects_shape.
Theorem C05_rejects_dup_objs : forall l v, ~ NoDup (map aname l) -> ctor (SAxisObjs l) v = Err ValueError.
Proof. exact ctor_rejects_dup_axisobjs. Qed.
Print Assumptions C05_rejects_dup_objs.
Theorem C05_rejects_dup_pairs : forall (ns : list string) ls v,
  List.length ns = List.length ls -> ~ In "" ns -> ~ NoDup ns -> ctor (SPairs (combine (map DStr ns) ls)) v = Err ValueError.
Proof. exact ctor_rejects_dup_pairs. Qed.
Print Assumptions C05_rejects_dup_pairs.
Theorem C05_rejects_dup_lists : forall (ns : list string) ls v,
  List.length ns = List.length ls -> ~ In "" ns -> ~ NoDup ns -> ctor (SLists ls (Some (map DStr ns))) v = Err ValueError.
Proof. exact ctor_rejects_dup_lists. Qed.
Print Assumptions C05_rejects_dup_lists.

(* ---- operations: well-formedness is an invariant of every program over the covered operations ---- *)
(* [covered a o]: transpose / swapaxes / rollaxis / repeat / newaxis (non-empty name) / squeeze / reductions /
   cumulative / diff / argmin,argmax / dropna / fillna / setna / mask assignment / take_axis / compress_axis /
   sort_axis / interp_axis / interp_like / in-place relabelling / a.dims = / queries; align / binary operations
   in both operand orders / broadcast (to axes with non-empty names, to another array) / broadcast_arrays, whose
   other operands [ins] are well-formed too; stack (new axis name non-empty) and concatenate; and in-place renaming of
   one axis PROVIDED the new name is not the name of another dimension (open finding axis-name-sibling); flatten (the
   grouped axis takes the product length and a name no other dimension has: the constructor refuses it otherwise),
   reductions over a tuple of axes and percentiles (scalar or list of percentiles, over one axis or a tuple); unflatten
   PROVIDED every grouped axis is consistent ([groups_okb]: its length is the product of its members' lengths, its members
   are named), which flatten establishes and keeps; reshape with comma-joined names under the same condition and for
   non-empty member names.  Every operation of the language (Model/Ops.v) is covered, three of them under a decidable side
   condition evaluated on the state at hand ([covered]). *)
Theorem C05_step_wf : forall ins o a v, Forall WF ins -> WF a -> covered a o = true -> apply_op ins o a = Ok v -> WFv v.
Proof. exact apply_op_wf. Qed.
Print Assumptions C05_step_wf.
Theorem C05_program_wf : forall ins ops, Forall WF ins -> forall a v, WF a -> prog_covered ins ops a = true -> run_ops ins ops a = Ok v -> WFv v.
Proof. exact run_ops_wf. Qed.
Print Assumptions C05_program_wf.
Theorem C05_flatten_wf : forall rs as_set insert a r, WF a -> flatten rs as_set insert a = Ok r -> WF r.
Proof. exact flatten_wf. Qed.
Print Assumptions C05_flatten_wf.
Theorem C05_reduce_any_wf : forall f skipna ax a v, WF a -> reduce_any f skipna ax a = Ok v -> WFv v.
Proof. exact reduce_any_wf. Qed.
Print Assumptions C05_reduce_any_wf.
Theorem C05_percentile_wf : forall ins qs scalar kk ax a v, WF a -> apply_op ins (OPercentile qs scalar kk ax) a = Ok v -> WFv v.
Proof. exact percentile_wf. Qed.
Print Assumptions C05_percentile_wf.
Theorem C05_unflatten_wf : forall a r, WF a -> groups_ok a -> unflatten a = Ok r -> WF r.
Proof. exact unflatten_wf. Qed.
Print Assumptions C05_unflatten_wf.
Theorem C05_flatten_groups_ok : forall rs as_set insert a r, WF a -> groups_ok a -> flatten rs as_set insert a = Ok r -> groups_ok r.
Proof. exact flatten_groups_ok. Qed.
Print Assumptions C05_flatten_groups_ok.
Theorem C05_flatten_unflatten_wf : forall rs as_set insert a b r,
  WF a -> groups_ok a -> flatten rs as_set insert a = Ok b -> unflatten b = Ok r -> WF r.
Proof. exact flatten_unflatten_wf. Qed.
Print Assumptions C05_flatten_unflatten_wf.
Theorem C05_reshape_wf : forall newdims a r,
  WF a -> groups_ok a -> ~ In "" (flat_map split_commas newdims) -> reshape newdims a = Ok r -> WF r.
Proof. exact reshape_wf. Qed.
Print Assumptions C05_reshape_wf.
(* without any condition on the state: programs over every operation but the in-place rename of one axis, unflatten and
   grouped reshape (new dimension names non-empty), with ANY arguments *)
Theorem C05_program_wf_static : forall ins ops a v,
  Forall WF ins -> WF a -> forallb static_op ops = true -> run_ops ins ops a = Ok v -> WFv v.
Proof. exact run_ops_wf_static. Qed.
Print Assumptions C05_program_wf_static.
(* the side condition on renaming is necessary: the faithful model (like the code) accepts a sibling's name *)
Theorem C05_rename_sibling_refuted :
  exists a r n v, WF a /\ apply_op [] (ORenameAxis r n) a = Ok (VArr v) /\ wfb v = false.
Proof.
  exists (Arr [Ax "a" KI [L_ 0] [] []; Ax "b" KI [L_ 0; L_ 1] [] []] [1; 2] KF [N_ 1; N_ 2] []), (ByName "a"), "b".
  eexists. split; [apply wfb_WF; vm_compute; reflexivity|]. split; vm_compute; reflexivity.
Qed.
Print Assumptions C05_rename_sibling_refuted.

(* ---- history independence of the cached state ---- *)
(* the cached answer of is_monotonic() is right in every state reachable from a fresh Axis by any history of
   queries, label edits, sorts, slices, reversals, takes and copies ... *)
Theorem C05_cache_invariant : forall ops ls k, cache_ok (fst (crun ops {| cl := ls; ck := k; cm := None |})).
Proof. exact crun_cache_ok. Qed.
Print Assumptions C05_cache_invariant.
(* ... so an Axis with a history answers every operation like a fresh Axis with the same labels *)
Theorem C05_cache_history_independent : forall s o,
  cache_ok s ->
  snd (cstep s o) = snd (cstep (fresh s) o) /\
  cl (fst (cstep s o)) = cl (fst (cstep (fresh s) o)) /\ ck (fst (cstep s o)) = ck (fst (cstep (fresh s) o)).
Proof. exact cache_history_independent. Qed.
Print Assumptions C05_cache_history_independent.

(* ---- non-vacuity ---- *)
Definition ex3 : darr :=
  Arr [Ax "t" KI [L_ 4; L_ 0; L_ 2] [] []; Ax "u" KO [LStr "p"; LStr "q"] [] []] [3; 2] KF
      [N_ 40; N_ 41; N_ 0; N_ 1; N_ 20; N_ 21] [("units", MStr "K")].
Definition ex_prog : list op :=
  [OSortAxis (ByName "t"); OTranspose []; ONewaxis "z" None 1; OCum false false (ByName "t");
   ODiff (ByName "t") Backward false 1; OSetDims ["a"; "b"; "c"]; ORenameAxis (ByPos 0) "q";
   OSetLabel (ByName "c") 0 (L_ 9) KI; OSqueeze None; OReduce RSum false (AxOne (ByName "c"))].
Example C05_program_nonvacuous :
  WF ex3 /\ prog_covered [] ex_prog ex3 = true /\
  exists r, run_ops [] ex_prog ex3 = Ok (VArr r) /\ dims r = ["q"] /\ dat (vals r) = [N_ 60; N_ 62].
Proof.
  split; [apply wfb_WF; vm_compute; reflexivity|]. split; [vm_compute; reflexivity|].
  exists (Arr [Ax "q" KO [LStr "p"; LStr "q"] [] []] [2] KF [N_ 60; N_ 62] [("units", MStr "K")]).
  split; [vm_compute; reflexivity|]. split; vm_compute; reflexivity.
Qed.
Definition ex_prog2 : list op :=
  [ONewaxis "z" None 0; OReduce RSum false (AxMany [ByName "z"; ByName "u"]); OPercentile [1#2; 1#1]%Q false KF (AxOne (ByName "t"))].
Example C05_static_nonvacuous : forallb static_op ex_prog2 = true /\ forallb static_op [OSortAxis (ByName "t"); OTranspose []; OSetAxis (ByPos 0) KI [L_ 7; L_ 8] (Some "w")] = true.
Proof. split; reflexivity. Qed.
Example C05_grouped_nonvacuous :
  prog_covered [] ex_prog2 ex3 = true /\
  exists r, run_ops [] ex_prog2 ex3 = Ok (VArr r) /\ dims r = ["t_percentile"] /\ dat (vals r) = [CNum (280 # 200); CNum (180 # 100)].
Proof.
  split; [vm_compute; reflexivity|]. eexists. split; [vm_compute; reflexivity|]. split; vm_compute; reflexivity.
Qed.
Example C05_unflatten_nonvacuous :
  prog_covered [] [OFlatten [ByName "u"; ByName "t"] false None; OUnflatten] ex3 = true /\
  exists r, run_ops [] [OFlatten [ByName "u"; ByName "t"] false None; OUnflatten] ex3 = Ok (VArr r) /\ dims r = ["u"; "t"].
Proof. split; [vm_compute; reflexivity|]. eexists. split; [vm_compute; reflexivity|]. vm_compute; reflexivity. Qed.
Example C05_reshape_nonvacuous :
  prog_covered [] [OReshape ["u,t"]; OReshape ["t"; "new,u"]] ex3 = true /\
  exists r, run_ops [] [OReshape ["u,t"]; OReshape ["t"; "new,u"]] ex3 = Ok (VArr r) /\ dims r = ["t"; "new,u"] /\ sh (vals r) = [3; 2].
Proof. split; [vm_compute; reflexivity|]. eexists. split; [vm_compute; reflexivity|]. split; vm_compute; reflexivity. Qed.
Example C05_flatten_nonvacuous :
  exists r, flatten [ByName "u"; ByName "t"] false None ex3 = Ok r /\ dims r = ["u,t"] /\ sh (vals r) = [6].
Proof. eexists. split; [vm_compute; reflexivity|]. split; vm_compute; reflexivity. Qed.
Definition ex_v : nd := mk [2; 1] KF (fun c => N_ (Z.of_nat (nth 0 c 0))).
Definition ex_ls : list labspec := [(KI, [L_ 5; L_ 6]); (KO, [LStr "p"])].
Definition ex_built : darr := Arr [Ax "x" KI [L_ 5; L_ 6] [] []; Ax "y" KO [LStr "p"] [] []] [2; 1] KF [N_ 0; N_ 1] [].
Example C05_forms_nonvacuous :
  ctor (SLists ex_ls (Some [DStr "x"; DStr "y"])) ex_v = Ok ex_built /\
  ctor (SDict [(DStr "y", (KO, [LStr "p"])); (DStr "x", (KI, [L_ 5; L_ 6]))] [DStr "x"; DStr "y"]) ex_v = Ok ex_built /\
  ctor (SPairs [(DStr "x", (KI, [L_ 5; L_ 6])); (DStr "y", (KO, [LStr "p"]))]) ex_v = Ok ex_built /\ wfb ex_built = true /\
  ctor (SPairs [(DStr "x", (KI, [L_ 5; L_ 6])); (DStr "x", (KO, [LStr "p"]))]) ex_v = Err ValueError /\
  ctor (SLists [(KI, [L_ 5]); (KO, [LStr "p"])] (Some [DStr "x"; DStr "y"])) ex_v = Err OtherError.
Proof.
  split; [vm_compute; reflexivity|]. split; [vm_compute; reflexivity|]. split; [vm_compute; reflexivity|].
  split; [vm_compute; reflexivity|]. split; vm_compute; reflexivity.
Qed.
Example C05_cache_nonvacuous :
  snd (crun [CQuery; CSetItem 0 (L_ 9) KI; CQuery; CSort; CQuery; CSlice 1 3; CReverse; CQuery] {| cl := [L_ 1; L_ 2; L_ 3]; ck := KI; cm := None |})
  = [OBool true; ONone; OBool false; ONone; OBool true; ONone; ONone; OBool true].
Proof. vm_compute. reflexivity. Qed.
