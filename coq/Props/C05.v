From DA Require Import Prelude.
