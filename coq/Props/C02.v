(* C02 - Label slices are inclusive bounding boxes; position slices stay NumPy-like.
   [g_locate_slice] & co are GENERATED from /repo/dimarray/core/indexing.py on every run. *)
From DA Require Import Prelude NDArray Array PyRT.
From DA.Gen Require Import locate_slice.
From DA.Model Require Import SliceSpec.
From DA.Proofs Require Import C02_proofs C02_decreasing C02_negstep C02_step C02_negsteps.
From Coq Require Import Sorted.

(* unbounded: on any increasing numeric axis that the code's own test classifies as monotonic, for
   every (start, stop) - present or not, labels or not - and every positive or absent step, the
   slice bounds computed by the generated code are the searchsorted counts ... *)
Theorem C02_bounds_increasing : forall k xs lo hi step,
  (k = KI \/ k = KF) ->
  g_is_monotonic_equal (arrQ k xs) = Ok (PBool true) ->
  axis_increasing xs = true ->
  (step = None \/ exists s, step = Some s /\ (0 < s)%Z) ->
  slice_bounds (arrQ k xs) (optQ lo) (optQ hi) step
  = Ok (option_map (fun q => Z.of_nat (count_lt q xs)) lo, option_map (fun q => Z.of_nat (count_le q xs)) hi).
Proof. exact bridge_inc. Qed.
Print Assumptions C02_bounds_increasing.

(* ... which delimit exactly the positions whose label lies in the closed interval [lo, hi] *)
Theorem C02_bbox : forall xs lo hi i,
  StronglySorted Qlt xs -> (i < List.length xs)%nat ->
  ((count_lt lo xs <= i < count_le hi xs)%nat <-> (lo <= nth i xs 0 /\ nth i xs 0 <= hi)%Q).
Proof. exact bbox_increasing. Qed.
Print Assumptions C02_bbox.

(* end to end for closed bounds and unit step, through Python's slice semantics *)
Theorem C02_slice_increasing : forall k xs lo hi,
  (k = KI \/ k = KF) ->
  g_is_monotonic_equal (arrQ k xs) = Ok (PBool true) ->
  axis_increasing xs = true ->
  StronglySorted Qlt xs ->
  exists a b,
    run_slice (arrQ k xs) (PNum lo) (PNum hi) None (List.length xs) = Ok (seq a (b - a)) /\
    forall i, In i (seq a (b - a)) <->
              (i < List.length xs)%nat /\ (lo <= nth i xs 0 /\ nth i xs 0 <= hi)%Q.
Proof. exact bbox_slice_increasing. Qed.
Print Assumptions C02_slice_increasing.

(* the same, unbounded, on DECREASING axes (the code's inverted-axis branch, size - searchsorted(values[::-1], ..)):
   the bounds are n minus the counts ... *)
Theorem C02_bounds_decreasing : forall k xs lo hi step,
  (k = KI \/ k = KF) ->
  g_is_monotonic_equal (arrQ k xs) = Ok (PBool true) ->
  axis_increasing xs = false ->
  (step = None \/ exists s, step = Some s /\ (0 < s)%Z) ->
  slice_bounds (arrQ k xs) (optQ lo) (optQ hi) step
  = Ok (option_map (fun q => Z.of_nat (List.length xs) - Z.of_nat (count_le q xs))%Z lo,
        option_map (fun q => Z.of_nat (List.length xs) - Z.of_nat (count_lt q xs))%Z hi).
Proof. exact bridge_dec. Qed.
Print Assumptions C02_bounds_decreasing.
(* ... which delimit exactly the positions whose label lies between the bounds, both included (a[lo:hi] is
   written in the direction of travel: lo is the larger bound) *)
Theorem C02_bbox_decreasing : forall xs lo hi i,
  StronglySorted Qgt' xs -> (i < List.length xs)%nat ->
  ((List.length xs - count_le lo xs <= i < List.length xs - count_lt hi xs)%nat
   <-> (hi <= nth i xs 0 /\ nth i xs 0 <= lo)%Q).
Proof. exact bbox_decreasing. Qed.
Print Assumptions C02_bbox_decreasing.
Theorem C02_slice_decreasing : forall k xs lo hi,
  (k = KI \/ k = KF) ->
  g_is_monotonic_equal (arrQ k xs) = Ok (PBool true) ->
  axis_increasing xs = false ->
  StronglySorted Qgt' xs ->
  exists a b,
    run_slice (arrQ k xs) (PNum lo) (PNum hi) None (List.length xs) = Ok (seq a (b - a)) /\
    forall i, In i (seq a (b - a)) <->
              (i < List.length xs)%nat /\ (hi <= nth i xs 0 /\ nth i xs 0 <= lo)%Q.
Proof. exact bbox_slice_decreasing. Qed.
Print Assumptions C02_slice_decreasing.
Example C02_decreasing_nonvacuous :
  let xs := [4; 2.5; 1]%Q in
  g_is_monotonic_equal (arrQ KF xs) = Ok (PBool true) /\ axis_increasing xs = false /\
  StronglySorted Qgt' xs /\
  run_slice (arrQ KF xs) (PNum 3) (PNum 1) None 3 = Ok [1; 2]%nat.
Proof.
  split; [reflexivity|]. split; [reflexivity|]. split.
  - repeat constructor.
  - reflexivity.
Qed.
(* NEGATIVE steps, unbounded, both axis directions: the generated code swaps the searchsorted sides, moves the
   start one position down (nothing selected when that leaves the axis) and turns the stop into an exclusive
   lower bound, None when it reaches the first position [bounds_neg] ... *)
Theorem C02_bounds_negstep_increasing : forall k xs lo hi s,
  (k = KI \/ k = KF) ->
  g_is_monotonic_equal (arrQ k xs) = Ok (PBool true) ->
  axis_increasing xs = true ->
  (s < 0)%Z ->
  slice_bounds (arrQ k xs) (optQ lo) (optQ hi) (Some s)
  = Ok (bounds_neg (option_map (fun q => Z.of_nat (count_le q xs)) lo) (option_map (fun q => Z.of_nat (count_lt q xs)) hi)).
Proof. exact bridge_neg_inc. Qed.
Print Assumptions C02_bounds_negstep_increasing.
Theorem C02_bounds_negstep_decreasing : forall k xs lo hi s,
  (k = KI \/ k = KF) ->
  g_is_monotonic_equal (arrQ k xs) = Ok (PBool true) ->
  axis_increasing xs = false ->
  (s < 0)%Z ->
  slice_bounds (arrQ k xs) (optQ lo) (optQ hi) (Some s)
  = Ok (bounds_neg (option_map (fun q => Z.of_nat (List.length xs) - Z.of_nat (count_lt q xs))%Z lo)
                   (option_map (fun q => Z.of_nat (List.length xs) - Z.of_nat (count_le q xs))%Z hi)).
Proof. exact bridge_neg_dec. Qed.
Print Assumptions C02_bounds_negstep_decreasing.
(* ... so that, through Python's slice semantics, a[lo:hi:-1] is exactly the positions whose label lies between
   the bounds, both included, in REVERSE axis order - with no wrap-around when a bound lies outside the axis *)
Theorem C02_slice_reversed_increasing : forall k xs lo hi,
  (k = KI \/ k = KF) ->
  g_is_monotonic_equal (arrQ k xs) = Ok (PBool true) ->
  axis_increasing xs = true ->
  StronglySorted Qlt xs ->
  exists a b,
    run_slice (arrQ k xs) (PNum lo) (PNum hi) (Some (-1)%Z) (List.length xs) = Ok (rev (seq a (b - a))) /\
    forall i, In i (rev (seq a (b - a))) <->
              (i < List.length xs)%nat /\ (hi <= nth i xs 0 /\ nth i xs 0 <= lo)%Q.
Proof. exact bbox_slice_neg_increasing. Qed.
Print Assumptions C02_slice_reversed_increasing.
Theorem C02_slice_reversed_decreasing : forall k xs lo hi,
  (k = KI \/ k = KF) ->
  g_is_monotonic_equal (arrQ k xs) = Ok (PBool true) ->
  axis_increasing xs = false ->
  StronglySorted Qgt' xs ->
  exists a b,
    run_slice (arrQ k xs) (PNum lo) (PNum hi) (Some (-1)%Z) (List.length xs) = Ok (rev (seq a (b - a))) /\
    forall i, In i (rev (seq a (b - a))) <->
              (i < List.length xs)%nat /\ (lo <= nth i xs 0 /\ nth i xs 0 <= hi)%Q.
Proof. exact bbox_slice_neg_decreasing. Qed.
Print Assumptions C02_slice_reversed_decreasing.
Example C02_reversed_nonvacuous :
  run_slice (arrQ KF [1; 2.5; 4]%Q) (PNum 3) (PNum 1) (Some (-1)%Z) 3 = Ok [1; 0]%nat /\
  run_slice (arrQ KF [4; 2.5; 1]%Q) (PNum 2) (PNum 5) (Some (-1)%Z) 3 = Ok [1; 0]%nat /\
  run_slice (arrQ KF [1; 2.5; 4]%Q) (PNum 0) (PNum (-1)) (Some (-1)%Z) 3 = Ok [].
Proof. split; [reflexivity|]. split; reflexivity. Qed.
(* any POSITIVE step, unbounded in the axis, the bounds and the step: a[lo:hi:s] is exactly every s-th position of the
   closed bounding box, counted from the first position of the box ([a] below: no earlier position is in the box) *)
Theorem C02_slice_step_increasing : forall k xs lo hi s,
  (k = KI \/ k = KF) ->
  g_is_monotonic_equal (arrQ k xs) = Ok (PBool true) ->
  axis_increasing xs = true ->
  StronglySorted Qlt xs ->
  (0 < s)%Z ->
  exists a ps,
    run_slice (arrQ k xs) (PNum lo) (PNum hi) (Some s) (List.length xs) = Ok ps /\
    (forall i, (i < a)%nat -> ~ (lo <= nth i xs 0)%Q) /\
    forall i, In i ps <->
              (i < List.length xs)%nat /\ (lo <= nth i xs 0 /\ nth i xs 0 <= hi)%Q /\
              exists j, i = (a + j * Z.to_nat s)%nat.
Proof. exact bbox_slice_step_increasing. Qed.
Print Assumptions C02_slice_step_increasing.
Theorem C02_slice_step_decreasing : forall k xs lo hi s,
  (k = KI \/ k = KF) ->
  g_is_monotonic_equal (arrQ k xs) = Ok (PBool true) ->
  axis_increasing xs = false ->
  StronglySorted Qgt' xs ->
  (0 < s)%Z ->
  exists a ps,
    run_slice (arrQ k xs) (PNum lo) (PNum hi) (Some s) (List.length xs) = Ok ps /\
    (forall i, (i < a)%nat -> ~ (hi <= nth i xs 0 /\ nth i xs 0 <= lo)%Q) /\
    forall i, In i ps <->
              (i < List.length xs)%nat /\ (hi <= nth i xs 0 /\ nth i xs 0 <= lo)%Q /\
              exists j, i = (a + j * Z.to_nat s)%nat.
Proof. exact bbox_slice_step_decreasing. Qed.
Print Assumptions C02_slice_step_decreasing.
Example C02_step_nonvacuous :
  run_slice (arrQ KF [1; 2.5; 4; 5; 7; 8]%Q) (PNum 2) (PNum 7.5) (Some 2%Z) 6 = Ok [1; 3]%nat /\
  run_slice (arrQ KF [8; 7; 5; 4; 2.5; 1]%Q) (PNum 7.5) (PNum 2) (Some 3%Z) 6 = Ok [1; 4]%nat /\
  run_slice (arrQ KI [1; 2; 3]%Q) (PNum 1) (PNum 3) (Some 5%Z) 3 = Ok [0]%nat.
Proof. split; [reflexivity|]. split; reflexivity. Qed.
(* any NEGATIVE step: a[lo:hi:s] is exactly every |s|-th position of the closed bounding box counted DOWN from the last
   position of the box ([b - 1] below: no position from b on is in the box), with no wrap-around *)
Theorem C02_slice_negstep_increasing : forall k xs lo hi s,
  (k = KI \/ k = KF) ->
  g_is_monotonic_equal (arrQ k xs) = Ok (PBool true) ->
  axis_increasing xs = true ->
  StronglySorted Qlt xs ->
  (s < 0)%Z ->
  exists b ps,
    run_slice (arrQ k xs) (PNum lo) (PNum hi) (Some s) (List.length xs) = Ok ps /\
    (forall i, (b <= i < List.length xs)%nat -> ~ (nth i xs 0 <= lo)%Q) /\
    forall i, In i ps <->
              (i < List.length xs)%nat /\ (hi <= nth i xs 0 /\ nth i xs 0 <= lo)%Q /\
              exists j, (i + j * Z.to_nat (- s) = b - 1)%nat.
Proof. exact bbox_slice_negstep_increasing. Qed.
Print Assumptions C02_slice_negstep_increasing.
Theorem C02_slice_negstep_decreasing : forall k xs lo hi s,
  (k = KI \/ k = KF) ->
  g_is_monotonic_equal (arrQ k xs) = Ok (PBool true) ->
  axis_increasing xs = false ->
  StronglySorted Qgt' xs ->
  (s < 0)%Z ->
  exists b ps,
    run_slice (arrQ k xs) (PNum lo) (PNum hi) (Some s) (List.length xs) = Ok ps /\
    (forall i, (b <= i < List.length xs)%nat -> ~ (lo <= nth i xs 0 /\ nth i xs 0 <= hi)%Q) /\
    forall i, In i ps <->
              (i < List.length xs)%nat /\ (lo <= nth i xs 0 /\ nth i xs 0 <= hi)%Q /\
              exists j, (i + j * Z.to_nat (- s) = b - 1)%nat.
Proof. exact bbox_slice_negstep_decreasing. Qed.
Print Assumptions C02_slice_negstep_decreasing.
Example C02_negstep_nonvacuous :
  run_slice (arrQ KF [1; 2.5; 4; 5; 7; 8]%Q) (PNum 7.5) (PNum 2) (Some (-2)%Z) 6 = Ok [4; 2]%nat /\
  run_slice (arrQ KF [8; 7; 5; 4; 2.5; 1]%Q) (PNum 0) (PNum 7.5) (Some (-3)%Z) 6 = Ok [5; 2]%nat.
Proof. split; reflexivity. Qed.
(* position slices keep Python/NumPy's exclusive-stop meaning *)
Theorem C02_position_slice : forall a b n,
  (a <= n)%nat -> (b <= n)%nat ->
  slice_positions (Some (Z.of_nat a)) (Some (Z.of_nat b)) None n = Ok (seq a (b - a)).
Proof. exact slice_positions_unit. Qed.
Print Assumptions C02_position_slice.

(* bounded (the finite domain the property's quantifier names, on the label grid 2,4,..,2n with
   bounds 1..2n+1 or None): both axis directions, int and float kinds, lengths 0-5, steps
   None,1,2,3,-1,-2: generated code + Python slice = declarative specification [spec_positions] *)
Theorem C02_sweep_monotonic : forall k n dec lo hi st,
  In k [KI; KF] -> (n < 6)%nat -> In lo (grid_bounds n) -> In hi (grid_bounds n) -> In st steps ->
  slice_case_ok k (grid_axis n dec) lo hi st = true.
Proof. exact sweep_monotonic_forall. Qed.
Print Assumptions C02_sweep_monotonic.

(* bounded: all str axes and all non-monotonic numeric axes of length <= 4 (every stored order),
   bounds among the labels, None, or an absent label: result = [spec_strict] (IndexError for an
   absent bound, no wrap-around, stop label included) *)
Theorem C02_sweep_strict : strict_sweep_ok = true.
Proof. exact sweep_strict. Qed.
Print Assumptions C02_sweep_strict.

(* non-vacuity: a concrete axis satisfies the hypotheses of the unbounded theorems *)
Example C02_nonvacuous :
  let xs := [1; 2.5; 4]%Q in
  g_is_monotonic_equal (arrQ KF xs) = Ok (PBool true) /\ axis_increasing xs = true /\
  StronglySorted Qlt xs /\
  run_slice (arrQ KF xs) (PNum 2) (PNum 4) None 3 = Ok [1; 2]%nat.
Proof.
  split; [reflexivity|]. split; [reflexivity|]. split.
  - repeat constructor.
  - reflexivity.
Qed.
