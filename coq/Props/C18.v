(* C18 - interp_axis is per-fibre linear interpolation, exact at the nodes. *)
From Coq Require Import Qround Qabs Sorted.
From DA Require Import Prelude NDArray Array PyRT.
From DA.Model Require Import Value Reshape SliceSpec Indexing Align Transform.
From DA.Proofs Require Import C10_proofs C18_proofs.
Open Scope nat_scope.
Open Scope list_scope.

(* N-d arrays: the axis becomes exactly the new points; other axes and metadata unchanged; every fibre
   along the axis is interpolated independently with the 1-D rule [interp1] against the labels, after
   the axis has been sorted when it was not increasing (the stored order does not matter: C17 argsort) *)
Theorem C18_interp_axis : forall newk news r left right a res n0 n1 rest,
  sh (vals a) = n0 :: n1 :: rest ->
  interp_axis newk news r left right a = Ok res ->
  exists i nq a' xq,
    axis_info a r = Ok i /\ labels_q news = Ok nq /\
    a' = (if is_sorted_q (match labels_q (alab (nth i (axes a) dax0)) with Ok q => q | Err _ => [] end)
          then a else take_axis_pos (argsort (alab (nth i (axes a) dax0))) i a) /\
    labels_q (alab (nth i (axes a') dax0)) = Ok xq /\
    attrs res = attrs a' /\
    axes res = set_nth i (ax_new (aname (nth i (axes a') dax0)) (match newk with KI => KI | _ => KF end) news []) (axes a') /\
    forall c, inb (sh (vals res)) c = true ->
      get (vals res) c = nth (nth i c 0) (map (interp1 xq (fibre (vals a') i (remove_nth i c)) left right) nq) CNaN.
Proof. exact interp_axis_spec. Qed.
Print Assumptions C18_interp_axis.

(* the 1-D rule reproduces the original values at existing labels ... *)
Theorem C18_exact_at_nodes : forall xs ys l r i,
  StronglySorted Qlt xs -> List.length ys = List.length xs -> i < List.length xs ->
  interp1 xs ys l r (nth i xs 0%Q) = nth i ys CNaN.
Proof. exact interp1_node. Qed.
Print Assumptions C18_exact_at_nodes.
(* ... returns the left / right fill outside the label range ... *)
Theorem C18_left : forall x0 xs ys l r x, (x < x0)%Q -> interp1 (x0 :: xs) ys l r x = l.
Proof. exact interp1_left. Qed.
Print Assumptions C18_left.
Theorem C18_right : forall x0 xs ys l r x,
  (x0 <= x)%Q -> (last (x0 :: xs) x0 < x)%Q -> interp1 (x0 :: xs) ys l r x = r.
Proof. exact interp1_right. Qed.
Print Assumptions C18_right.
(* ... and is the straight line between two neighbouring nodes *)
Theorem C18_between : forall x0 x1 xt (yt : list cell) a b x,
  (x0 < x)%Q -> (x < x1)%Q ->
  interp_seg (x0 :: x1 :: xt) (CNum a :: CNum b :: yt) x = Some (CNum (a + (x - x0) / (x1 - x0) * (b - a))).
Proof. exact interp_seg_between. Qed.
Print Assumptions C18_between.

(* interp_like is the successive application of interp_axis - hence of the 1-D rule above - over exactly the
   dimensions the two objects share, with the other object's labels, and the identity when none is shared *)
Theorem C18_interp_like : forall others left right a,
  interp_like others left right a = fold_left (interp_step left right) (shared_axes others (map aname (axes a))) (Ok a).
Proof. exact interp_like_successive. Qed.
Print Assumptions C18_interp_like.
Theorem C18_interp_like_disjoint : forall others left right a,
  shared_axes others (map aname (axes a)) = [] -> interp_like others left right a = Ok a.
Proof. exact interp_like_disjoint. Qed.
Print Assumptions C18_interp_like_disjoint.

Definition ex_a : darr :=
  Arr [Ax "t" KI [L_ 4; L_ 0; L_ 2] [] []; Ax "u" KO [LStr "p"; LStr "q"] [] []] [3; 2] KF
      [N_ 40; N_ 41; N_ 0; N_ 1; N_ 20; N_ 21] [("units", MStr "K")].
Example C18_nonvacuous :
  exists r, interp_axis KF [L_ 1; L_ 2; L_ 9] (ByName "t") CNaN (N_ 7) ex_a = Ok r /\
    dat (vals r) = [CNum (qz 20 2); CNum (qz 22 2); N_ 20; N_ 21; N_ 7; N_ 7] /\
    alab (nth 0 (axes r) dax0) = [L_ 1; L_ 2; L_ 9] /\ attrs r = attrs ex_a.
Proof. eexists. repeat split; vm_compute; reflexivity. Qed.
Example C18_like_nonvacuous :
  exists r, interp_like [("w", KI, [L_ 1]); ("t", KF, [L_ 1; L_ 2; L_ 9])] CNaN (N_ 7) ex_a = Ok r /\
    dat (vals r) = [CNum (qz 20 2); CNum (qz 22 2); N_ 20; N_ 21; N_ 7; N_ 7] /\
    shared_axes [("w", KI, [L_ 1]); ("t", KF, [L_ 1; L_ 2; L_ 9])] (map aname (axes ex_a)) = [("t", KF, [L_ 1; L_ 2; L_ 9])].
Proof. eexists. repeat split; vm_compute; reflexivity. Qed.
