(* C10 - Rearranging dimensions preserves every element's label coordinates.
   Only statements, each closed by [exact] of a lemma proved in Proofs/C10_proofs.v. *)
From DA Require Import Prelude NDArray Array.
From DA.Model Require Import Value Reshape Indexing Align.
From DA.Proofs Require Import C10_proofs C05_proofs C10_broadcast.
Open Scope nat_scope.

(* transpose: the result's axes are the requested permutation of the input's axis records
   (same labels, same order, same metadata), attrs kept, and the element at result coordinate c'
   is the input element at the coordinate whose p[k]-th entry is c'[k] *)
Theorem C10_transpose : forall p a r,
  wf_shape a -> transpose_pos p a = Ok r ->
  is_perm p = true /\ List.length p = List.length (axes a) /\
  wf_shape r /\
  axes r = map (fun j => nth j (axes a) dax) p /\
  attrs r = attrs a /\ kd (vals r) = kd (vals a) /\
  forall c', inb (sh (vals r)) c' = true ->
     get (vals r) c' = get (vals a) (src_coord p c').
Proof. exact transpose_pos_spec. Qed.
Print Assumptions C10_transpose.

Theorem C10_src_coord : forall p c' k,
  is_perm p = true -> k < List.length p ->
  nth (nth k p 0) (src_coord p c') 0 = nth k c' 0.
Proof. exact src_coord_spec. Qed.
Print Assumptions C10_src_coord.

Theorem C10_transpose_dims : forall p a r,
  wf_shape a -> transpose_pos p a = Ok r -> dims r = map (fun j => nth j (dims a) EmptyString) p.
Proof. exact transpose_pos_dims. Qed.
Print Assumptions C10_transpose_dims.

(* a.transpose(p).transpose(inverse p) == a *)
Theorem C10_transpose_inverse : forall p a r,
  wf_shape a -> transpose_pos p a = Ok r -> transpose_pos (inv_perm p) r = Ok a.
Proof. exact transpose_inverse. Qed.
Print Assumptions C10_transpose_inverse.

(* names and positions are interchangeable *)
Theorem C10_ref_by_name : forall a s i, axis_info a (ByName s) = Ok i -> nth i (dims a) EmptyString = s.
Proof. exact axis_info_name. Qed.
Print Assumptions C10_ref_by_name.
Theorem C10_ref_by_pos : forall a z i, axis_info a (ByPos z) = Ok i -> (0 <= z)%Z -> i = Z.to_nat z.
Proof. exact axis_info_pos. Qed.
Print Assumptions C10_ref_by_pos.

Theorem C10_swapaxes : forall r1 r2 a r,
  wf_shape a -> swapaxes r1 r2 a = Ok r ->
  exists i j, axis_info a r1 = Ok i /\ axis_info a r2 = Ok j /\
    wf_shape r /\ attrs r = attrs a /\
    axes r = map (fun k => nth (if k =? i then j else if k =? j then i else k) (axes a) dax)
                 (seq 0 (List.length (axes a))) /\
    forall c', inb (sh (vals r)) c' = true ->
       get (vals r) c' = get (vals a) (src_coord (swap_perm (List.length (axes a)) i j) c').
Proof. exact swapaxes_spec. Qed.
Print Assumptions C10_swapaxes.

Theorem C10_rollaxis : forall rf start a r,
  wf_shape a -> rollaxis rf start a = Ok r ->
  exists ax s, axis_info a rf = Ok ax /\ s <= List.length (axes a) /\
    (Z.of_nat s = if (start <? 0)%Z then start + Z.of_nat (List.length (axes a)) else start)%Z /\
    wf_shape r /\ attrs r = attrs a /\
    axes r = map (fun j => nth j (axes a) dax) (roll_perm (List.length (axes a)) ax s) /\
    forall c', inb (sh (vals r)) c' = true ->
       get (vals r) c' = get (vals a) (src_coord (roll_perm (List.length (axes a)) ax s) c').
Proof. exact rollaxis_spec. Qed.
Print Assumptions C10_rollaxis.

(* the rolled axis travels to just before [start]; the others keep their order *)
Theorem C10_roll_moves : forall (l : list axis) d ax s,
  ax < List.length l ->
  map (fun j => nth j l d) (roll_perm (List.length l) ax s)
  = insert_nth (if ax <? s then s - 1 else s) (nth ax l d) (remove_nth ax l).
Proof. intros; apply roll_perm_moves; assumption. Qed.
Print Assumptions C10_roll_moves.

Theorem C10_newaxis : forall name pos a r,
  wf_shape a -> newaxis name None pos a = Ok r ->
  exists q, q <= List.length (axes a) /\
    (Z.of_nat q = if (pos =? -1)%Z then Z.of_nat (List.length (axes a)) else pos)%Z /\
    ~ In name (dims a) /\ wf_shape r /\ attrs r = attrs a /\
    axes r = insert_nth q (mkaxis name KO [LNone]) (axes a) /\
    forall c', inb (sh (vals r)) c' = true -> get (vals r) c' = get (vals a) (remove_nth q c').
Proof. exact newaxis_spec. Qed.
Print Assumptions C10_newaxis.

Theorem C10_squeeze : forall rf a r,
  wf_shape a -> squeeze (Some rf) a = Ok r ->
  exists i, axis_info a rf = Ok i /\ alen (nth i (axes a) dax) = 1 /\
    wf_shape r /\ attrs r = attrs a /\
    axes r = remove_nth i (axes a) /\
    forall c', inb (sh (vals r)) c' = true -> get (vals r) c' = get (vals a) (insert_nth i 0 c').
Proof. exact squeeze_axis_spec. Qed.
Print Assumptions C10_squeeze.

Theorem C10_repeat : forall k labs rf a r,
  wf_shape a -> repeat k labs rf a = Ok r ->
  exists i, axis_info a rf = Ok i /\ alen (nth i (axes a) dax) = 1 /\
    wf_shape r /\ attrs r = attrs a /\
    axes r = set_nth i (mkaxis (aname (nth i (axes a) dax)) k labs) (axes a) /\
    forall c', inb (sh (vals r)) c' = true -> get (vals r) c' = get (vals a) (set_nth i 0 c').
Proof. exact repeat_spec. Qed.
Print Assumptions C10_repeat.

Theorem C10_squeeze_newaxis : forall name pos a r,
  wf_shape a -> newaxis name None pos a = Ok r -> squeeze (Some (ByName name)) r = Ok a.
Proof. exact squeeze_newaxis. Qed.
Print Assumptions C10_squeeze_newaxis.

(* broadcast(target axes): the result has exactly the requested dimensions in the requested order, is well-formed,
   keeps the metadata, carries every input axis of length <> 1 unchanged (same record: labels, order, metadata), and
   its element at coordinate c' is the input element at the NAME-wise corresponding coordinate [name_coord]: along
   each input dimension d, c' at the position d has in the result - 0 along input dimensions of length 1, i.e.
   replicated along newly introduced and repeated dimensions.  Unbounded in rank, sizes and target list. *)
Theorem C10_broadcast : forall newaxes a r,
  WF a -> ~ In EmptyString (map aname newaxes) -> broadcast newaxes a = Ok r ->
  WF r /\ dims r = map aname newaxes /\ attrs r = attrs a /\
  (forall ax, In ax (axes a) -> alen ax <> 1 -> In ax (axes r)) /\
  forall c', inb (sh (vals r)) c' = true ->
    inb (sh (vals a)) (name_coord a r c') = true /\ get (vals r) c' = get (vals a) (name_coord a r c').
Proof. exact broadcast_full. Qed.
Print Assumptions C10_broadcast.
(* reshape onto comma-free dimension names (the dropping of singleton dimensions, the transposition and the
   insertion of new singleton dimensions that broadcasting and arithmetic rely on): the same closed form *)
Theorem C10_reshape_plain : forall newdims a r,
  ~ In EmptyString newdims -> WF a -> reshape_plain newdims a = Ok r ->
  WF r /\ rearr a r /\ dims r = newdims.
Proof. exact reshape_plain_rearr. Qed.
Print Assumptions C10_reshape_plain.
(* broadcast_arrays: every output is such a rearrangement of the input at the same position, all outputs are
   well-formed and have one common list of dimensions *)
Theorem C10_broadcast_arrays : forall arrays l,
  Forall WF arrays -> broadcast_arrays arrays = Ok l ->
  Forall WF l /\ (exists ds, Forall (fun r => dims r = ds) l) /\
  Forall2 (fun a r => attrs r = attrs a /\
                      (forall ax, In ax (axes a) -> alen ax <> 1 -> In ax (axes r)) /\
                      forall c', inb (sh (vals r)) c' = true ->
                        inb (sh (vals a)) (name_coord a r c') = true /\ get (vals r) c' = get (vals a) (name_coord a r c'))
          arrays l.
Proof. exact broadcast_arrays_full. Qed.
Print Assumptions C10_broadcast_arrays.
Definition ex_a_b : darr :=
  Arr [Ax "x" KI [L_ 1; L_ 2] [] []; Ax "y" KO [LStr "a"; LStr "b"; LStr "c"] [] []]
      [2; 3] KF [N_ 1; N_ 2; N_ 3; N_ 4; N_ 5; N_ 6] [("units", MStr "K")].
Example C10_broadcast_nonvacuous :
  WF ex_a_b /\
  let tgt := [Ax "y" KO [LStr "a"; LStr "b"; LStr "c"] [] []; Ax "w" KI [L_ 7; L_ 8] [] []; Ax "x" KI [L_ 1; L_ 2] [] []] in
  exists r, broadcast tgt ex_a_b = Ok r /\ dims r = ["y"; "w"; "x"]%string /\ sh (vals r) = [3; 2; 2] /\
            get (vals r) [2; 1; 1] = N_ 6 /\ name_coord ex_a_b r [2; 1; 1] = [1; 2].
Proof.
  split; [apply wfb_WF; vm_compute; reflexivity|].
  eexists. split; [vm_compute; reflexivity|]. vm_compute. repeat split.
Qed.

(* non-vacuity: a concrete 2x3 array meets the hypotheses and the operations succeed on it *)
Definition ex_a : darr :=
  Arr [Ax "x" KI [L_ 1; L_ 2] [] []; Ax "y" KO [LStr "a"; LStr "b"; LStr "c"] [] []]
      [2; 3] KF [N_ 1; N_ 2; N_ 3; N_ 4; N_ 5; N_ 6] [("units", MStr "K")].
Example C10_nonvacuous :
  wf_shape ex_a /\
  (exists r, transpose_pos [1; 0] ex_a = Ok r /\ get (vals r) [2; 1] = N_ 6) /\
  (exists r, swapaxes (ByName "y") (ByPos 0) ex_a = Ok r) /\
  (exists r, rollaxis (ByName "y") 0 ex_a = Ok r) /\
  (exists r, newaxis "z" None 1 ex_a = Ok r /\ exists r2, repeat KI [L_ 7; L_ 8] (ByName "z") r = Ok r2).
Proof.
  split; [split; reflexivity|].
  split; [eexists; split; reflexivity|].
  split; [eexists; reflexivity|].
  split; [eexists; reflexivity|].
  eexists; split; [reflexivity|]. eexists; reflexivity.
Qed.
