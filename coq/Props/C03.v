(* C03 - Assignment writes exactly the addressed cells. *)
From Coq Require Import Qround.
From DA Require Import Prelude NDArray Array PyRT.
From DA.Gen Require Import cast.
From DA.Model Require Import Value Reshape SliceSpec Indexing.
From DA.Proofs Require Import C10_proofs C01_proofs C03_proofs.
Open Scope nat_scope.

(* frame + write. The positions are resolved by the SAME [get_indices] that reading uses (C01/C02).
   Labels, dims, metadata, shape untouched; unaddressed cells keep their value; addressed cells
   receive the broadcast right-hand side; both through the conversion into the (widened) kind *)
Theorem C03_setitem : forall f tol r cast a a',
  setitem f tol r cast a = Ok a' ->
  exists ps, get_indices a f tol false = Ok ps /\
    axes a' = axes a /\ attrs a' = attrs a /\ sh (vals a') = sh (vals a) /\
    kd (vals a') = (if cast then cast_kind (kd (vals a)) (rhs_kind r) else kd (vals a)) /\
    forall c, inb (sh (vals a)) c = true ->
      match box_coord ps c with
      | Some bc => cell_to_kind (kd (vals a')) (rhs_at r (out_shape ps (sh (vals a))) bc) = Ok (get (vals a') c)
      | None => cell_to_kind (kd (vals a')) (get (vals a) c) = Ok (get (vals a') c)
      end.
Proof. exact setitem_spec. Qed.
Print Assumptions C03_setitem.

(* the addressed cells are exactly the cells the same index reads:
   addressed => it is the cell read at that box coordinate ... *)
Theorem C03_addressed_is_read : forall ps c bc, box_coord ps c = Some bc -> src_of ps bc = c.
Proof. exact box_coord_sound. Qed.
Print Assumptions C03_addressed_is_read.
(* ... and (duplicate-free index lists) every cell read is addressed, from the same box coordinate:
   reading back the same index returns what was written *)
Theorem C03_read_back : forall ps s bc,
  Forall nodup_idx ps -> List.length ps = List.length s ->
  inb (out_shape ps s) bc = true -> box_coord ps (src_of ps bc) = Some bc.
Proof. exact box_coord_src_of. Qed.
Print Assumptions C03_read_back.

(* cast=True: the kind chosen by the GENERATED _maybe_cast_type represents every value of the array's
   kind and of the assigned kind exactly - finite domain {b,i,f,O,U,S}^2 decided by evaluation *)
Theorem C03_cast_lossless : forall k0 vk,
  fits (cast_kind k0 vk) k0 = true /\ fits (cast_kind k0 vk) vk = true.
Proof. exact cast_lossless. Qed.
Print Assumptions C03_cast_lossless.
Theorem C03_fits_preserves : forall k vk c,
  fits k vk = true -> cell_of_kind vk c = true ->
  exists c', cell_to_kind k c = Ok c' /\ cell_eqb c' c = true.
Proof. exact fits_preserves. Qed.
Print Assumptions C03_fits_preserves.

(* full-shape boolean masks: cells whose mask entry is false keep their value *)
Theorem C03_mask : forall m r cast a a',
  List.length (dat (vals a)) = prod (sh (vals a)) ->
  setmask m r cast a = Ok a' ->
  axes a' = axes a /\ attrs a' = attrs a /\ sh (vals a') = sh (vals a) /\
  List.length m = prod (sh (vals a)) /\
  forall i, i < List.length m -> i < List.length (dat (vals a)) ->
    nth i m false = false -> cell_to_kind (kd (vals a')) (nth i (dat (vals a)) CNaN) = Ok (nth i (dat (vals a')) CNaN).
Proof. exact setmask_spec. Qed.
Print Assumptions C03_mask.

(* inplace=False: the model is a function from values to values - the operand cannot change; that the
   implementation copies first is checked by the correspondence harness (operand snapshot) *)

Definition ex_a : darr :=
  Arr [Ax "x" KI [L_ 3; L_ 1; L_ 2] [] []; Ax "y" KO [LStr "a"; LStr "b"] [] []]
      [3; 2] KI [N_ 1; N_ 2; N_ 3; N_ 4; N_ 5; N_ 6] [].
Example C03_nonvacuous :
  exists a', setitem (FTuple [IList [L_ 2; L_ 3]; IScalar (LStr "b")]) TolNone (RScalar (CNum (qz 5 2)) KF) true ex_a = Ok a'
    /\ kd (vals a') = KF /\ dat (vals a') = [N_ 1; CNum (qz 5 2); N_ 3; N_ 4; N_ 5; CNum (qz 5 2)].
Proof. eexists. split; [reflexivity|]. split; reflexivity. Qed.
