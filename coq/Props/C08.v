(* C08 - Reductions equal NumPy's along the named axis and drop only that axis. *)
From Coq Require Import Qround Qabs.
From DA Require Import Prelude NDArray Array PyRT.
From DA.Model Require Import Value Reshape SliceSpec Indexing Align Transform Flatten.
From DA.Proofs Require Import C10_proofs C08_proofs.
Open Scope nat_scope.

Theorem C08_along_axis : forall f skipna i a r,
  wf_shape a -> i < List.length (axes a) ->
  reduce_axis f skipna i a = Ok (VArr r) ->
  axes r = remove_nth i (axes a) /\ attrs r = attrs a /\ wf_shape r /\
  kd (vals r) = red_kind f (kd (vals a)) /\
  forall c', inb (sh (vals r)) c' = true ->
    get (vals r) c' = red_cell_k f skipna (kd (vals a))
                        (map (fun j => get (vals a) (insert_nth i j c')) (seq 0 (nth i (sh (vals a)) 0))).
Proof. exact reduce_axis_arr. Qed.
Print Assumptions C08_along_axis.

Theorem C08_axis_none : forall f skipna a,
  reduce_all f skipna a = Ok (VCell (red_cell_k f skipna (kd (vals a)) (dat (vals a)))).
Proof. exact reduce_all_spec. Qed.
Print Assumptions C08_axis_none.

Theorem C08_scalar_result : forall f skipna i a c,
  reduce_axis f skipna i a = Ok (VCell c) ->
  remove_nth i (sh (vals a)) = [] /\
  c = red_cell_k f skipna (kd (vals a)) (map (fun j => get (vals a) (insert_nth i j [])) (seq 0 (nth i (sh (vals a)) 0))).
Proof. exact reduce_axis_scalar. Qed.
Print Assumptions C08_scalar_result.

Theorem C08_by_name_or_position : forall f skipna r a,
  reduce_any f skipna (AxOne r) a = (let! i := axis_info a r in reduce_axis f skipna i a).
Proof. exact reduce_one. Qed.
Print Assumptions C08_by_name_or_position.

(* a tuple of dimensions = reducing the flattened group (C11 gives the row-major order of the group) *)
Theorem C08_tuple : forall f skipna rs a,
  reduce_any f skipna (AxMany rs) a = (let! b := flatten rs false (Some 0%Z) a in reduce_axis f skipna 0 b).
Proof. exact reduce_tuple. Qed.
Print Assumptions C08_tuple.

Theorem C08_nan_propagates : forall f l,
  f <> RAll -> f <> RAny -> has_nan l = true -> red_cell f false l = CNaN.
Proof. exact red_cell_nan. Qed.
Print Assumptions C08_nan_propagates.
Theorem C08_skipna_ignores : forall f l, red_cell f true l = red_cell f false (drop_nan l).
Proof. exact red_cell_skipna. Qed.
Print Assumptions C08_skipna_ignores.

Definition ex_a : darr :=
  Arr [Ax "x" KI [L_ 1; L_ 2; L_ 3] [] []; Ax "y" KO [LStr "a"] [] []] [3; 1] KF [N_ 4; CNaN; N_ 2] [("units", MStr "K")].
(* the (3,1) median with a NaN keeps its axes (F8) *)
Example C08_nonvacuous :
  wf_shape ex_a /\
  (exists r, reduce_any RMedian false (AxOne (ByName "x")) ex_a = Ok (VArr r) /\ dims r = ["y"%string] /\ dat (vals r) = [CNaN]) /\
  reduce_any RSum true (AxMany [ByName "y"; ByPos 0]) ex_a = Ok (VCell (N_ 6)).
Proof. split; [split; reflexivity|]. split; [eexists; repeat split; reflexivity | reflexivity]. Qed.

(* percentile is one of the reductions of the model ([RPct q], linear interpolation between the order statistics, exact on
   rationals): the theorems above hold for it as for every [redfn] (C08_along_axis, C08_axis_none, C08_tuple,
   C08_by_name_or_position, C08_nan_propagates - [f] ranges over all reductions, [RPct q] included) *)
Definition pct_of (q : Q) (l : list cell) : Q := match red_cell (RPct q) false l with CNum x => x | _ => (-1)%Q end.
Example C08_percentile_nonvacuous :
  Qeq_bool (pct_of 50 [N_ 4; N_ 1; N_ 3; N_ 2]) (5 # 2) = true /\
  Qeq_bool (pct_of 25 [N_ 4; N_ 1; N_ 3; N_ 2]) (7 # 4) = true /\
  Qeq_bool (pct_of 0 [N_ 4; N_ 1; N_ 3]) 1 = true /\ Qeq_bool (pct_of 100 [N_ 4; N_ 1; N_ 3]) 4 = true /\
  red_cell (RPct 50) false [N_ 4; CNaN; N_ 3] = CNaN.
Proof. repeat split; vm_compute; reflexivity. Qed.
