(* C04 - Arithmetic aligns operands by dimension name and by label. *)
From Coq Require Import Qround.
From DA Require Import Prelude NDArray Array PyRT.
From DA.Model Require Import Value Reshape SliceSpec Indexing Align.
From DA.Proofs Require Import C10_proofs C01_proofs C03_proofs C07_proofs C06_proofs C04_proofs.
Open Scope nat_scope.

(* a op b = NumPy-broadcast elementwise op on the operands after label alignment (outer join: every
   shared dimension gets the union of labels, own values at own labels, NaN elsewhere - C06/C07) and
   dimension alignment by NAME (reshape to the union of dims - C10); no metadata; axes from the first
   operand, or from the second where the first only has the broadcast placeholder *)
Theorem C04_operation : forall o a b r,
  operation o a b = Ok r ->
  exists a1 b1 a2 b2,
    align [a; b] Outer None false false = Ok [a1; b1] /\
    align_dims [a1; b1] = Ok [a2; b2] /\
    attrs r = [] /\
    List.length (axes r) = List.length (axes a2) /\
    (forall i, i < List.length (axes a2) ->
       let ax := nth i (axes a2) dax0 in
       nth i (axes r) dax0 = (if is_none_axis ax then
                                match axis_of b2 (aname ax) with Some bx => bx | None => ax end else ax)) /\
    sh (vals r) = bshape (sh (vals a2)) (sh (vals b2)) /\
    forall c, inb (sh (vals r)) c = true ->
      get (vals r) c = cell_binop o (kd (vals r)) (get (vals a2) (bcoord (sh (vals a2)) c))
                                                  (get (vals b2) (bcoord (sh (vals b2)) c)).
Proof. exact operation_spec. Qed.
Print Assumptions C04_operation.

(* both operands end up with the same dims: the first operand's, then the second's new ones *)
Theorem C04_align_dims : forall a b a' b',
  align_dims [a; b] = Ok [a'; b'] ->
  dims a' = dims b' /\ (dims a' = dims a \/ dims a' = get_dims [a; b] []).
Proof. exact align_dims_pair. Qed.
Print Assumptions C04_align_dims.
Theorem C04_union_of_dims : forall a b,
  NoDup (dims a) -> NoDup (dims b) ->
  get_dims [a; b] [] = dims a ++ filter (fun d => negb (mem_str d (dims a))) (dims b).
Proof. exact get_dims_pair. Qed.
Print Assumptions C04_union_of_dims.

(* value at a coordinate: exact arithmetic where both operands define it ... *)
Theorem C04_defined : forall o k a b,
  cell_binop o k (CNum a) (CNum b) =
  match o with
  | BAdd => CNum (a + b) | BSub => CNum (a - b) | BMul => CNum (a * b)
  | BDiv => if Qeq_bool b 0 then CNaN else CNum (a / b)
  | BFloorDiv => if Qeq_bool b 0 then CNaN else CNum (inject_Z (Qfloor (a / b)))
  | BPow => match q_pow a b with Some r => CNum r | None => CNaN end
  end%Q.
Proof. exact cell_binop_num. Qed.
Print Assumptions C04_defined.
(* ... and NaN where one of them does not (after alignment that coordinate holds NaN) - for + - * / // *)
Theorem C04_nan_elsewhere : forall o k x,
  o <> BPow -> cell_binop o k CNaN x = CNaN /\ cell_binop o k x CNaN = CNaN.
Proof. exact cell_binop_nan. Qed.
Print Assumptions C04_nan_elsewhere.
(* the full statement is FALSE for ** on the faithful model (NumPy: 1**nan = nan**0 = 1): witness, and
   the partial statement that does hold.  Open known finding F6 (KNOWN_FINDINGS.txt: pow-identity) *)
Definition C04_full_for_pow : Prop := forall k x y, (x = CNaN \/ y = CNaN) -> cell_binop BPow k x y = CNaN.
Theorem C04_pow_refuted : exists k x y, cell_binop BPow k x y <> CNaN /\ (x = CNaN \/ y = CNaN).
Proof. exact cell_binop_pow_refuted. Qed.
Print Assumptions C04_pow_refuted.
Theorem C04_pow_partial : forall k x y,
  (x = CNaN \/ y = CNaN) -> cell_binop BPow k x y = CNaN \/ cell_binop BPow k x y = CNum 1.
Proof. exact cell_binop_pow_partial. Qed.
Print Assumptions C04_pow_partial.

(* scalar operand, either operand order: NumPy on .values, axes unchanged *)
Theorem C04_scalar : forall o c k refl a r,
  op_scalar o c k refl a = Ok r ->
  axes r = axes a /\ attrs r = [] /\ sh (vals r) = bshape (if refl then List.repeat 1 (List.length (sh (vals a))) else sh (vals a))
                                                         (if refl then sh (vals a) else List.repeat 1 (List.length (sh (vals a)))) /\
  forall cc, inb (sh (vals r)) cc = true ->
    get (vals r) cc = if refl then cell_binop o (kd (vals r)) c (get (vals a) (bcoord (sh (vals a)) cc))
                      else cell_binop o (kd (vals r)) (get (vals a) (bcoord (sh (vals a)) cc)) c.
Proof. exact op_scalar_spec. Qed.
Print Assumptions C04_scalar.

Definition ex_a : darr := Arr [Ax "t" KI [L_ 3; L_ 1] [] []] [2] KI [N_ 10; N_ 20] [("units", MStr "K")].
Definition ex_b : darr := Arr [Ax "u" KO [LStr "p"; LStr "q"] [] []; Ax "t" KI [L_ 1; L_ 2] [] []] [2; 2] KI [N_ 1; N_ 2; N_ 3; N_ 4] [].
Example C04_nonvacuous :
  exists r, operation BSub ex_a ex_b = Ok r /\ dims r = ["t"; "u"]%string /\
    alab (nth 0 (axes r) dax0) = [L_ 3; L_ 1; L_ 2] /\
    dat (vals r) = [CNaN; CNaN; N_ 19; N_ 17; CNaN; CNaN] /\ attrs r = [].
Proof. eexists. repeat split; reflexivity. Qed.
