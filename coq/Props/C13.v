(* C13 - A Dataset's variables always share the Dataset's axes.
   Model/Dataset.v: a heap of Axis objects; variables and the dataset hold identifiers; "the very same
   object" is identifier equality. *)
From Coq Require Import Qround Qabs.
From DA Require Import Prelude NDArray Array PyRT.
From DA.Model Require Import Value Reshape SliceSpec Indexing Align Transform Dataset.
From DA.Proofs Require Import C10_proofs C13_proofs.
Open Scope nat_scope.
Open Scope list_scope.

(* one step of ANY operation of the alphabet (ds[k] = array, del ds[k], renames through the dataset,
   through a variable or in bulk, ds.dims = ..., set_axis, ds.axes[d] = Axis, ds.axes[d][i] = label,
   rename_keys, an axis appended directly) - successful or rejected - keeps every variable's axes among the dataset's
   own axis objects *)
Theorem C13_step_shared : forall s o, Shared s -> Shared (fst (ds_step s o)).
Proof. exact step_shared. Qed.
Print Assumptions C13_step_shared.
(* hence in every state reachable from the empty dataset by any finite history *)
Theorem C13_reachable_shared : forall ops, Shared (ds_run ops ds_empty).
Proof. exact reachable_shared. Qed.
Print Assumptions C13_reachable_shared.

(* the full bookkeeping invariant - shared objects, the dataset's dimensions are exactly those used by
   its variables, distinct dimension names, distinct keys - for histories over the WHOLE alphabet: assignments (new
   or replacing, with fewer / more / other dimensions), deletions, relabellings, ds.dims = and rename_axes (simultaneous,
   through the validated dims setter), rename_keys of one key (onto a free key or onto the key of another variable, which
   is then deleted first), set_axis (labels and / or name: the name of another dimension is refused), construction from a
   dict: all without side condition; and - with [op_ok]: the new name is fresh or unchanged at the moment it is given -
   renames of one axis (through the dataset or through a variable), axis replacements, and rename_keys of several keys
   at once (simultaneous; [renkeys_ok]: old keys given once, new keys distinct and not among the keys that stay - a swap or
   a cycle qualifies).  Axes appended directly (used by no variable) are outside this invariant: [op_ok] excludes them;
   sharing, above, holds with them. *)
Theorem C13_step_invariant : forall s o, Inv4 s -> op_ok s o -> Inv4 (fst (ds_step s o)).
Proof. exact step_inv. Qed.
Print Assumptions C13_step_invariant.
Theorem C13_reachable_invariant : forall ops, ops_ok ds_empty ops -> Inv4 (ds_run ops ds_empty).
Proof. exact reachable_inv. Qed.
Print Assumptions C13_reachable_invariant.
(* under the invariant, what is observed is "this variable's axis IS the dataset's axis of that name" *)
Theorem C13_same_object_observed : forall s v id,
  Inv4 s -> In v (dvars s) -> In id (vax v) -> ds_axis_id s (aname (hget (heap s) id)) = Some id.
Proof. exact shared_observed. Qed.
Print Assumptions C13_same_object_observed.

(* assigning an array whose labels disagree with an existing axis - on ANY of its dimensions - raises
   ValueError ... *)
Theorem C13_rejects : forall k a s ax id,
  In ax (axes a) -> ds_axis_id s (aname ax) = Some id -> axis_same ax (hget (heap s) id) = false ->
  ds_setitem k a s = (s, Err ValueError).
Proof. exact setitem_rejects. Qed.
Print Assumptions C13_rejects.
(* ... and a rejected assignment leaves the dataset exactly as it was *)
Theorem C13_reject_atomic : forall k a s s' e, ds_setitem k a s = (s', Err e) -> s' = s /\ e = ValueError.
Proof. exact setitem_reject_atomic. Qed.
Print Assumptions C13_reject_atomic.

(* a changed name is what every holder of the object reads (the dataset and all variables) *)
Theorem C13_rename_visible : forall s id n s',
  rename_id s id n = (s', Ok tt) ->
  aname (hget (heap s') id) = n /\ dsax s' = dsax s /\ dvars s' = dvars s.
Proof. exact rename_visible. Qed.
Print Assumptions C13_rename_visible.

Definition a1 : darr := Arr [Ax "t" KI [L_ 1; L_ 2; L_ 3] [] []] [3] KI [N_ 1; N_ 2; N_ 3] [].
Definition b_bad : darr := Arr [Ax "n" KI [L_ 7; L_ 8] [] []; Ax "t" KI [L_ 1; L_ 2; L_ 4] [] []] [2; 3] KI [N_ 1; N_ 2; N_ 3; N_ 4; N_ 5; N_ 6] [].
(* the history of finding F16: the rejected second assignment leaves dims = ('t',) *)
(* ds.dims = names (validated first: length, distinct, non-empty; then every axis renamed by position) keeps the whole
   bookkeeping invariant with no side condition: the names may be a permutation of the current ones *)
Theorem C13_set_dims_invariant : forall ns s, Inv4 s -> Inv4 (fst (ds_set_dims ns s)).
Proof. exact set_dims_inv. Qed.
Print Assumptions C13_set_dims_invariant.
Example C13_nonvacuous :
  let s1 := fst (ds_setitem "a" a1 ds_empty) in
  ops_ok ds_empty [DSet "a" a1; DSet "b" b_bad; DRenameAxis (ByName "t") "time"] /\
  ds_setitem "b" b_bad s1 = (s1, Err ValueError) /\ ds_dims s1 = ["t"%string] /\
  ds_dims (ds_run [DSet "a" a1; DSet "b" b_bad; DRenameAxis (ByName "t") "time"] ds_empty) = ["time"%string].
Proof.
  cbv zeta. split; [|split; [reflexivity | split; reflexivity]].
  simpl. split; [exact I|]. split; [exact I|]. split; [|exact I].
  intros id H. left. vm_compute. intros [E|[]]; discriminate.
Qed.
