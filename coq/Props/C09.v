(* C09 - Cumulative, difference and arg-extremum operations keep axis bookkeeping right. *)
From Coq Require Import Qround Qabs.
From DA Require Import Prelude NDArray Array PyRT.
From DA.Model Require Import Value Reshape SliceSpec Indexing Align Transform.
From DA.Proofs Require Import C10_proofs C09_proofs.
Open Scope nat_scope.

(* cumsum / cumprod: all axes and metadata unchanged; the cell at position k of a fibre is the k-th
   element of the scanned fibre ... *)
Theorem C09_cumulative : forall prod skipna r a res,
  wf_shape a -> cumulative prod skipna r a = Ok res ->
  exists i, axis_info a r = Ok i /\
    axes res = axes a /\ attrs res = attrs a /\ sh (vals res) = sh (vals a) /\
    forall c, inb (sh (vals a)) c = true ->
      get (vals res) c = nth (nth i c 0) (cum_fibre prod skipna (fibre (vals a) i (remove_nth i c))) CNaN.
Proof. exact cumulative_spec. Qed.
Print Assumptions C09_cumulative.
(* ... which, on a NaN-free fibre, is the sum / product of the first k+1 values *)
Theorem C09_cumsum_prefix : forall l k,
  (forall c, In c l -> exists q, c = CNum q) -> k < List.length l ->
  nth k (cum_fibre false false l) CNaN = CNum (qsum (qs (firstn (S k) l))).
Proof. exact cumsum_prefix. Qed.
Print Assumptions C09_cumsum_prefix.
Theorem C09_cumprod_prefix : forall l k,
  (forall c, In c l -> exists q, c = CNum q) -> k < List.length l ->
  nth k (cum_fibre true false l) CNaN = CNum (qprod (qs (firstn (S k) l))).
Proof. exact cumprod_prefix. Qed.
Print Assumptions C09_cumprod_prefix.

(* diff, one step, backward / forward: the axis loses its first / last label, the other axes and the
   metadata are untouched, values are adjacent differences *)
Theorem C09_diff_step : forall sc i a res,
  wf_shape a -> i < List.length (axes a) -> sc <> Centered ->
  diff1 sc false i a = Ok res ->
  let ax := nth i (axes a) dax0 in
  attrs res = attrs a /\
  axes res = set_nth i (with_labels ax (akind ax)
                          (match sc with Backward => tl (alab ax) | _ => removelast (alab ax) end)) (axes a) /\
  sh (vals res) = set_nth i (alen ax - 1) (sh (vals a)) /\
  forall c, inb (sh (vals res)) c = true ->
    get (vals res) c = nth (nth i c 0) (diff_fibre (fibre (vals a) i (remove_nth i c))) CNaN.
Proof. exact diff1_spec. Qed.
Print Assumptions C09_diff_step.
Theorem C09_adjacent_difference : forall l k,
  S k < List.length l -> nth k (diff_fibre l) CNaN = diff_cell (nth k l CNaN) (nth (S k) l CNaN).
Proof. exact diff_fibre_nth. Qed.
Print Assumptions C09_adjacent_difference.
(* keepaxis: original axis, NaN on the corresponding side *)
Theorem C09_diff_keepaxis : forall sc i a res,
  wf_shape a -> sc <> Centered -> diff1 sc true i a = Ok res ->
  axes res = axes a /\ attrs res = attrs a /\
  forall c, inb (sh (vals res)) c = true ->
    get (vals res) c =
    nth (nth i c 0) (pad_num (kd (vals a))
                    (match sc with
                     | Backward => CNaN :: diff_fibre (fibre (vals a) i (remove_nth i c))
                     | _ => diff_fibre (fibre (vals a) i (remove_nth i c)) ++ [CNaN] end)) CNaN.
Proof. exact diff1_keepaxis. Qed.
Print Assumptions C09_diff_keepaxis.
(* centered: successive midpoints *)
Theorem C09_midpoints : forall ls ms,
  midpoints ls = Ok ms ->
  List.length ms = List.length ls - 1 /\
  forall k a b, nth k ls LNone = LNum a -> nth (S k) ls LNone = LNum b -> S k < List.length ls ->
    nth k ms LNone = LNum ((a + b) / 2).
Proof. exact midpoints_spec. Qed.
Print Assumptions C09_midpoints.
(* order n = n successive steps *)
Theorem C09_diff_order : forall f sc keep i a,
  diff_n (S (S f)) sc keep i a = (let! a' := diff_n (S f) sc keep i a in diff1 sc keep i a').
Proof. exact diff_n_unfold. Qed.
Print Assumptions C09_diff_order.

(* argmin / argmax: the position found in a non-empty NaN-free fibre is in range, holds an extremum
   and is the first such position ... *)
Theorem C09_argext_position : forall mx l,
  nums l -> l <> [] ->
  exists qp, argext_pos mx l < List.length l /\ nth (argext_pos mx l) l CNaN = CNum qp /\
    (forall q, In (CNum q) l -> ~ better mx q qp) /\
    (forall j qj, j < argext_pos mx l -> nth j l CNaN = CNum qj -> better mx qp qj).
Proof. exact argext_pos_spec. Qed.
Print Assumptions C09_argext_position.
(* ... and what is returned is the LABEL at that position (so that, labels being unique, indexing with
   it yields the extremum - C01_locate_one) *)
Theorem C09_argext_labels : forall mx r a res,
  argext_axis mx r a = Ok (VArr res) ->
  exists i, axis_info a r = Ok i /\
    axes res = remove_nth i (axes a) /\ attrs res = attrs a /\
    forall c', inb (sh (vals res)) c' = true ->
      get (vals res) c' = label_cell (nth_lab (alab (nth i (axes a) dax0)) (argext_pos mx (fibre (vals a) i c'))).
Proof. exact argext_axis_spec. Qed.
Print Assumptions C09_argext_labels.
Theorem C09_argext_whole : forall mx a ls,
  argext_all mx a = Ok (VLabels ls) ->
  ls = map (fun q => nth_lab (alab (fst q)) (snd q))
           (combine (axes a) (unravel (sh (vals a)) (argext_pos mx (dat (vals a))))).
Proof. exact argext_all_spec. Qed.
Print Assumptions C09_argext_whole.

Definition ex_a : darr :=
  Arr [Ax "t" KI [L_ 5; L_ 7; L_ 6] [] []] [3] KI [N_ 4; N_ 1; N_ 9] [("units", MStr "K")].
Example C09_nonvacuous :
  wf_shape ex_a /\
  (exists r, diff (ByName "t") Backward false 1 ex_a = Ok r /\ alab (nth 0 (axes r) dax0) = [L_ 7; L_ 6] /\ dat (vals r) = [N_ (-3); N_ 8]) /\
  (exists r, diff (ByPos 0) Forward true 2 ex_a = Ok r /\ dat (vals r) = [N_ 11; CNaN; CNaN] /\ kd (vals r) = KF) /\
  argext_axis false (ByName "t") ex_a = Ok (VLabels [L_ 7]) /\
  nums [N_ 4; N_ 1; N_ 9].
Proof.
  split; [split; reflexivity|]. split; [eexists; repeat split; reflexivity|].
  split; [eexists; repeat split; reflexivity|]. split; [reflexivity|].
  intros c [<-|[<-|[<-|[]]]]; eexists; reflexivity.
Qed.
