(* C15 - operations do not modify their operands; copies are independent. *)
From Coq Require Import Qround Qabs.
From DA Require Import Prelude NDArray Array PyRT.
From DA.Model Require Import Value Reshape SliceSpec Indexing Align Transform Sharing.
From DA.Proofs Require Import C15_proofs.
Open Scope string_scope.
Open Scope nat_scope.
Open Scope list_scope.

(* Heap model (Model/Sharing.v): value buffers and Axis objects live in a heap; an array is a view (offsets)
   onto one buffer plus references to Axis objects plus its own metadata.  The model says, per operation,
   what the result shares with its operand (views and shared Axis objects included); the correspondence
   check compares exactly that with the implementation through in-place writes on either object. *)

(* every operation of the alphabet only allocates: whatever lived in the heap before - the operand, and any
   other live array, e.g. one sharing its Axis objects - shows exactly what it showed before *)
Theorem C15_operand_unchanged : forall o h x h' r y,
  scoped h y -> sop_apply o h x = Ok (h', r) -> obs h' y = obs h y.
Proof. exact sop_operand_unchanged. Qed.
Print Assumptions C15_operand_unchanged.

(* copy() is deep: its buffer and all its Axis objects are new ... *)
Theorem C15_copy_fresh : forall h x h' c,
  sop_apply SCopy h x = Ok (h', c) ->
  a_buf c = List.length (bufs h) /\ a_axes c = seq (List.length (aobjs h)) (List.length (a_axes x)) /\ scoped h' c.
Proof. exact copy_fresh. Qed.
Print Assumptions C15_copy_fresh.
(* ... so that after ANY sequence of in-place writes (values, labels, axis names, axis metadata, metadata)
   through the copy or through the original, each of the two shows exactly what it would show had only the
   writes through itself been made *)
Theorem C15_copy_independent : forall h x h' c ws,
  scoped h x -> sop_apply SCopy h x = Ok (h', c) ->
  let s0 := {| s_h := h'; s_a := x; s_r := c |} in
  let s := wrun ws s0 in
  obs (s_h s) (s_a s) = obs (s_h (wrun (filter through_a ws) s0)) (s_a (wrun (filter through_a ws) s0)) /\
  obs (s_h s) (s_r s) = obs (s_h (wrun (filter through_r ws) s0)) (s_r (wrun (filter through_r ws) s0)).
Proof. exact copy_independent. Qed.
Print Assumptions C15_copy_independent.
Theorem C15_copy_writes_invisible : forall h x h' c ws,
  scoped h x -> sop_apply SCopy h x = Ok (h', c) ->
  (forall tw, In tw ws -> fst tw = true) ->
  let s := wrun ws {| s_h := h'; s_a := x; s_r := c |} in obs (s_h s) (s_a s) = obs h x.
Proof. exact copy_writes_invisible. Qed.
Print Assumptions C15_copy_writes_invisible.
(* the general fact behind it: two objects that share neither buffer nor Axis object never influence each other *)
Theorem C15_separate_objects_independent : forall h a r ws,
  scoped h a -> scoped h r -> sep a r ->
  let s0 := {| s_h := h; s_a := a; s_r := r |} in
  let s := wrun ws s0 in
  obs (s_h s) (s_a s) = obs (s_h (wrun (filter through_a ws) s0)) (s_a (wrun (filter through_a ws) s0)) /\
  obs (s_h s) (s_r s) = obs (s_h (wrun (filter through_r ws) s0)) (s_r (wrun (filter through_r ws) s0)).
Proof. exact separate_objects_independent. Qed.
Print Assumptions C15_separate_objects_independent.

(* non-vacuity, and the contrast: a transposed array is NOT separate from its source (by design it shares
   the buffer and the Axis objects), a copy is *)
Definition ex_in : darr :=
  Arr [Ax "t" KI [L_ 4; L_ 0] [] []; Ax "u" KO [LStr "p"; LStr "q"] [("units", MStr "m")] []] [2; 2] KF
      [N_ 40; N_ 41; N_ 0; N_ 1] [("units", MStr "K")].
Definition ex_writes : list (bool * wop) :=
  [(true, WVal 1 (N_ 99)); (true, WLab 0 0 (L_ 7)); (true, WName 1 "v"); (true, WAxAttr 1 "units" (MStr "s")); (true, WAttr "units" (MStr "C"))].
Example C15_copy_nonvacuous :
  let '(h, x) := load ex_in in
  scoped h x /\
  exists h' c, sop_apply SCopy h x = Ok (h', c) /\
    let s := wrun ex_writes {| s_h := h'; s_a := x; s_r := c |} in
    obs_eqb (obs (s_h s) (s_a s)) (obs h x) = true /\ obs_eqb (obs (s_h s) (s_r s)) (obs h x) = false.
Proof.
  simpl. split; [split; [simpl; lia | repeat constructor]|]. eexists. eexists. split; [reflexivity|].
  split; vm_compute; reflexivity.
Qed.
Example C15_transpose_shares :
  let '(h, x) := load ex_in in
  exists h' r, sop_apply (STranspose [1; 0]) h x = Ok (h', r) /\
    let s := wrun ex_writes {| s_h := h'; s_a := x; s_r := r |} in
    obs_eqb (obs (s_h s) (s_a s)) (obs h x) = false.
Proof. simpl. eexists. eexists. split; [vm_compute; reflexivity|]. vm_compute. reflexivity. Qed.
