(* C19 - serialisation round-trips: JSON and netCDF. *)
From Coq Require Import Qround Qabs.
From DA Require Import Prelude NDArray Array PyRT.
From DA.Model Require Import Value Reshape SliceSpec Indexing Align Json NcFile.
From DA.Proofs Require Import C10_proofs C05_proofs C19_proofs.
Open Scope string_scope.
Open Scope nat_scope.
Open Scope list_scope.

(* ---- JSON ---- *)
(* from_json(to_json(a)) restores shape, values (NaN included), dims, labels and metadata, and the dtype kinds of
   the values and of every axis that has at least one element to infer them from - for every array whose values
   and labels are of the kinds its dtypes announce (float/NaN, int, bool, str values; int, float, str labels),
   of any shape, zero-length dimensions included *)
Theorem C19_json_roundtrip : forall a,
  json_ok a ->
  exists r, json_roundtrip a = Ok r /\
    sh (vals r) = sh (vals a) /\ dat (vals r) = dat (vals a) /\ (dat (vals a) <> [] -> kd (vals r) = kd (vals a)) /\
    map aname (axes r) = dims a /\ map alab (axes r) = map alab (axes a) /\
    (forall i, i < List.length (axes a) -> alab (nth i (axes a) dax0) <> [] -> akind (nth i (axes r) dax0) = akind (nth i (axes a) dax0)) /\
    attrs r = attrs a.
Proof. exact json_roundtrip_spec. Qed.
Print Assumptions C19_json_roundtrip.

(* ---- netCDF (data model of Model/NcFile.v) ---- *)
(* Dataset.write_nc to a new file, then read_nc: the same axes in the same order, every variable with its values,
   dtype kind, dimension names and order, axes (labels, metadata) and metadata, and the dataset metadata *)
Theorem C19_write_read_roundtrip : forall fmt3 vars at_,
  dataset_ok fmt3 vars at_ ->
  exists f, nc_write_ds vars at_ (nc_empty fmt3) = Ok f /\
    nc_read f = {| p_axes := ds_axes vars; p_vars := vars; p_attrs := at_ |}.
Proof. exact write_read_roundtrip. Qed.
Print Assumptions C19_write_read_roundtrip.

(* appending a variable under a new name (DimArray.write_nc mode a / a+, handle[name] = array) keeps what was
   already there: every dimension with its size, every variable with its data and attributes, the file
   attributes; and read_nc shows every old variable exactly as before *)
Theorem C19_append_keeps : forall name a f g,
  assoc name (nf_vars f) = None -> nc_write_var name a f = Ok g -> keeps f g.
Proof. exact write_var_keeps. Qed.
Print Assumptions C19_append_keeps.
Theorem C19_append_keeps_read : forall f g k v,
  keeps f g -> assoc k (nf_vars f) = Some v ->
  Forall (fun d => has_key d (nf_dims f) = true /\ has_key d (nf_vars f) = true) (nv_dims v) ->
  assoc k (nf_vars g) = Some v /\ nc_read_var g v = nc_read_var f v.
Proof. exact keeps_read_var. Qed.
Print Assumptions C19_append_keeps_read.

(* ---- non-vacuity ---- *)
Definition ex_x : axis := Ax "x" KO [LStr "b"; LStr "a"] [("long_name", MStr "ex")] [].
Definition ex_y : axis := Ax "y" KI [L_ 30; L_ 10; L_ 20] [] [].
Definition ex_vars : list (string * darr) :=
  [("a", Arr [ex_x; ex_y] [2; 3] KF [N_ 1; CNaN; N_ 3; N_ 4; N_ 5; N_ 6] [("units", MStr "K"); ("levels", MList [1%Q; 2%Q])]);
   ("b", Arr [ex_y] [3] KI [N_ 7; N_ 8; N_ 9] []);
   ("c", Arr [] [] KF [N_ 2] [])].
Example C19_dataset_nonvacuous : dataset_ok false ex_vars [("title", MStr "t")].
Proof.
  unfold dataset_ok. cbv zeta.
  assert (E : ds_axes ex_vars = [ex_x; ex_y]) by reflexivity. rewrite E.
  assert (HNx : forall (l : list string), nodupb String.eqb l = true -> NoDup l) by (intros l; apply nodupb_str_NoDup).
  assert (Hmeta : forall m, nodupb String.eqb (map fst m) = true -> forallb (fun p => match snd p with MBool _ => false | _ => true end) m = true -> meta_ok m).
  { intros m H1 H2. split; [apply HNx; exact H1|]. apply Forall_forall. intros p Hp. rewrite forallb_forall in H2. specialize (H2 p Hp).
    destruct (snd p); try reflexivity. discriminate. }
  assert (Hlab : forall l, forallb (fun x => match x with LAt (ANum _) | LAt (AStr _) => true | _ => false end) l = true -> Forall (fun x => cell_label (label_cell x) = x) l).
  { intros l H. apply Forall_forall. intros x Hx. rewrite forallb_forall in H. specialize (H x Hx). destruct x as [[q|s|]|t]; try discriminate; reflexivity. }
  assert (Hx : axis_nc_ok false ex_x).
  { split; [right; right; split; reflexivity|]. split; [apply Hmeta; reflexivity|]. split; [reflexivity | apply Hlab; reflexivity]. }
  assert (Hy : axis_nc_ok false ex_y).
  { split; [right; left; reflexivity|]. split; [apply Hmeta; reflexivity|]. split; [reflexivity | apply Hlab; reflexivity]. }
  split; [apply HNx; reflexivity|]. split; [constructor; [exact Hx | constructor; [exact Hy | constructor]]|]. split; [apply HNx; reflexivity|].
  split; [intros k Hk Hin; simpl in *; intuition (subst; discriminate)|].
  split; [|apply Hmeta; reflexivity].
  repeat (apply Forall_cons); try apply Forall_nil.
  - split; [split; reflexivity|]. split; [left; reflexivity|]. split; [apply Hmeta; reflexivity|]. simpl.
    constructor; [left; reflexivity | constructor; [right; left; reflexivity | constructor]].
  - split; [split; reflexivity|]. split; [right; left; reflexivity|]. split; [apply Hmeta; reflexivity|]. simpl.
    constructor; [right; left; reflexivity | constructor].
  - split; [split; reflexivity|]. split; [left; reflexivity|]. split; [apply Hmeta; reflexivity|]. simpl. constructor.
Qed.
Definition ex_a0 : darr := Arr [ex_x; ex_y] [2; 3] KF [N_ 1; CNaN; N_ 3; N_ 4; N_ 5; N_ 6] [("units", MStr "K"); ("levels", MList [1%Q; 2%Q])].
Example C19_json_nonvacuous :
  json_ok ex_a0 /\ exists r, json_roundtrip ex_a0 = Ok r /\ darr_eqb r (Arr [Ax "x" KO [LStr "b"; LStr "a"] [] []; ex_y] [2; 3] KF [N_ 1; CNaN; N_ 3; N_ 4; N_ 5; N_ 6] [("units", MStr "K"); ("levels", MList [1%Q; 2%Q])]) = true.
Proof.
  split.
  - repeat split; simpl; repeat constructor.
  - eexists. split; [vm_compute; reflexivity | vm_compute; reflexivity].
Qed.
