(* C06 - align() is a set union / intersection that neither invents nor loses data. *)
From Coq Require Import Qround.
From DA Require Import Prelude NDArray Array PyRT.
From DA.Model Require Import Value Reshape SliceSpec Indexing Align.
From DA.Proofs Require Import C10_proofs C01_proofs C03_proofs C07_proofs C06_proofs C01_complete C06_direction C06_nary_direction.
Open Scope nat_scope.

(* Axis.union (all five branches: equal / empty / sorted merge / concatenate+isin): the result's
   label set is the set union (membership up to numpy's ==) ... *)
Theorem C06_union_set : forall a b l,
  mem_label l (alab (axis_union a b)) = mem_label l (alab a) || mem_label l (alab b).
Proof. exact axis_union_mem. Qed.
Print Assumptions C06_union_set.
(* ... with each label once *)
Theorem C06_union_once : forall a b,
  nodup_labels (alab a) = true -> nodup_labels (alab b) = true ->
  nodup_labels (alab (axis_union a b)) = true.
Proof. exact axis_union_nodup. Qed.
Print Assumptions C06_union_once.
(* the sorted-merge branch (both inputs monotonic in the same direction, consistent kinds) yields
   strictly ascending labels - reversed by the code when the inputs are decreasing *)
Theorem C06_union_sorted : forall a b, strict_inc (union1d a b) = true.
Proof. exact union1d_sorted. Qed.
Print Assumptions C06_union_sorted.

Theorem C06_inter_set : forall a b l,
  mem_label l (alab (axis_intersection a b)) = mem_label l (alab a) && mem_label l (alab b).
Proof. exact axis_intersection_mem. Qed.
Print Assumptions C06_inter_set.
Theorem C06_inter_once : forall a b,
  nodup_labels (alab a) = true -> nodup_labels (alab (axis_intersection a b)) = true.
Proof. exact axis_intersection_nodup. Qed.
Print Assumptions C06_inter_once.

(* one alignment step onto a common axis: the named dimension takes exactly its labels, all other
   axis records, the name, the metadata are untouched (the data clause - own values at own labels,
   fill (NaN) at labels it did not have - is C07_reindex / C07_empty_axis for this step) *)
Theorem C06_step : forall nx a a' i,
  wf_shape a -> find_dim (dims a) (aname nx) = Some i ->
  reindex_to_axis nx a = Ok a' ->
  labels_match (alab (nth i (axes a') dax0)) (alab nx) /\
  (forall j, j <> i -> nth j (axes a') dax0 = nth j (axes a) dax0) /\
  aname (nth i (axes a') dax0) = aname (nth i (axes a) dax0) /\
  List.length (axes a') = List.length (axes a) /\
  attrs a' = attrs a /\ wf_shape a'.
Proof. exact reindex_to_axis_spec. Qed.
Print Assumptions C06_step.

(* dimensions that are not aligned are left alone; dims, metadata, well-formedness preserved *)
Theorem C06_frame : forall axs a a',
  wf_shape a -> align_one axs a = Ok a' ->
  dims a' = dims a /\ attrs a' = attrs a /\ wf_shape a' /\
  forall i, ~ In (nth i (dims a) EmptyString) (map aname axs) -> nth i (axes a') dax0 = nth i (axes a) dax0.
Proof. exact align_one_frame. Qed.
Print Assumptions C06_frame.

(* every output carries, on every shared dimension, exactly the labels of the common axis - hence
   all outputs have identical axes there *)
Theorem C06_identical_axes : forall axs a a',
  wf_shape a -> NoDup (map aname axs) -> align_one axs a = Ok a' ->
  forall ax i, In ax axs -> find_dim (dims a) (aname ax) = Some i ->
    labels_match (alab (nth i (axes a') dax0)) (alab ax).
Proof. exact align_one_labels. Qed.
Print Assumptions C06_identical_axes.

(* the direction clause: two different, non-empty, monotonic axes of consistent kinds that slope the same way - an
   axis of one label has no direction and follows the other - are merged into the sorted union: strictly increasing
   when they increase, strictly decreasing when they decrease *)
Theorem C06_direction : forall a b,
  snd (merge_kind (akind a) (akind b)) = true ->
  labels_eqb (alab a) (alab b) = false -> alen a <> 0 -> alen b <> 0 ->
  is_monotonic_labels (alab a) = true -> is_monotonic_labels (alab b) = true ->
  same_slope (alab a) (alab b) = true ->
  let r := alab (axis_union a b) in
  let down := slopes_down (alab a) (alab b) in
  (down = false -> r = union1d (alab a) (alab b) /\ strictly label_ltb r = true) /\
  (down = true -> r = rev (union1d (alab a) (alab b)) /\ strictly (fun x y => label_ltb y x) r = true).
Proof. exact axis_union_direction. Qed.
(* a one-label axis joins an increasing axis increasing, a decreasing one decreasing *)
Example C06_direction_single :
  alab (axis_union (ax_new "x" KI [L_ 5] []) (ax_new "x" KI [L_ 1; L_ 2; L_ 3] [])) = [L_ 1; L_ 2; L_ 3; L_ 5] /\
  alab (axis_union (ax_new "x" KI [L_ 3; L_ 2; L_ 1] []) (ax_new "x" KI [L_ 5] [])) = [L_ 5; L_ 3; L_ 2; L_ 1].
Proof. split; vm_compute; reflexivity. Qed.
Print Assumptions C06_direction.
(* sort=True: the common axis comes out in ascending label order, as a rearrangement of its labels *)
Theorem C06_sort_ascending : forall ax,
  asc (alab (axis_sorted ax)) /\ Permutation.Permutation (argsort (alab ax)) (seq 0 (alen ax)).
Proof. exact axis_sorted_ascending. Qed.
Print Assumptions C06_sort_ascending.

(* three or more inputs: the pairwise unions of the fold are followed by [keep_direction], which - when all the inputs
   (empty ones and placeholders aside) are monotonic the same way, numeric or all str - puts the common axis in that
   order; it never changes which labels the axis holds, nor its name, kind or metadata *)
Theorem C06_nary_direction_keeps_labels : forall axs com,
  Permutation.Permutation (alab (keep_direction axs com)) (alab com) /\
  aname (keep_direction axs com) = aname com /\ akind (keep_direction axs com) = akind com /\ aattrs (keep_direction axs com) = aattrs com.
Proof. exact keep_direction_labels. Qed.
Print Assumptions C06_nary_direction_keeps_labels.
Theorem C06_nary_direction_sorted : forall axs com,
  keep_direction axs com <> com ->
  exists u, (u = true -> alab (keep_direction axs com) = sort_labels (alab com)) /\
            (u = false -> alab (keep_direction axs com) = rev (sort_labels (alab com))).
Proof. exact keep_direction_sorted. Qed.
Print Assumptions C06_nary_direction_sorted.
Theorem C06_sorted_labels_ascending : forall l, asc (sort_labels l).
Proof. exact sort_labels_asc. Qed.
Print Assumptions C06_sorted_labels_ascending.
Example C06_nary_direction_example :
  option_map alab (match common_axis_top [ax_new "x" KI [L_ 9; L_ 7] []; ax_new "x" KI [L_ 5] []; ax_new "x" KI [L_ 3] []] Outer with Ok a => Some a | Err _ => None end)
  = Some [L_ 9; L_ 7; L_ 5; L_ 3].
Proof. vm_compute. reflexivity. Qed.

(* any number of inputs (the fold _common_axis): the common axis holds exactly the labels that some input has
   (outer join) / that every input has (inner join) *)
Theorem C06_nary_union_set : forall axs r,
  Forall (fun a => mem_label LNone (alab a) = false) axs -> common_axis axs Outer = Ok r ->
  forall l, mem_label l (alab r) = existsb (fun a => mem_label l (alab a)) axs.
Proof. exact common_axis_outer_set. Qed.
Print Assumptions C06_nary_union_set.
Theorem C06_nary_inter_set : forall axs r,
  Forall (fun a => mem_label LNone (alab a) = false) axs -> common_axis axs Inner = Ok r ->
  forall l, mem_label l (alab r) = forallb (fun a => mem_label l (alab a)) axs.
Proof. exact common_axis_inner_set. Qed.
Print Assumptions C06_nary_inter_set.
Definition ex_a : darr := Arr [Ax "t" KI [L_ 3; L_ 1] [] []] [2] KI [N_ 10; N_ 20] [].
Definition ex_b : darr := Arr [Ax "t" KI [L_ 1; L_ 2] [] []; Ax "u" KO [LStr "p"] [] []] [2; 1] KF [N_ 7; N_ 8] [].
Example C06_nonvacuous :
  exists l, align [ex_a; ex_b] Outer None false false = Ok l /\
    map (fun a => alab (nth 0 (axes a) dax0)) l = [[L_ 3; L_ 1; L_ 2]; [L_ 3; L_ 1; L_ 2]] /\
    map (fun a => dat (vals a)) l = [[N_ 10; N_ 20; CNaN]; [CNaN; N_ 7; N_ 8]].
Proof. eexists. split; [reflexivity|]. split; reflexivity. Qed.

(* the kind of the labels of a merged axis, decided by the GENERATED `_get_cast_kind`: int with float gives float - a float label
   next to integer labels is never truncated - equal kinds stay, and an object axis makes an object axis *)
Theorem C06_merge_kind : 
  merge_kind KI KF = (KF, true) /\ merge_kind KF KI = (KF, true) /\ merge_kind KI KI = (KI, true) /\ merge_kind KF KF = (KF, true) /\
  (forall k, k <> KO -> merge_kind KO k = (KO, false) /\ merge_kind k KO = (KO, false)) /\ merge_kind KO KO = (KO, true).
Proof. exact merge_kind_table. Qed.
Print Assumptions C06_merge_kind.
