(* C07 - Reindexing moves data together with its labels. *)
From Coq Require Import Qround.
From DA Require Import Prelude NDArray Array PyRT.
From DA.Model Require Import Value Reshape SliceSpec Indexing Align.
From DA.Proofs Require Import C10_proofs C01_proofs C03_proofs C07_proofs C17_proofs C01_complete C07_methods C07_identity.
Open Scope nat_scope.

(* reindex_axis(new, axis) with the default method: the axis becomes exactly the new labels (same
   order, equal values); the slice at each new label is the original slice at that label when it
   existed (the position found carries an equal label) and the fill value otherwise; other axes, the
   axis name and the metadata are untouched *)
Theorem C07_reindex : forall newk news i fill fk a a',
  wf_shape a ->
  reindex_main newk news i fill fk false MNone a = Ok a' ->
  exists idxs,
    locate_many_raw false (alab (nth i (axes a) dax0)) news = Ok idxs /\
    List.length idxs = List.length news /\
    attrs a' = attrs a /\
    (forall j, j <> i -> nth j (axes a') dax0 = nth j (axes a) dax0) /\
    aname (nth i (axes a') dax0) = aname (nth i (axes a) dax0) /\
    (i < List.length (axes a) ->
     List.length (alab (nth i (axes a') dax0)) = List.length news /\
     forall k, k < List.length news ->
       label_eqb (nth k (alab (nth i (axes a') dax0)) LNone) (nth k news LNone) = true) /\
    forall c', inb (sh (vals a')) c' = true -> i < List.length (axes a) ->
      let k := nth i c' 0 in
      let src := nth k idxs 0 in
      if label_eqb (nth_lab (alab (nth i (axes a) dax0)) src) (nth k news LNone)
      then (exists cc, cell_to_kind (kd (vals a')) (get (vals a) (set_nth i src c')) = Ok cc /\ get (vals a') c' = cc)
           \/ get (vals a') c' = get (vals a) (set_nth i src c')
      else cell_to_kind (kd (vals a')) fill = Ok (get (vals a') c').
Proof. exact reindex_spec. Qed.
Print Assumptions C07_reindex.

(* reindex_axis = axis resolution (by name or position), then the main pipeline, or - for an empty
   source axis - the fill-only construction *)
Theorem C07_dispatch : forall newk news r fill fk re m a,
  reindex_axis newk news r fill fk re m a =
  (let! i := resolve_axis a r in
   if (alen (nth i (axes a) dax0) =? 0) && negb (List.length news =? 0)
   then reindex_empty newk news i fill fk re a
   else reindex_main newk news i fill fk re m a).
Proof. exact reindex_dispatch. Qed.
Print Assumptions C07_dispatch.

(* raise_error=True raises IndexError exactly when some requested label is not found ... *)
Theorem C07_raise : forall newk news fill fk m a i idxs,
  locate_many_raw (match m with MRight => true | _ => false end) (alab (nth i (axes a) dax0)) news = Ok idxs ->
  existsb (fun b => b) (new_mask (alab (nth i (axes a) dax0)) idxs news) = true ->
  reindex_main newk news i fill fk true m a = Err IndexError.
Proof. exact reindex_raise. Qed.
Print Assumptions C07_raise.
(* ... and when every label is found (in particular onto the array's own labels, for any method or
   raise_error setting) the result is the pure positional take: nothing is filled or relabelled *)
Theorem C07_all_found : forall newk news fill fk re m a i idxs,
  locate_many_raw (match m with MRight => true | _ => false end) (alab (nth i (axes a) dax0)) news = Ok idxs ->
  existsb (fun b => b) (new_mask (alab (nth i (axes a) dax0)) idxs news) = false ->
  reindex_main newk news i fill fk re m a = Ok (take_axis_pos idxs i a).
Proof. exact reindex_no_raise. Qed.
Print Assumptions C07_all_found.

Theorem C07_empty_axis : forall newk news i fill fk a a',
  i < List.length (axes a) -> map alen (axes a) = sh (vals a) ->
  reindex_empty newk news i fill fk false a = Ok a' ->
  attrs a' = attrs a /\
  alab (nth i (axes a') dax0) = news /\ aname (nth i (axes a') dax0) = aname (nth i (axes a) dax0) /\
  (forall j, j <> i -> nth j (axes a') dax0 = nth j (axes a) dax0) /\
  wf_shape a' /\
  forall c', inb (sh (vals a')) c' = true -> cell_to_kind (kd (vals a')) fill = Ok (get (vals a') c').
Proof. exact reindex_empty_spec. Qed.
Print Assumptions C07_empty_axis.

(* NaN fill promotes integer data to float (generated cast table) *)
Theorem C07_promotion : cast_kind KI KF = KF /\ cast_kind KF KF = KF /\ cast_kind KB KF = KO.
Proof. exact fill_promotes_int. Qed.
Print Assumptions C07_promotion.

(* "Reindexing onto the array's own labels is the identity": on an axis with distinct labels, for any fill value,
   raise_error setting and method None / left, the result is the array itself - values, every axis record (labels,
   kind, metadata) and array metadata *)
Theorem C07_identity : forall newk fill fk re m i a,
  wf_shape a -> i < List.length (axes a) ->
  amem (nth i (axes a) dax0) = [] ->
  distinct_labels (alab (nth i (axes a) dax0)) ->
  m <> MRight ->
  reindex_main newk (alab (nth i (axes a) dax0)) i fill fk re m a = Ok a.
Proof. exact reindex_own_labels. Qed.
Print Assumptions C07_identity.

(* method = 'left' / 'right': the position taken for the k-th new label is searchsorted(side) on the argsorted labels,
   clipped (C07_method_position), and that position carries the least label not below the new label - at or after it
   for 'left', strictly after it for 'right' - when there is one, the greatest label otherwise (C07_method_neighbour) *)
Theorem C07_method_position : forall side ls vs idxs k,
  ls <> [] -> locate_many_raw side ls vs = Ok idxs -> k < List.length vs ->
  nth k idxs 0 = nth (Nat.min (ss_count side (map (lab ls) (argsort ls)) (nth k vs LNone)) (List.length ls - 1)) (argsort ls) 0.
Proof. exact locate_many_raw_nth. Qed.
Print Assumptions C07_method_position.
Theorem C07_method_neighbour : forall side ls v,
  ls <> [] ->
  let isort := argsort ls in
  let S := map (lab ls) isort in
  let c := Nat.min (ss_count side S v) (List.length ls - 1) in
  let p := nth c isort 0 in
  p < List.length ls /\
  ((exists j, j < List.length ls /\ below side v (lab ls j) = false) ->
     below side v (lab ls p) = false /\ forall j, j < List.length ls -> below side v (lab ls j) = false -> label_le (lab ls p) (lab ls j) = true) /\
  ((forall j, j < List.length ls -> below side v (lab ls j) = true) -> forall j, j < List.length ls -> label_le (lab ls j) (lab ls p) = true).
Proof. exact locate_raw_neighbour. Qed.
Print Assumptions C07_method_neighbour.
Definition ex_a : darr :=
  Arr [Ax "t" KI [L_ 3; L_ 1; L_ 2] [] []] [3] KI [N_ 10; N_ 20; N_ 30] [("units", MStr "K")].
Example C07_nonvacuous :
  wf_shape ex_a /\
  exists a', reindex_axis KI [L_ 2; L_ 5; L_ 3] (ByName "t") CNaN KF false MNone ex_a = Ok a'
    /\ dat (vals a') = [N_ 30; CNaN; N_ 10] /\ kd (vals a') = KF
    /\ alab (nth 0 (axes a') dax0) = [L_ 2; L_ 5; L_ 3].
Proof. split; [split; reflexivity|]. eexists. repeat split; reflexivity. Qed.
