(* C17 - Axis-wise selection and missing-value handling keep slices with their labels. *)
From Coq Require Import Qround Qabs Permutation.
From DA Require Import Prelude NDArray Array PyRT.
From DA.Model Require Import Value Reshape SliceSpec Indexing Align Transform Flatten Ops.
From DA.Proofs Require Import C10_proofs C01_proofs C03_proofs C07_proofs C17_proofs C17_key.
Open Scope nat_scope.
Open Scope list_scope.

(* sort_axis = take the slices in the order given by argsort, which is a permutation of the positions
   that puts the labels in ascending order; every slice moves with its label (C17_take) *)
Theorem C17_sort_axis : forall r a res,
  sort_axis r a = Ok res ->
  exists i, resolve_axis a r = Ok i /\
    let labs := alab (nth i (axes a) dax0) in
    let order := argsort labs in
    res = take_axis_pos order i a /\
    Permutation order (seq 0 (List.length labs)) /\ sorted_by labs order.
Proof. exact sort_axis_spec. Qed.
Print Assumptions C17_sort_axis.

(* sort_axis(axis, key=f): the same take, ordered by the keys f(label) instead of the labels: the order is a
   permutation of the positions that puts the KEYS in ascending order (stable insertion order for ties) *)
Theorem C17_sort_axis_by_key : forall r keys a v,
  apply_op [] (OSortAxisKey r keys) a = Ok v ->
  exists i, axis_info a r = Ok i /\ List.length keys = alen (nth i (axes a) dax0) /\
    let order := argsort keys in
    v = VArr (take_axis_pos order i a) /\
    Permutation order (seq 0 (List.length keys)) /\ sorted_by keys order.
Proof. exact sort_axis_by_key_spec. Qed.
Print Assumptions C17_sort_axis_by_key.

(* selecting whole slices by position (repeats allowed): the axis carries the labels of the selected
   positions in the requested order (name and axis metadata kept), every selected slice is the
   original slice, the other axes and the metadata are untouched *)
Theorem C17_take : forall idxs i a,
  i < List.length (axes a) ->
  let res := take_axis_pos idxs i a in
  let ax := nth i (axes a) dax0 in
  attrs res = attrs a /\
  alab (nth i (axes res) dax0) = map (nth_lab (alab ax)) idxs /\
  aname (nth i (axes res) dax0) = aname ax /\ aattrs (nth i (axes res) dax0) = aattrs ax /\
  (forall j, j <> i -> nth j (axes res) dax0 = nth j (axes a) dax0) /\
  forall c', inb (sh (vals res)) c' = true ->
    get (vals res) c' = get (vals a) (set_nth i (nth (nth i c' 0) idxs 0) c').
Proof. exact take_axis_pos_spec. Qed.
Print Assumptions C17_take.
(* by label: positions from the label lookup of C01 (IndexError for an absent label) *)
Theorem C17_take_by_label : forall ls r a res,
  take_axis_label ls r a = Ok res ->
  exists i idxs, axis_info a r = Ok i /\ locate_many (alab (nth i (axes a) dax0)) ls = Ok idxs /\
    res = take_axis_pos idxs i a.
Proof. exact take_axis_label_spec. Qed.
Print Assumptions C17_take_by_label.
(* by mask: the true positions, in axis order (C01_mask) *)
Theorem C17_compress : forall keep i a res,
  compress_axis keep i a = Ok res ->
  List.length keep = alen (nth i (axes a) dax0) /\ res = take_axis_pos (mask_positions keep) i a.
Proof. exact compress_axis_spec. Qed.
Print Assumptions C17_compress.

(* dropna(axis, minvalid) on arrays of two or more dimensions: keeps, in their original order, exactly
   the positions whose slice passes the threshold test ... *)
Theorem C17_dropna : forall r mv a res n0 n1 rest,
  sh (vals a) = n0 :: n1 :: rest ->
  dropna r mv a = Ok res ->
  exists i, axis_info a r = Ok i /\
    let v := vals a in
    let size := prod (remove_nth i (sh v)) in
    let keep := map (fun j => let nn := count_nan (slice_cells v i j) in
                              match mv with None => nn <=? 0
                                          | Some m => (Z.of_nat nn <=? Z.of_nat size - Z.of_nat m)%Z end)
                    (seq 0 (nth i (sh v) 0)) in
    res = take_axis_pos (mask_positions keep) i a.
Proof. exact dropna_spec. Qed.
Print Assumptions C17_dropna.
(* ... and the threshold test is "at least minvalid valid values" *)
Theorem C17_threshold : forall nn size m : nat,
  nn <= size -> ((Z.of_nat nn <=? Z.of_nat size - Z.of_nat m)%Z = true <-> m <= size - nn).
Proof. exact dropna_threshold. Qed.
Print Assumptions C17_threshold.

(* setna: exactly the cells equal to one of the values become NaN, the others keep their value;
   integer data is promoted to float instead of failing *)
Theorem C17_setna : forall vs a a',
  List.length (dat (vals a)) = prod (sh (vals a)) ->
  setna vs a = Ok a' ->
  axes a' = axes a /\ attrs a' = attrs a /\ sh (vals a') = sh (vals a) /\
  kd (vals a') = cast_kind (kd (vals a)) KF /\
  forall i, i < List.length (dat (vals a)) ->
    let c := nth i (dat (vals a)) CNaN in
    if existsb (cell_eqb c) vs then cell_to_kind (kd (vals a')) CNaN = Ok (nth i (dat (vals a')) CNaN)
    else cell_to_kind (kd (vals a')) c = Ok (nth i (dat (vals a')) CNaN).
Proof. exact setna_spec. Qed.
Print Assumptions C17_setna.
(* fillna: non-NaN cells keep their value (NaN cells receive the fill: C17_masked_cell) *)
Theorem C17_fillna : forall c ck a a' n rest,
  sh (vals a) = n :: rest ->
  List.length (dat (vals a)) = prod (sh (vals a)) ->
  fillna c ck a = Ok a' ->
  axes a' = axes a /\ attrs a' = attrs a /\ sh (vals a') = sh (vals a) /\
  forall i, i < List.length (dat (vals a)) ->
    is_nan (nth i (dat (vals a)) CNaN) = false ->
    cell_to_kind (kd (vals a')) (nth i (dat (vals a)) CNaN) = Ok (nth i (dat (vals a')) CNaN).
Proof. exact fillna_spec. Qed.
Print Assumptions C17_fillna.
Theorem C17_masked_cell : forall m r cast a a',
  List.length (dat (vals a)) = prod (sh (vals a)) ->
  setmask m (RScalar r KF) cast a = Ok a' ->
  forall i, i < List.length m -> nth i m false = true ->
    cell_to_kind (kd (vals a')) r = Ok (nth i (dat (vals a')) CNaN).
Proof. exact setmask_true. Qed.
Print Assumptions C17_masked_cell.

Definition ex_a : darr :=
  Arr [Ax "t" KI [L_ 3; L_ 1; L_ 2] [] []; Ax "u" KO [LStr "p"; LStr "q"] [] []] [3; 2] KF
      [N_ 10; CNaN; N_ 20; N_ 21; CNaN; CNaN] [("units", MStr "K")].
Example C17_nonvacuous :
  (exists r, sort_axis (ByName "t") ex_a = Ok r /\ alab (nth 0 (axes r) dax0) = [L_ 1; L_ 2; L_ 3] /\
             dat (vals r) = [N_ 20; N_ 21; CNaN; CNaN; N_ 10; CNaN]) /\
  (exists r, dropna (ByName "t") (Some 1) ex_a = Ok r /\ alab (nth 0 (axes r) dax0) = [L_ 3; L_ 1]) /\
  (exists r, dropna (ByName "t") (Some 0) ex_a = Ok r /\ alab (nth 0 (axes r) dax0) = [L_ 3; L_ 1; L_ 2]).
Proof. repeat split; eexists; repeat split; reflexivity. Qed.
