(* C12 - stack and concatenate join arrays without misaligning them. *)
From Coq Require Import Qround.
From DA Require Import Prelude NDArray Array PyRT.
From DA.Model Require Import Value Reshape SliceSpec Indexing Align.
From DA.Proofs Require Import C10_proofs C01_proofs C03_proofs C07_proofs C06_proofs C04_proofs C12_proofs.
Open Scope nat_scope.
Open Scope string_scope.

(* stack: inputs are (optionally aligned, C06, then) matched by dimension NAME; success implies that
   every input's axes carry the first input's labels (same order) under the same name; the result's
   first axis is the new one labelled by keys; the slice at key number b is exactly arrays[b] *)
Theorem C12_stack : forall arrays nm kk keys al srt r,
  stack arrays nm kk keys al srt = Ok r ->
  exists arrs a0 rest name axs,
    stack_inputs arrays al srt = Ok arrs /\ arrs = a0 :: rest /\
    forallb (sec_axes_equal a0) arrs = true /\
    attrs r = [] /\
    axes r = ax_new name kk keys [] :: axs /\ pick_axes arrs = Ok axs /\
    ~ In name (get_dims arrays []) /\
    sh (vals r) = List.length arrs :: sh (vals a0) /\
    forall b c, inb (sh (vals r)) (b :: c) = true ->
      get (vals r) (b :: c) = get (nth b (map vals arrs) (dnd (kd (vals r)))) c.
Proof. exact stack_spec. Qed.
Print Assumptions C12_stack.

(* matching by name: after the reordering step every input has the dims of the first, in that order *)
Theorem C12_by_name : forall arrays arrs a0,
  Forall wf_shape arrays -> same_dim_order arrays = Ok arrs -> hd_error arrays = Some a0 -> dims a0 <> [] ->
  Forall (fun a => dims a = dims a0) arrs.
Proof. exact same_dim_order_dims. Qed.
Print Assumptions C12_by_name.

(* without align, secondary axes with different labels or another order raise ValueError *)
Theorem C12_stack_refuses : forall arrays nm kk keys arrs a0 rest,
  mem_str (match nm with Some n => n | None => if mem_str "unnamed" (get_dims arrays []) then "unnamed_1" else "unnamed" end)
          (get_dims arrays []) = false ->
  same_dim_order arrays = Ok arrs -> arrs = a0 :: rest ->
  forallb (sec_axes_equal a0) arrs = false ->
  stack arrays nm kk keys false false = Err ValueError.
Proof. exact stack_refuses. Qed.
Print Assumptions C12_stack_refuses.

(* concatenate: labels along the axis are concatenated in input order, the other axes are the first
   input's, and the cell at position p along the axis comes from the input that owns p *)
Theorem C12_concatenate : forall arrays r al srt res,
  concatenate arrays r al srt = Ok res ->
  exists i arrs b0 rest newk,
    arrs = b0 :: rest /\
    attrs res = [] /\
    axes res = insert_nth i (ax_new (aname (nth i (axes (hd b0 arrays)) dax0)) newk
                                    (flat_map (fun a => alab (nth i (axes a) dax0)) arrs) [])
                          (remove_nth i (axes b0)) /\
    forallb (fun a => String.eqb (aname (nth i (axes a) dax0)) (aname (nth i (axes (hd b0 arrays)) dax0))) arrs = true /\
    (al = false ->
       forallb (fun sx => forallb (fun a => match axis_of a (aname sx) with
                                            | Some ax => labels_eqb (alab ax) (alab sx)
                                            | None => false end) arrs) (remove_nth i (axes b0)) = true) /\
    forall c, inb (sh (vals res)) c = true ->
      let '(b, j) := locate_block (map (fun a => nth i (sh a) 0) (map vals arrs)) (nth i c 0) in
      get (vals res) c = get (nth b (map vals arrs) (dnd (kd (vals res)))) (set_nth i j c).
Proof. exact concatenate_spec. Qed.
Print Assumptions C12_concatenate.

Theorem C12_owner : forall lens p b j,
  locate_block lens p = (b, j) -> p < fold_right Nat.add 0 lens ->
  b < List.length lens /\ j < nth b lens 0 /\ p = fold_right Nat.add 0 (firstn b lens) + j.
Proof. exact locate_block_spec. Qed.
Print Assumptions C12_owner.

Definition s1 : darr := Arr [Ax "x" KI [L_ 0; L_ 1] [] []; Ax "y" KI [L_ 10; L_ 20] [] []] [2; 2] KI [N_ 1; N_ 2; N_ 3; N_ 4] [].
Definition s2 : darr := Arr [Ax "y" KI [L_ 10; L_ 20] [] []; Ax "x" KI [L_ 0; L_ 1] [] []] [2; 2] KI [N_ 5; N_ 6; N_ 7; N_ 8] [].
(* square arrays whose dims are listed in a different order are reordered by name, not joined by position *)
Example C12_nonvacuous :
  (exists r, stack [s1; s2] (Some "k") KO [LStr "a"; LStr "b"] false false = Ok r /\
             dims r = ["k"; "x"; "y"] /\ dat (vals r) = [N_ 1; N_ 2; N_ 3; N_ 4; N_ 5; N_ 7; N_ 6; N_ 8]) /\
  (exists r, concatenate [s1; s2] (ByName "x") false false = Ok r /\
             alab (nth 0 (axes r) dax0) = [L_ 0; L_ 1; L_ 0; L_ 1] /\
             dat (vals r) = [N_ 1; N_ 2; N_ 3; N_ 4; N_ 5; N_ 7; N_ 6; N_ 8]).
Proof. split; eexists; repeat split; reflexivity. Qed.
