(* C16 - Metadata: attribute routing and propagation rules.
   Gen/attrs.v (g___getattr__, g___setattr__, g___delattr__) is GENERATED from
   bases.GetSetDelAttrMixin on every run; the three methods depend on the attribute name only through
   the predicates collected in [preds], so the theorems hold for EVERY name and value. *)
From Coq Require Import Qround Qabs.
From DA Require Import Prelude NDArray Array PyRT.
From DA.Model Require Import Value Reshape SliceSpec Indexing Align Transform Flatten Attrs.
From DA.Proofs Require Import C10_proofs C01_proofs C03_proofs C07_proofs C04_proofs C08_proofs C09_proofs C11_proofs C12_proofs C17_proofs C18_proofs C16_proofs C05_proofs C16_reshape_kept.
Open Scope nat_scope.

Theorem C16_set_public : forall p,
  p_private p = false -> p_member p = false -> p_exclude p = false -> (p_hasaxes p && p_isdim p) = false ->
  set_route p = SAttrs.
Proof. exact set_public. Qed.
Print Assumptions C16_set_public.
Theorem C16_get_public : forall p,
  p_private p = false -> p_member p = false -> p_exclude p = false -> p_instance p = false ->
  (p_hasdims p && p_isdim p) = false ->
  get_route p = if p_inattrs p then GAttrs else GError.
Proof. exact get_public. Qed.
Print Assumptions C16_get_public.
Theorem C16_del_public : forall p,
  p_private p = false -> p_member p = false -> p_exclude p = false -> p_inattrs p = true ->
  del_route p = DAttrs.
Proof. exact del_public. Qed.
Print Assumptions C16_del_public.
Theorem C16_dimension_name : forall p,
  p_private p = false -> p_member p = false -> p_exclude p = false -> p_instance p = false ->
  p_isdim p = true -> p_hasdims p = true -> p_hasaxes p = true ->
  get_route p = GAxisValues /\ set_route p = SAxisValues.
Proof. exact dim_routes_to_labels. Qed.
Print Assumptions C16_dimension_name.
Theorem C16_private_never_enters_attrs : forall p,
  p_include p = false -> (p_private p || p_member p || p_exclude p) = true -> set_route p = SObject.
Proof. exact private_never_set_in_attrs. Qed.
Print Assumptions C16_private_never_enters_attrs.
Theorem C16_private_not_reachable : forall p,
  p_include p = false -> (p_private p || p_member p || p_exclude p) = true -> get_route p <> GAttrs.
Proof. exact private_not_readable_from_attrs. Qed.
Print Assumptions C16_private_not_reachable.
Theorem C16_private_not_deletable : forall p,
  (p_private p || p_member p || p_exclude p) = true -> del_route p = DObject.
Proof. exact private_not_deletable_from_attrs. Qed.
Print Assumptions C16_private_not_deletable.
Theorem C16_routes_total : forall p, set_route p <> SOther /\ del_route p <> DOther.
Proof. exact routes_total. Qed.
Print Assumptions C16_routes_total.

(* propagation: array metadata carried over unchanged by indexing, reductions, cumulative ops, diff,
   reshaping, reindexing, sorting / take_axis, interpolation ... *)
Theorem C16_kept_indexing : forall f tol kd a r,
  wf_shape a -> getitem f tol kd a = Ok (VArr r) -> attrs r = attrs a.
Proof. intros f tol kd a r Hw H. destruct (getitem_spec f tol kd a r Hw H) as [ps [_ [_ [Hat _]]]]. exact Hat. Qed.
Print Assumptions C16_kept_indexing.
Theorem C16_kept_reduction : forall f skipna i a r,
  wf_shape a -> i < List.length (axes a) -> reduce_axis f skipna i a = Ok (VArr r) -> attrs r = attrs a.
Proof. intros f sk i a r Hw Hi H. apply (reduce_axis_arr f sk i a r Hw Hi H). Qed.
Print Assumptions C16_kept_reduction.
Theorem C16_kept_cumulative : forall prod skipna r a res,
  wf_shape a -> cumulative prod skipna r a = Ok res -> attrs res = attrs a.
Proof. intros p sk r a res Hw H. destruct (cumulative_spec p sk r a res Hw H) as [i [_ [_ [Hat _]]]]. exact Hat. Qed.
Print Assumptions C16_kept_cumulative.
Theorem C16_kept_diff : forall sc i a res,
  wf_shape a -> i < List.length (axes a) -> sc <> Centered -> diff1 sc false i a = Ok res -> attrs res = attrs a.
Proof. intros sc i a res Hw Hi Hs H. apply (diff1_spec sc i a res Hw Hi Hs H). Qed.
Print Assumptions C16_kept_diff.
Theorem C16_kept_transpose : forall p a r, wf_shape a -> transpose_pos p a = Ok r -> attrs r = attrs a.
Proof. exact transpose_keeps_attrs. Qed.
Print Assumptions C16_kept_transpose.
Theorem C16_kept_repeat : forall k labs rf a r, wf_shape a -> repeat k labs rf a = Ok r -> attrs r = attrs a.
Proof. exact repeat_keeps_attrs. Qed.
Print Assumptions C16_kept_repeat.
Theorem C16_kept_newaxis : forall name v pos a r, wf_shape a -> newaxis name v pos a = Ok r -> attrs r = attrs a.
Proof. intros name [[k labs]|]; [exact (newaxis_values_keeps_attrs name k labs) | exact (newaxis_keeps_attrs name)]. Qed.
Print Assumptions C16_kept_newaxis.
Theorem C16_kept_squeeze : forall rf a r, wf_shape a -> squeeze (Some rf) a = Ok r -> attrs r = attrs a.
Proof. exact squeeze_keeps_attrs. Qed.
Print Assumptions C16_kept_squeeze.
Theorem C16_kept_broadcast : forall newaxes a r,
  WF a -> ~ In EmptyString (map aname newaxes) -> broadcast newaxes a = Ok r -> attrs r = attrs a.
Proof. exact broadcast_keeps_attrs. Qed.
Print Assumptions C16_kept_broadcast.
Theorem C16_kept_flatten : forall names ins a r, group_at names ins a = Ok r -> attrs r = attrs a.
Proof. intros names ins a r H. destruct (group_at_spec names ins a r H) as [g [_ [_ [Hat _]]]]. exact Hat. Qed.
Print Assumptions C16_kept_flatten.
Theorem C16_kept_reindex : forall newk news i fill fk a a',
  wf_shape a -> reindex_main newk news i fill fk false MNone a = Ok a' -> attrs a' = attrs a.
Proof. intros newk news i fill fk a a' Hw H. destruct (reindex_spec _ _ _ _ _ _ _ Hw H) as [idxs [_ [_ [Hat _]]]]. exact Hat. Qed.
Print Assumptions C16_kept_reindex.
Theorem C16_kept_take_sort : forall idxs i a, attrs (take_axis_pos idxs i a) = attrs a.
Proof. exact take_axis_keeps_attrs. Qed.
Print Assumptions C16_kept_take_sort.
Theorem C16_kept_interp : forall newk news r left right a res n0 n1 rest,
  sh (vals a) = n0 :: n1 :: rest -> interp_axis newk news r left right a = Ok res -> attrs res = attrs a.
Proof. exact interp_keeps_attrs. Qed.
Print Assumptions C16_kept_interp.
(* ... an axis' metadata survives slicing and reindexing of that axis ... *)
Theorem C16_axis_attrs_survive_slicing : forall axs ps,
  Forall (fun ax' => exists ax, In ax axs /\ aattrs ax' = aattrs ax /\ aname ax' = aname ax) (getaxes axs ps).
Proof. exact getaxes_keeps_axis_attrs. Qed.
Print Assumptions C16_axis_attrs_survive_slicing.
Theorem C16_axis_attrs_survive_reindexing : forall ax k l,
  aattrs (relabel ax k l) = aattrs ax /\ aname (relabel ax k l) = aname ax.
Proof. exact relabel_attrs. Qed.
Print Assumptions C16_axis_attrs_survive_reindexing.
(* ... whereas arithmetic, stack and concatenate return arrays without the operands' metadata *)
Theorem C16_dropped_arithmetic : forall o a b r, operation o a b = Ok r -> attrs r = [].
Proof. intros o a b r H. destruct (operation_spec o a b r H) as [a1 [b1 [a2 [b2 [_ [_ [Hat _]]]]]]]. exact Hat. Qed.
Print Assumptions C16_dropped_arithmetic.
Theorem C16_dropped_scalar_op : forall o c k refl a r, op_scalar o c k refl a = Ok r -> attrs r = [].
Proof. intros o c k refl a r H. apply (op_scalar_spec o c k refl a r H). Qed.
Print Assumptions C16_dropped_scalar_op.
Theorem C16_dropped_stack : forall arrays nm kk keys al srt r, stack arrays nm kk keys al srt = Ok r -> attrs r = [].
Proof. intros arrays nm kk keys al srt r H. destruct (stack_spec _ _ _ _ _ _ _ H) as [arrs [a0 [rest [name [axs [_ [_ [_ [Hat _]]]]]]]]]. exact Hat. Qed.
Print Assumptions C16_dropped_stack.
Theorem C16_dropped_concatenate : forall arrays r al srt res, concatenate arrays r al srt = Ok res -> attrs res = [].
Proof. intros arrays r al srt res H. destruct (concatenate_spec _ _ _ _ _ H) as [i [arrs [b0 [rest [newk [_ [Hat _]]]]]]]. exact Hat. Qed.
Print Assumptions C16_dropped_concatenate.

(* non-vacuity: a public name on a DimArray, an underscore name, a dimension name *)
Example C16_nonvacuous :
  set_route (Pr false false false false true true false false false) = SAttrs /\
  set_route (Pr false true false false true true false true false) = SObject /\
  get_route (Pr false false false false true true true false false) = GAxisValues /\
  del_route (Pr true false false false true true false true false) = DObject.
Proof. repeat split; reflexivity. Qed.
