(* C20 - on-disk netCDF access is equivalent to in-memory access. *)
From Coq Require Import Qround Qabs.
From DA Require Import Prelude NDArray Array PyRT.
From DA.Model Require Import Value Reshape SliceSpec Indexing Align NcFile NcAccess.
From DA.Proofs Require Import C10_proofs C20_proofs.
Open Scope string_scope.
Open Scope nat_scope.
Open Scope list_scope.

(* netCDF4's orthogonal indexing (Model/NcAccess.v: one dimension after the other) and NumPy's ix_ indexing
   (Model/Indexing.v np_outer: one tabulation over the product) select the same cells *)
Theorem C20_orthogonal_is_outer : forall ps a,
  List.length (dat a) = prod (sh a) -> List.length ps = List.length (sh a) -> Forall2 pidx_ok ps (sh a) ->
  nc_ortho ps a = np_outer ps a.
Proof. exact nc_ortho_eq_outer. Qed.
Print Assumptions C20_orthogonal_is_outer.

(* reading through the on-disk handle returns exactly what the same index returns on the loaded variable *)
Theorem C20_ondisk_read : forall f v fm tol kd ps,
  let a := nc_read_var f v in
  wf_shape a -> get_indices a fm tol kd = Ok ps -> Forall2 pidx_ok ps (sh (vals a)) ->
  ondisk_getitem f v fm tol kd = loaded_getitem f v fm tol kd.
Proof. exact ondisk_read_is_loaded_read. Qed.
Print Assumptions C20_ondisk_read.

(* writing beyond the end of an unlimited dimension extends the axis with the supplied labels *)
Theorem C20_unlimited_growth : forall name d labs rows f g v cv rest,
  name <> d ->
  assoc name (nf_vars f) = Some v -> assoc d (nf_vars f) = Some cv -> nv_dims v = d :: rest ->
  ~ In d rest -> ~ In name rest ->
  nc_append_rows name d labs rows f = Ok g ->
  exists v', assoc name (nf_vars g) = Some v' /\
    let a := nc_read_var f v in let a' := nc_read_var g v' in
    sh (vals a') = (dim_size f d + List.length labs) :: tl (sh (vals a)) /\
    dat (vals a') = dat (vals a) ++ rows /\
    alab (nth 0 (axes a') dax0) = alab (nth 0 (axes a) dax0) ++ map cell_label (map label_cell labs) /\
    tl (axes a') = tl (axes a) /\ attrs a' = attrs a /\ kd (vals a') = kd (vals a).
Proof. exact append_rows_spec. Qed.
Print Assumptions C20_unlimited_growth.

(* non-vacuity *)
Definition ex_nd : nd := mk [2; 3; 2] KF (fun c => N_ (Z.of_nat (100 * nth 0 c 0 + 10 * nth 1 c 0 + nth 2 c 0))).
Example C20_ortho_nonvacuous :
  Forall2 pidx_ok [XInt 1; XPos [2; 0; 2]; XFull] (sh ex_nd) /\
  dat (nc_ortho [XInt 1; XPos [2; 0; 2]; XFull] ex_nd) = [N_ 120; N_ 121; N_ 100; N_ 101; N_ 120; N_ 121] /\
  sh (nc_ortho [XInt 1; XPos [2; 0; 2]; XFull] ex_nd) = [3; 2].
Proof.
  split; [repeat constructor; simpl; lia|]. split; vm_compute; reflexivity.
Qed.
Definition ex_file : ncfile :=
  {| nf_fmt3 := false; nf_dims := [("time", 1); ("x", 2)]; nf_unl := ["time"];
     nf_vars := [("x", {| nv_dims := ["x"]; nv_kind := KO; nv_data := [CStr "p"; CStr "q"]; nv_attrs := [] |});
                 ("v", {| nv_dims := ["time"; "x"]; nv_kind := KF; nv_data := [N_ 1; N_ 2]; nv_attrs := [("units", MStr "K")] |});
                 ("time", {| nv_dims := ["time"]; nv_kind := KI; nv_data := [N_ 2000]; nv_attrs := [] |})]; nf_attrs := [] |}.
Example C20_growth_nonvacuous :
  exists g v', nc_append_rows "v" "time" [L_ 2001; L_ 2002] [N_ 3; N_ 4; N_ 5; N_ 6] ex_file = Ok g /\ assoc "v" (nf_vars g) = Some v' /\
    dat (vals (nc_read_var g v')) = [N_ 1; N_ 2; N_ 3; N_ 4; N_ 5; N_ 6] /\
    alab (nth 0 (axes (nc_read_var g v')) dax0) = [L_ 2000; L_ 2001; L_ 2002].
Proof. eexists. eexists. split; [vm_compute; reflexivity|]. split; [vm_compute; reflexivity|]. split; vm_compute; reflexivity. Qed.
