(* The operation language of the correspondence check: one constructor per public
   operation of dimarray that the model covers, and its dispatch onto the model. *)
From DA Require Import Prelude NDArray Array.
From DA Require Import PyRT.
From Coq Require Import Qabs.
From DA.Model Require Import Value Reshape Indexing Align Transform Flatten.
Open Scope string_scope.
Open Scope nat_scope.

Inductive op :=
| OTranspose (rs : list axref)
| OSwapaxes (r1 r2 : axref)
| ORollaxis (r : axref) (start : Z)
| ORepeat (k : kind) (labs : list label) (r : axref)
| ONewaxis (name : string) (v : option (kind * list label)) (pos : Z)
| OSqueeze (r : option axref)
| OBroadcast (axs : list axis)
| OBroadcastTo (i : nat)            (* a.broadcast(other array = input i) *)
| OGet (f : form) (tol : tolv) (keepdims : bool)
| OPut (f : form) (tol : tolv) (r : rhs) (cast : bool)
| OPutMask (m : list bool) (r : rhs) (cast : bool)
| OReindex (k : kind) (news : list label) (r : axref) (fill : cell) (fk : kind) (raise_error : bool) (m : rmethod)
| OReindexAxisObj (nx : axis)
| OReindexLike (i : nat)
| OAlign (j : join) (ax : option string) (sort : bool)
| OBinop (o : binop) (i : nat)
| OBinopR (o : binop) (i : nat)          (* ins[i] op a *)
| OScalarOp (o : binop) (c : cell) (k : kind) (reflected : bool)
| ONdarrayOp (o : binop) (w : nd)
| OStack (name : option string) (kk : kind) (keys : list label) (al sort : bool)
| OConcat (r : axref) (al sort : bool)
| OSortAxis (r : axref)
| OSortAxisKey (r : axref) (keys : list label)   (* sort_axis(axis, key=f): keys = f applied to the labels, stable *)
| OBroadcastArrays
| OReduce (f : redfn) (skipna : bool) (ax : axarg)
| OCum (prod skipna : bool) (r : axref)
| ODiff (r : axref) (sc : scheme) (keepaxis : bool) (n : nat)
| OArgExt (mx : bool) (r : option axref)
| ODropna (r : axref) (minvalid : option nat)
| OFillna (c : cell) (k : kind)
| OSetna (vs : list cell)
| OSetnaMask (m : list bool)
| OTakeAxisLabel (ls : list label) (r : axref)
| OTakeAxisPos (zs : list Z) (r : axref)
| OCompressAxis (m : list bool) (r : axref)
| OInterp (k : kind) (news : list label) (r : axref) (left right : cell)
| OInterpLike (others : list (string * kind * list label)) (left right : cell)
| OFlatten (rs : list axref) (as_set : bool) (insert : option Z)
| OUnflatten
| OReshape (newdims : list string)
| ORenameAxis (r : axref) (n : string)            (* a.axes[d].name = n   (in place) *)
| OSetLabel (r : axref) (i : Z) (l : label) (lk : kind)   (* a.axes[d][i] = label *)
| OSetDims (ns : list string)                     (* a.dims = (...) *)
| OSetAxis (r : axref) (k : kind) (labs : list label) (name : option string)   (* a.set_axis(labels, axis, name=) *)
| OIdentity                                       (* queries that only fill caches; Dataset insertion + extraction *)
| OPercentile (qs : list Q) (scalar : bool) (kk : kind) (ax : axarg)   (* lib.stats.percentile(a, q or [q...], axis) *)
.

Definition dflt_arr : darr := Arr [] [] KF [CNaN] [].

Definition arr1 (f : darr -> res darr) (a : darr) : res value :=
  let! r := f a in Ok (VArr r).

Definition apply_op (ins : list darr) (o : op) (a : darr) : res value :=
  match o with
  | OTranspose rs => arr1 (transpose rs) a
  | OSwapaxes r1 r2 => arr1 (swapaxes r1 r2) a
  | ORollaxis r s => arr1 (rollaxis r s) a
  | ORepeat k l r => arr1 (repeat k l r) a
  | ONewaxis n v p => arr1 (newaxis n v p) a
  | OSqueeze r => arr1 (squeeze r) a
  | OBroadcast axs => arr1 (broadcast axs) a
  | OBroadcastTo i => arr1 (broadcast (axes (nth i ins dflt_arr))) a
  | OGet f tol kd => getitem f tol kd a
  | OPut f tol r c => arr1 (setitem f tol r c) a
  | OPutMask m r c => arr1 (setmask m r c) a
  | OReindex k news r fill fk re m => arr1 (reindex_axis k news r fill fk re m) a
  | OReindexAxisObj nx => arr1 (reindex_to_axis nx) a
  | OReindexLike i => arr1 (reindex_like (axes (nth i ins dflt_arr))) a
  | OAlign j ax srt => let! l := align ins j ax srt false in Ok (VArrs l)
  | OBinop o i => arr1 (fun a => operation o a (nth i ins dflt_arr)) a
  | OBinopR o i => arr1 (fun a => operation o (nth i ins dflt_arr) a) a
  | OScalarOp o c k refl => arr1 (op_scalar o c k refl) a
  | ONdarrayOp o w => arr1 (op_ndarray o w) a
  | OStack n kk keys al srt => let! r := stack ins n kk keys al srt in Ok (VArr r)
  | OConcat r al srt => let! x := concatenate ins r al srt in Ok (VArr x)
  | OSortAxis r => arr1 (sort_axis r) a
  | OSortAxisKey r keys =>
      let! i := axis_info a r in
      if negb (List.length keys =? alen (nth i (axes a) dax0)) then Err OtherError
      else Ok (VArr (take_axis_pos (argsort keys) i a))
  | OBroadcastArrays => let! l := broadcast_arrays ins in Ok (VArrs l)
  | OReduce f sk ax => reduce_any f sk ax a
  | OCum p sk r => arr1 (cumulative p sk r) a
  | ODiff r sc ka n => arr1 (diff r sc ka n) a
  | OArgExt mx (Some r) => argext_axis mx r a
  | OArgExt mx None => argext_all mx a
  | ODropna r mv => arr1 (dropna r mv) a
  | OFillna c k => arr1 (fillna c k) a
  | OSetna vs => arr1 (setna vs) a
  | OSetnaMask m => arr1 (setna_mask m) a
  | OTakeAxisLabel ls r => arr1 (take_axis_label ls r) a
  | OTakeAxisPos zs r => arr1 (take_axis_position zs r) a
  | OCompressAxis m r => arr1 (fun a => let! i := axis_info a r in compress_axis m i a) a
  | OInterp k news r l rr => arr1 (interp_axis k news r l rr) a
  | OInterpLike others l rr => arr1 (interp_like others l rr) a
  | OFlatten rs st ins => arr1 (flatten rs st ins) a
  | OUnflatten => arr1 unflatten a
  | OReshape nd => arr1 (reshape nd) a
  | ORenameAxis r n =>
      let! i := axis_info a r in
      if String.eqb n "" then Err ValueError
      else Ok (VArr (mkarr (set_nth i (with_name (nth i (axes a) dax0) n) (axes a)) (vals a) (attrs a)))
  | OSetLabel r i l lk =>
      let! j := axis_info a r in
      let ax := nth j (axes a) dax0 in
      let! p := py_index (alen ax) i in
      Ok (VArr (mkarr (set_nth j {| aname := aname ax; akind := cast_kind (akind ax) lk; alab := set_nth p l (alab ax);
                                    aattrs := aattrs ax; amem := amem ax |} (axes a)) (vals a) (attrs a)))
  | OSetAxis r k labs name =>
      let! i := axis_info a r in
      let ax := nth i (axes a) dax0 in
      (* the name of another dimension (or an empty one) is refused before anything is touched *)
      if (match name with Some n => mem_str n (remove_nth i (dims a)) || String.eqb n "" | None => false end) then Err ValueError
      else if negb (List.length labs =? alen ax) then Err ValueError
      (* the new labels are taken as they are (their own kind), as on a new axis *)
      else Ok (VArr (mkarr (set_nth i {| aname := match name with Some n => n | None => aname ax end; akind := norm_axis_kind k;
                                         alab := labs; aattrs := aattrs ax; amem := amem ax |} (axes a)) (vals a) (attrs a)))
  | OSetDims ns =>
      if negb (List.length ns =? List.length (axes a)) then Err ValueError
      else if negb (distinct_str ns) then Err ValueError
      else if existsb (String.eqb "") ns then Err ValueError
      else Ok (VArr (mkarr (map (fun p => with_name (fst p) (snd p)) (combine (axes a) ns)) (vals a) (attrs a)))
  | OIdentity => Ok (VArr a)
  | OPercentile qs scalar kk ax =>
      match scalar, qs with
      | true, [q] => reduce_any (RPct q) false ax a
      | true, _ => Err TypeError
      | false, _ =>
          (* one reduction per percentile, stacked along a new first axis '<axis>_percentile' labelled by the percentiles *)
          let! name := match ax with
                       | AxOne r => let! i := axis_info a r in Ok (aname (nth i (axes a) dax0))
                       | _ => Err TypeError end in
          let! rs := mapM (fun q => let! v := reduce_any (RPct q) false ax a in
                                    match v with
                                    | VArr x => Ok (mkarr (axes x) (vals x) [])
                                    | VCell c => Ok (mkarr [] (mk [] KF (fun _ => c)) [])
                                    | _ => Err TypeError end) qs in
          let! st := stack rs (Some (name ++ "_percentile")) kk (map LNum qs) false false in
          Ok (VArr (mkarr (axes st) (vals st) (attrs a)))
      end
  end.

(* a program: ops applied in sequence to input 0; every intermediate result must be an array *)
Fixpoint run_ops (ins : list darr) (ops : list op) (a : darr) : res value :=
  match ops with
  | [] => Ok (VArr a)
  | [o] => apply_op ins o a
  | o :: t =>
      let! v := apply_op ins o a in
      match v with
      | VArr b => run_ops ins t b
      | _ => Err TypeError
      end
  end.

Definition case := (list darr * list op * expect)%type.
Definition run_case (c : case) : bool :=
  let '(ins, ops, e) := c in
  outcome_ok (run_ops ins ops (nth 0 ins dflt_arr)) e.
Definition show_case (c : case) : res value :=
  let '(ins, ops, e) := c in run_ops ins ops (nth 0 ins dflt_arr).

Definition outcome_close (r : res value) (e : expect) : bool :=
  match r, e with
  | Ok (VArr a), EVal (VArr b) => darr_close a b
  | Ok (VCell a), EVal (VCell b) => cell_close a b
  | _, _ => outcome_ok r e
  end.
Definition run_case_approx (c : case) : bool :=
  let '(ins, ops, e) := c in
  outcome_close (run_ops ins ops (nth 0 ins dflt_arr)) e.
