(* Label / position indexing: Axis.loc (locate_one, locate_many, locate_slice via the GENERATED
   code), _get_indices, _getaxes_ortho, _getvalues_ortho, _getitem, _setitem.
   Sources: core/indexing.py 42-81, core/bases.py 99-172, 274-355, 498-572, core/axes.py 148-162,
   core/dimarraycls.py 755-897. *)
From Coq Require Import Qround.
From DA Require Import Prelude NDArray Array PyRT.
From DA.Gen Require Import locate_slice cast.
From DA.Model Require Import Value Reshape SliceSpec.
Open Scope string_scope.
Open Scope nat_scope.

(* ------------------------------------------------------------------ locating labels *)
(* locate_one without tolerance: np.where(values == val)[0][0] *)
Definition locate_one (ls : list label) (v : label) : res nat :=
  match index_of (fun x => label_eqb x v) ls with Some i => Ok i | None => Err IndexError end.

(* np.argsort (stable insertion sort returning the permutation) *)
Fixpoint ins_sorted (ls : list label) (i : nat) (sorted : list nat) : list nat :=
  match sorted with
  | [] => [i]
  | j :: t => if label_ltb (nth i ls LNone) (nth j ls LNone) then i :: sorted else j :: ins_sorted ls i t
  end.
Definition argsort (ls : list label) : list nat :=
  fold_left (fun acc i => ins_sorted ls i acc) (seq 0 (List.length ls)) [].
(* np.searchsorted(values, v, sorter=isort, side) by its contract on the sorted view *)
Definition ss_count (side_right : bool) (sorted : list label) (v : label) : nat :=
  List.length (filter (fun x => if side_right then label_le x v else label_ltb x v) sorted).
(* locate_many: isort.take(searchsorted(values, val, sorter=isort), mode='clip') *)
Definition locate_many_raw (side_right : bool) (ls : list label) (vs : list label) : res (list nat) :=
  let isort := argsort ls in
  let sorted := map (fun j => nth j ls LNone) isort in
  match ls, vs with
  | [], _ :: _ => Err IndexError      (* cannot do a non-empty take from an empty axis *)
  | _, _ => Ok (map (fun v => nth (Nat.min (ss_count side_right sorted v) (List.length ls - 1)) isort 0) vs)
  end.
(* Axis.loc on a list: locate_many then the guard `values[matches] != val` *)
Definition locate_many (ls vs : list label) : res (list nat) :=
  let! ms := locate_many_raw false ls vs in
  if forallb (fun p => label_eqb (nth (fst p) ls LNone) (snd p)) (combine ms vs) then Ok ms
  else Err IndexError.

(* tolerance search: np.argmin(np.abs(values - val)), accepted iff within tol *)
Definition label_num (l : label) : option Q := match l with LAt (ANum q) => Some q | _ => None end.
Definition locate_one_tol (ls : list label) (v : label) (tol : tolv) : res nat :=
  match ls with [] => Err IndexError | _ =>        (* an empty axis: nothing is near, whatever is asked for *)
  match label_num v, mapM (fun x => match label_num x with Some q => Ok q | None => Err TypeError end) ls with
  | Some qv, Ok qs =>
      match map (fun q => Qabs.Qabs (q - qv)) qs with
      | [] => Err IndexError          (* an empty axis: nothing is near *)
      | d0 :: t =>
          let m := argmin_q t 1 0 d0 in
          match tol with
          | TolQ q => if negb (Qle_bool (nth m (d0 :: t) 0%Q) q) then Err IndexError else Ok m
          | _ => Ok m
          end
      end
  | _, _ => Err TypeError
  end end.

Definition numeric_kind (k : kind) : bool := match k with KI | KF => true | _ => false end.

(* labels as Python values for the generated locate_slice *)
Definition label_pv (l : label) : res pv :=
  match l with
  | LAt (ANum q) => Ok (PNum q) | LAt (AStr s) => Ok (PStr s) | LAt ANone => Ok PNone
  | LTup _ => Err TypeError
  end.
Definition opt_label_pv (o : option label) : res pv :=
  match o with None => Ok PNone | Some l => label_pv l end.

(* ------------------------------------------------------------------ index language *)
Inductive idx :=
| IScalar (l : label)
| IList (ls : list label)
| IMask (bs : list bool)
| ISlice (lo hi : option label) (step : option Z)
| IFull
| PScalar (z : Z)                      (* position mode *)
| PList (zs : list Z)
| PSlice (a b c : option Z).

(* position-level indexer of one dimension after _get_indices *)
Inductive pidx := XInt (i : nat) | XPos (l : list nat) | XFull.

Definition mask_positions (bs : list bool) : list nat :=
  map fst (filter (fun p => snd p) (combine (seq 0 (List.length bs)) bs)).

(* Axis.loc *)
Definition axis_loc (ax : axis) (i : idx) (tol : tolv) (keepdims : bool) : res pidx :=
  let ls := alab ax in
  let n := List.length ls in
  let tol := if numeric_kind (akind ax) then tol else TolNone in
  let keep := fun (r : res nat) => let! p := r in Ok (if keepdims then XPos [p] else XInt p) in
  match i with
  | IFull => Ok XFull
  | IScalar v =>
      match tol with
      | TolNone => keep (locate_one ls v)
      | _ => keep (locate_one_tol ls v tol)
      end
  | IList vs =>
      match tol with
      | TolNone => let! ms := locate_many ls vs in Ok (XPos ms)
      | _ => let! ms := mapM (fun v => locate_one_tol ls v tol) vs in Ok (XPos ms)
      end
  | IMask bs => if List.length bs =? n then Ok (XPos (mask_positions bs)) else Err IndexError
  | ISlice lo hi st =>
      let! pls := mapM label_pv ls in
      let! plo := opt_label_pv lo in
      let! phi := opt_label_pv hi in
      let! ps := run_slice (PArr (akind ax) pls) plo phi st n in
      Ok (XPos ps)
  | PScalar z => keep (py_index n z)
  | PList zs => let! ps := mapM (py_index n) zs in Ok (XPos ps)
  | PSlice a b c =>
      match a, b, c with
      | None, None, None => Ok XFull
      | _, _, _ => let! ps := slice_positions a b c n in Ok (XPos ps)
      end
  end.

(* indexing forms accepted by _get_indices *)
Inductive form :=
| FTuple (l : list idx)
| FDict (l : list (axref * idx))
| FAxisKw (r : axref) (i : idx).

Fixpoint dict_lookup (ds : list (nat * idx)) (k : nat) : idx :=
  match ds with
  | [] => IFull
  | (j, i) :: t => if j =? k then i else dict_lookup t k
  end.

(* dict keys: str must be a dimension (ValueError), int positions are looked up in dims (IndexError) *)
Definition dict_key (a : darr) (r : axref) : res nat :=
  match r with
  | ByName s => match find_dim (dims a) s with Some i => Ok i | None => Err ValueError end
  | ByPos z => py_index (List.length (axes a)) z
  end.

Definition expand_form (a : darr) (f : form) : res (list idx) :=
  let n := List.length (axes a) in
  match f with
  | FTuple l =>
      if n <? List.length l then Err IndexError
      else Ok (l ++ List.repeat IFull (n - List.length l))%list
  | FDict l =>
      let! ks := mapM (fun p => let! k := dict_key a (fst p) in Ok (k, snd p)) l in
      (* later entries for the same dimension override earlier ones *)
      Ok (map (dict_lookup (rev ks)) (seq 0 n))
  | FAxisKw r i =>
      let! k := dict_key a r in
      Ok (map (dict_lookup [(k, i)]) (seq 0 n))
  end.

Definition get_indices (a : darr) (f : form) (tol : tolv) (keepdims : bool) : res (list pidx) :=
  let! ixs := expand_form a f in
  mapM (fun p => axis_loc (fst p) (snd p) tol keepdims) (combine (axes a) ixs).

(* _getaxes_ortho: Axis.__getitem__ per dimension; scalars drop the axis; a full slice keeps
   the very same axis; anything else builds Axis(values[item], name, **attrs) *)
Fixpoint getaxes (axs : list axis) (ps : list pidx) : list axis :=
  match axs, ps with
  | ax :: t, XInt _ :: ps' => getaxes t ps'
  | ax :: t, XFull :: ps' => ax :: getaxes t ps'
  | ax :: t, XPos l :: ps' =>
      with_labels ax (akind ax) (map (fun j => nth j (alab ax) LNone) l) :: getaxes t ps'
  | _, _ => []
  end.

(* values[orthogonal_indexer(idx)] by its meaning: every dimension sampled independently *)
Fixpoint out_shape (ps : list pidx) (s : list nat) : list nat :=
  match ps, s with
  | XInt _ :: ps', _ :: s' => out_shape ps' s'
  | XPos l :: ps', _ :: s' => List.length l :: out_shape ps' s'
  | XFull :: ps', n :: s' => n :: out_shape ps' s'
  | _, _ => []
  end.
Fixpoint src_of (ps : list pidx) (c' : list nat) : list nat :=
  match ps with
  | [] => []
  | XInt i :: t => i :: src_of t c'
  | XPos l :: t => match c' with j :: c'' => nth j l 0 :: src_of t c'' | [] => 0 :: src_of t [] end
  | XFull :: t => match c' with j :: c'' => j :: src_of t c'' | [] => 0 :: src_of t [] end
  end.
Definition np_outer (ps : list pidx) (a : nd) : nd :=
  mk (out_shape ps (sh a)) (kd a) (fun c' => get a (src_of ps c')).

Definition all_int (ps : list pidx) : bool := forallb (fun p => match p with XInt _ => true | _ => false end) ps.

(* _getitem (orthogonal indexing) *)
Definition getitem (f : form) (tol : tolv) (keepdims : bool) (a : darr) : res value :=
  let! ps := get_indices a f tol keepdims in
  let v := np_outer ps (vals a) in
  if all_int ps then Ok (VCell (get (vals a) (src_of ps [])))
  else Ok (VArr (mkarr (getaxes (axes a) ps) v (attrs a))).

(* ------------------------------------------------------------------ assignment *)
(* the kind chosen by the GENERATED _maybe_cast_type *)
Definition kind_of_str (s : string) : kind :=
  match s with "b" => KB | "i" => KI | "f" => KF | "U" => KU | "S" => KS | _ => KO end.
Definition cast_kind (arr_k val_k : kind) : kind :=
  match g__maybe_cast_type (PArr arr_k []) (PArr val_k []) with
  | Ok (PArr k _) => k
  | _ => arr_k
  end.

(* value cells converted on assignment into an array of kind k (numpy casting of Python values) *)
Definition cell_to_kind (k : kind) (c : cell) : res cell :=
  match k, c with
  | KF, CNum q => Ok (CNum q) | KF, CNaN => Ok CNaN | KF, CBool b => Ok (CNum (if b then 1 else 0)%Q)
  | KF, _ => Err ValueError
  | KI, CNum q => Ok (CNum (inject_Z (if Qle_bool 0 q then Qfloor q else Qceiling q))) (* C cast: truncation *)
  | KI, CBool b => Ok (CNum (if b then 1 else 0)%Q)
  | KI, CNaN => Err ValueError
  | KI, _ => Err ValueError
  | KB, CBool b => Ok (CBool b)
  | KB, CNum q => Ok (CBool (negb (Qeq_bool q 0)))
  | KB, CNaN => Ok (CBool true)
  | KB, _ => Ok (CBool true)
  | _, c => Ok c
  end.

(* membership of a source coordinate in the addressed box, and the matching box coordinate *)
Fixpoint find_last (l : list nat) (i : nat) (k : nat) (acc : option nat) : option nat :=
  match l with
  | [] => acc
  | x :: t => find_last t i (S k) (if x =? i then Some k else acc)
  end.
(* for source coordinate c, the coordinate in the selection box that is written LAST to it *)
Fixpoint box_coord (ps : list pidx) (c : list nat) : option (list nat) :=
  match ps, c with
  | [], [] => Some []
  | XInt i :: ps', j :: c' => if i =? j then box_coord ps' c' else None
  | XFull :: ps', j :: c' => option_map (cons j) (box_coord ps' c')
  | XPos l :: ps', j :: c' =>
      match find_last l j 0 None with
      | Some k => option_map (cons k) (box_coord ps' c')
      | None => None
      end
  | _, _ => None
  end.

(* right-hand side: a scalar, or an array broadcast (numpy rules) to the box shape *)
Inductive rhs := RScalar (c : cell) (k : kind) | RArr (v : nd).
Definition bcast_coord (vs bs : list nat) (c : list nat) : list nat :=
  (* align trailing dimensions *)
  let d := List.length bs - List.length vs in
  map (fun p => if fst p =? 1 then 0 else snd p) (combine vs (skipn d c)).
Definition bcast_ok (vs bs : list nat) : bool :=
  (List.length vs <=? List.length bs)
  && forallb (fun p => (fst p =? 1) || (fst p =? snd p)) (combine vs (skipn (List.length bs - List.length vs) bs)).
Definition rhs_kind (r : rhs) : kind := match r with RScalar _ k => k | RArr v => kd v end.
Definition rhs_at (r : rhs) (bs : list nat) (c : list nat) : cell :=
  match r with RScalar x _ => x | RArr v => get v (bcast_coord (sh v) bs c) end.

Definition np_set_outer (ps : list pidx) (r : rhs) (k : kind) (a : nd) : res nd :=
  let bs := out_shape ps (sh a) in
  if match r with RScalar _ _ => true | RArr v => bcast_ok (sh v) bs end then
    let! newdat := mapM (fun c => match box_coord ps c with
                                   | Some bc => cell_to_kind k (rhs_at r bs bc)
                                   | None => cell_to_kind k (get a c)
                                   end) (coords (sh a)) in
    Ok {| sh := sh a; dat := newdat; kd := k |}
  else Err ValueError.

Definition setitem (f : form) (tol : tolv) (r : rhs) (cast : bool) (a : darr) : res darr :=
  let! ps := get_indices a f tol false in
  let k := if cast then cast_kind (kd (vals a)) (rhs_kind r) else kd (vals a) in
  let! v := np_set_outer ps r k (vals a) in
  Ok (mkarr (axes a) v (attrs a)).

(* a[mask] = v with a full-shape boolean mask (row-major list of booleans) *)
Fixpoint mask_rank (m : list bool) (i : nat) : nat :=   (* number of true entries before position i *)
  match m, i with
  | b :: t, S j => (if b then 1 else 0) + mask_rank t j
  | _, _ => 0
  end.
Definition setmask (m : list bool) (r : rhs) (cast : bool) (a : darr) : res darr :=
  let v := vals a in
  if negb (List.length m =? prod (sh v)) then Err IndexError else
  let k := if cast then cast_kind (kd v) (rhs_kind r) else kd v in
  let ntrue := List.length (filter (fun b => b) m) in
  if match r with RScalar _ _ => true
                | RArr w => match sh w with [n] => (n =? ntrue) || (n =? 1) | [] => true | _ => false end end then
    let! newdat := mapM (fun p => let '(i, (b, c)) := p in
                           if (b : bool) then cell_to_kind k (match r with
                                                     | RScalar x _ => x
                                                     | RArr w => nth (if List.length (dat w) =? 1 then 0 else mask_rank m i) (dat w) CNaN end)
                           else cell_to_kind k c)
                        (combine (seq 0 (List.length m)) (combine m (dat v))) in
    Ok (mkarr (axes a) {| sh := sh v; dat := newdat; kd := k |} (attrs a))
  else Err ValueError.
