(* core/axes.py _init_axes, core/dimarraycls.py DimArray.__init__, zeros/ones/empty: the documented
   ways of specifying the axes of a new array. *)
From Coq Require Import Qround Qabs.
From DA Require Import Prelude NDArray Array PyRT.
From DA.Model Require Import Value Reshape SliceSpec Indexing Align.
Open Scope string_scope.
Open Scope nat_scope.
Open Scope list_scope.

(* a dimension name as written by the caller: Python accepts any object there *)
Inductive dname := DStr (s : string) | DNonStr.
Definition labspec := (kind * list label)%type.

(* Axis(values, name): the name must be a non-empty string *)
Definition mk_named_axis (n : dname) (k : kind) (l : list label) : res axis :=
  match n with
  | DNonStr => Err TypeError
  | DStr s => if String.eqb s "" then Err ValueError else Ok (mkaxis s k l)
  end.
(* Axes.append: names must be distinct *)
Fixpoint append_all (acc : list axis) (l : list axis) : res (list axis) :=
  match l with
  | [] => Ok acc
  | ax :: t => if mem_str (aname ax) (map aname acc) then Err ValueError else append_all (acc ++ [ax]) t
  end.
Definition arange_labels (n : nat) : list label := map (fun i => LNum (inject_Z (Z.of_nat i))) (seq 0 n).
(* "x0", "x1", ... (fewer than 10 dimensions) *)
Definition default_name (i : nat) : string := String "x"%char (String (ascii_of_nat (48 + i)) "").

Inductive axspec :=
| SLists (labs : list labspec) (dims : option (list dname))      (* axes=[labels...], dims=[names] *)
| SPairs (l : list (dname * labspec))                            (* axes=[(name, labels), ...] *)
| SAxisObjs (l : list axis)                                      (* axes=[Axis, ...] *)
| SDict (l : list (dname * labspec)) (dims : list dname)         (* axes={name: labels}, dims=[names] *)
| SDimsOnly (dims : list dname)                                  (* dims=[names]: labels 0..n-1 *)
| SNothing.

Definition dname_eqb (a b : dname) : bool :=
  match a, b with DStr s, DStr t => String.eqb s t | DNonStr, DNonStr => true | _, _ => false end.

(* list.sort(key=lambda ax: dims.index(ax.name)): a stable insertion sort on the position of the name in dims *)
Definition dn_index (ds : list dname) (s : string) : nat :=
  match index_of (dname_eqb (DStr s)) ds with Some i => i | None => 0 end.
Fixpoint ins_by (key : axis -> nat) (x : axis) (l : list axis) : list axis :=
  match l with
  | [] => [x]
  | y :: t => if key x <=? key y then x :: l else y :: ins_by key x t
  end.
Definition sort_by (key : axis -> nat) (l : list axis) : list axis := fold_right (ins_by key) [] l.

(* Axes.from_shape(shape, dims) *)
Definition from_shape (ds : list dname) (shape : list nat) : res (list axis) :=
  if List.length shape <? List.length ds then Err ValueError else        (* more names than dimensions: refused *)
  if negb (List.length ds =? List.length shape) then Err IndexError else
  let! axs := mapM (fun p => mk_named_axis (fst p) KI (arange_labels (snd p))) (combine ds shape) in
  append_all [] axs.

Definition init_axes (sp : axspec) (shape : list nat) : res (list axis) :=
  match sp with
  | SLists labs dims =>
      match dims with
      | Some ds =>
          if negb (List.length ds =? List.length labs) then Err AssertionError else
          let! axs := mapM (fun p => mk_named_axis (fst p) (fst (snd p)) (snd (snd p))) (combine ds labs) in
          append_all [] axs
      | None =>
          let! axs := mapM (fun p => mk_named_axis (DStr (default_name (fst p))) (fst (snd p)) (snd (snd p)))
                           (combine (seq 0 (List.length labs)) labs) in
          append_all [] axs
      end
  | SPairs l =>
      let! axs := mapM (fun p => mk_named_axis (fst p) (fst (snd p)) (snd (snd p))) l in
      append_all [] axs
  | SAxisObjs l => append_all [] l
  | SDict [] ds => from_shape ds shape        (* an empty dict: default axes *)
  | SDict l ds =>
      if List.length l <? List.length ds then Err ValueError else          (* more names than axes: refused *)
      let! axs := mapM (fun p => mk_named_axis (fst p) (fst (snd p)) (snd (snd p))) l in
      let! axs := append_all [] axs in
      (* axes.sort(dims): every axis name must be listed in dims; order of dims *)
      if negb (forallb (fun ax => existsb (dname_eqb (DStr (aname ax))) ds) axs) then Err ValueError
      else Ok (sort_by (fun ax => dn_index ds (aname ax)) axs)
  | SDimsOnly ds => from_shape ds shape
  | SNothing =>
      let! axs := mapM (fun p => mk_named_axis (DStr (default_name (fst p))) KI (arange_labels (snd p)))
                       (combine (seq 0 (List.length shape)) shape) in
      append_all [] axs
  end.

(* DimArray(values, axes=..., dims=...) *)
Definition ctor (sp : axspec) (v : nd) : res darr :=
  let! axs := init_axes sp (sh v) in construct axs v [].

(* zeros / ones / empty(axes=..., dims=...): the shape comes from the axes *)
Definition ctor_fill (sp : axspec) (shape : option (list nat)) (c : cell) (k : kind) : res darr :=
  let! axs := init_axes sp (match shape with Some s => s | None => [] end) in
  let s := match shape with Some s => s | None => map alen axs end in
  construct axs (mk s k (fun _ => c)) [].

(* correspondence cases *)
Inductive ccase :=
| CCtor (sp : axspec) (v : nd) (e : expect)
| CFill (sp : axspec) (shape : option (list nat)) (c : cell) (k : kind) (e : expect).
Definition ccase_ok (c : ccase) : bool :=
  match c with
  | CCtor sp v e => outcome_ok (let! r := ctor sp v in Ok (VArr r)) e
  | CFill sp s cc k e => outcome_ok (let! r := ctor_fill sp s cc k in Ok (VArr r)) e
  end.
Definition ccase_show (c : ccase) : res darr :=
  match c with CCtor sp v _ => ctor sp v | CFill sp s cc k _ => ctor_fill sp s cc k end.
