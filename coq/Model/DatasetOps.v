(* dataset.py: Dataset-wide operations (take and the accessors, reductions, take_axis, sort_axis,
   reindex_axis, interp_axis, arithmetic, stack_ds, concatenate_ds) over the heap model. *)
From Coq Require Import Qround Qabs.
From DA Require Import Prelude NDArray Array PyRT.
From DA.Model Require Import Value Reshape SliceSpec Indexing Align Transform Flatten Dataset.
Open Scope string_scope.
Open Scope nat_scope.
Open Scope list_scope.

Definition ds_vars_arr (s : dset) : list (string * darr) := map (fun v => (vkey v, var_as_darr s v)) (dvars s).
Definition ds_axes (s : dset) : list axis := map (hget (heap s)) (dsax s).

(* data.axes = [...] on a new Dataset: axes appended directly (no variable uses them yet) *)
Definition ds_append_axes (axs : list axis) (s : dset) : dset :=
  fold_left (fun st ax => {| heap := hset (heap st) (nextid st) ax; dsax := dsax st ++ [nextid st];
                             dvars := dvars st; dsattrs := dsattrs st; nextid := S (nextid st) |}) axs s.
Definition ds_set_all (vars : list (string * darr)) (s : dset) : dset * res unit :=
  fold_left (fun (acc : dset * res unit) p =>
               match snd acc with
               | Ok _ => ds_setitem (fst p) (snd p) (fst acc)
               | Err e => acc end) vars (s, Ok tt).
Definition ds_with_attrs (m : meta) (s : dset) : dset :=
  {| heap := heap s; dsax := dsax s; dvars := dvars s; dsattrs := m; nextid := nextid s |}.
(* Dataset(); data.axes = first; data[k] = v for k, v in vars; data.attrs.update(attrs) *)
Definition ds_assemble (first : list axis) (vars : list (string * darr)) (m : meta) : res dset :=
  let '(s, r) := ds_set_all vars (ds_append_axes first ds_empty) in
  match r with Ok _ => Ok (ds_with_attrs m s) | Err e => Err e end.
(* Dataset(dict): align first *)
Definition ds_construct (vars : list (string * darr)) (m : meta) : res dset :=
  let '(s, r) := ds_init vars in
  match r with Ok _ => Ok (ds_with_attrs m s) | Err e => Err e end.

Definition mapM_vars (f : darr -> res darr) (vars : list (string * darr)) : res (list (string * darr)) :=
  mapM (fun p => let! r := f (snd p) in Ok (fst p, r)) vars.
Definition has_dim (a : darr) (d : string) : bool := mem_str d (dims a).

(* a scalar result of a variable is stored as a 0-d array *)
Definition as_arr (v : value) (k : kind) (m : meta) : res darr :=
  match v with
  | VArr a => Ok a
  | VCell c => Ok (mkarr [] {| sh := []; dat := [c]; kd := k |} [])
  | _ => Err TypeError
  end.
Definition cell_kind (c : cell) (dflt : kind) : kind :=
  match c with CBool _ => KB | CStr _ => KO | _ => dflt end.

(* ------------------------------------------------------------------ take / ix / loc / sel / isel *)
(* indices are resolved ONCE on the dataset's axes, then every variable is indexed by position *)
Definition ds_take (f : form) (tol : tolv) (keepdims : bool) (s : dset) : res dset :=
  let pseudo := mkarr (ds_axes s) {| sh := map alen (ds_axes s); dat := []; kd := KF |} [] in
  let! ps := get_indices pseudo f tol keepdims in
  let byname := combine (ds_dims s) ps in
  let! vars := mapM_vars (fun a =>
      let vps := map (fun d => match find (fun p => String.eqb (fst p) d) byname with
                               | Some p => snd p | None => XFull end) (dims a) in
      if match axes a with [] => true | _ => false end then Ok a     (* scalar items are left unchanged, metadata included *)
      else if all_int vps then
        let c := get (vals a) (src_of vps []) in
        Ok (mkarr [] {| sh := []; dat := [c]; kd := kd (vals a) |} [])
      else Ok (mkarr (getaxes (axes a) vps) (np_outer vps (vals a)) (attrs a))) (ds_vars_arr s) in
  ds_assemble (getaxes (ds_axes s) ps) vars (dsattrs s).

(* ------------------------------------------------------------------ mean / std / var / median / sum *)
Definition ds_reduce (f : redfn) (r : axref) (s : dset) : res dset :=
  let! id := ds_axis_ref s r in
  let d := aname (hget (heap s) id) in
  let! vars := mapM_vars (fun a =>
      if has_dim a d then
        let! v := reduce_any f false (AxOne (ByName d)) a in
        as_arr v (red_kind f (kd (vals a))) (attrs a)
      else Ok a) (ds_vars_arr s) in
  ds_construct vars [].

(* ------------------------------------------------------------------ take_axis / sort_axis *)
Definition ds_take_axis_pos (idxs : list nat) (id : nat) (s : dset) : res dset :=
  let ax := hget (heap s) id in
  let d := aname ax in
  let newax := ax_new d (akind ax) (map (nth_lab (alab ax)) idxs) (aattrs ax) in
  let first := map (fun j => if j =? id then newax else hget (heap s) j) (dsax s) in
  let! vars := mapM_vars (fun a =>
      match find_dim (dims a) d with
      | Some i => Ok (mkarr (set_nth i newax (axes a)) (np_take idxs i (vals a)) (attrs a))
      | None => Ok a
      end) (ds_vars_arr s) in
  ds_assemble first vars (dsattrs s).
Definition ds_take_axis_label (ls : list label) (r : axref) (s : dset) : res dset :=
  let! id := ds_axis_ref s r in
  let! idxs := locate_many (alab (hget (heap s) id)) ls in
  ds_take_axis_pos idxs id s.
Definition ds_take_axis_position (zs : list Z) (r : axref) (s : dset) : res dset :=
  let! id := ds_axis_ref s r in
  let! idxs := mapM (py_index (alen (hget (heap s) id))) zs in
  ds_take_axis_pos idxs id s.
Definition ds_sort_axis (r : axref) (s : dset) : res dset :=
  let! id := ds_axis_ref s r in
  ds_take_axis_pos (argsort (alab (hget (heap s) id))) id s.

(* ------------------------------------------------------------------ reindex_axis / interp_axis: the per-variable rule *)
Definition ds_per_variable (d : string) (f : darr -> res darr) (newax : option axis) (s : dset) : res dset :=
  let! vars := mapM_vars (fun a => if has_dim a d then f a else Ok a) (ds_vars_arr s) in
  let first := map (fun j => let ax := hget (heap s) j in
                             match newax with
                             | Some nx => if String.eqb (aname ax) d then nx else ax
                             | None => ax end) (dsax s) in
  ds_assemble first vars (dsattrs s).
Definition ds_reindex_axis (newk : kind) (news : list label) (r : axref) (fill : cell) (fk : kind) (raise_error : bool) (s : dset) : res dset :=
  let! id := ds_axis_ref s r in
  let ax := hget (heap s) id in
  let d := aname ax in
  if (alen ax =? 0) && negb (List.length news =? 0) then
    (* empty axis: every variable that has it goes through DimArray.reindex_axis, a new Dataset is built from the results *)
    let! vars := mapM_vars (fun a => match find_dim (dims a) d with
                                     | Some i => reindex_empty newk news i fill fk raise_error a
                                     | None => Ok a end) (ds_vars_arr s) in
    ds_construct vars (dsattrs s)
  else
  (* the dataset's own axis after reindexing (no variable may have it) *)
  let! idxs := (if raise_error then locate_many (alab ax) news else locate_many_raw false (alab ax) news) in
  let mask := map (fun p => negb (label_eqb (nth_lab (alab ax) (fst p)) (snd p))) (combine idxs news) in
  let taken := ax_new d (akind ax) (map (nth_lab (alab ax)) idxs) (aattrs ax) in
  let newax := if existsb (fun b => b) mask
               then relabel taken newk (map (fun p : bool * label => if fst p then Some (snd p) else None) (combine mask news))
               else taken in
  ds_per_variable d (fun a =>
      match find_dim (dims a) d with
      | Some i => reindex_main newk news i fill fk false MNone a
      | None => Ok a end) (Some newax) s.
Definition ds_interp_axis (newk : kind) (news : list label) (r : axref) (left right : cell) (s : dset) : res dset :=
  let! id := ds_axis_ref s r in
  let ax := hget (heap s) id in
  let d := aname ax in
  let! _ := labels_q news in
  let! _ := labels_q (alab ax) in
  let newax := ax_new d (match newk with KI => KI | _ => KF end) news [] in
  (* every variable goes through the N-d path (even 1-D ones) *)
  ds_per_variable d (fun a =>
      match find_dim (dims a) d with
      | Some i =>
          let! nq := labels_q news in
          let! xq0 := labels_q (alab (nth i (axes a) dax0)) in
          let a := if is_sorted_q xq0 then a else take_axis_pos (argsort (alab (nth i (axes a) dax0))) i a in
          let! xq := labels_q (alab (nth i (axes a) dax0)) in
          Ok (mkarr (set_nth i newax (axes a))
                    (np_along KF (List.length news) (fun f => map (interp1 xq f left right) nq) i (vals a)) (attrs a))
      | None => Ok a end) (Some newax) s.

(* ------------------------------------------------------------------ arithmetic *)
Definition ds_binop_scalar (o : binop) (c : cell) (k : kind) (reflected : bool) (s : dset) : res dset :=
  let! vars := mapM_vars (op_scalar o c k reflected) (ds_vars_arr s) in
  ds_assemble [] vars [].
Definition ds_binop (o : binop) (s1 s2 : dset) : res dset :=
  let v2 := ds_vars_arr s2 in
  let! vars := mapM (fun p => match find (fun q => String.eqb (fst q) (fst p)) v2 with
                              | Some q => let! r := operation o (snd p) (snd q) in Ok [(fst p, r)]
                              | None => Ok [] end) (ds_vars_arr s1) in
  ds_assemble [] (List.concat vars) [].

(* ------------------------------------------------------------------ stack_ds / concatenate_ds *)
Definition same_keys (l : list dset) : bool :=
  match l with
  | [] => true
  | s0 :: t => forallb (fun s => forallb (fun k => mem_str k (ds_keys s0)) (ds_keys s)
                                 && forallb (fun k => mem_str k (ds_keys s)) (ds_keys s0)) t
  end.
Definition ds_stack (l : list dset) (name : string) (kk : kind) (keys : list label) : res dset :=
  match l with
  | [] => Err OtherError
  | s0 :: _ =>
      if negb (same_keys l) then Err AssertionError else
      if existsb (fun s => mem_str name (ds_dims s)) l then Err AssertionError else
      let! vars := mapM (fun k =>
          let arrs := flat_map (fun s => match find (fun p => String.eqb (fst p) k) (ds_vars_arr s) with Some p => [snd p] | None => [] end) l in
          let! r := stack arrs (Some name) kk keys false false in Ok (k, r)) (ds_keys s0) in
      ds_assemble [] vars []
  end.
Definition ds_concatenate (l : list dset) (r : axref) : res dset :=
  match l with
  | [] => Err OtherError
  | s0 :: _ =>
      if negb (same_keys l) then Err AssertionError else
      (* the axis is a dimension of the DATASET (a position counts in its dims, not in each variable's) *)
      let! id := ds_axis_ref s0 r in
      let d := aname (hget (heap s0) id) in
      let! vars := mapM (fun k =>
          let arrs := flat_map (fun s => match find (fun p => String.eqb (fst p) k) (ds_vars_arr s) with Some p => [snd p] | None => [] end) l in
          match arrs with
          | [] => Err OtherError
          | a0 :: rest =>
              if has_dim a0 d then let! x := concatenate arrs (ByName d) false false in Ok (k, x)
              else if forallb (darr_eqb a0) rest then Ok (k, a0)      (* a variable without that dimension is left unchanged *)
              else Err ValueError
          end) (ds_keys s0) in
      ds_assemble [] vars []
  end.

(* ------------------------------------------------------------------ correspondence *)
Inductive dswop :=
| WTake (f : form) (tol : tolv) (keepdims : bool)
| WReduce (f : redfn) (r : axref)
| WTakeAxisLabel (ls : list label) (r : axref)
| WTakeAxisPos (zs : list Z) (r : axref)
| WSortAxis (r : axref)
| WReindex (k : kind) (news : list label) (r : axref) (fill : cell) (fk : kind) (raise_error : bool)
| WInterp (k : kind) (news : list label) (r : axref) (left right : cell)
| WScalarOp (o : binop) (c : cell) (k : kind) (reflected : bool)
| WBinop (o : binop)                  (* datasets 0 and 1 *)
| WStack (name : string) (kk : kind) (keys : list label)
| WConcat (r : axref).

Definition build (vars : list (string * darr)) (m : meta) : res dset :=
  let '(s, r) := ds_set_all vars ds_empty in match r with Ok _ => Ok (ds_with_attrs m s) | Err e => Err e end.
Definition apply_dswop (inputs : list (list (string * darr) * meta)) (o : dswop) : res dset :=
  let! dss := mapM (fun p => build (fst p) (snd p)) inputs in
  let s := nth 0 dss ds_empty in
  match o with
  | WTake f tol kd => ds_take f tol kd s
  | WReduce f r => ds_reduce f r s
  | WTakeAxisLabel ls r => ds_take_axis_label ls r s
  | WTakeAxisPos zs r => ds_take_axis_position zs r s
  | WSortAxis r => ds_sort_axis r s
  | WReindex k news r fill fk re => ds_reindex_axis k news r fill fk re s
  | WInterp k news r l rr => ds_interp_axis k news r l rr s
  | WScalarOp o c k refl => ds_binop_scalar o c k refl s
  | WBinop o => ds_binop o s (nth 1 dss ds_empty)
  | WStack n kk keys => ds_stack dss n kk keys
  | WConcat r => ds_concatenate dss r
  end.
(* observation, values compared with the relative tolerance of [cell_close] (means, interpolation) *)
Definition vobs_close (x y : vobs) : bool :=
  String.eqb (okey x) (okey y) && darr_close (oarr x) (oarr y) && list_eqb Bool.eqb (oshared x) (oshared y).
Definition dsobs_close (x y : dsobs) : bool :=
  list_eqb String.eqb (odims x) (odims y) && list_eqb axis_eqb (oaxes x) (oaxes y) && list_eqb vobs_close (ovars x) (ovars y).
Inductive wexpect := WVal (o : dsobs) (m : meta) | WErr (e : exn) | WAnyErr.
Definition wcase := (list (list (string * darr) * meta) * dswop * wexpect)%type.
Definition wcase_ok (c : wcase) : bool :=
  let '(inputs, o, e) := c in
  match apply_dswop inputs o, e with
  | Ok s, WVal ob m => dsobs_close (observe s) ob && meta_eqb (dsattrs s) m
  | Err x, WErr y => exn_eqb x y
  | Err _, WAnyErr => true
  | _, _ => false
  end.
Definition wcase_show (c : wcase) :=
  let '(inputs, o, e) := c in
  match apply_dswop inputs o with Ok s => Ok (observe s, dsattrs s) | Err x => Err x end.
