(* C02: declarative specification of label slices (independent of the algorithm) and the
   typed wrapper around the *generated* locate_slice. *)
From DA Require Import Prelude NDArray Array PyRT.
From DA.Gen Require Import locate_slice.
Open Scope string_scope.

Definition arrQ (k : kind) (xs : list Q) : pv := PArr k (map PNum xs).
Definition optQ (o : option Q) : pv := match o with None => PNone | Some q => PNum q end.
Definition optZ (o : option Z) : pv := match o with None => PNone | Some z => PInt z end.
Definition to_optZ (v : pv) : res (option Z) :=
  match v with PNone => Ok None | PInt z => Ok (Some z) | _ => Err TypeError end.

(* positions selected by values[loc(slice(lo, hi, step))] : the generated locate_slice followed by
   Python's own slice semantics *)
Definition slice_bounds (ls : pv) (lo hi : pv) (step : option Z) : res (option Z * option Z) :=
  let! r := g_locate_slice ls lo hi (optZ step) (PBool false) in
  match r with
  | PTuple [a; b] => let! sa := to_optZ a in let! sb := to_optZ b in Ok (sa, sb)
  | _ => Err TypeError
  end.
Definition run_slice (ls : pv) (lo hi : pv) (step : option Z) (n : nat) : res (list nat) :=
  let! (sa, sb) := slice_bounds ls lo hi step in
  slice_positions sa sb step n.

(* ---------------------------------------------------------------- specification *)
Definition qle_opt_l (lo : option Q) (x : Q) : bool := match lo with None => true | Some l => Qle_bool l x end.
Definition qle_opt_r (x : Q) (hi : option Q) : bool := match hi with None => true | Some h => Qle_bool x h end.
(* bounds are taken in the direction of travel *)
Definition between (travel_inc : bool) (lo hi : option Q) (x : Q) : bool :=
  if travel_inc then qle_opt_l lo x && qle_opt_r x hi
  else qle_opt_l hi x && qle_opt_r x lo.
Fixpoint every (k : nat) (i : nat) (l : list nat) : list nat :=
  match l with
  | [] => []
  | x :: t => match i with O => x :: every k (k - 1) t | S i' => every k i' t end
  end.
Definition axis_increasing (xs : list Q) : bool :=
  match xs with
  | [] => true
  | x :: _ => Qle_bool x (last xs x)
  end.
Definition spec_positions (xs : list Q) (lo hi : option Q) (step : option Z) : list nat :=
  let n := List.length xs in
  let neg := match step with Some s => (s <? 0)%Z | None => false end in
  let k := match step with Some s => Z.to_nat (Z.abs s) | None => 1%nat end in
  let order := if neg then rev (seq 0 n) else seq 0 n in
  let travel_inc := Bool.eqb (axis_increasing xs) (negb neg) in
  every k 0 (filter (fun i => between travel_inc lo hi (nth i xs 0%Q)) order).

Definition monotonicb (xs : list Q) : bool :=
  let fix inc l := match l with x :: ((y :: _) as t) => Qle_bool x y && negb (Qeq_bool x y) && inc t | _ => true end in
  let fix dec l := match l with x :: ((y :: _) as t) => Qle_bool y x && negb (Qeq_bool x y) && dec t | _ => true end in
  inc xs || dec xs.

(* one point of the quantifier's domain: generated code + Python slice = specification *)
Definition slice_case_ok (k : kind) (xs : list Q) (lo hi : option Q) (step : option Z) : bool :=
  match run_slice (arrQ k xs) (optQ lo) (optQ hi) step (List.length xs) with
  | Ok ps => list_eqb Nat.eqb ps (spec_positions xs lo hi step)
  | Err _ => false
  end.

(* the finite domain named by the property's quantifier, on the label grid 2,4,..,2n
   (odd numbers are the mid-points, 1 lies below, 2n+1 above) *)
Definition grid_axis (n : nat) (dec : bool) : list Q :=
  let l := map (fun i => inject_Z (Z.of_nat (2 * (i + 1)))) (seq 0 n) in if dec then rev l else l.
Definition grid_bounds (n : nat) : list (option Q) :=
  None :: map (fun i => Some (inject_Z (Z.of_nat (i + 1)))) (seq 0 (2 * n + 1)).
Definition steps : list (option Z) := [None; Some 1; Some 2; Some 3; Some (-1); Some (-2)]%Z.
Definition sweep_n (k : kind) (n : nat) (dec : bool) : list (option Q * option Q * option Z) :=
  let xs := grid_axis n dec in
  flat_map (fun lo => flat_map (fun hi => map (fun st => (lo, hi, st)) steps) (grid_bounds n)) (grid_bounds n).
Definition sweep_fail (k : kind) (n : nat) (dec : bool) : list (option Q * option Q * option Z) :=
  filter (fun c => let '(lo, hi, st) := c in negb (slice_case_ok k (grid_axis n dec) lo hi st)) (sweep_n k n dec).
Definition sweep_all_ok : bool :=
  forallb (fun k => forallb (fun n => forallb (fun dec =>
    forallb (fun c => let '(lo, hi, st) := c in slice_case_ok k (grid_axis n dec) lo hi st) (sweep_n k n dec))
    [false; true]) (seq 0 6)) [KI; KF].

(* ---------------------------------------------------------------- strict rule (non-numeric or non-monotonic axes) *)
Fixpoint first_pos (xs : list pv) (v : pv) (i : nat) : option nat :=
  match xs with
  | [] => None
  | x :: t => match cmp_scalar CEq x v with Ok true => Some i | _ => first_pos t v (S i) end
  end.
(* both bounds must be existing labels; from the first to the second, inclusive, in the direction
   of the step; empty when the second lies behind the first *)
Definition spec_strict (xs : list pv) (lo hi : pv) (step : option Z) : res (list nat) :=
  let n := List.length xs in
  let neg := match step with Some s => (s <? 0)%Z | None => false end in
  let k := match step with Some s => Z.to_nat (Z.abs s) | None => 1%nat end in
  let! p1 := match lo with PNone => Ok (if neg then n - 1 else 0)%nat
                         | _ => match first_pos xs lo 0 with Some p => Ok p | None => Err IndexError end end in
  let! p2 := match hi with PNone => Ok (if neg then 0 else n - 1)%nat
                         | _ => match first_pos xs hi 0 with Some p => Ok p | None => Err IndexError end end in
  if (n =? 0)%nat then Ok [] else
  if neg then Ok (every k 0 (rev (seq p2 (S p1 - p2))))
  else Ok (every k 0 (seq p1 (S p2 - p1))).
Definition res_eqb (a b : res (list nat)) : bool :=
  match a, b with
  | Ok x, Ok y => list_eqb Nat.eqb x y
  | Err e, Err f => exn_eqb e f
  | _, _ => false
  end.
Definition strict_case_ok (k : kind) (xs : list pv) (lo hi : pv) (step : option Z) : bool :=
  res_eqb (run_slice (PArr k xs) lo hi step (List.length xs)) (spec_strict xs lo hi step).

Fixpoint inserts {A} (x : A) (l : list A) : list (list A) :=
  match l with
  | [] => [[x]]
  | y :: t => (x :: l) :: map (cons y) (inserts x t)
  end.
Fixpoint perms {A} (l : list A) : list (list A) :=
  match l with
  | [] => [[]]
  | x :: t => flat_map (inserts x) (perms t)
  end.
Definition qs_monotonic (l : list pv) : bool :=
  match mapM (fun v => match py_num v with Some q => Ok q | None => Err TypeError end) l with
  | Ok qs => monotonicb qs
  | Err _ => false
  end.
Definition str_labels : list pv := [PStr "a"; PStr "b"; PStr "c"; PStr "d"].
Definition num_labels : list pv := [PNum 2; PNum 4; PNum 6; PNum 8].
Definition strict_axes : list (kind * list pv) :=
  flat_map (fun n => map (fun p => (KO, p)) (perms (firstn n str_labels))) (seq 0 5)
  ++ flat_map (fun n => map (fun p => (KF, p)) (filter (fun p => negb (qs_monotonic p)) (perms (firstn n num_labels)))) (seq 0 5).
Definition strict_sweep_ok : bool :=
  forallb (fun kx => let '(k, xs) := kx in
    let bs := PNone :: xs ++ [match k with KO => PStr "zz" | _ => PNum 5 end] in
    forallb (fun lo => forallb (fun hi => forallb (fun st => strict_case_ok k xs lo hi st) steps) bs) bs)
  strict_axes.

(* ---------------------------------------------------------------- correspondence cases (function level) *)
Definition pv_opt_eqb (a b : option Z) : bool :=
  match a, b with None, None => true | Some x, Some y => (x =? y)%Z | _, _ => false end.
Definition ls_case := (pv * pv * pv * option Z * res (option Z * option Z))%type.
Definition ls_case_ok (c : ls_case) : bool :=
  let '(ls, lo, hi, st, e) := c in
  match slice_bounds ls lo hi st, e with
  | Ok (a, b), Ok (a', b') => pv_opt_eqb a a' && pv_opt_eqb b b'
  | Err x, Err y => exn_eqb x y
  | _, _ => false
  end.
Definition ls_show (c : ls_case) := let '(ls, lo, hi, st, e) := c in slice_bounds ls lo hi st.
