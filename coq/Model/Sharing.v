(* Which objects a result shares with its operand (C15): a heap of value buffers and Axis objects;
   arrays are views (offset lists) onto a buffer plus references to Axis objects.  Non-in-place
   operations only allocate; in-place writes go through a view / a reference. *)
From Coq Require Import Qround Qabs.
From DA Require Import Prelude NDArray Array PyRT.
From DA.Model Require Import Value Reshape SliceSpec Indexing Align Transform.
Open Scope string_scope.
Open Scope nat_scope.
Open Scope list_scope.

Record aobj := { o_name : string; o_lab : list label; o_attrs : meta }.
Record hp := { bufs : list (list cell); aobjs : list aobj }.
(* an array object: its own attrs dict, a view onto a buffer, references to axis objects *)
Record arr := { a_buf : nat; a_off : list nat; a_shape : list nat; a_axes : list nat; a_attrs : meta }.

Definition dobj : aobj := {| o_name := ""; o_lab := []; o_attrs := [] |}.
Definition hbuf (h : hp) (b : nat) : list cell := nth b (bufs h) [].
Definition hax (h : hp) (i : nat) : aobj := nth i (aobjs h) dobj.
Definition obs_vals (h : hp) (x : arr) : list cell := map (fun o => nth o (hbuf h (a_buf x)) CNaN) (a_off x).
Definition observation := (list nat * list cell * list aobj * meta)%type.
Definition obs (h : hp) (x : arr) : observation :=
  (a_shape x, obs_vals h x, map (hax h) (a_axes x), a_attrs x).

Definition alloc_buf (h : hp) (l : list cell) : hp * nat :=
  ({| bufs := bufs h ++ [l]; aobjs := aobjs h |}, List.length (bufs h)).
Definition alloc_axes (h : hp) (l : list aobj) : hp * list nat :=
  ({| bufs := bufs h; aobjs := aobjs h ++ l |}, seq (List.length (aobjs h)) (List.length l)).

Definition as_nd (h : hp) (x : arr) : nd := {| sh := a_shape x; dat := obs_vals h x; kd := KF |}.
(* a fresh buffer holding v, viewed contiguously *)
Definition fresh_vals (h : hp) (v : nd) : hp * nat * list nat :=
  let '(h', b) := alloc_buf h (dat v) in (h', b, seq 0 (List.length (dat v))).

Inductive sop :=
| SCopy                          (* a.copy() *)
| STranspose (p : list nat)      (* a.transpose(...) : a view, the same Axis objects *)
| SFull                          (* a[:] *)
| SScalarMul (q : Q)             (* a * q : new values, the same Axis objects, no metadata *)
| SSlice0 (lo hi : nat)          (* a.ix[lo:hi] *)
| STake0 (idx : list nat)        (* a.ix[[...]] *)
| SIndex0 (i : nat)              (* a.ix[i] : a view *)
| SCumsum0                       (* a.cumsum(axis=0) : everything new *)
| SNewaxis0 (name : string)      (* a.newaxis(name, pos=0) : a view, copied axes *)
| SSum0.                         (* a.sum(axis=0) *)

Definition sub_labels (l : list label) (idx : list nat) : list label := map (nth_lab l) idx.

(* positional take along the first dimension: new values, a new Axis object for that dimension, the others shared *)
Definition take0 (idx : list nat) (h : hp) (x : arr) : res (hp * arr) :=
  match a_axes x with
  | [] => Err IndexError
  | i0 :: rest =>
      let v := np_take idx 0 (as_nd h x) in
      let '(h1, b, off) := fresh_vals h v in
      let ax := hax h i0 in
      let '(h2, ids) := alloc_axes h1 [{| o_name := o_name ax; o_lab := sub_labels (o_lab ax) idx; o_attrs := o_attrs ax |}] in
      Ok (h2, {| a_buf := b; a_off := off; a_shape := sh v; a_axes := ids ++ rest; a_attrs := a_attrs x |})
  end.

Definition sop_apply (o : sop) (h : hp) (x : arr) : res (hp * arr) :=
  let v := as_nd h x in
  match o with
  | SCopy =>
      let '(h1, b, off) := fresh_vals h v in
      let '(h2, ids) := alloc_axes h1 (map (hax h) (a_axes x)) in
      Ok (h2, {| a_buf := b; a_off := off; a_shape := a_shape x; a_axes := ids; a_attrs := a_attrs x |})
  | STranspose p =>
      if negb (List.length p =? List.length (a_shape x)) || negb (is_perm p) then Err ValueError else
      let s' := map (fun j => nth j (a_shape x) 0) p in
      let off' := tab s' (fun c' => getl 0 (a_shape x) (a_off x) (map (fun j => nth (pos_in p j) c' 0) (seq 0 (List.length p)))) in
      Ok (h, {| a_buf := a_buf x; a_off := off'; a_shape := s'; a_axes := map (fun j => nth j (a_axes x) 0) p; a_attrs := a_attrs x |})
  | SFull => Ok (h, x)
  | SScalarMul q =>
      let w := np_map KF (fun c => match c with CNum a => CNum (a * q) | c => c end) v in
      let '(h1, b, off) := fresh_vals h w in
      Ok (h1, {| a_buf := b; a_off := off; a_shape := a_shape x; a_axes := a_axes x; a_attrs := [] |})
  | SSlice0 lo hi => take0 (seq lo (hi - lo)) h x
  | STake0 idx => take0 idx h x
  | SIndex0 i =>
      match a_shape x, a_axes x with
      | n0 :: s', _ :: rest =>
          if negb (i <? n0) then Err IndexError else
          let m := prod s' in
          Ok (h, {| a_buf := a_buf x; a_off := firstn m (skipn (i * m) (a_off x)); a_shape := s'; a_axes := rest; a_attrs := a_attrs x |})
      | _, _ => Err IndexError
      end
  | SCumsum0 =>
      let w := np_along KF (nth 0 (a_shape x) 0) (cum_fibre false false) 0 v in
      let '(h1, b, off) := fresh_vals h w in
      let '(h2, ids) := alloc_axes h1 (map (hax h) (a_axes x)) in
      Ok (h2, {| a_buf := b; a_off := off; a_shape := a_shape x; a_axes := ids; a_attrs := a_attrs x |})
  | SNewaxis0 name =>
      let '(h2, ids) := alloc_axes h ({| o_name := name; o_lab := [LNone]; o_attrs := [] |} :: map (hax h) (a_axes x)) in
      Ok (h2, {| a_buf := a_buf x; a_off := a_off x; a_shape := 1 :: a_shape x; a_axes := ids; a_attrs := a_attrs x |})
  | SSum0 =>
      match a_axes x with
      | _ :: rest =>
          let w := np_reduce KF (red_cell RSum false) 0 v in
          let '(h1, b, off) := fresh_vals h w in
          Ok (h1, {| a_buf := b; a_off := off; a_shape := sh w; a_axes := rest; a_attrs := a_attrs x |})
      | [] => Err IndexError
      end
  end.

(* ------------------------------------------------------------------ in-place writes *)
Inductive wop :=
| WVal (pos : nat) (c : cell)                    (* t.values.flat[pos] = c  (row-major position in t) *)
| WLab (i p : nat) (l : label)                   (* t.axes[i][p] = l *)
| WName (i : nat) (n : string)                   (* t.axes[i].name = n *)
| WAxAttr (i : nat) (k : string) (v : mval)      (* t.axes[i].attrs[k] = v *)
| WAttr (k : string) (v : mval).                 (* t.attrs[k] = v *)

Fixpoint meta_set (m : meta) (k : string) (v : mval) : meta :=
  match m with
  | [] => [(k, v)]
  | (k', v') :: t => if String.eqb k k' then (k, v) :: t else (k', v') :: meta_set t k v
  end.

Definition upd_ax (h : hp) (id : nat) (f : aobj -> aobj) : hp :=
  {| bufs := bufs h; aobjs := set_nth id (f (hax h id)) (aobjs h) |}.
Definition write_raw (h : hp) (x : arr) (w : wop) : hp * arr :=
  match w with
  | WVal pos c =>
      let o := nth pos (a_off x) 0 in
      ({| bufs := set_nth (a_buf x) (set_nth o c (hbuf h (a_buf x))) (bufs h); aobjs := aobjs h |}, x)
  | WLab i p l => (upd_ax h (nth i (a_axes x) 0) (fun a => {| o_name := o_name a; o_lab := set_nth p l (o_lab a); o_attrs := o_attrs a |}), x)
  | WName i n => (upd_ax h (nth i (a_axes x) 0) (fun a => {| o_name := n; o_lab := o_lab a; o_attrs := o_attrs a |}), x)
  | WAxAttr i k v => (upd_ax h (nth i (a_axes x) 0) (fun a => {| o_name := o_name a; o_lab := o_lab a; o_attrs := meta_set (o_attrs a) k v |}), x)
  | WAttr k v => (h, {| a_buf := a_buf x; a_off := a_off x; a_shape := a_shape x; a_axes := a_axes x; a_attrs := meta_set (a_attrs x) k v |})
  end.
(* a write is valid when it addresses an existing cell / axis / label *)
Definition write_ok (h : hp) (x : arr) (w : wop) : bool :=
  match w with
  | WVal pos _ => pos <? List.length (a_off x)
  | WLab i p _ => (i <? List.length (a_axes x)) && (p <? List.length (o_lab (hax h (nth i (a_axes x) 0))))
  | WName i _ | WAxAttr i _ _ => i <? List.length (a_axes x)
  | WAttr _ _ => true
  end.

(* an invalid write raises in the implementation and changes nothing *)
Definition write (h : hp) (x : arr) (w : wop) : hp * arr :=
  if write_ok h x w then write_raw h x w else (h, x).

(* two live objects: the operand A and the result R of one operation; writes through either *)
Record st := { s_h : hp; s_a : arr; s_r : arr }.
Definition wstep (s : st) (tw : bool * wop) : st :=   (* true: through the result *)
  if fst tw then let '(h, r) := write (s_h s) (s_r s) (snd tw) in {| s_h := h; s_a := s_a s; s_r := r |}
  else let '(h, a) := write (s_h s) (s_a s) (snd tw) in {| s_h := h; s_a := a; s_r := s_r s |}.
Definition wrun (ws : list (bool * wop)) (s : st) : st := fold_left wstep ws s.

(* loading an input array into an empty heap *)
Definition load (a : darr) : hp * arr :=
  let axs := map (fun ax => {| o_name := aname ax; o_lab := alab ax; o_attrs := aattrs ax |}) (axes a) in
  ({| bufs := [dat (vals a)]; aobjs := axs |},
   {| a_buf := 0; a_off := seq 0 (List.length (dat (vals a))); a_shape := sh (vals a); a_axes := seq 0 (List.length axs); a_attrs := attrs a |}).

(* ------------------------------------------------------------------ correspondence cases *)
(* input array, operation, writes; expected observation of the operand and of the result after the
   operation and after every write *)
Definition obs_eqb (x y : observation) : bool :=
  let '(s1, v1, a1, m1) := x in let '(s2, v2, a2, m2) := y in
  list_eqb Nat.eqb s1 s2 && list_eqb cell_eqb v1 v2 &&
  list_eqb (fun p q => String.eqb (o_name p) (o_name q) && labels_eqb (o_lab p) (o_lab q) && meta_eqb (o_attrs p) (o_attrs q)) a1 a2 &&
  meta_eqb m1 m2.
Definition scase := (darr * sop * list (bool * wop * observation * observation) * observation * observation)%type.
Fixpoint scheck (s : st) (steps : list (bool * wop * observation * observation)) : bool :=
  match steps with
  | [] => true
  | (t, w, ea, er) :: rest =>
      let s' := wstep s (t, w) in
      obs_eqb (obs (s_h s') (s_a s')) ea && obs_eqb (obs (s_h s') (s_r s')) er && scheck s' rest
  end.
Definition scase_run (c : scase) : bool :=
  let '(a, o, steps, ea0, er0) := c in
  let '(h, x) := load a in
  match sop_apply o h x with
  | Ok (h', r) => obs_eqb (obs h' x) ea0 && obs_eqb (obs h' r) er0 && scheck {| s_h := h'; s_a := x; s_r := r |} steps
  | Err _ => false
  end.
Definition scase_show (c : scase) : res (list (observation * observation)) :=
  let '(a, o, steps, ea0, er0) := c in
  let '(h, x) := load a in
  let! hr := sop_apply o h x in
  let s0 := {| s_h := fst hr; s_a := x; s_r := snd hr |} in
  Ok (snd (fold_left (fun acc p => let s' := wstep (fst acc) (fst (fst (fst p)), snd (fst (fst p))) in
                                  (s', snd acc ++ [(obs (s_h s') (s_a s'), obs (s_h s') (s_r s'))]))
                     steps (s0, [(obs (s_h s0) (s_a s0), obs (s_h s0) (s_r s0))]))).
