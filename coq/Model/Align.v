(* core/align.py, core/axes.py (union / intersection), core/operation.py:
   take_axis, reindex_axis, reindex_like, align, align_dims, broadcast_arrays, operation,
   stack, concatenate, sort_axis. *)
From Coq Require Import Qround Qpower.
From DA Require Import Prelude NDArray Array PyRT.
From DA.Gen Require Import cast cast_kind.
From DA.Model Require Import Value Reshape SliceSpec Indexing.
Open Scope string_scope.
Open Scope nat_scope.
Open Scope list_scope.

Definition nth_lab (ls : list label) (j : nat) : label := nth j ls LNone.

(* ------------------------------------------------------------------ Axis.union / intersection *)
Definition str_kind (k : kind) : pv := PStr (kind_str k).
(* GENERATED _get_cast_kind: (kind, consistent_kinds) *)
Definition merge_kind (k0 k1 : kind) : kind * bool :=
  match g__get_cast_kind (str_kind k0) (str_kind k1) with
  | Ok (PTuple [PStr s; PBool b]) => (kind_of_str s, b)
  | _ => (KO, false)
  end.
Definition labels_eqb (x y : list label) : bool := list_eqb label_eqb x y.
Definition mem_label (l : label) (ls : list label) : bool := existsb (label_eqb l) ls.

Fixpoint strictly (lt : label -> label -> bool) (l : list label) : bool :=
  match l with
  | x :: ((y :: _) as t) => lt x y && strictly lt t
  | _ => true
  end.
(* indexing.is_monotonic: strictly increasing or strictly decreasing (size < 2: True) *)
Definition is_monotonic_labels (l : list label) : bool :=
  strictly label_ltb l || strictly (fun a b => label_ltb b a) l.
Definition slope_up (l : list label) : bool :=      (* a[-1] >= a[0] *)
  match l with [] => true | x :: _ => label_le x (last l x) end.
(* the direction of a monotonic axis; a single label has none *)
Definition slope (l : list label) : option bool :=
  match l with [] | [_] => None | _ => Some (slope_up l) end.
Definition same_slope (a b : list label) : bool :=
  match slope a, slope b with Some x, Some y => Bool.eqb x y | _, _ => true end.
Definition slopes_down (a b : list label) : bool :=
  match slope a, slope b with Some u, _ => negb u | None, Some u => negb u | None, None => false end.

(* sorted union without duplicates: np.union1d *)
Fixpoint insert_uniq (x : label) (l : list label) : list label :=
  match l with
  | [] => [x]
  | y :: t => if label_eqb x y then l else if label_ltb x y then x :: l else y :: insert_uniq x t
  end.
Definition union1d (a b : list label) : list label := fold_right insert_uniq [] (a ++ b).

(* Axis(values, name) + attrs *)
Definition ax_new (name : string) (k : kind) (ls : list label) (m : meta) : axis :=
  {| aname := name; akind := k; alab := ls; aattrs := m; amem := [] |}.
(* Axis.cast: values of the new kind (object axes are never narrowed), members dropped *)
Definition ax_cast (ax : axis) (k : kind) : axis :=
  if kind_eqb (akind ax) k then ax else ax_new (aname ax) k (alab ax) (aattrs ax).

Definition axis_union (a b : axis) : axis :=
  let '(k, consistent) := merge_kind (akind a) (akind b) in
  let a := ax_cast a k in let b := ax_cast b k in
  if labels_eqb (alab a) (alab b) then a
  else if alen a =? 0 then b
  else if alen b =? 0 then a
  else
    let joined :=
      if consistent && is_monotonic_labels (alab a) && is_monotonic_labels (alab b)
         && same_slope (alab a) (alab b)
      then let u := union1d (alab a) (alab b) in
           if slopes_down (alab a) (alab b) then rev u else u
      else alab a ++ filter (fun l => negb (mem_label l (alab a))) (alab b) in
    ax_new (aname a) k joined (aattrs a).

Definition axis_intersection (a b : axis) : axis :=
  let '(k, consistent) := merge_kind (akind a) (akind b) in
  let a := ax_cast a k in let b := ax_cast b k in
  if labels_eqb (alab a) (alab b) then a
  else if (alen a =? 0) || (alen b =? 0) then ax_new (aname a) KF [] []
  else
    let oth := filter (fun l => mem_label l (alab a)) (alab b) in
    ax_new (aname a) k (filter (fun l => mem_label l oth) (alab a)) (aattrs a).

Inductive join := Outer | Inner.
Definition is_none_axis (a : axis) : bool :=
  match alab a with LAt ANone :: _ => true | _ => false end.

(* _common_axis: right fold; newaxis placeholders ([None]) give way *)
Fixpoint common_axis (axs : list axis) (j : join) : res axis :=
  match axs with
  | [] => Err AssertionError
  | [a] => Ok a
  | a0 :: t =>
      let! a1 := common_axis t j in
      if is_none_axis a0 then Ok a1
      else if (alen a1 =? 1) && is_none_axis a1 then Ok a0
      else Ok (match j with Outer => axis_union a0 a1 | Inner => axis_intersection a0 a1 end)
  end.

(* np.sort of labels: via the argsort of Indexing *)
Definition sort_labels (l : list label) : list label := map (nth_lab l) (argsort l).

(* _keep_direction: the n-ary union is a succession of pairwise unions in which one-label axes (no direction of their
   own) may meet first; when all the axes (empty ones and placeholders aside) are sorted the same way, numeric or all
   str, the result is put in that order *)
Definition all_str (l : list label) : bool := forallb (fun x => match x with LAt (AStr _) => true | _ => false end) l.
Definition keep_direction (axs : list axis) (com : axis) : axis :=
  let ins := filter (fun ax => negb (alen ax =? 0) && negb (is_none_axis ax)) axs in
  if negb (forallb (fun ax => is_monotonic_labels (alab ax)) ins) then com else
  match flat_map (fun ax => match slope (alab ax) with Some u => [u] | None => [] end) ins with
  | [] => com
  | u :: t =>
      if negb (forallb (Bool.eqb u) t) then com
      else if negb (forallb (fun ax => numeric_kind (akind ax)) ins || forallb (fun ax => all_str (alab ax)) ins) then com
      else let want := if u then sort_labels (alab com) else rev (sort_labels (alab com)) in
           if labels_eqb (alab com) want then com else ax_new (aname com) (akind com) want (aattrs com)
  end.
Definition common_axis_top (axs : list axis) (j : join) : res axis :=
  let! ax := common_axis axs j in
  match j, axs with
  | Outer, _ :: _ :: _ :: _ =>
      (* (the placeholder shortcuts of the last step return before the direction is looked at) *)
      match axs with
      | a0 :: _ => if is_none_axis a0 then Ok ax
                   else match common_axis (tl axs) j with
                        | Ok a1 => if (alen a1 =? 1) && is_none_axis a1 then Ok ax else Ok (keep_direction axs ax)
                        | Err e => Err e end
      | [] => Ok ax
      end
  | _, _ => Ok ax
  end.
Definition axis_sorted (a : axis) : axis :=
  {| aname := aname a; akind := akind a; alab := sort_labels (alab a); aattrs := aattrs a; amem := amem a |}.

Fixpoint get_dims (arrays : list darr) (acc : list string) : list string :=
  match arrays with
  | [] => acc
  | a :: t => get_dims t (fold_left (fun acc d => if mem_str d acc then acc else acc ++ [d]) (dims a) acc)
  end.
Definition axis_of (a : darr) (d : string) : option axis :=
  match find_dim (dims a) d with Some i => nth_error (axes a) i | None => None end.

Definition aligned_axes (arrays : list darr) (j : join) (ax_opt : option string) (sort strict : bool)
  : res (list axis) :=
  let ds := match ax_opt with None => get_dims arrays [] | Some d => [d] end in
  mapM (fun d =>
          let having := flat_map (fun a => match axis_of a d with Some x => [x] | None => [] end) arrays in
          if strict && negb (List.length having =? List.length arrays) then Err ValueError
          else let! ax := common_axis_top having j in
               Ok (if sort then axis_sorted ax else ax)) ds.

(* ------------------------------------------------------------------ take_axis / reindex_axis *)
Definition dax0 : axis := mkaxis "" KO [].
(* take_axis(indices, axis, indexing='position') *)
Definition take_axis_pos (idxs : list nat) (i : nat) (a : darr) : darr :=
  let ax := nth i (axes a) dax0 in
  mkarr (set_nth i (with_labels ax (akind ax) (map (nth_lab (alab ax)) idxs)) (axes a))
        (np_take idxs i (vals a)) (attrs a).

(* kind of np.asarray(list of labels) *)
Definition label_cell (l : label) : cell :=
  match l with LAt (ANum q) => CNum q | LAt (AStr s) => CStr s | _ => CNone end.

(* Axis.__setitem__(mask, values): _maybe_cast_type on the label array, then assignment *)
Definition relabel (ax : axis) (vk : kind) (news : list (option label)) : axis :=
  let k := if existsb (fun o => match o with Some _ => true | None => false end) news
           then cast_kind (akind ax) vk else akind ax in
  {| aname := aname ax; akind := k;
     alab := map (fun p => match snd p with Some l => l | None => fst p end) (combine (alab ax) news);
     aattrs := aattrs ax; amem := amem ax |}.

Inductive rmethod := MNone | MLeft | MRight.

(* fill the masked positions along axis i with a scalar (put(mask, fill, axis, cast=True)) *)
Definition fill_axis (i : nat) (mask : list bool) (fill : cell) (fk : kind) (a : darr) : res darr :=
  let v := vals a in
  let k := cast_kind (kd v) fk in
  let! nd := mapM (fun c => if nth (nth i c 0) mask false then cell_to_kind k fill else cell_to_kind k (get v c))
                  (coords (sh v)) in
  Ok (mkarr (axes a) {| sh := sh v; dat := nd; kd := k |} (attrs a)).

Definition norm_axis_kind (k : kind) : kind := match k with KU | KS => KO | _ => k end.

(* the lookup / take / fill / relabel pipeline *)
Definition reindex_main (newk : kind) (news : list label) (i : nat) (fill : cell) (fk : kind)
           (raise_error : bool) (m : rmethod) (a : darr) : res darr :=
  let ax := nth i (axes a) dax0 in
  let! idxs := locate_many_raw (match m with MRight => true | _ => false end) (alab ax) news in
  let o := take_axis_pos idxs i a in
  let mask := map (fun p => negb (label_eqb (nth_lab (alab ax) (fst p)) (snd p))) (combine idxs news) in
  if existsb (fun b => b) mask then
    if raise_error then Err IndexError
    else
      let! o := match m with MNone => fill_axis i mask fill fk o | _ => Ok o end in
      let ax' := nth i (axes o) dax0 in
      Ok (mkarr (set_nth i (relabel ax' newk (map (fun p : bool * label => if fst p then Some (snd p) else None) (combine mask news))) (axes o))
                (vals o) (attrs o))
  else Ok o.

(* empty source axis: every new label is missing, the result is built from the fill value *)
Definition reindex_empty (newk : kind) (news : list label) (i : nat) (fill : cell) (fk : kind)
           (raise_error : bool) (a : darr) : res darr :=
  let ax := nth i (axes a) dax0 in
  if raise_error then Err IndexError else
  let k := cast_kind (kd (vals a)) fk in
  let! c := cell_to_kind k fill in
  Ok (mkarr (set_nth i (ax_new (aname ax) (norm_axis_kind newk) news (aattrs ax)) (axes a))
            (mk (set_nth i (List.length news) (sh (vals a))) k (fun _ => c)) (attrs a)).

Definition reindex_axis (newk : kind) (news : list label) (r : axref) (fill : cell) (fk : kind)
           (raise_error : bool) (m : rmethod) (a : darr) : res darr :=
  let! i := match r with
            | ByName s => match find_dim (dims a) s with Some i => Ok i | None => Err ValueError end
            | ByPos z => py_index (List.length (axes a)) z
            end in
  if (alen (nth i (axes a) dax0) =? 0) && negb (List.length news =? 0)
  then reindex_empty newk news i fill fk raise_error a
  else reindex_main newk news i fill fk raise_error m a.

(* reindex onto an Axis object: name and labels from the axis *)
Definition reindex_to_axis (nx : axis) (a : darr) : res darr :=
  reindex_axis (akind nx) (alab nx) (ByName (aname nx)) CNaN KF false MNone a.

Fixpoint reindex_like_go (own : list axis) (tmpl : list axis) (a : darr) : res darr :=
  match own with
  | [] => Ok a
  | ax :: t =>
      match find (fun x => String.eqb (aname x) (aname ax)) tmpl with
      | Some nx => let! a' := reindex_axis (akind nx) (alab nx) (ByName (aname ax)) CNaN KF false MNone a in
                   reindex_like_go t tmpl a'
      | None => reindex_like_go t tmpl a
      end
  end.
Definition reindex_like (tmpl : list axis) (a : darr) : res darr := reindex_like_go (axes a) tmpl a.

(* Axis.__eq__ *)
Definition axis_same (x y : axis) : bool :=
  String.eqb (aname x) (aname y) && labels_eqb (alab x) (alab y).

(* align *)
Fixpoint align_one (axs : list axis) (a : darr) : res darr :=
  match axs with
  | [] => Ok a
  | ax :: t =>
      match axis_of a (aname ax) with
      | None => align_one t a
      | Some own => if axis_same own ax then align_one t a
                    else let! a' := reindex_to_axis ax a in align_one t a'
      end
  end.
Definition align (arrays : list darr) (j : join) (ax_opt : option string) (sort strict : bool)
  : res (list darr) :=
  let! axs := aligned_axes arrays j ax_opt sort strict in
  mapM (align_one axs) arrays.

(* align_dims: same dims tuple everywhere -> unchanged, else reshape to the union of dims *)
Definition align_dims (arrays : list darr) : res (list darr) :=
  match arrays with
  | [] => Ok []
  | a0 :: t =>
      if forallb (fun a => list_eqb String.eqb (dims a) (dims a0)) t then Ok arrays
      else let nd := get_dims arrays [] in mapM (reshape_plain nd) arrays
  end.

(* _get_axes: common axes of aligned arrays (singletons give way), ValueError otherwise *)
Definition pick_axis_step (d : string) (acc : res (option axis)) (a : darr) : res (option axis) :=
  let! c := acc in
  match axis_of a d with
  | None => Ok c
  | Some ax =>
      let c' := match c with
                | None => ax
                | Some cx => if (alen cx =? 1) && (1 <? alen ax) then ax else cx
                end in
      if (alen ax =? 1) || labels_eqb (alab ax) (alab c') then Ok (Some c') else Err ValueError
  end.
Definition pick_axes (arrays : list darr) : res (list axis) :=
  mapM (fun d => let! o := fold_left (pick_axis_step d) arrays (Ok None) in
                 match o with Some ax => Ok ax | None => Err ValueError end)
       (get_dims arrays []).

(* broadcast_arrays *)
Definition broadcast_arrays (arrays : list darr) : res (list darr) :=
  let! arrs := align_dims arrays in
  let! axs := pick_axes arrs in
  mapM (broadcast axs) arrs.

(* ------------------------------------------------------------------ operation() *)
Inductive binop := BAdd | BSub | BMul | BDiv | BFloorDiv | BPow.

Definition q_pow (b : Q) (e : Q) : option Q :=
  (* integer exponents only (the generators produce 0..3) *)
  if Qeq_bool e (inject_Z (Qfloor e)) then
    let n := Qfloor e in
    if (0 <=? n)%Z then Some (Qpower b n) else
    if Qeq_bool b 0 then None else Some (Qpower b n)
  else None.

(* numpy arithmetic on two cells; NaN propagates, except through ** (1**nan = 1, nan**0 = 1) *)
Definition cell_binop (o : binop) (k : kind) (x y : cell) : cell :=
  match o, x, y with
  | BPow, CNum b, CNaN => if Qeq_bool b 1 then CNum 1 else CNaN
  | BPow, CNaN, CNum e => if Qeq_bool e 0 then CNum 1 else CNaN
  | _, CNum a, CNum b =>
      match o with
      | BAdd => CNum (a + b) | BSub => CNum (a - b) | BMul => CNum (a * b)
      | BDiv => if Qeq_bool b 0 then CNaN else CNum (a / b)
      | BFloorDiv => if Qeq_bool b 0 then CNaN else CNum (inject_Z (Qfloor (a / b)))
      | BPow => match q_pow a b with Some r => CNum r | None => CNaN end
      end%Q
  | _, _, _ => CNaN
  end.
Definition binop_kind (o : binop) (k1 k2 : kind) : kind :=
  match o, k1, k2 with
  | BDiv, _, _ => KF
  | _, KI, KI => KI
  | _, _, _ => KF
  end.

(* numpy broadcasting of two arrays of the same number of dimensions *)
Definition bshape (s1 s2 : list nat) : list nat := map (fun p => if fst p =? 1 then snd p else fst p) (combine s1 s2).
Definition bcoord (s : list nat) (c : list nat) : list nat := map (fun p => if fst p =? 1 then 0 else snd p) (combine s c).
Definition np_binop (o : binop) (a b : nd) : res nd :=
  if forallb (fun p => (fst p =? snd p) || (fst p =? 1) || (snd p =? 1)) (combine (sh a) (sh b))
     && (List.length (sh a) =? List.length (sh b))
  then let k := binop_kind o (kd a) (kd b) in
       Ok (mk (bshape (sh a) (sh b)) k (fun c => cell_binop o k (get a (bcoord (sh a) c)) (get b (bcoord (sh b) c))))
  else Err ValueError.

Definition strip_axis (ax : axis) : axis := ax.   (* ax.copy(): a deep copy, same value *)

Definition operation (o : binop) (a b : darr) : res darr :=
  let! al := align [a; b] Outer None false false in
  let! al := align_dims al in
  match al with
  | [a'; b'] =>
      let! newaxes := mapM (fun ax =>
                       if alen ax =? 0 then Err IndexError
                       else if is_none_axis ax then
                         match axis_of b' (aname ax) with Some bx => Ok bx | None => Err KeyError end
                       else Ok ax) (axes a') in
      let! v := np_binop o (vals a') (vals b') in
      construct newaxes v []
  | _ => Err OtherError
  end.

(* scalar operand: func(o1.values, np.array(o2)), constructor(res, o1.axes) - metadata dropped *)
Definition scalar_nd (c : cell) (k : kind) (n : nat) : nd := {| sh := List.repeat 1 n; dat := [c]; kd := k |}.
Definition op_scalar (o : binop) (c : cell) (k : kind) (reflected : bool) (a : darr) : res darr :=
  let s := scalar_nd c k (List.length (sh (vals a))) in
  let! v := if reflected then np_binop o s (vals a) else np_binop o (vals a) s in
  construct (axes a) v [].
(* plain ndarray right operand of the same shape *)
Definition op_ndarray (o : binop) (w : nd) (a : darr) : res darr :=
  if List.length (sh (vals a)) <? List.length (sh w) then Err ValueError else
  let w' := {| sh := List.repeat 1 (List.length (sh (vals a)) - List.length (sh w)) ++ sh w; dat := dat w; kd := kd w |} in
  let! v := np_binop o (vals a) w' in
  construct (axes a) v [].

(* ------------------------------------------------------------------ stack / concatenate / sort_axis *)
Definition join_kind (ks : list kind) : kind :=
  if forallb (kind_eqb KI) ks then KI else if forallb (kind_eqb KB) ks then KB
  else if forallb (fun k => kind_eqb k KI || kind_eqb k KF || kind_eqb k KB) ks then KF else KO.

(* inputs are matched by dimension name: transpose every array to the dimension order of the first *)
Definition same_dim_order (arrays : list darr) : res (list darr) :=
  match arrays with
  | [] => Ok []
  | a0 :: _ => mapM (fun a => if list_eqb String.eqb (dims a) (dims a0) then Ok a
                              else transpose (map ByName (dims a0)) a) arrays
  end.

Definition stack (arrays : list darr) (axis_name : option string) (keyk : kind) (keys : list label)
           (do_align : bool) (sort : bool) : res darr :=
  let ds := get_dims arrays [] in
  let name := match axis_name with
              | Some n => n
              | None => if mem_str "unnamed" ds then "unnamed_1" else "unnamed"
              end in
  if mem_str name ds then Err ValueError else
  let! arrs := if do_align then align arrays Outer None sort true else Ok arrays in
  let! arrs := same_dim_order arrs in
  match arrs with
  | [] => Err OtherError
  | a0 :: _ =>
      (* secondary axes must carry the same labels in the same order *)
      if negb (forallb (fun a => forallb (fun ax => match axis_of a0 (aname ax) with
                                                     | Some ax0 => labels_eqb (alab ax) (alab ax0)
                                                     | None => false end) (axes a)) arrs) then Err ValueError else
      (* np.array([a.values ...]) needs identical shapes *)
      if negb (forallb (fun a => list_eqb Nat.eqb (sh (vals a)) (sh (vals a0))) arrs) then Err ValueError else
      let! axs := pick_axes arrs in
      let v := np_stack (join_kind (map (fun a => kd (vals a)) arrs)) (sh (vals a0)) (map vals arrs) in
      construct (ax_new name keyk keys [] :: axs) v []
  end.

Definition concatenate (arrays : list darr) (r : axref) (do_align sort : bool) : res darr :=
  match arrays with
  | [] => Err ValueError
  | a0 :: _ =>
      let! i := match r with
                | ByPos z => if (0 <=? z)%Z then Ok (Z.to_nat z)              (* negative positions count from the end *)
                             else if (0 <=? z + Z.of_nat (List.length (axes a0)))%Z then Ok (Z.to_nat (z + Z.of_nat (List.length (axes a0))))
                             else Err IndexError
                | ByName s => match find_dim (dims a0) s with Some i => Ok i | None => Err ValueError end
                end in
      if List.length (axes a0) <=? i then Err IndexError else
      let d := aname (nth i (axes a0) dax0) in
      let! arrs :=
        if do_align then
          fold_left (fun (acc : res (list darr)) ax =>
                       let! l := acc in
                       if String.eqb (aname ax) d then Ok l else align l Outer (Some (aname ax)) sort true)
                    (axes a0) (Ok arrays)
        else Ok arrays in
      let! arrs := same_dim_order arrs in
      match arrs with
      | [] => Err ValueError
      | b0 :: _ =>
          let nd0 := List.length (axes b0) in
          if negb (forallb (fun a => (List.length (axes a) =? nd0)
                                      && list_eqb Nat.eqb (remove_nth i (sh (vals a))) (remove_nth i (sh (vals b0)))) arrs)
          then Err ValueError else
          let subaxes := remove_nth i (axes b0) in
          (* _concatenate_axes: names must agree *)
          if negb (forallb (fun a => String.eqb (aname (nth i (axes a) dax0)) d) arrs) then Err ValueError else
          let newlabs := flat_map (fun a => alab (nth i (axes a) dax0)) arrs in
          let newk := fold_left (fun k a => fst (merge_kind k (akind (nth i (axes a) dax0)))) arrs (akind (nth i (axes b0) dax0)) in
          if negb do_align
             && negb (forallb (fun sx => forallb (fun a => match axis_of a (aname sx) with
                                                            | Some ax => labels_eqb (alab ax) (alab sx)
                                                            | None => false end) arrs) subaxes)
          then Err ValueError else
          let v := np_concat (join_kind (map (fun a => kd (vals a)) arrs)) i (map vals arrs) in
          construct (insert_nth i (ax_new d newk newlabs []) subaxes) v []
      end
  end.

(* sort_axis(axis): take_axis(argsort(labels)) *)
Definition sort_axis (r : axref) (a : darr) : res darr :=
  let! i := match r with
            | ByName s => match find_dim (dims a) s with Some i => Ok i | None => Err ValueError end
            | ByPos z => py_index (List.length (axes a)) z
            end in
  Ok (take_axis_pos (argsort (alab (nth i (axes a) dax0))) i a).
