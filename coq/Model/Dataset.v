(* dataset.py: a Dataset as a heap of shared Axis objects.  Variables and the dataset hold axis
   IDENTIFIERS; "the very same object" is identifier equality; a rename / relabel through any holder
   is an update of the heap cell and therefore visible to all holders. *)
From Coq Require Import Qround Qabs.
From DA Require Import Prelude NDArray Array PyRT.
From DA.Model Require Import Value Reshape SliceSpec Indexing Align Transform.
Open Scope string_scope.
Open Scope nat_scope.
Open Scope list_scope.

Record dvar := { vkey : string; vax : list nat; vvals : nd; vattrs : meta }.
Record dset := { heap : list (nat * axis); dsax : list nat; dvars : list dvar; dsattrs : meta; nextid : nat }.
Definition ds_empty : dset := {| heap := []; dsax := []; dvars := []; dsattrs := []; nextid := 0 |}.

Fixpoint hget (h : list (nat * axis)) (id : nat) : axis :=
  match h with [] => dax0 | (j, ax) :: t => if j =? id then ax else hget t id end.
Fixpoint hset (h : list (nat * axis)) (id : nat) (ax : axis) : list (nat * axis) :=
  match h with
  | [] => [(id, ax)]
  | (j, a) :: t => if j =? id then (j, ax) :: t else (j, a) :: hset t id ax
  end.
Definition ds_dims (s : dset) : list string := map (fun id => aname (hget (heap s) id)) (dsax s).
Definition var_dims (s : dset) (v : dvar) : list string := map (fun id => aname (hget (heap s) id)) (vax v).
Definition ds_keys (s : dset) : list string := map vkey (dvars s).
Definition find_var (s : dset) (k : string) : option dvar := find (fun v => String.eqb (vkey v) k) (dvars s).
Definition ds_axis_id (s : dset) (name : string) : option nat :=
  find (fun id => String.eqb (aname (hget (heap s) id)) name) (dsax s).
Definition var_as_darr (s : dset) (v : dvar) : darr :=
  mkarr (map (hget (heap s)) (vax v)) (vvals v) (vattrs v).

(* _maybe_delete_axes: an axis is removed when no variable uses its name any more *)
Definition name_used (s : dset) (vars : list dvar) (name : string) : bool :=
  existsb (fun v => mem_str name (map (fun id => aname (hget (heap s) id)) (vax v))) vars.
Definition delete_unused (s : dset) (ids : list nat) (vars : list dvar) : list nat :=
  filter (fun id => negb (existsb (Nat.eqb id) ids) || name_used s vars (aname (hget (heap s) id))) (dsax s).

(* ds[k] = array *)
Fixpoint register_axes (h : list (nat * axis)) (dsx : list nat) (nxt : nat) (axs : list axis)
  : list (nat * axis) * list nat * nat * list nat :=
  match axs with
  | [] => (h, dsx, nxt, [])
  | ax :: t =>
      match find (fun id => String.eqb (aname (hget h id)) (aname ax)) dsx with
      | Some id => let '(h', dsx', nxt', ids) := register_axes h dsx nxt t in (h', dsx', nxt', id :: ids)
      | None => let '(h', dsx', nxt', ids) := register_axes (hset h nxt ax) (dsx ++ [nxt]) (S nxt) t in (h', dsx', nxt', nxt :: ids)
      end
  end.
Fixpoint put_var (vars : list dvar) (v : dvar) : list dvar :=
  match vars with
  | [] => [v]
  | w :: t => if String.eqb (vkey w) (vkey v) then v :: t else w :: put_var t v
  end.
Definition ds_setitem (k : string) (a : darr) (s : dset) : dset * res unit :=
  let mismatch := existsb (fun ax => match ds_axis_id s (aname ax) with
                                     | Some id => negb (axis_same ax (hget (heap s) id))
                                     | None => false end) (axes a) in
  if mismatch then (s, Err ValueError) else
  if negb (nodupb String.eqb (dims a)) then (s, Err ValueError) else
  let obsolete := match find_var s k with
                  | Some old => filter (fun id => negb (mem_str (aname (hget (heap s) id)) (dims a))) (vax old)
                  | None => [] end in
  let '(h', dsx', nxt', ids) := register_axes (heap s) (dsax s) (nextid s) (axes a) in
  let v := {| vkey := k; vax := ids; vvals := vals a; vattrs := attrs a |} in
  let vars' := put_var (dvars s) v in
  let s1 := {| heap := h'; dsax := dsx'; dvars := vars'; dsattrs := dsattrs s; nextid := nxt' |} in
  ({| heap := h'; dsax := delete_unused s1 obsolete vars'; dvars := vars'; dsattrs := dsattrs s; nextid := nxt' |}, Ok tt).

Definition ds_delitem (k : string) (s : dset) : dset * res unit :=
  match find_var s k with
  | None => (s, Err KeyError)
  | Some old =>
      let vars' := filter (fun v => negb (String.eqb (vkey v) k)) (dvars s) in
      let s1 := {| heap := heap s; dsax := dsax s; dvars := vars'; dsattrs := dsattrs s; nextid := nextid s |} in
      ({| heap := heap s; dsax := delete_unused s1 (vax old) vars'; dvars := vars'; dsattrs := dsattrs s; nextid := nextid s |}, Ok tt)
  end.

(* resolving a dataset axis by name or position *)
Definition ds_axis_ref (s : dset) (r : axref) : res nat :=
  match r with
  | ByName n => match ds_axis_id s n with Some id => Ok id | None => Err ValueError end
  | ByPos z => let! i := py_index (List.length (dsax s)) z in Ok (nth i (dsax s) 0)
  end.
Definition with_heap (s : dset) (h : list (nat * axis)) : dset :=
  {| heap := h; dsax := dsax s; dvars := dvars s; dsattrs := dsattrs s; nextid := nextid s |}.

(* ds.axes[d].name = n  (Axis.name setter: non-empty string) *)
Definition rename_id (s : dset) (id : nat) (n : string) : dset * res unit :=
  if String.eqb n "" then (s, Err ValueError)
  else (with_heap s (hset (heap s) id (with_name (hget (heap s) id) n)), Ok tt).
Definition ds_rename_axis (r : axref) (n : string) (s : dset) : dset * res unit :=
  match ds_axis_ref s r with Ok id => rename_id s id n | Err e => (s, Err e) end.
(* the same through one of the variables: ds[k].axes[d].name = n *)
Definition ds_var_rename_axis (k : string) (r : axref) (n : string) (s : dset) : dset * res unit :=
  match find_var s k with
  | None => (s, Err KeyError)
  | Some v =>
      match axis_info (var_as_darr s v) r with
      | Ok i => rename_id s (nth i (vax v) 0) n
      | Err e => (s, Err e)
      end
  end.
(* ds.dims = (...) *)
Definition ds_set_dims (ns : list string) (s : dset) : dset * res unit :=
  if negb (List.length ns =? List.length (dsax s)) then (s, Err ValueError)
  else if negb (distinct_str ns) then (s, Err ValueError)
  else if existsb (String.eqb "") ns then (s, Err ValueError)      (* all names are validated before any axis is renamed *)
  else fold_left (fun (acc : dset * res unit) p =>
                    match snd acc with
                    | Ok _ => rename_id (fst acc) (fst p) (snd p)
                    | Err e => acc end) (combine (dsax s) ns) (s, Ok tt).
(* rename_axes(mapper): all names at once (a swap or a chain of names works), through the validated ds.dims = (...) *)
Definition ds_rename_axes (m : list (string * string)) (s : dset) : dset * res unit :=
  if forallb (fun p => mem_str (fst p) (ds_dims s)) m then
    ds_set_dims (map (fun d => match find (fun p => String.eqb (fst p) d) m with Some p => snd p | None => d end) (ds_dims s)) s
  else (s, Err ValueError).

(* ds.axes[d][i] = label : Axis.__setitem__ with the kind widening of _maybe_cast_type *)
Definition ds_set_label (r : axref) (i : Z) (l : label) (lk : kind) (s : dset) : dset * res unit :=
  match ds_axis_ref s r with
  | Err e => (s, Err e)
  | Ok id =>
      let ax := hget (heap s) id in
      match py_index (alen ax) i with
      | Err e => (s, Err e)
      | Ok j => let ax' := {| aname := aname ax; akind := cast_kind (akind ax) lk; alab := set_nth j l (alab ax);
                             aattrs := aattrs ax; amem := amem ax |} in
                (with_heap s (hset (heap s) id ax'), Ok tt)
      end
  end.
(* ds.set_axis(values, axis, name) *)
Definition ds_set_axis (r : axref) (k : kind) (labs : list label) (name : option string) (s : dset) : dset * res unit :=
  match ds_axis_ref s r with
  | Err e => (s, Err e)
  | Ok id =>
      let ax := hget (heap s) id in
      if negb (List.length labs =? alen ax) then (s, Err ValueError) else
      let ax' := {| aname := aname ax; akind := norm_axis_kind k; alab := labs; aattrs := aattrs ax; amem := amem ax |} in
      let s' := with_heap s (hset (heap s) id ax') in
      match name with
      | None => (s', Ok tt)
      | Some n =>
          (* the name of another dimension is refused (before anything is touched) *)
          if mem_str n (map (fun j => aname (hget (heap s) j)) (filter (fun j => negb (j =? id)) (dsax s))) then (s, Err ValueError)
          else rename_id s' id n
      end
  end.
(* ds.axes[d] = Axis(...) : a new object replaces the dataset's and every variable's reference *)
Definition ds_replace_axis (r : axref) (nx : axis) (s : dset) : dset * res unit :=
  match ds_axis_ref s r with
  | Err e => (s, Err e)
  | Ok id =>
      if negb (alen nx =? alen (hget (heap s) id)) then (s, Err ValueError) else
      let nid := nextid s in
      let re := map (fun j => if j =? id then nid else j) in
      ({| heap := hset (heap s) nid nx; dsax := re (dsax s);
          dvars := map (fun v => {| vkey := vkey v; vax := re (vax v); vvals := vvals v; vattrs := vattrs v |}) (dvars s);
          dsattrs := dsattrs s; nextid := S nid |}, Ok tt)
  end.
(* rename_keys(mapper) *)
Definition ds_rename_key (old new : string) (s : dset) : dset * res unit :=
  match find_var s old with
  | None => (s, Err KeyError)
  | Some v =>
      if String.eqb old new then (s, Ok tt) else
      (* a variable already stored under the new key is deleted first (with the bookkeeping of del ds[new]) *)
      let s1 := match find_var s new with Some _ => fst (ds_delitem new s) | None => s end in
      let v' := {| vkey := new; vax := vax v; vvals := vvals v; vattrs := vattrs v |} in
      let vars1 := put_var (dvars s1) v' in
      ({| heap := heap s1; dsax := dsax s1; dvars := filter (fun w => negb (String.eqb (vkey w) old)) vars1;
          dsattrs := dsattrs s1; nextid := nextid s1 |}, Ok tt)
  end.

(* rename_keys(mapper) with several keys: every variable is looked up and removed before any is stored under its new name *)
Definition rekey (v : dvar) (n : string) : dvar := {| vkey := n; vax := vax v; vvals := vvals v; vattrs := vattrs v |}.

(* the pairs that really rename (old <> new), with the variable found under the old key *)
Definition moved_vars (m : list (string * string)) (s : dset) : res (list dvar) :=
  mapM (fun p => match find_var s (fst p) with Some v => Ok (rekey v (snd p)) | None => Err KeyError end)
       (filter (fun p => negb (String.eqb (fst p) (snd p))) m).
Definition ds_rename_keys (m : list (string * string)) (s : dset) : dset * res unit :=
  (* two variables cannot be renamed to the same key *)
  if negb (nodupb String.eqb (map snd m)) then (s, Err ValueError) else
  if negb (forallb (fun p => match find_var s (fst p) with Some _ => true | None => false end) m) then (s, Err KeyError) else
  match moved_vars m s with
  | Err e => (s, Err e)
  | Ok mv =>
      let olds := map fst (filter (fun p => negb (String.eqb (fst p) (snd p))) m) in
      let remaining := filter (fun w => negb (mem_str (vkey w) olds)) (dvars s) in
      ({| heap := heap s; dsax := dsax s; dvars := fold_left put_var mv remaining; dsattrs := dsattrs s; nextid := nextid s |}, Ok tt)
  end.


Inductive dsop :=
| DSet (k : string) (a : darr)
| DDel (k : string)
| DRenameAxis (r : axref) (n : string)
| DVarRenameAxis (k : string) (r : axref) (n : string)
| DSetDims (ns : list string)
| DRenameAxes (m : list (string * string))
| DSetLabel (r : axref) (i : Z) (l : label) (lk : kind)
| DSetAxis (r : axref) (k : kind) (labs : list label) (name : option string)
| DReplaceAxis (r : axref) (nx : axis)
| DRenameKey (old new : string)
| DRenameKeys (m : list (string * string))
| DInit (l : list (string * darr))      (* Dataset({k: array ...}): align (outer join), then assign in order *)
| DAppendAxis (ax : axis).             (* ds.axes.append(Axis): an axis no variable uses yet *)

Definition ds_init (l : list (string * darr)) : dset * res unit :=
  match align (map snd l) Outer None false false with
  | Err e => (ds_empty, Err e)
  | Ok al => fold_left (fun (acc : dset * res unit) p =>
                          match snd acc with
                          | Ok _ => ds_setitem (fst p) (snd p) (fst acc)
                          | Err e => acc end) (combine (map fst l) al) (ds_empty, Ok tt)
  end.

(* ds.axes.append(axis): refused when the name is there already (Axes.append) *)
Definition ds_append_axis (ax : axis) (s : dset) : dset * res unit :=
  if mem_str (aname ax) (ds_dims s) then (s, Err ValueError)
  else ({| heap := hset (heap s) (nextid s) ax; dsax := dsax s ++ [nextid s]; dvars := dvars s;
           dsattrs := dsattrs s; nextid := S (nextid s) |}, Ok tt).

Definition ds_step (s : dset) (o : dsop) : dset * res unit :=
  match o with
  | DSet k a => ds_setitem k a s
  | DDel k => ds_delitem k s
  | DRenameAxis r n => ds_rename_axis r n s
  | DVarRenameAxis k r n => ds_var_rename_axis k r n s
  | DSetDims ns => ds_set_dims ns s
  | DRenameAxes m => ds_rename_axes m s
  | DSetLabel r i l lk => ds_set_label r i l lk s
  | DSetAxis r k labs name => ds_set_axis r k labs name s
  | DReplaceAxis r nx => ds_replace_axis r nx s
  | DRenameKey o n => ds_rename_key o n s
  | DRenameKeys m => ds_rename_keys m s
  | DInit l => ds_init l
  | DAppendAxis ax => ds_append_axis ax s
  end.
Definition ds_run (ops : list dsop) (s : dset) : dset := fold_left (fun st o => fst (ds_step st o)) ops s.

(* ------------------------------------------------------------------ observation (for the correspondence) *)
(* per variable: key, its array as seen through the heap, and for every dimension whether its axis is the
   very same object as the dataset's axis of that name *)
Record vobs := { okey : string; oarr : darr; oshared : list bool }.
Record dsobs := { odims : list string; oaxes : list axis; ovars : list vobs }.
Definition observe (s : dset) : dsobs :=
  {| odims := ds_dims s; oaxes := map (hget (heap s)) (dsax s);
     ovars := map (fun v => {| okey := vkey v; oarr := var_as_darr s v;
                               oshared := map (fun id => match ds_axis_id s (aname (hget (heap s) id)) with
                                                         | Some j => j =? id | None => false end) (vax v) |}) (dvars s) |}.
Definition vobs_eqb (x y : vobs) : bool :=
  String.eqb (okey x) (okey y) && darr_eqb (oarr x) (oarr y) && list_eqb Bool.eqb (oshared x) (oshared y).
Definition dsobs_eqb (x y : dsobs) : bool :=
  list_eqb String.eqb (odims x) (odims y) && list_eqb axis_eqb (oaxes x) (oaxes y) && list_eqb vobs_eqb (ovars x) (ovars y).

(* a history with the expected status and observation after every step *)
Definition status_eqb (r : res unit) (e : option exn) : bool :=
  match r, e with Ok _, None => true | Err x, Some y => exn_eqb x y | _, _ => false end.
Fixpoint hist_ok (s : dset) (h : list (dsop * option exn * dsobs)) : bool :=
  match h with
  | [] => true
  | (o, e, ob) :: t => let '(s', r) := ds_step s o in
                       status_eqb r e && dsobs_eqb (observe s') ob && hist_ok s' t
  end.
Definition hist_case_ok (h : list (dsop * option exn * dsobs)) : bool := hist_ok ds_empty h.
Fixpoint hist_show (s : dset) (h : list (dsop * option exn * dsobs)) : list (res unit * dsobs) :=
  match h with
  | [] => []
  | (o, _, _) :: t => let '(s', r) := ds_step s o in (r, observe s') :: hist_show s' t
  end.
Definition hist_case_show h := hist_show ds_empty h.
