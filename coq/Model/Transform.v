(* core/transform.py, core/missingvalues.py, lib/stats.py: reductions, cumulative ops, diff,
   argmin/argmax, percentile, dropna/fillna/setna, take_axis/compress_axis, interp_axis. *)
From Coq Require Import Qround Qabs.
From DA Require Import Prelude NDArray Array PyRT.
From DA.Model Require Import Value Reshape SliceSpec Indexing Align.
Open Scope string_scope.
Open Scope nat_scope.
Open Scope list_scope.

(* ------------------------------------------------------------------ cell-level NumPy functions *)
Definition cell_q (c : cell) : option Q :=
  match c with CNum q => Some q | CBool b => Some (if b then 1 else 0)%Q | _ => None end.
Definition has_nan (l : list cell) : bool := existsb is_nan l.
Definition drop_nan (l : list cell) : list cell := filter (fun c => negb (is_nan c)) l.
Definition qs (l : list cell) : list Q := flat_map (fun c => match cell_q c with Some q => [q] | None => [] end) l.
Definition qsum (l : list Q) : Q := fold_left Qplus l 0%Q.
Definition qprod (l : list Q) : Q := fold_left Qmult l 1%Q.
Definition qmin (l : list Q) : option Q :=
  match l with [] => None | x :: t => Some (fold_left (fun m y => if Qle_bool m y then m else y) t x) end.
Definition qmax (l : list Q) : option Q :=
  match l with [] => None | x :: t => Some (fold_left (fun m y => if Qle_bool y m then m else y) t x) end.
Definition qlen (l : list Q) : Q := inject_Z (Z.of_nat (List.length l)).
Definition qmean (l : list Q) : Q := (qsum l / qlen l)%Q.
Definition qvar (l : list Q) : Q := let m := qmean l in (qsum (map (fun x => (x - m) * (x - m)) l) / qlen l)%Q.
(* insertion sort on rationals *)
Fixpoint qinsert (x : Q) (l : list Q) : list Q :=
  match l with [] => [x] | y :: t => if Qle_bool x y then x :: l else y :: qinsert x t end.
Definition qsort (l : list Q) : list Q := fold_right qinsert [] l.
Definition qmedian (l : list Q) : option Q :=
  let s := qsort l in let n := List.length s in
  match n with
  | 0 => None
  | _ => if Nat.even n then Some ((nth (n / 2 - 1) s 0 + nth (n / 2) s 0) / 2)%Q else Some (nth (n / 2) s 0%Q)
  end.

(* np.percentile(values, q) with linear interpolation between the order statistics: the virtual index is (n-1) q / 100 *)
Definition qpercentile (q : Q) (l : list Q) : option Q :=
  let s := qsort l in let n := List.length s in
  match n with
  | 0 => None
  | _ => let pos := (inject_Z (Z.of_nat (n - 1)) * q / 100)%Q in
         let i := Z.to_nat (Qfloor pos) in
         let frac := (pos - inject_Z (Qfloor pos))%Q in
         let a := nth i s 0%Q in let b := nth (Nat.min (S i) (n - 1)) s 0%Q in
         Some (a + frac * (b - a))%Q
  end.

Inductive redfn := RSum | RProd | RMean | RVar | RStd | RMin | RMax | RPtp | RAll | RAny | RMedian | RPct (q : Q).

Definition of_opt (o : option Q) : cell := match o with Some q => CNum q | None => CNaN end.

(* the function selected by _get_func(name, skipna) applied to one fibre.
   NB: RStd returns the VARIANCE; the harness compares the square of the implementation's value. *)
Definition red_cell (f : redfn) (skipna : bool) (l : list cell) : cell :=
  let l' := if skipna then drop_nan l else l in
  let v := qs l' in
  match f with
  | RAll => CBool (forallb (fun c => match c with CNum q => negb (Qeq_bool q 0) | CBool b => b | _ => true end) l')
  | RAny => CBool (existsb (fun c => match c with CNum q => negb (Qeq_bool q 0) | CBool b => b | _ => true end) l')
  | _ =>
    if has_nan l' then CNaN else
    match f with
    | RSum => CNum (qsum v)
    | RProd => CNum (qprod v)
    | RMean => match v with [] => CNaN | _ => CNum (qmean v) end
    | RVar | RStd => match v with [] => CNaN | _ => CNum (qvar v) end
    | RMin => of_opt (qmin v)
    | RMax => of_opt (qmax v)
    | RPtp => match qmin v, qmax v with Some a, Some b => CNum (b - a) | _, _ => CNaN end
    | RMedian => of_opt (qmedian v)
    | RPct q => of_opt (qpercentile q v)
    | _ => CNaN
    end
  end.
Definition red_kind (f : redfn) (k : kind) : kind :=
  match f with
  | RAll | RAny => KB
  | RMean | RVar | RStd | RMedian | RPct _ => KF
  | RSum | RProd => match k with KB => KI | _ => k end
  | _ => k
  end.

(* ------------------------------------------------------------------ axis argument *)
Inductive axarg := AxNone | AxOne (r : axref) | AxMany (rs : list axref).

(* apply_along_axis for a reduction: axis=None -> scalar; one axis -> that axis dropped (scalar for a
   1-D array); the caller flattens first for a tuple of axes (see Model/Flatten.v) *)
(* min / max of a boolean array stay boolean *)
Definition red_cell_k (f : redfn) (skipna : bool) (k : kind) (l : list cell) : cell :=
  match k, f, red_cell f skipna l with
  | KB, (RMin | RMax), CNum q => CBool (negb (Qeq_bool q 0))
  | _, _, c => c
  end.
Definition reduce_axis (f : redfn) (skipna : bool) (i : nat) (a : darr) : res value :=
  let v := np_reduce (red_kind f (kd (vals a))) (red_cell_k f skipna (kd (vals a))) i (vals a) in
  match sh v with
  | [] => Ok (VCell (get v []))
  | _ => Ok (VArr (mkarr (remove_nth i (axes a)) v (attrs a)))
  end.
Definition reduce_all (f : redfn) (skipna : bool) (a : darr) : res value :=
  Ok (VCell (red_cell_k f skipna (kd (vals a)) (dat (vals a)))).
Definition reduce (f : redfn) (skipna : bool) (ax : axarg) (a : darr) : res value :=
  match ax with
  | AxNone => reduce_all f skipna a
  | AxOne r => let! i := axis_info a r in reduce_axis f skipna i a
  | AxMany _ => Err OtherError      (* handled in Flatten.v *)
  end.

(* ------------------------------------------------------------------ cumulative, diff, arg-extrema *)
Fixpoint scan (f : Q -> Q -> Q) (acc : Q) (nanseen : bool) (skipna : bool) (unit : Q) (l : list cell) : list cell :=
  match l with
  | [] => []
  | c :: t =>
      match cell_q c with
      | Some q => let acc' := f acc q in (if nanseen then CNaN else CNum acc') :: scan f acc' nanseen skipna unit t
      | None => if skipna then CNum acc :: scan f acc nanseen skipna unit t
                else CNaN :: scan f acc true skipna unit t
      end
  end.
Definition cum_fibre (prod : bool) (skipna : bool) (l : list cell) : list cell :=
  if prod then scan Qmult 1%Q false skipna 1%Q l else scan Qplus 0%Q false skipna 0%Q l.
Definition cum_kind (k : kind) : kind := match k with KB => KI | _ => k end.
Definition cumulative (prod skipna : bool) (r : axref) (a : darr) : res darr :=
  let! i := axis_info a r in
  let n := nth i (sh (vals a)) 0 in
  Ok (mkarr (axes a) (np_along (cum_kind (kd (vals a))) n (cum_fibre prod skipna) i (vals a)) (attrs a)).

(* NumPy: the difference of two booleans is "they differ" (not_equal), still a boolean *)
Definition diff_cell (x y : cell) : cell :=
  match x, y with
  | CBool a, CBool b => CBool (xorb a b)
  | _, _ => match cell_q x, cell_q y with Some a, Some b => CNum (b - a) | _, _ => CNaN end
  end.
Fixpoint diff_fibre (l : list cell) : list cell :=
  match l with
  | x :: ((y :: _) as t) => diff_cell x y :: diff_fibre t
  | _ => []
  end.
Inductive scheme := Backward | Forward | Centered.
Definition midpoints (ls : list label) : res (list label) :=
  let fix go l := match l with
                  | LAt (ANum a) :: ((LAt (ANum b) :: _) as t) => let! r := go t in Ok (LNum ((a + b) / 2) :: r)
                  | [_] | [] => Ok []
                  | _ => Err TypeError
                  end in go ls.
(* with keepaxis a boolean difference is padded with NaN and so becomes a float array: True / False turn into 1.0 / 0.0 *)
Definition cell_num (c : cell) : cell := match c with CBool b => CNum (if b then 1 else 0) | _ => c end.
Definition pad_num (k : kind) (l : list cell) : list cell := match k with KB => map cell_num l | _ => l end.
(* one differencing step *)
Definition diff1 (sc : scheme) (keepaxis : bool) (i : nat) (a : darr) : res darr :=
  let ax := nth i (axes a) dax0 in
  let n := alen ax in
  let v := vals a in
  let d := np_along (kd v) (n - 1) diff_fibre i v in
  match sc with
  | Centered =>
      if keepaxis then Err ValueError
      else let! m := midpoints (alab ax) in
           Ok (mkarr (set_nth i (ax_new (aname ax) (match akind ax with KO => KO | _ => KF end) m []) (axes a)) d (attrs a))
  | _ =>
      if keepaxis then
        let first := match sc with Backward => true | _ => false end in
        let k := match kd v with KI | KB => KF | k => k end in
        let padded := np_along k n (fun f => pad_num (kd v) (if first then CNaN :: diff_fibre f else diff_fibre f ++ [CNaN])) i v in
        (* an empty axis: one NaN slice is appended to nothing and no longer fits the axis *)
        if n =? 0 then Err OtherError else Ok (mkarr (axes a) padded (attrs a))
      else
        let labs := match sc with Backward => tl (alab ax) | _ => removelast (alab ax) end in
        Ok (mkarr (set_nth i (with_labels ax (akind ax) labs) (axes a)) d (attrs a))
  end.
Fixpoint diff_n (fuel : nat) (sc : scheme) (keepaxis : bool) (i : nat) (a : darr) : res darr :=
  match fuel with
  | O => Err RecursionError
  | S O => diff1 sc keepaxis i a
  | S f => let! a' := diff_n f sc keepaxis i a in diff1 sc keepaxis i a'
  end.
Definition diff (r : axref) (sc : scheme) (keepaxis : bool) (n : nat) (a : darr) : res darr :=
  let! i := axis_info a r in
  if n =? 0 then Err AssertionError else diff_n n sc keepaxis i a.

(* np.argmin / np.argmax on a fibre: first extremal position, a NaN wins *)
Fixpoint arg_ext (mx : bool) (l : list cell) (i best : nat) (bq : option Q) : nat :=
  match l with
  | [] => best
  | c :: t =>
      match cell_q c, bq with
      | None, _ => i                                  (* first NaN *)
      | Some q, None => arg_ext mx t (S i) i (Some q)
      | Some q, Some b => if (if mx then negb (Qle_bool q b) else negb (Qle_bool b q))
                          then arg_ext mx t (S i) i (Some q) else arg_ext mx t (S i) best bq
      end
  end.
Definition argext_pos (mx : bool) (l : list cell) : nat := arg_ext mx l 0 0 None.
(* along an axis: labels of the extremal positions; 1-D array: a single label *)
Definition argext_axis (mx : bool) (r : axref) (a : darr) : res value :=
  let! i := axis_info a r in
  let ax := nth i (axes a) dax0 in
  if alen ax =? 0 then Err ValueError else
  let v := vals a in
  match remove_nth i (sh v) with
  | [] => Ok (VLabels [nth_lab (alab ax) (argext_pos mx (dat v))])
  | s' =>
      let lab_cells := mk s' (akind ax) (fun c' => label_cell (nth_lab (alab ax) (argext_pos mx (fibre v i c')))) in
      Ok (VArr (mkarr (remove_nth i (axes a)) lab_cells (attrs a)))
  end.
(* whole array: tuple of labels of the first extremal cell in row-major order *)
Definition argext_all (mx : bool) (a : darr) : res value :=
  let v := vals a in
  if prod (sh v) =? 0 then Err ValueError else
  let p := argext_pos mx (dat v) in
  let c := unravel (sh v) p in
  Ok (VLabels (map (fun q => nth_lab (alab (fst q)) (snd q)) (combine (axes a) c))).

(* ------------------------------------------------------------------ missing values *)
Definition count_nan (l : list cell) : nat := List.length (filter is_nan l).
(* positions of axis i whose slice has at most maxna NaNs *)
Definition slice_cells (v : nd) (i j : nat) : list cell :=
  map (get v) (filter (fun c => nth i c 0 =? j) (coords (sh v))).
Definition compress_axis (keep : list bool) (i : nat) (a : darr) : res darr :=
  let ax := nth i (axes a) dax0 in
  if negb (List.length keep =? alen ax) then Err ValueError else
  let ps := mask_positions keep in
  Ok (mkarr (set_nth i (with_labels ax (akind ax) (map (nth_lab (alab ax)) ps)) (axes a))
            (np_take ps i (vals a)) (attrs a)).
Definition dropna (r : axref) (minvalid : option nat) (a : darr) : res darr :=
  let! i := axis_info a r in
  let v := vals a in
  match sh v with
  | [n] =>   (* 1-D: self[~isnan(values)] *)
      compress_axis (map (fun c => negb (is_nan c)) (dat v)) 0 a
  | _ =>
      let n := nth i (sh v) 0 in
      let slice_size := prod (remove_nth i (sh v)) in
      let keep := map (fun j => let nn := count_nan (slice_cells v i j) in
                                match minvalid with
                                | None => nn <=? 0
                                | Some m => (Z.of_nat nn <=? Z.of_nat slice_size - Z.of_nat m)%Z
                                end) (seq 0 n) in
      compress_axis keep i a
  end.
(* fillna(value): put(isnan(values), value, cast=True) *)
Definition fillna (c : cell) (ck : kind) (a : darr) : res darr :=
  match sh (vals a) with
  | [] => Err OtherError
  | _ => setmask (map is_nan (dat (vals a))) (RScalar c ck) true a
  end.
(* setna(value(s)): cells equal to one of the values become NaN (cast=True) *)
Definition setna (vals_ : list cell) (a : darr) : res darr :=
  setmask (map (fun c => existsb (cell_eqb c) vals_) (dat (vals a))) (RScalar CNaN KF) true a.
Definition setna_mask (m : list bool) (a : darr) : res darr := setmask m (RScalar CNaN KF) true a.

(* take_axis with labels *)
Definition take_axis_label (ls : list label) (r : axref) (a : darr) : res darr :=
  let! i := axis_info a r in
  let ax := nth i (axes a) dax0 in
  let! idxs := locate_many (alab ax) ls in
  Ok (take_axis_pos idxs i a).
Definition take_axis_position (zs : list Z) (r : axref) (a : darr) : res darr :=
  let! i := axis_info a r in
  let ax := nth i (axes a) dax0 in
  let! idxs := mapM (py_index (alen ax)) zs in
  Ok (take_axis_pos idxs i a).

(* ------------------------------------------------------------------ interp_axis *)
(* numpy.interp on increasing xp: piecewise linear, left/right outside *)
Fixpoint interp_seg (xs : list Q) (ys : list cell) (x : Q) : option cell :=
  match xs, ys with
  | x0 :: ((x1 :: _) as xt), y0 :: ((y1 :: _) as yt) =>
      if Qle_bool x0 x && Qle_bool x x1 then
        if Qeq_bool x x0 then Some y0 else if Qeq_bool x x1 then
          (* an exact node: the value at the LAST node with that abscissa on the left segment *) Some y1
        else match cell_q y0, cell_q y1 with
             | Some a, Some b => Some (CNum (a + (x - x0) / (x1 - x0) * (b - a)))
             | _, _ => Some CNaN
             end
      else interp_seg xt yt x
  | [x0], [y0] => if Qeq_bool x x0 then Some y0 else None
  | _, _ => None
  end.
Definition interp1 (xs : list Q) (ys : list cell) (left right : cell) (x : Q) : cell :=
  match xs with
  | [] => CNaN
  | x0 :: _ =>
      if negb (Qle_bool x0 x) then left
      else if negb (Qle_bool x (last xs x0)) then right
      else match interp_seg xs ys x with Some c => c | None => CNaN end
  end.
Definition labels_q (ls : list label) : res (list Q) :=
  mapM (fun l => match l with LAt (ANum q) => Ok q | _ => Err TypeError end) ls.
Definition is_sorted_q (l : list Q) : bool :=
  let fix go l := match l with x :: ((y :: _) as t) => Qle_bool x y && go t | _ => true end in go l.

Definition interp_axis (newk : kind) (news : list label) (r : axref) (left right : cell) (a : darr) : res darr :=
  let! i := axis_info a r in
  let! nq := labels_q news in
  let ax0 := nth i (axes a) dax0 in
  let! xq0 := labels_q (alab ax0) in
  (* _interp_internal_maybe_sort *)
  let a := if is_sorted_q xq0 then a else take_axis_pos (argsort (alab ax0)) i a in
  let ax := nth i (axes a) dax0 in
  let! xq := labels_q (alab ax) in
  let newax := ax_new (aname ax) (match newk with KI => KI | _ => KF end) news [] in
  let v := vals a in
  let out := np_along KF (List.length news) (fun f => map (interp1 xq f left right) nq) i v in
  match sh v with
  | [_] => Ok (mkarr [newax] out (attrs a))
  | _ => Ok (mkarr (set_nth i newax (axes a)) out (attrs a))
  end.

(* ------------------------------------------------------------------ interp_like *)
(* successive interp_axis over self's axes whose name is among the other object's axes (first match by name) *)
Definition like_step (others : list (string * kind * list label)) (left right : cell) (acc : res darr) (nm : string) : res darr :=
  let! o := acc in
  match find (fun p => String.eqb (fst (fst p)) nm) others with
  | Some (_, k, news) => interp_axis k news (ByName nm) left right o
  | None => Ok o
  end.
Definition interp_like (others : list (string * kind * list label)) (left right : cell) (a : darr) : res darr :=
  fold_left (like_step others left right) (map aname (axes a)) (Ok a).
