(* C16: attribute routing of GetSetDelAttrMixin.  The decision functions are GENERATED
   (Gen/attrs.v) from bases.py; here they are wrapped into typed routes. *)
From DA Require Import Prelude NDArray Array PyRT.
From DA.Gen Require Import attrs.
Open Scope string_scope.

(* what the interpreter and the mixin decide from, for a given object and attribute name *)
Record preds := {
  p_member : bool;    (* hasattr(type(obj), name): a class member (property, method, class attribute) *)
  p_private : bool;   (* name.startswith('_') *)
  p_exclude : bool;   (* name in __metadata_exclude__ *)
  p_include : bool;   (* name in __metadata_include__ *)
  p_hasdims : bool;   (* hasattr(type(obj), 'dims') *)
  p_hasaxes : bool;   (* hasattr(type(obj), 'axes') *)
  p_isdim : bool;     (* name in obj.dims *)
  p_inattrs : bool;   (* name in obj.attrs *)
  p_instance : bool   (* name in obj.__dict__ (set by a previous object.__setattr__) *)
}.
Definition B (b : bool) : pv := PBool b.
Definition run8 (f : pv -> pv -> pv -> pv -> pv -> pv -> pv -> pv -> res pv) (p : preds) : res pv :=
  f (B (p_member p)) (B (p_private p)) (B (p_exclude p)) (B (p_include p))
    (B (p_hasdims p)) (B (p_hasaxes p)) (B (p_isdim p)) (B (p_inattrs p)).

Inductive groute := GNormal | GAxisValues | GAttrs | GError.
Inductive sroute := SObject | SAxisValues | SAttrs | SOther.
Inductive droute := DAttrs | DObject | DOther.

(* getattr(obj, name): ordinary lookup first (instance dict, class), then __getattr__ *)
Definition get_route (p : preds) : groute :=
  if p_instance p || p_member p then GNormal
  else match run8 g___getattr__ p with
       | Ok (PStr "class_member") => GNormal
       | Ok (PStr "axis_values") => GAxisValues
       | Ok (PStr "attrs_item") => GAttrs
       | _ => GError
       end.
Definition set_route (p : preds) : sroute :=
  match run8 g___setattr__ p with
  | Ok (PStr "object_setattr") => SObject
  | Ok (PStr "axis_setvalues") => SAxisValues
  | Ok (PStr "attrs_setitem") => SAttrs
  | _ => SOther
  end.
Definition del_route (p : preds) : droute :=
  match run8 g___delattr__ p with
  | Ok (PStr "attrs_delitem") => DAttrs
  | Ok (PStr "object_delattr") => DObject
  | _ => DOther
  end.

Definition groute_eqb (a b : groute) : bool :=
  match a, b with GNormal, GNormal | GAxisValues, GAxisValues | GAttrs, GAttrs | GError, GError => true | _, _ => false end.
Definition sroute_eqb (a b : sroute) : bool :=
  match a, b with SObject, SObject | SAxisValues, SAxisValues | SAttrs, SAttrs | SOther, SOther => true | _, _ => false end.
Definition droute_eqb (a b : droute) : bool :=
  match a, b with DAttrs, DAttrs | DObject, DObject | DOther, DOther => true | _, _ => false end.

(* correspondence cases *)
Inductive rcase := RGet (p : preds) (e : groute) | RSet (p : preds) (e : sroute) | RDel (p : preds) (e : droute).
Definition rcase_ok (c : rcase) : bool :=
  match c with
  | RGet p e => groute_eqb (get_route p) e
  | RSet p e => sroute_eqb (set_route p) e
  | RDel p e => droute_eqb (del_route p) e
  end.
Definition rcase_show (c : rcase) :=
  match c with
  | RGet p _ => (Some (get_route p), None, None)
  | RSet p _ => (None, Some (set_route p), None)
  | RDel p _ => (None, None, Some (del_route p))
  end.
Definition Pr a b c d e f g h i : preds :=
  {| p_member := a; p_private := b; p_exclude := c; p_include := d; p_hasdims := e; p_hasaxes := f; p_isdim := g; p_inattrs := h; p_instance := i |}.
