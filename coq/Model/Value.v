(* Observable results and their comparison (used by the correspondence check). *)
From Coq Require Import Qabs.
From DA Require Import Prelude NDArray Array.
Open Scope nat_scope.

Inductive value :=
| VArr (a : darr)
| VCell (c : cell)
| VLabels (l : list label)
| VArrs (l : list darr)
| VBool (b : bool)
| VMeta (m : option mval)
| VUnit.

Definition atom_eqb (a b : atom) : bool := label_eqb (LAt a) (LAt b).
Fixpoint meta_get (k : string) (m : meta) : option mval :=
  match m with
  | [] => None
  | (k', v) :: t => if String.eqb k k' then Some v else meta_get k t
  end.
(* attrs are compared as maps (dict order is not observable for the properties) *)
Definition meta_eqb (x y : meta) : bool :=
  (List.length x =? List.length y)
  && forallb (fun p => match meta_get (fst p) y with Some v => mval_eqb (snd p) v | None => false end) x.
Definition maxis_eqb (x y : maxis) : bool :=
  String.eqb (mname x) (mname y) && kind_eqb (mkind x) (mkind y)
  && list_eqb label_eqb (mlab x) (mlab y) && meta_eqb (mattrs x) (mattrs y).
Definition axis_eqb (x y : axis) : bool :=
  String.eqb (aname x) (aname y) && kind_eqb (akind x) (akind y)
  && list_eqb label_eqb (alab x) (alab y) && meta_eqb (aattrs x) (aattrs y)
  && list_eqb maxis_eqb (amem x) (amem y).
Definition nd_eqb (x y : nd) : bool :=
  list_eqb Nat.eqb (sh x) (sh y) && kind_eqb (kd x) (kd y) && list_eqb cell_eqb (dat x) (dat y).
Definition darr_eqb (x y : darr) : bool :=
  list_eqb axis_eqb (axes x) (axes y) && nd_eqb (vals x) (vals y) && meta_eqb (attrs x) (attrs y).
Definition value_eqb (x y : value) : bool :=
  match x, y with
  | VArr a, VArr b => darr_eqb a b
  | VCell a, VCell b => cell_eqb a b
  | VLabels a, VLabels b => list_eqb label_eqb a b
  | VArrs a, VArrs b => list_eqb darr_eqb a b
  | VBool a, VBool b => Bool.eqb a b
  | VMeta None, VMeta None => true
  | VMeta (Some a), VMeta (Some b) => mval_eqb a b
  | VUnit, VUnit => true
  | _, _ => false
  end.
(* expected outcome from the implementation: a value, a specific exception class, or
   "some exception" where the property does not fix the class *)
Inductive expect := EVal (v : value) | EErr (e : exn) | EAnyErr.
Definition outcome_ok (r : res value) (e : expect) : bool :=
  match r, e with
  | Ok v, EVal w => value_eqb v w
  | Err x, EErr y => exn_eqb x y
  | Err _, EAnyErr => true
  | _, _ => false
  end.

(* short constructors used by the generated case files *)
Definition Ax (n : string) (k : kind) (l : list label) (m : meta) (g : list maxis) : axis :=
  {| aname := n; akind := k; alab := l; aattrs := m; amem := g |}.
Definition Mx (n : string) (k : kind) (l : list label) (m : meta) : maxis :=
  {| mname := n; mkind := k; mlab := l; mattrs := m |}.
Definition Arr (axs : list axis) (s : list nat) (k : kind) (d : list cell) (m : meta) : darr :=
  {| axes := axs; vals := {| sh := s; dat := d; kd := k |}; attrs := m |}.
Definition N_ (n : Z) : cell := CNum (qz n 1).
Definition L_ (n : Z) : label := LNum (qz n 1).

(* comparison with a relative tolerance for results of inexact floating-point arithmetic (mean,
   var, std, interpolation): |model - implementation| <= 1e-9 * (1 + |model|) *)
Definition cell_close (a b : cell) : bool :=
  match a, b with
  | CNum p, CNum q => Qle_bool (Qabs (p - q)) ((1 # 1000000000) * (1 + Qabs p))
  | _, _ => cell_eqb a b
  end.
Definition nd_close (x y : nd) : bool :=
  list_eqb Nat.eqb (sh x) (sh y) && kind_eqb (kd x) (kd y) && list_eqb cell_close (dat x) (dat y).
Definition darr_close (x y : darr) : bool :=
  list_eqb axis_eqb (axes x) (axes y) && nd_close (vals x) (vals y) && meta_eqb (attrs x) (attrs y).
