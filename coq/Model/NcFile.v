(* io/nc.py over the netCDF data model: ordered dimensions (fixed or unlimited), variables over
   dimensions (a variable named like a dimension holds that dimension's labels), attributes on the
   file and on variables.  Dataset.write_nc / DimArray.write_nc / handle[name] = array, and read_nc. *)
From Coq Require Import Qround Qabs.
From DA Require Import Prelude NDArray Array PyRT.
From DA.Model Require Import Value Reshape SliceSpec Indexing Align.
Open Scope string_scope.
Open Scope nat_scope.
Open Scope list_scope.

Record ncvar := { nv_dims : list string; nv_kind : kind; nv_data : list cell; nv_attrs : meta }.
Record ncfile := { nf_fmt3 : bool; nf_dims : list (string * nat); nf_unl : list string;
                   nf_vars : list (string * ncvar); nf_attrs : meta }.
Definition nc_empty (fmt3 : bool) : ncfile := {| nf_fmt3 := fmt3; nf_dims := []; nf_unl := []; nf_vars := []; nf_attrs := [] |}.

Fixpoint assoc {A} (k : string) (l : list (string * A)) : option A :=
  match l with [] => None | (k', v) :: t => if String.eqb k k' then Some v else assoc k t end.
Definition has_key {A} (k : string) (l : list (string * A)) : bool := match assoc k l with Some _ => true | None => false end.
Fixpoint assoc_set {A} (k : string) (v : A) (l : list (string * A)) : list (string * A) :=
  match l with
  | [] => [(k, v)]
  | (k', v') :: t => if String.eqb k k' then (k, v) :: t else (k', v') :: assoc_set k v t
  end.

(* setncattr: bool is refused by netCDF and stored as an integer by AttrsOnDisk.__setitem__ *)
Definition nc_attr (v : mval) : mval := match v with MBool b => MNum (if b then 1 else 0)%Q | v => v end.
(* attrs.update(d): dict order, existing keys overwritten in place *)
Definition attrs_update (old new : meta) : meta := fold_left (fun acc p => assoc_set (fst p) (nc_attr (snd p)) acc) new old.

(* maybe_encode_values + createVariable: the type of the netCDF variable *)
Definition nc_kind (fmt3 : bool) (k : kind) : res kind :=
  match k with
  | KF => Ok KF
  | KI => Ok KI                      (* int64, or int32 in the NETCDF3 formats: the same kind *)
  | KO | KU | KS => if fmt3 then Err ValueError else Ok KO     (* variable-length strings need NETCDF4 *)
  | KB => Err TypeError
  end.

Definition set_var (name : string) (v : ncvar) (f : ncfile) : ncfile :=
  {| nf_fmt3 := nf_fmt3 f; nf_dims := nf_dims f; nf_unl := nf_unl f; nf_vars := assoc_set name v (nf_vars f); nf_attrs := nf_attrs f |}.

(* AxesOnDisk.append(axis): createDimension, then the coordinate variable with labels and metadata *)
Definition nc_append_axis (ax : axis) (f : ncfile) : res ncfile :=
  if has_key (aname ax) (nf_dims f) then Err OtherError else
  let! k := nc_kind (nf_fmt3 f) (akind ax) in
  let f1 := {| nf_fmt3 := nf_fmt3 f; nf_dims := nf_dims f ++ [(aname ax, alen ax)]; nf_unl := nf_unl f;
               nf_vars := nf_vars f; nf_attrs := nf_attrs f |} in
  if has_key (aname ax) (nf_vars f) then Err OtherError else
  Ok (set_var (aname ax) {| nv_dims := [aname ax]; nv_kind := k; nv_data := map label_cell (alab ax);
                            nv_attrs := attrs_update [] (aattrs ax) |} f1).

Definition dim_size (f : ncfile) (d : string) : nat := match assoc d (nf_dims f) with Some n => n | None => 0 end.

(* DatasetOnDisk.write(name, dima) = handle[name] = dima *)
Definition nc_write_var (name : string) (a : darr) (f : ncfile) : res ncfile :=
  let! k := nc_kind (nf_fmt3 f) (kd (vals a)) in
  let! f1 :=
    match assoc name (nf_vars f) with
    | Some _ => Ok f
    | None =>
        let! f0 := fold_left (fun acc ax => let! g := acc in
                                            if has_key (aname ax) (nf_dims g) then Ok g else nc_append_axis ax g)
                             (axes a) (Ok f) in
        if has_key name (nf_vars f0) then Ok f0     (* present both as variable and as axis: skipped *)
        else Ok (set_var name {| nv_dims := dims a; nv_kind := k;
                                 nv_data := List.repeat (match k with KF => CNaN | KO => CStr "" | _ => CNum 0 end)
                                                        (prod (map (dim_size f0) (dims a)));
                                 nv_attrs := [] |} f0)
    end in
  match assoc name (nf_vars f1) with
  | None => Err OtherError
  | Some v =>
      (* every dimension of the file variable must be a dimension of the array (looked up by name) *)
      if negb (forallb (fun d => mem_str d (dims a)) (nv_dims v)) then Err ValueError else
      (* the values are assigned by position: shapes must agree *)
      if negb (list_eqb Nat.eqb (map (dim_size f1) (nv_dims v)) (sh (vals a))) then Err OtherError else
      if negb (list_eqb String.eqb (nv_dims v) (dims a)) then Err OtherError else
      Ok (set_var name {| nv_dims := nv_dims v; nv_kind := nv_kind v; nv_data := dat (vals a);
                          nv_attrs := attrs_update (nv_attrs v) (attrs a) |} f1)
  end.

(* the axes of a Dataset built from these variables: first appearance, in insertion order *)
Definition ds_axes (vars : list (string * darr)) : list axis :=
  fold_left (fun acc p => fold_left (fun acc ax => if mem_str (aname ax) (map aname acc) then acc else acc ++ [ax]) (axes (snd p)) acc) vars [].

(* Dataset.write_nc(f, mode): all axes first, then the variables, then the dataset metadata *)
Definition nc_write_ds (vars : list (string * darr)) (at_ : meta) (f : ncfile) : res ncfile :=
  let! f1 := fold_left (fun acc ax => let! g := acc in
                                      if has_key (aname ax) (nf_dims g) then Ok g else nc_append_axis ax g)
                       (ds_axes vars) (Ok f) in
  let! f2 := fold_left (fun acc p => let! g := acc in nc_write_var (fst p) (snd p) g) vars (Ok f1) in
  Ok {| nf_fmt3 := nf_fmt3 f2; nf_dims := nf_dims f2; nf_unl := nf_unl f2; nf_vars := nf_vars f2;
        nf_attrs := attrs_update (nf_attrs f2) at_ |}.

(* ------------------------------------------------------------------ reading *)
Definition cell_label (c : cell) : label :=
  match c with CNum q => LNum q | CStr s => LStr s | _ => LNone end.
Definition arange_lab (n : nat) : list label := map (fun i => LNum (inject_Z (Z.of_nat i))) (seq 0 n).
(* AxisOnDisk[...] : labels and metadata of the coordinate variable, or 0..n-1 *)
Definition nc_axis (f : ncfile) (d : string) : axis :=
  match assoc d (nf_vars f) with
  | Some v => {| aname := d; akind := nv_kind v; alab := map cell_label (nv_data v); aattrs := nv_attrs v; amem := [] |}
  | None => mkaxis d KI (arange_lab (dim_size f d))
  end.
Definition nc_read_var (f : ncfile) (v : ncvar) : darr :=
  mkarr (map (nc_axis f) (nv_dims v)) {| sh := map (dim_size f) (nv_dims v); dat := nv_data v; kd := nv_kind v |} (nv_attrs v).

Record pds := { p_axes : list axis; p_vars : list (string * darr); p_attrs : meta }.
(* DatasetOnDisk.read(): every dimension, every variable that is not a dimension, the file attributes *)
Definition nc_read (f : ncfile) : pds :=
  {| p_axes := map (fun p => nc_axis f (fst p)) (nf_dims f);
     p_vars := map (fun p => (fst p, nc_read_var f (snd p))) (filter (fun p => negb (has_key (fst p) (nf_dims f))) (nf_vars f));
     p_attrs := nf_attrs f |}.

(* ------------------------------------------------------------------ write sequences *)
Inductive ncstep :=
| NWriteDs (vars : list (string * darr)) (at_ : meta) (fresh : bool)    (* Dataset.write_nc(f, mode = w | a) *)
| NWriteVar (name : string) (a : darr).                                  (* a.write_nc(f, name, mode = a | a+);  open_nc(f, 'a')[name] = a *)
Definition nc_step (f : ncfile) (s : ncstep) : res ncfile :=
  match s with
  | NWriteDs vars at_ fresh => nc_write_ds vars at_ (if fresh then nc_empty (nf_fmt3 f) else f)
  | NWriteVar name a => nc_write_var name a f
  end.
Definition nc_run (fmt3 : bool) (steps : list ncstep) : res ncfile :=
  fold_left (fun acc s => let! f := acc in nc_step f s) steps (Ok (nc_empty fmt3)).

Definition pds_eqb (x y : pds) : bool :=
  list_eqb axis_eqb (p_axes x) (p_axes y)
  && list_eqb (fun p q => String.eqb (fst p) (fst q) && darr_eqb (snd p) (snd q)) (p_vars x) (p_vars y)
  && meta_eqb (p_attrs x) (p_attrs y).
Definition nccase := (bool * list ncstep * option pds)%type.     (* None: the implementation raised *)
Definition nccase_ok (c : nccase) : bool :=
  let '(fmt3, steps, e) := c in
  match nc_run fmt3 steps, e with
  | Ok f, Some d => pds_eqb (nc_read f) d
  | Err _, None => true
  | _, _ => false
  end.
Definition nccase_show (c : nccase) : res pds :=
  let '(fmt3, steps, e) := c in let! f := nc_run fmt3 steps in Ok (nc_read f).
