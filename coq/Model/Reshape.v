(* dimarray/core/reshape.py: transpose, swapaxes, rollaxis, repeat, newaxis, squeeze,
   broadcast, reshape (comma-free part; grouping is in Model/Flatten.v). *)
From DA Require Import Prelude NDArray Array.
Open Scope string_scope.
Open Scope nat_scope.

Definition mkarr (axs : list axis) (v : nd) (m : meta) : darr :=
  {| axes := axs; vals := v; attrs := m |}.

(* DimArray.__init__ shape check: raise Exception on mismatch between axes and values *)
Definition construct (axs : list axis) (v : nd) (m : meta) : res darr :=
  if list_eqb Nat.eqb (map alen axs) (sh v) then Ok (mkarr axs v m) else Err OtherError.

(* transpose by explicit positions (already resolved, non-negative) *)
Definition transpose_pos (p : list nat) (a : darr) : res darr :=
  if negb (List.length p =? List.length (axes a)) then Err ValueError
  else if negb (is_perm p) then Err ValueError
  else Ok (mkarr (map (fun j => nth j (axes a) (mkaxis "" KO [])) p)
                 (np_transpose p (vals a)) (attrs a)).

Definition transpose (rs : list axref) (a : darr) : res darr :=
  match rs with
  | [] => transpose_pos (rev (seq 0 (List.length (axes a)))) a     (* a.T / a.transpose(): all dimensions reversed, as NumPy *)
  | _ => let! p := mapM (axis_info a) rs in transpose_pos p a
  end.

(* swapaxes: the permutation loop of the source *)
Definition swap_perm (n i j : nat) : list nat :=
  map (fun k => if k =? i then j else if k =? j then i else k) (seq 0 n).
Definition swapaxes (r1 r2 : axref) (a : darr) : res darr :=
  let! i := axis_info a r1 in
  let! j := axis_info a r2 in
  transpose_pos (swap_perm (List.length (axes a)) i j) a.

(* rollaxis: np.rollaxis(fake, axis, start).shape *)
Definition roll_perm (n ax start : nat) : list nat :=
  let start' := if ax <? start then start - 1 else start in
  insert_nth start' ax (remove_nth ax (seq 0 n)).
Definition rollaxis (r : axref) (start : Z) (a : darr) : res darr :=
  let n := List.length (axes a) in
  let! ax := axis_info a r in
  let s := if (start <? 0)%Z then (start + Z.of_nat n)%Z else start in
  if ((s <? 0) || (Z.of_nat n <? s))%Z then Err ValueError
  else transpose_pos (roll_perm n ax (Z.to_nat s)) a.

(* repeat(values, axis): only singleton axes; the new axis is a fresh Axis(values, name) *)
Definition repeat (k : kind) (labs : list label) (r : axref) (a : darr) : res darr :=
  let! i := axis_info a r in
  let ax := nth i (axes a) (mkaxis "" KO []) in
  if negb (alen ax =? 1) then Err ValueError
  else Ok (mkarr (set_nth i (mkaxis (aname ax) k labs) (axes a))
                 (np_repeat1 (List.length labs) i (vals a)) (attrs a)).

(* newaxis(name, values=None, pos) *)
Definition newaxis (name : string) (vals_opt : option (kind * list label)) (pos : Z) (a : darr)
  : res darr :=
  if mem_str name (dims a) then Err ValueError
  else
    let n := List.length (axes a) in
    let p := if (pos =? -1)%Z then Z.of_nat n else pos in
    if (p <? 0)%Z then Err OtherError  (* (slice(None),)*negative = () : outside the documented domain *)
    else if (Z.of_nat n <? p)%Z then Err IndexError
    else
      let q := Z.to_nat p in
      let o := mkarr (insert_nth q (mkaxis name KO [LNone]) (axes a))
                     (np_expand q (vals a)) (attrs a) in
      match vals_opt with
      | None => Ok o
      | Some (k, labs) => repeat k labs (ByPos (Z.of_nat q)) o
      end.

(* squeeze(axis=None | axis) *)
Fixpoint squeeze_all (axs : list axis) (pos : nat) (v : nd) : list axis * nd :=
  match axs with
  | [] => ([], v)
  | ax :: t =>
      if alen ax =? 1 then squeeze_all t pos (np_squeeze1 pos v)
      else let '(t', v') := squeeze_all t (S pos) v in (ax :: t', v')
  end.
Definition squeeze (r : option axref) (a : darr) : res darr :=
  match r with
  | None => let '(axs, v) := squeeze_all (axes a) 0 (vals a) in Ok (mkarr axs v (attrs a))
  | Some r =>
      let! i := axis_info a r in
      let ax := nth i (axes a) (mkaxis "" KO []) in
      if negb (alen ax =? 1) then Err ValueError
      else Ok (mkarr (remove_nth i (axes a)) (np_squeeze1 i (vals a)) (attrs a))
  end.

(* reshape(newdims) for comma-free names on arrays without grouped axes *)
Fixpoint squeeze_absent (ds : list string) (newdims : list string) (a : darr) : res darr :=
  match ds with
  | [] => Ok a
  | d :: t =>
      if mem_str d newdims then squeeze_absent t newdims a
      else let! a' := squeeze (Some (ByName d)) a in squeeze_absent t newdims a'
  end.
Fixpoint add_missing (newdims : list string) (i : nat) (a : darr) : res darr :=
  match newdims with
  | [] => Ok a
  | d :: t =>
      if mem_str d (dims a) then add_missing t (S i) a
      else let! a' := newaxis d None (Z.of_nat i) a in add_missing t (S i) a'
  end.
Definition reshape_plain (newdims : list string) (a : darr) : res darr :=
  if list_eqb String.eqb newdims (dims a) then Ok a
  else if negb (nodupb String.eqb newdims) then Err AssertionError
  else
    let! o := squeeze_absent (dims a) newdims a in
    let! o := transpose (map ByName (filter (fun d => mem_str d (dims o)) newdims)) o in
    let! o := add_missing newdims 0 o in
    if list_eqb String.eqb (dims o) newdims then Ok o else Err ValueError.

(* broadcast(other): reshape to other's dims, then repeat singleton axes *)
Fixpoint broadcast_repeat (newaxes : list axis) (o : darr) : res darr :=
  match newaxes with
  | [] => Ok o
  | nx :: t =>
      let! o := broadcast_repeat t o in   (* reversed(newaxes): last first *)
      match find_dim (dims o) (aname nx) with
      | None => Err ValueError
      | Some i =>
          let ax := nth i (axes o) (mkaxis "" KO []) in
          if (alen ax =? 1) && negb (alen nx =? 1)
          then repeat (akind nx) (alab nx) (ByName (aname nx)) o
          else Ok o
      end
  end.
Definition broadcast_with (reshape : list string -> darr -> res darr)
           (newaxes : list axis) (a : darr) : res darr :=
  let! o := reshape (map aname newaxes) a in
  broadcast_repeat newaxes o.
Definition broadcast (newaxes : list axis) (a : darr) : res darr :=
  broadcast_with reshape_plain newaxes a.
