(* core/axes.py Axis: the labels and the cached answer of is_monotonic() (Axis._monotonic), as a state
   machine over the public ways of reading and changing an Axis object. *)
From DA Require Import Prelude NDArray Array PyRT.
From DA.Model Require Import Value Reshape SliceSpec Indexing Align.
From DA.Gen Require Import axis_cache.     (* what each Axis method does to `_monotonic`: GENERATED from core/axes.py *)
Open Scope string_scope.
Open Scope nat_scope.
Open Scope list_scope.

Record cax := { cl : list label; ck : kind; cm : option bool }.

Inductive cop :=
| CQuery                                       (* ax.is_monotonic() *)
| CSetItem (i : Z) (l : label) (lk : kind)     (* ax[i] = l *)
| CSetValues (k : kind) (ls : list label)      (* ax.values = ls  (same size) *)
| CSort                                        (* ax.sort() *)
| CSlice (start stop : nat)                    (* ax = ax[start:stop] *)
| CReverse                                     (* ax = ax[::-1] *)
| CTake (idx : list Z)                         (* ax = ax.take(idx) *)
| CCopy.                                       (* ax = ax.copy() *)

Inductive cout := ONone | OBool (b : bool) | OErr (e : exn).

Definition cstep (s : cax) (o : cop) : cax * cout :=
  let t := is_monotonic_labels (cl s) in
  match o with
  | CQuery =>
      let m := g_cache_is_monotonic (cm s) t false in
      ({| cl := cl s; ck := ck s; cm := m |}, OBool (match m with Some b => b | None => false end))
  | CSetItem i l lk =>
      match py_index (List.length (cl s)) i with
      | Ok p => let ls := set_nth p l (cl s) in
                ({| cl := ls; ck := cast_kind (ck s) lk; cm := g_cache_setitem (cm s) (is_monotonic_labels ls) false |}, ONone)
      | Err e => ({| cl := cl s; ck := cast_kind (ck s) lk; cm := cm s |}, OErr e)   (* the cast precedes the failing assignment *)
      end
  | CSetValues k ls =>
      if negb (List.length ls =? List.length (cl s)) then (s, OErr ValueError)
      else ({| cl := ls; ck := k; cm := g_cache_values_setter (cm s) (is_monotonic_labels ls) false |}, ONone)
  | CSort => let ls := sort_labels (cl s) in ({| cl := ls; ck := ck s; cm := g_cache_sort (cm s) (is_monotonic_labels ls) false |}, ONone)
  | CSlice a b => ({| cl := firstn (b - a) (skipn a (cl s)); ck := ck s; cm := g_cache_getitem (cm s) t true |}, ONone)
  | CReverse => ({| cl := rev (cl s); ck := ck s; cm := g_cache_getitem (cm s) t true |}, ONone)
  | CTake idx =>
      match mapM (py_index (List.length (cl s))) idx with
      | Ok ps => ({| cl := map (nth_lab (cl s)) ps; ck := ck s; cm := g_cache_take (cm s) t false |}, ONone)
      | Err e => (s, OErr e)
      end
  | CCopy => ({| cl := cl s; ck := ck s; cm := g_cache_copy (cm s) t false |}, ONone)
  end.

Definition crun (ops : list cop) (s : cax) : cax * list cout :=
  fold_left (fun acc o => let '(s', out) := cstep (fst acc) o in (s', snd acc ++ [out])) ops (s, []).

(* the invariant: a cached answer is the right one *)
Definition cache_ok (s : cax) : Prop := cm s = None \/ cm s = Some (is_monotonic_labels (cl s)).
Definition cache_okb (s : cax) : bool :=
  match cm s with None => true | Some b => Bool.eqb b (is_monotonic_labels (cl s)) end.

(* correspondence cases: initial labels, operations, and per step the expected (labels, kind, cache, output) *)
Definition cobs := (list label * kind * option bool * cout)%type.
Definition cout_eqb (a b : cout) : bool :=
  match a, b with
  | ONone, ONone => true
  | OBool x, OBool y => Bool.eqb x y
  | OErr x, OErr y => exn_eqb x y
  | _, _ => false
  end.
Definition opt_bool_eqb (a b : option bool) : bool :=
  match a, b with None, None => true | Some x, Some y => Bool.eqb x y | _, _ => false end.
Fixpoint ccheck (s : cax) (steps : list (cop * cobs)) : bool :=
  match steps with
  | [] => true
  | (o, (ls, k, m, out)) :: t =>
      let '(s', out') := cstep s o in
      labels_eqb (cl s') ls && kind_eqb (ck s') k && opt_bool_eqb (cm s') m && cout_eqb out' out && ccheck s' t
  end.
Definition ccase := (list label * kind * list (cop * cobs))%type.
Definition ccase_run (c : ccase) : bool :=
  let '(ls, k, steps) := c in ccheck {| cl := ls; ck := k; cm := None |} steps.
Definition ccase_trace (c : ccase) : list (list label * kind * option bool * cout) :=
  let '(ls, k, steps) := c in
  snd (fold_left (fun acc p => let '(s', out) := cstep (fst acc) (fst p) in (s', snd acc ++ [(cl s', ck s', cm s', out)]))
                 steps ({| cl := ls; ck := k; cm := None |}, [])).
