(* core/axes.py Axis: the labels and the cached answer of is_monotonic() (Axis._monotonic), as a state
   machine over the public ways of reading and changing an Axis object. *)
From DA Require Import Prelude NDArray Array PyRT.
From DA.Model Require Import Value Reshape SliceSpec Indexing Align.
Open Scope string_scope.
Open Scope nat_scope.
Open Scope list_scope.

Record cax := { cl : list label; ck : kind; cm : option bool }.

Inductive cop :=
| CQuery                                       (* ax.is_monotonic() *)
| CSetItem (i : Z) (l : label) (lk : kind)     (* ax[i] = l *)
| CSetValues (k : kind) (ls : list label)      (* ax.values = ls  (same size) *)
| CSort                                        (* ax.sort() *)
| CSlice (start stop : nat)                    (* ax = ax[start:stop] *)
| CReverse                                     (* ax = ax[::-1] *)
| CTake (idx : list Z)                         (* ax = ax.take(idx) *)
| CCopy.                                       (* ax = ax.copy() *)

Inductive cout := ONone | OBool (b : bool) | OErr (e : exn).

Definition cstep (s : cax) (o : cop) : cax * cout :=
  match o with
  | CQuery =>
      match cm s with
      | Some b => (s, OBool b)
      | None => let b := is_monotonic_labels (cl s) in ({| cl := cl s; ck := ck s; cm := Some b |}, OBool b)
      end
  | CSetItem i l lk =>
      match py_index (List.length (cl s)) i with
      | Ok p => ({| cl := set_nth p l (cl s); ck := cast_kind (ck s) lk; cm := None |}, ONone)
      | Err e => ({| cl := cl s; ck := cast_kind (ck s) lk; cm := cm s |}, OErr e)   (* the cast precedes the failing assignment *)
      end
  | CSetValues k ls =>
      if negb (List.length ls =? List.length (cl s)) then (s, OErr ValueError)
      else ({| cl := ls; ck := k; cm := None |}, ONone)
  | CSort => ({| cl := sort_labels (cl s); ck := ck s; cm := None |}, ONone)
  | CSlice a b =>
      ({| cl := firstn (b - a) (skipn a (cl s)); ck := ck s;
          cm := match cm s with Some true => Some true | _ => None end |}, ONone)
  | CReverse =>
      ({| cl := rev (cl s); ck := ck s; cm := match cm s with Some true => Some true | _ => None end |}, ONone)
  | CTake idx =>
      match mapM (py_index (List.length (cl s))) idx with
      | Ok ps => ({| cl := map (nth_lab (cl s)) ps; ck := ck s; cm := None |}, ONone)
      | Err e => (s, OErr e)
      end
  | CCopy => (s, ONone)
  end.

Definition crun (ops : list cop) (s : cax) : cax * list cout :=
  fold_left (fun acc o => let '(s', out) := cstep (fst acc) o in (s', snd acc ++ [out])) ops (s, []).

(* the invariant: a cached answer is the right one *)
Definition cache_ok (s : cax) : Prop := cm s = None \/ cm s = Some (is_monotonic_labels (cl s)).
Definition cache_okb (s : cax) : bool :=
  match cm s with None => true | Some b => Bool.eqb b (is_monotonic_labels (cl s)) end.

(* correspondence cases: initial labels, operations, and per step the expected (labels, kind, cache, output) *)
Definition cobs := (list label * kind * option bool * cout)%type.
Definition cout_eqb (a b : cout) : bool :=
  match a, b with
  | ONone, ONone => true
  | OBool x, OBool y => Bool.eqb x y
  | OErr x, OErr y => exn_eqb x y
  | _, _ => false
  end.
Definition opt_bool_eqb (a b : option bool) : bool :=
  match a, b with None, None => true | Some x, Some y => Bool.eqb x y | _, _ => false end.
Fixpoint ccheck (s : cax) (steps : list (cop * cobs)) : bool :=
  match steps with
  | [] => true
  | (o, (ls, k, m, out)) :: t =>
      let '(s', out') := cstep s o in
      labels_eqb (cl s') ls && kind_eqb (ck s') k && opt_bool_eqb (cm s') m && cout_eqb out' out && ccheck s' t
  end.
Definition ccase := (list label * kind * list (cop * cobs))%type.
Definition ccase_run (c : ccase) : bool :=
  let '(ls, k, steps) := c in ccheck {| cl := ls; ck := k; cm := None |} steps.
Definition ccase_trace (c : ccase) : list (list label * kind * option bool * cout) :=
  let '(ls, k, steps) := c in
  snd (fold_left (fun acc p => let '(s', out) := cstep (fst acc) (fst p) in (s', snd acc ++ [(cl s', ck s', cm s', out)]))
                 steps ({| cl := ls; ck := k; cm := None |}, [])).
