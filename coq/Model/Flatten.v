(* core/reshape.py flatten / unflatten / reshape with grouped (comma-joined) names,
   core/axes.py MultiAxis, and the reductions over a tuple of axes (transform._deal_with_axis). *)
From Coq Require Import Qround Qabs.
From DA Require Import Prelude NDArray Array PyRT.
From DA.Model Require Import Value Reshape SliceSpec Indexing Align Transform.
Open Scope string_scope.
Open Scope nat_scope.
Open Scope list_scope.

Definition to_maxis (ax : axis) : maxis :=
  {| mname := aname ax; mkind := akind ax; mlab := alab ax; mattrs := aattrs ax |}.
Definition of_maxis (m : maxis) : axis :=
  {| aname := mname m; akind := mkind m; alab := mlab m; aattrs := mattrs m; amem := [] |}.
Definition label_atom (l : label) : res atom := match l with LAt a => Ok a | LTup _ => Err TypeError end.

(* row-major cartesian product of the member labels: meshgrid(indexing='ij') raveled and zipped *)
Fixpoint product_labels (mems : list (list atom)) : list (list atom) :=
  match mems with
  | [] => [[]]
  | l :: t => flat_map (fun x => map (cons x) (product_labels t)) l
  end.
Fixpoint join_names (l : list string) : string :=
  match l with [] => "" | [x] => x | x :: t => x ++ "," ++ join_names t end.

(* MultiAxis of the member axes *)
Definition multi_axis (mems : list axis) : res axis :=
  match mems with
  | [] => Err AssertionError
  | [m] => (* a group of one: the values are the member's own values *)
      Ok {| aname := aname m; akind := akind m; alab := alab m; aattrs := []; amem := [to_maxis m] |}
  | _ =>
      if existsb (fun m => match amem m with [] => false | _ => true end) mems then Err OtherError  (* nested groups: outside the model *)
      else
      let! atoms := mapM (fun m => mapM label_atom (alab m)) mems in
      Ok {| aname := join_names (map aname mems); akind := KO;
            alab := map LTup (product_labels atoms); aattrs := []; amem := map to_maxis mems |}
  end.

(* group the dimensions [names] (contiguous from position [ins], in that order) *)
Definition group_at (names : list string) (ins : nat) (a : darr) : res darr :=
  let k := List.length names in
  let mems := firstn k (skipn ins (axes a)) in
  let! g := multi_axis mems in
  (* the constructor (Axes.append) refuses a name that is already there *)
  if mem_str (aname g) (map aname (firstn ins (axes a) ++ skipn (ins + k) (axes a))) then Err ValueError else
  let newaxes := firstn ins (axes a) ++ [g] ++ skipn (ins + k) (axes a) in
  Ok (mkarr newaxes (np_reshape (map alen newaxes) (vals a)) (attrs a)).

(* flatten(dims, insert) *)
Definition flatten (rs : list axref) (as_set : bool) (insert : option Z) (a : darr) : res darr :=
  let! idxs := mapM (axis_info a) rs in
  let ds := dims a in
  let names0 := map (fun i => nth i ds "") idxs in
  let names := match rs with [] => ds
               | _ => if as_set then filter (fun d => mem_str d names0) ds else names0 end in
  match names with
  | [] => Err IndexError       (* dims[0] of an empty selection *)
  | d0 :: _ =>
      let n := List.length names in
      let! ii := match find_dim ds d0 with Some i => Ok i | None => Err ValueError end in
      let! ins0 := match insert with
                   | None => Ok (Z.of_nat ii)
                   | Some z => Ok z
                   end in
      let ins := Z.min ins0 (Z.of_nat (List.length ds) - Z.of_nat n) in
      if (ins <? 0)%Z then Err OtherError else   (* negative insert: outside the documented domain *)
      let ins := Z.to_nat ins in
      if list_eqb String.eqb names (firstn n (skipn ins ds)) then group_at names ins a
      else
        let others := filter (fun d => negb (mem_str d names)) ds in
        let newdims := firstn ins others ++ names ++ skipn ins others in
        let! b := transpose (map ByName newdims) a in
        group_at names ins b
  end.

(* unflatten(axis=None): expand every grouped axis *)
Fixpoint unflatten_axes (axs : list axis) : list axis :=
  match axs with
  | [] => []
  | ax :: t => match amem ax with
               | [] => ax :: unflatten_axes t
               | ms => map of_maxis ms ++ unflatten_axes t
               end
  end.
Definition unflatten (a : darr) : res darr :=
  let newaxes := unflatten_axes (axes a) in
  (* the constructor (Axes.append) refuses a member name that another dimension already has *)
  if negb (nodupb String.eqb (map aname newaxes)) then Err ValueError else
  Ok (mkarr newaxes (np_reshape (map alen newaxes) (vals a)) (attrs a)).

(* reshape(newdims) where a name may be a comma-joined group *)
Fixpoint split_commas_aux (s : string) (cur : string) : list string :=
  match s with
  | EmptyString => [cur]
  | String c t => if Ascii.eqb c ","%char then cur :: split_commas_aux t "" else split_commas_aux t (cur ++ String c "")
  end.
Definition split_commas (s : string) : list string := split_commas_aux s "".
Fixpoint group_each (newdims : list string) (i : nat) (a : darr) : res darr :=
  match newdims with
  | [] => Ok a
  | d :: t =>
      match split_commas d with
      | [_] => group_each t (S i) a
      | parts => let! a' := flatten (map ByName parts) false (Some (Z.of_nat i)) a in group_each t (S i) a'
      end
  end.
Definition reshape (newdims : list string) (a : darr) : res darr :=
  if list_eqb String.eqb newdims (dims a) then Ok a
  else if negb (nodupb String.eqb newdims) then Err AssertionError
  else
    let! o := unflatten a in
    let flat := flat_map split_commas newdims in
    if negb (nodupb String.eqb flat) then Err AssertionError else
    let! o := squeeze_absent (dims o) flat o in
    let! o := transpose (map ByName (filter (fun d => mem_str d (dims o)) flat)) o in
    let! o := add_missing flat 0 o in
    let! o := group_each newdims 0 o in
    if list_eqb String.eqb (dims o) newdims then Ok o else Err ValueError.

(* reductions over a tuple / list of axes: flatten(axis, insert=0) then reduce position 0 *)
Definition reduce_any (f : redfn) (skipna : bool) (ax : axarg) (a : darr) : res value :=
  match ax with
  | AxMany rs => let! b := flatten rs false (Some 0%Z) a in reduce_axis f skipna 0 b
  | _ => reduce f skipna ax a
  end.
