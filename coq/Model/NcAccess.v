(* io/nc.py DimArrayOnDisk: reading and assigning through the on-disk handle.  The index is resolved on
   the axes read from the file (bases.py, shared with DimArray); the values are then fetched with netCDF4's
   ORTHOGONAL indexing - every index applied to its own dimension, one dimension after the other - instead
   of NumPy's ix_ indexing of the in-memory route. *)
From Coq Require Import Qround Qabs.
From DA Require Import Prelude NDArray Array PyRT.
From DA.Model Require Import Value Reshape SliceSpec Indexing Align NcFile.
Open Scope string_scope.
Open Scope nat_scope.
Open Scope list_scope.

(* netCDF4 variable[idx_tuple]: dimension k handled after the dimensions behind it *)
Fixpoint ortho_from (k : nat) (ps : list pidx) (a : nd) : nd :=
  match ps with
  | [] => a
  | p :: t =>
      let a' := ortho_from (S k) t a in
      match p with
      | XInt i => np_squeeze1 k (np_take [i] k a')
      | XPos l => np_take l k a'
      | XFull => a'
      end
  end.
Definition nc_ortho (ps : list pidx) (a : nd) : nd := ortho_from 0 ps a.

(* DimArrayOnDisk._getitem: indices from the file's axes, values by orthogonal indexing, axes by AxisOnDisk[ix] *)
Definition ondisk_getitem (f : ncfile) (v : ncvar) (fm : form) (tol : tolv) (keepdims : bool) : res value :=
  let a := nc_read_var f v in
  let! ps := get_indices a fm tol keepdims in
  let w := nc_ortho ps (vals a) in
  if all_int ps then Ok (VCell (get w []))
  else Ok (VArr (mkarr (getaxes (axes a) ps) w (attrs a))).

(* the in-memory route on the loaded variable *)
Definition loaded_getitem (f : ncfile) (v : ncvar) (fm : form) (tol : tolv) (keepdims : bool) : res value :=
  getitem fm tol keepdims (nc_read_var f v).

(* ------------------------------------------------------------------ growing an unlimited dimension *)
(* handle[name].ix[n : n+m] = DimArray(rows, axes=[Axis(labels, d), ...]) with n the current length of the
   unlimited dimension d, the leading dimension of the variable: DimArrayOnDisk.write writes the supplied
   labels at the target positions of the coordinate variable, netCDF grows the dimension, the values follow *)
Definition set_dim (d : string) (n : nat) (f : ncfile) : ncfile :=
  {| nf_fmt3 := nf_fmt3 f; nf_dims := assoc_set d n (nf_dims f); nf_unl := nf_unl f; nf_vars := nf_vars f; nf_attrs := nf_attrs f |}.
Definition nc_append_rows (name d : string) (labs : list label) (rows : list cell) (f : ncfile) : res ncfile :=
  match assoc name (nf_vars f), assoc d (nf_vars f) with
  | Some v, Some cv =>
      if negb (mem_str d (nf_unl f)) then Err IndexError else
      match nv_dims v with
      | d' :: rest =>
          if negb (String.eqb d d') then Err OtherError else
          let m := List.length labs in
          if negb (List.length rows =? m * prod (map (dim_size f) rest)) then Err ValueError else
          let f1 := set_var name {| nv_dims := nv_dims v; nv_kind := nv_kind v; nv_data := nv_data v ++ rows; nv_attrs := nv_attrs v |} f in
          let f2 := set_var d {| nv_dims := nv_dims cv; nv_kind := nv_kind cv; nv_data := nv_data cv ++ map label_cell labs; nv_attrs := nv_attrs cv |} f1 in
          Ok (set_dim d (dim_size f d + m) f2)
      | [] => Err IndexError
      end
  | _, _ => Err KeyError
  end.

Definition grow_case := (ncfile * string * string * list (list label * list cell) * darr)%type.
Definition grow_run (f : ncfile) (name d : string) (steps : list (list label * list cell)) : res ncfile :=
  fold_left (fun acc s => let! g := acc in nc_append_rows name d (fst s) (snd s) g) steps (Ok f).
Definition grow_case_ok (c : grow_case) : bool :=
  let '(f, name, d, steps, e) := c in
  match grow_run f name d steps with
  | Ok g => match assoc name (nf_vars g) with Some v => darr_eqb (nc_read_var g v) e | None => false end
  | Err _ => false
  end.
Definition grow_case_show (c : grow_case) : res darr :=
  let '(f, name, d, steps, e) := c in
  let! g := grow_run f name d steps in
  match assoc name (nf_vars g) with Some v => Ok (nc_read_var g v) | None => Err KeyError end.

(* correspondence cases for reads through the handle *)
Definition read_case := (ncfile * string * form * tolv * bool * expect)%type.
Definition read_case_ok (c : read_case) : bool :=
  let '(f, name, fm, tol, kd, e) := c in
  match assoc name (nf_vars f) with Some v => outcome_ok (ondisk_getitem f v fm tol kd) e | None => false end.
Definition read_case_show (c : read_case) : res value :=
  let '(f, name, fm, tol, kd, e) := c in
  match assoc name (nf_vars f) with Some v => ondisk_getitem f v fm tol kd | None => Err KeyError end.
