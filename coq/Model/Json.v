(* core/dimarraycls.py to_jsondict / from_jsondict: the JSON form of an array and back. *)
From Coq Require Import Qround Qabs.
From DA Require Import Prelude NDArray Array PyRT.
From DA.Model Require Import Value Reshape.
Open Scope string_scope.
Open Scope nat_scope.
Open Scope list_scope.

(* a JSON text as Python's json module reads it: ints and floats are distinct, NaN is a token *)
Inductive json :=
| JInt (z : Q) | JFloat (q : Q) | JNaN | JBool (b : bool) | JStr (s : string) | JNull
| JList (l : list json).

(* ndarray.tolist(): row-major nesting *)
Fixpoint chunks {A} (m n : nat) (l : list A) : list (list A) :=
  match n with 0 => [] | S n' => firstn m l :: chunks m n' (skipn m l) end.
Fixpoint nest (s : list nat) (l : list json) : json :=
  match s with
  | [] => hd JNull l
  | n :: t => JList (map (nest t) (chunks (prod t) n l))
  end.
Definition cell_json (k : kind) (c : cell) : json :=
  match c with
  | CNum q => match k with KI => JInt q | _ => JFloat q end
  | CNaN => JNaN
  | CBool b => JBool b
  | CStr s => JStr s
  | CNone => JNull
  end.
Definition label_json (k : kind) (l : label) : json :=
  match l with
  | LAt (ANum q) => match k with KI => JInt q | _ => JFloat q end
  | LAt (AStr s) => JStr s
  | LAt ANone => JNull
  | LTup _ => JNull
  end.

Record jdict := { j_values : json; j_dims : list string; j_labels : list (list json); j_shape : list nat; j_meta : meta }.
Definition to_jsondict (a : darr) : jdict :=
  {| j_values := nest (sh (vals a)) (map (cell_json (kd (vals a))) (dat (vals a)));
     j_dims := dims a;
     j_labels := map (fun ax => map (label_json (akind ax)) (alab ax)) (axes a);
     j_shape := sh (vals a);
     j_meta := attrs a |}.

(* np.array(nested lists): shape by the first elements, leaves in order *)
Fixpoint jshape (j : json) : list nat :=
  match j with
  | JList l => List.length l :: match l with x :: _ => jshape x | [] => [] end
  | _ => []
  end.
Fixpoint jleaves (j : json) : list json :=
  match j with
  | JList l => (fix go (l : list json) : list json := match l with [] => [] | x :: t => jleaves x ++ go t end) l
  | x => [x]
  end.
(* the dtype numpy infers *)
Definition is_jbool (j : json) := match j with JBool _ => true | _ => false end.
Definition is_jint (j : json) := match j with JInt _ => true | _ => false end.
Definition is_jnum (j : json) := match j with JInt _ | JFloat _ | JNaN => true | _ => false end.
Definition infer_kind (l : list json) : kind :=
  match l with
  | [] => KF
  | _ => if forallb is_jbool l then KB else if forallb is_jint l then KI else if forallb is_jnum l then KF else KO
  end.
Definition json_cell (j : json) : cell :=
  match j with JInt q | JFloat q => CNum q | JNaN => CNaN | JBool b => CBool b | JStr s => CStr s | _ => CNone end.
Definition json_label (j : json) : label :=
  match j with JInt q | JFloat q => LNum q | JStr s => LStr s | _ => LNone end.

(* from_jsondict: DimArray(values, axes=labels, dims=dims) + metadata; the recorded shape is used for empty arrays *)
Definition from_jsondict (d : jdict) : res darr :=
  let leaves := jleaves (j_values d) in
  let s := match leaves with [] => j_shape d | _ => jshape (j_values d) end in
  let v := {| sh := s; dat := map json_cell leaves; kd := infer_kind leaves |} in
  if negb (List.length (j_dims d) =? List.length (j_labels d)) then Err AssertionError else
  let axs := map (fun p => mkaxis (fst p) (match infer_kind (snd p) with KO => KO | k => k end) (map json_label (snd p)))
                 (combine (j_dims d) (j_labels d)) in
  let! a := construct axs v [] in
  Ok (mkarr (axes a) (vals a) (j_meta d)).

Definition json_roundtrip (a : darr) : res darr := from_jsondict (to_jsondict a).

(* correspondence: the array read back, compared as the implementation's observation *)
Definition jcase := (darr * expect)%type.
Definition jcase_ok (c : jcase) : bool := outcome_ok (let! r := json_roundtrip (fst c) in Ok (VArr r)) (snd c).
Definition jcase_show (c : jcase) : res darr := json_roundtrip (fst c).
