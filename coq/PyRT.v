(* Runtime of the Python-to-Gallina translation (harness/py2coq.py): a dynamic
   embedding of the Python values that the translated functions manipulate, with
   total operators returning [res] ([Err TypeError] where Python raises), and the
   vocabulary of NumPy calls that the translated functions use. *)
From Coq Require Import Qabs.
From DA Require Import Prelude NDArray Array.
Open Scope string_scope.
Open Scope Z_scope.

Inductive pv :=
| PNone
| PBool (b : bool)
| PInt (z : Z)
| PNum (q : Q)            (* Python float / numpy floating *)
| PStr (s : string)
| PArr (k : kind) (l : list pv)     (* 1-d ndarray (0-d when produced by np.asarray of a scalar) *)
| PTuple (l : list pv)
| PFun (name : string).             (* np.greater & co, passed as arguments *)

Definition py_is_none (v : pv) : bool := match v with PNone => true | _ => false end.

Definition py_num (v : pv) : option Q :=
  match v with
  | PBool b => Some (if b then 1%Q else 0%Q)
  | PInt z => Some (inject_Z z)
  | PNum q => Some q
  | _ => None
  end.
Definition is_intlike (v : pv) : option Z :=
  match v with PBool b => Some (if b then 1 else 0) | PInt z => Some z | _ => None end.

Inductive cmpop := CLt | CLe | CGt | CGe | CEq | CNe.

Definition cmp_q (o : cmpop) (a b : Q) : bool :=
  match o with
  | CLt => negb (Qle_bool b a) | CLe => Qle_bool a b
  | CGt => negb (Qle_bool a b) | CGe => Qle_bool b a
  | CEq => Qeq_bool a b | CNe => negb (Qeq_bool a b)
  end.
Definition cmp_s (o : cmpop) (a b : string) : bool :=
  match o with
  | CLt => negb (str_le b a) | CLe => str_le a b
  | CGt => negb (str_le a b) | CGe => str_le b a
  | CEq => String.eqb a b | CNe => negb (String.eqb a b)
  end.
(* scalar comparison *)
Definition cmp_scalar (o : cmpop) (a b : pv) : res bool :=
  match py_num a, py_num b with
  | Some x, Some y => Ok (cmp_q o x y)
  | _, _ =>
    match a, b with
    | PStr s, PStr t => Ok (cmp_s o s t)
    | _, _ =>
      match o with
      | CEq => Ok (match a, b with PNone, PNone => true | _, _ => false end)
      | CNe => Ok (match a, b with PNone, PNone => false | _, _ => true end)
      | _ => Err TypeError
      end
    end
  end.
Definition py_cmp (o : cmpop) (a b : pv) : res pv :=
  match a, b with
  | PArr _ xs, PArr _ ys =>
      if (List.length xs =? List.length ys)%nat
      then let! l := mapM (fun p => let! r := cmp_scalar o (fst p) (snd p) in Ok (PBool r)) (combine xs ys)
           in Ok (PArr KB l)
      else Err ValueError
  | PArr _ xs, _ => let! l := mapM (fun x => let! r := cmp_scalar o x b in Ok (PBool r)) xs in Ok (PArr KB l)
  | _, PArr _ ys => let! l := mapM (fun y => let! r := cmp_scalar o a y in Ok (PBool r)) ys in Ok (PArr KB l)
  | _, _ => let! r := cmp_scalar o a b in Ok (PBool r)
  end.

Definition truthy (v : pv) : res bool :=
  match v with
  | PNone => Ok false
  | PBool b => Ok b
  | PInt z => Ok (negb (z =? 0))
  | PNum q => Ok (negb (Qeq_bool q 0))
  | PStr s => Ok (negb (String.eqb s ""))
  | PTuple l => Ok (match l with [] => false | _ => true end)
  | PArr _ [PBool b] => Ok b
  | PArr _ [PInt z] => Ok (negb (z =? 0))
  | PArr _ _ => Err ValueError
  | PFun _ => Ok true
  end.

Inductive arith := AAdd | ASub | AMul.
Definition py_arith (o : arith) (a b : pv) : res pv :=
  match is_intlike a, is_intlike b with
  | Some x, Some y => Ok (PInt (match o with AAdd => x + y | ASub => x - y | AMul => x * y end))
  | _, _ =>
    match py_num a, py_num b with
    | Some x, Some y => Ok (PNum (match o with AAdd => x + y | ASub => x - y | AMul => x * y end)%Q)
    | _, _ => Err TypeError
    end
  end.
Definition py_neg (a : pv) : res pv :=
  match a with
  | PInt z => Ok (PInt (- z)) | PBool b => Ok (PInt (if b then -1 else 0))
  | PNum q => Ok (PNum (- q)%Q) | _ => Err TypeError
  end.
Definition py_not (a : pv) : res pv := let! b := truthy a in Ok (PBool (negb b)).

Definition py_in (x : pv) (c : pv) : res pv :=
  match c with
  | PTuple l | PArr _ l =>
      let! bs := mapM (fun y => cmp_scalar CEq x y) l in Ok (PBool (existsb (fun b => b) bs))
  | _ => Err TypeError
  end.

(* Python's slice.indices(n): (start, stop, step) with negative-index wrapping and clamping *)
Definition py_slice_indices (start stop step : option Z) (n : Z) : res (Z * Z * Z) :=
  let st := match step with None => 1 | Some s => s end in
  if st =? 0 then Err ValueError else
  let lower := if st <? 0 then -1 else 0 in
  let upper := if st <? 0 then n - 1 else n in
  let clampv := fun v => let v := if v <? 0 then Z.max (v + n) lower else Z.min v upper in v in
  let s := match start with None => if st <? 0 then upper else lower | Some v => clampv v end in
  let e := match stop with None => if st <? 0 then lower else upper | Some v => clampv v end in
  Ok (s, e, st).
(* the positions range(start, stop, step) *)
Fixpoint range_fuel (fuel : nat) (s e st : Z) : list Z :=
  match fuel with
  | O => []
  | S f => if (if 0 <? st then s <? e else e <? s) then s :: range_fuel f (s + st) e st else []
  end.
Definition py_range (s e st : Z) : list Z := range_fuel (Z.to_nat (Z.abs (e - s)) + 1) s e st.
Definition slice_positions (start stop step : option Z) (n : nat) : res (list nat) :=
  let! (s, e, st) := py_slice_indices start stop step (Z.of_nat n) in
  Ok (map Z.to_nat (py_range s e st)).

Definition as_list (v : pv) : res (kind * list pv) :=
  match v with PArr k l => Ok (k, l) | PTuple l => Ok (KO, l) | _ => Err TypeError end.

Definition py_getitem (v : pv) (i : Z) : res pv :=
  let! (_, l) := as_list v in
  let n := Z.of_nat (List.length l) in
  let j := if i <? 0 then i + n else i in
  if (j <? 0) || (n <=? j) then Err IndexError else Ok (nth (Z.to_nat j) l PNone).
Definition py_getslice (v : pv) (a b c : option Z) : res pv :=
  match v with
  | PArr k l => let! ps := slice_positions a b c (List.length l) in
                Ok (PArr k (map (fun p => nth p l PNone) ps))
  | PTuple l => let! ps := slice_positions a b c (List.length l) in
                Ok (PTuple (map (fun p => nth p l PNone) ps))
  | _ => Err TypeError
  end.

Definition kind_str (k : kind) : string :=
  match k with KB => "b" | KI => "i" | KF => "f" | KO => "O" | KU => "U" | KS => "S" end.
Definition scalar_kind (v : pv) : kind :=
  match v with PBool _ => KB | PInt _ => KI | PNum _ => KF | PStr _ => KU | _ => KO end.

Definition py_attr (v : pv) (name : string) : res pv :=
  match v, name with
  | PArr _ l, "size" => Ok (PInt (Z.of_nat (List.length l)))
  | PArr k _, "dtype.kind" => Ok (PStr (kind_str k))
  | PStr s, "kind" => Ok (PStr s)        (* a dtype object is represented by its kind *)
  | _, _ => Err AttributeError
  end.

(* ---------------------------------------------------------------- numpy vocabulary *)
Definition np_asarray (v : pv) : res pv :=
  match v with
  | PArr _ _ => Ok v
  | PTuple l => Ok (PArr (match l with x :: _ => scalar_kind x | [] => KF end) l)
  | _ => Ok (PArr (scalar_kind v) [v])
  end.
(* np.asarray(values, dtype=...) : only the kind changes in this model *)
Definition np_asarray_dtype (v : pv) (k : kind) : res pv :=
  let! (_, l) := as_list v in Ok (PArr k l).
Definition np_all (v : pv) : res pv :=
  match v with
  | PArr _ l => let! bs := mapM truthy l in Ok (PBool (forallb (fun b => b) bs))
  | _ => let! b := truthy v in Ok (PBool b)
  end.
(* np.searchsorted by its contract on a sorted array: number of elements < v (left), <= v (right) *)
Definition count_where (o : cmpop) (xs : list pv) (v : pv) : res Z :=
  let! bs := mapM (fun x => cmp_scalar o x v) xs in
  Ok (Z.of_nat (List.length (filter (fun b => b) bs))).
Definition np_searchsorted (a v side : pv) : res pv :=
  let! (_, xs) := as_list a in
  match side with
  | PStr "left" => let! n := count_where CLt xs v in Ok (PInt n)
  | PStr "right" => let! n := count_where CLe xs v in Ok (PInt n)
  | _ => Err ValueError
  end.
Definition py_call (f : pv) (args : list pv) : res pv :=
  match f, args with
  | PFun "greater", [a; b] => py_cmp CGt a b
  | PFun "greater_equal", [a; b] => py_cmp CGe a b
  | PFun "less", [a; b] => py_cmp CLt a b
  | PFun "less_equal", [a; b] => py_cmp CLe a b
  | _, _ => Err TypeError
  end.

(* ---------------------------------------------------------------- hand-modelled callee *)
(* indexing.locate_one (it contains try/except, which the translator refuses) *)
Fixpoint first_match (xs : list pv) (v : pv) (i : Z) : res pv :=
  match xs with
  | [] => Err IndexError
  | x :: t => let! b := cmp_scalar CEq x v in if b then Ok (PInt i) else first_match t v (i + 1)
  end.
Fixpoint argmin_q (l : list Q) (i best : nat) (bq : Q) : nat :=
  match l with
  | [] => best
  | q :: t => if negb (Qle_bool bq q) then argmin_q t (S i) i q else argmin_q t (S i) best bq
  end.
Inductive tolv := TolNone | TolInf | TolQ (q : Q).
Definition locate_tol (xs : list pv) (v : pv) (tol : tolv) : res pv :=
  match xs with [] => Err IndexError | _ =>
  match py_num v with
  | None => Err TypeError
  | Some qv =>
    let! ds := mapM (fun x => match py_num x with Some q => Ok (Qabs (q - qv)) | None => Err TypeError end) xs in
    match ds with
    | [] => Err IndexError     (* an empty axis: nothing is near *)
    | d0 :: t =>
      let m := argmin_q t 1 0 d0 in
      let dm := nth m ds 0%Q in
      match tol with
      | TolQ q => if negb (Qle_bool dm q) then Err IndexError else Ok (PInt (Z.of_nat m))
      | _ => Ok (PInt (Z.of_nat m))
      end
    end
  end end.
Definition h_locate_one (values val issorted tol side : pv) : res pv :=
  let! (_, xs) := as_list values in
  match tol with
  | PNone =>
      let! s := truthy issorted in
      if s then np_searchsorted values val side else first_match xs val 0
  | PNum q => locate_tol xs val (TolQ q)
  | PInt z => locate_tol xs val (TolQ (inject_Z z))
  | PStr "inf" => locate_tol xs val TolInf
  | _ => Err TypeError
  end.
