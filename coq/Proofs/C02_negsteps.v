(* C02: label slices with ANY negative step: every |s|-th position of the bounding box, counted from its LAST
   position, in reverse axis order (unbounded in the axis, the bounds and the step). *)
From DA Require Import Prelude NDArray Array PyRT.
From DA.Gen Require Import locate_slice.
From DA.Model Require Import SliceSpec.
From DA.Proofs Require Import ListLemmas C02_proofs C02_decreasing C02_negstep C02_step.
From Coq Require Import Sorted.

(* range(s, e, st) for st < 0 is s, s + st, ..., m terms *)
Lemma range_fuel_neg m : forall fuel s e st,
  (st < 0)%Z -> (m <= fuel)%nat ->
  (s - e <= Z.of_nat m * (- st))%Z -> ((0 < m)%nat -> ((Z.of_nat m - 1) * (- st) < s - e)%Z) ->
  range_fuel fuel s e st = map (fun j => s + Z.of_nat j * st)%Z (seq 0 m).
Proof.
  induction m as [|m IH]; intros fuel s e st Hst Hf Hup Hlo.
  - destruct fuel as [|f]; [reflexivity|]. cbn [range_fuel seq map].
    replace (0 <? st)%Z with false by (symmetry; apply Z.ltb_ge; lia).
    replace (e <? s)%Z with false by (symmetry; apply Z.ltb_ge; lia). reflexivity.
  - destruct fuel as [|f]; [lia|]. cbn [range_fuel].
    replace (0 <? st)%Z with false by (symmetry; apply Z.ltb_ge; lia).
    assert (Hm : (0 <= Z.of_nat m * (- st))%Z) by (apply Z.mul_nonneg_nonneg; lia).
    specialize (Hlo ltac:(lia)).
    replace (Z.of_nat (S m) - 1)%Z with (Z.of_nat m) in Hlo by lia.
    replace (e <? s)%Z with true by (symmetry; apply Z.ltb_lt; lia).
    cbn [seq map]. f_equal; [lia|].
    rewrite (IH f (s + st)%Z e st Hst ltac:(lia)).
    + rewrite <- seq_shift, map_map. apply map_ext. intros j.
      replace (Z.of_nat (S j)) with (Z.of_nat j + 1)%Z by lia. ring.
    + replace (Z.of_nat (S m)) with (Z.of_nat m + 1)%Z in Hup by lia.
      rewrite Z.mul_add_distr_r in Hup. lia.
    + intros Hpos. rewrite Z.mul_sub_distr_r. lia.
Qed.

(* the positions b-1, b-1-|st|, ... above a *)
Definition down_positions (a b : nat) (st : Z) : list nat :=
  map (fun j => (b - 1) - j * Z.to_nat (- st))%nat (seq 0 (step_count a b (- st))).

Theorem slice_positions_neg_step a b st n :
  (a <= n)%nat -> (b <= n)%nat -> (st < 0)%Z ->
  (let '(sa, sb) := bounds_neg (Some (Z.of_nat b)) (Some (Z.of_nat a)) in slice_positions sa sb (Some st) n)
  = Ok (down_positions a b st).
Proof.
  intros Ha Hb Hst. unfold bounds_neg, stop_neg, down_positions.
  destruct b as [|b'].
  - cbn [Z.of_nat Z.sub Z.add Z.opp Z.ltb Z.compare Z.pos_sub].
    assert (Hm0 : step_count a 0 (- st) = 0%nat).
    { unfold step_count. simpl (0 - a)%nat. cbn [Z.of_nat]. rewrite Z.div_small by lia. reflexivity. }
    rewrite Hm0. cbn [seq map].
    unfold slice_positions, py_slice_indices.
    replace (st =? 0)%Z with false by (symmetry; apply Z.eqb_neq; lia).
    replace (st <? 0)%Z with true by (symmetry; apply Z.ltb_lt; lia).
    cbn [Z.ltb Z.compare]. cbn [bind].
    f_equal. unfold py_range. set (z := Z.min 0 (Z.of_nat n - 1)).
    destruct (Z.to_nat (Z.abs (z - z)) + 1)%nat; [reflexivity|]. cbn [range_fuel].
    replace (0 <? st)%Z with false by (symmetry; apply Z.ltb_ge; lia).
    rewrite Z.ltb_irrefl. reflexivity.
  - replace (Z.of_nat (S b') - 1 <? 0)%Z with false by (symmetry; apply Z.ltb_ge; lia).
    unfold slice_positions, py_slice_indices.
    replace (st =? 0)%Z with false by (symmetry; apply Z.eqb_neq; lia).
    replace (st <? 0)%Z with true by (symmetry; apply Z.ltb_lt; lia).
    replace (Z.of_nat (S b') - 1 <? 0)%Z with false by (symmetry; apply Z.ltb_ge; lia).
    rewrite Z.min_l by lia.
    assert (He : (match (if (Z.of_nat a =? 0)%Z then None else Some (Z.of_nat a - 1)%Z) with
                  | Some v => if (v <? 0)%Z then Z.max (v + Z.of_nat n) (-1) else Z.min v (Z.of_nat n - 1)
                  | None => (-1)%Z end) = (Z.of_nat a - 1)%Z).
    { destruct (Z.eqb_spec (Z.of_nat a) 0) as [E|E]; [lia|].
      replace (Z.of_nat a - 1 <? 0)%Z with false by (symmetry; apply Z.ltb_ge; lia). lia. }
    rewrite He. cbn [bind]. f_equal. unfold py_range.
    set (p := (- st)%Z). assert (Hp : (0 < p)%Z) by (unfold p; lia).
    set (m := step_count a (S b') p).
    assert (Hq : (Z.of_nat (S b' - a) <= Z.of_nat m * p /\ ((0 < m)%nat -> (Z.of_nat m - 1) * p < Z.of_nat (S b' - a)))%Z).
    { unfold m, step_count. set (d := Z.of_nat (S b' - a)). assert (0 <= d)%Z by lia.
      pose proof (Z.div_mod (d + p - 1) p ltac:(lia)) as Hdm.
      pose proof (Z.mod_pos_bound (d + p - 1) p Hp) as Hr.
      set (q := ((d + p - 1) / p)%Z) in *. set (r := ((d + p - 1) mod p)%Z) in *.
      assert (0 <= q)%Z by (apply Z.div_pos; lia).
      rewrite Z2Nat.id by lia. rewrite (Z.mul_comm q p). split; [lia|].
      intros _. rewrite Z.mul_sub_distr_r. rewrite (Z.mul_comm q p). lia. }
    destruct Hq as [Hq1 Hq2].
    destruct (le_lt_dec a (S b')) as [Hab|Hab].
    + rewrite (range_fuel_neg m); [| exact Hst | | fold p; lia | fold p; intros Hpm; specialize (Hq2 Hpm); lia].
      * rewrite map_map. apply map_ext_in. intros j Hj. apply in_seq in Hj.
        assert (Hjm : (Z.of_nat j <= Z.of_nat m - 1)%Z) by lia.
        assert (Hjp : (Z.of_nat j * p <= (Z.of_nat m - 1) * p)%Z) by (apply Z.mul_le_mono_nonneg_r; lia).
        specialize (Hq2 ltac:(lia)).
        assert (Hn : Z.of_nat (j * Z.to_nat p) = (Z.of_nat j * p)%Z) by (rewrite Nat2Z.inj_mul, Z2Nat.id by lia; reflexivity).
        replace (Z.of_nat j * st)%Z with (- (Z.of_nat j * p))%Z by (unfold p; ring).
        lia.
      * destruct m as [|m']; [lia|]. specialize (Hq2 ltac:(lia)).
        assert ((Z.of_nat (S m') - 1) <= (Z.of_nat (S m') - 1) * p)%Z by nia. lia.
    + assert (Hm0 : m = 0%nat).
      { unfold m, step_count. replace (S b' - a)%nat with 0%nat by lia. cbn [Z.of_nat].
        rewrite Z.div_small by lia. reflexivity. }
      rewrite Hm0. cbn [seq map].
      destruct (Z.to_nat _ + 1)%nat; [reflexivity|]. cbn [range_fuel].
      replace (0 <? st)%Z with false by (symmetry; apply Z.ltb_ge; lia).
      replace (Z.of_nat a - 1 <? Z.of_nat (S b') - 1)%Z with false by (symmetry; apply Z.ltb_ge; lia). reflexivity.
Qed.

(* membership: exactly the positions of [a, b) at a multiple of |st| below the last one, b - 1 *)
Lemma in_down_positions a b st i :
  (st < 0)%Z ->
  In i (down_positions a b st)
  <-> (a <= i < b)%nat /\ exists j, (i + j * Z.to_nat (- st) = b - 1)%nat.
Proof.
  intros Hst. unfold down_positions. rewrite in_map_iff. unfold step_count.
  set (p := (- st)%Z). assert (Hp : (0 < p)%Z) by (unfold p; lia).
  set (d := Z.of_nat (b - a)). set (s := Z.to_nat p). assert (Hs : (0 < s)%nat) by (unfold s; lia).
  assert (Hsz : Z.of_nat s = p) by (unfold s; lia).
  pose proof (Z.div_mod (d + p - 1) p ltac:(lia)) as Hdm.
  pose proof (Z.mod_pos_bound (d + p - 1) p Hp) as Hr.
  assert (Hq0 : (0 <= (d + p - 1) / p)%Z) by (apply Z.div_pos; lia).
  set (q := ((d + p - 1) / p)%Z) in *. set (r := ((d + p - 1) mod p)%Z) in *.
  split.
  - intros [j [Hj Hin]]. apply in_seq in Hin.
    assert (Hjq : (Z.of_nat j + 1 <= q)%Z) by lia.
    assert (p * (Z.of_nat j + 1) <= p * q)%Z by (apply Z.mul_le_mono_nonneg_l; lia).
    assert (Z.of_nat (j * s) = Z.of_nat j * p)%Z by (rewrite Nat2Z.inj_mul, Hsz; reflexivity).
    assert (Z.of_nat j * p < d)%Z by lia. unfold d in *.
    split; [lia|]. exists j. lia.
  - intros [[Hai Hib] [j Hj]]. exists j. split; [lia|]. apply in_seq. split; [lia|].
    cbn [plus]. assert (Z.of_nat (j * s) = Z.of_nat j * p)%Z by (rewrite Nat2Z.inj_mul, Hsz; reflexivity).
    assert (Z.of_nat j * p < d)%Z by (unfold d; lia).
    assert (Z.of_nat j < q)%Z.
    { destruct (Z_lt_le_dec (Z.of_nat j) q) as [|Hge]; [assumption|exfalso].
      assert (p * q <= p * Z.of_nat j)%Z by (apply Z.mul_le_mono_nonneg_l; lia). lia. }
    lia.
Qed.

(* end to end: a[lo:hi:s], s < 0, on an increasing axis (lo is the LARGER bound) *)
Theorem bbox_slice_negstep_increasing k xs lo hi s :
  (k = KI \/ k = KF) ->
  g_is_monotonic_equal (arrQ k xs) = Ok (PBool true) ->
  axis_increasing xs = true ->
  StronglySorted Qlt xs ->
  (s < 0)%Z ->
  exists b ps,
    run_slice (arrQ k xs) (PNum lo) (PNum hi) (Some s) (List.length xs) = Ok ps /\
    (forall i, (b <= i < List.length xs)%nat -> ~ (nth i xs 0 <= lo)%Q) /\
    forall i, In i ps <->
              (i < List.length xs)%nat /\ (hi <= nth i xs 0 /\ nth i xs 0 <= lo)%Q /\
              exists j, (i + j * Z.to_nat (- s) = b - 1)%nat.
Proof.
  intros Hk Hm Hinc Hs Hneg.
  exists (count_le lo xs), (down_positions (count_lt hi xs) (count_le lo xs) s).
  split; [|split].
  - unfold run_slice. change (PNum lo) with (optQ (Some lo)). change (PNum hi) with (optQ (Some hi)).
    rewrite (bridge_neg_inc k xs (Some lo) (Some hi) s Hk Hm Hinc Hneg).
    cbn [bind option_map].
    pose proof (slice_positions_neg_step (count_lt hi xs) (count_le lo xs) s (List.length xs)
                  (count_lt_le_length hi xs) (count_le_le_length lo xs) Hneg) as H.
    destruct (bounds_neg _ _) as [sa sb]. exact H.
  - intros i [Hbi Hin] Hle. pose proof (sorted_count_le lo xs i Hs Hin) as H2. apply H2 in Hle. lia.
  - intros i. rewrite in_down_positions by exact Hneg. split.
    + intros [Hi Hj]. pose proof (count_le_le_length lo xs) as Hb.
      assert (Hin : (i < List.length xs)%nat) by lia. split; [exact Hin|]. split; [|exact Hj].
      apply (bbox_increasing xs hi lo i Hs Hin). lia.
    + intros [Hin [Hbox Hj]]. split; [|exact Hj]. apply (bbox_increasing xs hi lo i Hs Hin) in Hbox. lia.
Qed.

(* ... and on a decreasing axis (lo is the SMALLER bound) *)
Theorem bbox_slice_negstep_decreasing k xs lo hi s :
  (k = KI \/ k = KF) ->
  g_is_monotonic_equal (arrQ k xs) = Ok (PBool true) ->
  axis_increasing xs = false ->
  StronglySorted Qgt' xs ->
  (s < 0)%Z ->
  exists b ps,
    run_slice (arrQ k xs) (PNum lo) (PNum hi) (Some s) (List.length xs) = Ok ps /\
    (forall i, (b <= i < List.length xs)%nat -> ~ (lo <= nth i xs 0 /\ nth i xs 0 <= hi)%Q) /\
    forall i, In i ps <->
              (i < List.length xs)%nat /\ (lo <= nth i xs 0 /\ nth i xs 0 <= hi)%Q /\
              exists j, (i + j * Z.to_nat (- s) = b - 1)%nat.
Proof.
  intros Hk Hm Hinc Hs Hneg. set (n := List.length xs).
  pose proof (count_le_le_length hi xs) as L1. pose proof (count_lt_le_length lo xs) as L2. fold n in L1, L2.
  exists (n - count_lt lo xs)%nat, (down_positions (n - count_le hi xs) (n - count_lt lo xs) s).
  split; [|split].
  - unfold run_slice. change (PNum lo) with (optQ (Some lo)). change (PNum hi) with (optQ (Some hi)).
    rewrite (bridge_neg_dec k xs (Some lo) (Some hi) s Hk Hm Hinc Hneg).
    cbn [bind option_map]. fold n.
    replace (Z.of_nat n - Z.of_nat (count_lt lo xs))%Z with (Z.of_nat (n - count_lt lo xs)) by lia.
    replace (Z.of_nat n - Z.of_nat (count_le hi xs))%Z with (Z.of_nat (n - count_le hi xs)) by lia.
    pose proof (slice_positions_neg_step (n - count_le hi xs) (n - count_lt lo xs) s n ltac:(lia) ltac:(lia) Hneg) as H.
    destruct (bounds_neg _ _) as [sa sb]. exact H.
  - intros i [Hbi Hin] Hbox. apply (bbox_decreasing xs hi lo i Hs Hin) in Hbox. fold n in Hbox. lia.
  - intros i. rewrite in_down_positions by exact Hneg. split.
    + intros [Hi Hj]. assert (Hin : (i < n)%nat) by lia. split; [exact Hin|]. split; [|exact Hj].
      apply (bbox_decreasing xs hi lo i Hs Hin). fold n. lia.
    + intros [Hin [Hbox Hj]]. split; [|exact Hj]. apply (bbox_decreasing xs hi lo i Hs Hin) in Hbox. fold n in Hbox. lia.
Qed.
