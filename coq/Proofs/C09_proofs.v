(* C09: cumulative, difference and arg-extremum operations keep axis bookkeeping right. *)
From Coq Require Import Qround Qabs.
From DA Require Import Prelude NDArray Array PyRT.
From DA.Model Require Import Value Reshape SliceSpec Indexing Align Transform.
From DA.Proofs Require Import ListLemmas C10_proofs.
Open Scope nat_scope.

Lemma get_along k m f i v c :
  inb (set_nth i m (sh v)) c = true ->
  get (np_along k m f i v) c = nth (nth i c 0) (f (fibre v i (remove_nth i c))) CNaN.
Proof. intros H. unfold np_along. rewrite get_mk by exact H. reflexivity. Qed.

(* ------------------------------------------------------------------ cumsum / cumprod *)
Theorem cumulative_spec prod skipna r a res :
  wf_shape a -> cumulative prod skipna r a = Ok res ->
  exists i, axis_info a r = Ok i /\
    axes res = axes a /\ attrs res = attrs a /\ sh (vals res) = sh (vals a) /\
    forall c, inb (sh (vals a)) c = true ->
      get (vals res) c = nth (nth i c 0) (cum_fibre prod skipna (fibre (vals a) i (remove_nth i c))) CNaN.
Proof.
  intros [Hsa Hda]. unfold cumulative. destruct (axis_info a r) as [i|] eqn:Ei; simpl; [|discriminate].
  intros [= <-]. exists i. split; [reflexivity|]. simpl. split; [reflexivity|]. split; [reflexivity|].
  assert (Hs : set_nth i (nth i (sh (vals a)) 0) (sh (vals a)) = sh (vals a)) by apply set_nth_same.
  split; [exact Hs|]. intros c Hc. apply get_along. rewrite Hs. exact Hc.
Qed.

(* on a NaN-free fibre the k-th cumulative value is the fold over the first k+1 values *)
Lemma scan_nth f u l acc k :
  (forall c, In c l -> exists q, c = CNum q) -> k < List.length l ->
  nth k (scan f acc false false u l) CNaN = CNum (fold_left f (qs (firstn (S k) l)) acc).
Proof.
  revert acc k; induction l as [|c l IH]; intros acc k Hall Hk; simpl in Hk; [lia|].
  destruct (Hall c (or_introl eq_refl)) as [q ->]. simpl scan. destruct k as [|k].
  - simpl. reflexivity.
  - simpl nth. rewrite IH; [|intros c Hc; apply Hall; right; exact Hc | lia]. reflexivity.
Qed.
Theorem cumsum_prefix l k :
  (forall c, In c l -> exists q, c = CNum q) -> k < List.length l ->
  nth k (cum_fibre false false l) CNaN = CNum (qsum (qs (firstn (S k) l))).
Proof. intros. unfold cum_fibre, qsum. apply scan_nth; assumption. Qed.
Theorem cumprod_prefix l k :
  (forall c, In c l -> exists q, c = CNum q) -> k < List.length l ->
  nth k (cum_fibre true false l) CNaN = CNum (qprod (qs (firstn (S k) l))).
Proof. intros. unfold cum_fibre, qprod. apply scan_nth; assumption. Qed.

(* ------------------------------------------------------------------ diff *)
Lemma diff_fibre_nth l k :
  S k < List.length l -> nth k (diff_fibre l) CNaN = diff_cell (nth k l CNaN) (nth (S k) l CNaN).
Proof.
  revert k; induction l as [|x l IH]; intros k Hk; simpl in Hk; [lia|].
  destruct l as [|y l]; [simpl in Hk; lia|]. destruct k as [|k]; [reflexivity|].
  change (diff_fibre (x :: y :: l)) with (diff_cell x y :: diff_fibre (y :: l)). simpl nth at 1.
  rewrite IH by (simpl in *; lia). reflexivity.
Qed.
Lemma diff_fibre_length l : List.length (diff_fibre l) = List.length l - 1.
Proof.
  induction l as [|x l IH]; [reflexivity|]. destruct l as [|y l]; [reflexivity|].
  change (diff_fibre (x :: y :: l)) with (diff_cell x y :: diff_fibre (y :: l)). cbn [List.length]. rewrite IH. cbn [List.length]. lia.
Qed.

(* one differencing step without keepaxis: the axis loses its first (backward) or last (forward)
   label, the others are untouched, and each value is the difference of two adjacent cells *)
Theorem diff1_spec sc i a res :
  wf_shape a -> i < List.length (axes a) -> sc <> Centered ->
  diff1 sc false i a = Ok res ->
  let ax := nth i (axes a) dax0 in
  attrs res = attrs a /\
  axes res = set_nth i (with_labels ax (akind ax)
                          (match sc with Backward => tl (alab ax) | _ => removelast (alab ax) end)) (axes a) /\
  sh (vals res) = set_nth i (alen ax - 1) (sh (vals a)) /\
  forall c, inb (sh (vals res)) c = true ->
    get (vals res) c = nth (nth i c 0) (diff_fibre (fibre (vals a) i (remove_nth i c))) CNaN.
Proof.
  intros [Hsa Hda] Hi Hsc. unfold diff1. destruct sc; try congruence; cbv zeta; intros [= <-]; simpl;
  (split; [reflexivity|]; split; [reflexivity|]; split; [reflexivity|];
   intros c Hc; apply get_along; exact Hc).
Qed.

(* keepaxis: same axes, NaN padded in front (backward) or at the end (forward) *)
Theorem diff1_keepaxis sc i a res :
  wf_shape a -> sc <> Centered -> diff1 sc true i a = Ok res ->
  axes res = axes a /\ attrs res = attrs a /\
  forall c, inb (sh (vals res)) c = true ->
    get (vals res) c =
    nth (nth i c 0) (pad_num (kd (vals a))
                    (match sc with
                     | Backward => CNaN :: diff_fibre (fibre (vals a) i (remove_nth i c))
                     | _ => diff_fibre (fibre (vals a) i (remove_nth i c)) ++ [CNaN] end)) CNaN.
Proof.
  intros Hwf Hsc. unfold diff1. destruct sc; try congruence; cbv zeta;
  destruct (alen (nth i (axes a) dax0) =? 0); try discriminate; intros [= <-]; simpl;
  (split; [reflexivity|]; split; [reflexivity|]; intros c Hc; apply get_along; exact Hc).
Qed.

(* centered: the new labels are the successive midpoints *)
Lemma midpoints_spec ls ms :
  midpoints ls = Ok ms ->
  List.length ms = List.length ls - 1 /\
  forall k a b, nth k ls LNone = LNum a -> nth (S k) ls LNone = LNum b -> S k < List.length ls ->
    nth k ms LNone = LNum ((a + b) / 2).
Proof.
  revert ms; induction ls as [|x ls IH]; intros ms H.
  - simpl in H. injection H as <-. split; [reflexivity|]. intros; simpl in *; lia.
  - destruct ls as [|y ls].
    + destruct x as [[q|s|]|t]; simpl in H; injection H as <-; (split; [reflexivity|]; intros; simpl in *; lia).
    + destruct x as [[qa|s|]|t]; try discriminate. destruct y as [[qb|s|]|t]; try discriminate.
      change (midpoints (LAt (ANum qa) :: LAt (ANum qb) :: ls))
        with (let! r := midpoints (LAt (ANum qb) :: ls) in Ok (LNum ((qa + qb) / 2) :: r)) in H.
      destruct (midpoints (LAt (ANum qb) :: ls)) as [r|] eqn:Er; simpl in H; [|discriminate].
      injection H as <-. destruct (IH r eq_refl) as [Hl Hn]. split; [simpl in *; lia|].
      intros [|k] a b Ha Hb Hk.
      * simpl in Ha, Hb. injection Ha as <-. injection Hb as <-. reflexivity.
      * simpl nth. apply Hn; [exact Ha | exact Hb | simpl in *; lia].
Qed.

(* n-th difference = n successive first differences *)
Theorem diff_n_unfold f sc keep i a :
  diff_n (S (S f)) sc keep i a = (let! a' := diff_n (S f) sc keep i a in diff1 sc keep i a').
Proof. reflexivity. Qed.
Theorem diff_n_one sc keep i a : diff_n 1 sc keep i a = diff1 sc keep i a.
Proof. reflexivity. Qed.

(* ------------------------------------------------------------------ argmin / argmax *)
Definition qlt_dir (mx : bool) (q b : Q) : bool := if mx then negb (Qle_bool q b) else negb (Qle_bool b q).

Fixpoint all_num (l : list cell) : bool := match l with [] => true | CNum _ :: t => all_num t | _ => false end.

(* checkable characterisation: p is an extremal position and the first one *)
Definition is_first_ext (mx : bool) (l : list cell) (p : nat) : bool :=
  match nth p l CNaN with
  | CNum qp =>
      forallb (fun c => match c with CNum q => negb (qlt_dir mx q qp) | _ => true end) l
      && forallb (fun c => match c with CNum q => qlt_dir mx qp q | _ => true end) (firstn p l)
  | _ => false
  end.

(* ------------------------------------------------------------------ argmin / argmax (NaN-free fibres) *)
From DA.Proofs Require Import C02_proofs.

Definition better (mx : bool) (q b : Q) : Prop := if mx then (b < q)%Q else (q < b)%Q.
Lemma qlt_dir_better mx q b : qlt_dir mx q b = true <-> better mx q b.
Proof. unfold qlt_dir, better. destruct mx; apply negb_Qle_lt. Qed.
Lemma better_irrefl mx q : ~ better mx q q.
Proof. unfold better. destruct mx; apply Qlt_irrefl. Qed.
Lemma better_trans mx a b c : better mx a b -> better mx b c -> better mx a c.
Proof. unfold better. destruct mx; intros H1 H2; eapply Qlt_trans; eassumption. Qed.
Lemma better_asym mx a b : better mx a b -> ~ better mx b a.
Proof. unfold better. destruct mx; intros H1 H2; apply (Qlt_irrefl a); eapply Qlt_trans; eassumption. Qed.
(* q not better than b, p better than b: p better than q *)
Lemma better_mixed mx p q b : ~ better mx q b -> better mx p b -> better mx p q.
Proof.
  unfold better. destruct mx; intros H1 H2.
  - apply Qnot_lt_le in H1. eapply Qle_lt_trans; eassumption.
  - apply Qnot_lt_le in H1. eapply Qlt_le_trans; eassumption.
Qed.

Definition nums (l : list cell) : Prop := forall c, In c l -> exists q, c = CNum q.

Lemma arg_ext_inv mx l : nums l -> forall i best b,
  let p := arg_ext mx l i best (Some b) in
  (p = best /\ forall q, In (CNum q) l -> ~ better mx q b) \/
  (exists k qp, p = i + k /\ k < List.length l /\ nth k l CNaN = CNum qp /\ better mx qp b /\
                (forall q, In (CNum q) l -> ~ better mx q qp) /\
                (forall j qj, j < k -> nth j l CNaN = CNum qj -> better mx qp qj)).
Proof.
  induction l as [|c l IH]; intros Hn i best b; cbv zeta.
  - left. split; [reflexivity|]. intros q [].
  - destruct (Hn c (or_introl eq_refl)) as [q ->].
    assert (Hn' : nums l) by (intros x Hx; apply Hn; right; exact Hx).
    simpl arg_ext. fold (qlt_dir mx q b).
    destruct (qlt_dir mx q b) eqn:Eq.
    + apply qlt_dir_better in Eq.
      destruct (IH Hn' (S i) i q) as [[Hp Hno]|[k [qp [Hp [Hk [Hnth [Hb [Hall Hbefore]]]]]]]].
      * right. exists 0, q. rewrite Hp. split; [lia|]. split; [simpl; lia|]. split; [reflexivity|]. split; [exact Eq|].
        split.
        -- intros x [E|Hx]; [injection E as <-; apply better_irrefl | apply Hno; exact Hx].
        -- intros j qj Hj. lia.
      * right. exists (S k), qp. rewrite Hp. split; [lia|]. split; [simpl; lia|]. split; [exact Hnth|].
        split; [eapply better_trans; eassumption|]. split.
        -- intros x [E|Hx]; [injection E as <-; apply better_asym; exact Hb | apply Hall; exact Hx].
        -- intros [|j] qj Hj Hqj; [simpl in Hqj; injection Hqj as <-; exact Hb | apply (Hbefore j); [lia | exact Hqj]].
    + assert (Hnb : ~ better mx q b) by (intros H; apply qlt_dir_better in H; congruence).
      destruct (IH Hn' (S i) best b) as [[Hp Hno]|[k [qp [Hp [Hk [Hnth [Hb [Hall Hbefore]]]]]]]].
      * left. split; [exact Hp|]. intros x [E|Hx]; [injection E as <-; exact Hnb | apply Hno; exact Hx].
      * right. exists (S k), qp. rewrite Hp. split; [lia|]. split; [simpl; lia|]. split; [exact Hnth|].
        split; [exact Hb|]. split.
        -- intros x [E|Hx]; [injection E as <-; intros Hx; apply (better_asym _ _ _ Hx); eapply better_mixed; eassumption | apply Hall; exact Hx].
        -- intros [|j] qj Hj Hqj; [simpl in Hqj; injection Hqj as <-; eapply better_mixed; eassumption | apply (Hbefore j); [lia | exact Hqj]].
Qed.

(* np.argmin / np.argmax on a non-empty NaN-free fibre: the position is in range, holds an extremum
   (no element is strictly better) and is the FIRST such position (every earlier element is strictly
   worse) *)
Theorem argext_pos_spec mx l :
  nums l -> l <> [] ->
  exists qp, argext_pos mx l < List.length l /\ nth (argext_pos mx l) l CNaN = CNum qp /\
    (forall q, In (CNum q) l -> ~ better mx q qp) /\
    (forall j qj, j < argext_pos mx l -> nth j l CNaN = CNum qj -> better mx qp qj).
Proof.
  intros Hn Hne. destruct l as [|c l]; [contradiction|].
  destruct (Hn c (or_introl eq_refl)) as [q ->].
  assert (Hn' : nums l) by (intros x Hx; apply Hn; right; exact Hx).
  unfold argext_pos. simpl arg_ext.
  destruct (arg_ext_inv mx l Hn' 1 0 q) as [[Hp Hno]|[k [qp [Hp [Hk [Hnth [Hb [Hall Hbefore]]]]]]]].
  - exists q. rewrite Hp. split; [simpl; lia|]. split; [reflexivity|]. split.
    + intros x [E|Hx]; [injection E as <-; apply better_irrefl | apply Hno; exact Hx].
    + intros j qj Hj. lia.
  - exists qp. rewrite Hp. split; [simpl; lia|]. split; [exact Hnth|]. split.
    + intros x [E|Hx]; [injection E as <-; apply better_asym; exact Hb | apply Hall; exact Hx].
    + intros [|j] qj Hj Hqj; [simpl in Hqj; injection Hqj as <-; exact Hb | apply (Hbefore j); [lia | exact Hqj]].
Qed.

(* along an axis: every result cell is the LABEL at the arg-extremal position of its fibre *)
Theorem argext_axis_spec mx r a res :
  argext_axis mx r a = Ok (VArr res) ->
  exists i, axis_info a r = Ok i /\
    axes res = remove_nth i (axes a) /\ attrs res = attrs a /\
    forall c', inb (sh (vals res)) c' = true ->
      get (vals res) c' = label_cell (nth_lab (alab (nth i (axes a) dax0)) (argext_pos mx (fibre (vals a) i c'))).
Proof.
  unfold argext_axis. destruct (axis_info a r) as [i|] eqn:Ei; simpl; [|discriminate].
  destruct (alen (nth i (axes a) dax0) =? 0)%nat; [discriminate|].
  destruct (remove_nth i (sh (vals a))) eqn:Es; [discriminate|].
  intros [= <-]. exists i. split; [reflexivity|]. simpl. split; [reflexivity|]. split; [reflexivity|].
  intros c' Hc'. rewrite get_mk by exact Hc'. reflexivity.
Qed.

(* whole array: the labels of the first extremal cell in row-major order *)
Theorem argext_all_spec mx a ls :
  argext_all mx a = Ok (VLabels ls) ->
  ls = map (fun q => nth_lab (alab (fst q)) (snd q))
           (combine (axes a) (unravel (sh (vals a)) (argext_pos mx (dat (vals a))))).
Proof.
  unfold argext_all. destruct (prod (sh (vals a)) =? 0)%nat; [discriminate|]. intros [= <-]. reflexivity.
Qed.
