(* C07, method='left' / 'right': the position chosen for a label that is not on the axis is that of its
   neighbour in sorted order, as numpy.searchsorted (side) followed by clip gives it. *)
From Coq Require Import Qround Qabs Permutation.
From DA Require Import Prelude NDArray Array PyRT.
From DA.Model Require Import Value Reshape SliceSpec Indexing Align Transform.
From DA.Proofs Require Import ListLemmas C10_proofs C01_proofs C17_proofs C01_complete.
Open Scope nat_scope.
Open Scope list_scope.

Lemma asc_nth_le S : forall i j, asc S -> i <= j -> j < List.length S -> label_le (nth i S LNone) (nth j S LNone) = true.
Proof.
  induction S as [|x t IH]; intros i j Hs Hij Hj; [simpl in Hj; lia|].
  destruct i as [|i]; destruct j as [|j]; try lia.
  - apply label_le_refl.
  - simpl nth. eapply asc_head_le; [exact Hs|]. apply nth_In. simpl in Hj. lia.
  - simpl nth. apply IH; [eapply asc_tail; exact Hs | lia | simpl in Hj; lia].
Qed.

(* a downward-closed predicate holds exactly on a prefix of an ascending list *)
Lemma count_split S (p : label -> bool) :
  asc S -> (forall x y, label_le x y = true -> p y = true -> p x = true) ->
  let c := List.length (filter p S) in
  (forall i, i < c -> p (nth i S LNone) = true) /\ (forall i, c <= i -> i < List.length S -> p (nth i S LNone) = false).
Proof.
  intros Hs Hp. induction S as [|x t IH]; cbv zeta; [split; intros i Hi; simpl in *; lia|].
  cbn [filter]. destruct (p x) eqn:Ex.
  - destruct (IH (asc_tail _ _ Hs)) as [A B]. cbn [List.length]. split.
    + intros [|i] Hi; [exact Ex | apply A; lia].
    + intros [|i] Hi Hl; [lia | apply B; [lia | simpl in Hl; lia]].
  - rewrite (filter_none p t).
    2:{ intros z Hz. destruct (p z) eqn:Ez; [|reflexivity]. rewrite (Hp x z (asc_head_le _ _ _ Hs Hz) Ez) in Ex. discriminate. }
    cbn [List.length]. split; [intros i Hi; lia|].
    intros [|i] _ Hl; [exact Ex|]. simpl nth. destruct (p (nth i t LNone)) eqn:Ez; [|reflexivity].
    assert (Hin : In (nth i t LNone) t) by (apply nth_In; simpl in Hl; lia).
    rewrite (Hp x _ (asc_head_le _ _ _ Hs Hin) Ez) in Ex. discriminate.
Qed.

Definition below (side_right : bool) (v x : label) : bool := if side_right then label_le x v else label_ltb x v.
Lemma below_down side v x y : label_le x y = true -> below side v y = true -> below side v x = true.
Proof.
  unfold below. destruct side; intros Hxy Hy.
  - eapply label_le_trans; eassumption.
  - unfold label_ltb in *. apply negb_true_iff in Hy. apply negb_true_iff.
    destruct (label_le v x) eqn:E; [|reflexivity]. rewrite (label_le_trans _ _ _ E Hxy) in Hy. discriminate.
Qed.

(* searchsorted(side) + clip: the chosen position carries the least label that is not below v (at or after v for
   'left', strictly after for 'right') when there is one, and the greatest label otherwise *)
Theorem locate_raw_neighbour side ls v :
  ls <> [] ->
  let isort := argsort ls in
  let S := map (lab ls) isort in
  let c := Nat.min (ss_count side S v) (List.length ls - 1) in
  let p := nth c isort 0 in
  p < List.length ls /\
  ((exists j, j < List.length ls /\ below side v (lab ls j) = false) ->
     below side v (lab ls p) = false /\ forall j, j < List.length ls -> below side v (lab ls j) = false -> label_le (lab ls p) (lab ls j) = true) /\
  ((forall j, j < List.length ls -> below side v (lab ls j) = true) -> forall j, j < List.length ls -> label_le (lab ls j) (lab ls p) = true).
Proof.
  intros Hne. cbv zeta. set (isort := argsort ls). set (S := map (lab ls) isort).
  assert (Hperm : Permutation isort (seq 0 (List.length ls))) by apply argsort_perm.
  assert (Hli : List.length isort = List.length ls) by (rewrite (Permutation_length Hperm); apply seq_length).
  assert (Hlen : List.length S = List.length ls) by (unfold S; rewrite map_length; exact Hli).
  assert (Hn : 0 < List.length ls) by (destruct ls; [contradiction | simpl; lia]).
  assert (Hasc : asc S) by (apply sorted_by_asc; apply argsort_sorted).
  assert (Hcount : ss_count side S v = List.length (filter (below side v) S)) by (unfold ss_count, below; destruct side; reflexivity).
  destruct (count_split S (below side v) Hasc (below_down side v)) as [Hpre Hsuf]. cbv zeta in Hpre, Hsuf.
  set (c0 := ss_count side S v) in *. rewrite <- Hcount in Hpre, Hsuf.
  set (c := Nat.min c0 (List.length ls - 1)).
  assert (Hc : c < List.length ls) by (unfold c; lia).
  assert (HS : forall i, i < List.length ls -> nth i S LNone = lab ls (nth i isort 0)).
  { intros i Hi. unfold S. rewrite (nth_map_in (lab ls) isort i 0 LNone) by lia. reflexivity. }
  (* every position is some isort entry *)
  assert (Hall : forall j, j < List.length ls -> exists i, i < List.length ls /\ nth i isort 0 = j).
  { intros j Hj. assert (Hin : In j isort) by (eapply Permutation_in; [apply Permutation_sym; exact Hperm | apply in_seq; lia]).
    destruct (In_nth _ _ 0 Hin) as [i [Hi Ei]]. exists i. split; [lia | exact Ei]. }
  assert (Hp_lt : nth c isort 0 < List.length ls).
  { assert (Hin : In (nth c isort 0) isort) by (apply nth_In; lia).
    apply (Permutation_in _ Hperm) in Hin. apply in_seq in Hin. lia. }
  split; [exact Hp_lt|]. split.
  - intros [j [Hj Hbj]]. destruct (Hall j Hj) as [i [Hi Ei]].
    (* position i in sorted order is not below: so c0 <= i, hence c = c0 *)
    assert (Hci : c0 <= i).
    { destruct (Nat.le_gt_cases c0 i) as [H|H]; [exact H|]. specialize (Hpre i H). rewrite (HS i Hi), Ei in Hpre. congruence. }
    assert (Ecc : c = c0) by (unfold c; lia).
    split.
    + rewrite <- (HS c Hc). apply Hsuf; [lia | lia].
    + intros j' Hj' Hbj'. destruct (Hall j' Hj') as [i' [Hi' Ei']].
      assert (Hci' : c0 <= i').
      { destruct (Nat.le_gt_cases c0 i') as [H|H]; [exact H|]. specialize (Hpre i' H). rewrite (HS i' Hi'), Ei' in Hpre. congruence. }
      rewrite <- Ei'. rewrite <- (HS c Hc), <- (HS i' Hi'). apply asc_nth_le; [exact Hasc | lia | lia].
  - intros Hallb j Hj. destruct (Hall j Hj) as [i [Hi Ei]].
    (* everything is below: c0 = n, c = n - 1, the last of the sorted order *)
    assert (Ec0 : List.length ls <= c0).
    { destruct (Nat.le_gt_cases (List.length ls) c0) as [H|H]; [exact H|].
      assert (Hf : below side v (nth c0 S LNone) = false) by (apply Hsuf; lia).
      rewrite (HS c0 H) in Hf. assert (Ht : below side v (lab ls (nth c0 isort 0)) = true).
      { apply Hallb. assert (Hin : In (nth c0 isort 0) isort) by (apply nth_In; lia). apply (Permutation_in _ Hperm) in Hin. apply in_seq in Hin. lia. }
      congruence. }
    assert (Ecc : c = List.length ls - 1) by (unfold c; lia).
    rewrite <- Ei. rewrite <- (HS i Hi), <- (HS c Hc). apply asc_nth_le; [exact Hasc | lia | lia].
Qed.

(* reindex_axis(method=left / right) uses exactly these positions, label by label *)
Theorem locate_many_raw_nth side ls vs idxs k :
  ls <> [] -> locate_many_raw side ls vs = Ok idxs -> k < List.length vs ->
  nth k idxs 0 = nth (Nat.min (ss_count side (map (lab ls) (argsort ls)) (nth k vs LNone)) (List.length ls - 1)) (argsort ls) 0.
Proof.
  intros Hne H Hk. rewrite (locate_many_raw_nonempty side ls vs Hne) in H. injection H as <-.
  rewrite (nth_map_in _ vs k LNone 0) by exact Hk. reflexivity.
Qed.
