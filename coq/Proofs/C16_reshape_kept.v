(* C16: metadata is carried over by the reshaping operations that expand or rearrange dimensions *)
From DA Require Import Prelude NDArray Array PyRT.
From DA.Model Require Import Value Reshape Indexing Align.
From DA.Proofs Require Import ListLemmas C10_proofs C05_proofs C10_broadcast.
Open Scope nat_scope.

Theorem repeat_keeps_attrs k labs rf a r : wf_shape a -> repeat k labs rf a = Ok r -> attrs r = attrs a.
Proof. intros Hw H. destruct (repeat_spec k labs rf a r Hw H) as [i [_ [_ [_ [Hat _]]]]]. exact Hat. Qed.
Theorem newaxis_keeps_attrs name pos a r : wf_shape a -> newaxis name None pos a = Ok r -> attrs r = attrs a.
Proof. intros Hw H. destruct (newaxis_spec name pos a r Hw H) as [q [_ [_ [_ [_ [Hat _]]]]]]. exact Hat. Qed.
Theorem newaxis_values_keeps_attrs name k labs pos a r : wf_shape a -> newaxis name (Some (k, labs)) pos a = Ok r -> attrs r = attrs a.
Proof.
  intros Hw H. unfold newaxis in H. destruct (mem_str name (dims a)); [discriminate|]. cbv zeta in H.
  destruct (_ <? 0)%Z; [discriminate|]. destruct (Z.of_nat _ <? _)%Z; [discriminate|].
  set (q := Z.to_nat _) in H.
  set (o := mkarr (insert_nth q (mkaxis name KO [LNone]) (axes a)) (np_expand q (vals a)) (attrs a)) in H.
  assert (Hwo : wf_shape o).
  { destruct Hw as [Hs Hd]. unfold o. split; simpl.
    - rewrite map_insert_nth, Hs. reflexivity.
    - unfold np_expand, mk. simpl. apply tab_length. }
  rewrite (repeat_keeps_attrs _ _ _ o r Hwo H). reflexivity.
Qed.
Theorem squeeze_keeps_attrs rf a r : wf_shape a -> squeeze (Some rf) a = Ok r -> attrs r = attrs a.
Proof. intros Hw H. destruct (squeeze_axis_spec rf a r Hw H) as [i [_ [_ [_ [Hat _]]]]]. exact Hat. Qed.
Theorem broadcast_keeps_attrs newaxes a r :
  WF a -> ~ In EmptyString (map aname newaxes) -> broadcast newaxes a = Ok r -> attrs r = attrs a.
Proof. intros Hw He H. destruct (broadcast_full _ _ _ Hw He H) as [_ [_ [Hat _]]]. exact Hat. Qed.
