(* C02, negative steps: the bridge over the GENERATED locate_slice for step < 0 on increasing and on decreasing
   numeric axes (searchsorted sides swapped, start moved one position down, stop turned into an exclusive lower
   bound or None), Python's slice positions for step -1, and the end-to-end bounding box read backwards. *)
From DA Require Import Prelude NDArray Array PyRT.
From DA.Gen Require Import locate_slice.
From DA.Model Require Import SliceSpec.
From DA.Proofs Require Import ListLemmas C02_proofs C02_decreasing.
From Coq Require Import Sorted.
Open Scope string_scope.

(* ------------------------------------------------------------------ integer tests of the generated code *)
Lemma Qle_bool_inject a b : Qle_bool (inject_Z a) (inject_Z b) = (a <=? b)%Z.
Proof. unfold Qle_bool, inject_Z. simpl. rewrite !Z.mul_1_r. reflexivity. Qed.
Lemma int_lt0 z : py_cmp CLt (PInt z) (PInt 0) = Ok (PBool (z <? 0)%Z).
Proof.
  cbn. change (0%Q) with (inject_Z 0). rewrite Qle_bool_inject. f_equal. f_equal.
  destruct (Z.ltb_spec z 0), (Z.leb_spec 0 z); try reflexivity; lia.
Qed.
Lemma int_gt0 z : py_cmp CGt (PInt z) (PInt 0) = Ok (PBool (0 <? z)%Z).
Proof.
  cbn. change (0%Q) with (inject_Z 0). rewrite Qle_bool_inject. f_equal. f_equal.
  destruct (Z.ltb_spec 0 z), (Z.leb_spec z 0); try reflexivity; lia.
Qed.
Lemma int_eq0 z : py_cmp CEq (PInt z) (PInt 0) = Ok (PBool (z =? 0)%Z).
Proof.
  cbn. f_equal. f_equal. unfold Qeq_bool, inject_Z. simpl. rewrite Z.mul_1_r.
  unfold Zeq_bool. destruct (Z.eqb_spec z 0) as [->|H]; [reflexivity|]. destruct (Z.compare_spec z 0); try reflexivity; lia.
Qed.

(* what the code does with the two searchsorted counts when step < 0 *)
Definition stop_neg (cb : option Z) : option Z :=
  match cb with None => None | Some c => if (c =? 0)%Z then None else Some (c - 1)%Z end.
Definition bounds_neg (ca cb : option Z) : option Z * option Z :=
  match ca with
  | Some c => if (c - 1 <? 0)%Z then (Some 0%Z, Some 0%Z) else (Some (c - 1)%Z, stop_neg cb)
  | None => (None, stop_neg cb)
  end.

(* ------------------------------------------------------------------ Python's slice positions for step -1 *)
Lemma range_fuel_down_from fuel a m :
  (m <= fuel)%nat ->
  range_fuel fuel (Z.of_nat a + Z.of_nat m - 1) (Z.of_nat a - 1) (-1) = map Z.of_nat (rev (seq a m)).
Proof.
  revert m; induction fuel as [|f IH]; intros m Hm.
  - assert (m = 0)%nat by lia. subst. reflexivity.
  - destruct m as [|m].
    + cbn [range_fuel]. cbn [Z.ltb Z.compare]. replace (Z.of_nat a + Z.of_nat 0 - 1)%Z with (Z.of_nat a - 1)%Z by lia.
      rewrite Z.ltb_irrefl. reflexivity.
    + cbn [range_fuel]. cbn [Z.ltb Z.compare].
      replace (Z.of_nat a - 1 <? Z.of_nat a + Z.of_nat (S m) - 1)%Z with true by (symmetry; apply Z.ltb_lt; lia).
      rewrite seq_S, rev_app_distr. simpl rev. simpl app. cbn [map]. f_equal; [lia|].
      replace (Z.of_nat a + Z.of_nat (S m) - 1 + -1)%Z with (Z.of_nat a + Z.of_nat m - 1)%Z by lia. apply IH. lia.
Qed.

(* from the two counts a = #(labels below the lower bound), b = #(labels up to the upper bound): the positions
   a .. b-1 in DESCENDING order *)
Theorem slice_positions_neg_unit a b n :
  (a <= n)%nat -> (b <= n)%nat ->
  (let '(sa, sb) := bounds_neg (Some (Z.of_nat b)) (Some (Z.of_nat a)) in slice_positions sa sb (Some (-1)%Z) n)
  = Ok (rev (seq a (b - a))).
Proof.
  intros Ha Hb. unfold bounds_neg, stop_neg.
  destruct b as [|b'].
  - cbn [Z.of_nat Z.sub Z.add Z.opp Z.ltb Z.compare Z.pos_sub]. simpl (0 - a)%nat. simpl seq. simpl rev.
    unfold slice_positions, py_slice_indices. cbn [Z.eqb Z.ltb Z.compare]. cbn [bind].
    f_equal. unfold py_range. set (z := Z.min 0 (Z.of_nat n - 1)).
    destruct (Z.to_nat (Z.abs (z - z)) + 1)%nat; [reflexivity|]. cbn [range_fuel]. cbn [Z.ltb Z.compare].
    rewrite Z.ltb_irrefl. reflexivity.
  - replace (Z.of_nat (S b') - 1 <? 0)%Z with false by (symmetry; apply Z.ltb_ge; lia).
    assert (Hpos : slice_positions (Some (Z.of_nat (S b') - 1)%Z) (if (Z.of_nat a =? 0)%Z then None else Some (Z.of_nat a - 1)%Z) (Some (-1)%Z) n
                   = Ok (rev (seq a (S b' - a)))).
    { unfold slice_positions, py_slice_indices. cbn [Z.eqb Z.ltb Z.compare].
      replace (Z.of_nat (S b') - 1 <? 0)%Z with false by (symmetry; apply Z.ltb_ge; lia).
      rewrite Z.min_l by lia.
      assert (He : (match (if (Z.of_nat a =? 0)%Z then None else Some (Z.of_nat a - 1)%Z) with
                    | Some v => if (v <? 0)%Z then Z.max (v + Z.of_nat n) (-1) else Z.min v (Z.of_nat n - 1)
                    | None => (-1)%Z end) = (Z.of_nat a - 1)%Z).
      { destruct (Z.eqb_spec (Z.of_nat a) 0) as [E|E]; [lia|].
        replace (Z.of_nat a - 1 <? 0)%Z with false by (symmetry; apply Z.ltb_ge; lia). lia. }
      rewrite He. cbn [bind]. f_equal. unfold py_range.
      destruct (le_lt_dec a (S b')) as [Hab|Hab].
      - replace (Z.of_nat (S b') - 1)%Z with (Z.of_nat a + Z.of_nat (S b' - a) - 1)%Z by lia.
        rewrite range_fuel_down_from by lia. rewrite map_map. rewrite <- (map_id (rev (seq a (S b' - a)))) at 2.
        apply map_ext. intros i. apply Nat2Z.id.
      - replace (S b' - a)%nat with 0%nat by lia. simpl seq. simpl rev.
        destruct (Z.to_nat _ + 1)%nat; [reflexivity|]. cbn [range_fuel]. cbn [Z.ltb Z.compare].
        replace (Z.of_nat a - 1 <? Z.of_nat (S b') - 1)%Z with false by (symmetry; apply Z.ltb_ge; lia). reflexivity. }
    exact Hpos.
Qed.

Lemma count_le_nil q : count_le q [] = 0%nat. Proof. reflexivity. Qed.
Lemma count_lt_nil q : count_lt q [] = 0%nat. Proof. reflexivity. Qed.
Lemma num_ge a b : py_cmp CGe (PNum a) (PNum b) = Ok (PBool (Qle_bool b a)).
Proof. reflexivity. Qed.
Lemma sub_one c : py_arith ASub (PInt c) (PInt 1) = Ok (PInt (c - 1)).
Proof. reflexivity. Qed.
Local Opaque py_cmp py_arith count_le count_lt.
Local Arguments Z.of_nat : simpl never.
Local Arguments Z.sub : simpl never.
Local Arguments Z.ltb : simpl never.
Local Arguments Z.eqb : simpl never.
Local Arguments rev : simpl never.

Lemma bridge_neg_inc k xs lo hi s :
  (k = KI \/ k = KF) ->
  g_is_monotonic_equal (arrQ k xs) = Ok (PBool true) ->
  axis_increasing xs = true ->
  (s < 0)%Z ->
  slice_bounds (arrQ k xs) (optQ lo) (optQ hi) (Some s)
  = Ok (bounds_neg (option_map (fun q => Z.of_nat (count_le q xs)) lo) (option_map (fun q => Z.of_nat (count_lt q xs)) hi)).
Proof.
  intros Hk Hm Hinc Hneg.
  unfold slice_bounds, g_locate_slice.
  assert (Hkk : g_is_numeric (arrQ k xs) = Ok (PBool true)) by (destruct Hk; subst; reflexivity).
  cbn beta iota delta [bind]. rewrite Hkk. cbn beta iota delta [bind py_not truthy negb].
  rewrite Hm. cbn beta iota delta [bind py_not truthy negb].
  rewrite size_arrQ.
  assert (Hs : py_cmp CGt (PInt s) (PInt 0) = Ok (PBool false)).
  { rewrite int_gt0. replace (0 <? s)%Z with false by (symmetry; apply Z.ltb_ge; lia). reflexivity. }
  assert (Hs' : py_cmp CLt (PInt s) (PInt 0) = Ok (PBool true)).
  { rewrite int_lt0. replace (s <? 0)%Z with true by (symmetry; apply Z.ltb_lt; lia). reflexivity. }
  pose proof sub_one as Hsub.
  destruct xs as [|x t].
  - change (arrQ k []) with (PArr k []) in *. cbn [List.length]. change (Z.of_nat 0) with 0%Z.
    destruct lo as [l|], hi as [h|];
    repeat first [ progress cbn
                 | rewrite Z.eqb_refl | rewrite Hs | rewrite Hs' | rewrite searchsorted_left | rewrite searchsorted_right
                 | rewrite Hsub | rewrite int_lt0 | rewrite int_eq0 | rewrite count_le_nil | rewrite count_lt_nil ];
    repeat match goal with |- context [if ?b then _ else _] => destruct b; cbn end;
    reflexivity.
  - simpl List.length. unfold axis_increasing in Hinc. rewrite last_cons in Hinc.
    assert (Hge : py_cmp CGe (PNum (last t x)) (PNum x) = Ok (PBool true)).
    { rewrite num_ge, Hinc. reflexivity. }
    repeat first [ progress cbn beta iota delta [bind truthy py_not negb]
                 | rewrite size_cmp0 | rewrite getitem_last_Q | rewrite getitem_first_Q | rewrite Hge ].
    destruct lo as [l|], hi as [h|];
    repeat first [ progress cbn
                 | rewrite Hs | rewrite Hs' | rewrite searchsorted_left | rewrite searchsorted_right
                 | rewrite Hsub | rewrite int_lt0 | rewrite int_eq0 ];
    repeat match goal with |- context [if ?b then _ else _] => destruct b; cbn end;
    reflexivity.
Qed.

Lemma bridge_neg_dec k xs lo hi s :
  (k = KI \/ k = KF) ->
  g_is_monotonic_equal (arrQ k xs) = Ok (PBool true) ->
  axis_increasing xs = false ->
  (s < 0)%Z ->
  slice_bounds (arrQ k xs) (optQ lo) (optQ hi) (Some s)
  = Ok (bounds_neg (option_map (fun q => Z.of_nat (List.length xs) - Z.of_nat (count_lt q xs))%Z lo)
                   (option_map (fun q => Z.of_nat (List.length xs) - Z.of_nat (count_le q xs))%Z hi)).
Proof.
  intros Hk Hm Hinc Hneg.
  unfold slice_bounds, g_locate_slice.
  assert (Hkk : g_is_numeric (arrQ k xs) = Ok (PBool true)) by (destruct Hk; subst; reflexivity).
  cbn beta iota delta [bind]. rewrite Hkk. cbn beta iota delta [bind py_not truthy negb].
  rewrite Hm. cbn beta iota delta [bind py_not truthy negb].
  rewrite size_arrQ.
  assert (Hs : py_cmp CGt (PInt s) (PInt 0) = Ok (PBool false)).
  { rewrite int_gt0. replace (0 <? s)%Z with false by (symmetry; apply Z.ltb_ge; lia). reflexivity. }
  assert (Hs' : py_cmp CLt (PInt s) (PInt 0) = Ok (PBool true)).
  { rewrite int_lt0. replace (s <? 0)%Z with true by (symmetry; apply Z.ltb_lt; lia). reflexivity. }
  pose proof sub_one as Hsub.
  destruct xs as [|x t]; [discriminate|].
  simpl List.length.
  unfold axis_increasing in Hinc. rewrite last_cons in Hinc.
  assert (Hge : py_cmp CGe (PNum (last t x)) (PNum x) = Ok (PBool false)).
  { rewrite num_ge, Hinc. reflexivity. }
  repeat first [ progress cbn beta iota delta [bind truthy py_not negb]
               | rewrite size_cmp0 | rewrite getitem_last_Q | rewrite getitem_first_Q | rewrite Hge ].
  destruct lo as [l|], hi as [h|];
  repeat first [ progress cbn
               | rewrite Hs | rewrite Hs' | rewrite size_arrQ | rewrite getslice_reverse
               | rewrite searchsorted_left | rewrite searchsorted_right | rewrite sub_int
               | rewrite count_le_rev | rewrite count_lt_rev
               | rewrite Hsub | rewrite int_lt0 | rewrite int_eq0 ];
  repeat match goal with |- context [if ?b then _ else _] => destruct b; cbn end;
  reflexivity.
Qed.

(* ------------------------------------------------------------------ end to end, step -1 *)
(* a[lo:hi:-1] on an increasing axis (lo is the LARGER bound): exactly the positions with hi <= label <= lo, last first *)
Theorem bbox_slice_neg_increasing k xs lo hi :
  (k = KI \/ k = KF) ->
  g_is_monotonic_equal (arrQ k xs) = Ok (PBool true) ->
  axis_increasing xs = true ->
  StronglySorted Qlt xs ->
  exists a b,
    run_slice (arrQ k xs) (PNum lo) (PNum hi) (Some (-1)%Z) (List.length xs) = Ok (rev (seq a (b - a))) /\
    forall i, In i (rev (seq a (b - a))) <->
              (i < List.length xs)%nat /\ (hi <= nth i xs 0 /\ nth i xs 0 <= lo)%Q.
Proof.
  intros Hk Hm Hinc Hs.
  exists (count_lt hi xs), (count_le lo xs). split.
  - unfold run_slice. change (PNum lo) with (optQ (Some lo)). change (PNum hi) with (optQ (Some hi)).
    rewrite (bridge_neg_inc k xs (Some lo) (Some hi) (-1)%Z Hk Hm Hinc ltac:(lia)).
    cbn [bind option_map].
    pose proof (slice_positions_neg_unit (count_lt hi xs) (count_le lo xs) (List.length xs)
                  (count_lt_le_length hi xs) (count_le_le_length lo xs)) as H.
    destruct (bounds_neg _ _) as [sa sb]. exact H.
  - intros i. rewrite <- in_rev, in_seq. split.
    + intros Hi. pose proof (count_le_le_length lo xs) as Hb.
      assert (Hin : (i < List.length xs)%nat) by lia. split; [exact Hin|].
      apply (bbox_increasing xs hi lo i Hs Hin). lia.
    + intros [Hin Hbox]. apply (bbox_increasing xs hi lo i Hs Hin) in Hbox. lia.
Qed.

(* a[lo:hi:-1] on a decreasing axis (lo is the SMALLER bound): exactly the positions with lo <= label <= hi, last first *)
Theorem bbox_slice_neg_decreasing k xs lo hi :
  (k = KI \/ k = KF) ->
  g_is_monotonic_equal (arrQ k xs) = Ok (PBool true) ->
  axis_increasing xs = false ->
  StronglySorted Qgt' xs ->
  exists a b,
    run_slice (arrQ k xs) (PNum lo) (PNum hi) (Some (-1)%Z) (List.length xs) = Ok (rev (seq a (b - a))) /\
    forall i, In i (rev (seq a (b - a))) <->
              (i < List.length xs)%nat /\ (lo <= nth i xs 0 /\ nth i xs 0 <= hi)%Q.
Proof.
  intros Hk Hm Hinc Hs. set (n := List.length xs).
  pose proof (count_le_le_length hi xs) as L1. pose proof (count_lt_le_length lo xs) as L2. fold n in L1, L2.
  exists (n - count_le hi xs)%nat, (n - count_lt lo xs)%nat. split.
  - unfold run_slice. change (PNum lo) with (optQ (Some lo)). change (PNum hi) with (optQ (Some hi)).
    rewrite (bridge_neg_dec k xs (Some lo) (Some hi) (-1)%Z Hk Hm Hinc ltac:(lia)).
    cbn [bind option_map]. fold n.
    replace (Z.of_nat n - Z.of_nat (count_lt lo xs))%Z with (Z.of_nat (n - count_lt lo xs)) by lia.
    replace (Z.of_nat n - Z.of_nat (count_le hi xs))%Z with (Z.of_nat (n - count_le hi xs)) by lia.
    pose proof (slice_positions_neg_unit (n - count_le hi xs) (n - count_lt lo xs) n ltac:(lia) ltac:(lia)) as H.
    destruct (bounds_neg _ _) as [sa sb]. exact H.
  - intros i. rewrite <- in_rev, in_seq. split.
    + intros Hi. assert (Hin : (i < n)%nat) by lia. split; [exact Hin|].
      apply (bbox_decreasing xs hi lo i Hs Hin). fold n. lia.
    + intros [Hin Hbox]. apply (bbox_decreasing xs hi lo i Hs Hin) in Hbox. fold n in Hbox. lia.
Qed.
