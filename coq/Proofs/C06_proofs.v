(* C06: align() is a set union / intersection that neither invents nor loses data. *)
From Coq Require Import Qround.
From DA Require Import Prelude NDArray Array PyRT.
From DA.Model Require Import Value Reshape SliceSpec Indexing Align.
From DA.Proofs Require Import ListLemmas C10_proofs C01_proofs C03_proofs C07_proofs.
Open Scope nat_scope.

(* ------------------------------------------------------------------ membership up to numpy's == *)
Lemma mem_label_eq x y l : label_eqb x y = true -> mem_label x l = mem_label y l.
Proof.
  intros E. unfold mem_label. induction l as [|z l IH]; simpl; [reflexivity|]. rewrite IH. f_equal.
  destruct (label_eqb x z) eqn:Exz, (label_eqb y z) eqn:Eyz; try reflexivity.
  - rewrite label_eqb_sym in E. rewrite (label_eqb_trans _ _ _ E Exz) in Eyz. discriminate.
  - rewrite (label_eqb_trans _ _ _ E Eyz) in Exz. discriminate.
Qed.

Lemma mem_label_app x l1 l2 : mem_label x (l1 ++ l2) = mem_label x l1 || mem_label x l2.
Proof. unfold mem_label. apply existsb_app. Qed.

Lemma mem_label_filter x f l :
  (forall a b, label_eqb a b = true -> f a = f b) ->
  mem_label x (filter f l) = mem_label x l && f x.
Proof.
  intros Hf. unfold mem_label. induction l as [|y l IH]; simpl; [reflexivity|].
  destruct (f y) eqn:Ey; simpl.
  - rewrite IH. destruct (label_eqb x y) eqn:E; simpl; [|reflexivity].
    rewrite (Hf x y E), Ey. destruct (existsb _ l); reflexivity.
  - rewrite IH. destruct (label_eqb x y) eqn:E; simpl; [|reflexivity].
    rewrite (Hf x y E), Ey. rewrite andb_false_r. reflexivity.
Qed.

Lemma mem_label_rev x l : mem_label x (rev l) = mem_label x l.
Proof.
  unfold mem_label. induction l as [|y l IH]; simpl; [reflexivity|].
  rewrite existsb_app, IH. simpl. rewrite orb_false_r. apply orb_comm.
Qed.

Definition nodup_labels (l : list label) : bool := nodupb label_eqb l.

Lemma nodup_labels_app l1 l2 :
  nodup_labels l1 = true -> nodup_labels l2 = true ->
  (forall x, mem_label x l1 = true -> mem_label x l2 = false) ->
  nodup_labels (l1 ++ l2) = true.
Proof.
  intros H1 H2 Hd. induction l1 as [|x l1 IH]; simpl in *; [exact H2|].
  apply andb_true_iff in H1. destruct H1 as [Hx H1].
  apply andb_true_iff. split.
  - rewrite negb_true_iff in *. change (mem_label x (l1 ++ l2) = false). rewrite mem_label_app.
    change (mem_label x l1 = false) in Hx. rewrite Hx. simpl. apply Hd.
    unfold mem_label. simpl. rewrite label_eqb_refl. reflexivity.
  - apply IH; [exact H1|]. intros y Hy. apply Hd. unfold mem_label in *. simpl. rewrite Hy. apply orb_true_r.
Qed.

Lemma nodup_labels_filter f l : nodup_labels l = true -> nodup_labels (filter f l) = true.
Proof.
  induction l as [|x l IH]; simpl; [auto|]. intros H. apply andb_true_iff in H. destruct H as [Hx Hl].
  destruct (f x); simpl; [|apply IH; exact Hl].
  apply andb_true_iff. split; [|apply IH; exact Hl].
  rewrite negb_true_iff in *. clear IH Hl. induction l as [|y l IH]; simpl in *; [reflexivity|].
  apply orb_false_iff in Hx. destruct Hx as [Hxy Hx]. destruct (f y); simpl; [rewrite Hxy|]; apply IH; exact Hx.
Qed.

Lemma nodup_labels_rev l : nodup_labels l = true -> nodup_labels (rev l) = true.
Proof.
  induction l as [|x l IH]; simpl; [auto|]. intros H. apply andb_true_iff in H. destruct H as [Hx Hl].
  apply nodup_labels_app; [apply IH; exact Hl | simpl; reflexivity |].
  intros y Hy. rewrite mem_label_rev in Hy. unfold mem_label. simpl. rewrite orb_false_r.
  destruct (label_eqb y x) eqn:E; [|reflexivity].
  rewrite negb_true_iff in Hx. change (mem_label x l = false) in Hx.
  rewrite (mem_label_eq _ _ l E) in Hy. congruence.
Qed.

(* ------------------------------------------------------------------ sorted union (np.union1d) *)
Lemma ltb_le a b : label_ltb a b = true -> label_le a b = true.
Proof.
  unfold label_ltb. rewrite negb_true_iff. intros H. destruct (label_le_total a b) as [T|T]; [exact T | congruence].
Qed.

Lemma mem_insert_uniq l x t : mem_label l (insert_uniq x t) = label_eqb l x || mem_label l t.
Proof.
  induction t as [|y t IH]; simpl.
  - unfold mem_label. simpl. reflexivity.
  - destruct (label_eqb x y) eqn:Exy.
    + (* x already there *)
      unfold mem_label at 1 2. simpl. fold (mem_label l t).
      destruct (label_eqb l x) eqn:Elx; simpl; [|reflexivity].
      rewrite (label_eqb_trans _ _ _ Elx Exy). reflexivity.
    + destruct (label_ltb x y).
      * unfold mem_label. simpl. reflexivity.
      * unfold mem_label at 1. simpl. fold (mem_label l (insert_uniq x t)). rewrite IH.
        unfold mem_label at 2. simpl. fold (mem_label l t).
        destruct (label_eqb l y), (label_eqb l x); reflexivity.
Qed.

Theorem mem_union1d l a b : mem_label l (union1d a b) = mem_label l a || mem_label l b.
Proof.
  unfold union1d. rewrite <- mem_label_app. induction (a ++ b) as [|x t IH]; simpl; [reflexivity|].
  rewrite mem_insert_uniq, IH. unfold mem_label. simpl. reflexivity.
Qed.

(* strictly increasing w.r.t. the label order *)
Definition strict_inc (l : list label) : bool := strictly label_ltb l.

Lemma strict_inc_cons x l : strict_inc (x :: l) = match l with [] => true | y :: _ => label_ltb x y && strict_inc l end.
Proof. destruct l; reflexivity. Qed.

Lemma insert_uniq_head x t : exists z r, insert_uniq x t = z :: r /\ (z = x \/ match t with y :: _ => z = y | [] => False end).
Proof.
  destruct t as [|y t]; simpl; [eauto|].
  destruct (label_eqb x y); [eauto|]. destruct (label_ltb x y); eauto.
Qed.

Lemma strict_inc_insert x t : strict_inc t = true -> strict_inc (insert_uniq x t) = true.
Proof.
  induction t as [|y t IH]; intros Hs; simpl; [reflexivity|].
  destruct (label_eqb x y) eqn:Exy; [exact Hs|].
  destruct (label_ltb x y) eqn:Elt.
  - rewrite strict_inc_cons. rewrite Elt. exact Hs.
  - (* y < x : y stays in front *)
    assert (Hyx : label_ltb y x = true).
    { unfold label_ltb in *. rewrite negb_false_iff in Elt. rewrite negb_true_iff.
      destruct (label_le x y) eqn:E; [|reflexivity]. unfold label_eqb in Exy. rewrite E, Elt in Exy. discriminate. }
    rewrite strict_inc_cons in Hs.
    assert (Ht : strict_inc t = true) by (destruct t; [reflexivity | apply andb_true_iff in Hs; tauto]).
    specialize (IH Ht).
    destruct (insert_uniq_head x t) as [z [r [Ez Hz]]]. rewrite Ez in *. rewrite strict_inc_cons.
    apply andb_true_iff. split; [|exact IH].
    destruct Hz as [->|Hz]; [exact Hyx|]. destruct t as [|w t]; [contradiction|]. subst z.
    apply andb_true_iff in Hs. tauto.
Qed.

Theorem union1d_sorted a b : strict_inc (union1d a b) = true.
Proof.
  unfold union1d. induction (a ++ b) as [|x t IH]; simpl; [reflexivity|]. apply strict_inc_insert. exact IH.
Qed.

(* a strictly increasing list has no repeated label *)
Lemma label_ltb_trans a b c : label_ltb a b = true -> label_ltb b c = true -> label_ltb a c = true.
Proof.
  unfold label_ltb. rewrite !negb_true_iff. intros H1 H2.
  destruct (label_le c a) eqn:E; [|reflexivity].
  (* c <= a and b < c gives ... a < b, b < c, c <= a : contradiction *)
  assert (Hab : label_le a b = true) by (destruct (label_le_total a b); congruence).
  rewrite (label_le_trans _ _ _ E Hab) in H2. discriminate.
Qed.

Lemma strict_inc_all_lt x l : strict_inc (x :: l) = true -> forall y, In y l -> label_ltb x y = true.
Proof.
  revert x; induction l as [|z l IH]; intros x Hs y Hy; [contradiction|].
  rewrite strict_inc_cons in Hs. apply andb_true_iff in Hs. destruct Hs as [Hxz Hs].
  destruct Hy as [<-|Hy]; [exact Hxz|]. eapply label_ltb_trans; [exact Hxz|]. apply IH; assumption.
Qed.

Theorem strict_inc_nodup l : strict_inc l = true -> nodup_labels l = true.
Proof.
  induction l as [|x l IH]; intros Hs; simpl; [reflexivity|].
  apply andb_true_iff. split.
  - rewrite negb_true_iff. apply not_true_is_false. intros Hex. apply existsb_exists in Hex.
    destruct Hex as [y [Hy E]]. pose proof (strict_inc_all_lt x l Hs y Hy) as Hlt.
    unfold label_ltb in Hlt. rewrite negb_true_iff in Hlt. unfold label_eqb in E. rewrite Hlt, andb_false_r in E. discriminate.
  - apply IH. rewrite strict_inc_cons in Hs. destruct l; [reflexivity | apply andb_true_iff in Hs; tauto].
Qed.

(* ------------------------------------------------------------------ Axis.union / intersection *)
Lemma labels_eqb_mem x y l : labels_eqb x y = true -> mem_label l x = mem_label l y.
Proof.
  revert y; induction x as [|a x IH]; intros [|b y]; simpl; try discriminate; auto.
  unfold labels_eqb. simpl. rewrite andb_true_iff. intros [E H]. unfold mem_label. simpl.
  fold (mem_label l x) (mem_label l y). rewrite (IH y H). f_equal.
  destruct (label_eqb l a) eqn:Ea, (label_eqb l b) eqn:Eb; try reflexivity.
  - rewrite (label_eqb_trans _ _ _ Ea E) in Eb. discriminate.
  - rewrite label_eqb_sym in E. rewrite (label_eqb_trans _ _ _ Eb E) in Ea. discriminate.
Qed.

Lemma ax_cast_labels a k : alab (ax_cast a k) = alab a.
Proof. unfold ax_cast. destruct (kind_eqb (akind a) k); reflexivity. Qed.
Lemma ax_cast_name a k : aname (ax_cast a k) = aname a.
Proof. unfold ax_cast. destruct (kind_eqb (akind a) k); reflexivity. Qed.

Lemma mem_nil_of_len0 (l : list label) x : List.length l = 0 -> mem_label x l = false.
Proof. destruct l; [reflexivity | discriminate]. Qed.

(* the label set of the union is the set union, whichever branch of the algorithm is taken *)
Theorem axis_union_mem a b l :
  mem_label l (alab (axis_union a b)) = mem_label l (alab a) || mem_label l (alab b).
Proof.
  unfold axis_union. destruct (merge_kind (akind a) (akind b)) as [k consistent].
  rewrite !ax_cast_labels. unfold alen. rewrite !ax_cast_labels.
  destruct (labels_eqb (alab a) (alab b)) eqn:Eeq.
  - rewrite ax_cast_labels. rewrite <- (labels_eqb_mem _ _ l Eeq). destruct (mem_label l (alab a)); reflexivity.
  - destruct (List.length (alab a) =? 0) eqn:Ea.
    + rewrite ax_cast_labels. apply Nat.eqb_eq in Ea. rewrite (mem_nil_of_len0 _ l Ea). reflexivity.
    + destruct (List.length (alab b) =? 0) eqn:Eb.
      * rewrite ax_cast_labels. apply Nat.eqb_eq in Eb. rewrite (mem_nil_of_len0 _ l Eb), orb_false_r. reflexivity.
      * simpl. destruct (_ && _ && _ && _).
        -- destruct (slopes_down _ _); [rewrite mem_label_rev|]; apply mem_union1d.
        -- rewrite mem_label_app. rewrite mem_label_filter.
           ++ destruct (mem_label l (alab a)), (mem_label l (alab b)); reflexivity.
           ++ intros x y E. rewrite (mem_label_eq _ _ _ E). reflexivity.
Qed.


(* each label once *)
Theorem axis_union_nodup a b :
  nodup_labels (alab a) = true -> nodup_labels (alab b) = true ->
  nodup_labels (alab (axis_union a b)) = true.
Proof.
  intros Ha Hb. unfold axis_union. destruct (merge_kind (akind a) (akind b)) as [k consistent].
  rewrite !ax_cast_labels. unfold alen. rewrite !ax_cast_labels.
  destruct (labels_eqb (alab a) (alab b)); [rewrite ax_cast_labels; exact Ha|].
  destruct (List.length (alab a) =? 0); [rewrite ax_cast_labels; exact Hb|].
  destruct (List.length (alab b) =? 0); [rewrite ax_cast_labels; exact Ha|].
  simpl. destruct (_ && _ && _ && _).
  - destruct (slopes_down _ _); [apply nodup_labels_rev|]; apply strict_inc_nodup; apply union1d_sorted.
  - apply nodup_labels_app; [exact Ha | apply nodup_labels_filter; exact Hb |].
    intros x Hx. rewrite mem_label_filter.
    + rewrite Hx. simpl. apply andb_false_r.
    + intros p q E. rewrite (mem_label_eq _ _ _ E). reflexivity.
Qed.

(* the sorted-merge branch yields ascending labels, reversed for decreasing inputs *)
Theorem axis_union_sorted_branch a b :
  strict_inc (union1d (alab a) (alab b)) = true.
Proof. apply union1d_sorted. Qed.

(* intersection: the labels of a that b also has, in a's order *)
Theorem axis_intersection_mem a b l :
  mem_label l (alab (axis_intersection a b)) = mem_label l (alab a) && mem_label l (alab b).
Proof.
  unfold axis_intersection. destruct (merge_kind (akind a) (akind b)) as [k consistent].
  rewrite !ax_cast_labels. unfold alen. rewrite !ax_cast_labels.
  destruct (labels_eqb (alab a) (alab b)) eqn:Eeq.
  - rewrite ax_cast_labels. rewrite <- (labels_eqb_mem _ _ l Eeq). destruct (mem_label l (alab a)); reflexivity.
  - destruct (List.length (alab a) =? 0) eqn:Ea; simpl.
    + apply Nat.eqb_eq in Ea. rewrite (mem_nil_of_len0 _ l Ea). reflexivity.
    + destruct (List.length (alab b) =? 0) eqn:Eb; simpl.
      * apply Nat.eqb_eq in Eb. rewrite (mem_nil_of_len0 _ l Eb), andb_false_r. reflexivity.
      * rewrite mem_label_filter.
        -- rewrite mem_label_filter.
           ++ destruct (mem_label l (alab a)), (mem_label l (alab b)); reflexivity.
           ++ intros x y E. rewrite (mem_label_eq _ _ _ E). reflexivity.
        -- intros x y E. rewrite (mem_label_eq _ _ _ E). reflexivity.
Qed.

Theorem axis_intersection_nodup a b :
  nodup_labels (alab a) = true -> nodup_labels (alab (axis_intersection a b)) = true.
Proof.
  intros Ha. unfold axis_intersection. destruct (merge_kind (akind a) (akind b)) as [k consistent].
  rewrite !ax_cast_labels. unfold alen. rewrite !ax_cast_labels.
  destruct (labels_eqb (alab a) (alab b)); [rewrite ax_cast_labels; exact Ha|].
  destruct ((List.length (alab a) =? 0) || (List.length (alab b) =? 0)); [reflexivity|].
  simpl. apply nodup_labels_filter. exact Ha.
Qed.

(* ------------------------------------------------------------------ align: every array gets the common axis *)
Definition labels_match (x y : list label) : Prop :=
  List.length x = List.length y /\ forall k, k < List.length y -> label_eqb (nth k x LNone) (nth k y LNone) = true.

Lemma find_dim_lt ds s i : find_dim ds s = Some i -> i < List.length ds.
Proof. unfold find_dim. intros H. apply (index_of_some _ _ _ H). Qed.

Lemma map_alen_set_nth_same i x axs :
  i < List.length axs -> alen x = alen (nth i axs dax0) -> map alen (set_nth i x axs) = map alen axs.
Proof.
  intros Hi Hx. rewrite map_set_nth, Hx.
  rewrite <- (nth_map_in alen axs i dax0 0) by exact Hi. apply set_nth_same.
Qed.

(* one reindexing step onto an Axis object: the named dimension takes exactly the labels of the
   axis, every other axis record is untouched, names and metadata are kept *)
Theorem reindex_to_axis_spec nx a a' i :
  wf_shape a -> find_dim (dims a) (aname nx) = Some i ->
  reindex_to_axis nx a = Ok a' ->
  labels_match (alab (nth i (axes a') dax0)) (alab nx) /\
  (forall j, j <> i -> nth j (axes a') dax0 = nth j (axes a) dax0) /\
  aname (nth i (axes a') dax0) = aname (nth i (axes a) dax0) /\
  List.length (axes a') = List.length (axes a) /\
  attrs a' = attrs a /\ wf_shape a'.
Proof.
  intros Hwf Hfind. unfold reindex_to_axis. rewrite reindex_dispatch. unfold resolve_axis. rewrite Hfind.
  cbn [bind].
  assert (Hi : i < List.length (axes a)).
  { pose proof (find_dim_lt _ _ _ Hfind) as H. unfold dims in H. rewrite map_length in H. exact H. }
  destruct ((alen (nth i (axes a) dax0) =? 0) && negb (List.length (alab nx) =? 0)) eqn:Ecase.
  - intros H. destruct Hwf as [Hsa Hda].
    destruct (reindex_empty_spec _ _ _ _ _ _ _ Hi Hsa H) as [Hat [Hl [Hn [Ho [Hw _]]]]].
    split; [rewrite Hl; split; [reflexivity | intros; apply label_eqb_refl]|].
    split; [exact Ho|]. split; [exact Hn|].
    split; [|split; assumption].
    unfold reindex_empty in H. destruct (cell_to_kind _ CNaN); simpl in H; [|discriminate].
    injection H as <-. simpl. apply set_nth_length.
  - intros H. destruct (reindex_spec _ _ _ _ _ _ _ Hwf H) as [idxs [Hloc [Hlen [Hat [Ho [Hn [Hlab Hcell]]]]]]].
    split; [apply Hlab; exact Hi|]. split; [exact Ho|]. split; [exact Hn|].
    assert (Hlen' : List.length (axes a') = List.length (axes a)).
    { unfold reindex_main in H. rewrite Hloc in H. cbn [bind] in H.
      destruct (existsb _ _).
      - destruct (fill_axis _ _ _ _ _) as [o'|] eqn:Ef; simpl in H; [|discriminate].
        injection H as <-. simpl. rewrite set_nth_length.
        destruct (fill_axis_spec _ _ _ _ _ _ Ef) as [Hax _]. rewrite Hax. simpl. apply set_nth_length.
      - injection H as <-. simpl. apply set_nth_length. }
    split; [exact Hlen'|]. split; [exact Hat|].
    (* well-formedness of the result *)
    unfold reindex_main in H. rewrite Hloc in H. cbn [bind] in H.
    destruct Hwf as [Hsa Hda].
    assert (Hwo : wf_shape (take_axis_pos idxs i a)).
    { unfold take_axis_pos. apply wf_shape_mk. rewrite map_set_nth, Hsa. unfold alen. simpl. rewrite map_length. reflexivity. }
    destruct (existsb _ _).
    + destruct (fill_axis _ _ _ _ _) as [o'|] eqn:Ef; simpl in H; [|discriminate].
      injection H as <-. destruct (fill_axis_spec _ _ _ _ _ _ Ef) as [Hax [_ [Hsh _]]].
      split; simpl.
      * rewrite Hsh. destruct Hwo as [Hso _]. rewrite <- Hso, <- Hax.
        apply map_alen_set_nth_same; [rewrite Hax; simpl; rewrite set_nth_length; exact Hi|].
        unfold alen. simpl. rewrite map_length, combine_length, map_length, combine_length, map_length, combine_length.
        rewrite Hax. unfold take_axis_pos. simpl. rewrite nth_set_nth_eq by exact Hi. simpl. rewrite map_length. lia.
      * unfold fill_axis in Ef. destruct (mapM _ _) as [nd|] eqn:Em; simpl in Ef; [|discriminate].
        injection Ef as <-. simpl. rewrite (mapM_length _ _ _ Em), coords_length. reflexivity.
    + injection H as <-. exact Hwo.
Qed.

Lemma dims_eq_of_pointwise a a' :
  List.length (axes a') = List.length (axes a) ->
  (forall j, aname (nth j (axes a') dax0) = aname (nth j (axes a) dax0)) -> dims a' = dims a.
Proof.
  intros Hl Hn. unfold dims. apply (list_ext EmptyString); [rewrite !map_length; exact Hl|].
  intros j Hj. rewrite map_length in Hj.
  rewrite (nth_map_in _ _ _ dax0) by exact Hj. rewrite (nth_map_in _ _ _ dax0) by (rewrite <- Hl; exact Hj). apply Hn.
Qed.

Lemma find_dim_name ds s i : find_dim ds s = Some i -> nth i ds EmptyString = s.
Proof.
  unfold find_dim. intros H. destruct (index_of_some _ _ _ H) as [_ [E _]]. specialize (E EmptyString).
  apply String.eqb_eq in E. auto.
Qed.

Lemma axis_of_some a d own :
  axis_of a d = Some own -> exists i, find_dim (dims a) d = Some i /\ nth i (axes a) dax0 = own /\ i < List.length (axes a).
Proof.
  unfold axis_of. destruct (find_dim (dims a) d) as [i|] eqn:E; [|discriminate]. intros H. exists i.
  split; [reflexivity|]. pose proof (find_dim_lt _ _ _ E) as Hi. unfold dims in Hi. rewrite map_length in Hi.
  split; [|exact Hi]. apply nth_error_nth with (d := dax0) in H. exact H.
Qed.

(* frame: aligning never changes dims, metadata, well-formedness, nor any axis whose name is not among
   the target axes *)
Theorem align_one_frame axs a a' :
  wf_shape a -> align_one axs a = Ok a' ->
  dims a' = dims a /\ attrs a' = attrs a /\ wf_shape a' /\
  forall i, ~ In (nth i (dims a) EmptyString) (map aname axs) -> nth i (axes a') dax0 = nth i (axes a) dax0.
Proof.
  revert a; induction axs as [|ax t IH]; intros a Hwf H; simpl in H.
  - injection H as <-. auto.
  - destruct (axis_of a (aname ax)) as [own|] eqn:Eo.
    + destruct (axis_same own ax).
      * destruct (IH a Hwf H) as [H1 [H2 [H3 H4]]]. split; [exact H1|]. split; [exact H2|]. split; [exact H3|].
        intros i Hi. apply H4. intros Hin. apply Hi. right. exact Hin.
      * destruct (reindex_to_axis ax a) as [a1|] eqn:Er; simpl in H; [|discriminate].
        destruct (axis_of_some _ _ _ Eo) as [i0 [Hf [_ Hi0]]].
        destruct (reindex_to_axis_spec ax a a1 i0 Hwf Hf Er) as [_ [Ho [Hn [Hl [Hat Hw]]]]].
        assert (Hd : dims a1 = dims a).
        { apply dims_eq_of_pointwise; [exact Hl|]. intros j. destruct (Nat.eq_dec j i0) as [->|Hne]; [exact Hn|].
          rewrite (Ho j Hne). reflexivity. }
        destruct (IH a1 Hw H) as [H1 [H2 [H3 H4]]].
        split; [congruence|]. split; [congruence|]. split; [exact H3|].
        intros i Hi. rewrite H4 by (rewrite Hd; intros Hin; apply Hi; right; exact Hin).
        apply Ho. intros ->. apply Hi. left. symmetry. apply (find_dim_name _ _ _ Hf).
    + destruct (IH a Hwf H) as [H1 [H2 [H3 H4]]]. split; [exact H1|]. split; [exact H2|]. split; [exact H3|].
      intros i Hi. apply H4. intros Hin. apply Hi. right. exact Hin.
Qed.

Lemma labels_eqb_match x y : labels_eqb x y = true -> labels_match x y.
Proof.
  revert y; induction x as [|a x IH]; intros [|b y]; simpl; try discriminate.
  - intros _. split; [reflexivity|]. intros k Hk. simpl in Hk. lia.
  - unfold labels_eqb. simpl. rewrite andb_true_iff. intros [E H]. destruct (IH y H) as [Hl Hm].
    split; [simpl; lia|]. intros [|k] Hk; simpl in *; [exact E | apply Hm; lia].
Qed.

(* main: after align_one, every dimension of the array that is named by one of the (distinctly named)
   common axes carries exactly the labels of that common axis *)
Theorem align_one_labels axs a a' :
  wf_shape a -> NoDup (map aname axs) -> align_one axs a = Ok a' ->
  forall ax i, In ax axs -> find_dim (dims a) (aname ax) = Some i ->
    labels_match (alab (nth i (axes a') dax0)) (alab ax).
Proof.
  revert a; induction axs as [|ax0 t IH]; intros a Hwf Hnd H ax i Hin Hf; [contradiction|].
  simpl in H. inversion Hnd as [|? ? Hn0 Hnd']; subst.
  assert (Hi : i < List.length (axes a)).
  { pose proof (find_dim_lt _ _ _ Hf) as Hlt. unfold dims in Hlt. rewrite map_length in Hlt. exact Hlt. }
  destruct Hin as [->|Hin].
  - (* the head axis: set now, untouched afterwards *)
    unfold axis_of in H. rewrite Hf in H.
    rewrite (nth_error_nth' _ dax0 Hi) in H.
    assert (Hname : nth i (dims a) EmptyString = aname ax) by (apply (find_dim_name _ _ _ Hf)).
    destruct (axis_same (nth i (axes a) dax0) ax) eqn:Esame.
    + destruct (align_one_frame t a a' Hwf H) as [_ [_ [_ Hfr]]].
      rewrite Hfr by (rewrite Hname; exact Hn0).
      unfold axis_same in Esame. apply andb_true_iff in Esame. apply labels_eqb_match. tauto.
    + destruct (reindex_to_axis ax a) as [a1|] eqn:Er; simpl in H; [|discriminate].
      destruct (reindex_to_axis_spec ax a a1 i Hwf Hf Er) as [Hm [Ho [Hn [Hl [Hat Hw]]]]].
      assert (Hd : dims a1 = dims a).
      { apply dims_eq_of_pointwise; [exact Hl|]. intros j. destruct (Nat.eq_dec j i) as [->|Hne]; [exact Hn|].
        rewrite (Ho j Hne). reflexivity. }
      destruct (align_one_frame t a1 a' Hw H) as [_ [_ [_ Hfr]]].
      rewrite Hfr by (rewrite Hd, Hname; exact Hn0). exact Hm.
  - (* an axis of the tail: the head step preserves dims and well-formedness *)
    destruct (axis_of a (aname ax0)) as [own|] eqn:Eo.
    + destruct (axis_same own ax0).
      * apply (IH a Hwf Hnd' H ax i Hin Hf).
      * destruct (reindex_to_axis ax0 a) as [a1|] eqn:Er; simpl in H; [|discriminate].
        destruct (axis_of_some _ _ _ Eo) as [i0 [Hf0 [_ Hi0]]].
        destruct (reindex_to_axis_spec ax0 a a1 i0 Hwf Hf0 Er) as [_ [Ho [Hn [Hl [Hat Hw]]]]].
        assert (Hd : dims a1 = dims a).
        { apply dims_eq_of_pointwise; [exact Hl|]. intros j. destruct (Nat.eq_dec j i0) as [->|Hne]; [exact Hn|].
          rewrite (Ho j Hne). reflexivity. }
        apply (IH a1 Hw Hnd' H ax i Hin). rewrite Hd. exact Hf.
    + apply (IH a Hwf Hnd' H ax i Hin Hf).
Qed.

(* ------------------------------------------------------------------ the n-ary fold _common_axis *)
Lemma is_none_axis_mem a : is_none_axis a = true -> mem_label LNone (alab a) = true.
Proof.
  unfold is_none_axis. destruct (alab a) as [|[[q|s|]|t] r]; try discriminate. intros _. reflexivity.
Qed.

(* over any number of inputs (none of which carries the placeholder label None): the common axis holds exactly
   the labels that some input has (outer) / that every input has (inner) *)
Theorem common_axis_outer_set axs r :
  Forall (fun a => mem_label LNone (alab a) = false) axs -> common_axis axs Outer = Ok r ->
  forall l, mem_label l (alab r) = existsb (fun a => mem_label l (alab a)) axs.
Proof.
  revert r. induction axs as [|a0 t IH]; intros r Hn H l; [discriminate|].
  destruct t as [|a1 t'].
  - injection H as <-. simpl. rewrite orb_false_r. reflexivity.
  - inversion Hn as [|? ? H0 Ht]; subst.
    change (common_axis (a0 :: a1 :: t') Outer) with
      (let! x := common_axis (a1 :: t') Outer in
       if is_none_axis a0 then Ok x else if (alen x =? 1) && is_none_axis x then Ok a0 else Ok (axis_union a0 x)) in H.
    destruct (common_axis (a1 :: t') Outer) as [x|] eqn:E; cbn [bind] in H; [|discriminate].
    pose proof (IH x Ht eq_refl) as IHx.
    assert (N0 : is_none_axis a0 = false).
    { destruct (is_none_axis a0) eqn:E0; [|reflexivity]. apply is_none_axis_mem in E0. congruence. }
    assert (Nx : is_none_axis x = false).
    { destruct (is_none_axis x) eqn:Ex; [|reflexivity]. apply is_none_axis_mem in Ex. rewrite (IHx LNone) in Ex.
      apply existsb_exists in Ex. destruct Ex as [y [Hy Ey]]. rewrite Forall_forall in Ht. rewrite (Ht y Hy) in Ey. discriminate. }
    rewrite N0, Nx, andb_false_r in H. injection H as <-.
    rewrite axis_union_mem, IHx. reflexivity.
Qed.
Theorem common_axis_inner_set axs r :
  Forall (fun a => mem_label LNone (alab a) = false) axs -> common_axis axs Inner = Ok r ->
  forall l, mem_label l (alab r) = forallb (fun a => mem_label l (alab a)) axs.
Proof.
  revert r. induction axs as [|a0 t IH]; intros r Hn H l; [discriminate|].
  destruct t as [|a1 t'].
  - injection H as <-. simpl. rewrite andb_true_r. reflexivity.
  - inversion Hn as [|? ? H0 Ht]; subst.
    change (common_axis (a0 :: a1 :: t') Inner) with
      (let! x := common_axis (a1 :: t') Inner in
       if is_none_axis a0 then Ok x else if (alen x =? 1) && is_none_axis x then Ok a0 else Ok (axis_intersection a0 x)) in H.
    destruct (common_axis (a1 :: t') Inner) as [x|] eqn:E; cbn [bind] in H; [|discriminate].
    pose proof (IH x Ht eq_refl) as IHx.
    assert (N0 : is_none_axis a0 = false).
    { destruct (is_none_axis a0) eqn:E0; [|reflexivity]. apply is_none_axis_mem in E0. congruence. }
    assert (Nx : is_none_axis x = false).
    { destruct (is_none_axis x) eqn:Ex; [|reflexivity]. apply is_none_axis_mem in Ex. rewrite (IHx LNone) in Ex.
      inversion Ht as [|? ? H1 _]; subst. simpl in Ex. rewrite H1 in Ex. discriminate. }
    rewrite N0, Nx, andb_false_r in H. injection H as <-.
    rewrite axis_intersection_mem, IHx. reflexivity.
Qed.

(* ------------------------------------------------------------------ the kind of a merged axis (GENERATED _get_cast_kind) *)
(* an integer axis merged with a float axis is a float axis (no label is truncated), equal kinds stay, an object axis wins *)
Lemma merge_kind_table :
  merge_kind KI KF = (KF, true) /\ merge_kind KF KI = (KF, true) /\ merge_kind KI KI = (KI, true) /\ merge_kind KF KF = (KF, true) /\
  (forall k, k <> KO -> merge_kind KO k = (KO, false) /\ merge_kind k KO = (KO, false)) /\ merge_kind KO KO = (KO, true).
Proof.
  repeat split; try reflexivity; destruct k; try reflexivity; contradiction.
Qed.
