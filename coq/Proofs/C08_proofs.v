(* C08: reductions equal NumPy's along the named axis and drop only that axis. *)
From Coq Require Import Qround Qabs.
From DA Require Import Prelude NDArray Array PyRT.
From DA.Model Require Import Value Reshape SliceSpec Indexing Align Transform Flatten.
From DA.Proofs Require Import ListLemmas C10_proofs.
Open Scope nat_scope.

(* along one axis: the axis is dropped, the others keep their records and order, metadata carried,
   and every result cell is the function applied to the 1-D fibre through that cell, enumerated in
   axis order *)
Theorem reduce_axis_arr f skipna i a r :
  wf_shape a -> i < List.length (axes a) ->
  reduce_axis f skipna i a = Ok (VArr r) ->
  axes r = remove_nth i (axes a) /\ attrs r = attrs a /\ wf_shape r /\
  kd (vals r) = red_kind f (kd (vals a)) /\
  forall c', inb (sh (vals r)) c' = true ->
    get (vals r) c' = red_cell_k f skipna (kd (vals a))
                        (map (fun j => get (vals a) (insert_nth i j c')) (seq 0 (nth i (sh (vals a)) 0))).
Proof.
  intros [Hsa Hda] Hi. unfold reduce_axis. cbn [np_reduce sh mk].
  destruct (remove_nth i (sh (vals a))) eqn:Es; [discriminate|].
  intros [= <-]. simpl. split; [reflexivity|]. split; [reflexivity|]. split.
  - split; simpl; [rewrite map_remove_nth, Hsa, Es; reflexivity | rewrite Es; apply tab_length].
  - split; [reflexivity|]. intros c' Hc'. rewrite Es in Hc'. unfold get at 1, getl. simpl. rewrite Es.
    fold (getl CNaN (n :: l) (tab (n :: l) (fun c'0 => red_cell_k f skipna (kd (vals a)) (fibre (vals a) i c'0))) c').
    rewrite get_tab by exact Hc'. reflexivity.
Qed.

(* a 1-D array reduced along its axis, or axis=None: a scalar of f over all cells in row-major order *)
Theorem reduce_all_spec f skipna a :
  reduce_all f skipna a = Ok (VCell (red_cell_k f skipna (kd (vals a)) (dat (vals a)))).
Proof. reflexivity. Qed.

Theorem reduce_axis_scalar f skipna i a c :
  reduce_axis f skipna i a = Ok (VCell c) ->
  remove_nth i (sh (vals a)) = [] /\
  c = red_cell_k f skipna (kd (vals a)) (map (fun j => get (vals a) (insert_nth i j [])) (seq 0 (nth i (sh (vals a)) 0))).
Proof.
  unfold reduce_axis. cbn [np_reduce sh mk].
  destruct (remove_nth i (sh (vals a))) eqn:Es; [|discriminate].
  intros [= <-]. split; [reflexivity|]. unfold get at 1, getl. simpl. rewrite Es. reflexivity.
Qed.

(* NaN policy.  skipna=False: a NaN anywhere in the reduced slice makes the result NaN (median
   included; all/any are boolean tests and have no NaN result) *)
Theorem red_cell_nan f l :
  f <> RAll -> f <> RAny -> has_nan l = true -> red_cell f false l = CNaN.
Proof. intros H1 H2 Hn. destruct f; try congruence; simpl; rewrite Hn; reflexivity. Qed.

Lemma drop_nan_idem l : drop_nan (drop_nan l) = drop_nan l.
Proof.
  unfold drop_nan. induction l as [|c l IH]; simpl; [reflexivity|].
  destruct (is_nan c) eqn:E; simpl; [exact IH | rewrite E; simpl; f_equal; exact IH].
Qed.
Lemma has_nan_drop l : has_nan (drop_nan l) = false.
Proof.
  unfold has_nan, drop_nan. induction l as [|c l IH]; simpl; [reflexivity|].
  destruct (is_nan c) eqn:E; simpl; [exact IH | rewrite E; exact IH].
Qed.
(* skipna=True: NaNs are ignored as missing values: the result is that of the same function on the
   slice without its NaNs *)
Theorem red_cell_skipna f l : red_cell f true l = red_cell f false (drop_nan l).
Proof. unfold red_cell. destruct f; reflexivity. Qed.

(* a tuple of dimensions: flatten the group in the LISTED order to the front, reduce position 0 *)
Theorem reduce_tuple f skipna rs a :
  reduce_any f skipna (AxMany rs) a =
  (let! b := flatten rs false (Some 0%Z) a in reduce_axis f skipna 0 b).
Proof. reflexivity. Qed.

(* name or position *)
Theorem reduce_one f skipna r a :
  reduce_any f skipna (AxOne r) a = (let! i := axis_info a r in reduce_axis f skipna i a).
Proof. reflexivity. Qed.
