(* C20: on-disk access = in-memory access. *)
From Coq Require Import Qround Qabs.
From DA Require Import Prelude NDArray Array PyRT.
From DA.Model Require Import Value Reshape SliceSpec Indexing Align NcFile NcAccess.
From DA.Proofs Require Import ListLemmas C10_proofs.
Open Scope string_scope.
Open Scope nat_scope.
Open Scope list_scope.

Definition pidx_ok (p : pidx) (n : nat) : Prop :=
  match p with XInt i => i < n | XPos l => Forall (fun j => j < n) l | XFull => True end.

Lemma set_nth_app_len {A} (pre : list A) x y t : set_nth (List.length pre) y (pre ++ x :: t) = pre ++ y :: t.
Proof. induction pre as [|z pre IH]; simpl; [reflexivity | f_equal; exact IH]. Qed.
Lemma nth_app_len {A} (pre : list A) x t d : nth (List.length pre) (pre ++ x :: t) d = x.
Proof. induction pre as [|z pre IH]; simpl; [reflexivity | exact IH]. Qed.
Lemma remove_nth_app_len_ {A} (pre : list A) x t : remove_nth (List.length pre) (pre ++ x :: t) = pre ++ t.
Proof. induction pre as [|y pre IH]; simpl; [reflexivity | f_equal; exact IH]. Qed.
Lemma insert_nth_app_len {A} (pre : list A) x t : insert_nth (List.length pre) x (pre ++ t) = pre ++ x :: t.
Proof. induction pre as [|y pre IH]; simpl; [destruct t; reflexivity | f_equal; exact IH]. Qed.

Lemma get_take idxs ax a c' : inb (set_nth ax (List.length idxs) (sh a)) c' = true ->
  get (np_take idxs ax a) c' = get a (set_nth ax (nth (nth ax c' 0) idxs 0) c').
Proof. intros H. unfold np_take. rewrite get_mk by exact H. reflexivity. Qed.
Lemma get_squeeze pos a c' : inb (remove_nth pos (sh a)) c' = true ->
  get (np_squeeze1 pos a) c' = get a (insert_nth pos 0 c').
Proof. intros H. unfold np_squeeze1. rewrite get_mk by exact H. reflexivity. Qed.

(* the dimensions from k on are sampled independently; the k dimensions before are untouched *)
Lemma ortho_from_spec ps : forall pre suf a,
  sh a = pre ++ suf -> List.length ps = List.length suf -> Forall2 pidx_ok ps suf ->
  sh (ortho_from (List.length pre) ps a) = pre ++ out_shape ps suf /\
  forall cpre c', inb pre cpre = true -> inb (out_shape ps suf) c' = true ->
    get (ortho_from (List.length pre) ps a) (cpre ++ c') = get a (cpre ++ src_of ps c').
Proof.
  induction ps as [|p t IH]; intros pre suf a Hs Hl Hok.
  - destruct suf; [|discriminate]. simpl. split; [exact Hs|]. intros cpre c' _ Hc. destruct c'; [reflexivity | discriminate].
  - destruct suf as [|n suf']; [discriminate|]. inversion Hok as [|? ? ? ? Hp Hok']; subst.
    assert (Hs' : sh a = (pre ++ [n]) ++ suf') by (rewrite <- app_assoc; exact Hs).
    assert (Hl' : List.length t = List.length suf') by (simpl in Hl; lia).
    destruct (IH (pre ++ [n]) suf' a Hs' Hl' Hok') as [Hsh Hget].
    assert (Hk : List.length (pre ++ [n]) = S (List.length pre)) by (rewrite app_length; simpl; lia).
    rewrite Hk in Hsh, Hget. rewrite <- app_assoc in Hsh. simpl in Hsh.
    cbn [ortho_from]. set (a' := ortho_from (S (List.length pre)) t a) in *.
    destruct p as [i|l|].
    + (* an integer: take [i], then drop the dimension *)
      cbn [out_shape src_of]. split.
      * unfold np_squeeze1, np_take. simpl. rewrite Hsh. rewrite set_nth_app_len. apply remove_nth_app_len_.
      * intros cpre c' Hcp Hc.
        assert (Hlen : List.length cpre = List.length pre) by (apply inb_length; exact Hcp).
        rewrite get_squeeze.
        2:{ unfold np_take; simpl. rewrite Hsh, set_nth_app_len, remove_nth_app_len_. rewrite inb_app by exact Hlen. rewrite Hcp, Hc. reflexivity. }
        rewrite <- Hlen. rewrite insert_nth_app_len. rewrite Hlen.
        rewrite get_take.
        2:{ rewrite Hsh, set_nth_app_len. rewrite inb_app by exact Hlen. rewrite Hcp. simpl. rewrite Hc. reflexivity. }
        rewrite <- Hlen. rewrite nth_app_len. simpl nth. rewrite set_nth_app_len.
        specialize (Hget (cpre ++ [i]) c'). rewrite <- !app_assoc in Hget. simpl in Hget. apply Hget; [|exact Hc].
        rewrite inb_app by exact Hlen. rewrite Hcp. simpl. simpl in Hp. apply Nat.ltb_lt in Hp. rewrite Hp. reflexivity.
    + (* a list of positions *)
      cbn [out_shape]. split.
      * unfold np_take. simpl. rewrite Hsh. apply set_nth_app_len.
      * intros cpre c' Hcp Hc. destruct c' as [|j c'']; [discriminate|].
        assert (Hlen : List.length cpre = List.length pre) by (apply inb_length; exact Hcp).
        simpl in Hc. apply andb_true_iff in Hc. destruct Hc as [Hj Hc]. apply Nat.ltb_lt in Hj.
        rewrite get_take.
        2:{ rewrite Hsh, set_nth_app_len. rewrite inb_app by exact Hlen. rewrite Hcp. simpl. rewrite Hc. apply Nat.ltb_lt in Hj. rewrite Hj. reflexivity. }
        rewrite <- Hlen. rewrite nth_app_len, set_nth_app_len. cbn [src_of].
        specialize (Hget (cpre ++ [nth j l 0]) c''). rewrite <- !app_assoc in Hget. simpl in Hget. apply Hget; [|exact Hc].
        rewrite inb_app by exact Hlen. rewrite Hcp. simpl. simpl in Hp. rewrite Forall_forall in Hp.
        assert (Hlt : nth j l 0 < n) by (apply Hp; apply nth_In; exact Hj). apply Nat.ltb_lt in Hlt. rewrite Hlt. reflexivity.
    + (* the whole dimension *)
      cbn [out_shape]. split; [exact Hsh|].
      intros cpre c' Hcp Hc. destruct c' as [|j c'']; [discriminate|].
      assert (Hlen : List.length cpre = List.length pre) by (apply inb_length; exact Hcp).
      simpl in Hc. apply andb_true_iff in Hc. destruct Hc as [Hj Hc]. cbn [src_of].
      specialize (Hget (cpre ++ [j]) c''). rewrite <- !app_assoc in Hget. simpl in Hget. apply Hget; [|exact Hc].
      rewrite inb_app by exact Hlen. rewrite Hcp. simpl. rewrite Hj. reflexivity.
Qed.

Lemma ortho_wf_data ps : forall k a, List.length (dat a) = prod (sh a) -> List.length (dat (ortho_from k ps a)) = prod (sh (ortho_from k ps a)).
Proof.
  induction ps as [|p t IH]; intros k a H; simpl; [exact H|].
  destruct p; [unfold np_squeeze1; simpl; apply tab_length | unfold np_take; simpl; apply tab_length | apply IH; exact H].
Qed.

(* netCDF4's orthogonal indexing and NumPy's ix_ indexing select the same cells *)
Theorem nc_ortho_is_outer ps a :
  List.length (dat a) = prod (sh a) -> List.length ps = List.length (sh a) -> Forall2 pidx_ok ps (sh a) ->
  sh (nc_ortho ps a) = sh (np_outer ps a) /\ dat (nc_ortho ps a) = dat (np_outer ps a).
Proof.
  intros Hd Hl Hok. destruct (ortho_from_spec ps [] (sh a) a eq_refl Hl Hok) as [Hsh Hget]. simpl in Hsh, Hget.
  split; [exact Hsh|]. unfold nc_ortho.
  apply (list_ext CNaN).
  - rewrite (ortho_wf_data ps 0 a Hd). rewrite Hsh. unfold np_outer, mk; simpl. rewrite tab_length. reflexivity.
  - intros i Hi.
    assert (Hi' : i < prod (out_shape ps (sh a))) by (rewrite (ortho_wf_data ps 0 a Hd), Hsh in Hi; exact Hi).
    pose proof (unravel_inb _ _ Hi') as Hin.
    specialize (Hget [] (unravel (out_shape ps (sh a)) i) eq_refl Hin). simpl in Hget.
    unfold get, getl in Hget. rewrite Hsh in Hget. rewrite ravel_unravel in Hget by exact Hi'. rewrite Hget.
    unfold np_outer, mk; simpl.
    pose proof (get_tab CNaN (out_shape ps (sh a)) (fun c' => get a (src_of ps c')) _ Hin) as Ht.
    unfold getl in Ht. rewrite ravel_unravel in Ht by exact Hi'. rewrite Ht. reflexivity.
Qed.

Lemma ortho_kind ps : forall k a, kd (ortho_from k ps a) = kd a.
Proof. induction ps as [|p t IH]; intros k a; simpl; [reflexivity|]. destruct p; simpl; apply IH. Qed.

Theorem nc_ortho_eq_outer ps a :
  List.length (dat a) = prod (sh a) -> List.length ps = List.length (sh a) -> Forall2 pidx_ok ps (sh a) ->
  nc_ortho ps a = np_outer ps a.
Proof.
  intros Hd Hl Hok. destruct (nc_ortho_is_outer ps a Hd Hl Hok) as [H1 H2].
  apply nd_eq; [exact H1 | exact H2 |]. unfold nc_ortho. rewrite ortho_kind. reflexivity.
Qed.

Lemma all_int_out_shape ps : forall s, all_int ps = true -> List.length ps = List.length s -> out_shape ps s = [].
Proof.
  induction ps as [|p t IH]; intros s H Hl; [reflexivity|]. destruct s as [|n s']; [discriminate|].
  destruct p; simpl in H; try discriminate. simpl. apply IH; [exact H | simpl in Hl; lia].
Qed.

(* reading through the on-disk handle = indexing the loaded variable: same positions (the index resolution is
   shared), same cells (orthogonal = ix_), same axes, same metadata *)
Theorem ondisk_read_is_loaded_read f v fm tol kd ps :
  let a := nc_read_var f v in
  wf_shape a -> get_indices a fm tol kd = Ok ps -> Forall2 pidx_ok ps (sh (vals a)) ->
  ondisk_getitem f v fm tol kd = loaded_getitem f v fm tol kd.
Proof.
  intros a [Hs Hd] Hps Hok. unfold ondisk_getitem, loaded_getitem, getitem. fold a. rewrite Hps. cbn [bind].
  assert (Hl : List.length ps = List.length (sh (vals a))) by (clear -Hok; induction Hok; simpl; [reflexivity | f_equal; assumption]).
  rewrite (nc_ortho_eq_outer ps (vals a) Hd Hl Hok).
  destruct (all_int ps) eqn:Eint; [|reflexivity].
  f_equal. f_equal. unfold np_outer. rewrite get_mk; [reflexivity|].
  rewrite (all_int_out_shape ps (sh (vals a)) Eint Hl). reflexivity.
Qed.

(* ------------------------------------------------------------------ growth of an unlimited dimension *)
From DA.Proofs Require Import C19_proofs.

(* writing m rows with their labels just beyond the end of the unlimited leading dimension d: afterwards the
   variable reads as the old rows followed by the new ones, the axis as the old labels followed by the new
   ones, every other axis and the metadata as before *)
Theorem append_rows_spec name d labs rows f g v cv rest :
  name <> d ->
  assoc name (nf_vars f) = Some v -> assoc d (nf_vars f) = Some cv -> nv_dims v = d :: rest ->
  ~ In d rest -> ~ In name rest ->
  nc_append_rows name d labs rows f = Ok g ->
  exists v', assoc name (nf_vars g) = Some v' /\
    let a := nc_read_var f v in let a' := nc_read_var g v' in
    sh (vals a') = (dim_size f d + List.length labs) :: tl (sh (vals a)) /\
    dat (vals a') = dat (vals a) ++ rows /\
    alab (nth 0 (axes a') dax0) = alab (nth 0 (axes a) dax0) ++ map cell_label (map label_cell labs) /\
    tl (axes a') = tl (axes a) /\ attrs a' = attrs a /\ kd (vals a') = kd (vals a).
Proof.
  intros Hne Hv Hcv Hdims Hnr Hnn H. unfold nc_append_rows in H. rewrite Hv, Hcv in H.
  destruct (negb (mem_str d (nf_unl f))); [discriminate|]. rewrite Hdims in H. rewrite String.eqb_refl in H. cbn [negb] in H.
  destruct (negb (_ =? _)); [discriminate|]. injection H as <-.
  set (v1 := {| nv_dims := d :: rest; nv_kind := nv_kind v; nv_data := nv_data v ++ rows; nv_attrs := nv_attrs v |}).
  set (cv1 := {| nv_dims := nv_dims cv; nv_kind := nv_kind cv; nv_data := nv_data cv ++ map label_cell labs; nv_attrs := nv_attrs cv |}).
  set (g := set_dim d (dim_size f d + List.length labs) (set_var d cv1 (set_var name v1 f))).
  assert (Hg_name : assoc name (nf_vars g) = Some v1).
  { unfold g, set_dim, set_var; simpl. rewrite assoc_set_other by exact Hne. apply assoc_set_same. }
  assert (Hg_d : assoc d (nf_vars g) = Some cv1) by (unfold g, set_dim, set_var; simpl; apply assoc_set_same).
  assert (Hds_d : dim_size g d = dim_size f d + List.length labs) by (unfold dim_size, g, set_dim; simpl; rewrite assoc_set_same; reflexivity).
  assert (Hds : forall x, x <> d -> dim_size g x = dim_size f x).
  { intros x Hx. unfold dim_size, g, set_dim; simpl. rewrite assoc_set_other by exact Hx. reflexivity. }
  assert (Hax : forall x, x <> d -> x <> name -> nc_axis g x = nc_axis f x).
  { intros x Hx Hxn. unfold nc_axis. rewrite (Hds x Hx).
    assert (E : assoc x (nf_vars g) = assoc x (nf_vars f)) by (unfold g, set_dim, set_var; simpl; rewrite !assoc_set_other by assumption; reflexivity).
    rewrite E. reflexivity. }
  exists v1. split; [exact Hg_name|]. cbv zeta. unfold nc_read_var. unfold v1 at 1 2 3 4 5 6. cbn [nv_dims nv_kind nv_data nv_attrs].
  rewrite Hdims. cbn [map mkarr vals axes attrs sh dat kd tl nth].
  repeat split.
  - rewrite Hds_d. f_equal. apply map_ext_in. intros x Hx. apply Hds. intros ->. contradiction.
  - unfold v1. cbn [nv_dims map nth]. unfold nc_axis. rewrite Hg_d, Hcv. unfold cv1. simpl. rewrite map_app. reflexivity.
  - unfold v1. cbn [nv_dims map tl]. apply map_ext_in. intros x Hx. apply Hax; intros ->; contradiction.
Qed.
