(* C03: assignment writes exactly the addressed cells. *)
From Coq Require Import Qround.
From DA Require Import Prelude NDArray Array PyRT.
From DA.Gen Require Import cast.
From DA.Model Require Import Value Reshape SliceSpec Indexing.
From DA.Proofs Require Import ListLemmas C10_proofs C01_proofs.
Open Scope nat_scope.

Lemma mapM_nth {A B} (f : A -> res B) l r i da db :
  mapM f l = Ok r -> i < List.length l -> f (nth i l da) = Ok (nth i r db).
Proof.
  revert r i; induction l as [|x l IH]; intros r i; simpl; [intros _ H; lia|].
  destruct (f x) as [y|] eqn:Ex; simpl; [|discriminate].
  destruct (mapM f l) as [ys|] eqn:Em; simpl; [|discriminate].
  intros [= <-] Hi. destruct i as [|i]; simpl; [exact Ex|]. apply IH; [reflexivity | lia].
Qed.

(* ------------------------------------------------------------------ the addressed set *)
Lemma find_last_acc l j k acc r :
  find_last l j k acc = Some r -> (acc = Some r /\ forall i, i < List.length l -> nth i l 0 <> j) \/
                                  (k <= r /\ r - k < List.length l /\ nth (r - k) l 0 = j).
Proof.
  revert k acc; induction l as [|x l IH]; intros k acc H; simpl in *.
  - left. split; [exact H|]. intros; lia.
  - apply IH in H. destruct H as [[Hacc Hno]|[H1 [H2 H3]]].
    + destruct (Nat.eqb_spec x j) as [E|NE].
      * right. injection Hacc as <-. rewrite Nat.sub_diag. split; [lia|]. split; [lia|exact E].
      * left. split; [exact Hacc|]. intros [|i] Hi; [exact NE|]. apply Hno. lia.
    + right. split; [lia|]. split; [lia|]. replace (r - k) with (S (r - S k)) by lia. exact H3.
Qed.

Lemma find_last_sound l j r : find_last l j 0 None = Some r -> r < List.length l /\ nth r l 0 = j.
Proof.
  intros H. apply find_last_acc in H. destruct H as [[H _]|[_ [H2 H3]]]; [discriminate|].
  rewrite Nat.sub_0_r in *. auto.
Qed.

(* a cell is addressed only if the same index would read it: the box coordinate maps back to it *)
Theorem box_coord_sound ps c bc : box_coord ps c = Some bc -> src_of ps bc = c.
Proof.
  revert c bc; induction ps as [|p ps IH]; intros [|j c] bc; simpl; try discriminate.
  - intros [= <-]. reflexivity.
  - destruct p; discriminate.
  - destruct p as [i|l|].
    + destruct (Nat.eqb_spec i j) as [->|_]; [|discriminate]. intros H. f_equal. apply IH. exact H.
    + destruct (find_last l j 0 None) as [k|] eqn:Ef; [|discriminate].
      destruct (box_coord ps c) as [bc'|] eqn:Eb; [|discriminate]. intros [= <-].
      destruct (find_last_sound _ _ _ Ef) as [_ Hn]. f_equal; [exact Hn | apply IH; exact Eb].
    + destruct (box_coord ps c) as [bc'|] eqn:Eb; [|discriminate]. intros [= <-].
      f_equal. apply IH. exact Eb.
Qed.

(* conversely every cell the index reads is addressed (so the written set = the read set) *)
Lemma find_last_none l j k acc : find_last l j k acc = None -> acc = None /\ ~ In j l.
Proof.
  revert k acc; induction l as [|x l IH]; intros k acc H; simpl in *; [split; [exact H | tauto]|].
  apply IH in H. destruct H as [Hacc Hnin]. destruct (Nat.eqb_spec x j) as [E|NE]; [discriminate|].
  split; [exact Hacc|]. intros [E|Hin]; [apply NE; exact E | apply Hnin; exact Hin].
Qed.

Lemma find_last_nodup l k : NoDup l -> k < List.length l -> find_last l (nth k l 0) 0 None = Some k.
Proof.
  intros Hnd Hk. destruct (find_last l (nth k l 0) 0 None) as [r|] eqn:E.
  - destruct (find_last_sound _ _ _ E) as [Hr Hn]. f_equal.
    apply (proj1 (NoDup_nth l 0) Hnd); assumption.
  - apply find_last_none in E. destruct E as [_ Hnin]. exfalso. apply Hnin. apply nth_In. exact Hk.
Qed.

Definition nodup_idx (p : pidx) : Prop := match p with XPos l => NoDup l | _ => True end.
Definition idx_inb (p : pidx) (n : nat) : Prop :=
  match p with XInt i => i < n | XPos l => Forall (fun j => j < n) l | XFull => True end.

(* with duplicate-free index lists, the cell read at box coordinate bc is the cell written from bc:
   reading back the same index returns what was written *)
Theorem box_coord_src_of ps s bc :
  Forall nodup_idx ps -> List.length ps = List.length s ->
  inb (out_shape ps s) bc = true ->
  box_coord ps (src_of ps bc) = Some bc.
Proof.
  revert s bc; induction ps as [|p ps IH]; intros [|n s] bc Hnd Hl Hb; simpl in *; try discriminate.
  - destruct bc; [reflexivity|discriminate].
  - inversion Hnd as [|? ? Hp Hps]; subst. destruct p as [i|l|]; simpl in *.
    + rewrite Nat.eqb_refl. apply (IH s); [exact Hps | lia | exact Hb].
    + destruct bc as [|k bc]; [discriminate|]. simpl in Hb. apply andb_true_iff in Hb. destruct Hb as [Hk Hb].
      apply Nat.ltb_lt in Hk. rewrite find_last_nodup by assumption.
      rewrite (IH s bc Hps ltac:(lia) Hb). reflexivity.
    + destruct bc as [|k bc]; [discriminate|]. simpl in Hb. apply andb_true_iff in Hb. destruct Hb as [Hk Hb].
      rewrite (IH s bc Hps ltac:(lia) Hb). reflexivity.
Qed.

(* ------------------------------------------------------------------ setitem *)
Lemma get_set_outer ps r k a v c :
  np_set_outer ps r k a = Ok v -> inb (sh a) c = true ->
  sh v = sh a /\ kd v = k /\
  match box_coord ps c with
  | Some bc => cell_to_kind k (rhs_at r (out_shape ps (sh a)) bc) = Ok (get v c)
  | None => cell_to_kind k (get a c) = Ok (get v c)
  end.
Proof.
  unfold np_set_outer. destruct (match r with RScalar _ _ => true | RArr w => bcast_ok (sh w) (out_shape ps (sh a)) end); [|discriminate].
  destruct (mapM _ (coords (sh a))) as [nd|] eqn:Em; simpl; [|discriminate].
  intros [= <-] Hc. split; [reflexivity|]. split; [reflexivity|].
  pose proof (mapM_nth _ _ _ (ravel (sh a) c) [] CNaN Em) as H.
  rewrite coords_length in H. specialize (H (ravel_lt _ _ Hc)).
  rewrite nth_coords in H by exact Hc. destruct (box_coord ps c); exact H.
Qed.

(* frame + write: labels, dims, metadata and shape are untouched; a cell that the index does not
   address keeps its value; an addressed cell receives the (broadcast) assigned value; both up to the
   conversion into the array's (possibly widened) kind *)
Theorem setitem_spec f tol r cast a a' :
  setitem f tol r cast a = Ok a' ->
  exists ps, get_indices a f tol false = Ok ps /\
    axes a' = axes a /\ attrs a' = attrs a /\ sh (vals a') = sh (vals a) /\
    kd (vals a') = (if cast then cast_kind (kd (vals a)) (rhs_kind r) else kd (vals a)) /\
    forall c, inb (sh (vals a)) c = true ->
      match box_coord ps c with
      | Some bc => cell_to_kind (kd (vals a')) (rhs_at r (out_shape ps (sh (vals a))) bc) = Ok (get (vals a') c)
      | None => cell_to_kind (kd (vals a')) (get (vals a) c) = Ok (get (vals a') c)
      end.
Proof.
  unfold setitem. destruct (get_indices a f tol false) as [ps|] eqn:E; simpl; [|discriminate].
  destruct (np_set_outer ps r _ (vals a)) as [v|] eqn:Es; simpl; [|discriminate].
  intros [= <-]. exists ps. split; [reflexivity|]. simpl.
  split; [reflexivity|]. split; [reflexivity|].
  assert (Hk : kd v = if cast then cast_kind (kd (vals a)) (rhs_kind r) else kd (vals a)).
  { unfold np_set_outer in Es. destruct (match r with RScalar _ _ => true | RArr w => _ end); [|discriminate].
    destruct (mapM _ _); simpl in Es; [|discriminate]. injection Es as <-. reflexivity. }
  assert (Hs : sh v = sh (vals a)).
  { unfold np_set_outer in Es. destruct (match r with RScalar _ _ => true | RArr w => _ end); [|discriminate].
    destruct (mapM _ _); simpl in Es; [|discriminate]. injection Es as <-. reflexivity. }
  split; [exact Hs|]. split; [exact Hk|].
  intros c Hc. destruct (get_set_outer _ _ _ _ _ c Es Hc) as [_ [Hkd H]]. rewrite Hkd. exact H.
Qed.

(* the conversion is the identity on cells that are already of the target kind, and lossless when
   the kind was chosen by _maybe_cast_type *)
Definition cell_of_kind (k : kind) (c : cell) : bool :=
  match k, c with
  | KF, CNum _ | KF, CNaN => true
  | KI, CNum q => Qeq_bool q (inject_Z (Qfloor q)) && Qeq_bool q (inject_Z (Qceiling q))
  | KB, CBool _ => true
  | KO, _ => true
  | KU, CStr _ | KS, CStr _ => true
  | _, _ => false
  end.

Definition all_kinds : list kind := [KB; KI; KF; KO; KU; KS].
(* kind k represents every value of kind vk exactly *)
Definition fits (k vk : kind) : bool :=
  match k, vk with
  | KO, _ => true
  | KF, KI | KF, KF => true
  | KI, KI | KB, KB => true
  | KU, KU | KU, KS | KS, KS => true
  | _, _ => false
  end.
(* GENERATED _maybe_cast_type: for every (array kind, assigned kind) the chosen kind represents all
   values of both kinds - finite domain, decided by evaluation *)
Theorem cast_lossless_table :
  forallb (fun k0 => forallb (fun vk => fits (cast_kind k0 vk) k0 && fits (cast_kind k0 vk) vk) all_kinds) all_kinds = true.
Proof. vm_compute. reflexivity. Qed.

Theorem cast_lossless k0 vk : fits (cast_kind k0 vk) k0 = true /\ fits (cast_kind k0 vk) vk = true.
Proof.
  pose proof cast_lossless_table as H. rewrite forallb_forall in H.
  assert (Hk0 : In k0 all_kinds) by (destruct k0; simpl; tauto).
  specialize (H k0 Hk0). rewrite forallb_forall in H.
  assert (Hvk : In vk all_kinds) by (destruct vk; simpl; tauto).
  specialize (H vk Hvk). apply andb_true_iff in H. exact H.
Qed.

(* what "fits" buys: converting a cell of kind vk into a kind that fits vk leaves its value unchanged *)
Lemma cell_eqb_refl c : cell_eqb c c = true.
Proof.
  destruct c; simpl; auto.
  - apply Qeq_bool_refl.
  - destruct b; reflexivity.
  - apply String.eqb_refl.
Qed.
Theorem fits_preserves k vk c :
  fits k vk = true -> cell_of_kind vk c = true ->
  exists c', cell_to_kind k c = Ok c' /\ cell_eqb c' c = true.
Proof.
  destruct k, vk; simpl; try discriminate; intros _ Hc; destruct c; simpl in *; try discriminate;
    try (eexists; split; [reflexivity | apply cell_eqb_refl]).
  apply andb_true_iff in Hc. destruct Hc as [H1 H2].
  eexists; split; [reflexivity|]. simpl. destruct (Qle_bool 0 q); rewrite Qeq_bool_comm; assumption.
Qed.

(* N-d boolean mask assignment: exactly the true cells change *)
Theorem setmask_spec m r cast a a' :
  List.length (dat (vals a)) = prod (sh (vals a)) ->
  setmask m r cast a = Ok a' ->
  axes a' = axes a /\ attrs a' = attrs a /\ sh (vals a') = sh (vals a) /\
  List.length m = prod (sh (vals a)) /\
  forall i, i < List.length m -> i < List.length (dat (vals a)) ->
    nth i m false = false -> cell_to_kind (kd (vals a')) (nth i (dat (vals a)) CNaN) = Ok (nth i (dat (vals a')) CNaN).
Proof.
  intros Hwf. unfold setmask. destruct (List.length m =? prod (sh (vals a))) eqn:El; simpl; [|discriminate].
  assert (Hlm : List.length m = List.length (dat (vals a))) by (apply Nat.eqb_eq in El; lia).
  destruct (match r with RScalar _ _ => true | RArr w => _ end); [|discriminate].
  destruct (mapM _ _) as [nd|] eqn:Em; simpl; [|discriminate]. intros [= <-]. simpl.
  split; [reflexivity|]. split; [reflexivity|]. split; [reflexivity|]. split; [apply Nat.eqb_eq; exact El|].
  intros i Hi Hi2 Hb.
  pose proof (mapM_nth _ _ _ i (0, (false, CNaN)) CNaN Em) as H.
  rewrite combine_length, seq_length, combine_length in H. specialize (H ltac:(lia)).
  rewrite combine_nth in H by (rewrite seq_length, combine_length; lia).
  rewrite combine_nth in H by exact Hlm.
  rewrite seq_nth in H by exact Hi. simpl in H. rewrite Hb in H. exact H.
Qed.
