(* C14: Dataset-wide operations equal the per-variable operations. *)
From Coq Require Import Qround Qabs.
From DA Require Import Prelude NDArray Array PyRT.
From DA.Model Require Import Value Reshape SliceSpec Indexing Align Transform Flatten Dataset DatasetOps.
From DA.Proofs Require Import ListLemmas C10_proofs C01_proofs C03_proofs C13_proofs.
Open Scope nat_scope.
Open Scope list_scope.

(* ------------------------------------------------------------------ results satisfy the shared-axes rule *)
Lemma append_axes_shared axs s : Shared s -> Shared (ds_append_axes axs s).
Proof.
  revert s; induction axs as [|ax t IH]; intros s Hs; simpl; [exact Hs|]. apply IH.
  intros v Hv id Hid. simpl in *. apply in_or_app. left. apply (Hs v Hv id Hid).
Qed.
Lemma set_all_shared vars s : Shared s -> Shared (fst (ds_set_all vars s)).
Proof.
  intros Hs. unfold ds_set_all.
  apply (fold_rename_shared (fun st p => ds_setitem (fst p) (snd p) st)); [intros; apply setitem_shared; assumption | exact Hs].
Qed.
Theorem assemble_shared first vars m s : ds_assemble first vars m = Ok s -> Shared s /\ dsattrs s = m.
Proof.
  unfold ds_assemble. pose proof (set_all_shared vars (ds_append_axes first ds_empty) (append_axes_shared _ _ shared_empty)) as H.
  destruct (ds_set_all vars _) as [s0 r]. destruct r; [|discriminate]. intros [= <-]. split; [exact H | reflexivity].
Qed.
Theorem construct_shared vars m s : ds_construct vars m = Ok s -> Shared s /\ dsattrs s = m.
Proof.
  unfold ds_construct. pose proof (step_shared ds_empty (DInit vars) shared_empty) as H. simpl in H.
  destruct (ds_init vars) as [s0 r]. destruct r; [|discriminate]. intros [= <-]. split; [exact H | reflexivity].
Qed.

(* every Dataset-wide operation returns a Dataset whose variables share its axes; indexing, take_axis,
   sort_axis, reindex_axis and interp_axis carry the dataset-level metadata over *)
Theorem ds_take_shared f tol kd s s' : ds_take f tol kd s = Ok s' -> Shared s' /\ dsattrs s' = dsattrs s.
Proof.
  unfold ds_take. destruct (get_indices _ f tol kd); simpl; [|discriminate].
  destruct (mapM_vars _ _); simpl; [|discriminate]. apply assemble_shared.
Qed.
Theorem ds_take_axis_pos_shared idxs id s s' : ds_take_axis_pos idxs id s = Ok s' -> Shared s' /\ dsattrs s' = dsattrs s.
Proof. unfold ds_take_axis_pos. destruct (mapM_vars _ _); simpl; [|discriminate]. apply assemble_shared. Qed.
Theorem ds_sort_axis_shared r s s' : ds_sort_axis r s = Ok s' -> Shared s' /\ dsattrs s' = dsattrs s.
Proof. unfold ds_sort_axis. destruct (ds_axis_ref s r); simpl; [|discriminate]. apply ds_take_axis_pos_shared. Qed.
Theorem ds_per_variable_shared d f nx s s' : ds_per_variable d f nx s = Ok s' -> Shared s' /\ dsattrs s' = dsattrs s.
Proof. unfold ds_per_variable. destruct (mapM_vars _ _); simpl; [|discriminate]. apply assemble_shared. Qed.
Theorem ds_reindex_shared k news r fill fk re s s' :
  ds_reindex_axis k news r fill fk re s = Ok s' -> Shared s' /\ dsattrs s' = dsattrs s.
Proof.
  unfold ds_reindex_axis. destruct (ds_axis_ref s r); simpl; [|discriminate].
  destruct (_ && _).
  - destruct (mapM_vars _ _); simpl; [|discriminate]. apply construct_shared.
  - destruct (if re then _ else _); simpl; [|discriminate]. apply ds_per_variable_shared.
Qed.
Theorem ds_interp_shared k news r l rr s s' :
  ds_interp_axis k news r l rr s = Ok s' -> Shared s' /\ dsattrs s' = dsattrs s.
Proof.
  unfold ds_interp_axis. destruct (ds_axis_ref s r); simpl; [|discriminate].
  destruct (labels_q news); simpl; [|discriminate]. destruct (labels_q _); simpl; [|discriminate].
  apply ds_per_variable_shared.
Qed.
Theorem ds_reduce_shared f r s s' : ds_reduce f r s = Ok s' -> Shared s'.
Proof.
  unfold ds_reduce. destruct (ds_axis_ref s r); simpl; [|discriminate].
  destruct (mapM_vars _ _); simpl; [|discriminate]. intros H. apply (construct_shared _ _ _ H).
Qed.
Theorem ds_binop_shared o s1 s2 s' : ds_binop o s1 s2 = Ok s' -> Shared s'.
Proof. unfold ds_binop. destruct (mapM _ _); simpl; [|discriminate]. intros H. apply (assemble_shared _ _ _ _ H). Qed.
Theorem ds_scalar_shared o c k refl s s' : ds_binop_scalar o c k refl s = Ok s' -> Shared s'.
Proof. unfold ds_binop_scalar. destruct (mapM_vars _ _); simpl; [|discriminate]. intros H. apply (assemble_shared _ _ _ _ H). Qed.

(* ------------------------------------------------------------------ per-variable rule *)
(* variables that do not have the affected dimension are handed over unchanged; the others receive
   exactly the array-level operation f *)
Definition dpair : string * darr := (EmptyString, mkarr [] {| sh := []; dat := []; kd := KF |} []).

Theorem mapM_vars_rule d (f : darr -> res darr) vars out :
  mapM_vars (fun a => if has_dim a d then f a else Ok a) vars = Ok out ->
  List.length out = List.length vars /\
  forall i, i < List.length vars ->
    let p := nth i vars dpair in
    let q := nth i out dpair in
    fst q = fst p /\ (if has_dim (snd p) d then f (snd p) = Ok (snd q) else snd q = snd p).
Proof.
  unfold mapM_vars. intros H. split; [apply (mapM_length _ _ _ H)|].
  intros i Hi. cbv zeta.
  pose proof (mapM_nth _ _ _ i dpair dpair H Hi) as Hn. cbv beta in Hn.
  destruct (has_dim (snd (nth i vars dpair)) d).
  - destruct (f (snd (nth i vars dpair))) as [r|]; simpl in Hn; [|discriminate]. injection Hn as Hq. rewrite <- Hq. simpl. auto.
  - simpl in Hn. injection Hn as Hq. rewrite <- Hq. simpl. auto.
Qed.

(* reductions: every variable having the dimension receives the array reduction (C08), the others are
   unchanged, and the result is a constructed (aligned) Dataset *)
Theorem ds_reduce_rule f r s s' :
  ds_reduce f r s = Ok s' ->
  exists id vars',
    ds_axis_ref s r = Ok id /\
    mapM_vars (fun a => if has_dim a (aname (hget (heap s) id))
                        then (let! v := reduce_any f false (AxOne (ByName (aname (hget (heap s) id)))) a in
                              as_arr v (red_kind f (kd (vals a))) (attrs a))
                        else Ok a) (ds_vars_arr s) = Ok vars' /\
    ds_construct vars' [] = Ok s'.
Proof.
  unfold ds_reduce. destruct (ds_axis_ref s r) as [id|]; simpl; [|discriminate].
  destruct (mapM_vars _ _) as [vars'|] eqn:E; simpl; [|discriminate]. intros H. exists id, vars'. auto.
Qed.

(* take_axis / sort_axis: a variable having the axis receives exactly DimArray.take_axis (C17), provided
   its axis is the dataset's (the shared-axes rule, C13) *)
Theorem ds_take_axis_is_array_take idxs (ax : axis) i a :
  nth i (axes a) dax0 = ax -> amem ax = [] ->
  mkarr (set_nth i (ax_new (aname ax) (akind ax) (map (nth_lab (alab ax)) idxs) (aattrs ax)) (axes a))
        (np_take idxs i (vals a)) (attrs a)
  = take_axis_pos idxs i a.
Proof. intros Hn Hm. unfold take_axis_pos. rewrite Hn. reflexivity. Qed.

(* reindex_axis / interp_axis: the per-variable rule with the array-level functions of C07 / C18 *)
Theorem ds_per_variable_rule d f nx s s' :
  ds_per_variable d f nx s = Ok s' ->
  exists vars', mapM_vars (fun a => if has_dim a d then f a else Ok a) (ds_vars_arr s) = Ok vars' /\
    exists first, ds_assemble first vars' (dsattrs s) = Ok s'.
Proof.
  unfold ds_per_variable. destruct (mapM_vars _ _) as [vars'|]; simpl; [|discriminate].
  intros H. exists vars'. split; [reflexivity|]. eexists. exact H.
Qed.

(* arithmetic: variable k of the result is the array operation (C04) on the two variables k *)
Theorem ds_scalar_rule o c k refl s s' :
  ds_binop_scalar o c k refl s = Ok s' ->
  exists vars', mapM_vars (op_scalar o c k refl) (ds_vars_arr s) = Ok vars' /\ ds_assemble [] vars' [] = Ok s'.
Proof. unfold ds_binop_scalar. destruct (mapM_vars _ _) as [v|]; simpl; [|discriminate]. intros H. eauto. Qed.
