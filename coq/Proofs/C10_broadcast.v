(* C10, broadcast: a closed, NAME-based statement of what broadcast (reshape onto the target dimensions, then
   repeat of singleton dimensions) does to every element: the element at result coordinate c' is the input
   element whose coordinate along each input dimension d is c' at the position d has in the result (0 along
   input dimensions of length 1: they are the replicated / removed ones); every axis of length <> 1 travels
   unchanged.  Proved by composing the one-step coordinate theorems of C10_proofs through a transitive
   relation [rearr]. *)
From DA Require Import Prelude NDArray Array.
From DA.Model Require Import Value Reshape Indexing Align.
From DA.Proofs Require Import ListLemmas C10_proofs C05_proofs.
Open Scope nat_scope.

Definition name_coord (a r : darr) (c' : list nat) : list nat :=
  map (fun ax => if alen ax =? 1 then 0
                 else match find_dim (dims r) (aname ax) with Some j => nth j c' 0 | None => 0 end) (axes a).

Record rearr (a r : darr) : Prop := {
  ra_wf : wf_shape r;
  ra_attrs : attrs r = attrs a;
  ra_keep : forall ax, In ax (axes a) -> alen ax <> 1 -> In ax (axes r);
  ra_get : forall c', inb (sh (vals r)) c' = true ->
           inb (sh (vals a)) (name_coord a r c') = true /\ get (vals r) c' = get (vals a) (name_coord a r c') }.

(* ------------------------------------------------------------------ list facts *)
Lemma inb_intro sh c : List.length c = List.length sh -> (forall k, k < List.length sh -> nth k c 0 < nth k sh 0) -> inb sh c = true.
Proof.
  revert c; induction sh as [|n t IH]; intros [|i c] Hl H; simpl in *; try discriminate; [reflexivity|].
  apply andb_true_iff. split; [apply Nat.ltb_lt; apply (H 0); lia|]. apply IH; [lia|]. intros k Hk. apply (H (S k)). lia.
Qed.
Lemma find_dim_nth ds p : NoDup ds -> p < List.length ds -> find_dim ds (nth p ds EmptyString) = Some p.
Proof.
  unfold find_dim. revert p; induction ds as [|d t IH]; intros p Hn Hp; simpl in *; [lia|].
  inversion Hn as [|? ? Hd Ht]; subst. destruct p as [|p].
  - rewrite String.eqb_refl. reflexivity.
  - destruct (String.eqb_spec (nth p t EmptyString) d) as [E|E].
    + exfalso. apply Hd. rewrite <- E. apply nth_In. lia.
    + rewrite IH by (assumption || lia). reflexivity.
Qed.
Lemma find_axis r j : NoDup (dims r) -> j < List.length (axes r) ->
  find_dim (dims r) (aname (nth j (axes r) dax)) = Some j.
Proof.
  intros Hn Hj. unfold dims in *. rewrite <- (nth_map_in aname (axes r) j dax EmptyString) by exact Hj.
  apply find_dim_nth; [exact Hn | rewrite map_length; exact Hj].
Qed.
Lemma nth_remove_nth_lt {A} i p (l : list A) d : p < i -> nth p (remove_nth i l) d = nth p l d.
Proof.
  revert p l; induction i as [|i IH]; intros p l Hp; [lia|]. destruct l as [|x t]; [destruct p; reflexivity|].
  destruct p as [|p]; [reflexivity|]. simpl. apply IH. lia.
Qed.
Lemma nth_remove_nth_ge {A} i p (l : list A) d : i <= p -> nth p (remove_nth i l) d = nth (S p) l d.
Proof.
  revert p l; induction i as [|i IH]; intros p l Hp.
  - destruct l as [|x t]; [destruct p; reflexivity | reflexivity].
  - destruct l as [|x t]; [destruct p; reflexivity|]. destruct p as [|p]; [lia|]. simpl. apply IH. lia.
Qed.
Lemma nth_insert_nth_lt {A} q p (x : A) l d : p < q -> q <= List.length l -> nth p (insert_nth q x l) d = nth p l d.
Proof.
  revert p l; induction q as [|q IH]; intros p l Hp Hq; [lia|]. destruct l as [|y t]; [simpl in Hq; lia|].
  destruct p as [|p]; [reflexivity|]. simpl. apply IH; simpl in Hq; lia.
Qed.
Lemma nth_insert_nth_gt {A} q p (x : A) l d : q <= p -> q <= List.length l -> nth (S p) (insert_nth q x l) d = nth p l d.
Proof.
  revert p l; induction q as [|q IH]; intros p l Hp Hq; [reflexivity|]. destruct l as [|y t]; [simpl in Hq; lia|].
  destruct p as [|p]; [lia|]. simpl. apply IH; simpl in Hq; lia.
Qed.

(* ------------------------------------------------------------------ introduction and transitivity *)
Lemma rearr_intro a r (f : list nat -> list nat) :
  wf_shape a -> wf_shape r -> NoDup (dims r) -> attrs r = attrs a ->
  (forall c', inb (sh (vals r)) c' = true -> List.length (f c') = List.length (axes a)) ->
  (forall c', inb (sh (vals r)) c' = true -> get (vals r) c' = get (vals a) (f c')) ->
  (forall p, p < List.length (axes a) -> alen (nth p (axes a) dax) = 1 ->
     forall c', inb (sh (vals r)) c' = true -> nth p (f c') 0 = 0) ->
  (forall p, p < List.length (axes a) -> alen (nth p (axes a) dax) <> 1 ->
     exists j, j < List.length (axes r) /\ nth j (axes r) dax = nth p (axes a) dax /\
               forall c', inb (sh (vals r)) c' = true -> nth p (f c') 0 = nth j c' 0) ->
  rearr a r.
Proof.
  intros [Hsa Hda] Hwr Hnd Hat Hlen Hget Hone Hmany.
  assert (Hpt : forall p, p < List.length (axes a) -> forall c', inb (sh (vals r)) c' = true ->
                nth p (name_coord a r c') 0 = nth p (f c') 0 /\ nth p (f c') 0 < alen (nth p (axes a) dax)).
  { intros p Hp c' Hc. unfold name_coord. rewrite (nth_map_in _ (axes a) p dax 0) by exact Hp.
    destruct (Nat.eqb_spec (alen (nth p (axes a) dax)) 1) as [E|E].
    - rewrite (Hone p Hp E c' Hc). split; [reflexivity | lia].
    - destruct (Hmany p Hp E) as [j [Hj [Hax Hf]]]. rewrite <- Hax, (find_axis r j Hnd Hj), (Hf c' Hc). split; [reflexivity|].
      destruct Hwr as [Hsr _]. pose proof (inb_nth_lt _ c' j Hc) as Hlt. rewrite <- Hsr, map_length in Hlt.
      specialize (Hlt Hj). rewrite (nth_map_in alen (axes r) j dax 0) in Hlt by exact Hj. exact Hlt. }
  assert (Heq : forall c', inb (sh (vals r)) c' = true -> name_coord a r c' = f c').
  { intros c' Hc. apply (nth_ext _ _ 0 0).
    - unfold name_coord. rewrite map_length. symmetry. apply Hlen. exact Hc.
    - intros p Hp. unfold name_coord in Hp. rewrite map_length in Hp. apply (Hpt p Hp c' Hc). }
  constructor; [exact Hwr | exact Hat | |].
  - intros ax Hin Hne. destruct (In_nth _ _ dax Hin) as [p [Hp Hnth]]. rewrite <- Hnth in Hne.
    destruct (Hmany p Hp Hne) as [j [Hj [Hax _]]]. rewrite <- Hnth, <- Hax. apply nth_In. exact Hj.
  - intros c' Hc. rewrite (Heq c' Hc). split; [|apply Hget; exact Hc].
    apply inb_intro; [rewrite (Hlen c' Hc), <- Hsa, map_length; reflexivity|].
    intros k Hk. rewrite <- Hsa, map_length in Hk. rewrite <- Hsa, (nth_map_in alen (axes a) k dax 0) by exact Hk.
    apply (Hpt k Hk c' Hc).
Qed.

Lemma rearr_refl a : wf_shape a -> NoDup (dims a) -> rearr a a.
Proof.
  intros Hw Hn. pose proof Hw as [Hsa _].
  apply (rearr_intro a a (fun c => c)); try assumption; try reflexivity.
  - intros c' Hc. rewrite (inb_length _ _ Hc), <- Hsa, map_length. reflexivity.
  - intros p Hp H1 c' Hc. pose proof (inb_nth_lt _ c' p Hc) as Hlt. rewrite <- Hsa, map_length in Hlt.
    specialize (Hlt Hp). rewrite (nth_map_in alen (axes a) p dax 0) in Hlt by exact Hp. lia.
  - intros p Hp _. exists p. split; [exact Hp|]. split; reflexivity.
Qed.

Lemma rearr_trans a b c :
  NoDup (dims b) -> rearr a b -> rearr b c -> rearr a c.
Proof.
  intros Hnb [Hwb Hab Kab Gab] [Hwc Hbc Kbc Gbc].
  constructor; [exact Hwc | congruence | auto |].
  intros c' Hc. destruct (Gbc c' Hc) as [Hib Hgb]. destruct (Gab _ Hib) as [Hia Hga].
  assert (Heq : name_coord a b (name_coord b c c') = name_coord a c c').
  { unfold name_coord at 1 3. apply map_ext_in. intros ax Hin.
    destruct (Nat.eqb_spec (alen ax) 1) as [E|E]; [reflexivity|].
    pose proof (Kab ax Hin E) as Hinb. destruct (In_nth _ _ dax Hinb) as [j [Hj Hnth]].
    rewrite <- Hnth at 1. rewrite (find_axis b j Hnb Hj).
    unfold name_coord. rewrite (nth_map_in _ (axes b) j dax 0) by exact Hj. rewrite Hnth.
    destruct (Nat.eqb_spec (alen ax) 1) as [E'|_]; [contradiction|]. reflexivity. }
  rewrite <- Heq. split; [exact Hia | congruence].
Qed.

(* ------------------------------------------------------------------ the four steps *)
Lemma In_remove_nth {A} i (l : list A) x : In x (remove_nth i l) -> In x l.
Proof.
  revert l; induction i as [|i IH]; intros [|y t] H; simpl in *; try contradiction; [right; exact H|].
  destruct H as [E|H]; [left; exact E | right; apply IH; exact H].
Qed.
Lemma names_nodup_remove i (l : list axis) : NoDup (map aname l) -> NoDup (map aname (remove_nth i l)).
Proof.
  rewrite map_remove_nth. generalize (map aname l). clear l. intros l. revert i.
  induction l as [|x t IH]; intros [|i] H; simpl; try exact H.
  - inversion H; assumption.
  - inversion H as [|? ? Hx Ht]; subst. constructor; [|apply IH; exact Ht].
    intros Hin. apply Hx. eapply In_remove_nth. exact Hin.
Qed.

Lemma squeeze_rearr rf a r : wf_shape a -> NoDup (dims a) -> squeeze (Some rf) a = Ok r -> rearr a r /\ NoDup (dims r).
Proof.
  intros Hw Hn H. destruct (squeeze_axis_spec rf a r Hw H) as [i [Hi [H1 [Hwr [Hat [Hax Hget]]]]]].
  pose proof (axis_info_lt _ _ _ Hi) as Hil. pose proof Hw as [Hsa _].
  assert (Hnr : NoDup (dims r)) by (unfold dims in *; rewrite Hax; apply names_nodup_remove; exact Hn).
  split; [|exact Hnr].
  assert (Hlr : List.length (axes r) = List.length (axes a) - 1) by (rewrite Hax; apply remove_nth_length; exact Hil).
  apply (rearr_intro a r (insert_nth i 0)); try assumption.
  - intros c' Hc. rewrite insert_nth_length, (inb_length _ _ Hc). destruct Hwr as [Hsr _]. rewrite <- Hsr, map_length. lia.
  - intros p Hp Hp1 c' Hc. destruct (lt_eq_lt_dec p i) as [[Hlt|Heq]|Hgt].
    + assert (Hcl : i <= List.length c') by (rewrite (inb_length _ _ Hc); destruct Hwr as [Hsr _]; rewrite <- Hsr, map_length; lia).
      rewrite nth_insert_nth_lt by assumption.
      destruct Hwr as [Hsr _]. pose proof (inb_nth_lt _ c' p Hc) as Hb. rewrite <- Hsr, map_length in Hb.
      assert (Hpr : p < List.length (axes r)) by lia. specialize (Hb Hpr).
      rewrite (nth_map_in alen (axes r) p dax 0) in Hb by exact Hpr. rewrite Hax, nth_remove_nth_lt in Hb by exact Hlt. lia.
    + subst p. apply nth_insert_nth_eq. rewrite (inb_length _ _ Hc). destruct Hwr as [Hsr _]. rewrite <- Hsr, map_length. lia.
    + destruct p as [|p']; [lia|].
      assert (Hcl : i <= List.length c') by (rewrite (inb_length _ _ Hc); destruct Hwr as [Hsr _]; rewrite <- Hsr, map_length; lia).
      rewrite nth_insert_nth_gt by (lia || assumption).
      destruct Hwr as [Hsr _]. pose proof (inb_nth_lt _ c' p' Hc) as Hb. rewrite <- Hsr, map_length in Hb.
      assert (Hpr : p' < List.length (axes r)) by lia. specialize (Hb Hpr).
      rewrite (nth_map_in alen (axes r) p' dax 0) in Hb by exact Hpr. rewrite Hax, nth_remove_nth_ge in Hb by lia. lia.
  - intros p Hp Hne. destruct (lt_eq_lt_dec p i) as [[Hlt|Heq]|Hgt].
    + exists p. split; [lia|]. split; [rewrite Hax; apply nth_remove_nth_lt; exact Hlt|].
      intros c' Hc. apply nth_insert_nth_lt; [exact Hlt|].
      rewrite (inb_length _ _ Hc). destruct Hwr as [Hsr _]. rewrite <- Hsr, map_length. lia.
    + subst p. contradiction.
    + destruct p as [|p']; [lia|]. exists p'. split; [lia|]. split; [rewrite Hax; apply nth_remove_nth_ge; lia|].
      intros c' Hc. apply nth_insert_nth_gt; [lia|].
      rewrite (inb_length _ _ Hc). destruct Hwr as [Hsr _]. rewrite <- Hsr, map_length. lia.
Qed.

(* a variant of the introduction rule: every input dimension either travels (witness j) or is a singleton read at 0 *)
Lemma rearr_intro2 a r (f : list nat -> list nat) :
  wf_shape a -> wf_shape r -> NoDup (dims r) -> attrs r = attrs a ->
  (forall c', inb (sh (vals r)) c' = true -> List.length (f c') = List.length (axes a)) ->
  (forall c', inb (sh (vals r)) c' = true -> get (vals r) c' = get (vals a) (f c')) ->
  (forall p, p < List.length (axes a) ->
     (exists j, j < List.length (axes r) /\ nth j (axes r) dax = nth p (axes a) dax /\
                forall c', inb (sh (vals r)) c' = true -> nth p (f c') 0 = nth j c' 0)
     \/ (alen (nth p (axes a) dax) = 1 /\ forall c', inb (sh (vals r)) c' = true -> nth p (f c') 0 = 0)) ->
  rearr a r.
Proof.
  intros Hwa Hwr Hnd Hat Hlen Hget Hall. apply (rearr_intro a r f); try assumption.
  - intros p Hp H1 c' Hc. destruct (Hall p Hp) as [[j [Hj [Hax Hf]]]|[_ H0]]; [|apply H0; exact Hc].
    rewrite (Hf c' Hc). destruct Hwr as [Hsr _]. pose proof (inb_nth_lt _ c' j Hc) as Hb. rewrite <- Hsr, map_length in Hb.
    specialize (Hb Hj). rewrite (nth_map_in alen (axes r) j dax 0) in Hb by exact Hj. rewrite Hax in Hb. lia.
  - intros p Hp Hne. destruct (Hall p Hp) as [H|[H1 _]]; [exact H | contradiction].
Qed.

Lemma newaxis_rearr name pos a r : WF a -> name <> EmptyString -> newaxis name None pos a = Ok r -> WF r /\ rearr a r.
Proof.
  intros Hw Hne H. pose proof (newaxis_wf name None pos a r Hne Hw H) as Hwr. split; [exact Hwr|].
  destruct Hw as [Hwa [Hna _]]. destruct (newaxis_spec name pos a r Hwa H) as [q [Hq [_ [_ [Hwr' [Hat [Hax Hget]]]]]]].
  destruct Hwr as [_ [Hnr _]].
  assert (Hlr : List.length (axes r) = S (List.length (axes a))) by (rewrite Hax; apply insert_nth_length).
  assert (Hcl : forall c', inb (sh (vals r)) c' = true -> List.length c' = S (List.length (axes a))).
  { intros c' Hc. rewrite (inb_length _ _ Hc). destruct Hwr' as [Hsr _]. rewrite <- Hsr, map_length. exact Hlr. }
  apply (rearr_intro2 a r (remove_nth q)); try assumption.
  - intros c' Hc. rewrite remove_nth_length by (rewrite (Hcl c' Hc); lia). rewrite (Hcl c' Hc). lia.
  - intros p Hp. left. destruct (lt_dec p q) as [Hlt|Hge].
    + exists p. split; [lia|]. split; [rewrite Hax; apply nth_insert_nth_lt; assumption|].
      intros c' Hc. apply nth_remove_nth_lt. exact Hlt.
    + exists (S p). split; [lia|]. split; [rewrite Hax; apply nth_insert_nth_gt; lia|].
      intros c' Hc. apply nth_remove_nth_ge. lia.
Qed.

Lemma transpose_pos_rearr p a r : WF a -> transpose_pos p a = Ok r -> WF r /\ rearr a r.
Proof.
  intros Hw H. pose proof (transpose_pos_wf p a r Hw H) as Hwr. split; [exact Hwr|].
  destruct Hw as [Hwa _]. destruct (transpose_pos_spec p a r Hwa H) as [Hp [Hlen [Hwr' [Hax [Hat [_ Hget]]]]]].
  destruct Hwr as [_ [Hnr _]]. destruct (is_perm_props p Hp) as [Hb [Hndp Hall]].
  assert (Hlr : List.length (axes r) = List.length p) by (rewrite Hax, map_length; reflexivity).
  apply (rearr_intro2 a r (src_coord p)); try assumption.
  - intros c' _. rewrite src_coord_length. exact Hlen.
  - intros p0 Hp0. left. assert (Hin : In p0 p) by (apply Hall; lia).
    exists (pos_in p p0). pose proof (pos_in_lt p p0 Hin) as Hj. split; [lia|]. split.
    + rewrite Hax. rewrite (nth_map_in _ p (pos_in p p0) 0 dax) by exact Hj. rewrite nth_pos_in by exact Hin. reflexivity.
    + intros c' _. rewrite <- (nth_pos_in p p0 Hin) at 1. apply src_coord_spec; assumption.
Qed.
Lemma transpose_rearr rs a r : WF a -> transpose rs a = Ok r -> WF r /\ rearr a r.
Proof.
  intros Hw H. unfold transpose in H. destruct rs as [|r0 t].
  - eapply transpose_pos_rearr; eassumption.
  - destruct (mapM (axis_info a) (r0 :: t)) as [p|]; simpl in H; [|discriminate]. eapply transpose_pos_rearr; eassumption.
Qed.

Lemma repeat_rearr k labs rf a r : WF a -> repeat k labs rf a = Ok r -> WF r /\ rearr a r /\ dims r = dims a.
Proof.
  intros Hw H. pose proof (repeat_wf k labs rf a r Hw H) as Hwr. split; [exact Hwr|].
  destruct Hw as [Hwa [Hna _]]. destruct (repeat_spec k labs rf a r Hwa H) as [i [Hi [H1 [Hwr' [Hat [Hax Hget]]]]]].
  pose proof (axis_info_lt _ _ _ Hi) as Hil. destruct Hwr as [_ [Hnr _]].
  assert (Hlr : List.length (axes r) = List.length (axes a)) by (rewrite Hax; apply set_nth_length).
  assert (Hcl : forall c', inb (sh (vals r)) c' = true -> List.length c' = List.length (axes a)).
  { intros c' Hc. rewrite (inb_length _ _ Hc). destruct Hwr' as [Hsr _]. rewrite <- Hsr, map_length. exact Hlr. }
  split.
  - apply (rearr_intro2 a r (set_nth i 0)); try assumption.
    + intros c' Hc. rewrite set_nth_length. apply Hcl. exact Hc.
    + intros p Hp. destruct (Nat.eq_dec p i) as [->|Hne].
      * right. split; [exact H1|]. intros c' Hc. apply nth_set_nth_eq. rewrite (Hcl c' Hc). exact Hil.
      * left. exists p. split; [lia|]. split; [rewrite Hax; apply nth_set_nth_neq; lia|].
        intros c' _. apply nth_set_nth_neq. lia.
  - unfold dims. rewrite Hax. apply dims_set_same_name. reflexivity.
Qed.

(* ------------------------------------------------------------------ reshape onto comma-free names, then broadcast *)
Lemma rw_trans a b c : WF b -> rearr a b -> rearr b c -> rearr a c.
Proof. intros [_ [Hn _]]. apply rearr_trans. exact Hn. Qed.

Lemma squeeze_absent_rearr ds newdims : forall a r, WF a -> squeeze_absent ds newdims a = Ok r -> WF r /\ rearr a r.
Proof.
  induction ds as [|d t IH]; intros a r Hw H; cbn [squeeze_absent] in H.
  - injection H as <-. split; [exact Hw|]. destruct Hw as [Hwa [Hn _]]. apply rearr_refl; assumption.
  - destruct (mem_str d newdims); [apply IH; assumption|].
    destruct (squeeze (Some (ByName d)) a) as [a'|] eqn:E; cbn [bind] in H; [|discriminate].
    pose proof (squeeze_wf _ _ _ Hw E) as Hw'. destruct Hw as [Hwa [Hn _]].
    destruct (squeeze_rearr _ _ _ Hwa Hn E) as [R1 _]. destruct (IH a' r Hw' H) as [Hwr R2].
    split; [exact Hwr | exact (rw_trans a a' r Hw' R1 R2)].
Qed.
Lemma add_missing_rearr newdims : forall i a r, ~ In EmptyString newdims -> WF a -> add_missing newdims i a = Ok r -> WF r /\ rearr a r.
Proof.
  induction newdims as [|d t IH]; intros i a r He Hw H; cbn [add_missing] in H.
  - injection H as <-. split; [exact Hw|]. destruct Hw as [Hwa [Hn _]]. apply rearr_refl; assumption.
  - assert (He' : ~ In EmptyString t) by (intros Hin; apply He; right; exact Hin).
    destruct (mem_str d (dims a)); [eapply IH; eassumption|].
    destruct (newaxis d None (Z.of_nat i) a) as [a'|] eqn:E; cbn [bind] in H; [|discriminate].
    assert (Hd : d <> EmptyString) by (intros ->; apply He; left; reflexivity).
    destruct (newaxis_rearr _ _ _ _ Hw Hd E) as [Hw' R1]. destruct (IH (S i) a' r He' Hw' H) as [Hwr R2].
    split; [exact Hwr | exact (rw_trans a a' r Hw' R1 R2)].
Qed.
Lemma reshape_plain_rearr newdims a r : ~ In EmptyString newdims -> WF a -> reshape_plain newdims a = Ok r ->
  WF r /\ rearr a r /\ dims r = newdims.
Proof.
  intros He Hw H. unfold reshape_plain in H. destruct (list_eqb String.eqb newdims (dims a)) eqn:E0.
  - injection H as <-. split; [exact Hw|]. split; [destruct Hw as [Hwa [Hn _]]; apply rearr_refl; assumption|].
    symmetry. apply list_eqb_str_eq. exact E0.
  - destruct (negb _); [discriminate|].
    destruct (squeeze_absent (dims a) newdims a) as [o1|] eqn:E1; cbn [bind] in H; [|discriminate].
    destruct (transpose _ o1) as [o2|] eqn:E2; cbn [bind] in H; [|discriminate].
    destruct (add_missing newdims 0 o2) as [o3|] eqn:E3; cbn [bind] in H; [|discriminate].
    destruct (list_eqb String.eqb (dims o3) newdims) eqn:E4; [|discriminate]. injection H as <-.
    destruct (squeeze_absent_rearr _ _ _ _ Hw E1) as [W1 R1]. destruct (transpose_rearr _ _ _ W1 E2) as [W2 R2].
    destruct (add_missing_rearr _ _ _ _ He W2 E3) as [W3 R3].
    split; [exact W3|]. split; [|apply list_eqb_str_eq; exact E4].
    exact (rw_trans a o2 o3 W2 (rw_trans a o1 o2 W1 R1 R2) R3).
Qed.
Lemma broadcast_repeat_rearr newaxes : forall o r, WF o -> broadcast_repeat newaxes o = Ok r -> WF r /\ rearr o r /\ dims r = dims o.
Proof.
  induction newaxes as [|nx t IH]; intros o r Hw H; cbn [broadcast_repeat] in H.
  - injection H as <-. split; [exact Hw|]. split; [destruct Hw as [Hwa [Hn _]]; apply rearr_refl; assumption | reflexivity].
  - destruct (broadcast_repeat t o) as [o1|] eqn:E1; cbn [bind] in H; [|discriminate].
    destruct (IH o o1 Hw E1) as [W1 [R1 D1]].
    destruct (find_dim (dims o1) (aname nx)) as [i|]; [|discriminate].
    destruct (_ && _).
    + destruct (repeat_rearr _ _ _ _ _ W1 H) as [W2 [R2 D2]]. split; [exact W2|]. split; [exact (rw_trans o o1 r W1 R1 R2) | congruence].
    + injection H as <-. split; [exact W1|]. split; assumption.
Qed.

(* broadcast(axes): the result has exactly the requested dimensions, in the requested order, is well-formed, keeps the
   metadata, carries every input axis of length <> 1 unchanged, and each of its elements is the input element at the
   name-wise corresponding coordinate (replicated along new and repeated dimensions) *)
Theorem broadcast_rearr newaxes a r :
  WF a -> ~ In EmptyString (map aname newaxes) -> broadcast newaxes a = Ok r ->
  WF r /\ dims r = map aname newaxes /\ rearr a r.
Proof.
  intros Hw He H. unfold broadcast, broadcast_with in H.
  destruct (reshape_plain (map aname newaxes) a) as [o|] eqn:E; cbn [bind] in H; [|discriminate].
  destruct (reshape_plain_rearr _ _ _ He Hw E) as [W1 [R1 D1]].
  destruct (broadcast_repeat_rearr _ _ _ W1 H) as [W2 [R2 D2]].
  split; [exact W2|]. split; [congruence|]. exact (rw_trans a o r W1 R1 R2).
Qed.

(* ------------------------------------------------------------------ broadcast_arrays *)
Lemma mapM_Forall2 {A B} (f : A -> res B) (P : A -> Prop) (R : A -> B -> Prop) l r :
  (forall x y, P x -> f x = Ok y -> R x y) -> Forall P l -> mapM f l = Ok r -> Forall2 R l r.
Proof.
  intros Hf. revert r; induction l as [|x t IH]; intros r Hl H; simpl in H; [injection H as <-; constructor|].
  inversion Hl as [|? ? Hx Ht]; subst.
  destruct (f x) as [y|] eqn:E; simpl in H; [|discriminate]. destruct (mapM f t) as [r'|]; simpl in H; [|discriminate].
  injection H as <-. constructor; [eapply Hf; eassumption | apply IH; [exact Ht | reflexivity]].
Qed.
Lemma Forall2_refl_on {A} (P : A -> Prop) (R : A -> A -> Prop) l : (forall x, P x -> R x x) -> Forall P l -> Forall2 R l l.
Proof. intros H. induction 1; constructor; auto. Qed.
Lemma Forall2_trans_mid {A} (R : A -> A -> Prop) (Q : A -> Prop) l1 l2 l3 :
  (forall x y z, Q y -> R x y -> R y z -> R x z) -> Forall Q l2 -> Forall2 R l1 l2 -> Forall2 R l2 l3 -> Forall2 R l1 l3.
Proof.
  intros Ht HQ H12. revert l3. induction H12 as [|x y t1 t2 Hxy H12 IH]; intros l3 H23; inversion H23; subst; constructor.
  - inversion HQ; subst. eapply Ht; eassumption.
  - inversion HQ; subst. apply IH; assumption.
Qed.

(* every output of broadcast_arrays is a rearrangement of the input at the same list position, all outputs are
   well-formed and have the same dimensions *)
Theorem broadcast_arrays_rearr arrays l :
  Forall WF arrays -> broadcast_arrays arrays = Ok l ->
  Forall2 rearr arrays l /\ Forall WF l /\ exists ds, Forall (fun r => dims r = ds) l.
Proof.
  intros Hall H. unfold broadcast_arrays in H.
  destruct (align_dims arrays) as [arrs|] eqn:E1; cbn [bind] in H; [|discriminate].
  assert (W1 : Forall WF arrs) by (eapply align_dims_wf; eassumption).
  assert (R1 : Forall2 rearr arrays arrs).
  { unfold align_dims in E1. destruct arrays as [|a0 t]; [injection E1 as <-; constructor|].
    destruct (forallb _ t).
    - injection E1 as <-. apply (Forall2_refl_on WF); [|exact Hall]. intros x [Hw [Hn _]]. apply rearr_refl; assumption.
    - assert (Hne : ~ In EmptyString (get_dims (a0 :: t) [])).
      { apply get_dims_nonempty; [intros []|]. eapply Forall_impl; [|exact Hall]. intros a [_ [_ He]]. exact He. }
      eapply (mapM_Forall2 _ WF rearr); [|exact Hall | exact E1]. intros x y Hx Hy.
      destruct (reshape_plain_rearr _ _ _ Hne Hx Hy) as [_ [R _]]. exact R. }
  destruct (pick_axes arrs) as [axs|] eqn:E2; cbn [bind] in H; [|discriminate].
  assert (Hne : ~ In EmptyString (map aname axs)).
  { rewrite (pick_axes_names _ _ E2). apply get_dims_nonempty; [intros []|]. eapply Forall_impl; [|exact W1]. intros a [_ [_ He]]. exact He. }
  assert (R2 : Forall2 rearr arrs l).
  { eapply (mapM_Forall2 _ WF rearr); [|exact W1 | exact H]. intros x y Hx Hy.
    destruct (broadcast_rearr _ _ _ Hx Hne Hy) as [_ [_ R]]. exact R. }
  split; [|split].
  - apply (Forall2_trans_mid rearr WF arrays arrs l); [|exact W1 | exact R1 | exact R2].
    intros x y z Hy. apply rw_trans. exact Hy.
  - eapply (mapM_Forall _ WF WF); [|exact W1 | exact H]. intros x y Hx Hy. eapply broadcast_wf; eassumption.
  - exists (map aname axs). eapply (mapM_Forall _ WF (fun r => dims r = map aname axs)); [|exact W1 | exact H].
    intros x y Hx Hy. destruct (broadcast_rearr _ _ _ Hx Hne Hy) as [_ [D _]]. exact D.
Qed.

(* the statements in full, without the record *)
Theorem broadcast_full newaxes a r :
  WF a -> ~ In EmptyString (map aname newaxes) -> broadcast newaxes a = Ok r ->
  WF r /\ dims r = map aname newaxes /\ attrs r = attrs a /\
  (forall ax, In ax (axes a) -> alen ax <> 1 -> In ax (axes r)) /\
  forall c', inb (sh (vals r)) c' = true ->
    inb (sh (vals a)) (name_coord a r c') = true /\ get (vals r) c' = get (vals a) (name_coord a r c').
Proof.
  intros Hw He H. destruct (broadcast_rearr _ _ _ Hw He H) as [W [D [_ Hat Hk Hg]]].
  split; [exact W|]. split; [exact D|]. split; [exact Hat|]. split; [exact Hk | exact Hg].
Qed.
Theorem broadcast_arrays_full arrays l :
  Forall WF arrays -> broadcast_arrays arrays = Ok l ->
  Forall WF l /\ (exists ds, Forall (fun r => dims r = ds) l) /\
  Forall2 (fun a r => attrs r = attrs a /\
                      (forall ax, In ax (axes a) -> alen ax <> 1 -> In ax (axes r)) /\
                      forall c', inb (sh (vals r)) c' = true ->
                        inb (sh (vals a)) (name_coord a r c') = true /\ get (vals r) c' = get (vals a) (name_coord a r c'))
          arrays l.
Proof.
  intros Hall H. destruct (broadcast_arrays_rearr _ _ Hall H) as [R [W D]]. split; [exact W|]. split; [exact D|].
  clear -R. induction R as [|a r ta tr [_ Hat Hk Hg] _ IH]; constructor; [|exact IH].
  split; [exact Hat|]. split; [exact Hk | exact Hg].
Qed.
