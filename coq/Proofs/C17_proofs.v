(* C17: axis-wise selection and missing-value handling keep slices with their labels. *)
From Coq Require Import Qround Qabs Permutation.
From DA Require Import Prelude NDArray Array PyRT.
From DA.Model Require Import Value Reshape SliceSpec Indexing Align Transform.
From DA.Proofs Require Import ListLemmas C10_proofs C01_proofs C03_proofs C07_proofs.
Open Scope nat_scope.
Open Scope list_scope.

(* ------------------------------------------------------------------ argsort is a sorting permutation *)
Definition lab (ls : list label) (j : nat) : label := nth j ls LNone.
Fixpoint sorted_by (ls : list label) (l : list nat) : Prop :=
  match l with
  | j1 :: ((j2 :: _) as t) => label_le (lab ls j1) (lab ls j2) = true /\ sorted_by ls t
  | _ => True
  end.

Lemma ltb_le_lab a b : label_ltb a b = true -> label_le a b = true.
Proof.
  unfold label_ltb. rewrite negb_true_iff. intros H. destruct (label_le_total a b) as [T|T]; [exact T | congruence].
Qed.

Lemma ins_sorted_perm ls i l : Permutation (ins_sorted ls i l) (i :: l).
Proof.
  induction l as [|j t IH]; simpl; [apply Permutation_refl|].
  destruct (label_ltb _ _); [apply Permutation_refl|].
  eapply Permutation_trans; [apply perm_skip; exact IH | apply perm_swap].
Qed.

Lemma ins_sorted_head ls i l : exists z r, ins_sorted ls i l = z :: r /\ (z = i \/ match l with j :: _ => z = j | [] => False end).
Proof. destruct l as [|j t]; simpl; [eauto|]. destruct (label_ltb _ _); eauto. Qed.

Lemma ins_sorted_sorted ls i l : sorted_by ls l -> sorted_by ls (ins_sorted ls i l).
Proof.
  induction l as [|j t IH]; intros Hs; simpl; [exact I|].
  destruct (label_ltb (nth i ls LNone) (nth j ls LNone)) eqn:E.
  - split; [apply ltb_le_lab; exact E | exact Hs].
  - assert (Hji : label_le (lab ls j) (lab ls i) = true).
    { unfold label_ltb in E. apply negb_false_iff in E. exact E. }
    assert (Ht : sorted_by ls t) by (destruct t; [exact I | destruct Hs; assumption]).
    specialize (IH Ht). destruct (ins_sorted_head ls i t) as [z [r [Ez Hz]]]. rewrite Ez in *.
    split; [|exact IH]. destruct Hz as [->|Hz]; [exact Hji|].
    destruct t as [|w t']; [contradiction|]. subst z. destruct Hs as [H1 _]. exact H1.
Qed.

Lemma argsort_fold_perm ls l acc :
  Permutation (fold_left (fun a i => ins_sorted ls i a) l acc) (rev l ++ acc).
Proof.
  revert acc; induction l as [|i t IH]; intros acc; simpl; [apply Permutation_refl|].
  eapply Permutation_trans; [apply IH|]. rewrite <- app_assoc. simpl.
  apply Permutation_app_head. apply ins_sorted_perm.
Qed.
Lemma argsort_fold_sorted ls l acc :
  sorted_by ls acc -> sorted_by ls (fold_left (fun a i => ins_sorted ls i a) l acc).
Proof. revert acc; induction l as [|i t IH]; intros acc H; simpl; [exact H|]. apply IH. apply ins_sorted_sorted. exact H. Qed.

(* np.argsort: a permutation of the positions that puts the labels in ascending order *)
Theorem argsort_perm ls : Permutation (argsort ls) (seq 0 (List.length ls)).
Proof.
  unfold argsort. eapply Permutation_trans; [apply argsort_fold_perm|]. rewrite app_nil_r.
  apply Permutation_sym. apply Permutation_rev.
Qed.
Theorem argsort_sorted ls : sorted_by ls (argsort ls).
Proof. unfold argsort. apply argsort_fold_sorted. exact I. Qed.

(* ------------------------------------------------------------------ sort_axis / take_axis / compress *)
Theorem sort_axis_spec r a res :
  sort_axis r a = Ok res ->
  exists i, resolve_axis a r = Ok i /\
    let labs := alab (nth i (axes a) dax0) in
    let order := argsort labs in
    res = take_axis_pos order i a /\
    Permutation order (seq 0 (List.length labs)) /\ sorted_by labs order.
Proof.
  unfold sort_axis. fold (resolve_axis a r). destruct (resolve_axis a r) as [i|]; simpl; [|discriminate].
  intros [= <-]. exists i. split; [reflexivity|]. cbv zeta. split; [reflexivity|].
  split; [apply argsort_perm | apply argsort_sorted].
Qed.

(* selecting whole slices by position: the axis carries the labels of the selected positions in the
   requested order, every selected slice is the original slice, the other axes / metadata untouched *)
Theorem take_axis_pos_spec idxs i a :
  i < List.length (axes a) ->
  let res := take_axis_pos idxs i a in
  let ax := nth i (axes a) dax0 in
  attrs res = attrs a /\
  alab (nth i (axes res) dax0) = map (nth_lab (alab ax)) idxs /\
  aname (nth i (axes res) dax0) = aname ax /\ aattrs (nth i (axes res) dax0) = aattrs ax /\
  (forall j, j <> i -> nth j (axes res) dax0 = nth j (axes a) dax0) /\
  forall c', inb (sh (vals res)) c' = true ->
    get (vals res) c' = get (vals a) (set_nth i (nth (nth i c' 0) idxs 0) c').
Proof.
  intros Hi. cbv zeta. unfold take_axis_pos at 1 2 3 4 5. simpl.
  rewrite nth_set_nth_eq by exact Hi. simpl.
  repeat split; try reflexivity.
  - intros j Hj. apply nth_set_nth_neq. intro; apply Hj; auto.
  - intros c' Hc'. apply take_axis_pos_get. exact Hc'.
Qed.

Theorem take_axis_label_spec ls r a res :
  take_axis_label ls r a = Ok res ->
  exists i idxs, axis_info a r = Ok i /\ locate_many (alab (nth i (axes a) dax0)) ls = Ok idxs /\
    res = take_axis_pos idxs i a.
Proof.
  unfold take_axis_label. destruct (axis_info a r) as [i|]; simpl; [|discriminate].
  destruct (locate_many _ ls) as [idxs|] eqn:E; simpl; [|discriminate]. intros [= <-]. eauto.
Qed.

Theorem compress_axis_spec keep i a res :
  compress_axis keep i a = Ok res ->
  List.length keep = alen (nth i (axes a) dax0) /\ res = take_axis_pos (mask_positions keep) i a.
Proof.
  unfold compress_axis. destruct (List.length keep =? alen _) eqn:E; simpl; [|discriminate].
  intros [= <-]. apply Nat.eqb_eq in E. split; [exact E | reflexivity].
Qed.

(* ------------------------------------------------------------------ dropna *)
(* the threshold test of the source is the statement of the property: a slice is kept iff it has at
   least minvalid valid (non-NaN) values *)
Theorem dropna_threshold (nn size m : nat) :
  nn <= size ->
  ((Z.of_nat nn <=? Z.of_nat size - Z.of_nat m)%Z = true <-> m <= size - nn).
Proof. intros H. rewrite Z.leb_le. lia. Qed.

Theorem dropna_spec r mv a res n0 n1 rest :
  sh (vals a) = n0 :: n1 :: rest ->
  dropna r mv a = Ok res ->
  exists i, axis_info a r = Ok i /\
    let v := vals a in
    let size := prod (remove_nth i (sh v)) in
    let keep := map (fun j => let nn := count_nan (slice_cells v i j) in
                              match mv with None => nn <=? 0
                                          | Some m => (Z.of_nat nn <=? Z.of_nat size - Z.of_nat m)%Z end)
                    (seq 0 (nth i (sh v) 0)) in
    res = take_axis_pos (mask_positions keep) i a.
Proof.
  intros Hs. unfold dropna. destruct (axis_info a r) as [i|]; simpl; [|discriminate].
  rewrite Hs. rewrite <- Hs. intros H. exists i. split; [reflexivity|]. cbv zeta.
  apply compress_axis_spec in H. apply H.
Qed.

(* ------------------------------------------------------------------ fillna / setna *)
Theorem setmask_true m r cast a a' :
  List.length (dat (vals a)) = prod (sh (vals a)) ->
  setmask m (RScalar r KF) cast a = Ok a' ->
  forall i, i < List.length m -> nth i m false = true ->
    cell_to_kind (kd (vals a')) r = Ok (nth i (dat (vals a')) CNaN).
Proof.
  intros Hwf. unfold setmask. destruct (List.length m =? prod (sh (vals a))) eqn:El; cbn [negb]; [|discriminate].
  assert (Hlm : List.length m = List.length (dat (vals a))) by (apply Nat.eqb_eq in El; lia).
  destruct (mapM _ _) as [nd|] eqn:Em; cbn [bind]; [|discriminate]. intros [= <-]. cbn [vals mkarr dat kd]. intros i Hi Hb.
  pose proof (mapM_nth _ _ _ i (0, (false, CNaN)) CNaN Em) as H.
  rewrite combine_length, seq_length, combine_length in H. specialize (H ltac:(lia)).
  rewrite combine_nth in H by (rewrite seq_length, combine_length; lia).
  rewrite combine_nth in H by exact Hlm.
  cbn beta iota in H. rewrite Hb in H. exact H.
Qed.

(* setna: exactly the cells equal to one of the values become NaN; integers are promoted to float by
   the generated cast table (cast=True) *)
Theorem setna_spec vs a a' :
  List.length (dat (vals a)) = prod (sh (vals a)) ->
  setna vs a = Ok a' ->
  axes a' = axes a /\ attrs a' = attrs a /\ sh (vals a') = sh (vals a) /\
  kd (vals a') = cast_kind (kd (vals a)) KF /\
  forall i, i < List.length (dat (vals a)) ->
    let c := nth i (dat (vals a)) CNaN in
    if existsb (cell_eqb c) vs then cell_to_kind (kd (vals a')) CNaN = Ok (nth i (dat (vals a')) CNaN)
    else cell_to_kind (kd (vals a')) c = Ok (nth i (dat (vals a')) CNaN).
Proof.
  intros Hwf H. unfold setna in H.
  pose proof (setmask_spec _ _ _ _ _ Hwf H) as [Hax [Hat [Hsh [Hlen Hfalse]]]].
  split; [exact Hax|]. split; [exact Hat|]. split; [exact Hsh|].
  split.
  { unfold setmask in H. destruct (_ =? _); simpl in H; [|discriminate]. destruct (mapM _ _); simpl in H; [|discriminate].
    injection H as <-. reflexivity. }
  intros i Hi. cbv zeta. rewrite map_length in Hlen.
  assert (Hm : nth i (map (fun c => existsb (cell_eqb c) vs) (dat (vals a))) false
               = existsb (cell_eqb (nth i (dat (vals a)) CNaN)) vs).
  { rewrite (nth_map_in _ _ _ CNaN) by exact Hi. reflexivity. }
  destruct (existsb (cell_eqb (nth i (dat (vals a)) CNaN)) vs) eqn:E.
  - apply (setmask_true _ _ _ _ _ Hwf H i); [rewrite map_length; exact Hi | exact Hm].
  - apply Hfalse; [rewrite map_length; exact Hi | exact Hi | exact Hm].
Qed.

Theorem fillna_spec c ck a a' n rest :
  sh (vals a) = n :: rest ->
  List.length (dat (vals a)) = prod (sh (vals a)) ->
  fillna c ck a = Ok a' ->
  axes a' = axes a /\ attrs a' = attrs a /\ sh (vals a') = sh (vals a) /\
  forall i, i < List.length (dat (vals a)) ->
    is_nan (nth i (dat (vals a)) CNaN) = false ->
    cell_to_kind (kd (vals a')) (nth i (dat (vals a)) CNaN) = Ok (nth i (dat (vals a')) CNaN).
Proof.
  intros Hs Hwf. unfold fillna. rewrite Hs. rewrite <- Hs. intros H.
  pose proof (setmask_spec _ _ _ _ _ Hwf H) as [Hax [Hat [Hsh [Hlen Hfalse]]]].
  split; [exact Hax|]. split; [exact Hat|]. split; [exact Hsh|].
  intros i Hi Hn. apply Hfalse; [rewrite map_length; exact Hi | exact Hi |].
  rewrite (nth_map_in _ _ _ CNaN) by exact Hi. exact Hn.
Qed.
