(* C07: reindexing moves data together with its labels. *)
From Coq Require Import Qround.
From DA Require Import Prelude NDArray Array PyRT.
From DA.Model Require Import Value Reshape SliceSpec Indexing Align.
From DA.Proofs Require Import ListLemmas C10_proofs C01_proofs C03_proofs.
Open Scope nat_scope.

Definition resolve_axis (a : darr) (r : axref) : res nat :=
  match r with
  | ByName s => match find_dim (dims a) s with Some i => Ok i | None => Err ValueError end
  | ByPos z => py_index (List.length (axes a)) z
  end.

Definition new_mask (labs : list label) (idxs : list nat) (news : list label) : list bool :=
  map (fun p => negb (label_eqb (nth_lab labs (fst p)) (snd p))) (combine idxs news).

Lemma take_axis_pos_get idxs i a c' :
  inb (sh (vals (take_axis_pos idxs i a))) c' = true ->
  get (vals (take_axis_pos idxs i a)) c' = get (vals a) (set_nth i (nth (nth i c' 0) idxs 0) c').
Proof. intros H. simpl in *. unfold np_take in *. simpl in H. rewrite get_mk by exact H. reflexivity. Qed.

Lemma fill_axis_spec i mask fill fk o o' :
  fill_axis i mask fill fk o = Ok o' ->
  axes o' = axes o /\ attrs o' = attrs o /\ sh (vals o') = sh (vals o) /\
  kd (vals o') = cast_kind (kd (vals o)) fk /\
  forall c, inb (sh (vals o)) c = true ->
    (if nth (nth i c 0) mask false then cell_to_kind (kd (vals o')) fill
     else cell_to_kind (kd (vals o')) (get (vals o) c)) = Ok (get (vals o') c).
Proof.
  unfold fill_axis. destruct (mapM _ (coords (sh (vals o)))) as [nd|] eqn:Em; simpl; [|discriminate].
  intros [= <-]. simpl. repeat split; try reflexivity.
  intros c Hc. pose proof (mapM_nth _ _ _ (ravel (sh (vals o)) c) [] CNaN Em) as H.
  rewrite coords_length in H. specialize (H (ravel_lt _ _ Hc)).
  rewrite nth_coords in H by exact Hc. exact H.
Qed.

Lemma relabel_labels ax vk news :
  List.length news = alen ax ->
  alab (relabel ax vk news) = map (fun p => match snd p with Some l => l | None => fst p end) (combine (alab ax) news)
  /\ aname (relabel ax vk news) = aname ax /\ aattrs (relabel ax vk news) = aattrs ax.
Proof. intros _. repeat split. Qed.

(* main theorem (no method, no raise): the axis becomes exactly the new labels, each slice is the
   original slice at that label when the label existed and the fill value otherwise; other axes,
   metadata untouched *)
Theorem reindex_spec newk news i fill fk a a' :
  wf_shape a ->
  reindex_main newk news i fill fk false MNone a = Ok a' ->
  exists idxs,
    locate_many_raw false (alab (nth i (axes a) dax0)) news = Ok idxs /\
    List.length idxs = List.length news /\
    attrs a' = attrs a /\
    (forall j, j <> i -> nth j (axes a') dax0 = nth j (axes a) dax0) /\
    aname (nth i (axes a') dax0) = aname (nth i (axes a) dax0) /\
    (* the axis is exactly the new labels: same length, and label k equals news[k] *)
    (i < List.length (axes a) ->
     List.length (alab (nth i (axes a') dax0)) = List.length news /\
     forall k, k < List.length news ->
       label_eqb (nth k (alab (nth i (axes a') dax0)) LNone) (nth k news LNone) = true) /\
    (* data: existing labels bring their slice, new labels get the fill value *)
    forall c', inb (sh (vals a')) c' = true -> i < List.length (axes a) ->
      let k := nth i c' 0 in
      let src := nth k idxs 0 in
      if label_eqb (nth_lab (alab (nth i (axes a) dax0)) src) (nth k news LNone)
      then (exists cc, cell_to_kind (kd (vals a')) (get (vals a) (set_nth i src c')) = Ok cc /\ get (vals a') c' = cc)
           \/ get (vals a') c' = get (vals a) (set_nth i src c')
      else cell_to_kind (kd (vals a')) fill = Ok (get (vals a') c').
Proof.
  intros Hwf. unfold reindex_main.
  set (ax := nth i (axes a) dax0).
  destruct (locate_many_raw false (alab ax) news) as [idxs|] eqn:El; simpl; [|discriminate].
  pose proof (locate_many_raw_length _ _ _ _ El) as Hlen.
  set (o := take_axis_pos idxs i a).
  set (mask := map (fun p => negb (label_eqb (nth_lab (alab ax) (fst p)) (snd p))) (combine idxs news)).
  assert (Hmask_len : List.length mask = List.length news).
  { unfold mask. rewrite map_length, combine_length. lia. }
  assert (Hmask_nth : forall k, k < List.length news ->
            nth k mask false = negb (label_eqb (nth_lab (alab ax) (nth k idxs 0)) (nth k news LNone))).
  { intros k Hk. unfold mask.
    rewrite (nth_map_in _ _ _ (0, LNone)) by (rewrite combine_length; lia).
    rewrite combine_nth by exact Hlen. reflexivity. }
  destruct (existsb (fun b => b) mask) eqn:Hany.
  - (* some labels are new *)
    destruct (fill_axis i mask fill fk o) as [o'|] eqn:Ef; simpl; [|discriminate].
    intros [= <-]. exists idxs. split; [first [exact El | reflexivity]|]. split; [exact Hlen|].
    destruct (fill_axis_spec _ _ _ _ _ _ Ef) as [Hax [Hat [Hsh [Hkd Hcell]]]].
    simpl. split; [rewrite Hat; reflexivity|].
    split.
    { intros j Hj. rewrite nth_set_nth_neq by (intro; apply Hj; auto). rewrite Hax. unfold o. simpl.
      rewrite nth_set_nth_neq by (intro; apply Hj; auto). reflexivity. }
    assert (Hil : i < List.length (axes a) -> i < List.length (axes o')).
    { intros H. rewrite Hax. unfold o. simpl. rewrite set_nth_length. exact H. }
    split.
    { destruct (le_lt_dec (List.length (axes a)) i) as [Hge|Hlt].
      - unfold ax. rewrite !nth_overflow; [reflexivity | exact Hge | rewrite set_nth_length, Hax; unfold o; simpl; rewrite set_nth_length; exact Hge].
      - rewrite nth_set_nth_eq by (apply Hil; exact Hlt). simpl. rewrite Hax. unfold o. simpl.
        rewrite nth_set_nth_eq by exact Hlt. reflexivity. }
    split.
    { intros Hlt. rewrite nth_set_nth_eq by (apply Hil; exact Hlt). simpl.
      rewrite Hax. unfold o. simpl. rewrite nth_set_nth_eq by exact Hlt. simpl.
      split.
      - rewrite map_length, combine_length, !map_length, combine_length. lia.
      - intros k Hk.
        rewrite (nth_map_in _ _ _ (LNone, None)) by (rewrite combine_length, !map_length, combine_length; lia).
        rewrite combine_nth by (rewrite !map_length, combine_length; lia).
        simpl.
        rewrite (nth_map_in _ _ _ (false, LNone)) by (rewrite combine_length; lia).
        rewrite combine_nth by lia. simpl. rewrite Hmask_nth by exact Hk.
        destruct (label_eqb (nth_lab (alab ax) (nth k idxs 0)) (nth k news LNone)) eqn:E; simpl.
        + rewrite (nth_map_in _ _ _ 0) by lia. exact E.
        + apply label_eqb_refl. }
    intros c' Hc' Hlt. simpl in Hc'. rewrite Hsh in Hc'.
    specialize (Hcell c' Hc').
    assert (Hk : nth i c' 0 < List.length news).
    { unfold o in Hc'. simpl in Hc'.
      pose proof (inb_nth_lt _ _ i Hc') as Hb. rewrite set_nth_length in Hb.
      destruct Hwf as [Hsa _]. assert (i < List.length (sh (vals a))) by (rewrite <- Hsa, map_length; exact Hlt).
      specialize (Hb H). rewrite nth_set_nth_eq in Hb by exact H. lia. }
    rewrite Hmask_nth in Hcell by exact Hk. cbv zeta. fold ax.
    destruct (label_eqb (nth_lab (alab ax) (nth (nth i c' 0) idxs 0)) (nth (nth i c' 0) news LNone)) eqn:E; simpl in Hcell.
    + left. eexists. split; [|reflexivity]. rewrite <- Hcell. f_equal.
      symmetry. apply take_axis_pos_get. exact Hc'.
    + exact Hcell.
  - (* every label existed: pure take *)
    intros [= <-]. exists idxs. split; [first [exact El | reflexivity]|]. split; [exact Hlen|].
    assert (Hall : forall k, k < List.length news ->
              label_eqb (nth_lab (alab ax) (nth k idxs 0)) (nth k news LNone) = true).
    { intros k Hk. specialize (Hmask_nth k Hk).
      destruct (label_eqb _ _) eqn:E; [reflexivity|]. simpl in Hmask_nth.
      assert (Hin : In true mask) by (rewrite <- Hmask_nth; apply nth_In; lia).
      assert (existsb (fun b => b) mask = true) by (apply existsb_exists; exists true; auto). congruence. }
    unfold o. simpl. split; [reflexivity|]. split.
    { intros j Hj. rewrite nth_set_nth_neq by (intro; apply Hj; auto). reflexivity. }
    split.
    { destruct (le_lt_dec (List.length (axes a)) i) as [Hge|Hlt].
      - unfold ax. rewrite !nth_overflow; [reflexivity | exact Hge | rewrite set_nth_length; exact Hge].
      - rewrite nth_set_nth_eq by exact Hlt. reflexivity. }
    split.
    { intros Hlt. rewrite nth_set_nth_eq by exact Hlt. simpl. rewrite map_length. split; [lia|].
      intros k Hk. rewrite (nth_map_in _ _ _ 0) by lia. apply Hall. exact Hk. }
    intros c' Hc' Hlt. cbv zeta.
    assert (Hk : nth i c' 0 < List.length news).
    { simpl in Hc'. pose proof (inb_nth_lt _ _ i Hc') as Hb. rewrite set_nth_length in Hb.
      destruct Hwf as [Hsa _]. assert (i < List.length (sh (vals a))) by (rewrite <- Hsa, map_length; exact Hlt).
      specialize (Hb H). rewrite nth_set_nth_eq in Hb by exact H. lia. }
    fold ax. rewrite (Hall _ Hk). right.
    change (get (vals (take_axis_pos idxs i a)) c' = get (vals a) (set_nth i (nth (nth i c' 0) idxs 0) c')).
    apply take_axis_pos_get. exact Hc'.
Qed.

(* dispatch: name / position resolution, then the empty-axis case or the main pipeline *)
Theorem reindex_dispatch newk news r fill fk re m a :
  reindex_axis newk news r fill fk re m a =
  (let! i := resolve_axis a r in
   if (alen (nth i (axes a) dax0) =? 0) && negb (List.length news =? 0)
   then reindex_empty newk news i fill fk re a
   else reindex_main newk news i fill fk re m a).
Proof. reflexivity. Qed.

(* raise_error=True raises IndexError exactly when some requested label is not found *)
Theorem reindex_raise newk news fill fk m a i idxs :
  locate_many_raw (match m with MRight => true | _ => false end) (alab (nth i (axes a) dax0)) news = Ok idxs ->
  existsb (fun b => b) (new_mask (alab (nth i (axes a) dax0)) idxs news) = true ->
  reindex_main newk news i fill fk true m a = Err IndexError.
Proof.
  intros Hl Hm. unfold reindex_main. rewrite Hl. simpl.
  unfold new_mask in Hm. rewrite Hm. reflexivity.
Qed.
Theorem reindex_no_raise newk news fill fk re m a i idxs :
  locate_many_raw (match m with MRight => true | _ => false end) (alab (nth i (axes a) dax0)) news = Ok idxs ->
  existsb (fun b => b) (new_mask (alab (nth i (axes a) dax0)) idxs news) = false ->
  reindex_main newk news i fill fk re m a = Ok (take_axis_pos idxs i a).
Proof.
  intros Hl Hm. unfold reindex_main. rewrite Hl. simpl.
  unfold new_mask in Hm. rewrite Hm. reflexivity.
Qed.

(* empty source axis: the axis becomes exactly the new labels, every cell is the fill value *)
Theorem reindex_empty_spec newk news i fill fk a a' :
  i < List.length (axes a) -> map alen (axes a) = sh (vals a) ->
  reindex_empty newk news i fill fk false a = Ok a' ->
  attrs a' = attrs a /\
  alab (nth i (axes a') dax0) = news /\ aname (nth i (axes a') dax0) = aname (nth i (axes a) dax0) /\
  (forall j, j <> i -> nth j (axes a') dax0 = nth j (axes a) dax0) /\
  wf_shape a' /\
  forall c', inb (sh (vals a')) c' = true -> cell_to_kind (kd (vals a')) fill = Ok (get (vals a') c').
Proof.
  intros Hi Hsa. unfold reindex_empty.
  destruct (cell_to_kind (cast_kind (kd (vals a)) fk) fill) as [c|] eqn:Ec; simpl; [|discriminate].
  intros [= <-]. simpl. split; [reflexivity|].
  rewrite nth_set_nth_eq by exact Hi. simpl. split; [reflexivity|]. split; [reflexivity|].
  split; [intros j Hj; apply nth_set_nth_neq; intro; apply Hj; auto|].
  split.
  - apply wf_shape_mk. rewrite map_set_nth, Hsa. reflexivity.
  - intros c' Hc'. rewrite get_mk by exact Hc'. exact Ec.
Qed.

(* integer data is promoted to float exactly through the generated cast table when NaN is filled *)
Theorem fill_promotes_int : cast_kind KI KF = KF /\ cast_kind KF KF = KF /\ cast_kind KB KF = KO.
Proof. vm_compute. auto. Qed.
