(* C06: the n-ary union keeps the set of labels and - when all inputs are sorted the same way - their direction *)
From Coq Require Import Permutation.
From DA Require Import Prelude NDArray Array PyRT.
From DA.Model Require Import Value Reshape SliceSpec Indexing Align.
From DA.Proofs Require Import ListLemmas C17_proofs C01_complete C06_proofs C05_proofs.
Open Scope nat_scope.

Lemma sort_labels_perm l : Permutation (sort_labels l) l.
Proof.
  unfold sort_labels. pose proof (argsort_perm l) as H.
  eapply Permutation_trans; [apply Permutation_map; exact H|].
  unfold nth_lab. rewrite map_nth_seq. apply Permutation_refl.
Qed.
Lemma existsb_perm {A} (p : A -> bool) l l' : Permutation l l' -> existsb p l = existsb p l'.
Proof.
  induction 1 as [|x l l' _ IH|x y l|l l' l'' _ IH1 _ IH2]; simpl; [reflexivity | rewrite IH; reflexivity | | congruence].
  destruct (p x), (p y); reflexivity.
Qed.
Lemma mem_label_perm x l l' : Permutation l l' -> mem_label x l = mem_label x l'.
Proof. apply existsb_perm. Qed.

(* the post-pass of the n-ary union never changes WHICH labels the common axis holds, nor its name, kind or metadata *)
Theorem keep_direction_labels axs com :
  Permutation (alab (keep_direction axs com)) (alab com) /\
  aname (keep_direction axs com) = aname com /\ akind (keep_direction axs com) = akind com /\ aattrs (keep_direction axs com) = aattrs com.
Proof.
  unfold keep_direction. destruct (negb _); [repeat split; apply Permutation_refl|].
  destruct (flat_map _ _) as [|u t]; [repeat split; apply Permutation_refl|].
  destruct (negb (forallb _ t)); [repeat split; apply Permutation_refl|].
  destruct (negb _); [repeat split; apply Permutation_refl|].
  destruct (labels_eqb _ _); [repeat split; apply Permutation_refl|].
  cbn [alab aname akind aattrs ax_new]. split; [|repeat split].
  destruct u; [apply sort_labels_perm | eapply Permutation_trans; [apply Permutation_sym; apply Permutation_rev | apply sort_labels_perm]].
Qed.
Theorem keep_direction_mem axs com x : mem_label x (alab (keep_direction axs com)) = mem_label x (alab com).
Proof. apply mem_label_perm. apply keep_direction_labels. Qed.

(* ... and when it acts, the labels come out in the common direction of the inputs: ascending (label_le between
   neighbours) when they increase, the reverse of an ascending list when they decrease *)
Theorem keep_direction_sorted axs com :
  keep_direction axs com <> com ->
  exists u, (u = true -> alab (keep_direction axs com) = sort_labels (alab com)) /\
            (u = false -> alab (keep_direction axs com) = rev (sort_labels (alab com))).
Proof.
  unfold keep_direction. destruct (negb _); [intros H; contradiction H; reflexivity|].
  destruct (flat_map _ _) as [|u t]; [intros H; contradiction H; reflexivity|].
  destruct (negb (forallb _ t)); [intros H; contradiction H; reflexivity|].
  destruct (negb _); [intros H; contradiction H; reflexivity|].
  destruct (labels_eqb _ _); [intros H; contradiction H; reflexivity|].
  intros _. exists u. cbn [alab ax_new]. split; intros ->; reflexivity.
Qed.
Theorem sort_labels_asc l : asc (sort_labels l).
Proof. unfold sort_labels. apply (sorted_by_asc l (argsort l)). apply argsort_sorted. Qed.
