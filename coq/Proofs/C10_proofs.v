(* C10: rearranging dimensions preserves every element's coordinates. *)
From DA Require Import Prelude NDArray Array.
From DA.Model Require Import Value Reshape.
From DA.Proofs Require Import ListLemmas.
Open Scope nat_scope.

Definition dax : axis := mkaxis "" KO [].
(* shape part of well-formedness: one axis per dimension with matching length, data of the right size *)
Definition wf_shape (a : darr) : Prop :=
  map alen (axes a) = sh (vals a) /\ List.length (dat (vals a)) = prod (sh (vals a)).

Lemma get_mk s k f c : inb s c = true -> get (mk s k f) c = f c.
Proof. intros H. unfold get, mk; simpl. apply get_tab. exact H. Qed.

Lemma wf_shape_mk axs s k f m : map alen axs = s -> wf_shape (mkarr axs (mk s k f) m).
Proof. intros H. split; simpl; [exact H | apply tab_length]. Qed.

(* ------------------------------------------------------------------ transpose *)
Definition src_coord (p : list nat) (c' : list nat) : list nat :=
  map (fun j => nth (pos_in p j) c' 0) (seq 0 (List.length p)).

Lemma is_perm_props p : is_perm p = true ->
  (forall j, In j p -> j < List.length p) /\ NoDup p /\ (forall j, j < List.length p -> In j p).
Proof.
  unfold is_perm. rewrite !andb_true_iff. intros [[H1 H2] H3]. repeat split.
  - intros j Hj. rewrite forallb_forall in H1. apply Nat.ltb_lt. apply H1. exact Hj.
  - apply nodupb_nat_NoDup. exact H2.
  - intros j Hj. rewrite forallb_forall in H3. apply existsb_nat_In. apply H3. apply in_seq. lia.
Qed.

(* the source coordinate of result coordinate c' : its p[k]-th entry is the k-th entry of c' *)
Lemma src_coord_spec p c' k :
  is_perm p = true -> k < List.length p ->
  nth (nth k p 0) (src_coord p c') 0 = nth k c' 0.
Proof.
  intros Hp Hk. destruct (is_perm_props p Hp) as [Hb [Hnd _]].
  unfold src_coord.
  assert (Hlt : nth k p 0 < List.length p) by (apply Hb; apply nth_In; exact Hk).
  rewrite (nth_map_in _ _ _ 0) by (rewrite seq_length; exact Hlt).
  rewrite seq_nth by exact Hlt. simpl. rewrite pos_in_nth by assumption. reflexivity.
Qed.

Lemma src_coord_length p c' : List.length (src_coord p c') = List.length p.
Proof. unfold src_coord. rewrite map_length, seq_length. reflexivity. Qed.

Theorem transpose_pos_spec p a r :
  wf_shape a -> transpose_pos p a = Ok r ->
  is_perm p = true /\ List.length p = List.length (axes a) /\
  wf_shape r /\
  axes r = map (fun j => nth j (axes a) dax) p /\
  attrs r = attrs a /\ kd (vals r) = kd (vals a) /\
  forall c', inb (sh (vals r)) c' = true ->
     get (vals r) c' = get (vals a) (src_coord p c').
Proof.
  intros [Hax Hdat]. unfold transpose_pos.
  destruct (List.length p =? List.length (axes a)) eqn:Hlen; simpl; [|discriminate].
  destruct (is_perm p) eqn:Hp; simpl; [|discriminate].
  intros [= <-]. apply Nat.eqb_eq in Hlen.
  split; [reflexivity|]. split; [exact Hlen|]. split.
  - apply wf_shape_mk. rewrite map_map. apply map_ext_in. intros j Hj.
    rewrite <- Hax. destruct (is_perm_props p Hp) as [Hb _].
    symmetry. apply nth_map_in. rewrite <- Hlen. apply Hb. exact Hj.
  - split; [reflexivity|]. split; [reflexivity|]. split; [reflexivity|].
    intros c' Hc'. simpl. unfold np_transpose. rewrite get_mk by exact Hc'. reflexivity.
Qed.

(* the dims are the requested permutation of the input's dims *)
Corollary transpose_pos_dims p a r :
  wf_shape a -> transpose_pos p a = Ok r -> dims r = map (fun j => nth j (dims a) EmptyString) p.
Proof.
  intros Hwf H. destruct (transpose_pos_spec p a r Hwf H) as [Hp [Hlen [_ [Hax _]]]].
  unfold dims. rewrite Hax, map_map. apply map_ext_in. intros j Hj.
  destruct (is_perm_props p Hp) as [Hb _].
  symmetry. apply nth_map_in. rewrite <- Hlen. apply Hb. exact Hj.
Qed.

(* inverse permutation *)
Definition inv_perm (p : list nat) : list nat := map (pos_in p) (seq 0 (List.length p)).

Lemma nd_eq (x y : nd) : sh x = sh y -> dat x = dat y -> kd x = kd y -> x = y.
Proof. destruct x, y; simpl; intros; subst; reflexivity. Qed.

Lemma darr_eq (x y : darr) : axes x = axes y -> vals x = vals y -> attrs x = attrs y -> x = y.
Proof. destruct x, y; simpl; intros; subst; reflexivity. Qed.

Lemma inv_perm_length p : List.length (inv_perm p) = List.length p.
Proof. unfold inv_perm. rewrite map_length, seq_length. reflexivity. Qed.

Lemma pos_in_lt p j : In j p -> pos_in p j < List.length p.
Proof.
  intros Hin. unfold pos_in. destruct (index_of (Nat.eqb j) p) as [k|] eqn:E.
  - apply (index_of_some _ _ _ E).
  - pose proof (index_of_none _ _ E j Hin) as H. rewrite Nat.eqb_refl in H. discriminate.
Qed.

Lemma nth_inv_perm p j : j < List.length p -> nth j (inv_perm p) 0 = pos_in p j.
Proof.
  intros Hj. unfold inv_perm. rewrite (nth_map_in _ _ _ 0) by (rewrite seq_length; exact Hj).
  rewrite seq_nth by exact Hj. reflexivity.
Qed.

(* permuting a list by p then by the inverse of p gives the list back *)
Lemma map_nth_inv {A} (p : list nat) (l : list A) d :
  is_perm p = true -> List.length p = List.length l ->
  map (fun j => nth j (map (fun i => nth i l d) p) d) (inv_perm p) = l.
Proof.
  intros Hp Hlen. destruct (is_perm_props p Hp) as [Hb [Hnd Hs]].
  apply (list_ext d); [rewrite map_length, inv_perm_length; exact Hlen|].
  intros i Hi. rewrite map_length, inv_perm_length in Hi.
  rewrite (nth_map_in _ _ _ 0) by (rewrite inv_perm_length; exact Hi).
  rewrite nth_inv_perm by exact Hi.
  rewrite (nth_map_in _ _ _ 0) by (apply pos_in_lt; apply Hs; exact Hi).
  rewrite nth_pos_in by (apply Hs; exact Hi). reflexivity.
Qed.

Lemma inv_perm_is_perm p : is_perm p = true -> is_perm (inv_perm p) = true.
Proof.
  intros Hp. destruct (is_perm_props p Hp) as [Hb [Hnd Hs]].
  unfold is_perm. rewrite inv_perm_length. rewrite !andb_true_iff. repeat split.
  - apply forallb_forall. intros x Hx. unfold inv_perm in Hx. rewrite in_map_iff in Hx.
    destruct Hx as [j [<- Hj]]. apply in_seq in Hj. apply Nat.ltb_lt. apply pos_in_lt. apply Hs. lia.
  - (* NoDup: pos_in is injective on 0..n-1 *)
    assert (Hinj : forall i j, i < List.length p -> j < List.length p -> pos_in p i = pos_in p j -> i = j).
    { intros i j Hi Hj E. rewrite <- (nth_pos_in p i) by (apply Hs; exact Hi).
      rewrite <- (nth_pos_in p j) by (apply Hs; exact Hj). rewrite E. reflexivity. }
    unfold inv_perm. revert Hinj. generalize (List.length p) as n. intros n Hinj.
    assert (G : forall s m, s + m <= n -> nodupb Nat.eqb (map (pos_in p) (seq s m)) = true).
    { intros s m; revert s; induction m as [|m IH]; intros s Hsm; simpl; [reflexivity|].
      rewrite andb_true_iff. split; [|apply IH; lia].
      rewrite negb_true_iff. apply not_true_is_false. intros Hex. apply existsb_nat_In in Hex.
      rewrite in_map_iff in Hex. destruct Hex as [j [E Hj]]. apply in_seq in Hj.
      apply Hinj in E; lia. }
    apply G. lia.
  - apply forallb_forall. intros k Hk. apply in_seq in Hk. apply existsb_nat_In.
    unfold inv_perm. rewrite in_map_iff. exists (nth k p 0). split.
    + apply pos_in_nth; [exact Hnd | lia].
    + apply in_seq. split; [lia|]. simpl. apply Hb. apply nth_In. lia.
Qed.

Lemma src_coord_inv p c :
  is_perm p = true -> List.length c = List.length p ->
  src_coord p (src_coord (inv_perm p) c) = c.
Proof.
  intros Hp Hlen. destruct (is_perm_props p Hp) as [Hb [Hnd Hs]].
  apply (list_ext 0); [rewrite src_coord_length; congruence|].
  intros i Hi. rewrite src_coord_length in Hi.
  unfold src_coord at 1. rewrite (nth_map_in _ _ _ 0) by (rewrite seq_length; exact Hi).
  rewrite seq_nth by exact Hi. simpl.
  (* nth (pos_in p i) (src_coord (inv_perm p) c) = nth i c : use src_coord_spec for inv_perm at k = i *)
  pose proof (src_coord_spec (inv_perm p) c i (inv_perm_is_perm p Hp)) as H.
  rewrite inv_perm_length in H. specialize (H Hi). rewrite nth_inv_perm in H by exact Hi. exact H.
Qed.

(* the law a.transpose(p).transpose(inverse p) == a *)
Theorem transpose_inverse p a r :
  wf_shape a -> transpose_pos p a = Ok r -> transpose_pos (inv_perm p) r = Ok a.
Proof.
  intros Hwf H. destruct (transpose_pos_spec p a r Hwf H) as [Hp [Hlen [Hwr [Hax [Hat [Hkd Hget]]]]]].
  pose proof Hwf as [Hsa Hda].
  unfold transpose_pos. rewrite inv_perm_length.
  assert (Hlr : List.length (axes r) = List.length p) by (rewrite Hax, map_length; reflexivity).
  rewrite Hlr, Nat.eqb_refl. simpl. rewrite (inv_perm_is_perm p Hp). simpl. f_equal.
  assert (Hshr : sh (vals r) = map (fun j => nth j (sh (vals a)) 0) p).
  { destruct Hwr as [Hr _]. rewrite <- Hr, Hax, map_map. apply map_ext_in. intros j Hj.
    rewrite <- Hsa. destruct (is_perm_props p Hp) as [Hb _].
    symmetry. apply nth_map_in. rewrite <- Hlen. apply Hb. exact Hj. }
  assert (Hsh2 : map (fun j => nth j (sh (vals r)) 0) (inv_perm p) = sh (vals a)).
  { rewrite Hshr. apply map_nth_inv; [exact Hp|]. rewrite Hlen, <- Hsa, map_length. reflexivity. }
  apply darr_eq; simpl.
  - rewrite Hax. apply map_nth_inv; assumption.
  - apply nd_eq; simpl.
    + exact Hsh2.
    + rewrite Hsh2. apply (getl_ext CNaN (sh (vals a))); [apply tab_length | exact Hda |].
      intros c Hc. rewrite get_tab by exact Hc.
      fold (src_coord (inv_perm p) c).
      assert (Hcl : List.length c = List.length p).
      { rewrite (inb_length _ _ Hc), <- Hsa, map_length. symmetry. exact Hlen. }
      (* get r (src_coord (inv p) c) = get a (src_coord p (src_coord (inv p) c)) = get a c *)
      rewrite Hget.
      * rewrite src_coord_inv by assumption. reflexivity.
      * (* in-bounds of the intermediate coordinate *)
        rewrite Hshr.
        destruct (is_perm_props p Hp) as [Hb [Hnd Hs]].
        assert (G : forall (q : list nat), (forall j, In j q -> j < List.length p) ->
                   inb (map (fun j => nth j (sh (vals a)) 0) q)
                       (map (fun j => nth j c 0) q) = true).
        { induction q as [|j q IHq]; intros Hq; simpl; [reflexivity|].
          rewrite andb_true_iff, Nat.ltb_lt. split.
          - apply inb_nth_lt; [exact Hc|]. rewrite <- Hsa, map_length, <- Hlen. apply Hq. left. reflexivity.
          - apply IHq. intros x Hx. apply Hq. right. exact Hx. }
        replace (src_coord (inv_perm p) c) with (map (fun j => nth j c 0) p); [apply G; exact Hb|].
        apply (list_ext 0); [rewrite map_length, src_coord_length, inv_perm_length; reflexivity|].
        intros k Hk. rewrite map_length in Hk.
        rewrite (nth_map_in _ _ _ 0) by exact Hk.
        unfold src_coord. rewrite inv_perm_length.
        rewrite (nth_map_in _ _ _ 0) by (rewrite seq_length; exact Hk).
        rewrite seq_nth by exact Hk. simpl.
        f_equal. symmetry.
        (* pos_in (inv_perm p) k = nth k p *)
        assert (Hk' : nth k p 0 < List.length p) by (apply Hb; apply nth_In; exact Hk).
        transitivity (pos_in (inv_perm p) (nth (nth k p 0) (inv_perm p) 0)).
        { f_equal. rewrite nth_inv_perm by exact Hk'. symmetry. apply pos_in_nth; assumption. }
        apply pos_in_nth; [|rewrite inv_perm_length; exact Hk'].
        destruct (is_perm_props _ (inv_perm_is_perm p Hp)) as [_ [Hnd' _]]. exact Hnd'.
    + exact Hkd.
  - exact Hat.
Qed.

(* ------------------------------------------------------------------ swapaxes, rollaxis *)
Lemma axis_info_lt a r i : axis_info a r = Ok i -> i < List.length (axes a).
Proof.
  destruct r as [s|z]; simpl.
  - unfold find_dim. destruct (index_of (String.eqb s) (dims a)) as [k|] eqn:E; [|discriminate].
    intros [= <-]. destruct (index_of_some _ _ _ E) as [H _]. unfold dims in H. rewrite map_length in H. exact H.
  - unfold py_index. destruct (0 <=? z)%Z eqn:H0.
    + destruct (z <? Z.of_nat (List.length (axes a)))%Z eqn:H1; [|discriminate]. intros [= <-]. lia.
    + destruct (- Z.of_nat (List.length (axes a)) <=? z)%Z eqn:H1; [|discriminate]. intros [= <-]. lia.
Qed.

(* a name refers to the dimension that carries it *)
Lemma axis_info_name a s i : axis_info a (ByName s) = Ok i -> nth i (dims a) EmptyString = s.
Proof.
  simpl. unfold find_dim. destruct (index_of (String.eqb s) (dims a)) as [k|] eqn:E; [|discriminate].
  intros [= <-]. destruct (index_of_some _ _ _ E) as [_ [H _]]. specialize (H EmptyString).
  apply String.eqb_eq in H. auto.
Qed.
Lemma axis_info_pos a z i : axis_info a (ByPos z) = Ok i -> (0 <= z)%Z -> i = Z.to_nat z.
Proof.
  simpl. unfold py_index. intros H Hz. destruct (0 <=? z)%Z eqn:H0; [|lia].
  destruct (z <? Z.of_nat (List.length (axes a)))%Z; [|discriminate]. congruence.
Qed.

Definition swap_coord (i j : nat) (c : list nat) : list nat :=
  map (fun k => if k =? i then nth j c 0 else if k =? j then nth i c 0 else nth k c 0) (seq 0 (List.length c)).

Theorem swapaxes_spec r1 r2 a r :
  wf_shape a -> swapaxes r1 r2 a = Ok r ->
  exists i j, axis_info a r1 = Ok i /\ axis_info a r2 = Ok j /\
    wf_shape r /\ attrs r = attrs a /\
    axes r = map (fun k => nth (if k =? i then j else if k =? j then i else k) (axes a) dax)
                 (seq 0 (List.length (axes a))) /\
    forall c', inb (sh (vals r)) c' = true ->
       get (vals r) c' = get (vals a) (src_coord (swap_perm (List.length (axes a)) i j) c').
Proof.
  intros Hwf. unfold swapaxes.
  destruct (axis_info a r1) as [i|] eqn:E1; simpl; [|discriminate].
  destruct (axis_info a r2) as [j|] eqn:E2; simpl; [|discriminate].
  intros H. exists i, j. split; [reflexivity|]. split; [reflexivity|].
  destruct (transpose_pos_spec _ a r Hwf H) as [Hp [Hlen [Hwr [Hax [Hat [_ Hget]]]]]].
  split; [exact Hwr|]. split; [exact Hat|]. split; [|exact Hget].
  rewrite Hax. unfold swap_perm. rewrite map_map. reflexivity.
Qed.

Theorem rollaxis_spec rf start a r :
  wf_shape a -> rollaxis rf start a = Ok r ->
  exists ax s, axis_info a rf = Ok ax /\ s <= List.length (axes a) /\
    (Z.of_nat s = if (start <? 0)%Z then start + Z.of_nat (List.length (axes a)) else start)%Z /\
    wf_shape r /\ attrs r = attrs a /\
    axes r = map (fun j => nth j (axes a) dax) (roll_perm (List.length (axes a)) ax s) /\
    forall c', inb (sh (vals r)) c' = true ->
       get (vals r) c' = get (vals a) (src_coord (roll_perm (List.length (axes a)) ax s) c').
Proof.
  intros Hwf. unfold rollaxis.
  destruct (axis_info a rf) as [ax|] eqn:E1; simpl; [|discriminate].
  set (n := List.length (axes a)).
  set (s := if (start <? 0)%Z then (start + Z.of_nat n)%Z else start).
  destruct ((s <? 0)%Z || (Z.of_nat n <? s)%Z) eqn:Hs; [discriminate|].
  apply orb_false_iff in Hs. destruct Hs as [Hs1 Hs2].
  intros H. exists ax, (Z.to_nat s). split; [reflexivity|].
  split; [lia|]. split; [lia|].
  destruct (transpose_pos_spec _ a r Hwf H) as [Hp [Hlen [Hwr [Hax [Hat [_ Hget]]]]]].
  auto.
Qed.

(* what the roll permutation does to any list: the axis travels to just before [start] *)
Lemma roll_perm_moves {A} (l : list A) d ax s :
  ax < List.length l ->
  map (fun j => nth j l d) (roll_perm (List.length l) ax s)
  = insert_nth (if ax <? s then s - 1 else s) (nth ax l d) (remove_nth ax l).
Proof.
  intros Hax. unfold roll_perm. rewrite map_insert_nth, map_remove_nth, map_nth_seq. reflexivity.
Qed.

(* ------------------------------------------------------------------ newaxis, squeeze, repeat *)
Theorem newaxis_spec name pos a r :
  wf_shape a -> newaxis name None pos a = Ok r ->
  exists q, q <= List.length (axes a) /\
    (Z.of_nat q = if (pos =? -1)%Z then Z.of_nat (List.length (axes a)) else pos)%Z /\
    ~ In name (dims a) /\ wf_shape r /\ attrs r = attrs a /\
    axes r = insert_nth q (mkaxis name KO [LNone]) (axes a) /\
    forall c', inb (sh (vals r)) c' = true -> get (vals r) c' = get (vals a) (remove_nth q c').
Proof.
  intros [Hsa Hda]. unfold newaxis.
  destruct (mem_str name (dims a)) eqn:Hmem; [discriminate|].
  set (n := List.length (axes a)).
  set (p := if (pos =? -1)%Z then Z.of_nat n else pos).
  destruct (p <? 0)%Z eqn:H0; [discriminate|].
  destruct (Z.of_nat n <? p)%Z eqn:H1; [discriminate|].
  intros [= <-]. exists (Z.to_nat p). split; [lia|]. split; [lia|]. split.
  - intros Hin. unfold mem_str in Hmem. apply not_true_iff_false in Hmem. apply Hmem.
    apply existsb_exists. exists name. split; [exact Hin | apply String.eqb_refl].
  - split; [|split; [reflexivity|split; [reflexivity|]]].
    + apply wf_shape_mk. rewrite map_insert_nth, Hsa. reflexivity.
    + intros c' Hc'. simpl. unfold np_expand. rewrite get_mk by exact Hc'. reflexivity.
Qed.

Theorem squeeze_axis_spec rf a r :
  wf_shape a -> squeeze (Some rf) a = Ok r ->
  exists i, axis_info a rf = Ok i /\ alen (nth i (axes a) dax) = 1 /\
    wf_shape r /\ attrs r = attrs a /\
    axes r = remove_nth i (axes a) /\
    forall c', inb (sh (vals r)) c' = true -> get (vals r) c' = get (vals a) (insert_nth i 0 c').
Proof.
  intros [Hsa Hda]. unfold squeeze.
  destruct (axis_info a rf) as [i|] eqn:E; simpl; [|discriminate].
  destruct (alen (nth i (axes a) (mkaxis "" KO [])) =? 1) eqn:H1; simpl; [|discriminate].
  intros [= <-]. exists i. split; [reflexivity|]. split; [apply Nat.eqb_eq; exact H1|].
  split; [|split; [reflexivity|split; [reflexivity|]]].
  - apply wf_shape_mk. rewrite map_remove_nth, Hsa. reflexivity.
  - intros c' Hc'. simpl. unfold np_squeeze1. rewrite get_mk by exact Hc'. reflexivity.
Qed.

Theorem repeat_spec k labs rf a r :
  wf_shape a -> repeat k labs rf a = Ok r ->
  exists i, axis_info a rf = Ok i /\ alen (nth i (axes a) dax) = 1 /\
    wf_shape r /\ attrs r = attrs a /\
    axes r = set_nth i (mkaxis (aname (nth i (axes a) dax)) k labs) (axes a) /\
    forall c', inb (sh (vals r)) c' = true -> get (vals r) c' = get (vals a) (set_nth i 0 c').
Proof.
  intros [Hsa Hda]. unfold repeat.
  destruct (axis_info a rf) as [i|] eqn:E; simpl; [|discriminate].
  destruct (alen (nth i (axes a) (mkaxis "" KO [])) =? 1) eqn:H1; simpl; [|discriminate].
  intros [= <-]. exists i. split; [reflexivity|]. split; [apply Nat.eqb_eq; exact H1|].
  split; [|split; [reflexivity|split; [reflexivity|]]].
  - apply wf_shape_mk. rewrite map_set_nth, Hsa. reflexivity.
  - intros c' Hc'. simpl. unfold np_repeat1. rewrite get_mk by exact Hc'. reflexivity.
Qed.

Lemma index_of_insert name ds q :
  ~ In name ds -> q <= List.length ds ->
  index_of (String.eqb name) (insert_nth q name ds) = Some q.
Proof.
  revert q; induction ds as [|d ds IH]; intros [|q] Hnin Hq; simpl in *; try lia.
  - rewrite String.eqb_refl. reflexivity.
  - rewrite String.eqb_refl. reflexivity.
  - destruct (String.eqb_spec name d) as [->|_]; [exfalso; apply Hnin; left; reflexivity|].
    rewrite IH; [reflexivity | intros Hin; apply Hnin; right; exact Hin | lia].
Qed.

(* the law squeeze(newaxis(a)) == a *)
Theorem squeeze_newaxis name pos a r :
  wf_shape a -> newaxis name None pos a = Ok r -> squeeze (Some (ByName name)) r = Ok a.
Proof.
  intros Hwf H. destruct (newaxis_spec name pos a r Hwf H) as [q [Hq [_ [Hnin [Hwr [Hat [Hax Hget]]]]]]].
  destruct Hwf as [Hsa Hda].
  assert (Hidx : axis_info r (ByName name) = Ok q).
  { simpl. unfold find_dim, dims. rewrite Hax, map_insert_nth. simpl.
    fold (dims a). rewrite index_of_insert; [reflexivity | exact Hnin |].
    unfold dims. rewrite map_length. exact Hq. }
  unfold squeeze. rewrite Hidx. simpl.
  rewrite Hax. rewrite nth_insert_nth_eq by exact Hq. simpl.
  f_equal. apply darr_eq; simpl.
  - apply remove_insert_nth. exact Hq.
  - assert (Hshr : sh (vals r) = insert_nth q 1 (sh (vals a))).
    { destruct Hwr as [Hr _]. rewrite <- Hr, Hax, map_insert_nth, Hsa. reflexivity. }
    assert (Hq' : q <= List.length (sh (vals a))) by (rewrite <- Hsa, map_length; exact Hq).
    apply nd_eq; simpl.
    + rewrite Hshr. apply remove_insert_nth. exact Hq'.
    + rewrite Hshr, remove_insert_nth by exact Hq'.
      apply (getl_ext CNaN (sh (vals a))); [apply tab_length | exact Hda |].
      intros c Hc. rewrite get_tab by exact Hc.
      rewrite Hget.
      * rewrite remove_insert_nth; [reflexivity|]. rewrite (inb_length _ _ Hc). exact Hq'.
      * rewrite Hshr. apply inb_insert; [exact Hq' | exact Hc | lia].
    + unfold newaxis in H. destruct (mem_str name (dims a)); [discriminate|].
      destruct (_ <? 0)%Z; [discriminate|]. destruct (_ <? _)%Z; [discriminate|].
      injection H as <-. reflexivity.
  - exact Hat.
Qed.
