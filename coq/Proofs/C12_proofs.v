(* C12: stack and concatenate join arrays without misaligning them. *)
From Coq Require Import Qround.
From DA Require Import Prelude NDArray Array PyRT.
From DA.Model Require Import Value Reshape SliceSpec Indexing Align.
From DA.Proofs Require Import ListLemmas C10_proofs C01_proofs C03_proofs C07_proofs C06_proofs C04_proofs.
Open Scope nat_scope.

Definition dnd (k : kind) : nd := {| sh := []; dat := []; kd := k |}.

(* the pipeline in front of the NumPy call: optional alignment, then matching by dimension NAME *)
Definition stack_inputs (arrays : list darr) (do_align sort : bool) : res (list darr) :=
  let! arrs := if do_align then align arrays Outer None sort true else Ok arrays in
  same_dim_order arrs.

(* after same_dim_order every array has the dims of the first, in that order *)
Lemma transpose_dims_by_name ds a r :
  wf_shape a -> transpose (map ByName ds) a = Ok r -> ds <> [] -> dims r = ds.
Proof.
  intros Hwf H Hne. unfold transpose in H. destruct (map ByName ds) eqn:Em; [destruct ds; [contradiction|discriminate]|].
  rewrite <- Em in H. clear Em.
  destruct (mapM (axis_info a) (map ByName ds)) as [p|] eqn:Ep; simpl in H; [|discriminate].
  rewrite (transpose_pos_dims p a r Hwf H).
  (* p[k] is the position of ds[k] *)
  clear H Hne. revert p Ep. induction ds as [|d ds IH]; intros p Ep; simpl in Ep.
  - injection Ep as <-. reflexivity.
  - destruct (find_dim (dims a) d) as [i|] eqn:Ef; simpl in Ep; [|discriminate].
    destruct (mapM (axis_info a) (map ByName ds)) as [p'|] eqn:Ep'; simpl in Ep; [|discriminate].
    injection Ep as <-. simpl. f_equal; [apply (find_dim_name _ _ _ Ef) | apply IH; reflexivity].
Qed.

Theorem same_dim_order_dims arrays arrs a0 :
  Forall wf_shape arrays -> same_dim_order arrays = Ok arrs -> hd_error arrays = Some a0 -> dims a0 <> [] ->
  Forall (fun a => dims a = dims a0) arrs.
Proof.
  intros Hwf H Hhd Hne. unfold same_dim_order in H. destruct arrays as [|x t]; [discriminate|].
  injection Hhd as ->.
  assert (G : forall l r, Forall wf_shape l ->
            mapM (fun a => if list_eqb String.eqb (dims a) (dims a0) then Ok a else transpose (map ByName (dims a0)) a) l = Ok r ->
            Forall (fun a => dims a = dims a0) r).
  { induction l as [|y l IHl]; intros r Hw Hm; simpl in Hm.
    - injection Hm as <-. constructor.
    - inversion Hw as [|? ? Hy Hl]; subst.
      destruct (list_eqb String.eqb (dims y) (dims a0)) eqn:E.
      + simpl in Hm. destruct (mapM _ l) as [r'|] eqn:Er; simpl in Hm; [|discriminate]. injection Hm as <-.
        constructor; [apply list_eqb_str_eq; exact E | apply IHl; [exact Hl | reflexivity]].
      + destruct (transpose _ y) as [y'|] eqn:Et; simpl in Hm; [|discriminate].
        destruct (mapM _ l) as [r'|] eqn:Er; simpl in Hm; [|discriminate]. injection Hm as <-.
        constructor; [apply (transpose_dims_by_name _ _ _ Hy Et Hne) | apply IHl; [exact Hl | reflexivity]]. }
  apply (G _ _ Hwf H).
Qed.

(* ------------------------------------------------------------------ stack *)
Definition sec_axes_equal (a0 a : darr) : bool :=
  forallb (fun ax => match axis_of a0 (aname ax) with
                     | Some ax0 => labels_eqb (alab ax) (alab ax0)
                     | None => false end) (axes a).

Theorem stack_spec arrays nm kk keys al srt r :
  stack arrays nm kk keys al srt = Ok r ->
  exists arrs a0 rest name axs,
    stack_inputs arrays al srt = Ok arrs /\ arrs = a0 :: rest /\
    (* every input's axes carry the labels of the first input's axis of the same NAME *)
    forallb (sec_axes_equal a0) arrs = true /\
    attrs r = [] /\
    axes r = ax_new name kk keys [] :: axs /\ pick_axes arrs = Ok axs /\
    ~ In name (get_dims arrays []) /\
    sh (vals r) = List.length arrs :: sh (vals a0) /\
    (* the slice at key number b holds exactly the data of arrays[b] *)
    forall b c, inb (sh (vals r)) (b :: c) = true ->
      get (vals r) (b :: c) = get (nth b (map vals arrs) (dnd (kd (vals r)))) c.
Proof.
  unfold stack.
  set (name := match nm with Some n => n | None => _ end).
  destruct (mem_str name (get_dims arrays [])) eqn:Emem; [discriminate|].
  destruct (if al then align arrays Outer None srt true else Ok arrays) as [arrs0|] eqn:Eal; cbn [bind negb]; [|discriminate].
  destruct (same_dim_order arrs0) as [arrs|] eqn:Esd; cbn [bind negb]; [|discriminate].
  destruct arrs as [|a0 rest]; [discriminate|].
  destruct (forallb _ (a0 :: rest)) eqn:Esec; cbn [bind negb]; [|discriminate].
  destruct (forallb (fun a => list_eqb Nat.eqb (sh (vals a)) (sh (vals a0))) (a0 :: rest)) eqn:Esh; cbn [bind negb]; [|discriminate].
  destruct (pick_axes (a0 :: rest)) as [axs|] eqn:Epa; cbn [bind negb]; [|discriminate].
  unfold construct. destruct (list_eqb Nat.eqb _ _); [|discriminate]. intros [= <-].
  exists (a0 :: rest), a0, rest, name, axs.
  split; [unfold stack_inputs; rewrite Eal; simpl; exact Esd|]. split; [reflexivity|].
  split; [exact Esec|]. split; [reflexivity|]. split; [reflexivity|]. split; [exact Epa|].
  split; [intros Hin; apply mem_str_In in Hin; congruence|].
  split; [simpl; rewrite map_length; reflexivity|].
  intros b c Hc. simpl. unfold np_stack. simpl in Hc. rewrite get_mk by exact Hc. reflexivity.
Qed.

(* without align, differing secondary axes (labels or order) are refused *)
Theorem stack_refuses arrays nm kk keys arrs a0 rest :
  mem_str (match nm with Some n => n | None => if mem_str "unnamed" (get_dims arrays []) then "unnamed_1" else "unnamed" end)%string
          (get_dims arrays []) = false ->
  same_dim_order arrays = Ok arrs -> arrs = a0 :: rest ->
  forallb (sec_axes_equal a0) arrs = false ->
  stack arrays nm kk keys false false = Err ValueError.
Proof.
  intros Hn Hsd -> Hsec. unfold stack. rewrite Hn.
  cbn [bind]. rewrite Hsd. cbn [bind]. unfold sec_axes_equal in Hsec. rewrite Hsec. reflexivity.
Qed.

(* ------------------------------------------------------------------ concatenate *)
(* locate_block finds the input that owns position p along the concatenation axis *)
Lemma locate_block_spec lens p b j :
  locate_block lens p = (b, j) -> p < fold_right Nat.add 0 lens ->
  b < List.length lens /\ j < nth b lens 0 /\ p = fold_right Nat.add 0 (firstn b lens) + j.
Proof.
  revert p b j; induction lens as [|n t IH]; intros p b j H Hp; simpl in *; [lia|].
  destruct (p <? n) eqn:E.
  - injection H as <- <-. apply Nat.ltb_lt in E. simpl. repeat split; lia.
  - apply Nat.ltb_ge in E. destruct (locate_block t (p - n)) as [k j'] eqn:El. injection H as <- <-.
    destruct (IH _ _ _ El ltac:(lia)) as [H1 [H2 H3]]. simpl. repeat split; lia.
Qed.

Theorem np_concat_spec k i l c :
  inb (sh (np_concat k i l)) c = true ->
  let lens := map (fun a => nth i (sh a) 0) l in
  let '(b, j) := locate_block lens (nth i c 0) in
  get (np_concat k i l) c = get (nth b l (dnd k)) (set_nth i j c).
Proof.
  intros Hc. cbv zeta. unfold np_concat in *. simpl in Hc. rewrite get_mk by exact Hc.
  destruct (locate_block _ _). reflexivity.
Qed.

Theorem concatenate_spec arrays r al srt res :
  concatenate arrays r al srt = Ok res ->
  exists i arrs b0 rest newk,
    arrs = b0 :: rest /\
    attrs res = [] /\
    (* labels along the axis are concatenated in input order; the other axes are the first input's *)
    axes res = insert_nth i (ax_new (aname (nth i (axes (hd b0 arrays)) dax0)) newk
                                    (flat_map (fun a => alab (nth i (axes a) dax0)) arrs) [])
                          (remove_nth i (axes b0)) /\
    (* every input's axis along the concatenation dimension has that name *)
    forallb (fun a => String.eqb (aname (nth i (axes a) dax0)) (aname (nth i (axes (hd b0 arrays)) dax0))) arrs = true /\
    (* without align the secondary axes of every input carry the first input's labels, by NAME *)
    (al = false ->
       forallb (fun sx => forallb (fun a => match axis_of a (aname sx) with
                                            | Some ax => labels_eqb (alab ax) (alab sx)
                                            | None => false end) arrs) (remove_nth i (axes b0)) = true) /\
    forall c, inb (sh (vals res)) c = true ->
      let '(b, j) := locate_block (map (fun a => nth i (sh a) 0) (map vals arrs)) (nth i c 0) in
      get (vals res) c = get (nth b (map vals arrs) (dnd (kd (vals res)))) (set_nth i j c).
Proof.
  unfold concatenate. destruct arrays as [|a0 t]; [discriminate|].
  destruct (match r with ByPos z => _ | ByName s => _ end) as [i|] eqn:Ei; cbn [bind negb]; [|discriminate].
  destruct (List.length (axes a0) <=? i) eqn:Eli; [discriminate|].
  destruct (if al then _ else Ok (a0 :: t)) as [arrs0|] eqn:Eal; cbn [bind negb]; [|discriminate].
  destruct (same_dim_order arrs0) as [arrs|] eqn:Esd; cbn [bind negb]; [|discriminate].
  destruct arrs as [|b0 rest]; [discriminate|].
  destruct (forallb _ (b0 :: rest)) eqn:Eshape; cbn [bind negb]; [|discriminate].
  destruct (forallb (fun a => String.eqb (aname (nth i (axes a) dax0)) _) (b0 :: rest)) eqn:Ename; cbn [bind negb]; [|discriminate].
  destruct (negb al && negb _) eqn:Echeck; [discriminate|].
  unfold construct. destruct (list_eqb Nat.eqb _ _); [|discriminate]. intros [= <-].
  eexists i, (b0 :: rest), b0, rest, _.
  split; [reflexivity|]. split; [reflexivity|]. split; [reflexivity|]. split; [exact Ename|].
  split.
  - intros ->. simpl in Echeck. apply negb_false_iff in Echeck. exact Echeck.
  - intros c Hc. unfold mkarr in *. cbn [vals] in *. unfold np_concat in *. cbn [sh mk kd] in *.
    rewrite get_mk by exact Hc. destruct (locate_block _ _). reflexivity.
Qed.

(* without align, a secondary axis with other labels (or another order) is refused: the check in the
   previous theorem is a precondition of success *)
