(* C13: a Dataset's variables always share the Dataset's axes. *)
From Coq Require Import Qround Qabs.
From DA Require Import Prelude NDArray Array PyRT.
From DA.Model Require Import Value Reshape SliceSpec Indexing Align Transform Dataset.
From DA.Proofs Require Import ListLemmas C10_proofs.
Open Scope nat_scope.
Open Scope list_scope.

(* every axis a variable holds is one of the dataset's axis objects (same identifier = same object) *)
Definition Shared (s : dset) : Prop := forall v, In v (dvars s) -> forall id, In id (vax v) -> In id (dsax s).

Lemma shared_empty : Shared ds_empty.
Proof. intros v []. Qed.

Lemma shared_with_heap s h : Shared s -> Shared (with_heap s h).
Proof. intros H v Hv id Hid. apply (H v Hv id Hid). Qed.

Lemma register_axes_spec h dsx nxt axs h' dsx' nxt' ids :
  register_axes h dsx nxt axs = (h', dsx', nxt', ids) ->
  incl dsx dsx' /\ incl ids dsx'.
Proof.
  revert h dsx nxt h' dsx' nxt' ids; induction axs as [|ax t IH]; intros h dsx nxt h' dsx' nxt' ids H; simpl in H.
  - injection H as <- <- <- <-. split; [apply incl_refl | intros x []].
  - destruct (find _ dsx) as [id|] eqn:Ef.
    + destruct (register_axes h dsx nxt t) as [[[h1 d1] n1] i1] eqn:Er. injection H as <- <- <- <-.
      destruct (IH _ _ _ _ _ _ _ Er) as [H1 H2]. split; [exact H1|].
      intros x [<-|Hx]; [apply H1; apply (find_some _ _ Ef) | apply H2; exact Hx].
    + destruct (register_axes (hset h nxt ax) (dsx ++ [nxt]) (S nxt) t) as [[[h1 d1] n1] i1] eqn:Er. injection H as <- <- <- <-.
      destruct (IH _ _ _ _ _ _ _ Er) as [H1 H2]. split.
      * intros x Hx. apply H1. apply in_or_app. left. exact Hx.
      * intros x [<-|Hx]; [apply H1; apply in_or_app; right; left; reflexivity | apply H2; exact Hx].
Qed.

Lemma put_var_in vars v w : In w (put_var vars v) -> w = v \/ In w vars.
Proof.
  induction vars as [|x t IH]; simpl; [intros [<-|[]]; auto|].
  destruct (String.eqb (vkey x) (vkey v)); simpl; intros [<-|H]; auto. destruct (IH H); auto.
Qed.

Lemma name_used_of_member s vars v id :
  In v vars -> In id (vax v) -> name_used s vars (aname (hget (heap s) id)) = true.
Proof.
  intros Hv Hid. unfold name_used. apply existsb_exists. exists v. split; [exact Hv|].
  unfold mem_str. apply existsb_exists. exists (aname (hget (heap s) id)). split; [|apply String.eqb_refl].
  apply in_map_iff. exists id. auto.
Qed.

Lemma delete_unused_keeps s ids vars id :
  In id (dsax s) -> (exists v, In v vars /\ In id (vax v)) -> In id (delete_unused s ids vars).
Proof.
  intros Hin [v [Hv Hid]]. unfold delete_unused. apply filter_In. split; [exact Hin|].
  rewrite (name_used_of_member s vars v id Hv Hid). apply orb_true_r.
Qed.

(* ds[k] = array *)
Theorem setitem_shared k a s : Shared s -> Shared (fst (ds_setitem k a s)).
Proof.
  intros Hs. unfold ds_setitem. destruct (existsb _ (axes a)); [exact Hs|].
  destruct (negb (nodupb String.eqb (dims a))); [exact Hs|].
  destruct (register_axes (heap s) (dsax s) (nextid s) (axes a)) as [[[h' dsx'] nxt'] ids] eqn:Er.
  destruct (register_axes_spec _ _ _ _ _ _ _ _ Er) as [Hincl Hids].
  simpl. intros v Hv id Hid. simpl in Hv.
  apply delete_unused_keeps; simpl.
  - destruct (put_var_in _ _ _ Hv) as [->|Hold]; [apply Hids; exact Hid | apply Hincl; apply (Hs v Hold id Hid)].
  - exists v. auto.
Qed.

Theorem delitem_shared k s : Shared s -> Shared (fst (ds_delitem k s)).
Proof.
  intros Hs. unfold ds_delitem. destruct (find_var s k) as [old|]; [|exact Hs]. simpl.
  intros v Hv id Hid. simpl in Hv. apply delete_unused_keeps; simpl.
  - apply filter_In in Hv. apply (Hs v (proj1 Hv) id Hid).
  - exists v. auto.
Qed.

Lemma rename_id_shared s id n : Shared s -> Shared (fst (rename_id s id n)).
Proof. intros H. unfold rename_id. destruct (String.eqb n ""); [exact H | apply shared_with_heap; exact H]. Qed.

Lemma fold_rename_shared {A} (f : dset -> A -> dset * res unit) l acc :
  (forall s x, Shared s -> Shared (fst (f s x))) -> Shared (fst acc) ->
  Shared (fst (fold_left (fun (a : dset * res unit) p => match snd a with Ok _ => f (fst a) p | Err e => a end) l acc)).
Proof.
  intros Hf. revert acc; induction l as [|x t IH]; intros acc Ha; simpl; [exact Ha|].
  apply IH. destruct (snd acc); [apply Hf; exact Ha | exact Ha].
Qed.

Theorem replace_axis_shared r nx s : Shared s -> Shared (fst (ds_replace_axis r nx s)).
Proof.
  intros Hs. unfold ds_replace_axis. destruct (ds_axis_ref s r) as [id|]; [|exact Hs].
  destruct (negb (alen nx =? alen (hget (heap s) id))); [exact Hs|]. simpl.
  intros v Hv j Hj. simpl in Hv. apply in_map_iff in Hv. destruct Hv as [w [<- Hw]]. simpl in Hj.
  apply in_map_iff in Hj. destruct Hj as [j0 [<- Hj0]]. apply in_map_iff. exists j0. split; [reflexivity|].
  apply (Hs w Hw j0 Hj0).
Qed.

Lemma find_var_in s k v : find_var s k = Some v -> In v (dvars s) /\ vkey v = k.
Proof. unfold find_var. intros H. apply find_some in H. destruct H as [H1 H2]. apply String.eqb_eq in H2. auto. Qed.
Lemma delitem_keeps_other k s v : In v (dvars s) -> vkey v <> k -> In v (dvars (fst (ds_delitem k s))).
Proof.
  intros Hv Hk. unfold ds_delitem. destruct (find_var s k); [|exact Hv]. simpl. apply filter_In. split; [exact Hv|].
  destruct (String.eqb_spec (vkey v) k); [contradiction | reflexivity].
Qed.
Theorem rename_key_shared o n s : Shared s -> Shared (fst (ds_rename_key o n s)).
Proof.
  intros Hs. unfold ds_rename_key. destruct (find_var s o) as [v|] eqn:Ef; [|exact Hs].
  destruct (String.eqb_spec o n) as [E|NE]; [exact Hs|]. simpl.
  set (s1 := match find_var s n with Some _ => fst (ds_delitem n s) | None => s end).
  assert (Hs1 : Shared s1) by (unfold s1; destruct (find_var s n); [apply delitem_shared; exact Hs | exact Hs]).
  destruct (find_var_in _ _ _ Ef) as [Hvin Hvk].
  assert (Hv1 : In v (dvars s1)).
  { unfold s1. destruct (find_var s n); [apply delitem_keeps_other; [exact Hvin | rewrite Hvk; exact NE] | exact Hvin]. }
  intros w Hw id Hid. simpl in Hw.
  apply filter_In in Hw. destruct Hw as [Hw _]. destruct (put_var_in _ _ _ Hw) as [->|Hold].
  - simpl in Hid. apply (Hs1 v Hv1 id Hid).
  - apply (Hs1 w Hold id Hid).
Qed.

(* sharing: the variables of the result are variables of s under another key *)
Lemma fold_put_in mv : forall vars w, In w (fold_left put_var mv vars) -> In w mv \/ In w vars.
Proof.
  induction mv as [|x t IH]; intros vars w H; simpl in H; [right; exact H|].
  destruct (IH _ _ H) as [Hm|Hv]; [left; right; exact Hm|]. destruct (put_var_in _ _ _ Hv) as [->|Hold]; [left; left; reflexivity | right; exact Hold].
Qed.
Lemma moved_vars_src m s mv : moved_vars m s = Ok mv -> forall w, In w mv -> exists v, In v (dvars s) /\ vax w = vax v.
Proof.
  unfold moved_vars. generalize (filter (fun p => negb (String.eqb (fst p) (snd p))) m). intros l. revert mv.
  induction l as [|p t IH]; intros mv H w Hw; simpl in H; [injection H as <-; destruct Hw|].
  destruct (find_var s (fst p)) as [v|] eqn:Ef; simpl in H; [|discriminate].
  destruct (mapM _ t) as [r|] eqn:Er; simpl in H; [|discriminate]. injection H as <-.
  destruct Hw as [<-|Hw]; [|eapply IH; [reflexivity | exact Hw]].
  exists v. split; [|reflexivity]. unfold find_var in Ef. apply find_some in Ef. exact (proj1 Ef).
Qed.
Theorem rename_keys_shared m s : Shared s -> Shared (fst (ds_rename_keys m s)).
Proof.
  intros Hs. unfold ds_rename_keys. destruct (negb (nodupb _ _)); [exact Hs|]. destruct (negb _); [exact Hs|]. destruct (moved_vars m s) as [mv|] eqn:Em; [|exact Hs].
  simpl. intros w Hw id Hid. simpl in Hw. destruct (fold_put_in _ _ _ Hw) as [Hm|Hr].
  - destruct (moved_vars_src _ _ _ Em w Hm) as [v [Hv E]]. rewrite E in Hid. exact (Hs v Hv id Hid).
  - apply filter_In in Hr. exact (Hs w (proj1 Hr) id Hid).
Qed.


(* one step of ANY operation of the alphabet - successful or failing - preserves sharing *)
Theorem step_shared s o : Shared s -> Shared (fst (ds_step s o)).
Proof.
  intros Hs. destruct o; simpl.
  - apply setitem_shared; exact Hs.
  - apply delitem_shared; exact Hs.
  - unfold ds_rename_axis. destruct (ds_axis_ref s r); [apply rename_id_shared; exact Hs | exact Hs].
  - unfold ds_var_rename_axis. destruct (find_var s k); [|exact Hs].
    destruct (axis_info _ r); [apply rename_id_shared; exact Hs | exact Hs].
  - unfold ds_set_dims. destruct (negb _); [exact Hs|]. destruct (negb _); [exact Hs|]. destruct (existsb _ ns); [exact Hs|].
    apply (fold_rename_shared (fun st p => rename_id st (fst p) (snd p))); [intros; apply rename_id_shared; assumption | exact Hs].
  - unfold ds_rename_axes. destruct (forallb _ m); [|exact Hs].
    unfold ds_set_dims. destruct (negb _); [exact Hs|]. destruct (negb _); [exact Hs|]. destruct (existsb _ _); [exact Hs|].
    apply (fold_rename_shared (fun st p => rename_id st (fst p) (snd p))); [intros; apply rename_id_shared; assumption | exact Hs].
  - unfold ds_set_label. destruct (ds_axis_ref s r); [|exact Hs]. destruct (py_index _ i); [apply shared_with_heap; exact Hs | exact Hs].
  - unfold ds_set_axis. destruct (ds_axis_ref s r) as [id|]; [|exact Hs]. destruct (negb _); [exact Hs|].
    destruct name; [destruct (mem_str _ _); [exact Hs | apply rename_id_shared; apply shared_with_heap; exact Hs] | apply shared_with_heap; exact Hs].
  - apply replace_axis_shared; exact Hs.
  - apply rename_key_shared; exact Hs.
  - apply rename_keys_shared; exact Hs.
  - unfold ds_init. destruct (align _ _ _ _ _); [|apply shared_empty].
    apply (fold_rename_shared (fun st p => ds_setitem (fst p) (snd p) st)); [intros; apply setitem_shared; assumption | apply shared_empty].
  - unfold ds_append_axis. destruct (mem_str _ _); [exact Hs|]. intros v Hv id Hid. simpl in *.
    apply in_or_app. left. apply (Hs v Hv id Hid).
Qed.

(* every reachable state: any finite history from the empty dataset *)
Theorem reachable_shared ops : Shared (ds_run ops ds_empty).
Proof.
  unfold ds_run. assert (G : forall s, Shared s -> Shared (fold_left (fun st o => fst (ds_step st o)) ops s)).
  { induction ops as [|o t IH]; intros s Hs; simpl; [exact Hs|]. apply IH. apply step_shared. exact Hs. }
  apply G. apply shared_empty.
Qed.

(* a rejected assignment leaves the dataset exactly as it was *)
Theorem setitem_reject_atomic k a s s' e : ds_setitem k a s = (s', Err e) -> s' = s /\ e = ValueError.
Proof.
  unfold ds_setitem. destruct (existsb _ (axes a)); [intros [= <- <-]; auto|].
  destruct (negb (nodupb String.eqb (dims a))); [intros [= <- <-]; auto|].
  destruct (register_axes _ _ _ _) as [[[h' dsx'] nxt'] ids]. discriminate.
Qed.
(* disagreeing labels on ANY dimension of the new variable are rejected *)
Theorem setitem_rejects k a s ax id :
  In ax (axes a) -> ds_axis_id s (aname ax) = Some id -> axis_same ax (hget (heap s) id) = false ->
  ds_setitem k a s = (s, Err ValueError).
Proof.
  intros Hin Hid Hne. unfold ds_setitem.
  replace (existsb _ (axes a)) with true; [reflexivity|].
  symmetry. apply existsb_exists. exists ax. split; [exact Hin|]. rewrite Hid, Hne. reflexivity.
Qed.

(* a rename / relabel made through the shared object is what every holder reads *)
Lemma hget_hset_eq h id ax : hget (hset h id ax) id = ax.
Proof. induction h as [|[j a] t IH]; simpl; [rewrite Nat.eqb_refl; reflexivity|]. destruct (j =? id) eqn:E; simpl; rewrite E; [reflexivity | exact IH]. Qed.
Theorem rename_visible s id n s' :
  rename_id s id n = (s', Ok tt) ->
  aname (hget (heap s') id) = n /\ dsax s' = dsax s /\ dvars s' = dvars s.
Proof.
  unfold rename_id. destruct (String.eqb n ""); [discriminate|]. intros [= <-]. simpl.
  rewrite hget_hset_eq. auto.
Qed.

(* ------------------------------------------------------------------ the dataset's dimensions are exactly those in use *)
Definition names (h : list (nat * axis)) (l : list nat) : list string := map (fun id => aname (hget h id)) l.
Definition WF3 (h : list (nat * axis)) (dsx : list nat) (nxt : nat) : Prop :=
  NoDup (names h dsx) /\ forall id, In id dsx -> id < nxt.
Definition Used (s : dset) : Prop := forall id, In id (dsax s) -> exists v, In v (dvars s) /\ In id (vax v).
Definition Inv (s : dset) : Prop := Shared s /\ Used s /\ WF3 (heap s) (dsax s) (nextid s).

Lemma hget_hset_neq h id ax j : j <> id -> hget (hset h id ax) j = hget h j.
Proof.
  intros Hne. induction h as [|[k a] t IH]; simpl.
  - destruct (id =? j) eqn:E; [apply Nat.eqb_eq in E; congruence | reflexivity].
  - destruct (k =? id) eqn:E; simpl.
    + apply Nat.eqb_eq in E. subst k. destruct (id =? j) eqn:E2; [apply Nat.eqb_eq in E2; congruence | reflexivity].
    + destruct (k =? j); [reflexivity | exact IH].
Qed.

Lemma names_stable h h' l : (forall id, In id l -> hget h' id = hget h id) -> names h' l = names h l.
Proof. intros H. unfold names. apply map_ext_in. intros id Hid. rewrite (H id Hid). reflexivity. Qed.

Lemma nodupb_str_NoDup l : nodupb String.eqb l = true -> NoDup l.
Proof.
  induction l as [|x l IH]; simpl; [constructor|]. rewrite andb_true_iff, negb_true_iff. intros [Hx Hl].
  constructor; [|apply IH; exact Hl]. intros Hin. assert (existsb (String.eqb x) l = true); [|congruence].
  apply existsb_exists. exists x. split; [exact Hin | apply String.eqb_refl].
Qed.

Lemma find_name_none h dsx n :
  find (fun id => String.eqb (aname (hget h id)) n) dsx = None -> ~ In n (names h dsx).
Proof.
  intros Hf Hin. unfold names in Hin. apply in_map_iff in Hin. destruct Hin as [id [E Hid]].
  pose proof (find_none _ _ Hf id Hid) as H. simpl in H. rewrite E, String.eqb_refl in H. discriminate.
Qed.

Lemma NoDup_app_single_ {A} (l : list A) x : NoDup l -> ~ In x l -> NoDup (l ++ [x]).
Proof.
  intros Hn Hx. induction l as [|y l IH]; simpl; [constructor; [intros []|constructor]|].
  inversion Hn as [|? ? Hy Hl]; subst. constructor.
  - intros Hin. apply in_app_or in Hin. destruct Hin as [Hin|[<-|[]]]; [contradiction | apply Hx; left; reflexivity].
  - apply IH; [exact Hl | intros H; apply Hx; right; exact H].
Qed.

Lemma reg_inv axs : forall h dsx nxt h' dsx' nxt' ids,
  WF3 h dsx nxt -> NoDup (map aname axs) ->
  register_axes h dsx nxt axs = (h', dsx', nxt', ids) ->
  WF3 h' dsx' nxt' /\ nxt <= nxt' /\ (forall id, id < nxt -> hget h' id = hget h id) /\
  incl dsx dsx' /\ names h' ids = map aname axs /\ incl ids dsx' /\
  (forall id, In id dsx' -> In id dsx \/ In id ids).
Proof.
  induction axs as [|ax t IH]; intros h dsx nxt h' dsx' nxt' ids Hwf Hnd H; simpl in H.
  - injection H as <- <- <- <-. repeat split; auto; try apply Hwf; try apply incl_refl. intros x [].
  - inversion Hnd as [|? ? Hx Ht]; subst. destruct Hwf as [Hn Hlt].
    destruct (find _ dsx) as [id|] eqn:Ef.
    + destruct (register_axes h dsx nxt t) as [[[h1 d1] n1] i1] eqn:Er. injection H as <- <- <- <-.
      destruct (IH _ _ _ _ _ _ _ (conj Hn Hlt) Ht Er) as [Hwf' [Hle [Hst [Hincl [Hnames [Hids Hback]]]]]].
      pose proof (find_some _ _ Ef) as [Hid Hnm]. apply String.eqb_eq in Hnm.
      repeat split; try apply Hwf'; auto.
      * simpl. rewrite Hnames. f_equal. rewrite Hst by (apply Hlt; exact Hid). exact Hnm.
      * intros x [<-|Hxx]; [apply Hincl; exact Hid | apply Hids; exact Hxx].
      * intros x Hxx. destruct (Hback x Hxx); [left; assumption | right; right; assumption].
    + destruct (register_axes (hset h nxt ax) (dsx ++ [nxt]) (S nxt) t) as [[[h1 d1] n1] i1] eqn:Er. injection H as <- <- <- <-.
      assert (Hst0 : forall id, In id dsx -> hget (hset h nxt ax) id = hget h id).
      { intros id Hid. apply hget_hset_neq. specialize (Hlt id Hid). lia. }
      assert (Hwf1 : WF3 (hset h nxt ax) (dsx ++ [nxt]) (S nxt)).
      { split.
        - unfold names. rewrite map_app. simpl. rewrite hget_hset_eq.
          fold (names (hset h nxt ax) dsx). rewrite (names_stable h _ dsx Hst0).
          apply NoDup_app_single_; [exact Hn | apply (find_name_none _ _ _ Ef)].
        - intros id Hid. apply in_app_or in Hid. destruct Hid as [Hid|[<-|[]]]; [specialize (Hlt id Hid); lia | lia]. }
      destruct (IH _ _ _ _ _ _ _ Hwf1 Ht Er) as [Hwf' [Hle [Hst [Hincl [Hnames [Hids Hback]]]]]].
      repeat split; try apply Hwf'; auto; try lia.
      * intros id Hid. rewrite Hst by lia. apply hget_hset_neq. lia.
      * intros x Hxx. apply Hincl. apply in_or_app. left. exact Hxx.
      * simpl. rewrite Hnames. f_equal. rewrite Hst by lia. rewrite hget_hset_eq. reflexivity.
      * intros x [<-|Hxx]; [apply Hincl; apply in_or_app; right; left; reflexivity | apply Hids; exact Hxx].
      * intros x Hxx. destruct (Hback x Hxx) as [Hd|Hi]; [|right; right; exact Hi].
        apply in_app_or in Hd. destruct Hd as [Hd|[<-|[]]]; [left; exact Hd | right; left; reflexivity].
Qed.

Definition Inv4 (s : dset) : Prop := Inv s /\ NoDup (ds_keys s).

Lemma inv4_empty : Inv4 ds_empty.
Proof.
  split; [split; [apply shared_empty|split]|constructor].
  - intros id [].
  - split; [constructor | intros id []].
Qed.

Lemma put_var_has vars v : In v (put_var vars v).
Proof. induction vars as [|x t IH]; simpl; [left; reflexivity|]. destruct (String.eqb (vkey x) (vkey v)); [left; reflexivity | right; exact IH]. Qed.
Lemma put_var_keeps vars v w : In w vars -> vkey w <> vkey v -> In w (put_var vars v).
Proof.
  induction vars as [|x t IH]; simpl; [tauto|]. intros [E|Hw] Hne.
  - subst x. destruct (String.eqb_spec (vkey w) (vkey v)); [contradiction | left; reflexivity].
  - destruct (String.eqb (vkey x) (vkey v)); right; [exact Hw | apply IH; assumption].
Qed.
Lemma put_var_keys vars v : NoDup (map vkey vars) -> NoDup (map vkey (put_var vars v)).
Proof.
  induction vars as [|x t IH]; simpl; intros Hn; [constructor; [intros []|constructor]|].
  inversion Hn as [|? ? Hx Ht]; subst.
  destruct (String.eqb_spec (vkey x) (vkey v)) as [E|NE]; simpl.
  - rewrite <- E. constructor; assumption.
  - constructor; [|apply IH; exact Ht].
    intros Hin. apply in_map_iff in Hin. destruct Hin as [w [Ew Hw]].
    destruct (put_var_in _ _ _ Hw) as [->|Hold]; [congruence|].
    apply Hx. apply in_map_iff. exists w. auto.
Qed.
Lemma find_var_unique s k w old :
  NoDup (ds_keys s) -> In w (dvars s) -> vkey w = k -> find_var s k = Some old -> w = old.
Proof.
  unfold ds_keys, find_var. induction (dvars s) as [|x t IH]; simpl; [tauto|]. intros Hn Hw Hk Hf.
  inversion Hn as [|? ? Hx Ht]; subst.
  destruct (String.eqb_spec (vkey x) (vkey w)) as [E|NE].
  - injection Hf as <-. destruct Hw as [<-|Hw]; [reflexivity|].
    exfalso. apply Hx. rewrite E. apply in_map_iff. exists w. auto.
  - destruct Hw as [<-|Hw]; [congruence|]. apply IH; auto.
Qed.
Lemma NoDup_map_filter {A B} (f : A -> B) p l : NoDup (map f l) -> NoDup (map f (filter p l)).
Proof.
  induction l as [|x l IH]; simpl; intros H; [constructor|]. inversion H as [|? ? Hx Hl]; subst.
  destruct (p x); simpl; [|apply IH; exact Hl]. constructor; [|apply IH; exact Hl].
  intros Hin. apply Hx. apply in_map_iff in Hin. destruct Hin as [y [E Hy]]. apply filter_In in Hy.
  apply in_map_iff. exists y. tauto.
Qed.
Lemma names_inj h l i j : NoDup (names h l) -> In i l -> In j l -> aname (hget h i) = aname (hget h j) -> i = j.
Proof.
  unfold names. induction l as [|x l IH]; simpl; [tauto|]. intros Hn Hi Hj E.
  inversion Hn as [|? ? Hx Hl]; subst.
  destruct Hi as [<-|Hi], Hj as [<-|Hj]; auto.
  - exfalso. apply Hx. rewrite E. apply in_map_iff. exists j. auto.
  - exfalso. apply Hx. rewrite <- E. apply in_map_iff. exists i. auto.
Qed.

Lemma mem_str_In_local d l : mem_str d l = true -> In d l.
Proof.
  unfold mem_str. rewrite existsb_exists. intros [x [Hx E]]. apply String.eqb_eq in E. subst. exact Hx.
Qed.

Theorem setitem_inv k a s : Inv4 s -> Inv4 (fst (ds_setitem k a s)).
Proof.
  intros [[Hsh [Hus [Hnd Hlt]]] Hkeys]. pose proof (setitem_shared k a s Hsh) as Hsh'.
  unfold ds_setitem in *. destruct (existsb _ (axes a)); [repeat split; assumption|].
  destruct (negb (nodupb String.eqb (dims a))) eqn:Edup; [repeat split; assumption|].
  apply negb_false_iff in Edup. apply nodupb_str_NoDup in Edup.
  destruct (register_axes (heap s) (dsax s) (nextid s) (axes a)) as [[[h' dsx'] nxt'] ids] eqn:Er.
  destruct (reg_inv _ _ _ _ _ _ _ _ (conj Hnd Hlt) Edup Er) as [[Hnd' Hlt'] [Hle [Hst [Hincl [Hnames [Hids Hback]]]]]].
  simpl in *.
  set (v := {| vkey := k; vax := ids; vvals := vals a; vattrs := attrs a |}) in *.
  set (vars' := put_var (dvars s) v) in *.
  set (obsolete := match find_var s k with Some old => filter (fun id => negb (mem_str (aname (hget (heap s) id)) (dims a))) (vax old) | None => [] end) in *.
  set (s1 := {| heap := h'; dsax := dsx'; dvars := vars'; dsattrs := dsattrs s; nextid := nxt' |}) in *.
  (* every variable of vars' only holds ids of dsx' *)
  assert (Hsub : forall w, In w vars' -> incl (vax w) dsx').
  { intros w Hw id Hid. destruct (put_var_in _ _ _ Hw) as [->|Hold]; [apply Hids; exact Hid | apply Hincl; apply (Hsh w Hold id Hid)]. }
  split; [split; [exact Hsh'|split]|].
  - (* Used *)
    intros id Hid. unfold delete_unused in Hid. apply filter_In in Hid. destruct Hid as [Hin Hkeep]. simpl in Hin.
    destruct (in_dec Nat.eq_dec id ids) as [Hnew|Hnotnew].
    { exists v. split; [apply put_var_has | exact Hnew]. }
    destruct (Hback id Hin) as [Hold|Hn]; [|contradiction].
    destruct (Hus id Hold) as [w [Hw Hidw]].
    destruct (String.eqb_spec (vkey w) k) as [Ek|Nk].
    + (* the only known user is the variable being replaced *)
      destruct (find_var s k) as [old|] eqn:Ef.
      * assert (w = old) by (eapply find_var_unique; eassumption). subst w.
        destruct (mem_str (aname (hget (heap s) id)) (dims a)) eqn:Em.
        -- (* its name is a dimension of the new array: the new variable holds the very same id *)
           exfalso. apply Hnotnew. apply mem_str_In_local in Em. unfold dims in Em. rewrite <- Hnames in Em.
           unfold names in Em. apply in_map_iff in Em. destruct Em as [j [Ej Hj]].
           assert (j = id); [|subst; exact Hj].
           apply (names_inj h' dsx'); [exact Hnd' | apply Hids; exact Hj | exact Hin |].
           rewrite Ej. rewrite Hst by (apply Hlt; exact Hold). reflexivity.
        -- (* obsolete: kept only because another variable still uses that name, hence (distinct names) that id *)
           assert (Hobs : existsb (Nat.eqb id) obsolete = true).
           { apply existsb_exists. exists id. split; [|apply Nat.eqb_refl]. unfold obsolete. apply filter_In. split; [exact Hidw | rewrite Em; reflexivity]. }
           rewrite Hobs in Hkeep. simpl in Hkeep. unfold name_used in Hkeep. apply existsb_exists in Hkeep.
           destruct Hkeep as [w' [Hw' Hmem]]. simpl in Hmem. apply mem_str_In_local in Hmem.
           apply in_map_iff in Hmem. destruct Hmem as [j [Ej Hj]].
           exists w'. split; [exact Hw'|]. assert (j = id); [|subst; exact Hj].
           apply (names_inj h' dsx'); [exact Hnd' | apply (Hsub w' Hw'); exact Hj | exact Hin | exact Ej].
      * exfalso. unfold find_var in Ef. pose proof (find_none _ _ Ef w Hw) as Hf. simpl in Hf. rewrite Ek, String.eqb_refl in Hf. discriminate.
    + exists w. split; [apply put_var_keeps; [exact Hw | simpl; exact Nk] | exact Hidw].
  - (* names distinct, ids fresh *)
    split.
    + unfold names, delete_unused. simpl. apply NoDup_map_filter. exact Hnd'.
    + intros id Hid. unfold delete_unused in Hid. apply filter_In in Hid. apply Hlt'. apply Hid.
  - unfold ds_keys. simpl. apply put_var_keys. exact Hkeys.
Qed.

Theorem delitem_inv k s : Inv4 s -> Inv4 (fst (ds_delitem k s)).
Proof.
  intros [[Hsh [Hus [Hnd Hlt]]] Hkeys]. pose proof (delitem_shared k s Hsh) as Hsh'.
  unfold ds_delitem in *. destruct (find_var s k) as [old|] eqn:Ef; [|repeat split; assumption]. simpl in *.
  set (vars' := filter (fun v => negb (String.eqb (vkey v) k)) (dvars s)) in *.
  split; [split; [exact Hsh'|split]|].
  - intros id Hid. unfold delete_unused in Hid. apply filter_In in Hid. destruct Hid as [Hin Hkeep]. simpl in Hin.
    destruct (Hus id Hin) as [w [Hw Hidw]].
    destruct (String.eqb_spec (vkey w) k) as [Ek|Nk].
    + assert (w = old) by (eapply find_var_unique; eassumption). subst w.
      assert (Hobs : existsb (Nat.eqb id) (vax old) = true) by (apply existsb_exists; exists id; split; [exact Hidw | apply Nat.eqb_refl]).
      rewrite Hobs in Hkeep. simpl in Hkeep. unfold name_used in Hkeep. apply existsb_exists in Hkeep.
      destruct Hkeep as [w' [Hw' Hmem]]. simpl in Hmem. apply mem_str_In_local in Hmem.
      apply in_map_iff in Hmem. destruct Hmem as [j [Ej Hj]].
      exists w'. split; [exact Hw'|]. assert (j = id); [|subst; exact Hj].
      apply (names_inj (heap s) (dsax s)); [exact Hnd | | exact Hin | exact Ej].
      unfold vars' in Hw'. apply filter_In in Hw'. apply (Hsh w' (proj1 Hw') j Hj).
    + exists w. split; [|exact Hidw]. unfold vars'. apply filter_In. split; [exact Hw|].
      apply negb_true_iff. destruct (String.eqb_spec (vkey w) k); [contradiction | reflexivity].
  - split.
    + unfold names, delete_unused. simpl. apply NoDup_map_filter. exact Hnd.
    + intros id Hid. unfold delete_unused in Hid. apply filter_In in Hid. apply Hlt. apply Hid.
  - unfold ds_keys. simpl. unfold vars'. apply NoDup_map_filter. exact Hkeys.
Qed.

(* a change of the heap cell of one axis that keeps (or freshly changes) its name *)
Lemma names_hset h l id ax :
  names (hset h id ax) l = map (fun j => if j =? id then aname ax else aname (hget h j)) l.
Proof.
  unfold names. apply map_ext. intros j. destruct (j =? id) eqn:E.
  - apply Nat.eqb_eq in E. subst. rewrite hget_hset_eq. reflexivity.
  - apply Nat.eqb_neq in E. rewrite hget_hset_neq by exact E. reflexivity.
Qed.

Lemma nodup_rename h l id n :
  NoDup (names h l) -> (~ In n (names h l) \/ n = aname (hget h id)) ->
  NoDup (map (fun j => if j =? id then n else aname (hget h j)) l).
Proof.
  intros Hn [Hfresh| ->].
  - unfold names in *. induction l as [|x l IH]; simpl in *; [constructor|].
    inversion Hn as [|? ? Hx Hl]; subst. constructor; [|apply IH; [exact Hl | intros H; apply Hfresh; right; exact H]].
    intros Hin. apply in_map_iff in Hin. destruct Hin as [y [E Hy]].
    destruct (x =? id) eqn:Ex, (y =? id) eqn:Ey.
    + apply Nat.eqb_eq in Ex, Ey. subst. apply Hx. apply in_map_iff. exists id. auto.
    + apply Hfresh. right. rewrite <- E. apply in_map_iff. exists y. auto.
    + apply Hfresh. left. symmetry. exact E.
    + apply Hx. rewrite <- E. apply in_map_iff. exists y. auto.
  - replace (map (fun j => if j =? id then aname (hget h id) else aname (hget h j)) l) with (names h l); [exact Hn|].
    unfold names. apply map_ext. intros j. destruct (j =? id) eqn:E; [apply Nat.eqb_eq in E; subst; reflexivity | reflexivity].
Qed.

Lemma inv4_hset s id ax :
  Inv4 s -> (~ In (aname ax) (ds_dims s) \/ aname ax = aname (hget (heap s) id)) ->
  Inv4 (with_heap s (hset (heap s) id ax)).
Proof.
  intros [[Hsh [Hus [Hnd Hlt]]] Hkeys] Hn. split; [split; [apply shared_with_heap; exact Hsh | split; [exact Hus|]] | exact Hkeys].
  split; [|exact Hlt]. simpl. rewrite names_hset. apply nodup_rename; assumption.
Qed.

Theorem rename_id_inv s id n :
  Inv4 s -> (~ In n (ds_dims s) \/ n = aname (hget (heap s) id)) -> Inv4 (fst (rename_id s id n)).
Proof.
  intros Hi Hn. unfold rename_id. destruct (String.eqb n ""); [exact Hi|]. simpl.
  apply inv4_hset; [exact Hi | exact Hn].
Qed.

Theorem set_label_inv r i l lk s : Inv4 s -> Inv4 (fst (ds_set_label r i l lk s)).
Proof.
  intros Hi. unfold ds_set_label. destruct (ds_axis_ref s r) as [id|]; [|exact Hi].
  destruct (py_index _ i); [|exact Hi]. simpl. apply inv4_hset; [exact Hi | right; reflexivity].
Qed.

Theorem replace_axis_inv r nx s :
  Inv4 s -> (forall id, ds_axis_ref s r = Ok id -> aname nx = aname (hget (heap s) id) \/ ~ In (aname nx) (ds_dims s)) ->
  (forall id, ds_axis_ref s r = Ok id -> In id (dsax s)) ->
  Inv4 (fst (ds_replace_axis r nx s)).
Proof.
  intros [[Hsh [Hus [Hnd Hlt]]] Hkeys] Hname Hin. pose proof (replace_axis_shared r nx s Hsh) as Hsh'.
  unfold ds_replace_axis in *. destruct (ds_axis_ref s r) as [id|] eqn:Er; [|repeat split; assumption].
  destruct (negb _); [repeat split; assumption|]. simpl in *.
  specialize (Hname id eq_refl). specialize (Hin id eq_refl).
  set (nid := nextid s) in *. set (re := map (fun j => if j =? id then nid else j)) in *.
  split; [split; [exact Hsh'|split]|].
  - intros j Hj. unfold re in Hj. apply in_map_iff in Hj. destruct Hj as [j0 [E Hj0]].
    destruct (Hus j0 Hj0) as [w [Hw Hjw]].
    exists {| vkey := vkey w; vax := re (vax w); vvals := vvals w; vattrs := vattrs w |}. split.
    + apply in_map_iff. exists w. auto.
    + simpl. unfold re. apply in_map_iff. exists j0. auto.
  - split.
    + (* names through the new heap: the replaced position carries the new name *)
      assert (Hm : names (hset (heap s) nid nx) (re (dsax s))
                   = map (fun j => if j =? id then aname nx else aname (hget (heap s) j)) (dsax s)).
      { unfold names, re. rewrite map_map. apply map_ext_in. intros j Hj. destruct (j =? id) eqn:E.
        - rewrite hget_hset_eq. reflexivity.
        - rewrite hget_hset_neq; [reflexivity|]. specialize (Hlt j Hj). unfold nid. lia. }
      cbn [heap dsax]. rewrite Hm. apply (nodup_rename (heap s) (dsax s) id (aname nx)); [exact Hnd | destruct Hname as [E|Hf]; [right; exact E | left; exact Hf]].
    + intros j Hj. cbn [nextid dsax] in *. unfold re in Hj. apply in_map_iff in Hj. destruct Hj as [j0 [E Hj0]].
      destruct (j0 =? id); subst j; [unfold nid; lia | specialize (Hlt j0 Hj0); unfold nid; lia].
  - unfold ds_keys. simpl. rewrite map_map. simpl. exact Hkeys.
Qed.

(* ds.dims = names: all names validated first (length, distinct, non-empty), then every axis renamed by position.
   Intermediate states may carry a duplicate name (a swap), the state after the assignment does not. *)
Lemma NoDup_names_ids h l : NoDup (names h l) -> NoDup l.
Proof.
  unfold names. induction l as [|x t IH]; intros H; [constructor|]. simpl in H. inversion H as [|? ? Hx Ht]; subst.
  constructor; [intros Hin; apply Hx; apply in_map_iff; exists x; auto | apply IH; exact Ht].
Qed.

Lemma set_dims_fold ids : forall (ns : list string) s,
  List.length ns = List.length ids -> NoDup ids -> ~ In EmptyString ns ->
  let r := fold_left (fun (acc : dset * res unit) p => match snd acc with Ok _ => rename_id (fst acc) (fst p) (snd p) | Err e => acc end)
                     (combine ids ns) (s, Ok tt) in
  snd r = Ok tt /\ dsax (fst r) = dsax s /\ dvars (fst r) = dvars s /\ nextid (fst r) = nextid s /\ dsattrs (fst r) = dsattrs s /\
  names (heap (fst r)) ids = ns /\ (forall j, ~ In j ids -> hget (heap (fst r)) j = hget (heap s) j).
Proof.
  induction ids as [|id t IH]; intros ns s Hl Hnd He.
  - destruct ns; [|discriminate]. simpl. repeat split; reflexivity.
  - destruct ns as [|n ns']; [discriminate|]. inversion Hnd as [|? ? Hid Hnd']; subst.
    cbn [combine fold_left snd fst].
    assert (Hn : String.eqb n "" = false).
    { destruct (String.eqb_spec n ""); [exfalso; apply He; left; assumption | reflexivity]. }
    set (s1 := with_heap s (hset (heap s) id (with_name (hget (heap s) id) n))).
    assert (E1 : rename_id s id n = (s1, Ok tt)) by (unfold rename_id; rewrite Hn; reflexivity).
    rewrite E1.
    destruct (IH ns' s1 ltac:(simpl in Hl; lia) Hnd' ltac:(intros H; apply He; right; exact H)) as [R1 [R2 [R3 [R4 [R5 [R6 R7]]]]]].
    cbv zeta in *. split; [exact R1|]. split; [exact R2|]. split; [exact R3|]. split; [exact R4|]. split; [exact R5|]. split.
    + unfold names in *. cbn [map]. f_equal; [|exact R6].
      rewrite (R7 id Hid). unfold s1; simpl. rewrite hget_hset_eq. reflexivity.
    + intros j Hj. rewrite R7 by (intros H; apply Hj; right; exact H). unfold s1; simpl.
      apply hget_hset_neq. intros ->. apply Hj. left. reflexivity.
Qed.

Theorem set_dims_inv ns s : Inv4 s -> Inv4 (fst (ds_set_dims ns s)).
Proof.
  intros Hi. pose proof Hi as [[Hsh [Hus [Hnd Hlt]]] Hkeys]. unfold ds_set_dims.
  destruct (negb (_ =? _)) eqn:El; [exact Hi|]. destruct (negb (distinct_str ns)) eqn:Ed; [exact Hi|].
  destruct (existsb (String.eqb "") ns) eqn:Ee; [exact Hi|].
  apply negb_false_iff in El, Ed. apply Nat.eqb_eq in El.
  assert (He : ~ In EmptyString ns).
  { intros Hin. assert (existsb (String.eqb "") ns = true); [|congruence]. apply existsb_exists. exists EmptyString. split; [exact Hin | reflexivity]. }
  destruct (set_dims_fold (dsax s) ns s El (NoDup_names_ids _ _ Hnd) He) as [_ [R2 [R3 [R4 [_ [R6 _]]]]]]. cbv zeta in *.
  set (r := fold_left _ _ _) in *.
  split; [split; [|split]|].
  - intros v Hv id Hid. rewrite R3 in Hv. rewrite R2. exact (Hsh v Hv id Hid).
  - intros id Hid. rewrite R2 in Hid. rewrite R3. exact (Hus id Hid).
  - split; [rewrite R2, R6|rewrite R2, R4; exact Hlt].
    clear -Ed. induction ns as [|x t IH]; [constructor|]. simpl in Ed. apply andb_true_iff in Ed. destruct Ed as [E1 E2].
    constructor; [|apply IH; exact E2]. intros Hin. apply negb_true_iff in E1.
    assert (mem_str x t = true); [|congruence]. unfold mem_str. apply existsb_exists. exists x. split; [exact Hin | apply String.eqb_refl].
  - unfold ds_keys. rewrite R3. exact Hkeys.
Qed.

(* the remaining operations of the alphabet *)
Theorem set_axis_inv r k labs name s :
  Inv4 s -> Inv4 (fst (ds_set_axis r k labs name s)).
Proof.
  intros Hi. unfold ds_set_axis. destruct (ds_axis_ref s r) as [id|] eqn:Er; [|exact Hi].
  destruct (negb _); [exact Hi|]. cbv zeta.
  set (ax' := {| aname := aname (hget (heap s) id); akind := _; alab := labs; aattrs := _; amem := _ |}).
  assert (H1 : Inv4 (with_heap s (hset (heap s) id ax'))) by (apply inv4_hset; [exact Hi | right; reflexivity]).
  destruct name as [n|]; [|exact H1].
  destruct (mem_str n _) eqn:Em; [exact Hi|].
  apply rename_id_inv; [exact H1|].
  assert (Hn : ~ In n (ds_dims s) \/ n = aname (hget (heap s) id)).
  { destruct (in_dec string_dec n (ds_dims s)) as [Hin|Hnin]; [|left; exact Hnin]. right.
    unfold ds_dims in Hin. apply in_map_iff in Hin. destruct Hin as [j [Ej Hj]].
    destruct (Nat.eq_dec j id) as [->|Hne]; [symmetry; exact Ej|]. exfalso.
    assert (Hc : mem_str n (map (fun j0 => aname (hget (heap s) j0)) (filter (fun j0 => negb (j0 =? id)) (dsax s))) = true).
    { unfold mem_str. apply existsb_exists. exists n. split; [|apply String.eqb_refl].
      apply in_map_iff. exists j. split; [exact Ej|]. apply filter_In. split; [exact Hj|].
      apply negb_true_iff. apply Nat.eqb_neq. exact Hne. }
    rewrite Hc in Em. discriminate. }
  destruct Hn as [Hf|He].
  - left. unfold ds_dims in *. cbn [heap dsax with_heap]. intros Hin. apply Hf.
    apply in_map_iff in Hin. destruct Hin as [j [Ej Hj]]. apply in_map_iff. exists j. split; [|exact Hj].
    destruct (Nat.eq_dec j id) as [->|Hne]; [rewrite hget_hset_eq in Ej; exact Ej | rewrite hget_hset_neq in Ej by exact Hne; exact Ej].
  - right. cbn [heap with_heap]. rewrite hget_hset_eq. exact He.
Qed.

Theorem var_rename_axis_inv k r n s :
  Inv4 s -> (forall v i, find_var s k = Some v -> axis_info (var_as_darr s v) r = Ok i ->
             ~ In n (ds_dims s) \/ n = aname (hget (heap s) (nth i (vax v) 0))) ->
  Inv4 (fst (ds_var_rename_axis k r n s)).
Proof.
  intros Hi Hn. unfold ds_var_rename_axis. destruct (find_var s k) as [v|] eqn:Ef; [|exact Hi].
  destruct (axis_info _ r) as [i|] eqn:Ea; [|exact Hi]. apply rename_id_inv; [exact Hi | apply (Hn v i eq_refl Ea)].
Qed.

Theorem rename_axes_inv m s : Inv4 s -> Inv4 (fst (ds_rename_axes m s)).
Proof. intros Hi. unfold ds_rename_axes. destruct (forallb _ m); [apply set_dims_inv; exact Hi | exact Hi]. Qed.

Theorem rename_key_inv o n s : Inv4 s -> (n = o \/ ~ In n (ds_keys s)) -> Inv4 (fst (ds_rename_key o n s)).
Proof.
  intros Hi Hn. pose proof Hi as [[Hsh [Hus Hwf]] Hkeys]. pose proof (rename_key_shared o n s Hsh) as Hsh'.
  unfold ds_rename_key in *. destruct (find_var s o) as [v|] eqn:Ef; [|exact Hi].
  destruct (String.eqb_spec o n) as [->|Hne]; [exact Hi|]. simpl in *.
  destruct Hn as [->|Hfresh]; [contradiction|].
  assert (Hnone : find_var s n = None).
  { unfold find_var. destruct (find _ (dvars s)) as [w|] eqn:Ew; [|reflexivity]. exfalso. apply Hfresh.
    apply find_some in Ew. destruct Ew as [Hw1 Hw2]. apply String.eqb_eq in Hw2. unfold ds_keys. rewrite <- Hw2. apply in_map. exact Hw1. }
  rewrite Hnone in *.
  assert (Hv : In v (dvars s) /\ vkey v = o).
  { unfold find_var in Ef. apply find_some in Ef. destruct Ef as [H1 H2]. apply String.eqb_eq in H2. auto. }
  destruct Hv as [Hvin Hvk].
  set (v' := {| vkey := n; vax := vax v; vvals := vvals v; vattrs := vattrs v |}) in *.
  split; [split; [exact Hsh' | split; [|exact Hwf]]|].
  - (* every dataset axis is still used: by the same variable, or by the renamed one *)
    intros id Hid. destruct (Hus id Hid) as [w [Hw Hidw]].
    destruct (String.eqb_spec (vkey w) o) as [Ew|Ew].
    + (* w is the renamed variable (keys are unique) *)
      assert (w = v) by (apply (find_var_unique s o w v Hkeys Hw Ew Ef)). subst w.
      exists v'. split; [|exact Hidw]. apply filter_In. split; [apply put_var_has|]. simpl.
      destruct (String.eqb_spec n o); [subst; contradiction | reflexivity].
    + exists w. split; [|exact Hidw]. apply filter_In. split.
      * apply put_var_keeps; [exact Hw|]. simpl. intros E. apply Hfresh. unfold ds_keys. rewrite <- E. apply in_map. exact Hw.
      * destruct (String.eqb_spec (vkey w) o); [contradiction | reflexivity].
  - (* keys stay distinct *)
    unfold ds_keys. cbn [dvars]. apply NoDup_map_filter. apply put_var_keys. exact Hkeys.
Qed.

(* ------------------------------------------------------------------ renaming one key: no side condition *)
Lemma find_filter_other (vars : list dvar) o n : o <> n ->
  find (fun v => String.eqb (vkey v) o) (filter (fun v => negb (String.eqb (vkey v) n)) vars) = find (fun v => String.eqb (vkey v) o) vars.
Proof.
  intros Hne. induction vars as [|x t IH]; simpl; [reflexivity|].
  destruct (String.eqb_spec (vkey x) n) as [En|Nn]; simpl.
  - destruct (String.eqb_spec (vkey x) o) as [Eo|No]; [exfalso; apply Hne; congruence | exact IH].
  - destruct (String.eqb (vkey x) o); [reflexivity | exact IH].
Qed.
Lemma find_filter_self (vars : list dvar) n :
  find (fun v => String.eqb (vkey v) n) (filter (fun v => negb (String.eqb (vkey v) n)) vars) = None.
Proof.
  induction vars as [|x t IH]; simpl; [reflexivity|].
  destruct (String.eqb (vkey x) n) eqn:E; simpl; [exact IH | rewrite E; exact IH].
Qed.
Lemma delitem_find_other n s o : o <> n -> find_var (fst (ds_delitem n s)) o = find_var s o.
Proof.
  intros Hne. unfold ds_delitem. destruct (find_var s n); [|reflexivity]. unfold find_var. simpl. apply find_filter_other. exact Hne.
Qed.
Lemma delitem_find_self n s w : find_var s n = Some w -> find_var (fst (ds_delitem n s)) n = None.
Proof. intros H. unfold ds_delitem. rewrite H. unfold find_var. simpl. apply find_filter_self. Qed.
Lemma find_var_none_notin s n : find_var s n = None -> ~ In n (ds_keys s).
Proof.
  unfold find_var, ds_keys. intros H Hin. apply in_map_iff in Hin. destruct Hin as [w [E Hw]].
  pose proof (find_none _ _ H w Hw) as Hf. cbv beta in Hf. rewrite E, String.eqb_refl in Hf. discriminate.
Qed.

Theorem rename_key_inv_total o n s : Inv4 s -> Inv4 (fst (ds_rename_key o n s)).
Proof.
  intros Hi.
  destruct (find_var s o) as [v|] eqn:Ef; [|unfold ds_rename_key; rewrite Ef; exact Hi].
  destruct (String.eqb_spec o n) as [E|NE]; [apply rename_key_inv; [exact Hi | left; symmetry; exact E]|].
  destruct (find_var s n) as [w|] eqn:En.
  - (* the new key is taken: the result is the renaming, in the dataset without that variable, to a key that is now free *)
    set (s1 := fst (ds_delitem n s)).
    assert (Hi1 : Inv4 s1) by (apply delitem_inv; exact Hi).
    assert (Ef1 : find_var s1 o = Some v) by (unfold s1; rewrite delitem_find_other by exact NE; exact Ef).
    assert (En1 : find_var s1 n = None) by (unfold s1; eapply delitem_find_self; exact En).
    assert (Heq : fst (ds_rename_key o n s) = fst (ds_rename_key o n s1)).
    { unfold ds_rename_key. rewrite Ef, Ef1, En, En1. destruct (String.eqb_spec o n); [contradiction | reflexivity]. }
    rewrite Heq. apply rename_key_inv; [exact Hi1 | right; apply find_var_none_notin; exact En1].
  - apply rename_key_inv; [exact Hi | right; apply find_var_none_notin; exact En].
Qed.

(* ------------------------------------------------------------------ rename_keys with several keys at once *)
Lemma put_var_fresh vars v : ~ In (vkey v) (map vkey vars) -> put_var vars v = vars ++ [v].
Proof.
  induction vars as [|x t IH]; intros H; simpl; [reflexivity|].
  destruct (String.eqb_spec (vkey x) (vkey v)) as [E|NE]; [exfalso; apply H; left; exact E|].
  f_equal. apply IH. intros Hin. apply H. right. exact Hin.
Qed.
Lemma fold_put_fresh mv : forall vars,
  NoDup (map vkey mv) -> (forall w, In w mv -> ~ In (vkey w) (map vkey vars)) ->
  fold_left put_var mv vars = vars ++ mv.
Proof.
  induction mv as [|x t IH]; intros vars Hnd Hfr; simpl; [rewrite app_nil_r; reflexivity|].
  inversion Hnd as [|? ? Hx Ht]; subst.
  rewrite put_var_fresh by (apply Hfr; left; reflexivity).
  rewrite IH; [rewrite <- app_assoc; reflexivity | exact Ht |].
  intros w Hw Hin. rewrite map_app in Hin. apply in_app_or in Hin. destruct Hin as [Hin|[E|[]]].
  - apply (Hfr w (or_intror Hw)). exact Hin.
  - apply Hx. simpl in E. rewrite E. apply in_map. exact Hw.
Qed.

(* the really renaming pairs *)
Definition moving (m : list (string * string)) : list (string * string) := filter (fun p => negb (String.eqb (fst p) (snd p))) m.
(* side condition of the invariant: old keys given once, new keys distinct and not among the keys that stay *)
Definition renkeys_ok (s : dset) (m : list (string * string)) : Prop :=
  NoDup (map fst (moving m)) /\ NoDup (map snd (moving m)) /\
  forall n, In n (map snd (moving m)) -> In n (ds_keys s) -> In n (map fst (moving m)).

Lemma moved_vars_keys m s mv : moved_vars m s = Ok mv -> map vkey mv = map snd (moving m).
Proof.
  unfold moved_vars, moving. generalize (filter (fun p => negb (String.eqb (fst p) (snd p))) m). intros l. revert mv.
  induction l as [|p t IH]; intros mv H; simpl in H; [injection H as <-; reflexivity|].
  destruct (find_var s (fst p)) as [v|]; simpl in H; [|discriminate].
  destruct (mapM _ t) as [r|] eqn:Er; simpl in H; [|discriminate]. injection H as <-. simpl. f_equal. apply IH. reflexivity.
Qed.
Lemma moved_vars_has m s mv : moved_vars m s = Ok mv ->
  forall o v, In o (map fst (moving m)) -> find_var s o = Some v -> exists w, In w mv /\ vax w = vax v.
Proof.
  unfold moved_vars, moving. generalize (filter (fun p => negb (String.eqb (fst p) (snd p))) m). intros l. revert mv.
  induction l as [|p t IH]; intros mv H o v Ho Hf; simpl in H; [destruct Ho|].
  destruct (find_var s (fst p)) as [v0|] eqn:Ef; simpl in H; [|discriminate].
  destruct (mapM _ t) as [r|] eqn:Er; simpl in H; [|discriminate]. injection H as <-.
  destruct Ho as [E|Ho].
  - simpl in E. subst o. rewrite Ef in Hf. injection Hf as <-. exists (rekey v0 (snd p)). split; [left; reflexivity | reflexivity].
  - destruct (IH r eq_refl o v Ho Hf) as [w [Hw E]]. exists w. split; [right; exact Hw | exact E].
Qed.

Theorem rename_keys_inv m s : Inv4 s -> renkeys_ok s m -> Inv4 (fst (ds_rename_keys m s)).
Proof.
  intros Hi [Ho [Hn Hcl]]. pose proof Hi as [[Hsh [Hus Hwf]] Hkeys]. pose proof (rename_keys_shared m s Hsh) as Hsh'.
  unfold ds_rename_keys in *. destruct (negb (nodupb _ _)); [exact Hi|]. destruct (negb _); [exact Hi|]. destruct (moved_vars m s) as [mv|] eqn:Em; [|exact Hi].
  fold (moving m) in *. set (olds := map fst (moving m)) in *.
  set (remaining := filter (fun w => negb (mem_str (vkey w) olds)) (dvars s)) in *.
  assert (Hk : map vkey mv = map snd (moving m)) by (eapply moved_vars_keys; exact Em).
  assert (Hfresh : forall w, In w mv -> ~ In (vkey w) (map vkey remaining)).
  { intros w Hw Hin. apply in_map_iff in Hin. destruct Hin as [x [Ex Hx]]. apply filter_In in Hx. destruct Hx as [Hx1 Hx2].
    assert (Hnew : In (vkey w) (map snd (moving m))) by (rewrite <- Hk; apply in_map; exact Hw).
    assert (Hkey : In (vkey w) (ds_keys s)) by (unfold ds_keys; rewrite <- Ex; apply in_map; exact Hx1).
    pose proof (Hcl _ Hnew Hkey) as Hold. apply negb_true_iff in Hx2.
    assert (mem_str (vkey x) olds = true); [|congruence].
    unfold mem_str. apply existsb_exists. exists (vkey x). split; [rewrite Ex; exact Hold | apply String.eqb_refl]. }
  assert (Hfold : fold_left put_var mv remaining = remaining ++ mv).
  { apply fold_put_fresh; [rewrite Hk; exact Hn | exact Hfresh]. }
  simpl in *. rewrite Hfold in *.
  split; [split; [exact Hsh' | split; [|exact Hwf]]|].
  - intros id Hid. destruct (Hus id Hid) as [w [Hw Hidw]].
    destruct (mem_str (vkey w) olds) eqn:Emem.
    + assert (Hin : In (vkey w) olds).
      { unfold mem_str in Emem. apply existsb_exists in Emem. destruct Emem as [x [Hx E]]. apply String.eqb_eq in E. subst x. exact Hx. }
      assert (Hf : find_var s (vkey w) = Some w).
      { unfold find_var. destruct (find (fun v => String.eqb (vkey v) (vkey w)) (dvars s)) as [v|] eqn:Ef.
        - f_equal. symmetry. apply (find_var_unique s (vkey w) w v Hkeys Hw eq_refl). exact Ef.
        - exfalso. pose proof (find_none _ _ Ef w Hw) as Hf0. cbv beta in Hf0. rewrite String.eqb_refl in Hf0. discriminate. }
      destruct (moved_vars_has _ _ _ Em (vkey w) w Hin Hf) as [w' [Hw' E]].
      exists w'. split; [apply in_or_app; right; exact Hw' | rewrite E; exact Hidw].
    + exists w. split; [|exact Hidw]. apply in_or_app. left. apply filter_In. split; [exact Hw | rewrite Emem; reflexivity].
  - unfold ds_keys. cbn [dvars]. rewrite map_app.
    assert (G : forall (l1 l2 : list string), NoDup l1 -> NoDup l2 -> (forall k, In k l1 -> In k l2 -> False) -> NoDup (l1 ++ l2)).
    { induction l1 as [|x t IH]; intros l2 H1 H2 Hd; simpl; [exact H2|]. inversion H1 as [|? ? Hx Ht]; subst. constructor.
      - intros Hin. apply in_app_or in Hin. destruct Hin as [Hin|Hin]; [contradiction | apply (Hd x (or_introl eq_refl) Hin)].
      - apply IH; [exact Ht | exact H2 | intros k Hk1 Hk2; apply (Hd k (or_intror Hk1) Hk2)]. }
    apply G.
    + apply NoDup_map_filter. exact Hkeys.
    + rewrite Hk. exact Hn.
    + intros k Hk1 Hk2. apply in_map_iff in Hk2. destruct Hk2 as [w [E Hw]]. apply (Hfresh w Hw). rewrite E. exact Hk1.
Qed.

Lemma init_fold_inv l : forall s (st : res unit), Inv4 s ->
  Inv4 (fst (fold_left (fun (acc : dset * res unit) (p : string * darr) => match snd acc with
                                                                        | Ok _ => ds_setitem (fst p) (snd p) (fst acc)
                                                                        | Err e => acc end) l (s, st))).
Proof.
  induction l as [|p t IH]; intros s st Hi; simpl; [exact Hi|].
  destruct st as [[]|e]; [|apply IH; exact Hi].
  destruct (ds_setitem (fst p) (snd p) s) as [s1 st1] eqn:E.
  apply IH. pose proof (setitem_inv (fst p) (snd p) s Hi) as G. rewrite E in G. exact G.
Qed.
Theorem init_inv l : Inv4 (fst (ds_init l)).
Proof. unfold ds_init. destruct (align _ _ _ _ _); [apply init_fold_inv; apply inv4_empty | apply inv4_empty]. Qed.

(* what a history must respect for the bookkeeping invariant: new names are fresh *)
Definition op_ok (s : dset) (o : dsop) : Prop :=
  match o with
  | DSet _ _ | DDel _ | DSetLabel _ _ _ _ | DSetDims _ | DRenameAxes _ | DRenameKey _ _ | DSetAxis _ _ _ _ => True
  | DRenameAxis r n => forall id, ds_axis_ref s r = Ok id -> ~ In n (ds_dims s) \/ n = aname (hget (heap s) id)
  | DReplaceAxis r nx => (forall id, ds_axis_ref s r = Ok id -> aname nx = aname (hget (heap s) id) \/ ~ In (aname nx) (ds_dims s))
                         /\ (forall id, ds_axis_ref s r = Ok id -> In id (dsax s))
  | DVarRenameAxis k r n => forall v i, find_var s k = Some v -> axis_info (var_as_darr s v) r = Ok i ->
                                       ~ In n (ds_dims s) \/ n = aname (hget (heap s) (nth i (vax v) 0))
  | DRenameKeys m => renkeys_ok s m
  | DInit _ => True
  | DAppendAxis _ => False      (* an axis appended directly is used by no variable: outside the bookkeeping invariant (sharing, above, holds) *)
  end.
Fixpoint ops_ok (s : dset) (ops : list dsop) : Prop :=
  match ops with [] => True | o :: t => op_ok s o /\ ops_ok (fst (ds_step s o)) t end.

Theorem step_inv s o : Inv4 s -> op_ok s o -> Inv4 (fst (ds_step s o)).
Proof.
  intros Hi Hok. destruct o; simpl in *.
  - apply setitem_inv; exact Hi.
  - apply delitem_inv; exact Hi.
  - unfold ds_rename_axis. destruct (ds_axis_ref s r) as [id|] eqn:E; [|exact Hi]. apply rename_id_inv; [exact Hi | apply Hok; reflexivity].
  - apply var_rename_axis_inv; assumption.
  - apply set_dims_inv; exact Hi.
  - apply rename_axes_inv; exact Hi.
  - apply set_label_inv; exact Hi.
  - apply set_axis_inv; exact Hi.
  - apply replace_axis_inv; [exact Hi | apply Hok | apply Hok].
  - apply rename_key_inv_total; exact Hi.
  - apply rename_keys_inv; assumption.
  - apply init_inv.
  - destruct Hok.
Qed.

(* every state reachable from the empty dataset by such a history: variables share the dataset's axis
   objects, the dataset's dimensions are exactly those used by its variables, names are distinct *)
Theorem reachable_inv ops : ops_ok ds_empty ops -> Inv4 (ds_run ops ds_empty).
Proof.
  unfold ds_run. assert (G : forall s, Inv4 s -> ops_ok s ops -> Inv4 (fold_left (fun st o => fst (ds_step st o)) ops s)).
  { induction ops as [|o t IH]; intros s Hs Hok; simpl; [exact Hs|]. destruct Hok as [H1 H2].
    apply IH; [apply step_inv; assumption | exact H2]. }
  intros H. apply G; [apply inv4_empty | exact H].
Qed.

(* distinct names + shared ids: the observation "same object as the dataset's axis of that name" is true *)
Theorem shared_observed s v id :
  Inv4 s -> In v (dvars s) -> In id (vax v) -> ds_axis_id s (aname (hget (heap s) id)) = Some id.
Proof.
  intros [[Hsh [_ [Hnd _]]] _] Hv Hid. unfold ds_axis_id.
  destruct (find _ (dsax s)) as [j|] eqn:Ef.
  - pose proof (find_some _ _ Ef) as [Hj Hn]. apply String.eqb_eq in Hn. f_equal.
    apply (names_inj (heap s) (dsax s)); [exact Hnd | exact Hj | apply (Hsh v Hv id Hid) | exact Hn].
  - pose proof (find_none _ _ Ef id (Hsh v Hv id Hid)) as H. simpl in H. rewrite String.eqb_refl in H. discriminate.
Qed.
