(* C16: metadata - attribute routing (finite decision table over the generated code) and propagation. *)
From Coq Require Import Qround Qabs.
From DA Require Import Prelude NDArray Array PyRT.
From DA.Gen Require Import attrs.
From DA.Model Require Import Value Reshape SliceSpec Indexing Align Transform Flatten Attrs.
From DA.Proofs Require Import ListLemmas C10_proofs C01_proofs C03_proofs C07_proofs C04_proofs C08_proofs C09_proofs C11_proofs C12_proofs C17_proofs C18_proofs.
Open Scope nat_scope.

Ltac all_bools p := destruct p as [[] [] [] [] [] [] [] [] []].

(* ---------------------------------------------------------------- routing: for EVERY attribute name,
   since the three methods depend on the name only through these predicates *)
(* a public name that is not a class member, not excluded and not a dimension goes to attrs *)
Theorem set_public p :
  p_private p = false -> p_member p = false -> p_exclude p = false -> (p_hasaxes p && p_isdim p) = false ->
  set_route p = SAttrs.
Proof. all_bools p; simpl; intros; try discriminate; reflexivity. Qed.
Theorem get_public p :
  p_private p = false -> p_member p = false -> p_exclude p = false -> p_instance p = false ->
  (p_hasdims p && p_isdim p) = false ->
  get_route p = if p_inattrs p then GAttrs else GError.
Proof. all_bools p; simpl; intros; try discriminate; reflexivity. Qed.
Theorem del_public p :
  p_private p = false -> p_member p = false -> p_exclude p = false -> p_inattrs p = true ->
  del_route p = DAttrs.
Proof. all_bools p; simpl; intros; try discriminate; reflexivity. Qed.

(* a name equal to a dimension reads and writes that axis' labels *)
Theorem dim_routes_to_labels p :
  p_private p = false -> p_member p = false -> p_exclude p = false -> p_instance p = false ->
  p_isdim p = true -> p_hasdims p = true -> p_hasaxes p = true ->
  get_route p = GAxisValues /\ set_route p = SAxisValues.
Proof. all_bools p; simpl; intros; try discriminate; split; reflexivity. Qed.

(* underscore-prefixed names, class members and excluded names never enter attrs ... *)
Theorem private_never_set_in_attrs p :
  p_include p = false -> (p_private p || p_member p || p_exclude p) = true -> set_route p = SObject.
Proof. all_bools p; simpl; intros; try discriminate; reflexivity. Qed.
(* ... and entries stored in attrs under such names are not reachable ... *)
Theorem private_not_readable_from_attrs p :
  p_include p = false -> (p_private p || p_member p || p_exclude p) = true -> get_route p <> GAttrs.
Proof. all_bools p; simpl; intros; try discriminate; discriminate. Qed.
(* ... nor deletable through attribute syntax *)
Theorem private_not_deletable_from_attrs p :
  (p_private p || p_member p || p_exclude p) = true -> del_route p = DObject.
Proof. all_bools p; simpl; intros; try discriminate; reflexivity. Qed.

(* the generated functions never fall off their decision tree *)
Theorem routes_total p : set_route p <> SOther /\ del_route p <> DOther.
Proof. all_bools p; simpl; split; discriminate. Qed.

(* ---------------------------------------------------------------- propagation *)
Lemma with_labels_attrs ax k l : aattrs (with_labels ax k l) = aattrs ax /\ aname (with_labels ax k l) = aname ax.
Proof. split; reflexivity. Qed.
Lemma relabel_attrs ax k l : aattrs (relabel ax k l) = aattrs ax /\ aname (relabel ax k l) = aname ax.
Proof. split; reflexivity. Qed.

(* an axis' metadata survives slicing / indexing of that axis *)
Theorem getaxes_keeps_axis_attrs axs ps :
  Forall (fun ax' => exists ax, In ax axs /\ aattrs ax' = aattrs ax /\ aname ax' = aname ax) (getaxes axs ps).
Proof.
  revert ps; induction axs as [|ax axs IH]; intros [|p ps]; simpl; try constructor.
  destruct p as [i|l|].
  - eapply Forall_impl; [|apply IH]. intros x [y [Hy H]]. exists y. split; [right; exact Hy | exact H].
  - constructor; [exists ax; split; [left; reflexivity | split; reflexivity]|].
    eapply Forall_impl; [|apply IH]. intros x [y [Hy H]]. exists y. split; [right; exact Hy | exact H].
  - constructor; [exists ax; split; [left; reflexivity | split; reflexivity]|].
    eapply Forall_impl; [|apply IH]. intros x [y [Hy H]]. exists y. split; [right; exact Hy | exact H].
Qed.

Theorem take_axis_keeps_attrs idxs i a :
  attrs (take_axis_pos idxs i a) = attrs a.
Proof. reflexivity. Qed.

Theorem interp_keeps_attrs newk news r left right a res n0 n1 rest :
  sh (vals a) = n0 :: n1 :: rest -> interp_axis newk news r left right a = Ok res -> attrs res = attrs a.
Proof.
  intros Hs H. destruct (interp_axis_spec _ _ _ _ _ _ _ _ _ _ Hs H) as [i [nq [a' [xq [_ [_ [Ha' [_ [Hat _]]]]]]]]].
  rewrite Hat, Ha'. destruct (is_sorted_q _); reflexivity.
Qed.

Theorem transpose_keeps_attrs p a r : wf_shape a -> transpose_pos p a = Ok r -> attrs r = attrs a.
Proof. intros Hw H. apply (transpose_pos_spec p a r Hw H). Qed.
