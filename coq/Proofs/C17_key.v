(* C17: sort_axis(axis, key=f) - the keys f(label) are computed by the caller; the model takes them as a list *)
From Coq Require Import Permutation.
From DA Require Import Prelude NDArray Array PyRT.
From DA.Model Require Import Value Reshape SliceSpec Indexing Align Transform Flatten Ops.
From DA.Proofs Require Import C17_proofs.
Open Scope nat_scope.

Theorem sort_axis_by_key_spec r keys a v :
  apply_op [] (OSortAxisKey r keys) a = Ok v ->
  exists i, axis_info a r = Ok i /\ List.length keys = alen (nth i (axes a) dax0) /\
    let order := argsort keys in
    v = VArr (take_axis_pos order i a) /\
    Permutation order (seq 0 (List.length keys)) /\ sorted_by keys order.
Proof.
  intros H. simpl in H. destruct (axis_info a r) as [i|]; simpl in H; [|discriminate].
  destruct (Nat.eqb_spec (List.length keys) (alen (nth i (axes a) dax0))) as [E|E]; simpl in H; [|discriminate].
  injection H as <-. exists i. split; [reflexivity|]. split; [exact E|]. split; [reflexivity|].
  split; [apply argsort_perm | apply argsort_sorted].
Qed.
