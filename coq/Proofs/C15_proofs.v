(* C15: operations do not modify their operands; copies are independent. *)
From Coq Require Import Qround Qabs.
From DA Require Import Prelude NDArray Array PyRT.
From DA.Model Require Import Value Reshape SliceSpec Indexing Align Transform Sharing.
From DA.Proofs Require Import ListLemmas.
Open Scope string_scope.
Open Scope nat_scope.
Open Scope list_scope.

(* x lives in heap h *)
Definition scoped (h : hp) (x : arr) : Prop :=
  a_buf x < List.length (bufs h) /\ Forall (fun i => i < List.length (aobjs h)) (a_axes x).
(* h' extends h: everything that existed is still there, unchanged *)
Definition ext (h h' : hp) : Prop :=
  (exists l, bufs h' = bufs h ++ l) /\ (exists l, aobjs h' = aobjs h ++ l).

Lemma ext_refl h : ext h h.
Proof. split; exists []; rewrite app_nil_r; reflexivity. Qed.
Lemma ext_trans h1 h2 h3 : ext h1 h2 -> ext h2 h3 -> ext h1 h3.
Proof.
  intros [[l1 E1] [m1 F1]] [[l2 E2] [m2 F2]]. split.
  - exists (l1 ++ l2). rewrite E2, E1, app_assoc. reflexivity.
  - exists (m1 ++ m2). rewrite F2, F1, app_assoc. reflexivity.
Qed.
Lemma ext_alloc_buf h l : ext h (fst (alloc_buf h l)).
Proof. split; simpl; [exists [l]; reflexivity | exists []; rewrite app_nil_r; reflexivity]. Qed.
Lemma ext_alloc_axes h l : ext h (fst (alloc_axes h l)).
Proof. split; simpl; [exists []; rewrite app_nil_r; reflexivity | exists l; reflexivity]. Qed.
Lemma ext_fresh_vals h v : ext h (fst (fst (fresh_vals h v))).
Proof. unfold fresh_vals. simpl. apply ext_alloc_buf. Qed.

(* what an array shows does not depend on later allocations *)
Theorem obs_ext h h' y : ext h h' -> scoped h y -> obs h' y = obs h y.
Proof.
  intros [[l E] [m F]] [Hb Ha]. unfold obs, obs_vals, hbuf, hax. rewrite E, F.
  rewrite app_nth1 by exact Hb. f_equal. f_equal.
  apply map_ext_in. intros i Hi. rewrite Forall_forall in Ha. rewrite app_nth1 by (apply Ha; exact Hi). reflexivity.
Qed.
Lemma scoped_ext h h' y : ext h h' -> scoped h y -> scoped h' y.
Proof.
  intros [[l E] [m F]] [Hb Ha]. split; [rewrite E, app_length; lia|].
  rewrite Forall_forall in *. intros i Hi. rewrite F, app_length. specialize (Ha i Hi). lia.
Qed.

(* ------------------------------------------------------------------ non-in-place operations only allocate *)
Lemma take0_ext idx h x h' r : take0 idx h x = Ok (h', r) -> ext h h'.
Proof.
  unfold take0. destruct (a_axes x) as [|i0 rest]; [discriminate|]. cbv zeta.
  unfold fresh_vals. simpl. intros [= <- _]. split; simpl; [exists [dat (np_take idx 0 (as_nd h x))]; reflexivity | eexists; reflexivity].
Qed.
Theorem sop_ext o h x h' r : sop_apply o h x = Ok (h', r) -> ext h h'.
Proof.
  destruct o; simpl; unfold fresh_vals; simpl.
  - intros [= <- _]. split; simpl; eexists; reflexivity.
  - destruct (_ || _)%bool; [discriminate|]. intros [= <- _]. apply ext_refl.
  - intros [= <- _]. apply ext_refl.
  - intros [= <- _]. split; simpl; [eexists; reflexivity | exists []; rewrite app_nil_r; reflexivity].
  - apply take0_ext.
  - apply take0_ext.
  - destruct (a_shape x) as [|n0 s']; [discriminate|]. destruct (a_axes x) as [|i0 rest]; [discriminate|].
    destruct (negb _); [discriminate|]. intros [= <- _]. apply ext_refl.
  - intros [= <- _]. split; simpl; eexists; reflexivity.
  - intros [= <- _]. split; simpl; [exists []; rewrite app_nil_r; reflexivity | eexists; reflexivity].
  - destruct (a_axes x) as [|i0 rest]; [discriminate|]. intros [= <- _].
    split; simpl; [eexists; reflexivity | exists []; rewrite app_nil_r; reflexivity].
Qed.

(* the operand - and every other live array - shows exactly what it showed before *)
Theorem sop_operand_unchanged o h x h' r y : scoped h y -> sop_apply o h x = Ok (h', r) -> obs h' y = obs h y.
Proof. intros Hy H. apply obs_ext; [eapply sop_ext; exact H | exact Hy]. Qed.

(* ------------------------------------------------------------------ copy(): nothing is shared *)
Definition sep (x y : arr) : Prop := a_buf x <> a_buf y /\ forall i, In i (a_axes x) -> ~ In i (a_axes y).

Theorem copy_fresh h x h' c :
  sop_apply SCopy h x = Ok (h', c) ->
  a_buf c = List.length (bufs h) /\ a_axes c = seq (List.length (aobjs h)) (List.length (a_axes x)) /\ scoped h' c.
Proof.
  simpl. unfold fresh_vals. simpl. intros [= <- <-]. simpl. rewrite map_length. repeat split; simpl.
  - rewrite app_length. simpl. lia.
  - apply Forall_forall. intros i Hi. apply in_seq in Hi. rewrite app_length, map_length. lia.
Qed.
Theorem copy_sep h x h' c : scoped h x -> sop_apply SCopy h x = Ok (h', c) -> sep x c.
Proof.
  intros [Hb Ha] H. destruct (copy_fresh _ _ _ _ H) as [E1 [E2 _]]. split; [lia|].
  intros i Hi. rewrite E2. rewrite Forall_forall in Ha. specialize (Ha i Hi). intros Hin. apply in_seq in Hin. lia.
Qed.

(* ------------------------------------------------------------------ in-place writes *)
(* the part of the heap an array can see or touch *)
Definition same_for (x : arr) (h1 h2 : hp) : Prop :=
  hbuf h1 (a_buf x) = hbuf h2 (a_buf x) /\ forall i, In i (a_axes x) -> hax h1 i = hax h2 i.
Lemma same_for_obs x h1 h2 : same_for x h1 h2 -> obs h1 x = obs h2 x.
Proof.
  intros [Hb Ha]. unfold obs, obs_vals. rewrite Hb. f_equal. f_equal. apply map_ext_in. exact Ha.
Qed.

Definition geom (x : arr) := (a_buf x, a_off x, a_shape x, a_axes x).
Lemma write_geom h x w : geom (snd (write h x w)) = geom x.
Proof. unfold write. destruct (write_ok h x w); [|reflexivity]. destruct w; reflexivity. Qed.
Lemma write_lengths h x w :
  List.length (bufs (fst (write h x w))) = List.length (bufs h) /\ List.length (aobjs (fst (write h x w))) = List.length (aobjs h).
Proof.
  unfold write. destruct (write_ok h x w); [|split; reflexivity].
  destruct w; simpl; unfold upd_ax; simpl; rewrite ?set_nth_length; split; reflexivity.
Qed.

Lemma hbuf_set h b l b' : b' <> b -> nth b' (set_nth b l (bufs h)) [] = hbuf h b'.
Proof. intros Hne. unfold hbuf. apply nth_set_nth_neq. congruence. Qed.

(* a write through y does not touch what a separate x sees *)
Theorem write_sep h x y w : sep x y -> same_for x (fst (write h y w)) h.
Proof.
  intros [Hb Ha]. unfold write. destruct (write_ok h y w) eqn:Eok; [|split; reflexivity].
  destruct w; simpl; unfold upd_ax, same_for, hbuf, hax; simpl.
  - split; [apply nth_set_nth_neq; congruence | reflexivity].
  - split; [reflexivity|]. intros j Hj. apply nth_set_nth_neq. intros E. subst j.
    apply andb_true_iff in Eok. destruct Eok as [Ei _]. apply Nat.ltb_lt in Ei. apply (Ha _ Hj). apply nth_In. exact Ei.
  - split; [reflexivity|]. intros j Hj. apply nth_set_nth_neq. intros E. subst j.
    apply Nat.ltb_lt in Eok. apply (Ha _ Hj). apply nth_In. exact Eok.
  - split; [reflexivity|]. intros j Hj. apply nth_set_nth_neq. intros E. subst j.
    apply Nat.ltb_lt in Eok. apply (Ha _ Hj). apply nth_In. exact Eok.
  - split; reflexivity.
Qed.

(* a write through x acts on x's part of the heap only, as a function of that part *)
Lemma write_ok_same x h1 h2 w : same_for x h1 h2 -> write_ok h1 x w = write_ok h2 x w.
Proof.
  intros [Hb Ha]. destruct w; simpl; try reflexivity.
  destruct (i <? List.length (a_axes x)) eqn:Ei; [|reflexivity]. simpl.
  rewrite (Ha (nth i (a_axes x) 0)); [reflexivity|]. apply nth_In. apply Nat.ltb_lt. exact Ei.
Qed.
Theorem write_same h1 h2 x w :
  scoped h1 x -> scoped h2 x -> same_for x h1 h2 ->
  same_for x (fst (write h1 x w)) (fst (write h2 x w)) /\ snd (write h1 x w) = snd (write h2 x w).
Proof.
  intros [Hb1 Ha1] [Hb2 Ha2] Hs. pose proof Hs as [Hb Ha]. unfold write. rewrite (write_ok_same x h1 h2 w Hs).
  destruct (write_ok h2 x w) eqn:Eok; [|split; [exact Hs | reflexivity]].
  destruct w; simpl; unfold upd_ax, same_for, hbuf, hax in *; simpl.
  - split; [|reflexivity]. split; [|exact Ha].
    rewrite !nth_set_nth_eq by assumption. rewrite Hb. reflexivity.
  - split; [|reflexivity]. split; [exact Hb|]. intros j Hj.
    set (id := nth i (a_axes x) 0).
    assert (Hid : In id (a_axes x)) by (apply andb_true_iff in Eok; destruct Eok as [Ei _]; apply Nat.ltb_lt in Ei; apply nth_In; exact Ei).
    rewrite Forall_forall in Ha1, Ha2.
    destruct (Nat.eq_dec j id) as [->|Hne].
    + rewrite !nth_set_nth_eq by (auto). rewrite (Ha id Hid). reflexivity.
    + rewrite !nth_set_nth_neq by congruence. apply Ha. exact Hj.
  - split; [|reflexivity]. split; [exact Hb|]. intros j Hj.
    set (id := nth i (a_axes x) 0).
    assert (Hid : In id (a_axes x)) by (apply Nat.ltb_lt in Eok; apply nth_In; exact Eok).
    rewrite Forall_forall in Ha1, Ha2.
    destruct (Nat.eq_dec j id) as [->|Hne].
    + rewrite !nth_set_nth_eq by (auto). rewrite (Ha id Hid). reflexivity.
    + rewrite !nth_set_nth_neq by congruence. apply Ha. exact Hj.
  - split; [|reflexivity]. split; [exact Hb|]. intros j Hj.
    set (id := nth i (a_axes x) 0).
    assert (Hid : In id (a_axes x)) by (apply Nat.ltb_lt in Eok; apply nth_In; exact Eok).
    rewrite Forall_forall in Ha1, Ha2.
    destruct (Nat.eq_dec j id) as [->|Hne].
    + rewrite !nth_set_nth_eq by (auto). rewrite (Ha id Hid). reflexivity.
    + rewrite !nth_set_nth_neq by congruence. apply Ha. exact Hj.
  - split; [exact Hs | reflexivity].
Qed.

(* ------------------------------------------------------------------ any sequence of writes: two separate objects never influence each other *)
Definition through_a (tw : bool * wop) : bool := negb (fst tw).
Definition through_r (tw : bool * wop) : bool := fst tw.

Record inv (s s' : st) (pick_a : bool) : Prop := {
  i_geom_a : geom (s_a s) = geom (s_a s'); i_geom_r : geom (s_r s) = geom (s_r s');
  i_sc_a : scoped (s_h s) (s_a s); i_sc_r : scoped (s_h s) (s_r s);
  i_sc_a' : scoped (s_h s') (s_a s'); i_sc_r' : scoped (s_h s') (s_r s');
  i_sep : sep (s_a s) (s_r s);
  i_same : if pick_a then same_for (s_a s) (s_h s) (s_h s') /\ s_a s = s_a s'
           else same_for (s_r s) (s_h s) (s_h s') /\ s_r s = s_r s' }.

Lemma scoped_geom h h' x x' :
  geom x = geom x' -> List.length (bufs h') = List.length (bufs h) -> List.length (aobjs h') = List.length (aobjs h) ->
  scoped h x -> scoped h' x'.
Proof.
  unfold geom, scoped. intros [= E1 _ _ E4] L1 L2 [Hb Ha]. rewrite <- E1, <- E4, L1, L2. split; assumption.
Qed.
Lemma sep_geom x y x' y' : geom x = geom x' -> geom y = geom y' -> sep x y -> sep x' y'.
Proof. unfold geom, sep. intros [= E1 _ _ E4] [= F1 _ _ F4]. rewrite <- E1, <- E4, <- F1, <- F4. tauto. Qed.
Lemma sep_sym x y : sep x y -> sep y x.
Proof. intros [H1 H2]. split; [congruence|]. intros i Hi Hx. exact (H2 i Hx Hi). Qed.
Lemma same_for_geom x x' h1 h2 : geom x = geom x' -> same_for x h1 h2 -> same_for x' h1 h2.
Proof. unfold geom, same_for. intros [= E1 _ _ E4]. rewrite <- E1, <- E4. tauto. Qed.
Lemma same_for_trans x h1 h2 h3 : same_for x h1 h2 -> same_for x h2 h3 -> same_for x h1 h3.
Proof. intros [A1 A2] [B1 B2]. split; [congruence | intros i Hi; rewrite (A2 i Hi); apply B2; exact Hi]. Qed.

(* one step of the full run against the run that keeps only the writes through the picked object *)
Lemma inv_step s s' pick tw :
  inv s s' pick ->
  inv (wstep s tw) (if Bool.eqb (fst tw) (negb pick) then wstep s' tw else s') pick.
Proof.
  intros [Ga Gr Sa Sr Sa' Sr' Hsep Hsame]. destruct tw as [t w]. unfold wstep. simpl fst. simpl snd.
  destruct t; destruct pick; simpl Bool.eqb; cbv iota.
  - (* write through R, watching A: only the full run moves *)
    destruct (write (s_h s) (s_r s) w) as [h r] eqn:E. simpl.
    pose proof (write_geom (s_h s) (s_r s) w) as Gw. pose proof (write_lengths (s_h s) (s_r s) w) as [L1 L2]. rewrite E in Gw, L1, L2. simpl in Gw, L1, L2.
    destruct Hsame as [Hs Ea]. constructor; simpl; try assumption.
    + rewrite Gw. exact Gr.
    + eapply scoped_geom; [reflexivity | exact L1 | exact L2 | exact Sa].
    + eapply scoped_geom; [symmetry; exact Gw | exact L1 | exact L2 | exact Sr].
    + eapply sep_geom; [reflexivity | symmetry; exact Gw | exact Hsep].
    + split; [|exact Ea]. eapply same_for_trans; [|exact Hs].
      pose proof (write_sep (s_h s) (s_a s) (s_r s) w Hsep) as Hw. rewrite E in Hw. exact Hw.
  - (* write through R, watching R: both runs move alike *)
    destruct Hsame as [Hs Er].
    assert (Sr2 : scoped (s_h s') (s_r s)) by (rewrite Er; exact Sr').
    destruct (write_same (s_h s) (s_h s') (s_r s) w Sr Sr2 Hs) as [Hs2 Es2].
    rewrite <- Er.
    destruct (write (s_h s) (s_r s) w) as [h r] eqn:E. destruct (write (s_h s') (s_r s) w) as [h2 r2] eqn:E2. simpl in *.
    pose proof (write_geom (s_h s) (s_r s) w) as Gw. pose proof (write_lengths (s_h s) (s_r s) w) as [L1 L2]. rewrite E in Gw, L1, L2. simpl in Gw, L1, L2.
    pose proof (write_lengths (s_h s') (s_r s) w) as [M1 M2]. rewrite E2 in M1, M2. simpl in M1, M2.
    subst r2. constructor; simpl; try assumption.
    + reflexivity.
    + eapply scoped_geom; [reflexivity | exact L1 | exact L2 | exact Sa].
    + eapply scoped_geom; [symmetry; exact Gw | exact L1 | exact L2 | exact Sr].
    + eapply scoped_geom; [reflexivity | exact M1 | exact M2 | exact Sa'].
    + eapply scoped_geom; [symmetry; exact Gw | exact M1 | exact M2 | exact Sr2].
    + eapply sep_geom; [reflexivity | symmetry; exact Gw | exact Hsep].
    + split; [|reflexivity]. eapply same_for_geom; [symmetry; exact Gw | exact Hs2].
  - (* write through A, watching A *)
    destruct Hsame as [Hs Ea].
    assert (Sa2 : scoped (s_h s') (s_a s)) by (rewrite Ea; exact Sa').
    destruct (write_same (s_h s) (s_h s') (s_a s) w Sa Sa2 Hs) as [Hs2 Es2].
    rewrite <- Ea.
    destruct (write (s_h s) (s_a s) w) as [h a] eqn:E. destruct (write (s_h s') (s_a s) w) as [h2 a2] eqn:E2. simpl in *.
    pose proof (write_geom (s_h s) (s_a s) w) as Gw. pose proof (write_lengths (s_h s) (s_a s) w) as [L1 L2]. rewrite E in Gw, L1, L2. simpl in Gw, L1, L2.
    pose proof (write_lengths (s_h s') (s_a s) w) as [M1 M2]. rewrite E2 in M1, M2. simpl in M1, M2.
    subst a2. constructor; simpl; try assumption.
    + reflexivity.
    + eapply scoped_geom; [symmetry; exact Gw | exact L1 | exact L2 | exact Sa].
    + eapply scoped_geom; [reflexivity | exact L1 | exact L2 | exact Sr].
    + eapply scoped_geom; [symmetry; exact Gw | exact M1 | exact M2 | exact Sa2].
    + eapply scoped_geom; [reflexivity | exact M1 | exact M2 | exact Sr'].
    + eapply sep_geom; [symmetry; exact Gw | reflexivity | exact Hsep].
    + split; [|reflexivity]. eapply same_for_geom; [symmetry; exact Gw | exact Hs2].
  - (* write through A, watching R *)
    destruct (write (s_h s) (s_a s) w) as [h a] eqn:E. simpl.
    pose proof (write_geom (s_h s) (s_a s) w) as Gw. pose proof (write_lengths (s_h s) (s_a s) w) as [L1 L2]. rewrite E in Gw, L1, L2. simpl in Gw, L1, L2.
    destruct Hsame as [Hs Er]. constructor; simpl; try assumption.
    + rewrite Gw. exact Ga.
    + eapply scoped_geom; [symmetry; exact Gw | exact L1 | exact L2 | exact Sa].
    + eapply scoped_geom; [reflexivity | exact L1 | exact L2 | exact Sr].
    + eapply sep_geom; [symmetry; exact Gw | reflexivity | exact Hsep].
    + split; [|exact Er]. eapply same_for_trans; [|exact Hs].
      pose proof (write_sep (s_h s) (s_r s) (s_a s) w (sep_sym _ _ Hsep)) as Hw. rewrite E in Hw. exact Hw.
Qed.

Lemma inv_run ws : forall s s' pick, inv s s' pick ->
  inv (wrun ws s) (wrun (filter (fun tw => Bool.eqb (fst tw) (negb pick)) ws) s') pick.
Proof.
  induction ws as [|tw t IH]; intros s s' pick H; simpl; [exact H|].
  pose proof (inv_step s s' pick tw H) as Hstep.
  destruct (Bool.eqb (fst tw) (negb pick)); simpl; apply IH; exact Hstep.
Qed.

Lemma inv_init h a r : scoped h a -> scoped h r -> sep a r -> forall pick, inv {| s_h := h; s_a := a; s_r := r |} {| s_h := h; s_a := a; s_r := r |} pick.
Proof.
  intros Sa Sr Hsep pick. constructor; simpl; try assumption; try reflexivity.
  destruct pick; (split; [split; reflexivity | reflexivity]).
Qed.

(* two separate live objects: after ANY sequence of in-place writes through either, each shows exactly what
   it would show had only the writes through itself been made *)
Theorem separate_objects_independent h a r ws :
  scoped h a -> scoped h r -> sep a r ->
  let s0 := {| s_h := h; s_a := a; s_r := r |} in
  let s := wrun ws s0 in
  let sa := wrun (filter through_a ws) s0 in
  let sr := wrun (filter through_r ws) s0 in
  obs (s_h s) (s_a s) = obs (s_h sa) (s_a sa) /\ obs (s_h s) (s_r s) = obs (s_h sr) (s_r sr).
Proof.
  intros Sa Sr Hsep. cbv zeta. split.
  - pose proof (inv_run ws _ _ true (inv_init h a r Sa Sr Hsep true)) as H.
    assert (E : filter (fun tw : bool * wop => Bool.eqb (fst tw) (negb true)) ws = filter through_a ws).
    { apply filter_ext. intros [t w]. unfold through_a. simpl. destruct t; reflexivity. }
    rewrite E in H. destruct H as [_ _ _ _ _ _ _ [Hs Ea]]. rewrite <- Ea. apply same_for_obs. exact Hs.
  - pose proof (inv_run ws _ _ false (inv_init h a r Sa Sr Hsep false)) as H.
    assert (E : filter (fun tw : bool * wop => Bool.eqb (fst tw) (negb false)) ws = filter through_r ws).
    { apply filter_ext. intros [t w]. unfold through_r. simpl. destruct t; reflexivity. }
    rewrite E in H. destruct H as [_ _ _ _ _ _ _ [Hs Er]]. rewrite <- Er. apply same_for_obs. exact Hs.
Qed.

(* copy(): the copy is separate from the original, hence the two are independent for ever *)
Theorem copy_independent h x h' c ws :
  scoped h x -> sop_apply SCopy h x = Ok (h', c) ->
  let s0 := {| s_h := h'; s_a := x; s_r := c |} in
  let s := wrun ws s0 in
  obs (s_h s) (s_a s) = obs (s_h (wrun (filter through_a ws) s0)) (s_a (wrun (filter through_a ws) s0)) /\
  obs (s_h s) (s_r s) = obs (s_h (wrun (filter through_r ws) s0)) (s_r (wrun (filter through_r ws) s0)).
Proof.
  intros Sx H. cbv zeta. apply separate_objects_independent.
  - eapply scoped_ext; [eapply sop_ext; exact H | exact Sx].
  - apply (copy_fresh _ _ _ _ H).
  - eapply copy_sep; eassumption.
Qed.
(* in particular: writes through the copy alone never show in the original, and conversely *)
Corollary copy_writes_invisible h x h' c ws :
  scoped h x -> sop_apply SCopy h x = Ok (h', c) ->
  (forall tw, In tw ws -> fst tw = true) ->
  let s := wrun ws {| s_h := h'; s_a := x; s_r := c |} in obs (s_h s) (s_a s) = obs h x.
Proof.
  intros Sx H Hall. cbv zeta. destruct (copy_independent h x h' c ws Sx H) as [Ha _]. rewrite Ha.
  assert (E : filter through_a ws = []).
  { clear -Hall. induction ws as [|tw t IH]; [reflexivity|]. simpl. unfold through_a at 1. rewrite (Hall tw (or_introl eq_refl)). simpl.
    apply IH. intros tw' Hin. apply Hall. right. exact Hin. }
  rewrite E. simpl. eapply sop_operand_unchanged; eassumption.
Qed.
