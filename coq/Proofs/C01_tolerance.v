(* C01, tolerance: "the nearest label is used if and only if it lies within the tolerance".
   locate_one_tol = np.argmin(np.abs(values - val)) followed by the tolerance test (IndexError on an empty axis). *)
From Coq Require Import Qabs.
From DA Require Import Prelude NDArray Array PyRT.
From DA.Model Require Import Value Reshape SliceSpec Indexing.
Open Scope nat_scope.

Lemma Qle_bool_false a b : Qle_bool a b = false -> (b < a)%Q.
Proof. intros H. apply Qnot_le_lt. intros Hle. apply Qle_bool_iff in Hle. congruence. Qed.

(* argmin_q scans [l] (whose first element has index i in the whole list pre ++ l) with the best index so far *)
Lemma argmin_q_spec l : forall pre best bq,
  best < List.length pre -> nth best pre 0%Q = bq ->
  (forall j, j < List.length pre -> (bq <= nth j pre 0)%Q) ->
  (forall j, j < best -> (bq < nth j pre 0)%Q) ->
  let m := argmin_q l (List.length pre) best bq in
  let full := (pre ++ l)%list in
  m < List.length full /\ (forall j, j < List.length full -> (nth m full 0 <= nth j full 0)%Q) /\
  (forall j, j < m -> (nth m full 0 < nth j full 0)%Q).
Proof.
  induction l as [|q t IH]; intros pre best bq Hb Hn Hmin Hfirst; cbn [argmin_q].
  - rewrite app_nil_r. split; [exact Hb|]. rewrite Hn. split; [exact Hmin | exact Hfirst].
  - assert (Hfull : ((pre ++ [q]) ++ t = pre ++ q :: t)%list) by (rewrite <- app_assoc; reflexivity).
    assert (Hlen : List.length (pre ++ [q]) = S (List.length pre)) by (rewrite app_length; simpl; lia).
    destruct (Qle_bool bq q) eqn:E; cbn [negb].
    + (* q is not smaller: best stays *)
      apply Qle_bool_iff in E.
      specialize (IH (pre ++ [q])%list best bq). rewrite Hlen, Hfull in IH. apply IH.
      * lia.
      * rewrite app_nth1 by exact Hb. exact Hn.
      * intros j Hj. destruct (Nat.eq_dec j (List.length pre)) as [->|Hne].
        -- rewrite app_nth2 by lia. rewrite Nat.sub_diag. exact E.
        -- rewrite app_nth1 by lia. apply Hmin. lia.
      * intros j Hj. rewrite app_nth1 by lia. apply Hfirst. exact Hj.
    + (* q is strictly smaller: it becomes the best *)
      apply Qle_bool_false in E.
      specialize (IH (pre ++ [q])%list (List.length pre) q). rewrite Hlen, Hfull in IH. apply IH.
      * lia.
      * rewrite app_nth2 by lia. rewrite Nat.sub_diag. reflexivity.
      * intros j Hj. destruct (Nat.eq_dec j (List.length pre)) as [->|Hne].
        -- rewrite app_nth2 by lia. rewrite Nat.sub_diag. apply Qle_refl.
        -- rewrite app_nth1 by lia. apply Qlt_le_weak. eapply Qlt_le_trans; [exact E | apply Hmin; lia].
      * intros j Hj. rewrite app_nth1 by lia. eapply Qlt_le_trans; [exact E | apply Hmin; lia].
Qed.

Lemma argmin_first d0 t :
  let m := argmin_q t 1 0 d0 in let ds := d0 :: t in
  m < List.length ds /\ (forall j, j < List.length ds -> (nth m ds 0 <= nth j ds 0)%Q) /\
  (forall j, j < m -> (nth m ds 0 < nth j ds 0)%Q).
Proof.
  apply (argmin_q_spec t [d0] 0 d0); simpl; try lia; try reflexivity.
  - intros j Hj. assert (j = 0) by lia. subst. apply Qle_refl.
Qed.

(* distances of the labels to the requested value *)
Definition dists (qs : list Q) (qv : Q) : list Q := map (fun q => Qabs (q - qv)) qs.

(* the full statement: on a numeric axis (possibly empty), with a numeric request and a tolerance t,
   - a position is returned iff some label lies within t of the request, and then it is the position of a NEAREST
     label (the first of them in stored order), which itself lies within t;
   - otherwise IndexError, and then every label is farther than t *)
Theorem locate_one_tol_spec ls qs v qv t :
  label_num v = Some qv ->
  mapM (fun x => match label_num x with Some q => Ok q | None => Err TypeError end) ls = Ok qs ->
  (exists m, locate_one_tol ls v (TolQ t) = Ok m /\ m < List.length qs /\
             (nth m (dists qs qv) 0 <= t)%Q /\
             (forall j, j < List.length qs -> (nth m (dists qs qv) 0 <= nth j (dists qs qv) 0)%Q) /\
             (forall j, j < m -> (nth m (dists qs qv) 0 < nth j (dists qs qv) 0)%Q))
  \/ (locate_one_tol ls v (TolQ t) = Err IndexError /\
      forall j, j < List.length qs -> (t < nth j (dists qs qv) 0)%Q).
Proof.
  intros Hv Hls. unfold locate_one_tol.
  destruct ls as [|l0 lt].
  { right. split; [reflexivity|]. simpl in Hls. injection Hls as <-. simpl. intros j Hj. lia. }
  cbv iota. rewrite Hv, Hls. fold (dists qs qv).
  destruct (dists qs qv) as [|d0 t0] eqn:Ed.
  - right. split; [reflexivity|]. destruct qs; [simpl; intros j Hj; lia | discriminate].
  - assert (Hlen : List.length (d0 :: t0) = List.length qs) by (rewrite <- Ed; unfold dists; apply map_length).
    destruct (argmin_first d0 t0) as [Hm [Hmin Hfirst]]. set (m := argmin_q t0 1 0 d0) in *.
    destruct (Qle_bool (nth m (d0 :: t0) 0%Q) t) eqn:E; cbn [negb].
    + left. exists m. split; [reflexivity|]. rewrite <- Hlen. split; [exact Hm|].
      split; [apply Qle_bool_iff; exact E|]. split; assumption.
    + right. split; [reflexivity|]. intros j Hj. rewrite <- Hlen in Hj.
      eapply Qlt_le_trans; [apply Qle_bool_false; exact E | apply Hmin; exact Hj].
Qed.

(* with tol='inf' (.nloc) the nearest label is always used *)
Theorem locate_one_tol_inf ls qs v qv :
  label_num v = Some qv ->
  mapM (fun x => match label_num x with Some q => Ok q | None => Err TypeError end) ls = Ok qs ->
  qs <> [] ->
  exists m, locate_one_tol ls v TolInf = Ok m /\ m < List.length qs /\
            (forall j, j < List.length qs -> (nth m (dists qs qv) 0 <= nth j (dists qs qv) 0)%Q).
Proof.
  intros Hv Hls Hne. unfold locate_one_tol.
  destruct ls as [|l0 lt].
  { simpl in Hls. injection Hls as <-. contradiction. }
  cbv iota. rewrite Hv, Hls. fold (dists qs qv).
  destruct (dists qs qv) as [|d0 t0] eqn:Ed.
  - destruct qs; [contradiction | discriminate].
  - assert (Hlen : List.length (d0 :: t0) = List.length qs) by (rewrite <- Ed; unfold dists; apply map_length).
    destruct (argmin_first d0 t0) as [Hm [Hmin _]]. exists (argmin_q t0 1 0 d0). split; [reflexivity|].
    rewrite <- Hlen. split; assumption.
Qed.
