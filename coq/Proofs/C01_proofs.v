(* C01: label indexing returns exactly the data stored at those labels. *)
From DA Require Import Prelude NDArray Array PyRT.
From DA.Model Require Import Value Reshape SliceSpec Indexing.
From DA.Proofs Require Import ListLemmas C10_proofs.
Open Scope nat_scope.

(* ------------------------------------------------------------------ single labels *)
Theorem locate_one_ok ls v i :
  locate_one ls v = Ok i ->
  i < List.length ls /\ label_eqb (nth i ls LNone) v = true /\
  forall j, j < i -> label_eqb (nth j ls LNone) v = false.
Proof.
  unfold locate_one. destruct (index_of _ ls) as [k|] eqn:E; [|discriminate].
  intros [= <-]. destruct (index_of_some _ _ _ E) as [H1 [H2 H3]].
  split; [exact H1|]. split; [apply H2|]. intros j Hj. apply H3. exact Hj.
Qed.

(* a label that is not on the axis raises IndexError - never another element *)
Theorem locate_one_err ls v e :
  locate_one ls v = Err e -> e = IndexError /\ forall x, In x ls -> label_eqb x v = false.
Proof.
  unfold locate_one. destruct (index_of _ ls) as [k|] eqn:E; [discriminate|].
  intros [= <-]. split; [reflexivity|]. intros x Hx. exact (index_of_none _ _ E x Hx).
Qed.

Theorem locate_one_present ls v :
  (exists x, In x ls /\ label_eqb x v = true) -> exists i, locate_one ls v = Ok i.
Proof.
  intros [x [Hx E]]. unfold locate_one. destruct (index_of _ ls) as [k|] eqn:Ei; [eauto|].
  rewrite (index_of_none _ _ Ei x Hx) in E. discriminate.
Qed.

(* ------------------------------------------------------------------ lists of labels *)
Lemma forallb_combine_nth {A B} (f : A * B -> bool) (l1 : list A) (l2 : list B) da db k :
  forallb f (combine l1 l2) = true -> k < List.length l1 -> k < List.length l2 ->
  f (nth k l1 da, nth k l2 db) = true.
Proof.
  revert l2 k; induction l1 as [|x l1 IH]; intros [|y l2] k H H1 H2; simpl in *; try lia.
  apply andb_true_iff in H. destruct H as [Hx Hr]. destruct k as [|k]; [exact Hx|].
  apply IH; [exact Hr | lia | lia].
Qed.

Lemma locate_many_raw_length side ls vs raw :
  locate_many_raw side ls vs = Ok raw -> List.length raw = List.length vs.
Proof.
  unfold locate_many_raw. destruct ls as [|l ls]; destruct vs as [|v vs]; intros H.
  - injection H as <-. reflexivity.
  - discriminate.
  - injection H as <-. reflexivity.
  - injection H as <-. cbn [map List.length]. f_equal. apply map_length.
Qed.

(* whatever argsort/searchsorted/clip produced, a successful lookup returns, for the k-th requested
   label, a position carrying exactly that label: the clip never silently returns a neighbour *)
Theorem locate_many_sound ls vs ms :
  locate_many ls vs = Ok ms ->
  List.length ms = List.length vs /\
  forall k, k < List.length vs -> label_eqb (nth (nth k ms 0) ls LNone) (nth k vs LNone) = true.
Proof.
  unfold locate_many. destruct (locate_many_raw false ls vs) as [raw|] eqn:Er; simpl; [|discriminate].
  destruct (forallb _ (combine raw vs)) eqn:Hg; [|discriminate]. intros [= <-].
  assert (Hlen : List.length raw = List.length vs) by (apply (locate_many_raw_length _ _ _ _ Er)).
  split; [exact Hlen|]. intros k Hk.
  apply (forallb_combine_nth _ raw vs 0 LNone k Hg); lia.
Qed.

Theorem locate_many_err ls vs e : locate_many ls vs = Err e -> e = IndexError.
Proof.
  unfold locate_many. destruct (locate_many_raw false ls vs) as [raw|] eqn:Er; simpl.
  - destruct (forallb _ _); [discriminate|]. intros [= <-]. reflexivity.
  - unfold locate_many_raw in Er. destruct ls, vs; try discriminate. injection Er as <-. intros [= <-]. reflexivity.
Qed.

(* ------------------------------------------------------------------ masks *)
Lemma mask_positions_spec bs i :
  In i (mask_positions bs) <-> (i < List.length bs /\ nth i bs false = true).
Proof.
  unfold mask_positions. rewrite in_map_iff. split.
  - intros [[j b] [Hj Hin]]. simpl in Hj. subst j. apply filter_In in Hin. destruct Hin as [Hin Hb].
    simpl in Hb. subst b.
    assert (G : forall s (l : list bool) j b, In (j, b) (combine (seq s (List.length l)) l) ->
                s <= j /\ j - s < List.length l /\ nth (j - s) l false = b).
    { intros s l; revert s; induction l as [|x l IH]; intros s j b Hin'; simpl in *; [contradiction|].
      destruct Hin' as [E|Hin'].
      - injection E as <- <-. replace (s - s) with 0 by lia. split; [lia|]. split; [lia|reflexivity].
      - destruct (IH (S s) j b Hin') as [H1 [H2 H3]]. split; [lia|]. split; [lia|].
        replace (j - s) with (S (j - S s)) by lia. exact H3. }
    destruct (G 0 bs i true Hin) as [_ [H2 H3]]. rewrite Nat.sub_0_r in *. auto.
  - intros [Hi Hb]. exists (i, true). split; [reflexivity|]. apply filter_In. split; [|reflexivity].
    assert (G : forall s (l : list bool) j, j < List.length l ->
                In (s + j, nth j l false) (combine (seq s (List.length l)) l)).
    { intros s l; revert s; induction l as [|x l IH]; intros s j Hj; simpl in *; [lia|].
      destruct j as [|j]; [left; f_equal; lia|]. right.
      replace (s + S j) with (S s + j) by lia. apply IH. lia. }
    specialize (G 0 bs i Hi). rewrite Hb in G. exact G.
Qed.

(* ------------------------------------------------------------------ orthogonal sampling *)
(* each dimension is sampled independently: the source position along dimension d depends only on
   that dimension's indexer *)
Definition kept (p : pidx) : bool := match p with XInt _ => false | _ => true end.

Lemma out_shape_getaxes axs ps s :
  map alen axs = s -> List.length ps = List.length axs ->
  map alen (getaxes axs ps) = out_shape ps s.
Proof.
  revert ps s; induction axs as [|ax axs IH]; intros [|p ps] s Hs Hl; simpl in *; try discriminate; subst s; auto.
  destruct p as [i|l|]; simpl.
  - apply IH; [reflexivity | lia].
  - f_equal; [unfold alen; simpl; apply map_length | apply IH; [reflexivity | lia]].
  - f_equal. apply IH; [reflexivity | lia].
Qed.

Lemma mapM_length {A B} (f : A -> res B) l r : mapM f l = Ok r -> List.length r = List.length l.
Proof.
  revert r; induction l as [|x l IH]; intros r; simpl; [intros [= <-]; reflexivity|].
  destruct (f x); simpl; [|discriminate]. destruct (mapM f l) as [ys|]; simpl; [|discriminate].
  intros [= <-]. simpl. f_equal. apply IH. reflexivity.
Qed.

Lemma get_indices_length a f tol kd ps :
  get_indices a f tol kd = Ok ps -> List.length ps = List.length (axes a).
Proof.
  unfold get_indices. destruct (expand_form a f) as [ixs|] eqn:E; simpl; [|discriminate].
  intros H. apply mapM_length in H. rewrite H, combine_length.
  assert (List.length ixs = List.length (axes a)).
  { unfold expand_form in E. destruct f as [l|l|r i].
    - destruct (List.length (axes a) <? List.length l) eqn:Hlt; [discriminate|]. injection E as <-.
      apply Nat.ltb_ge in Hlt. rewrite app_length, repeat_length. lia.
    - destruct (mapM _ l); simpl in E; [|discriminate]. injection E as <-. rewrite map_length, seq_length. reflexivity.
    - destruct (dict_key a r); simpl in E; [|discriminate]. injection E as <-. rewrite map_length, seq_length. reflexivity. }
  lia.
Qed.

(* main theorem: whatever the index form, the result is the orthogonal sample of the input at the
   positions the per-dimension indexers resolved to; scalar-indexed dimensions are dropped, the
   others keep their name and carry the labels of the selected positions in the requested order;
   metadata is kept *)
Theorem getitem_spec f tol kd a r :
  wf_shape a -> getitem f tol kd a = Ok (VArr r) ->
  exists ps, get_indices a f tol kd = Ok ps /\
    wf_shape r /\ attrs r = attrs a /\
    axes r = getaxes (axes a) ps /\
    forall c', inb (sh (vals r)) c' = true -> get (vals r) c' = get (vals a) (src_of ps c').
Proof.
  intros [Hsa Hda]. unfold getitem.
  destruct (get_indices a f tol kd) as [ps|] eqn:E; simpl; [|discriminate].
  destruct (all_int ps); [discriminate|]. intros [= <-]. exists ps. split; [reflexivity|].
  split; [|split; [reflexivity|split; [reflexivity|]]].
  - apply wf_shape_mk. apply out_shape_getaxes; [exact Hsa|]. apply (get_indices_length _ _ _ _ _ E).
  - intros c' Hc'. simpl. unfold np_outer. rewrite get_mk by exact Hc'. reflexivity.
Qed.

Theorem getitem_scalar f tol kd a c :
  getitem f tol kd a = Ok (VCell c) ->
  exists ps, get_indices a f tol kd = Ok ps /\ all_int ps = true /\ c = get (vals a) (src_of ps []).
Proof.
  unfold getitem. destruct (get_indices a f tol kd) as [ps|] eqn:E; simpl; [|discriminate].
  destruct (all_int ps) eqn:Hall; [|discriminate]. intros [= <-]. eauto.
Qed.

(* what each kind of label index resolves to (no tolerance) *)
Theorem axis_loc_scalar ax v p :
  axis_loc ax (IScalar v) TolNone false = Ok p ->
  exists i, p = XInt i /\ i < alen ax /\ label_eqb (nth i (alab ax) LNone) v = true.
Proof.
  unfold axis_loc. destruct (numeric_kind (akind ax)); simpl;
  destruct (locate_one (alab ax) v) as [i|] eqn:E; simpl; try discriminate;
  intros [= <-]; exists i; destruct (locate_one_ok _ _ _ E) as [H1 [H2 _]]; auto.
Qed.

Theorem axis_loc_scalar_absent ax v e :
  axis_loc ax (IScalar v) TolNone false = Err e ->
  e = IndexError /\ forall x, In x (alab ax) -> label_eqb x v = false.
Proof.
  unfold axis_loc. destruct (numeric_kind (akind ax)); simpl;
  destruct (locate_one (alab ax) v) as [i|] eqn:E; simpl; try discriminate;
  intros [= <-]; apply (locate_one_err _ _ _ E).
Qed.

Theorem axis_loc_list ax vs p :
  axis_loc ax (IList vs) TolNone false = Ok p ->
  exists ms, p = XPos ms /\ List.length ms = List.length vs /\
    forall k, k < List.length vs -> label_eqb (nth (nth k ms 0) (alab ax) LNone) (nth k vs LNone) = true.
Proof.
  unfold axis_loc. destruct (numeric_kind (akind ax)); simpl;
  destruct (locate_many (alab ax) vs) as [ms|] eqn:E; simpl; try discriminate;
  intros [= <-]; exists ms; destruct (locate_many_sound _ _ _ E); auto.
Qed.

Theorem axis_loc_list_err ax vs e :
  axis_loc ax (IList vs) TolNone false = Err e -> e = IndexError.
Proof.
  unfold axis_loc. destruct (numeric_kind (akind ax)); simpl;
  destruct (locate_many (alab ax) vs) as [ms|] eqn:E; simpl; try discriminate;
  intros [= <-]; apply (locate_many_err _ _ _ E).
Qed.

Theorem axis_loc_mask ax bs tol p :
  axis_loc ax (IMask bs) tol false = Ok p ->
  List.length bs = alen ax /\ p = XPos (mask_positions bs).
Proof.
  unfold axis_loc. destruct (List.length bs =? List.length (alab ax)) eqn:E; [|discriminate].
  intros [= <-]. apply Nat.eqb_eq in E. auto.
Qed.

Theorem axis_loc_full ax tol kd : axis_loc ax IFull tol kd = Ok XFull.
Proof. reflexivity. Qed.

(* the kept axes: same name, attrs; labels = labels at the selected positions, in order *)
Theorem getaxes_cons_pos ax axs l ps :
  getaxes (ax :: axs) (XPos l :: ps)
  = with_labels ax (akind ax) (map (fun j => nth j (alab ax) LNone) l) :: getaxes axs ps.
Proof. reflexivity. Qed.
Theorem getaxes_cons_int ax axs i ps : getaxes (ax :: axs) (XInt i :: ps) = getaxes axs ps.
Proof. reflexivity. Qed.
Theorem getaxes_cons_full ax axs ps : getaxes (ax :: axs) (XFull :: ps) = ax :: getaxes axs ps.
Proof. reflexivity. Qed.
