(* C02, decreasing axes: the bridge over the GENERATED locate_slice for a numeric axis stored in
   decreasing order (the code's "inverted axis" branch: size - searchsorted(values[::-1], ...)) and the
   bounding-box reading of the bounds it computes; unbounded in the axis, the bounds and the step > 0. *)
From DA Require Import Prelude NDArray Array PyRT.
From DA.Gen Require Import locate_slice.
From DA.Model Require Import SliceSpec.
From DA.Proofs Require Import ListLemmas C02_proofs.
From Coq Require Import Sorted.
Open Scope string_scope.

(* ------------------------------------------------------------------ counts do not depend on the stored order *)
Lemma filter_length_app {A} (f : A -> bool) l1 l2 :
  List.length (filter f (l1 ++ l2)) = (List.length (filter f l1) + List.length (filter f l2))%nat.
Proof. rewrite filter_app, app_length. reflexivity. Qed.
Lemma filter_length_rev {A} (f : A -> bool) l : List.length (filter f (rev l)) = List.length (filter f l).
Proof.
  induction l as [|x t IH]; [reflexivity|]. simpl rev. rewrite filter_length_app, IH. simpl.
  destruct (f x); simpl; lia.
Qed.
Lemma count_le_rev v xs : count_le v (rev xs) = count_le v xs.
Proof. apply filter_length_rev. Qed.
Lemma count_lt_rev v xs : count_lt v (rev xs) = count_lt v xs.
Proof. apply filter_length_rev. Qed.

(* ------------------------------------------------------------------ a decreasing list is the reverse of an increasing one *)
Definition Qgt' (a b : Q) : Prop := (b < a)%Q.
Lemma sorted_snoc xs x : StronglySorted Qlt xs -> Forall (fun y => (y < x)%Q) xs -> StronglySorted Qlt (xs ++ [x]).
Proof.
  induction 1 as [|y t Ht IH Hy]; intros Hall; simpl; [repeat constructor|].
  inversion Hall as [|? ? Hyx Hall']; subst. constructor; [apply IH; exact Hall'|].
  apply Forall_app. split; [exact Hy | constructor; [exact Hyx | constructor]].
Qed.
Lemma sorted_rev xs : StronglySorted Qgt' xs -> StronglySorted Qlt (rev xs).
Proof.
  induction 1 as [|x t Ht IH Hx]; [constructor|]. simpl. apply sorted_snoc; [exact IH|].
  apply Forall_rev. exact Hx.
Qed.

(* the bounding box on a strictly decreasing axis: positions in [n - count_le lo, n - count_lt hi) are exactly
   those whose label lies between hi and lo (bounds given in the direction of travel: lo is the LARGER one),
   both included, neither required to be a label *)
Theorem bbox_decreasing xs lo hi i :
  StronglySorted Qgt' xs -> (i < List.length xs)%nat ->
  ((List.length xs - count_le lo xs <= i < List.length xs - count_lt hi xs)%nat
   <-> (hi <= nth i xs 0 /\ nth i xs 0 <= lo)%Q).
Proof.
  intros Hs Hi. set (n := List.length xs) in *.
  assert (Hr : StronglySorted Qlt (rev xs)) by (apply sorted_rev; exact Hs).
  assert (Hj : (n - S i < List.length (rev xs))%nat) by (rewrite rev_length; fold n; lia).
  assert (Hnth : nth (n - S i) (rev xs) 0%Q = nth i xs 0%Q).
  { rewrite rev_nth by (fold n; lia). fold n. f_equal. lia. }
  pose proof (sorted_count_le lo (rev xs) (n - S i) Hr Hj) as H1.
  pose proof (sorted_count_lt hi (rev xs) (n - S i) Hr Hj) as H2.
  rewrite Hnth, count_le_rev in H1. rewrite Hnth, count_lt_rev in H2.
  pose proof (count_le_le_length lo xs) as L1. pose proof (count_lt_le_length hi xs) as L2. fold n in L1, L2.
  split.
  - intros [Ha Hb]. split.
    + apply Qnot_lt_le. intros Hlt. apply H2 in Hlt. lia.
    + apply H1. lia.
  - intros [Ha Hb]. split.
    + apply H1 in Hb. lia.
    + destruct (le_lt_dec (n - count_lt hi xs) i) as [H|H]; [|exact H].
      exfalso. assert (Hc : (n - S i < count_lt hi xs)%nat) by lia. apply H2 in Hc.
      apply (Qlt_not_le _ _ Hc). exact Ha.
Qed.

(* ------------------------------------------------------------------ values[::-1] *)
Lemma range_fuel_down fuel m :
  (m <= fuel)%nat -> range_fuel fuel (Z.of_nat m - 1) (-1) (-1) = map Z.of_nat (rev (seq 0 m)).
Proof.
  revert m; induction fuel as [|f IH]; intros m Hm.
  - assert (m = 0)%nat by lia. subst. reflexivity.
  - destruct m as [|m].
    + simpl. reflexivity.
    + cbn [range_fuel]. cbn [Z.ltb Z.compare].
      replace (-1 <? Z.of_nat (S m) - 1)%Z with true by (symmetry; apply Z.ltb_lt; lia).
      rewrite seq_S, rev_app_distr. simpl rev. simpl app. cbn [map]. f_equal; [lia|].
      replace (Z.of_nat (S m) - 1 + -1)%Z with (Z.of_nat m - 1)%Z by lia. apply IH. lia.
Qed.
Lemma slice_positions_reverse n : slice_positions None None (Some (-1)%Z) n = Ok (rev (seq 0 n)).
Proof.
  unfold slice_positions, py_slice_indices. cbn [Z.eqb Z.ltb Z.compare bind]. f_equal. unfold py_range.
  rewrite range_fuel_down by lia. rewrite map_map. rewrite <- (map_id (rev (seq 0 n))) at 2.
  apply map_ext. intros i. apply Nat2Z.id.
Qed.
Lemma map_nth_seq {A} (l : list A) d : map (fun p => nth p l d) (seq 0 (List.length l)) = l.
Proof.
  induction l as [|x t IH]; [reflexivity|]. simpl. f_equal. rewrite <- seq_shift, map_map. exact IH.
Qed.
Lemma getslice_reverse k xs : py_getslice (arrQ k xs) None None (Some (-1)%Z) = Ok (arrQ k (rev xs)).
Proof.
  unfold arrQ, py_getslice. rewrite slice_positions_reverse. cbn [bind]. f_equal. f_equal.
  rewrite map_rev, map_nth_seq, map_rev. reflexivity.
Qed.

Lemma sub_int a b : py_arith ASub (PInt a) (PInt b) = Ok (PInt (a - b)).
Proof. reflexivity. Qed.

(* ------------------------------------------------------------------ the bridge *)
Lemma bridge_dec k xs lo hi step :
  (k = KI \/ k = KF) ->
  g_is_monotonic_equal (arrQ k xs) = Ok (PBool true) ->
  axis_increasing xs = false ->
  (step = None \/ exists s, step = Some s /\ (0 < s)%Z) ->
  slice_bounds (arrQ k xs) (optQ lo) (optQ hi) step
  = Ok (option_map (fun q => Z.of_nat (List.length xs) - Z.of_nat (count_le q xs))%Z lo,
        option_map (fun q => Z.of_nat (List.length xs) - Z.of_nat (count_lt q xs))%Z hi).
Proof.
  intros Hk Hm Hinc Hstep.
  unfold slice_bounds, g_locate_slice.
  assert (Hkk : g_is_numeric (arrQ k xs) = Ok (PBool true)) by (destruct Hk; subst; reflexivity).
  cbn beta iota delta [bind]. rewrite Hkk. cbn beta iota delta [bind py_not truthy negb].
  rewrite Hm. cbn beta iota delta [bind py_not truthy negb].
  rewrite size_arrQ.
  assert (Hs : forall s, (0 < s)%Z -> py_cmp CGt (optZ (Some s)) (PInt 0) = Ok (PBool true)) by (intros; apply step_gt; assumption).
  assert (Hs' : forall s, (0 < s)%Z -> py_cmp CLt (optZ (Some s)) (PInt 0) = Ok (PBool false)) by (intros; apply step_lt; assumption).
  destruct xs as [|x t]; [discriminate|].
  set (n := List.length (x :: t)) in *.
  assert (Hn : n = S (List.length t)) by reflexivity.
  unfold axis_increasing in Hinc. rewrite last_cons in Hinc.
  assert (Hge : py_cmp CGe (PNum (last t x)) (PNum x) = Ok (PBool false)).
  { cbn. rewrite Hinc. reflexivity. }
  rewrite Hn at 1.
  repeat first [ progress cbn beta iota delta [bind truthy py_not negb]
               | rewrite size_cmp0 | rewrite getitem_last_Q | rewrite getitem_first_Q | rewrite Hge ].
  destruct lo as [l|], hi as [h|], Hstep as [->|[s [-> Hpos]]];
  try rewrite (Hs s Hpos); try rewrite (Hs' s Hpos);
  repeat first [ progress cbn beta iota delta [bind truthy py_not negb optQ optZ py_is_none option_map]
               | rewrite size_arrQ | rewrite getslice_reverse | rewrite searchsorted_left | rewrite searchsorted_right
               | rewrite sub_int | rewrite count_le_rev | rewrite count_lt_rev | rewrite (Hs' s Hpos) ];
  try reflexivity.
Qed.

(* the complete statement for a decreasing axis, closed bounds, unit step: the selected positions are, in axis
   order, exactly those whose label lies in [hi, lo] (a[lo:hi] is written in the direction of travel) *)
Theorem bbox_slice_decreasing k xs lo hi :
  (k = KI \/ k = KF) ->
  g_is_monotonic_equal (arrQ k xs) = Ok (PBool true) ->
  axis_increasing xs = false ->
  StronglySorted Qgt' xs ->
  exists a b,
    run_slice (arrQ k xs) (PNum lo) (PNum hi) None (List.length xs) = Ok (seq a (b - a)) /\
    forall i, In i (seq a (b - a)) <->
              (i < List.length xs)%nat /\ (hi <= nth i xs 0 /\ nth i xs 0 <= lo)%Q.
Proof.
  intros Hk Hm Hinc Hs. set (n := List.length xs).
  pose proof (count_le_le_length lo xs) as L1. pose proof (count_lt_le_length hi xs) as L2. fold n in L1, L2.
  exists (n - count_le lo xs)%nat, (n - count_lt hi xs)%nat. split.
  - unfold run_slice. change (PNum lo) with (optQ (Some lo)). change (PNum hi) with (optQ (Some hi)).
    rewrite (bridge_dec k xs (Some lo) (Some hi) None Hk Hm Hinc (or_introl eq_refl)).
    cbn [bind option_map]. fold n.
    replace (Z.of_nat n - Z.of_nat (count_le lo xs))%Z with (Z.of_nat (n - count_le lo xs)) by lia.
    replace (Z.of_nat n - Z.of_nat (count_lt hi xs))%Z with (Z.of_nat (n - count_lt hi xs)) by lia.
    apply slice_positions_unit; lia.
  - intros i. rewrite in_seq. split.
    + intros Hi. assert (Hin : (i < n)%nat) by lia. split; [exact Hin|].
      apply (bbox_decreasing xs lo hi i Hs Hin). fold n. lia.
    + intros [Hin Hbox]. apply (bbox_decreasing xs lo hi i Hs Hin) in Hbox. fold n in Hbox. lia.
Qed.
