(* C06: "inputs that are all sorted in the same direction give a result sorted in that direction, and sort=True
   gives ascending labels" *)
From DA Require Import Prelude NDArray Array PyRT.
From DA.Model Require Import Value Reshape SliceSpec Indexing Align.
From DA.Proofs Require Import ListLemmas C17_proofs C01_complete C06_proofs C05_proofs.
Open Scope nat_scope.

Lemma alab_ax_cast ax k : alab (ax_cast ax k) = alab ax.
Proof. unfold ax_cast. destruct (kind_eqb (akind ax) k); reflexivity. Qed.
Lemma alen_ax_cast ax k : alen (ax_cast ax k) = alen ax.
Proof. unfold alen. rewrite alab_ax_cast. reflexivity. Qed.

(* the sorted-merge branch of Axis.union: two different, non-empty, monotonic axes of consistent kinds sloping the
   same way - an axis of ONE label has no direction and follows the other - give the sorted union, strictly
   increasing when they increase and strictly decreasing when they decrease *)
Theorem axis_union_direction a b :
  snd (merge_kind (akind a) (akind b)) = true ->
  labels_eqb (alab a) (alab b) = false -> alen a <> 0 -> alen b <> 0 ->
  is_monotonic_labels (alab a) = true -> is_monotonic_labels (alab b) = true ->
  same_slope (alab a) (alab b) = true ->
  let r := alab (axis_union a b) in
  let down := slopes_down (alab a) (alab b) in
  (down = false -> r = union1d (alab a) (alab b) /\ strictly label_ltb r = true) /\
  (down = true -> r = rev (union1d (alab a) (alab b)) /\ strictly (fun x y => label_ltb y x) r = true).
Proof.
  intros Hc Hne Ha Hb Hma Hmb Hs. unfold axis_union.
  destruct (merge_kind (akind a) (akind b)) as [k cons] eqn:Ek. simpl in Hc. subst cons.
  rewrite !alab_ax_cast, !alen_ax_cast, Hne.
  destruct (Nat.eqb_spec (alen a) 0) as [E|_]; [contradiction|].
  destruct (Nat.eqb_spec (alen b) 0) as [E|_]; [contradiction|].
  rewrite Hma, Hmb, Hs. cbn [andb].
  cbv zeta. split; intros Hd; rewrite Hd; cbn [alab ax_new]; (split; [reflexivity|]).
  - apply union1d_sorted.
  - apply strictly_rev. apply union1d_sorted.
Qed.
(* what "the same way" and "decreasing" mean: a single label has no direction *)
Lemma slope_single x : slope [x] = None.
Proof. reflexivity. Qed.
Lemma same_slope_single x b : same_slope [x] b = true.
Proof. unfold same_slope. simpl. reflexivity. Qed.
Lemma slopes_down_single x b : slopes_down [x] b = match slope b with Some u => negb u | None => false end.
Proof. reflexivity. Qed.

(* sort=True: the labels of the sorted axis are in ascending order, and are a rearrangement of the axis' labels *)
Theorem axis_sorted_ascending ax :
  asc (alab (axis_sorted ax)) /\ Permutation.Permutation (argsort (alab ax)) (seq 0 (alen ax)).
Proof.
  split.
  - unfold axis_sorted, sort_labels. cbn [alab]. apply (sorted_by_asc (alab ax) (argsort (alab ax))). apply argsort_sorted.
  - apply argsort_perm.
Qed.
