(* C11: flatten of ANY subset of dimensions in ANY order, at any insert position, followed by unflatten gives back the array
   itself when the group was contiguous and in order, and otherwise the transposed array flatten works on (C10 says where each
   element of a transposed array comes from: every element keeps its label coordinates). *)
From Coq Require Import Qround Qabs.
From DA Require Import Prelude NDArray Array PyRT.
From DA.Model Require Import Value Reshape SliceSpec Indexing Align Transform Flatten.
From DA.Proofs Require Import ListLemmas C10_proofs C09_proofs C11_proofs C05_proofs C05_join C05_flatten.
Open Scope string_scope.
Open Scope nat_scope.
Open Scope list_scope.

Definition plain (a : darr) : Prop := Forall (fun ax => amem ax = []) (axes a).

Lemma transpose_pos_of rs a r : transpose rs a = Ok r -> exists p, transpose_pos p a = Ok r.
Proof.
  unfold transpose. destruct rs as [|r0 rs']; [intros H; eexists; exact H|].
  destruct (mapM (axis_info a) (r0 :: rs')) as [p|]; simpl; [|discriminate]. intros H. exists p. exact H.
Qed.

Lemma transpose_plain rs a r : wf_shape a -> plain a -> transpose rs a = Ok r -> plain r /\ List.length (axes r) = List.length (axes a).
Proof.
  intros Hw Hp H. destruct (transpose_pos_of _ _ _ H) as [p Hp'].
  destruct (transpose_pos_spec p a r Hw Hp') as [_ [Hlen [_ [Hax _]]]]. split.
  - unfold plain. rewrite Hax. apply Forall_forall. intros x Hx. apply in_map_iff in Hx. destruct Hx as [j [<- _]].
    destruct (Nat.lt_ge_cases j (List.length (axes a))) as [Hlt|Hge].
    + unfold plain in Hp. rewrite Forall_forall in Hp. apply Hp. apply nth_In. exact Hlt.
    + rewrite nth_overflow by exact Hge. reflexivity.
  - rewrite Hax, map_length. exact Hlen.
Qed.

Theorem unflatten_flatten rs as_set insert a r :
  WF a -> plain a -> flatten rs as_set insert a = Ok r ->
  exists b, (b = a \/ exists newdims, transpose (map ByName newdims) a = Ok b) /\ unflatten r = Ok b.
Proof.
  intros Hw Hp H. unfold flatten in H. cbv zeta in H.
  destruct (mapM (axis_info a) rs) as [idxs|]; simpl in H; [|discriminate].
  match type of H with match ?n with [] => _ | _ => _ end = _ => destruct n as [|d0 names'] eqn:En end; [discriminate|].
  set (names := d0 :: names') in *.
  destruct (find_dim (dims a) d0); simpl in H; [|discriminate].
  match type of H with (let! _ := ?x in _) = _ => destruct x as [ins0|]; simpl in H; [|discriminate] end.
  set (L := List.length (dims a)) in *. set (nn := List.length names) in *.
  match type of H with (if ?c then _ else _) = _ => destruct c eqn:Eneg end; [discriminate|].
  apply Z.ltb_ge in Eneg.
  assert (Hz : Z.pos (Pos.of_succ_nat (List.length names')) = Z.of_nat nn) by (unfold nn, names; simpl List.length; lia).
  assert (Hins : Z.to_nat (Z.min ins0 (Z.of_nat L - Z.pos (Pos.of_succ_nat (List.length names')))) + nn <= L) by lia.
  assert (HL : L = List.length (axes a)) by (unfold L, dims; apply map_length).
  assert (Hne : names <> []) by discriminate.
  destruct Hw as [Hws [Hnd Hne']].
  match type of H with (if ?c then _ else _) = _ => destruct c end.
  - exists a. split; [left; reflexivity|].
    eapply (unflatten_group_at names); [exact Hws | exact Hnd | exact Hp | | exact Hne | exact H]. rewrite <- HL. exact Hins.
  - match type of H with (let! _ := ?x in _) = _ => destruct x as [b|] eqn:Et; simpl in H; [|discriminate] end.
    exists b. split; [right; eexists; exact Et|].
    destruct (transpose_plain _ _ _ Hws Hp Et) as [Hpb Hlb].
    assert (Hwb : WF b) by (eapply transpose_wf; [split; [exact Hws | split; assumption] | exact Et]).
    destruct Hwb as [Hwsb [Hndb _]].
    eapply (unflatten_group_at names); [exact Hwsb | exact Hndb | exact Hpb | | exact Hne | exact H]. rewrite Hlb, <- HL. exact Hins.
Qed.
