(* C05, grouping dimensions: flatten (and through it the reductions and percentiles over a tuple of axes)
   returns an array whose dimension names are distinct and non-empty, whose axes have the lengths of the value
   array's shape and whose cell count is the product of that shape. *)
From Coq Require Import Qround Qabs Permutation.
From DA Require Import Prelude NDArray Array PyRT.
From DA.Model Require Import Value Reshape SliceSpec Indexing Align Transform Flatten Ops.
From DA.Proofs Require Import ListLemmas C10_proofs C09_proofs C11_proofs C05_proofs C05_join.
Open Scope string_scope.
Open Scope nat_scope.
Open Scope list_scope.

(* ------------------------------------------------------------------ the grouped axis has the product length *)
Lemma product_labels_length mems : List.length (product_labels mems) = prod (map (@List.length atom) mems).
Proof. rewrite product_labels_coords, map_length. apply coords_length. Qed.

Lemma mapM_atoms_lengths (mems : list axis) atoms :
  mapM (fun m => mapM label_atom (alab m)) mems = Ok atoms -> map (@List.length atom) atoms = map alen mems.
Proof.
  revert atoms; induction mems as [|m t IH]; intros atoms H; simpl in H; [injection H as <-; reflexivity|].
  destruct (mapM label_atom (alab m)) as [x|] eqn:E; simpl in H; [|discriminate].
  destruct (mapM _ t) as [r'|]; simpl in H; [|discriminate]. injection H as <-. simpl. f_equal; [|apply IH; reflexivity].
  apply (mapM_length _ _ _ E).
Qed.

Lemma multi_axis_alen mems g : multi_axis mems = Ok g -> alen g = prod (map alen mems).
Proof.
  intros H. destruct mems as [|m [|m2 t]].
  - discriminate.
  - injection H as <-. unfold alen; simpl. lia.
  - destruct (multi_axis_labels (m :: m2 :: t) g) as [atoms [Ha [_ [Hl _]]]]; [simpl; lia | exact H |].
    unfold alen at 1. rewrite Hl, map_length, product_labels_length. f_equal. apply mapM_atoms_lengths. exact Ha.
Qed.

Lemma join_names_nonempty x y t : join_names (x :: y :: t) <> "".
Proof. cbn [join_names]. destruct x; simpl; discriminate. Qed.

Lemma multi_axis_name mems g : multi_axis mems = Ok g -> ~ In "" (map aname mems) -> aname g <> "".
Proof.
  intros H Hn. destruct mems as [|m [|m2 t]].
  - discriminate.
  - injection H as <-. simpl. intros E. apply Hn. left. exact E.
  - destruct (multi_axis_labels (m :: m2 :: t) g) as [atoms [_ [Hnm _]]]; [simpl; lia | exact H |].
    rewrite Hnm. apply join_names_nonempty.
Qed.

(* ------------------------------------------------------------------ splitting a list around a window *)
Lemma window_split {A} ins k (l : list A) : l = firstn ins l ++ firstn k (skipn ins l) ++ skipn (ins + k) l.
Proof. rewrite <- skipn_skipn_, firstn_skipn, firstn_skipn. reflexivity. Qed.

Lemma NoDup_drop_mid {A} (p m s : list A) : NoDup (p ++ m ++ s) -> NoDup (p ++ s).
Proof.
  induction m as [|x m IH]; [exact (fun H => H)|]. intros H. apply IH.
  change (p ++ (x :: m) ++ s) with (p ++ x :: (m ++ s)) in H. eapply NoDup_remove_1. exact H.
Qed.

Lemma NoDup_put_mid {A} (p s : list A) x : NoDup (p ++ s) -> ~ In x (p ++ s) -> NoDup (p ++ [x] ++ s).
Proof.
  intros H Hx. apply (Permutation_NoDup (l := x :: p ++ s)); [apply Permutation_middle | constructor; assumption].
Qed.

(* ------------------------------------------------------------------ group_at *)
Theorem group_at_wf names ins a r : WF a -> group_at names ins a = Ok r -> WF r.
Proof.
  intros [[Hs Hd] [Hnd Hne]] H.
  assert (Hchk : exists g, multi_axis (firstn (List.length names) (skipn ins (axes a))) = Ok g /\
                 mem_str (aname g) (map aname (firstn ins (axes a) ++ skipn (ins + List.length names) (axes a))) = false).
  { unfold group_at in H. cbv zeta in H. destruct (multi_axis _) as [g|]; simpl in H; [|discriminate].
    exists g. split; [reflexivity|]. destruct (mem_str _ _); [discriminate | reflexivity]. }
  destruct Hchk as [g [Hg Hfresh]].
  destruct (group_at_spec _ _ _ _ H) as [g' [Hg' [Hax [_ [Hdat Hsh]]]]]. cbv zeta in Hg'.
  rewrite Hg in Hg'. injection Hg' as <-.
  set (k := List.length names) in *. set (p := firstn ins (axes a)) in *. set (s := skipn (ins + k) (axes a)) in *.
  set (m := firstn k (skipn ins (axes a))) in *.
  assert (Hsplit : axes a = p ++ m ++ s) by apply window_split.
  apply mem_str_false in Hfresh.
  split; [split|split].
  - rewrite Hax, Hsh. reflexivity.
  - rewrite Hdat, Hd, Hsh, <- Hs, Hsplit. rewrite !map_app, !prod_app. simpl.
    rewrite (multi_axis_alen _ _ Hg). lia.
  - unfold dims. rewrite Hax, !map_app. simpl map. apply NoDup_put_mid.
    + unfold dims in Hnd. rewrite Hsplit, !map_app in Hnd. apply NoDup_drop_mid in Hnd. exact Hnd.
    + rewrite <- map_app. exact Hfresh.
  - unfold dims. rewrite Hax, !map_app. simpl map. intros Hin.
    apply in_app_or in Hin. destruct Hin as [Hin|[Hin|Hin]].
    + apply Hne. unfold dims. rewrite Hsplit, !map_app. apply in_or_app. left. exact Hin.
    + revert Hin. apply (multi_axis_name _ _ Hg).
      intros Hin. clear Hfresh. apply Hne. unfold dims. rewrite Hsplit, !map_app. apply in_or_app. right. apply in_or_app. left. exact Hin.
    + apply Hne. unfold dims. rewrite Hsplit, !map_app. apply in_or_app. right. apply in_or_app. right. exact Hin.
Qed.

(* ------------------------------------------------------------------ flatten, reductions over several axes *)
Theorem flatten_wf rs as_set insert a r : WF a -> flatten rs as_set insert a = Ok r -> WF r.
Proof.
  intros Hw H. unfold flatten in H. cbv zeta in H.
  destruct (mapM (axis_info a) rs) as [idxs|]; simpl in H; [|discriminate].
  match type of H with match ?n with [] => _ | _ => _ end = _ => destruct n as [|d0 names'] eqn:En end; [discriminate|].
  destruct (find_dim (dims a) d0); simpl in H; [|discriminate].
  match type of H with (let! _ := ?x in _) = _ => destruct x as [ins0|]; simpl in H; [|discriminate] end.
  match type of H with (if ?c then _ else _) = _ => destruct c; [discriminate|] end.
  match type of H with (if ?c then _ else _) = _ => destruct c end.
  - eapply group_at_wf; eassumption.
  - match type of H with (let! _ := ?x in _) = _ => destruct x as [b|] eqn:Et; simpl in H; [|discriminate] end.
    eapply group_at_wf; [eapply transpose_wf; eassumption | exact H].
Qed.

Theorem reduce_any_wf f sk ax a v : WF a -> reduce_any f sk ax a = Ok v -> WFv v.
Proof.
  intros Hw H. destruct ax as [|r1|rs]; [eapply (reduce_wf f sk AxNone); eassumption | eapply (reduce_wf f sk (AxOne r1)); eassumption |].
  simpl in H. destruct (flatten _ _ _ a) as [b|] eqn:E; simpl in H; [|discriminate].
  eapply reduce_axis_wf; [eapply flatten_wf; eassumption | exact H].
Qed.

(* ------------------------------------------------------------------ percentiles *)
Lemma wf_attrs_irrelevant x m : WF x -> WF (mkarr (axes x) (vals x) m).
Proof. intros [[Hs Hd] Hn]. split; [split|]; assumption. Qed.

Lemma suffix_nonempty (n : string) : (n ++ "_percentile")%string <> "".
Proof. destruct n; simpl; discriminate. Qed.

Theorem percentile_wf ins qs scalar kk ax a v :
  WF a -> apply_op ins (OPercentile qs scalar kk ax) a = Ok v -> WFv v.
Proof.
  intros Hw H. simpl in H. destruct scalar.
  - destruct qs as [|q [|q2 t]]; try discriminate. eapply reduce_any_wf; eassumption.
  - match type of H with (let! _ := ?x in _) = _ => destruct x as [name|]; simpl in H; [|discriminate] end.
    match type of H with (let! _ := ?x in _) = _ => destruct x as [rs|] eqn:Er; simpl in H; [|discriminate] end.
    destruct (stack rs _ kk _ false false) as [st|] eqn:Es; simpl in H; [|discriminate].
    injection H as <-. simpl. apply wf_attrs_irrelevant.
    eapply stack_wf; [| |exact Es].
    + eapply (mapM_Forall _ (fun _ => True) WF); [| |exact Er].
      * intros q y _ Hq. cbv beta in Hq. destruct (reduce_any (RPct q) false ax a) as [w|] eqn:Ew; simpl in Hq; [|discriminate].
        pose proof (reduce_any_wf _ _ _ _ _ Hw Ew) as Hwv.
        destruct w; simpl in Hq; try discriminate; injection Hq as <-.
        -- apply wf_attrs_irrelevant. exact Hwv.
        -- apply wf_mk; [reflexivity | split; [constructor | intros []]].
      * clear. induction qs; constructor; [exact I | assumption].
    + intros [= E]. exact (suffix_nonempty _ E).
Qed.

(* ------------------------------------------------------------------ unflatten *)
(* a grouped axis is consistent when its length is the product of its members' lengths and its members are named *)
Definition group_ok (ax : axis) : Prop :=
  amem ax = [] \/ (alen ax = prod (map (fun m => List.length (mlab m)) (amem ax)) /\ ~ In "" (map mname (amem ax))).
Definition groups_ok (a : darr) : Prop := Forall group_ok (axes a).

Lemma unflatten_axes_prod axs : Forall group_ok axs -> prod (map alen (unflatten_axes axs)) = prod (map alen axs).
Proof.
  induction 1 as [|ax t Hg _ IH]; [reflexivity|]. cbn [unflatten_axes].
  destruct (amem ax) as [|m ms] eqn:Em.
  - simpl. rewrite IH. reflexivity.
  - unfold group_ok in Hg. rewrite Em in Hg. destruct Hg as [Hg|[Hl _]]; [discriminate|]. rewrite map_app, prod_app, IH.
    change (map alen (ax :: t)) with (alen ax :: map alen t). change (prod (alen ax :: map alen t)) with (alen ax * prod (map alen t)).
    rewrite Hl. f_equal. rewrite map_map. reflexivity.
Qed.

Lemma unflatten_axes_names axs :
  Forall group_ok axs -> ~ In "" (map aname axs) -> ~ In "" (map aname (unflatten_axes axs)).
Proof.
  induction 1 as [|ax t Hg _ IH]; intros Hn; [exact Hn|]. cbn [unflatten_axes].
  assert (Ht : ~ In "" (map aname t)) by (intros H; apply Hn; right; exact H).
  destruct (amem ax) as [|m ms] eqn:Em.
  - cbn [map]. intros [E|H]; [apply Hn; left; exact E | exact (IH Ht H)].
  - unfold group_ok in Hg. rewrite Em in Hg. destruct Hg as [Hg|[_ Hm]]; [discriminate|]. rewrite map_app. intros H. apply in_app_or in H. destruct H as [H|H].
    + apply Hm. rewrite map_map in H. exact H.
    + exact (IH Ht H).
Qed.

Theorem unflatten_wf a r : WF a -> groups_ok a -> unflatten a = Ok r -> WF r.
Proof.
  intros [[Hs Hd] [Hnd Hne]] Hg H. unfold unflatten in H.
  destruct (nodupb String.eqb (map aname (unflatten_axes (axes a)))) eqn:En; [|discriminate].
  cbn [negb] in H. injection H as <-. split; [split|split]; simpl.
  - reflexivity.
  - rewrite Hd, <- Hs. symmetry. apply unflatten_axes_prod. exact Hg.
  - apply nodupb_str_NoDup. exact En.
  - apply unflatten_axes_names; assumption.
Qed.

(* the axis flatten builds is consistent, so flatten then unflatten stays inside the well-formed arrays *)
Lemma multi_axis_group_ok mems g : multi_axis mems = Ok g -> ~ In "" (map aname mems) -> group_ok g.
Proof.
  intros H Hn. right. destruct mems as [|m [|m2 t]].
  - discriminate.
  - injection H as <-. unfold alen. simpl. split; [lia | exact Hn].
  - destruct (multi_axis_labels (m :: m2 :: t) g) as [atoms [Ha [_ [Hl Hm]]]]; [simpl; lia | exact H |].
    rewrite Hm. split.
    + unfold alen at 1. rewrite Hl, map_length, product_labels_length, (mapM_atoms_lengths _ _ Ha), !map_map. reflexivity.
    + rewrite map_map. exact Hn.
Qed.

Theorem group_at_groups_ok names ins a r : WF a -> groups_ok a -> group_at names ins a = Ok r -> groups_ok r.
Proof.
  intros [_ [_ Hne]] Hg H. destruct (group_at_spec _ _ _ _ H) as [g [Hm [Hax _]]]. cbv zeta in Hm.
  unfold groups_ok. rewrite Hax. unfold groups_ok in Hg.
  apply Forall_app. split; [|apply Forall_app; split].
  - apply Forall_forall. intros x Hx. rewrite Forall_forall in Hg. apply Hg. apply (in_firstn_ _ _ _ Hx).
  - constructor; [|constructor]. apply (multi_axis_group_ok _ _ Hm).
    intros Hin. apply Hne. unfold dims. apply in_map_iff in Hin. destruct Hin as [x [E Hx]].
    apply in_map_iff. exists x. split; [exact E|]. apply (in_skipn_ ins). apply (in_firstn_ _ _ _ Hx).
  - apply Forall_forall. intros x Hx. rewrite Forall_forall in Hg. apply Hg. apply (in_skipn_ _ _ _ Hx).
Qed.

(* the boolean form, used as the side condition of OUnflatten in the covered operation language *)
Definition group_okb (ax : axis) : bool :=
  match amem ax with
  | [] => true
  | ms => (alen ax =? prod (map (fun m => List.length (mlab m)) ms)) && negb (existsb (String.eqb "") (map mname ms))
  end.
Definition groups_okb (a : darr) : bool := forallb group_okb (axes a).
Lemma groups_okb_ok a : groups_okb a = true -> groups_ok a.
Proof.
  unfold groups_okb, groups_ok. rewrite forallb_forall, Forall_forall. intros H x Hx. specialize (H x Hx).
  unfold group_okb in H. unfold group_ok. destruct (amem x) as [|m ms]; [left; reflexivity|]. right.
  apply andb_true_iff in H. destruct H as [H1 H2]. apply Nat.eqb_eq in H1. split; [exact H1|].
  apply negb_true_iff in H2. intros Hin. apply existsb_str_In in Hin. rewrite Hin in H2. discriminate.
Qed.

(* flatten keeps the consistency of the grouped axes already there (a transpose only reorders the axes) *)
Lemma transpose_groups_ok rs a r : wf_shape a -> groups_ok a -> transpose rs a = Ok r -> groups_ok r.
Proof.
  intros Hw Hg H.
  assert (Hp : exists p, transpose_pos p a = Ok r).
  { unfold transpose in H. destruct rs; [eexists; exact H|].
    destruct (mapM (axis_info a) (a0 :: rs)) as [p|]; simpl in H; [|discriminate]. exists p. exact H. }
  destruct Hp as [p Hp]. destruct (transpose_pos_spec p a r Hw Hp) as [Hperm [Hlen [_ [Hax _]]]].
  unfold groups_ok in *. rewrite Hax. apply Forall_forall. intros x Hx. apply in_map_iff in Hx.
  destruct Hx as [j [<- Hj]]. rewrite Forall_forall in Hg.
  destruct (Nat.lt_ge_cases j (List.length (axes a))) as [Hlt|Hge].
  - apply Hg. apply nth_In. exact Hlt.
  - rewrite nth_overflow by exact Hge. left. reflexivity.
Qed.

Theorem flatten_groups_ok rs as_set insert a r : WF a -> groups_ok a -> flatten rs as_set insert a = Ok r -> groups_ok r.
Proof.
  intros Hw Hg H. unfold flatten in H. cbv zeta in H.
  destruct (mapM (axis_info a) rs) as [idxs|]; simpl in H; [|discriminate].
  match type of H with match ?n with [] => _ | _ => _ end = _ => destruct n as [|d0 names'] eqn:En end; [discriminate|].
  destruct (find_dim (dims a) d0); simpl in H; [|discriminate].
  match type of H with (let! _ := ?x in _) = _ => destruct x as [ins0|]; simpl in H; [|discriminate] end.
  match type of H with (if ?c then _ else _) = _ => destruct c; [discriminate|] end.
  match type of H with (if ?c then _ else _) = _ => destruct c end.
  - eapply group_at_groups_ok; eassumption.
  - match type of H with (let! _ := ?x in _) = _ => destruct x as [b|] eqn:Et; simpl in H; [|discriminate] end.
    eapply group_at_groups_ok; [eapply transpose_wf; eassumption | eapply transpose_groups_ok; [exact (proj1 Hw) | exact Hg | exact Et] | exact H].
Qed.

(* flatten any dimensions of a well-formed array with consistent groups, then unflatten: still well-formed *)
Corollary flatten_unflatten_wf rs as_set insert a b r :
  WF a -> groups_ok a -> flatten rs as_set insert a = Ok b -> unflatten b = Ok r -> WF r.
Proof.
  intros Hw Hg Hf Hu. eapply unflatten_wf; [eapply flatten_wf; eassumption | eapply flatten_groups_ok; eassumption | exact Hu].
Qed.

(* ------------------------------------------------------------------ reshape with grouped names *)
Lemma unflatten_axes_plain_all axs : Forall (fun ax => amem ax = []) (unflatten_axes axs).
Proof.
  induction axs as [|ax t IH]; [constructor|]. cbn [unflatten_axes]. destruct (amem ax) as [|m ms] eqn:Em.
  - constructor; assumption.
  - apply Forall_app. split; [|exact IH]. apply Forall_forall. intros x Hx. apply in_map_iff in Hx.
    destruct Hx as [y [<- _]]. reflexivity.
Qed.
Lemma plain_groups_ok a : Forall (fun ax => amem ax = []) (axes a) -> groups_ok a.
Proof. unfold groups_ok. apply Forall_impl. intros ax H. left. exact H. Qed.
Lemma unflatten_result_plain a r : unflatten a = Ok r -> Forall (fun ax => amem ax = []) (axes r).
Proof. unfold unflatten. destruct (negb _); [discriminate|]. intros [= <-]. apply unflatten_axes_plain_all. Qed.

Lemma squeeze_absent_plain ds newdims : forall a r,
  wf_shape a -> Forall (fun ax => amem ax = []) (axes a) -> squeeze_absent ds newdims a = Ok r ->
  wf_shape r /\ Forall (fun ax => amem ax = []) (axes r).
Proof.
  induction ds as [|d t IH]; intros a r Hw Hp H; cbn [squeeze_absent] in H; [injection H as <-; split; assumption|].
  destruct (mem_str d newdims); [eapply IH; eassumption|].
  destruct (squeeze (Some (ByName d)) a) as [a'|] eqn:E; cbn [bind] in H; [|discriminate].
  destruct (squeeze_axis_spec _ _ _ Hw E) as [i [_ [_ [Hw' [_ [Hax _]]]]]].
  apply (IH a' r Hw'); [|exact H]. rewrite Hax. apply Forall_forall. intros x Hx. rewrite Forall_forall in Hp.
  apply Hp. apply (In_remove_nth _ _ _ Hx).
Qed.
Lemma add_missing_plain newdims : forall i a r,
  wf_shape a -> Forall (fun ax => amem ax = []) (axes a) -> add_missing newdims i a = Ok r ->
  Forall (fun ax => amem ax = []) (axes r).
Proof.
  induction newdims as [|d t IH]; intros i a r Hw Hp H; cbn [add_missing] in H; [injection H as <-; exact Hp|].
  destruct (mem_str d (dims a)); [eapply IH; eassumption|].
  destruct (newaxis d None (Z.of_nat i) a) as [a'|] eqn:E; cbn [bind] in H; [|discriminate].
  destruct (newaxis_spec _ _ _ _ Hw E) as [q [_ [_ [_ [Hw' [_ [Hax _]]]]]]].
  apply (IH (S i) a' r Hw'); [|exact H]. rewrite Hax. apply Forall_forall. intros x Hx. rewrite Forall_forall in Hp.
  apply In_insert_nth in Hx. destruct Hx as [->|Hx]; [reflexivity | apply Hp; exact Hx].
Qed.

Lemma group_each_wf newdims : forall i a r, WF a -> groups_ok a -> group_each newdims i a = Ok r -> WF r.
Proof.
  induction newdims as [|d t IH]; intros i a r Hw Hg H; cbn [group_each] in H; [injection H as <-; exact Hw|].
  destruct (split_commas d) as [|x [|y l]]; [| eapply IH; eassumption |].
  - destruct (flatten _ _ _ a) as [a'|] eqn:E; cbn [bind] in H; [|discriminate].
    eapply IH; [eapply flatten_wf; eassumption | eapply flatten_groups_ok; eassumption | exact H].
  - destruct (flatten _ _ _ a) as [a'|] eqn:E; cbn [bind] in H; [|discriminate].
    eapply IH; [eapply flatten_wf; eassumption | eapply flatten_groups_ok; eassumption | exact H].
Qed.

Theorem reshape_wf newdims a r : WF a -> groups_ok a -> ~ In "" (flat_map split_commas newdims) -> reshape newdims a = Ok r -> WF r.
Proof.
  intros Hw Hg He H. unfold reshape in H.
  destruct (list_eqb String.eqb newdims (dims a)); [injection H as <-; exact Hw|].
  destruct (negb (nodupb String.eqb newdims)); [discriminate|].
  destruct (unflatten a) as [o0|] eqn:E0; cbn [bind] in H; [|discriminate].
  destruct (negb (nodupb String.eqb (flat_map split_commas newdims))); [discriminate|].
  destruct (squeeze_absent (dims o0) _ o0) as [o1|] eqn:E1; cbn [bind] in H; [|discriminate].
  destruct (transpose _ o1) as [o2|] eqn:E2; cbn [bind] in H; [|discriminate].
  destruct (add_missing _ 0 o2) as [o3|] eqn:E3; cbn [bind] in H; [|discriminate].
  destruct (group_each newdims 0 o3) as [o4|] eqn:E4; cbn [bind] in H; [|discriminate].
  destruct (list_eqb String.eqb (dims o4) newdims); [|discriminate]. injection H as <-.
  pose proof (unflatten_wf _ _ Hw Hg E0) as W0. pose proof (unflatten_result_plain _ _ E0) as P0.
  pose proof (squeeze_absent_wf _ _ _ _ W0 E1) as W1.
  destruct (squeeze_absent_plain _ _ _ _ (proj1 W0) P0 E1) as [_ P1].
  pose proof (transpose_wf _ _ _ W1 E2) as W2.
  pose proof (transpose_groups_ok _ _ _ (proj1 W1) (plain_groups_ok _ P1) E2) as G2.
  assert (P2 : Forall (fun ax => amem ax = []) (axes o2)).
  { assert (Hp : exists p, transpose_pos p o1 = Ok o2).
    { unfold transpose in E2. destruct (map ByName _) as [|r0 rs]; [eexists; exact E2|].
      destruct (mapM (axis_info o1) (r0 :: rs)) as [p|]; simpl in E2; [|discriminate]. exists p. exact E2. }
    destruct Hp as [p Hp]. destruct (transpose_pos_spec p o1 o2 (proj1 W1) Hp) as [_ [_ [_ [Hax _]]]].
    rewrite Hax. apply Forall_forall. intros x Hx. apply in_map_iff in Hx. destruct Hx as [j [<- _]].
    destruct (Nat.lt_ge_cases j (List.length (axes o1))) as [Hlt|Hge].
    - rewrite Forall_forall in P1. apply P1. apply nth_In. exact Hlt.
    - rewrite nth_overflow by exact Hge. reflexivity. }
  pose proof (add_missing_wf _ _ _ _ He W2 E3) as W3.
  pose proof (add_missing_plain _ _ _ _ (proj1 W2) P2 E3) as P3.
  eapply group_each_wf; [exact W3 | apply plain_groups_ok; exact P3 | exact E4].
Qed.
