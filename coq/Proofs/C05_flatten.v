(* C05, grouping dimensions: flatten (and through it the reductions and percentiles over a tuple of axes)
   returns an array whose dimension names are distinct and non-empty, whose axes have the lengths of the value
   array's shape and whose cell count is the product of that shape. *)
From Coq Require Import Qround Qabs Permutation.
From DA Require Import Prelude NDArray Array PyRT.
From DA.Model Require Import Value Reshape SliceSpec Indexing Align Transform Flatten Ops.
From DA.Proofs Require Import ListLemmas C10_proofs C09_proofs C11_proofs C05_proofs C05_join.
Open Scope string_scope.
Open Scope nat_scope.
Open Scope list_scope.

(* ------------------------------------------------------------------ the grouped axis has the product length *)
Lemma product_labels_length mems : List.length (product_labels mems) = prod (map (@List.length atom) mems).
Proof. rewrite product_labels_coords, map_length. apply coords_length. Qed.

Lemma mapM_atoms_lengths (mems : list axis) atoms :
  mapM (fun m => mapM label_atom (alab m)) mems = Ok atoms -> map (@List.length atom) atoms = map alen mems.
Proof.
  revert atoms; induction mems as [|m t IH]; intros atoms H; simpl in H; [injection H as <-; reflexivity|].
  destruct (mapM label_atom (alab m)) as [x|] eqn:E; simpl in H; [|discriminate].
  destruct (mapM _ t) as [r'|]; simpl in H; [|discriminate]. injection H as <-. simpl. f_equal; [|apply IH; reflexivity].
  apply (mapM_length _ _ _ E).
Qed.

Lemma multi_axis_alen mems g : multi_axis mems = Ok g -> alen g = prod (map alen mems).
Proof.
  intros H. destruct mems as [|m [|m2 t]].
  - discriminate.
  - injection H as <-. unfold alen; simpl. lia.
  - destruct (multi_axis_labels (m :: m2 :: t) g) as [atoms [Ha [_ [Hl _]]]]; [simpl; lia | exact H |].
    unfold alen at 1. rewrite Hl, map_length, product_labels_length. f_equal. apply mapM_atoms_lengths. exact Ha.
Qed.

Lemma join_names_nonempty x y t : join_names (x :: y :: t) <> "".
Proof. cbn [join_names]. destruct x; simpl; discriminate. Qed.

Lemma multi_axis_name mems g : multi_axis mems = Ok g -> ~ In "" (map aname mems) -> aname g <> "".
Proof.
  intros H Hn. destruct mems as [|m [|m2 t]].
  - discriminate.
  - injection H as <-. simpl. intros E. apply Hn. left. exact E.
  - destruct (multi_axis_labels (m :: m2 :: t) g) as [atoms [_ [Hnm _]]]; [simpl; lia | exact H |].
    rewrite Hnm. apply join_names_nonempty.
Qed.

(* ------------------------------------------------------------------ splitting a list around a window *)
Lemma window_split {A} ins k (l : list A) : l = firstn ins l ++ firstn k (skipn ins l) ++ skipn (ins + k) l.
Proof. rewrite <- skipn_skipn_, firstn_skipn, firstn_skipn. reflexivity. Qed.

Lemma NoDup_drop_mid {A} (p m s : list A) : NoDup (p ++ m ++ s) -> NoDup (p ++ s).
Proof.
  induction m as [|x m IH]; [exact (fun H => H)|]. intros H. apply IH.
  change (p ++ (x :: m) ++ s) with (p ++ x :: (m ++ s)) in H. eapply NoDup_remove_1. exact H.
Qed.

Lemma NoDup_put_mid {A} (p s : list A) x : NoDup (p ++ s) -> ~ In x (p ++ s) -> NoDup (p ++ [x] ++ s).
Proof.
  intros H Hx. apply (Permutation_NoDup (l := x :: p ++ s)); [apply Permutation_middle | constructor; assumption].
Qed.

(* ------------------------------------------------------------------ group_at *)
Theorem group_at_wf names ins a r : WF a -> group_at names ins a = Ok r -> WF r.
Proof.
  intros [[Hs Hd] [Hnd Hne]] H.
  assert (Hchk : exists g, multi_axis (firstn (List.length names) (skipn ins (axes a))) = Ok g /\
                 mem_str (aname g) (map aname (firstn ins (axes a) ++ skipn (ins + List.length names) (axes a))) = false).
  { unfold group_at in H. cbv zeta in H. destruct (multi_axis _) as [g|]; simpl in H; [|discriminate].
    exists g. split; [reflexivity|]. destruct (mem_str _ _); [discriminate | reflexivity]. }
  destruct Hchk as [g [Hg Hfresh]].
  destruct (group_at_spec _ _ _ _ H) as [g' [Hg' [Hax [_ [Hdat Hsh]]]]]. cbv zeta in Hg'.
  rewrite Hg in Hg'. injection Hg' as <-.
  set (k := List.length names) in *. set (p := firstn ins (axes a)) in *. set (s := skipn (ins + k) (axes a)) in *.
  set (m := firstn k (skipn ins (axes a))) in *.
  assert (Hsplit : axes a = p ++ m ++ s) by apply window_split.
  apply mem_str_false in Hfresh.
  split; [split|split].
  - rewrite Hax, Hsh. reflexivity.
  - rewrite Hdat, Hd, Hsh, <- Hs, Hsplit. rewrite !map_app, !prod_app. simpl.
    rewrite (multi_axis_alen _ _ Hg). lia.
  - unfold dims. rewrite Hax, !map_app. simpl map. apply NoDup_put_mid.
    + unfold dims in Hnd. rewrite Hsplit, !map_app in Hnd. apply NoDup_drop_mid in Hnd. exact Hnd.
    + rewrite <- map_app. exact Hfresh.
  - unfold dims. rewrite Hax, !map_app. simpl map. intros Hin.
    apply in_app_or in Hin. destruct Hin as [Hin|[Hin|Hin]].
    + apply Hne. unfold dims. rewrite Hsplit, !map_app. apply in_or_app. left. exact Hin.
    + revert Hin. apply (multi_axis_name _ _ Hg).
      intros Hin. clear Hfresh. apply Hne. unfold dims. rewrite Hsplit, !map_app. apply in_or_app. right. apply in_or_app. left. exact Hin.
    + apply Hne. unfold dims. rewrite Hsplit, !map_app. apply in_or_app. right. apply in_or_app. right. exact Hin.
Qed.

(* ------------------------------------------------------------------ flatten, reductions over several axes *)
Theorem flatten_wf rs as_set insert a r : WF a -> flatten rs as_set insert a = Ok r -> WF r.
Proof.
  intros Hw H. unfold flatten in H. cbv zeta in H.
  destruct (mapM (axis_info a) rs) as [idxs|]; simpl in H; [|discriminate].
  match type of H with match ?n with [] => _ | _ => _ end = _ => destruct n as [|d0 names'] eqn:En end; [discriminate|].
  destruct (find_dim (dims a) d0); simpl in H; [|discriminate].
  match type of H with (let! _ := ?x in _) = _ => destruct x as [ins0|]; simpl in H; [|discriminate] end.
  match type of H with (if ?c then _ else _) = _ => destruct c; [discriminate|] end.
  match type of H with (if ?c then _ else _) = _ => destruct c end.
  - eapply group_at_wf; eassumption.
  - match type of H with (let! _ := ?x in _) = _ => destruct x as [b|] eqn:Et; simpl in H; [|discriminate] end.
    eapply group_at_wf; [eapply transpose_wf; eassumption | exact H].
Qed.

Theorem reduce_any_wf f sk ax a v : WF a -> reduce_any f sk ax a = Ok v -> WFv v.
Proof.
  intros Hw H. destruct ax as [|r1|rs]; [eapply (reduce_wf f sk AxNone); eassumption | eapply (reduce_wf f sk (AxOne r1)); eassumption |].
  simpl in H. destruct (flatten _ _ _ a) as [b|] eqn:E; simpl in H; [|discriminate].
  eapply reduce_axis_wf; [eapply flatten_wf; eassumption | exact H].
Qed.

(* ------------------------------------------------------------------ percentiles *)
Lemma wf_attrs_irrelevant x m : WF x -> WF (mkarr (axes x) (vals x) m).
Proof. intros [[Hs Hd] Hn]. split; [split|]; assumption. Qed.

Lemma suffix_nonempty (n : string) : (n ++ "_percentile")%string <> "".
Proof. destruct n; simpl; discriminate. Qed.

Theorem percentile_wf ins qs scalar kk ax a v :
  WF a -> apply_op ins (OPercentile qs scalar kk ax) a = Ok v -> WFv v.
Proof.
  intros Hw H. simpl in H. destruct scalar.
  - destruct qs as [|q [|q2 t]]; try discriminate. eapply reduce_any_wf; eassumption.
  - match type of H with (let! _ := ?x in _) = _ => destruct x as [name|]; simpl in H; [|discriminate] end.
    match type of H with (let! _ := ?x in _) = _ => destruct x as [rs|] eqn:Er; simpl in H; [|discriminate] end.
    destruct (stack rs _ kk _ false false) as [st|] eqn:Es; simpl in H; [|discriminate].
    injection H as <-. simpl. apply wf_attrs_irrelevant.
    eapply stack_wf; [| |exact Es].
    + eapply (mapM_Forall _ (fun _ => True) WF); [| |exact Er].
      * intros q y _ Hq. cbv beta in Hq. destruct (reduce_any (RPct q) false ax a) as [w|] eqn:Ew; simpl in Hq; [|discriminate].
        pose proof (reduce_any_wf _ _ _ _ _ Hw Ew) as Hwv.
        destruct w; simpl in Hq; try discriminate; injection Hq as <-.
        -- apply wf_attrs_irrelevant. exact Hwv.
        -- apply wf_mk; [reflexivity | split; [constructor | intros []]].
      * clear. induction qs; constructor; [exact I | assumption].
    + intros [= E]. exact (suffix_nonempty _ E).
Qed.
