(* C05: every produced array is well-formed; the constructor forms agree. *)
From Coq Require Import Qround Qabs Permutation Sorted ZifyBool.
From DA Require Import Prelude NDArray Array PyRT.
From DA.Model Require Import Value Reshape SliceSpec Indexing Align Transform Flatten Construct Ops.
From DA.Proofs Require Import ListLemmas C10_proofs C09_proofs.
Open Scope string_scope.
Open Scope nat_scope.
Open Scope list_scope.

(* ------------------------------------------------------------------ well-formedness *)
Definition names_ok (l : list string) : Prop := NoDup l /\ ~ In "" l.
Definition WF (a : darr) : Prop := wf_shape a /\ names_ok (dims a).

Lemma existsb_str_In s l : existsb (String.eqb s) l = true <-> In s l.
Proof.
  rewrite existsb_exists. split.
  - intros [x [Hx E]]. apply String.eqb_eq in E. subst. exact Hx.
  - intros H. exists s. split; [exact H | apply String.eqb_refl].
Qed.
Lemma mem_str_In s l : mem_str s l = true <-> In s l.
Proof. apply existsb_str_In. Qed.
Lemma mem_str_false s l : mem_str s l = false <-> ~ In s l.
Proof.
  rewrite <- mem_str_In. destruct (mem_str s l); split; intros H.
  - discriminate.
  - exfalso. apply H. reflexivity.
  - intros H'. discriminate.
  - reflexivity.
Qed.

Lemma nodupb_str_NoDup l : nodupb String.eqb l = true <-> NoDup l.
Proof.
  induction l as [|x t IH]; simpl.
  - split; [constructor | reflexivity].
  - rewrite andb_true_iff, negb_true_iff, IH. split.
    + intros [H1 H2]. constructor; [|exact H2]. intros Hin. apply existsb_str_In in Hin. congruence.
    + intros H. inversion H as [|? ? Hn Hd]; subst. split; [|exact Hd].
      destruct (existsb (String.eqb x) t) eqn:E; [|reflexivity]. apply existsb_str_In in E. contradiction.
Qed.
Lemma distinct_str_NoDup l : distinct_str l = true <-> NoDup l.
Proof.
  induction l as [|x t IH]; simpl.
  - split; [constructor | reflexivity].
  - rewrite andb_true_iff, negb_true_iff, IH. split.
    + intros [H1 H2]. constructor; [|exact H2]. apply mem_str_false. exact H1.
    + intros H. inversion H as [|? ? Hn Hd]; subst. split; [apply mem_str_false; exact Hn | exact Hd].
Qed.
Lemma forallb_nonempty l : forallb (fun s => negb (String.eqb s "")) l = true <-> ~ In "" l.
Proof.
  rewrite forallb_forall. split.
  - intros H Hin. specialize (H _ Hin). simpl in H. discriminate.
  - intros H x Hx. destruct (String.eqb_spec x ""); [subst; contradiction | reflexivity].
Qed.

(* the boolean test of Array.v (the one the case files evaluate) is the proposition *)
Theorem wfb_WF a : wfb a = true <-> WF a.
Proof.
  unfold wfb, WF, wf_shape, names_ok, wf_nd. rewrite !andb_true_iff, nodupb_str_NoDup, forallb_nonempty, Nat.eqb_eq.
  split.
  - intros [[[H1 H2] H3] H4]. apply list_eqb_nat_eq in H1. tauto.
  - intros [[H1 H2] [H3 H4]]. rewrite H1. rewrite list_eqb_nat_refl. tauto.
Qed.

(* ------------------------------------------------------------------ list facts about names *)
Lemma NoDup_remove_nth {A} i (l : list A) : NoDup l -> NoDup (remove_nth i l).
Proof.
  revert i; induction l as [|x t IH]; intros [|i] H; simpl; try exact H.
  - inversion H; assumption.
  - inversion H as [|? ? Hn Hd]; subst. constructor; [|apply IH; exact Hd].
    intros Hin. apply Hn. clear -Hin. revert i Hin. induction t as [|y t IH]; intros [|i]; simpl; try tauto.
    intros [E|H]; [left; exact E | right; eapply IH; exact H].
Qed.
Lemma In_remove_nth {A} i (l : list A) x : In x (remove_nth i l) -> In x l.
Proof.
  revert i; induction l as [|y t IH]; intros [|i]; simpl; try tauto.
  intros [E|H]; [left; exact E | right; eapply IH; exact H].
Qed.
Lemma In_insert_nth {A} i (y : A) l x : In x (insert_nth i y l) -> x = y \/ In x l.
Proof.
  revert i; induction l as [|z t IH]; intros [|i]; simpl; try (intros [E|H]; auto; fail).
  intros [E|H]; [auto | ]. destruct (IH _ H); auto.
Qed.
Lemma NoDup_insert_nth {A} i (y : A) l : NoDup l -> ~ In y l -> NoDup (insert_nth i y l).
Proof.
  revert i; induction l as [|z t IH]; intros [|i] H Hn; simpl.
  - constructor; [exact Hn | exact H].
  - constructor; [intros [] | constructor].
  - constructor; [exact Hn | exact H].
  - inversion H as [|? ? Hz Hd]; subst. constructor.
    + intros Hin. apply In_insert_nth in Hin. destruct Hin as [E|Hin]; [subst; apply Hn; left; reflexivity | contradiction].
    + apply IH; [exact Hd | intros Hin; apply Hn; right; exact Hin].
Qed.
Lemma set_nth_nth_same {A} i (l : list A) d x : x = nth i l d -> i < List.length l -> set_nth i x l = l.
Proof. intros -> _. apply set_nth_same. Qed.

Lemma names_ok_remove i l : names_ok l -> names_ok (remove_nth i l).
Proof. intros [H1 H2]. split; [apply NoDup_remove_nth; exact H1 | intros H; apply H2; eapply In_remove_nth; exact H]. Qed.
Lemma names_ok_insert i n l : names_ok l -> ~ In n l -> n <> "" -> names_ok (insert_nth i n l).
Proof.
  intros [H1 H2] Hn He. split; [apply NoDup_insert_nth; assumption|].
  intros H. apply In_insert_nth in H. destruct H as [E|H]; [apply He; symmetry; exact E | contradiction].
Qed.

(* replacing an axis by one of the same name keeps the names *)
Lemma dims_set_same_name i ax (axs : list axis) :
  aname ax = aname (nth i axs dax0) -> map aname (set_nth i ax axs) = map aname axs.
Proof.
  intros H. rewrite map_set_nth, H.
  destruct (Nat.lt_ge_cases i (List.length axs)) as [Hi|Hi].
  - rewrite <- (nth_map_in aname axs i dax0 "") by exact Hi. apply set_nth_same.
  - clear H. revert i Hi; induction axs as [|x t IH]; intros [|i] Hi; simpl in *; try reflexivity; try lia.
    f_equal. apply IH. lia.
Qed.

(* a permutation of the positions permutes the names *)
Lemma perm_map_nth {A} (p : list nat) (l : list A) d :
  is_perm p = true -> List.length p = List.length l -> Permutation (map (fun j => nth j l d) p) l.
Proof.
  intros Hp Hl. destruct (is_perm_props p Hp) as [Hb [Hnd Hall]].
  pattern l at 2. rewrite <- (map_nth_seq l d). apply Permutation_map. rewrite <- Hl.
  apply NoDup_Permutation; [exact Hnd | apply seq_NoDup |].
  intros j. rewrite in_seq. split; [intros H; specialize (Hb j H); lia | intros [_ H]; apply Hall; lia].
Qed.
Lemma names_ok_perm l l' : Permutation l l' -> names_ok l' -> names_ok l.
Proof.
  intros Hp [H1 H2]. split.
  - eapply Permutation_NoDup; [apply Permutation_sym; exact Hp | exact H1].
  - intros H. apply H2. eapply Permutation_in; [exact Hp | exact H].
Qed.

(* ------------------------------------------------------------------ Reshape operations *)
Lemma wf_mk axs s k f m : map alen axs = s -> names_ok (map aname axs) -> WF (mkarr axs (mk s k f) m).
Proof. intros H Hn. split; [apply wf_shape_mk; exact H | exact Hn]. Qed.

Theorem transpose_pos_wf p a r : WF a -> transpose_pos p a = Ok r -> WF r.
Proof.
  intros [[Hs Hd] Hn] H. unfold transpose_pos in H.
  destruct (negb (List.length p =? _)) eqn:El; [discriminate|]. destruct (negb (is_perm p)) eqn:Ep; [discriminate|].
  apply negb_false_iff in El, Ep. apply Nat.eqb_eq in El. injection H as <-.
  unfold np_transpose. apply wf_mk.
  - rewrite map_map. rewrite <- Hs. apply map_ext_in. intros j Hj.
    destruct (is_perm_props p Ep) as [Hb _]. specialize (Hb j Hj).
    rewrite (nth_map_in alen (axes a) j (mkaxis "" KO []) 0) by lia. reflexivity.
  - unfold dims in *. rewrite map_map.
    eapply names_ok_perm; [|exact Hn].
    rewrite <- (map_map (fun j => nth j (axes a) (mkaxis "" KO [])) aname).
    apply Permutation_map. apply perm_map_nth; assumption.
Qed.

Theorem transpose_wf rs a r : WF a -> transpose rs a = Ok r -> WF r.
Proof.
  intros Hw H. unfold transpose in H. destruct rs as [|r0 t].
  - eapply transpose_pos_wf; eassumption.
  - destruct (mapM _ _); simpl in H; [|discriminate]. eapply transpose_pos_wf; eassumption.
Qed.
Theorem swapaxes_wf r1 r2 a r : WF a -> swapaxes r1 r2 a = Ok r -> WF r.
Proof.
  intros Hw H. unfold swapaxes in H. destruct (axis_info a r1); simpl in H; [|discriminate].
  destruct (axis_info a r2); simpl in H; [|discriminate]. eapply transpose_pos_wf; eassumption.
Qed.
Theorem rollaxis_wf rf s a r : WF a -> rollaxis rf s a = Ok r -> WF r.
Proof.
  intros Hw H. unfold rollaxis in H. cbv zeta in H. destruct (axis_info a rf); simpl in H; [|discriminate].
  destruct (_ || _)%bool; [discriminate|]. eapply transpose_pos_wf; eassumption.
Qed.

Lemma set_nth_map_alen i n (axs : list axis) ax :
  alen ax = n -> map alen (set_nth i ax axs) = set_nth i n (map alen axs).
Proof. intros <-. apply map_set_nth. Qed.

Theorem repeat_wf k labs rf a r : WF a -> repeat k labs rf a = Ok r -> WF r.
Proof.
  intros [[Hs Hd] Hn] H. unfold repeat in H. destruct (axis_info a rf) as [i|] eqn:Ei; simpl in H; [|discriminate].
  destruct (negb _); [discriminate|]. injection H as <-. unfold np_repeat1. apply wf_mk.
  - rewrite <- Hs. apply set_nth_map_alen. reflexivity.
  - unfold dims in *. rewrite dims_set_same_name; [exact Hn | reflexivity].
Qed.

Theorem newaxis_wf name v pos a r : name <> "" -> WF a -> newaxis name v pos a = Ok r -> WF r.
Proof.
  intros Hne [[Hs Hd] Hn] H. unfold newaxis in H. destruct (mem_str name (dims a)) eqn:Em; [discriminate|].
  apply mem_str_false in Em. cbv zeta in H.
  destruct (_ <? 0)%Z; [discriminate|]. destruct (Z.of_nat _ <? _)%Z; [discriminate|].
  set (q := Z.to_nat _) in H.
  assert (Hw : WF (mkarr (insert_nth q (mkaxis name KO [LNone]) (axes a)) (np_expand q (vals a)) (attrs a))).
  { unfold np_expand. apply wf_mk.
    - rewrite map_insert_nth, Hs. reflexivity.
    - rewrite map_insert_nth. apply names_ok_insert; assumption. }
  destruct v as [[k labs]|]; [eapply repeat_wf; eassumption | injection H as <-; exact Hw].
Qed.

Lemma remove_nth_app_len {A} (pre : list A) x t : remove_nth (List.length pre) (pre ++ x :: t) = pre ++ t.
Proof. induction pre as [|y pre IH]; simpl; [reflexivity | f_equal; exact IH]. Qed.

Lemma squeeze_all_wf axs : forall pos v axs' v' pre,
  squeeze_all axs pos v = (axs', v') -> List.length pre = pos -> sh v = pre ++ map alen axs ->
  List.length (dat v) = prod (sh v) ->
  sh v' = pre ++ map alen axs' /\ List.length (dat v') = prod (sh v') /\
  incl (map aname axs') (map aname axs) /\ (NoDup (map aname axs) -> NoDup (map aname axs')).
Proof.
  induction axs as [|ax t IH]; intros pos v axs' v' pre H Hp Hs Hd; simpl in H.
  - injection H as <- <-. repeat split; auto. apply incl_refl.
  - destruct (alen ax =? 1) eqn:E1.
    + assert (Hs' : sh (np_squeeze1 pos v) = pre ++ map alen t).
      { unfold np_squeeze1; simpl. rewrite Hs. simpl. rewrite <- Hp. apply remove_nth_app_len. }
      destruct (IH pos (np_squeeze1 pos v) axs' v' pre H Hp Hs') as [A [B [C D]]].
      { unfold np_squeeze1; simpl. apply tab_length. }
      repeat split; [exact A | exact B | | ].
      * intros x Hx. right. apply C. exact Hx.
      * intros Hn. apply D. simpl in Hn. inversion Hn; assumption.
    + destruct (squeeze_all t (S pos) v) as [t' v''] eqn:Et. injection H as <- <-.
      destruct (IH (S pos) v t' v'' (pre ++ [alen ax]) Et) as [A [B [C D]]].
      { rewrite app_length. simpl. lia. }
      { rewrite <- app_assoc. exact Hs. }
      { exact Hd. }
      repeat split; [rewrite A, <- app_assoc; reflexivity | exact B | | ].
      * intros x [Hx|Hx]; [left; exact Hx | right; apply C; exact Hx].
      * simpl. intros Hn. inversion Hn as [|? ? Hx Hn']; subst. constructor; [|apply D; exact Hn'].
        intros Hin. apply Hx. apply C. exact Hin.
Qed.

Theorem squeeze_wf rf a r : WF a -> squeeze rf a = Ok r -> WF r.
Proof.
  intros [[Hs Hd] [Hn He]] H. unfold squeeze in H. destruct rf as [rf|].
  - destruct (axis_info a rf) as [i|]; simpl in H; [|discriminate]. destruct (negb _); [discriminate|]. injection H as <-.
    unfold np_squeeze1. apply wf_mk.
    + rewrite map_remove_nth, Hs. reflexivity.
    + rewrite map_remove_nth. apply names_ok_remove. split; assumption.
  - destruct (squeeze_all (axes a) 0 (vals a)) as [axs v] eqn:E. injection H as <-.
    destruct (squeeze_all_wf _ _ _ _ _ [] E eq_refl (eq_sym Hs) Hd) as [A [B [C D]]]. simpl in A.
    split; [split; simpl; [symmetry; exact A | exact B]|].
    split; [apply D; exact Hn | intros Hin; apply He; apply C; exact Hin].
Qed.

(* ------------------------------------------------------------------ operations along one axis *)
Lemma wf_same_names_mk axs axs' s k f m :
  map alen axs' = s -> map aname axs' = map aname axs -> names_ok (map aname axs) -> WF (mkarr axs' (mk s k f) m).
Proof. intros H1 H2 H3. apply wf_mk; [exact H1 | rewrite H2; exact H3]. Qed.

Lemma wf_set_axis a i ax' m' k f mm :
  WF a -> aname ax' = aname (nth i (axes a) dax0) -> alen ax' = m' ->
  WF (mkarr (set_nth i ax' (axes a)) (mk (set_nth i m' (sh (vals a))) k f) mm).
Proof.
  intros [[Hs Hd] Hn] Hname Hlen. apply (wf_same_names_mk (axes a)).
  - rewrite <- Hs. apply set_nth_map_alen. exact Hlen.
  - apply dims_set_same_name. exact Hname.
  - exact Hn.
Qed.

Theorem take_axis_pos_wf idxs i a : WF a -> WF (take_axis_pos idxs i a).
Proof.
  intros Hw. unfold take_axis_pos, np_take. cbv zeta. apply wf_set_axis; [exact Hw | reflexivity |].
  unfold alen, with_labels; simpl. apply map_length.
Qed.

Theorem compress_axis_wf keep i a r : WF a -> compress_axis keep i a = Ok r -> WF r.
Proof.
  intros Hw H. unfold compress_axis in H. cbv zeta in H. destruct (negb _); [discriminate|]. injection H as <-.
  unfold np_take. apply wf_set_axis; [exact Hw | reflexivity |]. unfold alen, with_labels; simpl. apply map_length.
Qed.

Theorem dropna_wf rf mv a r : WF a -> dropna rf mv a = Ok r -> WF r.
Proof.
  intros Hw H. unfold dropna in H. destruct (axis_info a rf); simpl in H; [|discriminate].
  destruct (sh (vals a)) as [|n0 [|n1 t]]; eapply compress_axis_wf; eassumption.
Qed.

Lemma set_nth_nth_self {A} i (l : list A) d : set_nth i (nth i l d) l = l.
Proof. apply set_nth_same. Qed.

Theorem cumulative_wf p sk rf a r : WF a -> cumulative p sk rf a = Ok r -> WF r.
Proof.
  intros [[Hs Hd] Hn] H. unfold cumulative in H. destruct (axis_info a rf) as [i|]; simpl in H; [|discriminate].
  injection H as <-. unfold np_along. apply wf_mk; [|exact Hn]. rewrite set_nth_same. exact Hs.
Qed.

Lemma midpoints_length ls m : midpoints ls = Ok m -> List.length m = List.length ls - 1.
Proof. intros H. apply (midpoints_spec _ _ H). Qed.

Lemma removelast_length {A} (l : list A) : List.length (removelast l) = List.length l - 1.
Proof. induction l as [|x [|y t] IH]; simpl in *; try reflexivity. rewrite IH. lia. Qed.
Lemma tl_length {A} (l : list A) : List.length (tl l) = List.length l - 1.
Proof. destruct l; simpl; lia. Qed.

Lemma set_nth_alen_self i axs : set_nth i (alen (nth i axs dax0)) (map alen axs) = map alen axs.
Proof. rewrite <- map_set_nth, set_nth_same. reflexivity. Qed.

Theorem diff1_wf sc ka i a r : WF a -> diff1 sc ka i a = Ok r -> WF r.
Proof.
  intros Hw H. pose proof Hw as [[Hs Hd] Hn]. unfold diff1 in H. cbv zeta in H.
  destruct sc.
  - (* backward *) destruct ka.
    + destruct (_ =? 0); [discriminate|]. injection H as <-. unfold np_along. apply wf_mk; [|exact Hn].
      rewrite <- Hs. symmetry. apply set_nth_alen_self.
    + injection H as <-. unfold np_along. apply wf_set_axis; [exact Hw | reflexivity |]. unfold alen, with_labels; simpl. apply tl_length.
  - destruct ka.
    + destruct (_ =? 0); [discriminate|]. injection H as <-. unfold np_along. apply wf_mk; [|exact Hn].
      rewrite <- Hs. symmetry. apply set_nth_alen_self.
    + injection H as <-. unfold np_along. apply wf_set_axis; [exact Hw | reflexivity |]. unfold alen, with_labels; simpl. apply removelast_length.
  - destruct ka; [discriminate|]. destruct (midpoints _) as [m|] eqn:Em; simpl in H; [|discriminate]. injection H as <-.
    unfold np_along. apply wf_set_axis; [exact Hw | reflexivity |]. unfold alen, ax_new; simpl. apply midpoints_length. exact Em.
Qed.

Theorem diff_n_wf fuel sc ka i : forall a r, WF a -> diff_n fuel sc ka i a = Ok r -> WF r.
Proof.
  induction fuel as [|f IH]; intros a r Hw H; [discriminate|]. destruct f as [|f'].
  - eapply diff1_wf; eassumption.
  - change (diff_n (S (S f')) sc ka i a) with (let! a' := diff_n (S f') sc ka i a in diff1 sc ka i a') in H.
    destruct (diff_n (S f') sc ka i a) as [a'|] eqn:E; simpl in H; [|discriminate].
    eapply diff1_wf; [eapply IH; eassumption | exact H].
Qed.
Theorem diff_wf rf sc ka n a r : WF a -> diff rf sc ka n a = Ok r -> WF r.
Proof.
  intros Hw H. unfold diff in H. destruct (axis_info a rf); simpl in H; [|discriminate].
  destruct (n =? 0); [discriminate|]. eapply diff_n_wf; eassumption.
Qed.

(* results that may be arrays, lists of arrays, or scalars *)
Definition WFv (v : value) : Prop :=
  match v with VArr a => WF a | VArrs l => Forall WF l | _ => True end.

Theorem reduce_axis_wf f sk i a v : WF a -> reduce_axis f sk i a = Ok v -> WFv v.
Proof.
  intros [[Hs Hd] Hn] H. unfold reduce_axis in H. cbv zeta in H.
  destruct (sh (np_reduce _ _ i (vals a))) eqn:E; injection H as <-; simpl; [exact I|].
  unfold np_reduce. apply wf_mk; [rewrite map_remove_nth, Hs; reflexivity | rewrite map_remove_nth; apply names_ok_remove; exact Hn].
Qed.
Theorem reduce_wf f sk ax a v : WF a -> reduce f sk ax a = Ok v -> WFv v.
Proof.
  intros Hw H. destruct ax; simpl in H.
  - injection H as <-. exact I.
  - destruct (axis_info a r); simpl in H; [|discriminate]. eapply reduce_axis_wf; eassumption.
  - discriminate.
Qed.

Theorem argext_axis_wf mx rf a v : WF a -> argext_axis mx rf a = Ok v -> WFv v.
Proof.
  intros [[Hs Hd] Hn] H. unfold argext_axis in H. destruct (axis_info a rf) as [i|]; simpl in H; [|discriminate].
  destruct (_ =? 0); [discriminate|]. destruct (remove_nth i (sh (vals a))) eqn:E; injection H as <-; simpl; [exact I|].
  apply wf_mk; [rewrite map_remove_nth, Hs; exact E | rewrite map_remove_nth; apply names_ok_remove; exact Hn].
Qed.
Theorem argext_all_wf mx a v : argext_all mx a = Ok v -> WFv v.
Proof. unfold argext_all. cbv zeta. destruct (_ =? 0); [discriminate|]. intros [= <-]. exact I. Qed.

Theorem take_axis_label_wf ls rf a r : WF a -> take_axis_label ls rf a = Ok r -> WF r.
Proof.
  intros Hw H. unfold take_axis_label in H. destruct (axis_info a rf); simpl in H; [|discriminate].
  destruct (locate_many _ ls); simpl in H; [|discriminate]. injection H as <-. apply take_axis_pos_wf. exact Hw.
Qed.
Theorem take_axis_position_wf zs rf a r : WF a -> take_axis_position zs rf a = Ok r -> WF r.
Proof.
  intros Hw H. unfold take_axis_position in H. destruct (axis_info a rf); simpl in H; [|discriminate].
  destruct (mapM _ zs); simpl in H; [|discriminate]. injection H as <-. apply take_axis_pos_wf. exact Hw.
Qed.
Theorem sort_axis_wf rf a r : WF a -> sort_axis rf a = Ok r -> WF r.
Proof.
  intros Hw H. unfold sort_axis in H.
  destruct (match rf with ByName s => _ | ByPos z => _ end); simpl in H; [|discriminate].
  injection H as <-. apply take_axis_pos_wf. exact Hw.
Qed.

Theorem interp_axis_wf k news rf l rr a r : WF a -> interp_axis k news rf l rr a = Ok r -> WF r.
Proof.
  intros Hw H. unfold interp_axis in H. destruct (axis_info a rf) as [i|] eqn:Ei; simpl in H; [|discriminate].
  destruct (labels_q news) as [nq|] eqn:En; simpl in H; [|discriminate].
  destruct (labels_q (alab (nth i (axes a) dax0))) as [xq0|]; simpl in H; [|discriminate].
  set (a' := if is_sorted_q xq0 then a else take_axis_pos (argsort (alab (nth i (axes a) dax0))) i a) in H.
  assert (Hw' : WF a') by (unfold a'; destruct (is_sorted_q xq0); [exact Hw | apply take_axis_pos_wf; exact Hw]).
  destruct (labels_q (alab (nth i (axes a') dax0))) as [xq|]; simpl in H; [|discriminate].
  assert (G : WF (mkarr (set_nth i (ax_new (aname (nth i (axes a') dax0)) (match k with KI => KI | _ => KF end) news []) (axes a'))
                        (np_along KF (List.length news) (fun f => map (interp1 xq f l rr) nq) i (vals a')) (attrs a'))).
  { unfold np_along. apply wf_set_axis; [exact Hw' | reflexivity | reflexivity]. }
  destruct (sh (vals a')) as [|n0 [|n1 t]] eqn:Es; injection H as <-; try exact G.
  (* 1-D: the axes list is rebuilt from the new axis alone *)
  destruct Hw' as [[Hs Hd] Hn]. rewrite Es in Hs.
  destruct (axes a') as [|ax0 [|ax1 tl]] eqn:Ea; try discriminate.
  assert (Hi : i = 0).
  { assert (Hlt : i < List.length (axes a')).
    { unfold a'. destruct (is_sorted_q xq0); [apply (axis_info_lt _ _ _ Ei)|].
      unfold take_axis_pos; simpl. rewrite set_nth_length. apply (axis_info_lt _ _ _ Ei). }
    rewrite Ea in Hlt. simpl in Hlt. lia. }
  subst i. simpl in G. simpl. exact G.
Qed.

Lemma like_fold_wf others l rr names : forall (acc : res darr), (forall x, acc = Ok x -> WF x) ->
  forall r, fold_left (like_step others l rr) names acc = Ok r -> WF r.
Proof.
  induction names as [|nm t IH]; intros acc Hacc r H; simpl in H; [apply Hacc; exact H|].
  apply (IH (like_step others l rr acc nm)); [|exact H].
  intros x Hx. unfold like_step in Hx. destruct acc as [o|e]; simpl in Hx; [|discriminate].
  destruct (find _ others) as [[[n k] news]|].
  - eapply interp_axis_wf; [apply Hacc; reflexivity | exact Hx].
  - injection Hx as <-. apply Hacc. reflexivity.
Qed.
Theorem interp_like_wf others l rr a r : WF a -> interp_like others l rr a = Ok r -> WF r.
Proof.
  intros Hw H. unfold interp_like in H. apply (like_fold_wf others l rr (map aname (axes a)) (Ok a)); [|exact H].
  intros x [= <-]. exact Hw.
Qed.

(* ------------------------------------------------------------------ assignments through a mask *)
Lemma mapM_length {A B} (f : A -> res B) l r : mapM f l = Ok r -> List.length r = List.length l.
Proof.
  revert r; induction l as [|x t IH]; intros r H; simpl in H; [injection H as <-; reflexivity|].
  destruct (f x); simpl in H; [|discriminate]. destruct (mapM f t) as [r'|]; simpl in H; [|discriminate].
  injection H as <-. simpl. rewrite (IH r' eq_refl). reflexivity.
Qed.

Theorem setmask_wf m rh c a r : WF a -> setmask m rh c a = Ok r -> WF r.
Proof.
  intros [[Hs Hd] Hn] H. unfold setmask in H. cbv zeta in H.
  destruct (negb (_ =? _)) eqn:El; [discriminate|]. apply negb_false_iff, Nat.eqb_eq in El.
  destruct (match rh with RScalar _ _ => true | RArr w => _ end); [|discriminate].
  destruct (mapM _ _) as [nd|] eqn:Em; simpl in H; [|discriminate]. injection H as <-.
  split; [split; simpl; [exact Hs|] | exact Hn].
  apply mapM_length in Em. rewrite Em, combine_length, seq_length, combine_length. rewrite El, Hd. lia.
Qed.
Theorem fillna_wf c k a r : WF a -> fillna c k a = Ok r -> WF r.
Proof. intros Hw H. unfold fillna in H. destruct (sh (vals a)); [discriminate|]. eapply setmask_wf; eassumption. Qed.
Theorem setna_wf vs a r : WF a -> setna vs a = Ok r -> WF r.
Proof. intros Hw H. eapply setmask_wf; eassumption. Qed.
Theorem setna_mask_wf m a r : WF a -> setna_mask m a = Ok r -> WF r.
Proof. intros Hw H. eapply setmask_wf; eassumption. Qed.

(* ------------------------------------------------------------------ in-place edits of axes *)
Lemma In_set_nth {A} i (x : A) l y : In y (set_nth i x l) -> y = x \/ In y (remove_nth i l).
Proof.
  revert i; induction l as [|z t IH]; intros [|i]; simpl; try tauto.
  - intros [E|H]; [left; symmetry; exact E | right; exact H].
  - intros [E|H]; [right; left; exact E | destruct (IH _ H); [left | right; right]; assumption].
Qed.
Lemma NoDup_set_nth {A} i (x : A) l : NoDup l -> ~ In x (remove_nth i l) -> NoDup (set_nth i x l).
Proof.
  revert i; induction l as [|z t IH]; intros [|i] H Hn; simpl; try exact H.
  - inversion H; subst. constructor; assumption.
  - inversion H as [|? ? Hz Hd]; subst. simpl in Hn. constructor.
    + intros Hin. apply In_set_nth in Hin. destruct Hin as [E|Hin]; [subst; apply Hn; left; reflexivity|].
      apply Hz. eapply In_remove_nth. exact Hin.
    + apply IH; [exact Hd | intros Hin; apply Hn; right; exact Hin].
Qed.

(* a.axes[d].name = n : well-formed when n is not the name of ANOTHER dimension (the Axis object cannot
   check this; see the open finding axis-name-sibling) *)
Theorem rename_axis_wf a i n :
  WF a -> n <> "" -> ~ In n (remove_nth i (dims a)) ->
  WF (mkarr (set_nth i (with_name (nth i (axes a) dax0) n) (axes a)) (vals a) (attrs a)).
Proof.
  intros [[Hs Hd] [Hn He]] Hne Hfresh. split; [split; simpl; [|exact Hd]|].
  - rewrite <- Hs. rewrite map_set_nth. unfold alen at 1, with_name; simpl. apply set_nth_alen_self.
  - unfold dims in *; simpl. rewrite map_set_nth. simpl. split; [apply NoDup_set_nth; assumption|].
    intros Hin. apply In_set_nth in Hin. destruct Hin as [E|Hin]; [apply Hne; symmetry; exact E | apply He; eapply In_remove_nth; exact Hin].
Qed.
(* ... and the witness that the side condition is needed: renaming to a sibling's name breaks C05 *)
Definition ex_two : darr := Arr [Ax "a" KI [L_ 0] [] []; Ax "b" KI [L_ 0; L_ 1] [] []] [1; 2] KF [N_ 1; N_ 2] [].

Theorem set_label_wf a j p l lk :
  WF a -> p < alen (nth j (axes a) dax0) ->
  WF (mkarr (set_nth j {| aname := aname (nth j (axes a) dax0); akind := cast_kind (akind (nth j (axes a) dax0)) lk;
                          alab := set_nth p l (alab (nth j (axes a) dax0)); aattrs := aattrs (nth j (axes a) dax0);
                          amem := amem (nth j (axes a) dax0) |} (axes a)) (vals a) (attrs a)).
Proof.
  intros [[Hs Hd] Hn] _. split; [split; simpl; [|exact Hd]|].
  - rewrite <- Hs. rewrite map_set_nth. unfold alen at 1; simpl. rewrite set_nth_length. apply set_nth_alen_self.
  - unfold dims in *; simpl. rewrite dims_set_same_name; [exact Hn | reflexivity].
Qed.

Theorem set_axis_wf a i k labs n :
  WF a -> i < List.length (axes a) -> List.length labs = alen (nth i (axes a) dax0) ->
  n <> "" -> ~ In n (remove_nth i (dims a)) ->
  WF (mkarr (set_nth i {| aname := n; akind := k; alab := labs; aattrs := aattrs (nth i (axes a) dax0);
                          amem := amem (nth i (axes a) dax0) |} (axes a)) (vals a) (attrs a)).
Proof.
  intros [[Hs Hd] [Hn He]] Hi Hl Hne Hfresh. split; [split; simpl; [|exact Hd]|].
  - rewrite <- Hs. rewrite map_set_nth. unfold alen at 1; simpl. rewrite Hl. apply set_nth_alen_self.
  - unfold dims in *; simpl. rewrite map_set_nth. simpl. split; [apply NoDup_set_nth; assumption|].
    intros Hin. apply In_set_nth in Hin. destruct Hin as [E|Hin]; [apply Hne; symmetry; exact E | apply He; eapply In_remove_nth; exact Hin].
Qed.

Theorem set_axis_same_wf a i k labs :
  WF a -> List.length labs = alen (nth i (axes a) dax0) ->
  WF (mkarr (set_nth i {| aname := aname (nth i (axes a) dax0); akind := k; alab := labs; aattrs := aattrs (nth i (axes a) dax0);
                          amem := amem (nth i (axes a) dax0) |} (axes a)) (vals a) (attrs a)).
Proof.
  intros [[Hs Hd] Hn] Hl. split; [split; simpl; [|exact Hd]|].
  - rewrite <- Hs. rewrite map_set_nth. unfold alen at 1; simpl. rewrite Hl. apply set_nth_alen_self.
  - unfold dims in *; simpl. rewrite dims_set_same_name; [exact Hn | reflexivity].
Qed.

Lemma map_combine_fst_names (axs : list axis) ns :
  List.length ns = List.length axs -> map aname (map (fun p => with_name (fst p) (snd p)) (combine axs ns)) = ns.
Proof.
  revert ns; induction axs as [|ax t IH]; intros [|n ns] H; simpl in *; try reflexivity; try discriminate.
  f_equal. apply IH. lia.
Qed.
Lemma map_combine_fst_alen (axs : list axis) ns :
  List.length ns = List.length axs -> map alen (map (fun p => with_name (fst p) (snd p)) (combine axs ns)) = map alen axs.
Proof.
  revert ns; induction axs as [|ax t IH]; intros [|n ns] H; simpl in *; try reflexivity; try discriminate.
  f_equal. apply IH. lia.
Qed.
Theorem set_dims_wf a ns :
  WF a -> List.length ns = List.length (axes a) -> distinct_str ns = true -> existsb (String.eqb "") ns = false ->
  WF (mkarr (map (fun p => with_name (fst p) (snd p)) (combine (axes a) ns)) (vals a) (attrs a)).
Proof.
  intros [[Hs Hd] Hn] Hl Hdis Hemp. split; [split; simpl; [|exact Hd]|].
  - rewrite map_combine_fst_alen by exact Hl. exact Hs.
  - unfold dims; simpl. rewrite map_combine_fst_names by exact Hl. split; [apply distinct_str_NoDup; exact Hdis|].
    intros Hin. apply existsb_str_In in Hin. congruence.
Qed.

Lemma py_index_lt n z p : py_index n z = Ok p -> p < n.
Proof.
  unfold py_index. destruct (0 <=? z)%Z eqn:E1.
  - destruct (z <? Z.of_nat n)%Z eqn:E2; [|discriminate]. intros [= <-]. lia.
  - destruct (- Z.of_nat n <=? z)%Z eqn:E2; [|discriminate]. intros [= <-]. lia.
Qed.

Lemma construct_ok axs v m a : construct axs v m = Ok a -> a = mkarr axs v m /\ map alen axs = sh v.
Proof.
  unfold construct. destruct (list_eqb Nat.eqb _ _) eqn:E; [|discriminate]. intros [= <-].
  split; [reflexivity | apply list_eqb_nat_eq; exact E].
Qed.

(* ------------------------------------------------------------------ indexing, assignment, arithmetic with a scalar / ndarray *)
From DA.Proofs Require Import C01_proofs C11_proofs.

Lemma getaxes_names axs : forall ps, incl (map aname (getaxes axs ps)) (map aname axs) /\ (NoDup (map aname axs) -> NoDup (map aname (getaxes axs ps))).
Proof.
  induction axs as [|ax t IH]; intros ps; [destruct ps; simpl; split; auto using incl_refl|].
  destruct ps as [|p ps']; [simpl; split; [intros x [] | intros _; constructor]|].
  destruct (IH ps') as [Hi Hn].
  destruct p as [i|l|]; cbn [getaxes map].
  - split; [intros x Hx; right; apply Hi; exact Hx | intros H; apply Hn; inversion H; assumption].
  - split; [intros x [Hx|Hx]; [left; exact Hx | right; apply Hi; exact Hx]|].
    intros H. inversion H as [|? ? Hx Hd]; subst. constructor; [intros Hin; apply Hx; apply Hi; exact Hin | apply Hn; exact Hd].
  - split; [intros x [Hx|Hx]; [left; exact Hx | right; apply Hi; exact Hx]|].
    intros H. inversion H as [|? ? Hx Hd]; subst. constructor; [intros Hin; apply Hx; apply Hi; exact Hin | apply Hn; exact Hd].
Qed.

Theorem getitem_wf f tol kd a v : WF a -> getitem f tol kd a = Ok v -> WFv v.
Proof.
  intros [Hw [Hn He]] H. destruct v; try exact I.
  destruct (getitem_spec f tol kd a a0 Hw H) as [ps [_ [Hw' [_ [Hax _]]]]].
  split; [exact Hw'|]. unfold dims. rewrite Hax. destruct (getaxes_names (axes a) ps) as [Hi Hd].
  split; [apply Hd; exact Hn | intros Hin; apply He; apply Hi; exact Hin].
  (* lists of arrays are never returned by getitem *)
  unfold getitem in H. destruct (get_indices a f tol kd); simpl in H; [|discriminate]. destruct (all_int _); discriminate.
Qed.

Theorem setitem_wf f tol r c a b : WF a -> setitem f tol r c a = Ok b -> WF b.
Proof.
  intros [[Hs Hd] Hn] H. unfold setitem in H. destruct (get_indices a f tol false) as [ps|]; simpl in H; [|discriminate].
  match type of H with (let! v := ?X in _) = _ => destruct X as [v|] eqn:Ev end; simpl in H; [|discriminate]. injection H as <-.
  unfold np_set_outer in Ev. destruct (match r with RScalar _ _ => true | RArr w => _ end); [|discriminate].
  destruct (mapM _ (coords (sh (vals a)))) as [nd|] eqn:Em; simpl in Ev; [|discriminate]. injection Ev as <-.
  split; [split; simpl; [exact Hs|] | exact Hn].
  rewrite (mapM_length _ _ _ Em). apply coords_length.
Qed.

Lemma np_binop_wf o x y v : np_binop o x y = Ok v -> List.length (dat v) = prod (sh v).
Proof. unfold np_binop. destruct (_ && _); [|discriminate]. intros [= <-]. simpl. apply tab_length. Qed.
Theorem op_scalar_wf o c k refl a b : WF a -> op_scalar o c k refl a = Ok b -> WF b.
Proof.
  intros [[Hs Hd] Hn] H. unfold op_scalar in H.
  match type of H with (let! v := ?X in _) = _ => destruct X as [v|] eqn:Ev end; simpl in H; [|discriminate].
  destruct (construct_ok _ _ _ _ H) as [-> Hsh]. split; [split; simpl; [exact Hsh|] | exact Hn].
  destruct refl; eapply np_binop_wf; exact Ev.
Qed.
Theorem op_ndarray_wf o w a b : WF a -> op_ndarray o w a = Ok b -> WF b.
Proof.
  intros [[Hs Hd] Hn] H. unfold op_ndarray in H. destruct (_ <? _); [discriminate|].
  match type of H with (let! v := ?X in _) = _ => destruct X as [v|] eqn:Ev end; simpl in H; [|discriminate].
  destruct (construct_ok _ _ _ _ H) as [-> Hsh]. split; [split; simpl; [exact Hsh|] | exact Hn].
  eapply np_binop_wf; exact Ev.
Qed.

(* ------------------------------------------------------------------ reindexing *)
Lemma fill_axis_wf i mask fill fk o o' : WF o -> fill_axis i mask fill fk o = Ok o' -> WF o' /\ axes o' = axes o.
Proof.
  intros [[Hs Hd] Hn] H. unfold fill_axis in H. destruct (mapM _ _) as [nd|] eqn:Em; simpl in H; [|discriminate]. injection H as <-.
  split; [|reflexivity]. split; [split; simpl; [exact Hs|] | exact Hn].
  rewrite (mapM_length _ _ _ Em). apply coords_length.
Qed.

Theorem reindex_main_wf newk news i fill fk re m a r : WF a -> reindex_main newk news i fill fk re m a = Ok r -> WF r.
Proof.
  intros Hw H. unfold reindex_main in H. cbv zeta in H.
  destruct (locate_many_raw _ _ news) as [idxs|] eqn:El; simpl in H; [|discriminate].
  pose proof (locate_many_raw_length _ _ _ _ El) as Hlen.
  set (o := take_axis_pos idxs i a) in *.
  assert (Ho : WF o) by (apply take_axis_pos_wf; exact Hw).
  destruct (existsb _ _); [|injection H as <-; exact Ho].
  destruct re; [discriminate|].
  match type of H with (let! o := ?X in _) = _ => destruct X as [o2|] eqn:E2 end; simpl in H; [|discriminate]. injection H as <-.
  assert (H2 : WF o2 /\ axes o2 = axes o).
  { destruct m; [eapply fill_axis_wf; eassumption | injection E2 as <-; split; [exact Ho | reflexivity] | injection E2 as <-; split; [exact Ho | reflexivity]]. }
  destruct H2 as [[[Hs2 Hd2] Hn2] Hax2].
  split; [split; simpl; [|exact Hd2]|].
  - rewrite <- Hs2. rewrite map_set_nth.
    assert (Hal : alen (relabel (nth i (axes o2) dax0) newk (map (fun p : bool * label => if fst p then Some (snd p) else None)
                   (combine (map (fun p => negb (label_eqb (nth_lab (alab (nth i (axes a) dax0)) (fst p)) (snd p))) (combine idxs news)) news)))
                  = alen (nth i (axes o2) dax0)).
    { unfold alen, relabel. cbn [alab]. rewrite map_length, combine_length, map_length, combine_length, map_length, combine_length.
      destruct (Nat.lt_ge_cases i (List.length (axes a))) as [Hi|Hi].
      - rewrite Hax2. unfold o, take_axis_pos. cbn [axes mkarr]. rewrite nth_set_nth_eq by exact Hi. unfold with_labels. cbn [alab]. rewrite map_length. lia.
      - rewrite Hax2. unfold o, take_axis_pos. cbn [axes mkarr]. rewrite nth_overflow by (rewrite set_nth_length; exact Hi). simpl. lia. }
    rewrite Hal. apply set_nth_alen_self.
  - unfold dims in *. cbn [axes mkarr]. rewrite dims_set_same_name; [exact Hn2 | reflexivity].
Qed.

Theorem reindex_axis_wf newk news rf fill fk re m a r : WF a -> reindex_axis newk news rf fill fk re m a = Ok r -> WF r.
Proof.
  intros Hw H. unfold reindex_axis in H.
  match type of H with (let! i := ?X in _) = _ => destruct X as [i|] eqn:Ei end; simpl in H; [|discriminate].
  destruct (_ && _).
  - unfold reindex_empty in H. cbv zeta in H. destruct re; [discriminate|].
    destruct (cell_to_kind _ fill) as [c|]; simpl in H; [|discriminate]. injection H as <-.
    apply wf_set_axis; [exact Hw | reflexivity | reflexivity].
  - eapply reindex_main_wf; eassumption.
Qed.
Theorem reindex_to_axis_wf nx a r : WF a -> reindex_to_axis nx a = Ok r -> WF r.
Proof. intros Hw H. unfold reindex_to_axis in H. eapply reindex_axis_wf; eassumption. Qed.
Lemma reindex_like_go_wf tmpl own : forall a r, WF a -> reindex_like_go own tmpl a = Ok r -> WF r.
Proof.
  induction own as [|ax t IH]; intros a r Hw H; simpl in H; [injection H as <-; exact Hw|].
  destruct (find _ tmpl) as [nx|]; [|eapply IH; eassumption].
  destruct (reindex_axis _ _ _ _ _ _ _ a) as [a'|] eqn:E; simpl in H; [|discriminate].
  eapply IH; [eapply reindex_axis_wf; eassumption | exact H].
Qed.
Theorem reindex_like_wf tmpl a r : WF a -> reindex_like tmpl a = Ok r -> WF r.
Proof. intros Hw H. eapply reindex_like_go_wf; eassumption. Qed.
Theorem unflatten_wf_plain a r : WF a -> Forall (fun ax => amem ax = []) (axes a) -> unflatten a = Ok r -> WF r.
Proof.
  intros [[Hs Hd] Hn] Hp H. unfold unflatten in H. rewrite (C11_proofs.unflatten_axes_plain _ Hp) in H.
  destruct (negb _); [discriminate|]. injection H as <-.
  split; [split; simpl; [reflexivity | rewrite Hs; exact Hd] | exact Hn].
Qed.

(* ------------------------------------------------------------------ align, reshape to given dims, binary operations *)
From DA.Proofs Require Import C06_proofs.

Lemma mapM_Forall {A B} (f : A -> res B) (P : A -> Prop) (Q : B -> Prop) l r :
  (forall x y, P x -> f x = Ok y -> Q y) -> Forall P l -> mapM f l = Ok r -> Forall Q r.
Proof.
  intros Hf. revert r; induction l as [|x t IH]; intros r Hl H; simpl in H; [injection H as <-; constructor|].
  inversion Hl as [|? ? Hx Ht]; subst.
  destruct (f x) as [y|] eqn:E; simpl in H; [|discriminate]. destruct (mapM f t) as [r'|]; simpl in H; [|discriminate].
  injection H as <-. constructor; [eapply Hf; eassumption | apply IH; [exact Ht | reflexivity]].
Qed.

Theorem align_one_wf axs a a' : WF a -> align_one axs a = Ok a' -> WF a'.
Proof.
  intros [Hw Hn] H. destruct (align_one_frame axs a a' Hw H) as [Hd [_ [Hw' _]]]. split; [exact Hw' | rewrite Hd; exact Hn].
Qed.
Theorem align_wf arrays j ax srt strict l : Forall WF arrays -> align arrays j ax srt strict = Ok l -> Forall WF l.
Proof.
  intros Hall H. unfold align in H. destruct (aligned_axes _ _ _ _ _) as [axs|]; simpl in H; [|discriminate].
  eapply (mapM_Forall (align_one axs) WF WF); [|exact Hall | exact H]. intros x y Hx Hy. eapply align_one_wf; eassumption.
Qed.

Lemma squeeze_absent_wf ds newdims : forall a r, WF a -> squeeze_absent ds newdims a = Ok r -> WF r.
Proof.
  induction ds as [|d t IH]; intros a r Hw H; cbn [squeeze_absent] in H; [injection H as <-; exact Hw|].
  destruct (mem_str d newdims); [eapply IH; eassumption|].
  destruct (squeeze (Some (ByName d)) a) as [a'|] eqn:E; cbn [bind] in H; [|discriminate].
  eapply IH; [eapply squeeze_wf; eassumption | exact H].
Qed.
Lemma add_missing_wf newdims : forall i a r, ~ In "" newdims -> WF a -> add_missing newdims i a = Ok r -> WF r.
Proof.
  induction newdims as [|d t IH]; intros i a r He Hw H; cbn [add_missing] in H; [injection H as <-; exact Hw|].
  assert (He' : ~ In "" t) by (intros Hin; apply He; right; exact Hin).
  destruct (mem_str d (dims a)); [eapply IH; eassumption|].
  destruct (newaxis d None (Z.of_nat i) a) as [a'|] eqn:E; cbn [bind] in H; [|discriminate].
  eapply IH; [exact He' | eapply newaxis_wf; [|exact Hw | exact E] | exact H].
  intros ->. apply He. left. reflexivity.
Qed.
Theorem reshape_plain_wf newdims a r : ~ In "" newdims -> WF a -> reshape_plain newdims a = Ok r -> WF r.
Proof.
  intros He Hw H. unfold reshape_plain in H. destruct (list_eqb String.eqb newdims (dims a)); [injection H as <-; exact Hw|].
  destruct (negb _); [discriminate|].
  destruct (squeeze_absent (dims a) newdims a) as [o1|] eqn:E1; cbn [bind] in H; [|discriminate].
  destruct (transpose _ o1) as [o2|] eqn:E2; cbn [bind] in H; [|discriminate].
  destruct (add_missing newdims 0 o2) as [o3|] eqn:E3; cbn [bind] in H; [|discriminate].
  destruct (list_eqb String.eqb (dims o3) newdims); [|discriminate]. injection H as <-.
  eapply add_missing_wf; [exact He | | exact E3]. eapply transpose_wf; [|exact E2]. eapply squeeze_absent_wf; eassumption.
Qed.

Lemma get_dims_nonempty arrays : forall acc, ~ In "" acc -> Forall (fun a => ~ In "" (dims a)) arrays -> ~ In "" (get_dims arrays acc).
Proof.
  induction arrays as [|a t IH]; intros acc Ha Hall; simpl; [exact Ha|].
  inversion Hall as [|? ? H1 Ht]; subst. apply IH; [|exact Ht].
  clear -Ha H1. revert acc Ha. induction (dims a) as [|d ds IHd]; intros acc Ha; simpl; [exact Ha|].
  apply IHd; [intros H; apply H1; right; exact H|].
  destruct (mem_str d acc); [exact Ha|]. intros Hin. apply in_app_or in Hin. destruct Hin as [Hin|[E|[]]]; [contradiction|].
  apply H1. left. exact E.
Qed.
Theorem align_dims_wf arrays l : Forall WF arrays -> align_dims arrays = Ok l -> Forall WF l.
Proof.
  intros Hall H. unfold align_dims in H. destruct arrays as [|a0 t]; [injection H as <-; constructor|].
  destruct (forallb _ t); [injection H as <-; exact Hall|].
  assert (Hne : ~ In "" (get_dims (a0 :: t) [])).
  { apply get_dims_nonempty; [intros []|]. eapply Forall_impl; [|exact Hall]. intros a [_ [_ He]]. exact He. }
  eapply (mapM_Forall _ WF WF); [|exact Hall | exact H]. intros x y Hx Hy. eapply reshape_plain_wf; eassumption.
Qed.

Lemma axis_of_name b d bx : axis_of b d = Some bx -> aname bx = d.
Proof.
  unfold axis_of. destruct (find_dim (dims b) d) as [i|] eqn:E; [|discriminate]. intros H.
  unfold find_dim in E. apply index_of_some in E. destruct E as [Hi [Ei _]]. specialize (Ei EmptyString).
  apply String.eqb_eq in Ei. apply nth_error_nth with (d := dax0) in H.
  unfold dims in Ei, Hi. rewrite map_length in Hi. rewrite (nth_map_in aname (axes b) i dax0 EmptyString) in Ei by exact Hi.
  rewrite H in Ei. symmetry. exact Ei.
Qed.

Theorem operation_wf o a b r : WF a -> WF b -> operation o a b = Ok r -> WF r.
Proof.
  intros Ha Hb H. unfold operation in H.
  destruct (align [a; b] Outer None false false) as [al|] eqn:E1; simpl in H; [|discriminate].
  assert (W1 : Forall WF al) by (eapply align_wf; [|exact E1]; constructor; [exact Ha | constructor; [exact Hb | constructor]]).
  destruct (align_dims al) as [al2|] eqn:E2; simpl in H; [|discriminate].
  assert (W2 : Forall WF al2) by (eapply align_dims_wf; eassumption).
  destruct al2 as [|a' [|b' [|]]]; try discriminate.
  inversion W2 as [|? ? Wa' W2']; subst. inversion W2' as [|? ? Wb' _]; subst.
  destruct (mapM _ (axes a')) as [newaxes|] eqn:Em; simpl in H; [|discriminate].
  destruct (np_binop o (vals a') (vals b')) as [v|] eqn:Ev; simpl in H; [|discriminate].
  destruct (construct_ok _ _ _ _ H) as [-> Hsh].
  assert (Hnames : map aname newaxes = map aname (axes a')).
  { clear -Em. revert newaxes Em. induction (axes a') as [|ax t IH]; intros newaxes Em; simpl in Em; [injection Em as <-; reflexivity|].
    destruct (alen ax =? 0); [discriminate|].
    destruct (is_none_axis ax).
    - destruct (axis_of b' (aname ax)) as [bx|] eqn:Eb; simpl in Em; [|discriminate].
      destruct (mapM _ t) as [r'|] eqn:Et; simpl in Em; [|discriminate]. injection Em as <-. simpl. f_equal; [apply (axis_of_name _ _ _ Eb) | apply IH; reflexivity].
    - simpl in Em. destruct (mapM _ t) as [r'|] eqn:Et; simpl in Em; [|discriminate]. injection Em as <-. simpl. f_equal. apply IH. reflexivity. }
  destruct Wa' as [_ Hn]. split; [split; simpl; [exact Hsh | eapply np_binop_wf; exact Ev]|].
  unfold dims in *. simpl. rewrite Hnames. exact Hn.
Qed.

(* ------------------------------------------------------------------ broadcast / broadcast_arrays *)
Lemma broadcast_repeat_wf newaxes : forall o r, WF o -> broadcast_repeat newaxes o = Ok r -> WF r.
Proof.
  induction newaxes as [|nx t IH]; intros o r Hw H; cbn [broadcast_repeat] in H; [injection H as <-; exact Hw|].
  destruct (broadcast_repeat t o) as [o1|] eqn:E1; cbn [bind] in H; [|discriminate].
  assert (W1 : WF o1) by (eapply IH; eassumption).
  destruct (find_dim (dims o1) (aname nx)) as [i|]; [|discriminate].
  destruct (_ && _); [eapply repeat_wf; eassumption | injection H as <-; exact W1].
Qed.
Theorem broadcast_wf newaxes a r : ~ In "" (map aname newaxes) -> WF a -> broadcast newaxes a = Ok r -> WF r.
Proof.
  intros He Hw H. unfold broadcast, broadcast_with in H.
  destruct (reshape_plain (map aname newaxes) a) as [o|] eqn:E; cbn [bind] in H; [|discriminate].
  eapply broadcast_repeat_wf; [|exact H]. eapply reshape_plain_wf; eassumption.
Qed.
Lemma pick_axis_fold_name d arrays : forall acc o,
  (forall c, acc = Ok (Some c) -> aname c = d) ->
  fold_left (pick_axis_step d) arrays acc = Ok (Some o) -> aname o = d.
Proof.
  induction arrays as [|a t IH]; intros acc o Hacc H; cbn [fold_left] in H; [apply Hacc; exact H|].
  eapply IH; [|exact H]. intros c Hc. unfold pick_axis_step in Hc.
  destruct acc as [c0|]; cbn [bind] in Hc; [|discriminate].
  destruct (axis_of a d) as [ax|] eqn:Ea; [|apply Hacc; exact Hc].
  destruct (_ || _); [|discriminate]. injection Hc as <-.
  destruct c0 as [cx|]; [|eapply axis_of_name; exact Ea].
  destruct (_ && _); [eapply axis_of_name; exact Ea | apply Hacc; reflexivity].
Qed.
Lemma pick_axes_names arrays axs : pick_axes arrays = Ok axs -> map aname axs = get_dims arrays [].
Proof.
  unfold pick_axes. generalize (get_dims arrays []). intros ds. revert axs.
  induction ds as [|d t IH]; intros axs H; cbn [mapM] in H; [injection H as <-; reflexivity|].
  destruct (fold_left (pick_axis_step d) arrays (Ok None)) as [[o|]|] eqn:E; cbn [bind] in H; try discriminate.
  destruct (mapM _ t) as [r'|] eqn:Et; cbn [bind] in H; [|discriminate]. injection H as <-. cbn [map]. f_equal.
  - eapply pick_axis_fold_name; [|exact E]. intros c Hc. discriminate.
  - apply IH. reflexivity.
Qed.
Theorem broadcast_arrays_wf arrays l : Forall WF arrays -> broadcast_arrays arrays = Ok l -> Forall WF l.
Proof.
  intros Hall H. unfold broadcast_arrays in H.
  destruct (align_dims arrays) as [arrs|] eqn:E1; cbn [bind] in H; [|discriminate].
  assert (W1 : Forall WF arrs) by (eapply align_dims_wf; eassumption).
  destruct (pick_axes arrs) as [axs|] eqn:E2; cbn [bind] in H; [|discriminate].
  assert (Hne : ~ In "" (map aname axs)).
  { rewrite (pick_axes_names _ _ E2). apply get_dims_nonempty; [intros []|]. eapply Forall_impl; [|exact W1]. intros a [_ [_ He]]. exact He. }
  eapply (mapM_Forall _ WF WF); [|exact W1 | exact H]. intros x y Hx Hy. eapply broadcast_wf; eassumption.
Qed.
Lemma dflt_arr_wf : WF dflt_arr.
Proof. split; [split; reflexivity | split; [constructor | intros []]]. Qed.
Lemma nth_ins_wf ins i : Forall WF ins -> WF (nth i ins dflt_arr).
Proof.
  intros H. destruct (Nat.lt_ge_cases i (List.length ins)) as [Hi|Hi].
  - rewrite Forall_forall in H. apply H. apply nth_In. exact Hi.
  - rewrite nth_overflow by exact Hi. exact dflt_arr_wf.
Qed.

(* ================================================================== constructors *)
Lemma NoDup_snoc {A} (l : list A) x : NoDup l -> ~ In x l -> NoDup (l ++ [x]).
Proof.
  induction l as [|y t IH]; intros H Hn; simpl; [constructor; [intros [] | constructor]|].
  inversion H as [|? ? Hy Hd]; subst. constructor.
  - intros Hin. apply in_app_or in Hin. destruct Hin as [Hin|[E|[]]]; [contradiction | subst; apply Hn; left; reflexivity].
  - apply IH; [exact Hd | intros Hin; apply Hn; right; exact Hin].
Qed.

Lemma append_all_spec l : forall acc r,
  append_all acc l = Ok r -> NoDup (map aname acc) -> r = acc ++ l /\ NoDup (map aname r).
Proof.
  induction l as [|ax t IH]; intros acc r H Hn; simpl in H.
  - injection H as <-. rewrite app_nil_r. split; [reflexivity | exact Hn].
  - destruct (mem_str (aname ax) (map aname acc)) eqn:Em; [discriminate|]. apply mem_str_false in Em.
    destruct (IH _ _ H) as [E Hd].
    + rewrite map_app. simpl. apply NoDup_snoc; assumption.
    + split; [rewrite E, <- app_assoc; reflexivity | exact Hd].
Qed.
(* ... and conversely: distinct names are accepted, a repeated name is rejected *)
Lemma append_all_ok l : forall acc, NoDup (map aname (acc ++ l)) -> append_all acc l = Ok (acc ++ l).
Proof.
  induction l as [|ax t IH]; intros acc Hn; simpl; [rewrite app_nil_r; reflexivity|].
  assert (Hx : ~ In (aname ax) (map aname acc)).
  { rewrite map_app in Hn. simpl in Hn. apply NoDup_remove_2 in Hn. intros Hin. apply Hn. apply in_or_app. left. exact Hin. }
  apply mem_str_false in Hx. rewrite Hx. rewrite IH; rewrite <- app_assoc; [reflexivity | exact Hn].
Qed.
Lemma append_all_dup l : forall acc, NoDup (map aname acc) -> ~ NoDup (map aname (acc ++ l)) -> append_all acc l = Err ValueError.
Proof.
  induction l as [|ax t IH]; intros acc Hacc Hn; simpl.
  - exfalso. apply Hn. rewrite app_nil_r. exact Hacc.
  - destruct (mem_str (aname ax) (map aname acc)) eqn:Em; [reflexivity|]. apply mem_str_false in Em.
    apply IH; [rewrite map_app; apply NoDup_snoc; assumption | rewrite <- app_assoc; exact Hn].
Qed.

(* the axes built from names and labels *)
Definition named (p : dname * labspec) : res axis := mk_named_axis (fst p) (fst (snd p)) (snd (snd p)).
Lemma mk_named_ok n k l ax : mk_named_axis n k l = Ok ax -> exists s, n = DStr s /\ s <> "" /\ ax = mkaxis s k l.
Proof.
  destruct n as [s|]; simpl; [|discriminate]. destruct (String.eqb_spec s ""); [discriminate|].
  intros [= <-]. exists s. auto.
Qed.
Lemma mapM_named_nonempty l axs : mapM named l = Ok axs -> ~ In "" (map aname axs).
Proof.
  revert axs; induction l as [|p t IH]; intros axs H; simpl in H; [injection H as <-; intros []|].
  destruct (named p) as [ax|] eqn:E; simpl in H; [|discriminate]. destruct (mapM named t) as [r|]; simpl in H; [|discriminate].
  injection H as <-. simpl. intros [Hx|Hx]; [|exact (IH r eq_refl Hx)].
  destruct (mk_named_ok _ _ _ _ E) as [s [_ [Hs ->]]]. simpl in Hx. congruence.
Qed.
Lemma mapM_named_strs (ns : list string) (ls : list labspec) :
  List.length ns = List.length ls -> ~ In "" ns ->
  mapM named (combine (map DStr ns) ls) = Ok (map (fun p => mkaxis (fst p) (fst (snd p)) (snd (snd p))) (combine ns ls)).
Proof.
  revert ls; induction ns as [|n t IH]; intros [|l ls] Hl He; simpl in *; try reflexivity; try discriminate.
  unfold named at 1; simpl. destruct (String.eqb_spec n ""); [exfalso; apply He; left; assumption|].
  simpl. rewrite IH; [reflexivity | lia | tauto].
Qed.

Lemma mapM_mk_nonempty {X} (f : X -> dname) (g : X -> kind) (h : X -> list label) l axs :
  mapM (fun p => mk_named_axis (f p) (g p) (h p)) l = Ok axs -> ~ In "" (map aname axs).
Proof.
  revert axs; induction l as [|p t IH]; intros axs H; simpl in H; [injection H as <-; intros []|].
  destruct (mk_named_axis (f p) (g p) (h p)) as [ax|] eqn:E; simpl in H; [|discriminate].
  destruct (mapM _ t) as [r|]; simpl in H; [|discriminate].
  injection H as <-. simpl. intros [Hx|Hx]; [|exact (IH r eq_refl Hx)].
  destruct (mk_named_ok _ _ _ _ E) as [s [_ [Hs ->]]]. simpl in Hx. congruence.
Qed.

(* the insertion sort of the dict form permutes the axes *)
Lemma ins_by_perm key x l : Permutation (ins_by key x l) (x :: l).
Proof.
  induction l as [|y t IH]; simpl; [apply Permutation_refl|].
  destruct (key x <=? key y); [apply Permutation_refl|].
  eapply Permutation_trans; [apply perm_skip; exact IH | apply perm_swap].
Qed.
Lemma sort_by_perm key l : Permutation (sort_by key l) l.
Proof.
  induction l as [|x t IH]; simpl; [constructor|].
  eapply Permutation_trans; [apply ins_by_perm | apply perm_skip; exact IH].
Qed.

Definition spec_ok (sp : axspec) : Prop :=
  match sp with SAxisObjs l => ~ In "" (map aname l) | _ => True end.

Lemma from_shape_names ds shape axs : from_shape ds shape = Ok axs -> names_ok (map aname axs).
Proof.
  unfold from_shape. intros H. destruct (_ <? _); [discriminate|]. destruct (negb _); [discriminate|]. destruct (mapM _ _) as [m|] eqn:Em; simpl in H; [|discriminate].
  destruct (append_all_spec _ _ _ H (NoDup_nil _)) as [-> Hd]. simpl in *. split; [exact Hd|].
  apply (mapM_mk_nonempty (fun p : dname * nat => fst p) (fun _ => KI) (fun p => arange_labels (snd p)) _ _ Em).
Qed.

Lemma init_axes_dict_ne l ds shape : l <> [] ->
  init_axes (SDict l ds) shape =
  (if List.length l <? List.length ds then Err ValueError else
   let! axs := mapM named l in let! axs := append_all [] axs in
   if negb (forallb (fun ax => existsb (dname_eqb (DStr (aname ax))) ds) axs) then Err ValueError
   else Ok (sort_by (fun ax => dn_index ds (aname ax)) axs)).
Proof. destruct l; [contradiction | reflexivity]. Qed.

Theorem init_axes_names sp shape axs : spec_ok sp -> init_axes sp shape = Ok axs -> names_ok (map aname axs).
Proof.
  intros Hsp H. destruct sp as [labs [ds|] | l | l | l ds | ds | ]; simpl in H.
  - destruct (negb _); [discriminate|]. destruct (mapM _ _) as [m|] eqn:Em; simpl in H; [|discriminate].
    destruct (append_all_spec _ _ _ H (NoDup_nil _)) as [-> Hd]. simpl in *. split; [exact Hd | eapply mapM_mk_nonempty; exact Em].
  - destruct (mapM _ _) as [m|] eqn:Em; simpl in H; [|discriminate].
    destruct (append_all_spec _ _ _ H (NoDup_nil _)) as [-> Hd]. simpl in *. split; [exact Hd|].
    apply (mapM_mk_nonempty (fun p : nat * labspec => DStr (default_name (fst p))) (fun p => fst (snd p)) (fun p => snd (snd p)) _ _ Em).
  - destruct (mapM _ _) as [m|] eqn:Em; simpl in H; [|discriminate].
    destruct (append_all_spec _ _ _ H (NoDup_nil _)) as [-> Hd]. simpl in *. split; [exact Hd | eapply mapM_mk_nonempty; exact Em].
  - destruct (append_all_spec _ _ _ H (NoDup_nil _)) as [-> Hd]. simpl in *. split; assumption.
  - destruct l as [|p0 l0]; [eapply from_shape_names; exact H|].
    change (init_axes (SDict (p0 :: l0) ds) shape = Ok axs) in H. rewrite init_axes_dict_ne in H by discriminate.
    destruct (_ <? _); [discriminate|].
    destruct (mapM named (p0 :: l0)) as [m|] eqn:Em; cbn [bind] in H; [|discriminate]. unfold named in Em.
    destruct (append_all [] m) as [m'|] eqn:Ea; simpl in H; [|discriminate].
    destruct (negb _); [discriminate|]. injection H as <-.
    destruct (append_all_spec _ _ _ Ea (NoDup_nil _)) as [-> Hd]. simpl in Hd. cbn [app].
    eapply names_ok_perm; [apply Permutation_map; apply sort_by_perm|]. split; [exact Hd|].
    apply (mapM_mk_nonempty (fun p : dname * labspec => fst p) (fun p => fst (snd p)) (fun p => snd (snd p)) _ _ Em).
  - eapply from_shape_names; exact H.
  - destruct (mapM _ _) as [m|] eqn:Em; simpl in H; [|discriminate].
    destruct (append_all_spec _ _ _ H (NoDup_nil _)) as [-> Hd]. simpl in *. split; [exact Hd|].
    apply (mapM_mk_nonempty (fun p : nat * nat => DStr (default_name (fst p))) (fun _ => KI) (fun p => arange_labels (snd p)) _ _ Em).
Qed.

(* every array a constructor form returns is well-formed *)
Theorem ctor_wf sp v a : spec_ok sp -> List.length (dat v) = prod (sh v) -> ctor sp v = Ok a -> WF a.
Proof.
  intros Hsp Hv H. unfold ctor in H. destruct (init_axes sp (sh v)) as [axs|] eqn:E; simpl in H; [|discriminate].
  destruct (construct_ok _ _ _ _ H) as [-> Hs]. split; [split; simpl; assumption | exact (init_axes_names _ _ _ Hsp E)].
Qed.
Theorem ctor_fill_wf sp shape c k a : spec_ok sp -> ctor_fill sp shape c k = Ok a -> WF a.
Proof.
  intros Hsp H. unfold ctor_fill in H. destruct (init_axes sp _) as [axs|] eqn:E; simpl in H; [|discriminate].
  destruct (construct_ok _ _ _ _ H) as [-> Hs]. simpl in Hs. split; [split; simpl; [exact Hs | apply tab_length] | exact (init_axes_names _ _ _ Hsp E)].
Qed.

(* data whose shape disagrees with the axes is rejected, whatever the form *)
Theorem ctor_rejects_shape sp v axs : init_axes sp (sh v) = Ok axs -> map alen axs <> sh v -> ctor sp v = Err OtherError.
Proof.
  intros E Hne. unfold ctor. rewrite E. simpl. unfold construct.
  destruct (list_eqb Nat.eqb _ _) eqn:El; [apply list_eqb_nat_eq in El; contradiction | reflexivity].
Qed.
(* duplicate dimension names are rejected *)
Theorem ctor_rejects_dup_axisobjs l v : ~ NoDup (map aname l) -> ctor (SAxisObjs l) v = Err ValueError.
Proof. intros H. unfold ctor; simpl. rewrite (append_all_dup l [] (NoDup_nil _) H). reflexivity. Qed.
Theorem ctor_rejects_dup_pairs (ns : list string) ls v :
  List.length ns = List.length ls -> ~ In "" ns -> ~ NoDup ns -> ctor (SPairs (combine (map DStr ns) ls)) v = Err ValueError.
Proof.
  intros Hl He Hd. unfold ctor; simpl.
  change (mapM _ (combine (map DStr ns) ls)) with (mapM named (combine (map DStr ns) ls)).
  rewrite (mapM_named_strs ns ls Hl He). simpl.
  rewrite append_all_dup; [reflexivity | constructor |]. simpl. rewrite map_map. simpl.
  intros Hn. apply Hd. clear -Hn Hl. revert ls Hl Hn. induction ns as [|n t IH]; intros [|l ls] Hl Hn; simpl in *; try discriminate; [constructor|].
  inversion Hn as [|? ? Hx Hn']; subst. constructor; [|apply (IH ls); [lia | exact Hn']].
  intros Hin. apply Hx. clear -Hin Hl. revert ls Hl. induction t as [|y t IH]; intros [|l ls] Hl; simpl in *; try discriminate; try tauto.
  destruct Hin as [E|Hin]; [left; exact E | right; apply IH; [exact Hin | lia]].
Qed.
Theorem ctor_rejects_dup_lists (ns : list string) ls v :
  List.length ns = List.length ls -> ~ In "" ns -> ~ NoDup ns -> ctor (SLists ls (Some (map DStr ns))) v = Err ValueError.
Proof.
  intros Hl He Hd. pose proof (ctor_rejects_dup_pairs ns ls v Hl He Hd) as H. unfold ctor in *; simpl in *.
  rewrite map_length, Hl, Nat.eqb_refl. simpl. exact H.
Qed.

(* ------------------------------------------------------------------ all forms build the same array *)
Definition axes_of (ns : list string) (ls : list labspec) : list axis :=
  map (fun p => mkaxis (fst p) (fst (snd p)) (snd (snd p))) (combine ns ls).
Lemma axes_of_names ns ls : List.length ns = List.length ls -> map aname (axes_of ns ls) = ns.
Proof.
  unfold axes_of. revert ls; induction ns as [|n t IH]; intros [|l ls] H; simpl in *; try reflexivity; try discriminate.
  f_equal. apply IH. lia.
Qed.

Theorem ctor_lists_pairs (ns : list dname) ls v :
  List.length ns = List.length ls -> ctor (SLists ls (Some ns)) v = ctor (SPairs (combine ns ls)) v.
Proof. intros Hl. unfold ctor; simpl. rewrite Hl, Nat.eqb_refl. reflexivity. Qed.

Theorem ctor_pairs_objs (ns : list string) ls v :
  List.length ns = List.length ls -> ~ In "" ns ->
  ctor (SPairs (combine (map DStr ns) ls)) v = ctor (SAxisObjs (axes_of ns ls)) v.
Proof.
  intros Hl He. unfold ctor; simpl.
  change (mapM _ (combine (map DStr ns) ls)) with (mapM named (combine (map DStr ns) ls)).
  rewrite (mapM_named_strs ns ls Hl He). reflexivity.
Qed.

(* sorting *)
Section Sorting.
  Variable key : axis -> nat.
  Let R (x y : axis) := key x <= key y.
  Lemma ins_by_sorted x l : StronglySorted R l -> StronglySorted R (ins_by key x l).
  Proof.
    induction l as [|y t IH]; intros H; simpl; [constructor; constructor|].
    inversion H as [|? ? Hs Hf]; subst. destruct (Nat.leb_spec (key x) (key y)) as [Hle|Hgt].
    - constructor; [exact H|]. constructor; [exact Hle|].
      rewrite Forall_forall in *. intros z Hz. unfold R in *. specialize (Hf z Hz). lia.
    - constructor; [apply IH; exact Hs|]. rewrite Forall_forall in *. intros z Hz.
      apply (Permutation_in _ (ins_by_perm key x t)) in Hz. destruct Hz as [<-|Hz]; [unfold R; lia | apply Hf; exact Hz].
  Qed.
  Lemma sort_by_sorted l : StronglySorted R (sort_by key l).
  Proof. induction l as [|x t IH]; simpl; [constructor | apply ins_by_sorted; exact IH]. Qed.

  (* a list sorted on an injective key is determined by its elements *)
  Lemma sorted_perm_unique l1 : forall l2,
    Permutation l1 l2 -> StronglySorted R l1 -> StronglySorted R l2 ->
    (forall x y, In x l1 -> In y l1 -> key x = key y -> x = y) -> l1 = l2.
  Proof.
    induction l1 as [|x t1 IH]; intros l2 Hp H1 H2 Hinj.
    - apply Permutation_nil in Hp. subst. reflexivity.
    - destruct l2 as [|y t2]; [apply Permutation_sym, Permutation_nil in Hp; discriminate|].
      inversion H1 as [|? ? Hs1 Hf1]; subst. inversion H2 as [|? ? Hs2 Hf2]; subst.
      assert (Hxy : x = y).
      { assert (Hx : In x (y :: t2)) by (eapply Permutation_in; [exact Hp | left; reflexivity]).
        assert (Hy : In y (x :: t1)) by (eapply Permutation_in; [apply Permutation_sym; exact Hp | left; reflexivity]).
        destruct Hx as [E|Hx]; [symmetry; exact E|]. destruct Hy as [E|Hy]; [exact E|].
        rewrite Forall_forall in Hf1, Hf2. specialize (Hf1 y Hy). specialize (Hf2 x Hx). unfold R in *.
        apply Hinj; [left; reflexivity | right; exact Hy | lia]. }
      subst y. f_equal. apply IH; [eapply Permutation_cons_inv; exact Hp | exact Hs1 | exact Hs2 |].
      intros a b Ha Hb. apply Hinj; right; assumption.
  Qed.
End Sorting.

Lemma mapM_perm {A B} (f : A -> res B) l l' : Permutation l l' ->
  forall r, mapM f l = Ok r -> exists r', mapM f l' = Ok r' /\ Permutation r r'.
Proof.
  induction 1 as [|x l l' Hp IH|x y l|l l' l'' H1 IH1 H2 IH2]; intros r H; simpl in *.
  - exists r. split; [exact H | injection H as <-; constructor].
  - destruct (f x) as [b|]; simpl in *; [|discriminate]. destruct (mapM f l) as [r0|]; simpl in H; [|discriminate].
    injection H as <-. destruct (IH r0 eq_refl) as [r' [E P]]. rewrite E. simpl. exists (b :: r'). split; [reflexivity | constructor; exact P].
  - destruct (f y) as [b|]; simpl in *; [|discriminate]. destruct (f x) as [c|]; simpl in *; [|discriminate].
    destruct (mapM f l) as [r0|]; simpl in *; [|discriminate]. injection H as <-. exists (c :: b :: r0). split; [reflexivity | apply perm_swap].
  - destruct (IH1 r H) as [r1 [E1 P1]]. destruct (IH2 r1 E1) as [r2 [E2 P2]]. exists r2. split; [exact E2 | eapply Permutation_trans; eassumption].
Qed.

Lemma index_of_dstr s ns : index_of (dname_eqb (DStr s)) (map DStr ns) = index_of (String.eqb s) ns.
Proof. induction ns as [|n t IH]; simpl; [reflexivity|]. rewrite IH. reflexivity. Qed.
Lemma index_of_app_fresh s (pre : list string) t :
  ~ In s pre -> index_of (String.eqb s) (pre ++ s :: t) = Some (List.length pre).
Proof.
  induction pre as [|p pre IH]; intros Hn; simpl; [rewrite String.eqb_refl; reflexivity|].
  destruct (String.eqb_spec s p); [exfalso; apply Hn; left; symmetry; assumption|].
  rewrite IH; [reflexivity | intros H; apply Hn; right; exact H].
Qed.
Lemma keys_of_axes_of (pre ns : list string) : forall ls, NoDup (pre ++ ns) -> List.length ns = List.length ls ->
  map (fun ax => dn_index (map DStr (pre ++ ns)) (aname ax)) (axes_of ns ls) = seq (List.length pre) (List.length ns).
Proof.
  revert pre; induction ns as [|n t IH]; intros pre [|l ls] Hn Hl; simpl in *; try reflexivity; try discriminate.
  f_equal.
  - unfold dn_index. rewrite index_of_dstr, index_of_app_fresh; [reflexivity|].
    intros Hin. apply NoDup_remove_2 in Hn. apply Hn. apply in_or_app. left. exact Hin.
  - specialize (IH (pre ++ [n]) ls). rewrite <- app_assoc in IH. simpl in IH. rewrite app_length in IH. simpl in IH.
    rewrite Nat.add_1_r in IH. apply IH; [exact Hn | lia].
Qed.
Lemma seq_sorted n : forall a, StronglySorted le (seq a n).
Proof.
  induction n as [|n IH]; intros a; simpl; constructor; [apply IH|].
  apply Forall_forall. intros x Hx. apply in_seq in Hx. lia.
Qed.
Lemma sorted_by_key (key : axis -> nat) l : StronglySorted le (map key l) -> StronglySorted (fun x y => key x <= key y) l.
Proof.
  induction l as [|x t IH]; intros H; simpl in *; constructor; inversion H as [|? ? Hs Hf]; subst; [apply IH; exact Hs|].
  rewrite Forall_forall in *. intros y Hy. apply Hf. apply in_map. exact Hy.
Qed.

(* the dict form: the (unordered) entries of the dict, put in the order of dims *)
Theorem ctor_dict_objs (ns : list string) ls l' v :
  ns <> [] -> List.length ns = List.length ls -> NoDup ns -> ~ In "" ns ->
  Permutation l' (combine (map DStr ns) ls) ->
  ctor (SDict l' (map DStr ns)) v = ctor (SAxisObjs (axes_of ns ls)) v.
Proof.
  intros Hne Hl Hnd He Hp. unfold ctor.
  assert (Hl' : l' <> []).
  { intros ->. apply Permutation_nil in Hp. destruct ns as [|n t]; [contradiction|]. destruct ls; discriminate. }
  rewrite (init_axes_dict_ne l' (map DStr ns) (sh v) Hl').
  cbn [init_axes].
  assert (Hlen : (List.length l' <? List.length (map DStr ns)) = false).
  { apply Nat.ltb_ge. rewrite (Permutation_length Hp), combine_length, !map_length, Hl, Nat.min_id. apply Nat.le_refl. }
  rewrite Hlen.
  pose proof (mapM_named_strs ns ls Hl He) as HT. fold (axes_of ns ls) in HT.
  destruct (mapM_perm named _ _ (Permutation_sym Hp) _ HT) as [axs' [E P]].
  rewrite E. simpl.
  assert (Hnames : NoDup (map aname axs')).
  { eapply Permutation_NoDup; [apply Permutation_map; exact P|]. rewrite axes_of_names by exact Hl. exact Hnd. }
  rewrite (append_all_ok axs' [] Hnames). simpl.
  rewrite (append_all_ok (axes_of ns ls) []) by (simpl; rewrite axes_of_names by exact Hl; exact Hnd). simpl.
  assert (Hall : forallb (fun ax => existsb (dname_eqb (DStr (aname ax))) (map DStr ns)) axs' = true).
  { apply forallb_forall. intros ax Hax. apply existsb_exists. exists (DStr (aname ax)). split; [|simpl; apply String.eqb_refl].
    apply in_map. rewrite <- (axes_of_names ns ls Hl). apply in_map. eapply Permutation_in; [apply Permutation_sym; exact P | exact Hax]. }
  rewrite Hall. simpl. f_equal.
  set (key := fun ax => dn_index (map DStr ns) (aname ax)).
  pose proof (keys_of_axes_of [] ns ls Hnd Hl) as Hk. simpl in Hk. fold key in Hk.
  rewrite (sorted_perm_unique key (sort_by key axs') (axes_of ns ls)); [reflexivity | | apply sort_by_sorted | |].
  - eapply Permutation_trans; [apply sort_by_perm | apply Permutation_sym; exact P].
  - apply sorted_by_key. rewrite Hk. apply seq_sorted.
  - intros x y Hx Hy Hxy.
    assert (Hx' : In x (axes_of ns ls)) by (eapply Permutation_in; [|exact Hx]; eapply Permutation_trans; [apply sort_by_perm | apply Permutation_sym; exact P]).
    assert (Hy' : In y (axes_of ns ls)) by (eapply Permutation_in; [|exact Hy]; eapply Permutation_trans; [apply sort_by_perm | apply Permutation_sym; exact P]).
    destruct (In_nth _ _ dax0 Hx') as [i [Hi Ei]]. destruct (In_nth _ _ dax0 Hy') as [j [Hj Ej]].
    assert (Hki : key x = i).
    { rewrite <- Ei. rewrite <- (nth_map_in key (axes_of ns ls) i dax0 0) by exact Hi. rewrite Hk. rewrite seq_nth; [reflexivity|].
      rewrite <- (map_length key), Hk, seq_length in Hi. exact Hi. }
    assert (Hkj : key y = j).
    { rewrite <- Ej. rewrite <- (nth_map_in key (axes_of ns ls) j dax0 0) by exact Hj. rewrite Hk. rewrite seq_nth; [reflexivity|].
      rewrite <- (map_length key), Hk, seq_length in Hj. exact Hj. }
    rewrite <- Ei, <- Ej. congruence.
Qed.

(* dims only = label lists 0..n-1 with these dims; nothing = the default names x0, x1, ... *)
Lemma mapM_combine_map_r {A B C D} (g : A * C -> res D) (f : B -> C) (l1 : list A) (l2 : list B) :
  mapM g (combine l1 (map f l2)) = mapM (fun p => g (fst p, f (snd p))) (combine l1 l2).
Proof.
  revert l2; induction l1 as [|x t IH]; intros [|y l2]; simpl; try reflexivity. rewrite IH. reflexivity.
Qed.
Lemma mapM_combine_map_l {A B C D} (g : C * B -> res D) (f : A -> C) (l1 : list A) (l2 : list B) :
  mapM g (combine (map f l1) l2) = mapM (fun p => g (f (fst p), snd p)) (combine l1 l2).
Proof.
  revert l2; induction l1 as [|x t IH]; intros [|y l2]; simpl; try reflexivity. rewrite IH. reflexivity.
Qed.

Theorem ctor_dims_only ds v :
  List.length ds = List.length (sh v) ->
  ctor (SDimsOnly ds) v = ctor (SLists (map (fun n => (KI, arange_labels n)) (sh v)) (Some ds)) v.
Proof.
  intros Hl. unfold ctor; simpl. unfold from_shape. rewrite map_length, Hl, Nat.eqb_refl, Nat.ltb_irrefl. simpl.
  rewrite (mapM_combine_map_r (fun p : dname * labspec => mk_named_axis (fst p) (fst (snd p)) (snd (snd p)))). reflexivity.
Qed.
Theorem ctor_nothing v :
  ctor SNothing v = ctor (SDimsOnly (map (fun i => DStr (default_name i)) (seq 0 (List.length (sh v))))) v.
Proof.
  unfold ctor; simpl. unfold from_shape. rewrite map_length, seq_length, Nat.eqb_refl, Nat.ltb_irrefl. simpl.
  rewrite (mapM_combine_map_l (fun p : dname * nat => mk_named_axis (fst p) KI (arange_labels (snd p)))). reflexivity.
Qed.

(* zeros / ones / empty: the constructor applied to the constant array of the axes' shape *)
Definition shape_free (sp : axspec) : bool :=
  match sp with SLists _ _ | SPairs _ | SAxisObjs _ | SDict (_ :: _) _ => true | _ => false end.
Theorem ctor_fill_ctor sp c k axs :
  shape_free sp = true -> init_axes sp [] = Ok axs ->
  ctor_fill sp None c k = ctor sp (mk (map alen axs) k (fun _ => c)).
Proof.
  intros Hf E. unfold ctor_fill, ctor.
  assert (E' : init_axes sp (sh (mk (map alen axs) k (fun _ => c))) = init_axes sp []) by (destruct sp as [| | |[|]| |]; try discriminate; reflexivity).
  rewrite E', E. reflexivity.
Qed.
Theorem ctor_fill_shape ds s c k :
  ctor_fill (SDimsOnly ds) (Some s) c k = ctor (SDimsOnly ds) (mk s k (fun _ => c)).
Proof. reflexivity. Qed.

(* ================================================================== the monotonicity cache of an Axis *)
From DA.Model Require Import Cache.

Lemma strictly_skipn lt n : forall l, strictly lt l = true -> strictly lt (skipn n l) = true.
Proof.
  induction n as [|n IH]; intros l H; [exact H|]. destruct l as [|x t]; [reflexivity|]. simpl. apply IH.
  destruct t as [|y t']; [reflexivity|]. simpl in H. apply andb_true_iff in H. apply H.
Qed.
Lemma strictly_firstn lt n : forall l, strictly lt l = true -> strictly lt (firstn n l) = true.
Proof.
  induction n as [|n IH]; intros l H; [reflexivity|]. destruct l as [|x t]; [reflexivity|].
  destruct t as [|y t']; [destruct n; reflexivity|]. simpl in H. apply andb_true_iff in H. destruct H as [H1 H2].
  specialize (IH (y :: t') H2). destruct n as [|n']; [reflexivity|]. simpl in *. rewrite H1. exact IH.
Qed.
Lemma strictly_snoc lt l x y : strictly lt (l ++ [x]) = true -> lt x y = true -> strictly lt ((l ++ [x]) ++ [y]) = true.
Proof.
  induction l as [|a t IH]; intros H Hxy; simpl in *; [rewrite Hxy; reflexivity|].
  destruct (t ++ [x]) as [|b t'] eqn:E; [destruct t; discriminate|]. simpl. apply andb_true_iff in H. destruct H as [H1 H2].
  rewrite H1. simpl. apply IH; assumption.
Qed.
Lemma strictly_rev lt l : strictly lt l = true -> strictly (fun a b => lt b a) (rev l) = true.
Proof.
  induction l as [|x t IH]; intros H; [reflexivity|]. destruct t as [|y t']; [reflexivity|].
  simpl in H. apply andb_true_iff in H. destruct H as [H1 H2]. specialize (IH H2).
  change (rev (x :: y :: t')) with ((rev t' ++ [y]) ++ [x]). apply strictly_snoc; [exact IH | exact H1].
Qed.
Lemma monotonic_sub a n l : is_monotonic_labels l = true -> is_monotonic_labels (firstn n (skipn a l)) = true.
Proof.
  unfold is_monotonic_labels. rewrite !orb_true_iff. intros [H|H]; [left | right]; apply strictly_firstn, strictly_skipn; exact H.
Qed.
Lemma monotonic_rev l : is_monotonic_labels l = true -> is_monotonic_labels (rev l) = true.
Proof.
  unfold is_monotonic_labels. rewrite !orb_true_iff. intros [H|H]; [right | left].
  - apply strictly_rev. exact H.
  - apply (strictly_rev (fun a b => label_ltb b a)) in H. exact H.
Qed.

(* what the invariant needs from each GENERATED effect: whatever the cache was (valid), the cache left behind is
   valid for the labels left behind.  t is the truth for the labels the method leaves (is_monotonic, setitem,
   values setter, sort, take: the new labels) or for the source's labels (getitem: the new labels are a
   sub-run or the reversal of a monotonic run, which is monotonic again) *)
Definition valid (c : option bool) (t : bool) : Prop := c = None \/ c = Some t.

Lemma eff_is_monotonic c t : valid c t -> valid (axis_cache.g_cache_is_monotonic c t false) t.
Proof. unfold axis_cache.g_cache_is_monotonic, axis_cache.opt_is_none. intros [-> | ->]; [right | right]; reflexivity. Qed.
Lemma eff_setitem (c : option bool) (t' : bool) : valid (axis_cache.g_cache_setitem c t' false) t'.
Proof. unfold axis_cache.g_cache_setitem. left. reflexivity. Qed.
Lemma eff_values_setter c t' : valid (axis_cache.g_cache_values_setter c t' false) t'.
Proof. unfold axis_cache.g_cache_values_setter. left. reflexivity. Qed.
Lemma eff_sort c t' : valid (axis_cache.g_cache_sort c t' false) t'.
Proof. unfold axis_cache.g_cache_sort. left. reflexivity. Qed.
Lemma eff_take (c : option bool) (t t' : bool) : valid (axis_cache.g_cache_take c t false) t'.
Proof. unfold axis_cache.g_cache_take. left. reflexivity. Qed.
Lemma eff_copy c t : valid c t -> valid (axis_cache.g_cache_copy c t false) t.
Proof. unfold axis_cache.g_cache_copy. exact (fun H => H). Qed.
(* a slice inherits the cache only when it says "monotonic", and then the slice is monotonic too *)
Lemma eff_getitem c t t' : valid c t -> (t = true -> t' = true) -> valid (axis_cache.g_cache_getitem c t true) t'.
Proof.
  unfold axis_cache.g_cache_getitem, axis_cache.opt_truthy. intros [-> | ->] Hm; [left; reflexivity|].
  destruct t; simpl; [right; rewrite (Hm eq_refl); reflexivity | left; reflexivity].
Qed.

Theorem cstep_cache_ok s o : cache_ok s -> cache_ok (fst (cstep s o)).
Proof.
  unfold cache_ok. intros H. destruct o; cbn [cstep fst cm cl].
  - apply eff_is_monotonic. exact H.
  - destruct (py_index _ i); cbn [fst cm cl]; [apply eff_setitem | exact H].
  - destruct (negb _); cbn [fst cm cl]; [exact H | apply eff_values_setter].
  - apply eff_sort.
  - apply (eff_getitem _ _ _ H). apply monotonic_sub.
  - apply (eff_getitem _ _ _ H). apply monotonic_rev.
  - destruct (mapM _ idx); cbn [fst cm cl]; [apply eff_take | exact H].
  - apply eff_copy. exact H.
Qed.

(* every state reachable from a freshly constructed Axis, by any history *)
Theorem crun_cache_ok ops ls k : cache_ok (fst (crun ops {| cl := ls; ck := k; cm := None |})).
Proof.
  unfold crun.
  assert (G : forall s acc, cache_ok s ->
            cache_ok (fst (fold_left (fun acc o => let '(s', out) := cstep (fst acc) o in (s', snd acc ++ [out])) ops (s, acc)))).
  { induction ops as [|o t IH]; intros s acc Hs; simpl; [exact Hs|].
    destruct (cstep s o) as [s' out] eqn:E. apply IH. pose proof (cstep_cache_ok s o Hs) as H. rewrite E in H. exact H. }
  apply G. left. reflexivity.
Qed.

(* ... hence an Axis with any history answers every operation like a fresh Axis with the same labels *)
Definition fresh (s : cax) : cax := {| cl := cl s; ck := ck s; cm := None |}.
Theorem cache_history_independent s o :
  cache_ok s ->
  snd (cstep s o) = snd (cstep (fresh s) o) /\
  cl (fst (cstep s o)) = cl (fst (cstep (fresh s) o)) /\ ck (fst (cstep s o)) = ck (fst (cstep (fresh s) o)).
Proof.
  intros H. destruct o; cbn [cstep fst snd cm cl ck fresh]; try (repeat split; reflexivity).
  - (* the answer of is_monotonic() *)
    unfold axis_cache.g_cache_is_monotonic, axis_cache.opt_is_none. destruct H as [H|H]; rewrite H; simpl; repeat split; reflexivity.
  - destruct (py_index _ i); repeat split; reflexivity.
  - destruct (negb _); repeat split; reflexivity.
  - destruct (mapM _ idx); repeat split; reflexivity.
Qed.
