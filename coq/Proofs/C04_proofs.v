(* C04: arithmetic aligns operands by dimension name and by label. *)
From Coq Require Import Qround.
From DA Require Import Prelude NDArray Array PyRT.
From DA.Model Require Import Value Reshape SliceSpec Indexing Align.
From DA.Proofs Require Import ListLemmas C10_proofs C01_proofs C03_proofs C07_proofs C06_proofs.
Open Scope nat_scope.

(* ------------------------------------------------------------------ the elementwise step *)
Theorem np_binop_spec o a b r :
  np_binop o a b = Ok r ->
  sh r = bshape (sh a) (sh b) /\ kd r = binop_kind o (kd a) (kd b) /\
  forall c, inb (sh r) c = true ->
    get r c = cell_binop o (kd r) (get a (bcoord (sh a) c)) (get b (bcoord (sh b) c)).
Proof.
  unfold np_binop. destruct (_ && _); [|discriminate]. intros [= <-]. simpl.
  split; [reflexivity|]. split; [reflexivity|]. intros c Hc. rewrite get_mk by exact Hc. reflexivity.
Qed.

(* NaN (a coordinate that an operand does not define, after alignment) gives NaN for + - * / // ... *)
Theorem cell_binop_nan o k x :
  o <> BPow -> cell_binop o k CNaN x = CNaN /\ cell_binop o k x CNaN = CNaN.
Proof. intros Ho. destruct o; try congruence; split; destruct x; reflexivity. Qed.
(* ... but not for **: NumPy's 1**nan = nan**0 = 1 (recorded as an open known finding) *)
Theorem cell_binop_pow_refuted :
  exists k x y, cell_binop BPow k x y <> CNaN /\ (x = CNaN \/ y = CNaN).
Proof. exists KF, (CNum 1), CNaN. split; [discriminate | right; reflexivity]. Qed.
Theorem cell_binop_pow_partial k x y :
  (x = CNaN \/ y = CNaN) -> cell_binop BPow k x y = CNaN \/ cell_binop BPow k x y = CNum 1.
Proof.
  intros [->| ->]; simpl.
  - destruct y; auto. destruct (Qeq_bool q 0); auto.
  - destruct x; auto. destruct (Qeq_bool q 1); auto.
Qed.

(* defined operands: exact rational arithmetic *)
Theorem cell_binop_num o k a b :
  cell_binop o k (CNum a) (CNum b) =
  match o with
  | BAdd => CNum (a + b) | BSub => CNum (a - b) | BMul => CNum (a * b)
  | BDiv => if Qeq_bool b 0 then CNaN else CNum (a / b)
  | BFloorDiv => if Qeq_bool b 0 then CNaN else CNum (inject_Z (Qfloor (a / b)))
  | BPow => match q_pow a b with Some r => CNum r | None => CNaN end
  end%Q.
Proof. destruct o; reflexivity. Qed.

(* ------------------------------------------------------------------ dimensions of the result *)
Definition add_dim (acc : list string) (d : string) : list string := if mem_str d acc then acc else acc ++ [d].

Lemma mem_str_In d l : mem_str d l = true <-> In d l.
Proof.
  unfold mem_str. rewrite existsb_exists. split.
  - intros [x [Hx E]]. apply String.eqb_eq in E. subst. exact Hx.
  - intros H. exists d. split; [exact H | apply String.eqb_refl].
Qed.

Lemma fold_add_dims ds acc :
  NoDup ds -> fold_left add_dim ds acc = acc ++ filter (fun d => negb (mem_str d acc)) ds.
Proof.
  revert acc; induction ds as [|d t IH]; intros acc Hnd; simpl; [rewrite app_nil_r; reflexivity|].
  inversion Hnd as [|? ? Hd Ht]; subst. unfold add_dim at 2.
  destruct (mem_str d acc) eqn:Em; simpl.
  - apply IH. exact Ht.
  - rewrite IH by exact Ht. rewrite <- app_assoc. simpl. f_equal. f_equal.
    apply filter_ext_in. intros x Hx. f_equal. unfold mem_str. rewrite existsb_app. simpl.
    rewrite orb_false_r. destruct (String.eqb_spec x d) as [->|_]; [contradiction | apply orb_false_r].
Qed.

(* the union of dimensions: the first operand's in their order, then the new ones *)
Theorem get_dims_pair a b :
  NoDup (dims a) -> NoDup (dims b) ->
  get_dims [a; b] [] = dims a ++ filter (fun d => negb (mem_str d (dims a))) (dims b).
Proof.
  intros Ha Hb. simpl. change (fun acc d => if mem_str d acc then acc else acc ++ [d]) with add_dim.
  rewrite (fold_add_dims (dims a) [] Ha). simpl.
  assert (Hall : forall l : list string, filter (fun d => negb (mem_str d [])) l = l).
  { induction l as [|x l IHl]; simpl; [reflexivity | f_equal; exact IHl]. }
  rewrite Hall. apply (fold_add_dims (dims b) _ Hb).
Qed.

Lemma reshape_plain_dims nd a r : reshape_plain nd a = Ok r -> dims r = nd.
Proof.
  unfold reshape_plain. destruct (list_eqb String.eqb nd (dims a)) eqn:E.
  - intros [= <-]. symmetry. apply list_eqb_str_eq. exact E.
  - destruct (nodupb String.eqb nd); simpl; [|discriminate].
    destruct (squeeze_absent _ _ _) as [o1|]; simpl; [|discriminate].
    destruct (transpose _ o1) as [o2|]; simpl; [|discriminate].
    destruct (add_missing nd 0 o2) as [o3|]; simpl; [|discriminate].
    destruct (list_eqb String.eqb (dims o3) nd) eqn:E3; [|discriminate].
    intros [= <-]. apply list_eqb_str_eq. exact E3.
Qed.

(* align_dims gives both operands the same dims: either they already agreed, or the union of dims *)
Theorem align_dims_pair a b a' b' :
  align_dims [a; b] = Ok [a'; b'] ->
  dims a' = dims b' /\ (dims a' = dims a \/ dims a' = get_dims [a; b] []).
Proof.
  unfold align_dims. simpl forallb. rewrite andb_true_r.
  destruct (list_eqb String.eqb (dims b) (dims a)) eqn:E.
  - intros [= <- <-]. apply list_eqb_str_eq in E. split; [symmetry; exact E | left; reflexivity].
  - cbn [mapM]. destruct (reshape_plain _ a) as [ra|] eqn:Ea; simpl; [|discriminate].
    destruct (reshape_plain _ b) as [rb|] eqn:Eb; simpl; [|discriminate].
    intros [= <- <-]. rewrite (reshape_plain_dims _ _ _ Ea), (reshape_plain_dims _ _ _ Eb). auto.
Qed.

(* ------------------------------------------------------------------ operation() *)
(* a op b is the elementwise (NumPy-broadcast) operation on the operands after label alignment
   (outer join, C06/C07) and dimension alignment (reshape to the union of dims, C10); the result
   carries no metadata; its axes are the first operand's, or the second's where the first only has
   the [None] placeholder of a broadcast dimension *)
Theorem operation_spec o a b r :
  operation o a b = Ok r ->
  exists a1 b1 a2 b2,
    align [a; b] Outer None false false = Ok [a1; b1] /\
    align_dims [a1; b1] = Ok [a2; b2] /\
    attrs r = [] /\
    List.length (axes r) = List.length (axes a2) /\
    (forall i, i < List.length (axes a2) ->
       let ax := nth i (axes a2) dax0 in
       nth i (axes r) dax0 = (if is_none_axis ax then
                                match axis_of b2 (aname ax) with Some bx => bx | None => ax end else ax)) /\
    sh (vals r) = bshape (sh (vals a2)) (sh (vals b2)) /\
    forall c, inb (sh (vals r)) c = true ->
      get (vals r) c = cell_binop o (kd (vals r)) (get (vals a2) (bcoord (sh (vals a2)) c))
                                                  (get (vals b2) (bcoord (sh (vals b2)) c)).
Proof.
  unfold operation.
  destruct (align [a; b] Outer None false false) as [al|] eqn:Eal; simpl; [|discriminate].
  destruct (align_dims al) as [al2|] eqn:Ead; simpl; [|discriminate].
  destruct al2 as [|a2 [|b2 [|? ?]]]; try discriminate.
  destruct (mapM _ (axes a2)) as [newaxes|] eqn:Em; simpl; [|discriminate].
  destruct (np_binop o (vals a2) (vals b2)) as [v|] eqn:Ev; simpl; [|discriminate].
  unfold construct. destruct (list_eqb Nat.eqb (map alen newaxes) (sh v)); [|discriminate].
  intros [= <-].
  assert (Hal : exists a1 b1, al = [a1; b1]).
  { unfold align in Eal. destruct (aligned_axes _ _ _ _ _) as [axs|]; simpl in Eal; [|discriminate].
    cbn [mapM] in Eal. destruct (align_one axs a) as [a1|]; simpl in Eal; [|discriminate].
    destruct (align_one axs b) as [b1|]; simpl in Eal; [|discriminate]. injection Eal as <-. eauto. }
  destruct Hal as [a1 [b1 ->]].
  exists a1, b1, a2, b2. split; [reflexivity|]. split; [exact Ead|]. simpl. split; [reflexivity|].
  pose proof (mapM_length _ _ _ Em) as Hl. split; [exact Hl|]. split.
  - intros i Hi. cbv zeta.
    pose proof (mapM_nth _ _ _ i dax0 dax0 Em Hi) as H. cbv beta in H. revert H.
    destruct (alen (nth i (axes a2) dax0) =? 0); [discriminate|].
    destruct (is_none_axis (nth i (axes a2) dax0)).
    + destruct (axis_of b2 _) as [bx|]; [|discriminate]. intros [= <-]. reflexivity.
    + intros [= <-]. reflexivity.
  - destruct (np_binop_spec _ _ _ _ Ev) as [Hs [_ Hc]]. split; [exact Hs | exact Hc].
Qed.

Theorem operation_dims o a b r :
  operation o a b = Ok r ->
  exists a1 b1 a2 b2,
    align [a; b] Outer None false false = Ok [a1; b1] /\ align_dims [a1; b1] = Ok [a2; b2] /\
    List.length (axes r) = List.length (axes a2) /\
    (forall i, i < List.length (axes a2) -> aname (nth i (axes r) dax0) = aname (nth i (axes a2) dax0)
                                            \/ is_none_axis (nth i (axes a2) dax0) = true).
Proof.
  intros H. destruct (operation_spec _ _ _ _ H) as [a1 [b1 [a2 [b2 [H1 [H2 [_ [Hl [Hax _]]]]]]]]].
  exists a1, b1, a2, b2. repeat split; try assumption.
  intros i Hi. specialize (Hax i Hi). cbv zeta in Hax.
  destruct (is_none_axis (nth i (axes a2) dax0)); [right; reflexivity | left; rewrite Hax; reflexivity].
Qed.

Lemma ravel_ones n cc : ravel (List.repeat 1 n) (bcoord (List.repeat 1 n) cc) = 0.
Proof.
  revert cc; induction n as [|n IH]; intros [|x cc]; simpl; auto.
  unfold bcoord in IH. rewrite IH. reflexivity.
Qed.

(* scalar operand (either order) and plain ndarray operand: NumPy on .values, axes unchanged,
   metadata dropped *)
Theorem op_scalar_spec o c k refl a r :
  op_scalar o c k refl a = Ok r ->
  axes r = axes a /\ attrs r = [] /\ sh (vals r) = bshape (if refl then List.repeat 1 (List.length (sh (vals a))) else sh (vals a))
                                                         (if refl then sh (vals a) else List.repeat 1 (List.length (sh (vals a)))) /\
  forall cc, inb (sh (vals r)) cc = true ->
    get (vals r) cc = if refl then cell_binop o (kd (vals r)) c (get (vals a) (bcoord (sh (vals a)) cc))
                      else cell_binop o (kd (vals r)) (get (vals a) (bcoord (sh (vals a)) cc)) c.
Proof.
  unfold op_scalar. destruct refl.
  - destruct (np_binop o _ (vals a)) as [v|] eqn:Ev; simpl; [|discriminate].
    unfold construct. destruct (list_eqb Nat.eqb _ _); [|discriminate]. intros [= <-]. simpl.
    destruct (np_binop_spec _ _ _ _ Ev) as [Hs [_ Hc]]. split; [reflexivity|]. split; [reflexivity|].
    split; [exact Hs|]. intros cc Hcc. rewrite (Hc cc Hcc). f_equal.
    unfold scalar_nd, get, getl. simpl.
    rewrite ravel_ones. reflexivity.
  - destruct (np_binop o (vals a) _) as [v|] eqn:Ev; simpl; [|discriminate].
    unfold construct. destruct (list_eqb Nat.eqb _ _); [|discriminate]. intros [= <-]. simpl.
    destruct (np_binop_spec _ _ _ _ Ev) as [Hs [_ Hc]]. split; [reflexivity|]. split; [reflexivity|].
    split; [exact Hs|]. intros cc Hcc. rewrite (Hc cc Hcc). f_equal.
    unfold scalar_nd, get, getl. simpl.
    rewrite ravel_ones. reflexivity.
Qed.
