(* C05: stack and concatenate return well-formed arrays (extension of the covered operation language) *)
From DA Require Import Prelude NDArray Array PyRT.
From DA.Model Require Import Value Reshape SliceSpec Indexing Align.
From DA.Proofs Require Import ListLemmas C10_proofs C06_proofs C05_proofs C10_broadcast.
Open Scope string_scope.
Open Scope nat_scope.
Open Scope list_scope.

(* ------------------------------------------------------------------ get_dims: the names seen so far, each once *)
Lemma get_dims_step_spec ds : forall acc,
  let r := fold_left (fun acc d => if mem_str d acc then acc else acc ++ [d]) ds acc in
  (NoDup acc -> NoDup r) /\ (forall x, In x r <-> In x acc \/ In x ds).
Proof.
  induction ds as [|d t IH]; intros acc; simpl.
  - split; [auto|]. intros x. tauto.
  - destruct (mem_str d acc) eqn:E.
    + destruct (IH acc) as [H1 H2]. split; [exact H1|]. intros x. rewrite H2.
      apply existsb_str_In in E. split; [tauto|]. intros [H|[<-|H]]; auto.
    + destruct (IH (acc ++ [d])) as [H1 H2]. split.
      * intros Hn. apply H1. apply NoDup_snoc; [exact Hn|]. intros Hin. apply existsb_str_In in Hin. unfold mem_str in E. congruence.
      * intros x. rewrite H2, in_app_iff. simpl. tauto.
Qed.
Lemma get_dims_spec arrays : forall acc,
  (NoDup acc -> NoDup (get_dims arrays acc)) /\
  (forall x, In x (get_dims arrays acc) <-> In x acc \/ exists a, In a arrays /\ In x (dims a)).
Proof.
  induction arrays as [|a t IH]; intros acc; simpl.
  - split; [auto|]. intros x. split; [tauto|]. intros [H|[a [[] _]]]. exact H.
  - destruct (get_dims_step_spec (dims a) acc) as [S1 S2]. cbv zeta in S1, S2.
    destruct (IH (fold_left (fun acc d => if mem_str d acc then acc else acc ++ [d]) (dims a) acc)) as [H1 H2]. split.
    + intros Hn. apply H1. apply S1. exact Hn.
    + intros x. rewrite H2, S2. split.
      * intros [[H|H]|[b [Hb Hx]]]; [left; exact H | right; exists a; auto | right; exists b; auto].
      * intros [H|[b [[<-|Hb] Hx]]]; [left; left; exact H | left; right; exact Hx | right; exists b; auto].
Qed.

(* ------------------------------------------------------------------ the preparation steps keep well-formedness and introduce no name *)
Definition names_from (src dst : list darr) : Prop :=
  forall y d, In y dst -> In d (dims y) -> exists x, In x src /\ In d (dims x).

Lemma transpose_pos_names p a r : wf_shape a -> transpose_pos p a = Ok r -> forall d, In d (dims r) -> In d (dims a).
Proof.
  intros Hw H d Hd. destruct (transpose_pos_spec p a r Hw H) as [Hp [Hlen _]].
  rewrite (transpose_pos_dims p a r Hw H) in Hd. apply in_map_iff in Hd. destruct Hd as [j [<- Hj]].
  apply nth_In. unfold dims. rewrite map_length, <- Hlen. destruct (is_perm_props p Hp) as [Hb _]. apply Hb. exact Hj.
Qed.
Lemma transpose_names rs a r : WF a -> transpose rs a = Ok r -> forall d, In d (dims r) -> In d (dims a).
Proof.
  intros [Hw _] H. unfold transpose in H. destruct rs as [|r0 t].
  - eapply transpose_pos_names; eassumption.
  - destruct (mapM _ _) as [p|]; simpl in H; [|discriminate]. eapply transpose_pos_names; eassumption.
Qed.

Lemma mapM_names (f : darr -> res darr) l r :
  (forall x y, WF x -> f x = Ok y -> WF y /\ forall d, In d (dims y) -> In d (dims x)) ->
  Forall WF l -> mapM f l = Ok r -> Forall WF r /\ names_from l r.
Proof.
  intros Hf. revert r; induction l as [|x t IH]; intros r Hl H; simpl in H.
  - injection H as <-. split; [constructor | intros y d []].
  - inversion Hl as [|? ? Hx Ht]; subst.
    destruct (f x) as [y|] eqn:E; simpl in H; [|discriminate]. destruct (mapM f t) as [r'|] eqn:Er; simpl in H; [|discriminate].
    injection H as <-. destruct (Hf x y Hx E) as [Hy Hd]. destruct (IH r' Ht eq_refl) as [Hr Hn]. split; [constructor; assumption|].
    intros z d [<-|Hz] Hdz; [exists x; split; [left; reflexivity | apply Hd; exact Hdz]|].
    destruct (Hn z d Hz Hdz) as [w [Hw Hdw]]. exists w. split; [right; exact Hw | exact Hdw].
Qed.

Lemma same_dim_order_names arrays l : Forall WF arrays -> same_dim_order arrays = Ok l -> Forall WF l /\ names_from arrays l.
Proof.
  intros Hall H. unfold same_dim_order in H. destruct arrays as [|b0 bt]; [cbn in H; injection H as <-; split; [constructor | intros y d []]|].
  eapply mapM_names; [|exact Hall | exact H]. intros x y Hx Hy. cbv beta in Hy.
  destruct (list_eqb String.eqb (dims x) (dims b0)); [injection Hy as <-; split; [exact Hx | auto]|].
  split; [eapply transpose_wf; eassumption | eapply transpose_names; eassumption].
Qed.
Lemma align_names arrays j ax srt strict l : Forall WF arrays -> align arrays j ax srt strict = Ok l -> Forall WF l /\ names_from arrays l.
Proof.
  intros Hall H. unfold align in H. destruct (aligned_axes _ _ _ _ _) as [axs|]; simpl in H; [|discriminate].
  eapply mapM_names; [|exact Hall | exact H]. intros x y Hx Hy. cbv beta in Hy. split; [eapply align_one_wf; eassumption|].
  destruct Hx as [Hw _]. destruct (align_one_frame axs x y Hw Hy) as [Hd _]. rewrite Hd. auto.
Qed.
Lemma names_from_trans a b c : names_from a b -> names_from b c -> names_from a c.
Proof. intros H1 H2 y d Hy Hd. destruct (H2 y d Hy Hd) as [x [Hx Hdx]]. exact (H1 x d Hx Hdx). Qed.
Lemma names_from_refl a : names_from a a.
Proof. intros y d Hy Hd. exists y. auto. Qed.

Lemma np_stack_len k s0 l : List.length (dat (np_stack k s0 l)) = prod (sh (np_stack k s0 l)).
Proof. unfold np_stack, mk. simpl. apply tab_length. Qed.
Lemma np_concat_len k i l : List.length (dat (np_concat k i l)) = prod (sh (np_concat k i l)).
Proof. unfold np_concat, mk. simpl. apply tab_length. Qed.

(* ------------------------------------------------------------------ stack *)
Theorem stack_wf arrays nm kk keys al srt r :
  Forall WF arrays -> nm <> Some "" -> stack arrays nm kk keys al srt = Ok r -> WF r.
Proof.
  intros Hall Hnm H. unfold stack in H.
  set (name := match nm with Some n => n | None => _ end) in H.
  assert (Hne : name <> "").
  { unfold name. destruct nm as [n|]; [intros ->; apply Hnm; reflexivity|]. destruct (mem_str _ _); discriminate. }
  destruct (mem_str name (get_dims arrays [])) eqn:Emem; [discriminate|].
  destruct (if al then align arrays Outer None srt true else Ok arrays) as [arrs0|] eqn:Eal; cbn [bind negb] in H; [|discriminate].
  assert (H0 : Forall WF arrs0 /\ names_from arrays arrs0).
  { destruct al; [eapply align_names; eassumption | injection Eal as <-; split; [exact Hall | apply names_from_refl]]. }
  destruct H0 as [W0 N0].
  destruct (same_dim_order arrs0) as [arrs|] eqn:Esd; cbn [bind negb] in H; [|discriminate].
  destruct (same_dim_order_names _ _ W0 Esd) as [W1 N1].
  destruct arrs as [|a0 rest]; [discriminate|].
  destruct (forallb _ (a0 :: rest)); cbn [bind negb] in H; [|discriminate].
  destruct (forallb (fun a => list_eqb Nat.eqb (sh (vals a)) (sh (vals a0))) (a0 :: rest)); cbn [bind negb] in H; [|discriminate].
  destruct (pick_axes (a0 :: rest)) as [axs|] eqn:Epa; cbn [bind negb] in H; [|discriminate].
  destruct (construct_ok _ _ _ _ H) as [-> Hsh].
  split; [split; [exact Hsh | apply np_stack_len]|].
  unfold dims. cbn [axes mkarr map ax_new aname]. rewrite (pick_axes_names _ _ Epa).
  destruct (get_dims_spec (a0 :: rest) []) as [G1 G2].
  assert (Hnotin : ~ In name (get_dims (a0 :: rest) [])).
  { intros Hin. apply G2 in Hin. destruct Hin as [[]|[y [Hy Hd]]].
    destruct (names_from_trans _ _ _ N0 N1 y name Hy Hd) as [x [Hx Hdx]].
    assert (In name (get_dims arrays [])) by (apply (proj2 (get_dims_spec arrays [])); right; exists x; auto).
    apply existsb_str_In in H0. unfold mem_str in Emem. congruence. }
  split.
  - constructor; [exact Hnotin | apply G1; constructor].
  - intros [E|Hin]; [apply Hne; exact E|].
    revert Hin. apply get_dims_nonempty; [intros []|]. eapply Forall_impl; [|exact W1]. intros a [_ [_ He]]. exact He.
Qed.

(* ------------------------------------------------------------------ concatenate *)
Theorem concatenate_wf arrays r al srt out :
  Forall WF arrays -> concatenate arrays r al srt = Ok out -> WF out.
Proof.
  intros Hall H. unfold concatenate in H. destruct arrays as [|a0 t]; [discriminate|].
  destruct (match r with ByPos z => _ | ByName s => _ end) as [i|] eqn:Ei; cbn [bind negb] in H; [|discriminate].
  destruct (List.length (axes a0) <=? i) eqn:Eli; [discriminate|]. apply Nat.leb_gt in Eli.
  set (d := aname (nth i (axes a0) dax0)) in H.
  match type of H with (let! arrs := ?e in _) = _ => destruct e as [arrs0|] eqn:Eal end; cbn [bind negb] in H; [|discriminate].
  assert (W0 : Forall WF arrs0).
  { destruct al; [|injection Eal as <-; exact Hall].
    clear H. revert Eal. generalize (axes a0). intros axs0.
    assert (G : forall (l : list axis) (acc : res (list darr)) out, (forall x, acc = Ok x -> Forall WF x) ->
              fold_left (fun (acc : res (list darr)) ax => let! l := acc in if String.eqb (aname ax) d then Ok l else align l Outer (Some (aname ax)) srt true) l acc = Ok out ->
              Forall WF out).
    { induction l as [|ax l IHl]; intros acc out' Hacc Hf; simpl in Hf; [apply Hacc; exact Hf|].
      eapply IHl; [|exact Hf]. intros x Hx. destruct acc as [l0|]; cbn [bind] in Hx; [|discriminate].
      destruct (String.eqb (aname ax) d); [injection Hx as <-; apply Hacc; reflexivity|].
      eapply align_wf; [apply Hacc; reflexivity | exact Hx]. }
    intros Eal. eapply G; [|exact Eal]. intros x Hx. injection Hx as <-. exact Hall. }
  destruct (same_dim_order arrs0) as [arrs|] eqn:Esd; cbn [bind negb] in H; [|discriminate].
  destruct (same_dim_order_names _ _ W0 Esd) as [W1 _].
  destruct arrs as [|b0 rest]; [discriminate|].
  destruct (negb (forallb _ (b0 :: rest))) eqn:E1; [discriminate|].
  destruct (negb (forallb (fun a => String.eqb (aname (nth i (axes a) dax0)) d) (b0 :: rest))) eqn:E2; [discriminate|].
  destruct (negb al && negb _); [discriminate|].
  destruct (construct_ok _ _ _ _ H) as [-> Hsh].
  inversion W1 as [|? ? Wb0 _]; subst. destruct Wb0 as [[Hsb Hdb] Hnb].
  apply negb_false_iff in E1, E2. cbn [forallb] in E1, E2. apply andb_true_iff in E1, E2. destruct E1 as [E1 _]. destruct E2 as [E2 _].
  apply andb_true_iff in E1. destruct E1 as [E1 _]. apply Nat.eqb_eq in E1. apply String.eqb_eq in E2.
  split; [split; [exact Hsh | apply np_concat_len]|].
  unfold dims in *. cbn [axes mkarr]. rewrite map_insert_nth, map_remove_nth. cbn [ax_new aname].
  assert (Hi : i < List.length (map aname (axes b0))).
  { rewrite map_length. (* the first array of the reordered list has as many axes as ... itself: i < ndim comes from the name check *)
    destruct (Nat.lt_ge_cases i (List.length (axes b0))) as [Hlt|Hge]; [exact Hlt|].
    exfalso. rewrite nth_overflow in E2 by exact Hge. unfold dax0 in E2. simpl in E2.
    (* d is the name of an axis of a0, hence non-empty *)
    inversion Hall as [|? ? Wa0 _]; subst. destruct Wa0 as [_ [_ He]]. apply He. unfold dims.
    rewrite E2. unfold d. apply in_map. apply nth_In. exact Eli. }
  rewrite <- E2. rewrite <- (nth_map_in aname (axes b0) i dax0 EmptyString) by (rewrite map_length in Hi; exact Hi).
  rewrite insert_remove_nth by exact Hi. exact Hnb.
Qed.
