(* C19: serialisation round trips. *)
From Coq Require Import Qround Qabs.
From DA Require Import Prelude NDArray Array PyRT.
From DA.Model Require Import Value Reshape SliceSpec Indexing Align Json NcFile.
From DA.Proofs Require Import ListLemmas C10_proofs C11_proofs.
Open Scope string_scope.
Open Scope nat_scope.
Open Scope list_scope.

(* ================================================================== JSON *)
Lemma chunks_length {A} m n (l : list A) : List.length (chunks m n l) = n.
Proof. revert l; induction n as [|n IH]; intros l; simpl; [reflexivity | rewrite IH; reflexivity]. Qed.
Lemma concat_chunks {A} m n : forall (l : list A), List.length l = n * m -> List.concat (chunks m n l) = l.
Proof.
  induction n as [|n IH]; intros l H; simpl in *.
  - destruct l; [reflexivity | discriminate].
  - rewrite IH; [apply firstn_skipn|]. rewrite skipn_length. lia.
Qed.
Lemma chunks_sizes {A} m n : forall (l : list A), List.length l = n * m -> Forall (fun c => List.length c = m) (chunks m n l).
Proof.
  induction n as [|n IH]; intros l H; simpl in *; constructor.
  - rewrite firstn_length. lia.
  - apply IH. rewrite skipn_length. lia.
Qed.

Lemma jleaves_list l : jleaves (JList l) = flat_map jleaves l.
Proof. simpl. induction l as [|x t IH]; [reflexivity|]. simpl. rewrite IH. reflexivity. Qed.

Definition is_leaf (j : json) : Prop := match j with JList _ => False | _ => True end.

Lemma jleaves_nest s : forall l, Forall is_leaf l -> List.length l = prod s -> jleaves (nest s l) = l.
Proof.
  induction s as [|n t IH]; intros l Hl H.
  - simpl in *. destruct l as [|x [|y r]]; try discriminate. inversion Hl; subst. destruct x; simpl; try reflexivity. contradiction.
  - cbn [nest]. rewrite jleaves_list. rewrite flat_map_concat_map, map_map.
    assert (Hc : Forall (fun c => List.length c = prod t) (chunks (prod t) n l)) by (apply chunks_sizes; simpl in H; lia).
    assert (Hall : Forall (Forall is_leaf) (chunks (prod t) n l)).
    { clear -Hl. revert l Hl. induction n as [|n IHn]; intros l Hl; simpl; constructor.
      - rewrite Forall_forall in *. intros x Hx. apply Hl. eapply in_firstn_. exact Hx.
      - apply IHn. rewrite Forall_forall in *. intros x Hx. apply Hl. eapply in_skipn_. exact Hx. }
    rewrite <- (concat_chunks (prod t) n l) at 2 by (simpl in H; lia).
    f_equal. rewrite <- (map_id (chunks (prod t) n l)) at 2. apply map_ext_in. intros c Hin.
    rewrite Forall_forall in Hc, Hall. apply IH; [apply Hall; exact Hin | apply Hc; exact Hin].
Qed.

Lemma jshape_nest s : forall l, Forall is_leaf l -> List.length l = prod s -> 0 < prod s -> jshape (nest s l) = s.
Proof.
  induction s as [|n t IH]; intros l Hl H Hp.
  - simpl in *. destruct l as [|x [|y r]]; try discriminate. inversion Hl; subst. destruct x; simpl; try reflexivity. contradiction.
  - cbn [nest jshape]. rewrite map_length, chunks_length. f_equal.
    destruct n as [|n]; [simpl in Hp; lia|]. cbn [chunks map].
    assert (Hpt : 0 < prod t) by (simpl in Hp; destruct (prod t); lia).
    apply IH; [|rewrite firstn_length; simpl in H; lia | exact Hpt].
    rewrite Forall_forall in *. intros x Hx. apply Hl. eapply in_firstn_. exact Hx.
Qed.

(* cells / labels that the array's dtype kind can hold *)
Definition cell_ok (k : kind) (c : cell) : Prop :=
  match k, c with
  | KF, (CNum _ | CNaN) => True
  | KI, CNum _ => True
  | KB, CBool _ => True
  | KO, CStr _ => True
  | _, _ => False
  end.
Definition label_ok (k : kind) (l : label) : Prop :=
  match k, l with
  | (KF | KI), LAt (ANum _) => True
  | KO, LAt (AStr _) => True
  | _, _ => False
  end.

Lemma cell_json_leaf k c : is_leaf (cell_json k c).
Proof. destruct c; simpl; try exact I. destruct k; exact I. Qed.
Lemma json_cell_json k c : cell_ok k c -> json_cell (cell_json k c) = c.
Proof. destruct k, c; simpl; intros H; try contradiction; reflexivity. Qed.
Lemma json_label_json k l : label_ok k l -> json_label (label_json k l) = l.
Proof. destruct k; destruct l as [[q|s|]|t]; simpl; intros H; try contradiction; reflexivity. Qed.

Lemma infer_kind_cells k l : l <> [] -> Forall (cell_ok k) l -> infer_kind (map (cell_json k) l) = k.
Proof.
  intros Hne H. destruct l as [|c t]; [contradiction|]. clear Hne.
  assert (G : forall P : json -> bool, (forall c, cell_ok k c -> P (cell_json k c) = true) -> forallb P (map (cell_json k) (c :: t)) = true).
  { intros P HP. apply forallb_forall. intros j Hj. apply in_map_iff in Hj. destruct Hj as [x [<- Hx]]. apply HP.
    rewrite Forall_forall in H. apply H. exact Hx. }
  assert (Hc : cell_ok k c) by (inversion H; assumption).
  unfold infer_kind. cbn [map].
  destruct k; try (destruct c; contradiction).
  - (* KB *) change (cell_json KB c :: map (cell_json KB) t) with (map (cell_json KB) (c :: t)).
    rewrite (G is_jbool); [reflexivity|]. intros x Hx. destruct x; try contradiction; reflexivity.
  - (* KI *) change (cell_json KI c :: map (cell_json KI) t) with (map (cell_json KI) (c :: t)).
    assert (Hb : forallb is_jbool (map (cell_json KI) (c :: t)) = false) by (destruct c; try contradiction; reflexivity).
    rewrite Hb. rewrite (G is_jint); [reflexivity|]. intros x Hx. destruct x; try contradiction; reflexivity.
  - (* KF *) change (cell_json KF c :: map (cell_json KF) t) with (map (cell_json KF) (c :: t)).
    assert (Hb : forallb is_jbool (map (cell_json KF) (c :: t)) = false) by (destruct c; try contradiction; reflexivity).
    assert (Hi : forallb is_jint (map (cell_json KF) (c :: t)) = false) by (destruct c; try contradiction; reflexivity).
    rewrite Hb, Hi. rewrite (G is_jnum); [reflexivity|]. intros x Hx. destruct x; try contradiction; reflexivity.
  - (* KO *) change (cell_json KO c :: map (cell_json KO) t) with (map (cell_json KO) (c :: t)).
    assert (Hb : forallb is_jbool (map (cell_json KO) (c :: t)) = false) by (destruct c; try contradiction; reflexivity).
    assert (Hi : forallb is_jint (map (cell_json KO) (c :: t)) = false) by (destruct c; try contradiction; reflexivity).
    assert (Hn : forallb is_jnum (map (cell_json KO) (c :: t)) = false) by (destruct c; try contradiction; reflexivity).
    rewrite Hb, Hi, Hn. reflexivity.
Qed.
Lemma infer_kind_labels k l : l <> [] -> Forall (label_ok k) l ->
  match infer_kind (map (label_json k) l) with KO => KO | k' => k' end = k.
Proof.
  intros Hne H. destruct l as [|c t]; [contradiction|]. clear Hne.
  assert (G : forall P : json -> bool, (forall c, label_ok k c -> P (label_json k c) = true) -> forallb P (map (label_json k) (c :: t)) = true).
  { intros P HP. apply forallb_forall. intros j Hj. apply in_map_iff in Hj. destruct Hj as [x [<- Hx]]. apply HP.
    rewrite Forall_forall in H. apply H. exact Hx. }
  assert (Hc : label_ok k c) by (inversion H; assumption).
  unfold infer_kind. cbn [map].
  destruct k; try (destruct c as [[q|s|]|tt]; contradiction).
  - change (label_json KI c :: map (label_json KI) t) with (map (label_json KI) (c :: t)).
    assert (Hb : forallb is_jbool (map (label_json KI) (c :: t)) = false) by (destruct c as [[q|s|]|tt]; try contradiction; reflexivity).
    rewrite Hb. rewrite (G is_jint); [reflexivity|]. intros x Hx. destruct x as [[q|s|]|tt]; try contradiction; reflexivity.
  - change (label_json KF c :: map (label_json KF) t) with (map (label_json KF) (c :: t)).
    assert (Hb : forallb is_jbool (map (label_json KF) (c :: t)) = false) by (destruct c as [[q|s|]|tt]; try contradiction; reflexivity).
    assert (Hi : forallb is_jint (map (label_json KF) (c :: t)) = false) by (destruct c as [[q|s|]|tt]; try contradiction; reflexivity).
    rewrite Hb, Hi. rewrite (G is_jnum); [reflexivity|]. intros x Hx. destruct x as [[q|s|]|tt]; try contradiction; reflexivity.
  - change (label_json KO c :: map (label_json KO) t) with (map (label_json KO) (c :: t)).
    assert (Hb : forallb is_jbool (map (label_json KO) (c :: t)) = false) by (destruct c as [[q|s|]|tt]; try contradiction; reflexivity).
    assert (Hi : forallb is_jint (map (label_json KO) (c :: t)) = false) by (destruct c as [[q|s|]|tt]; try contradiction; reflexivity).
    assert (Hn : forallb is_jnum (map (label_json KO) (c :: t)) = false) by (destruct c as [[q|s|]|tt]; try contradiction; reflexivity).
    rewrite Hb, Hi, Hn. reflexivity.
Qed.

Definition json_ok (a : darr) : Prop :=
  wf_shape a /\ Forall (cell_ok (kd (vals a))) (dat (vals a)) /\ Forall (fun ax => Forall (label_ok (akind ax)) (alab ax)) (axes a).

(* from_json(to_json(a)): the same shape, values, dims, labels and metadata; the same dtype kinds wherever
   there is at least one value / label to infer them from *)
Theorem json_roundtrip_spec a :
  json_ok a ->
  exists r, json_roundtrip a = Ok r /\
    sh (vals r) = sh (vals a) /\ dat (vals r) = dat (vals a) /\ (dat (vals a) <> [] -> kd (vals r) = kd (vals a)) /\
    map aname (axes r) = dims a /\ map alab (axes r) = map alab (axes a) /\
    (forall i, i < List.length (axes a) -> alab (nth i (axes a) dax0) <> [] -> akind (nth i (axes r) dax0) = akind (nth i (axes a) dax0)) /\
    attrs r = attrs a.
Proof.
  intros [[Hs Hd] [Hc Hl]]. unfold json_roundtrip, from_jsondict, to_jsondict. cbn [j_values j_dims j_labels j_shape j_meta].
  set (leaves := map (cell_json (kd (vals a))) (dat (vals a))).
  assert (Hleaf : Forall is_leaf leaves) by (apply Forall_forall; intros j Hj; apply in_map_iff in Hj; destruct Hj as [c [<- _]]; apply cell_json_leaf).
  assert (Hlen : List.length leaves = prod (sh (vals a))) by (unfold leaves; rewrite map_length; exact Hd).
  rewrite (jleaves_nest _ _ Hleaf Hlen).
  assert (Hshape : match leaves with [] => sh (vals a) | _ :: _ => jshape (nest (sh (vals a)) leaves) end = sh (vals a)).
  { destruct leaves as [|j0 lt] eqn:El; [reflexivity|]. rewrite <- El. apply jshape_nest; [rewrite El; exact Hleaf | rewrite El; exact Hlen |].
    rewrite <- Hlen. simpl. lia. }
  rewrite Hshape. unfold dims. rewrite !map_length, Nat.eqb_refl. cbn [negb].
  set (axs := map _ (combine (map aname (axes a)) _)).
  assert (Haxs : map alen axs = sh (vals a) /\ map aname axs = map aname (axes a) /\ map alab axs = map alab (axes a) /\
                 forall i, i < List.length (axes a) -> alab (nth i (axes a) dax0) <> [] -> akind (nth i axs dax0) = akind (nth i (axes a) dax0)).
  { rewrite <- Hs. unfold axs. clear -Hl. induction (axes a) as [|ax t IH]; [repeat split; intros; simpl in *; lia|].
    inversion Hl as [|? ? Hax Ht]; subst. destruct (IH Ht) as [A [B [C D]]]. cbn [map combine].
    assert (E : map json_label (map (label_json (akind ax)) (alab ax)) = alab ax).
    { rewrite map_map. rewrite <- (map_id (alab ax)) at 2. apply map_ext_in. intros l Hin. apply json_label_json.
      rewrite Forall_forall in Hax. apply Hax. exact Hin. }
    repeat split; cbn [fst snd].
    - f_equal; [unfold alen, mkaxis; simpl; rewrite E; reflexivity | exact A].
    - f_equal. exact B.
    - f_equal; [simpl; exact E | exact C].
    - intros [|i] Hi Hne; [|apply D; [simpl in Hi; lia | exact Hne]]. simpl nth in *. simpl akind at 1.
      apply infer_kind_labels; assumption. }
  destruct Haxs as [A [B [C D]]].
  unfold construct. cbn [sh]. rewrite A, list_eqb_nat_refl. simpl.
  eexists. split; [reflexivity|]. simpl. repeat split; try assumption; try reflexivity.
  - unfold leaves. rewrite map_map. rewrite <- (map_id (dat (vals a))) at 2. apply map_ext_in. intros c Hin.
    apply json_cell_json. rewrite Forall_forall in Hc. apply Hc. exact Hin.
  - intros Hne. unfold leaves. apply infer_kind_cells; assumption.
Qed.

(* ================================================================== netCDF *)
Lemma assoc_set_same {A} k (v : A) l : assoc k (assoc_set k v l) = Some v.
Proof.
  induction l as [|[k' v'] t IH]; simpl; [rewrite String.eqb_refl; reflexivity|].
  destruct (String.eqb_spec k k'); simpl; [rewrite String.eqb_refl; reflexivity|].
  destruct (String.eqb_spec k k'); [contradiction | exact IH].
Qed.
Lemma assoc_set_other {A} k k' (v : A) l : k' <> k -> assoc k' (assoc_set k v l) = assoc k' l.
Proof.
  intros Hne. induction l as [|[k2 v2] t IH]; simpl.
  - destruct (String.eqb_spec k' k); [contradiction | reflexivity].
  - destruct (String.eqb_spec k k2); simpl.
    + subst k2. destruct (String.eqb_spec k' k); [contradiction | reflexivity].
    + destruct (String.eqb_spec k' k2); [reflexivity | exact IH].
Qed.
Lemma assoc_none_notin {A} k (l : list (string * A)) : assoc k l = None <-> ~ In k (map fst l).
Proof.
  induction l as [|[k' v'] t IH]; simpl; [split; [intros _ [] | reflexivity]|].
  destruct (String.eqb_spec k k'); split; intros H.
  - discriminate.
  - exfalso. apply H. left. symmetry. assumption.
  - intros [E|Hin]; [apply n; symmetry; exact E | apply IH in H; contradiction].
  - apply IH. intros Hin. apply H. right. exact Hin.
Qed.
Lemma has_key_false {A} k (l : list (string * A)) : has_key k l = false <-> ~ In k (map fst l).
Proof. unfold has_key. rewrite <- assoc_none_notin. destruct (assoc k l); split; intros H; try reflexivity; discriminate. Qed.
Lemma has_key_true {A} k (l : list (string * A)) : has_key k l = true <-> In k (map fst l).
Proof.
  destruct (has_key k l) eqn:E; split; intros H; try reflexivity; try discriminate.
  - destruct (in_dec string_dec k (map fst l)) as [Hin|Hn]; [exact Hin|]. apply has_key_false in Hn. congruence.
  - apply has_key_false in E. contradiction.
Qed.
Lemma assoc_set_new {A} k (v : A) l : ~ In k (map fst l) -> assoc_set k v l = l ++ [(k, v)].
Proof.
  induction l as [|[k' v'] t IH]; intros H; simpl; [reflexivity|].
  destruct (String.eqb_spec k k'); [exfalso; apply H; left; symmetry; assumption|].
  rewrite IH; [reflexivity | intros Hin; apply H; right; exact Hin].
Qed.
Lemma assoc_app {A} k (l1 l2 : list (string * A)) :
  assoc k (l1 ++ l2) = match assoc k l1 with Some v => Some v | None => assoc k l2 end.
Proof. induction l1 as [|[k' v'] t IH]; simpl; [reflexivity|]. destruct (String.eqb k k'); [reflexivity | exact IH]. Qed.
Lemma assoc_set_keys {A} k (v : A) l : forall x, In x (map fst (assoc_set k v l)) <-> x = k \/ In x (map fst l).
Proof.
  intros x. induction l as [|[k' v'] t IH]; simpl; [intuition|].
  destruct (String.eqb_spec k k'); simpl; [subst; intuition|]. rewrite IH. intuition.
Qed.

(* the file [g] keeps everything [f] had: dimensions with their sizes, variables with data and attributes *)
Definition keeps (f g : ncfile) : Prop :=
  (forall d n, assoc d (nf_dims f) = Some n -> assoc d (nf_dims g) = Some n) /\
  (forall k v, assoc k (nf_vars f) = Some v -> assoc k (nf_vars g) = Some v) /\
  nf_attrs g = nf_attrs f /\ nf_fmt3 g = nf_fmt3 f.
Lemma keeps_refl f : keeps f f.
Proof. repeat split; auto. Qed.
Lemma keeps_trans f g h : keeps f g -> keeps g h -> keeps f h.
Proof. intros [A [B [C D]]] [A' [B' [C' D']]]. repeat split; auto; congruence. Qed.

Lemma append_axis_keeps ax f g : nc_append_axis ax f = Ok g -> keeps f g.
Proof.
  unfold nc_append_axis. destruct (has_key (aname ax) (nf_dims f)) eqn:Ed; [discriminate|].
  destruct (nc_kind _ _) as [k|]; simpl; [|discriminate].
  destruct (has_key (aname ax) (nf_vars f)) eqn:Ev; [discriminate|]. intros [= <-].
  apply has_key_false in Ed, Ev. repeat split; simpl.
  - intros d n H. rewrite assoc_app, H. reflexivity.
  - intros k' v H. rewrite assoc_set_other; [exact H|]. intros ->. apply assoc_none_notin in Ev. congruence.
Qed.

Lemma fold_axes_keeps axs : forall f g,
  fold_left (fun acc ax => let! g := acc in if has_key (aname ax) (nf_dims g) then Ok g else nc_append_axis ax g) axs (Ok f) = Ok g ->
  keeps f g.
Proof.
  induction axs as [|ax t IH]; intros f g H; simpl in H; [injection H as <-; apply keeps_refl|].
  destruct (has_key (aname ax) (nf_dims f)); [apply IH; exact H|].
  destruct (nc_append_axis ax f) as [f1|e] eqn:E.
  - eapply keeps_trans; [eapply append_axis_keeps; exact E | apply IH; exact H].
  - exfalso. clear -H. induction t as [|x t IH]; simpl in H; [discriminate | apply IH; exact H].
Qed.

Lemma set_var_keeps_new name v f h : assoc name (nf_vars f) = None -> keeps f h -> keeps f (set_var name v h).
Proof.
  intros Hnew [A [B [C D]]]. repeat split; simpl; auto.
  intros k' v' Hv. rewrite assoc_set_other; [apply B; exact Hv|]. intros ->. congruence.
Qed.

(* appending a variable under a new name keeps what was already there *)
Theorem write_var_keeps name a f g :
  assoc name (nf_vars f) = None -> nc_write_var name a f = Ok g -> keeps f g.
Proof.
  intros Hnew H. unfold nc_write_var in H. destruct (nc_kind _ _) as [k|]; simpl in H; [|discriminate].
  rewrite Hnew in H.
  destruct (fold_left _ (axes a) (Ok f)) as [f0|] eqn:E0; simpl in H; [|discriminate].
  pose proof (fold_axes_keeps _ _ _ E0) as K0.
  match type of H with (let! f1 := ?X in _) = _ => destruct X as [f1|] eqn:E1 end; simpl in H; [|discriminate].
  assert (K1 : keeps f f1).
  { destruct (has_key name (nf_vars f0)); injection E1 as <-; [exact K0 | apply set_var_keeps_new; assumption]. }
  destruct (assoc name (nf_vars f1)) as [v|]; [|discriminate].
  destruct (negb (forallb _ (nv_dims v))); [discriminate|].
  destruct (negb (list_eqb Nat.eqb _ _)); [discriminate|].
  destruct (negb (list_eqb String.eqb _ _)); [discriminate|].
  injection H as <-. apply set_var_keeps_new; assumption.
Qed.

(* ... and what read_nc shows of an old variable does not change either *)
Lemma keeps_dim_size f g d : keeps f g -> has_key d (nf_dims f) = true -> dim_size g d = dim_size f d.
Proof.
  intros [A _] H. unfold dim_size, has_key in *. destruct (assoc d (nf_dims f)) as [n|] eqn:E; [|discriminate].
  rewrite (A d n E). reflexivity.
Qed.
Lemma keeps_axis f g d : keeps f g -> has_key d (nf_dims f) = true -> has_key d (nf_vars f) = true -> nc_axis g d = nc_axis f d.
Proof.
  intros K Hd Hv. pose proof K as [_ [B _]]. unfold nc_axis, has_key in *.
  destruct (assoc d (nf_vars f)) as [v|] eqn:E; [|discriminate]. rewrite (B d v E). reflexivity.
Qed.
Theorem keeps_read_var f g k v :
  keeps f g -> assoc k (nf_vars f) = Some v ->
  Forall (fun d => has_key d (nf_dims f) = true /\ has_key d (nf_vars f) = true) (nv_dims v) ->
  assoc k (nf_vars g) = Some v /\ nc_read_var g v = nc_read_var f v.
Proof.
  intros K Hv Hd. pose proof K as [_ [B _]]. split; [apply B; exact Hv|].
  unfold nc_read_var. f_equal.
  - apply map_ext_in. intros d Hin. rewrite Forall_forall in Hd. destruct (Hd d Hin) as [H1 H2]. apply keeps_axis; assumption.
  - f_equal. apply map_ext_in. intros d Hin. rewrite Forall_forall in Hd. destruct (Hd d Hin) as [H1 _]. apply keeps_dim_size; assumption.
Qed.

(* ------------------------------------------------------------------ writing a Dataset to a new file and reading it back *)
Definition kind_nc_ok (fmt3 : bool) (k : kind) : Prop := k = KF \/ k = KI \/ (k = KO /\ fmt3 = false).
Lemma nc_kind_ok fmt3 k : kind_nc_ok fmt3 k -> nc_kind fmt3 k = Ok k.
Proof. intros [->|[->|[-> ->]]]; reflexivity. Qed.

Definition meta_ok (m : meta) : Prop := NoDup (map fst m) /\ Forall (fun p => nc_attr (snd p) = snd p) m.
Lemma attrs_update_app acc m :
  NoDup (map fst m) -> (forall k, In k (map fst m) -> ~ In k (map fst acc)) -> Forall (fun p => nc_attr (snd p) = snd p) m ->
  attrs_update acc m = acc ++ m.
Proof.
  unfold attrs_update. revert acc. induction m as [|[k v] t IH]; intros acc Hnd Hdis Hv; simpl; [rewrite app_nil_r; reflexivity|].
  inversion Hnd as [|? ? Hk Hnd']; subst. inversion Hv as [|? ? Hv1 Hv']; subst. simpl in Hv1. rewrite Hv1.
  rewrite assoc_set_new by (apply Hdis; left; reflexivity).
  rewrite IH; [rewrite <- app_assoc; reflexivity | exact Hnd' | | exact Hv'].
  intros k' Hk' Hin. rewrite map_app in Hin. apply in_app_or in Hin. destruct Hin as [Hin|[E|[]]].
  - apply (Hdis k'); [right; exact Hk' | exact Hin].
  - simpl in E. subst k'. contradiction.
Qed.
Lemma attrs_update_nil m : meta_ok m -> attrs_update [] m = m.
Proof. intros [H1 H2]. rewrite attrs_update_app; [reflexivity | exact H1 | intros k _ [] | exact H2]. Qed.

Definition axis_nc_ok (fmt3 : bool) (ax : axis) : Prop :=
  kind_nc_ok fmt3 (akind ax) /\ meta_ok (aattrs ax) /\ amem ax = [] /\ Forall (fun l => cell_label (label_cell l) = l) (alab ax).
Definition coord (ax : axis) : string * ncvar :=
  (aname ax, {| nv_dims := [aname ax]; nv_kind := akind ax; nv_data := map label_cell (alab ax); nv_attrs := aattrs ax |}).
Definition dim_of (ax : axis) : string * nat := (aname ax, alen ax).
Definition mkv (a : darr) : ncvar := {| nv_dims := dims a; nv_kind := kd (vals a); nv_data := dat (vals a); nv_attrs := attrs a |}.
Definition file_of (fmt3 : bool) (D : list axis) (W : list (string * darr)) (at_ : meta) : ncfile :=
  {| nf_fmt3 := fmt3; nf_dims := map dim_of D; nf_unl := [];
     nf_vars := map coord D ++ map (fun p => (fst p, mkv (snd p))) W; nf_attrs := at_ |}.

Lemma keys_coord D : map fst (map coord D) = map aname D.
Proof. rewrite map_map. reflexivity. Qed.
Lemma keys_dim_of D : map fst (map dim_of D) = map aname D.
Proof. rewrite map_map. reflexivity. Qed.

(* the first pass of Dataset.write_nc: one dimension and one coordinate variable per axis *)
Lemma axes_pass fmt3 at_ D : forall P,
  NoDup (map aname (P ++ D)) -> Forall (axis_nc_ok fmt3) D ->
  fold_left (fun acc ax => let! g := acc in if has_key (aname ax) (nf_dims g) then Ok g else nc_append_axis ax g) D (Ok (file_of fmt3 P [] at_))
  = Ok (file_of fmt3 (P ++ D) [] at_).
Proof.
  induction D as [|ax t IH]; intros P Hnd Hok; simpl; [rewrite app_nil_r; reflexivity|].
  inversion Hok as [|? ? [Hk [Hm [Hmem Hl]]] Hok']; subst.
  assert (Hfresh : ~ In (aname ax) (map aname P)).
  { rewrite map_app in Hnd. simpl in Hnd. apply NoDup_remove_2 in Hnd. intros Hin. apply Hnd. apply in_or_app. left. exact Hin. }
  assert (E1 : has_key (aname ax) (map dim_of P) = false) by (apply has_key_false; rewrite keys_dim_of; exact Hfresh).
  rewrite E1. unfold nc_append_axis. cbn [file_of nf_dims nf_vars nf_fmt3 nf_unl nf_attrs]. rewrite E1.
  rewrite (nc_kind_ok _ _ Hk). cbn [bind]. rewrite !app_nil_r.
  assert (E2 : has_key (aname ax) (map coord P) = false) by (apply has_key_false; rewrite keys_coord; exact Hfresh).
  rewrite E2. unfold set_var. cbn [nf_dims nf_vars nf_fmt3 nf_unl nf_attrs].
  rewrite assoc_set_new by (rewrite keys_coord; exact Hfresh). rewrite (attrs_update_nil _ Hm).
  specialize (IH (P ++ [ax])). rewrite <- app_assoc in IH. simpl in IH.
  unfold file_of in IH. rewrite !map_app in IH. simpl in IH. rewrite !app_nil_r in IH.
  unfold file_of. rewrite !map_app. simpl. rewrite !app_nil_r.
  rewrite map_app in Hnd. simpl in Hnd. apply IH; [exact Hnd | exact Hok'].
Qed.

Lemma assoc_map_in {A B} (key : A -> string) (val : A -> B) (l : list A) x :
  NoDup (map key l) -> In x l -> assoc (key x) (map (fun y => (key y, val y)) l) = Some (val x).
Proof.
  induction l as [|y t IH]; intros Hnd Hin; [destruct Hin|]. simpl. inversion Hnd as [|? ? Hy Hnd']; subst.
  destruct Hin as [->|Hin]; [rewrite String.eqb_refl; reflexivity|].
  destruct (String.eqb_spec (key x) (key y)) as [E|_]; [|apply IH; assumption].
  exfalso. apply Hy. rewrite <- E. apply in_map. exact Hin.
Qed.

Lemma dim_size_file fmt3 D W at_ ax : NoDup (map aname D) -> In ax D -> dim_size (file_of fmt3 D W at_) (aname ax) = alen ax.
Proof. intros Hnd Hin. unfold dim_size, file_of; simpl. unfold dim_of. rewrite (assoc_map_in aname alen D ax Hnd Hin). reflexivity. Qed.

Definition var_ok (fmt3 : bool) (D : list axis) (p : string * darr) : Prop :=
  wf_shape (snd p) /\ kind_nc_ok fmt3 (kd (vals (snd p))) /\ meta_ok (attrs (snd p)) /\ Forall (fun ax => In ax D) (axes (snd p)).

Lemma fold_present g (axs : list axis) :
  Forall (fun ax => has_key (aname ax) (nf_dims g) = true) axs ->
  fold_left (fun acc ax => let! g := acc in if has_key (aname ax) (nf_dims g) then Ok g else nc_append_axis ax g) axs (Ok g) = Ok g.
Proof. induction 1 as [|ax t H _ IH]; simpl; [reflexivity | rewrite H; exact IH]. Qed.

Lemma list_eqb_str_refl l : list_eqb String.eqb l l = true.
Proof. induction l as [|d t IH]; simpl; [reflexivity | rewrite String.eqb_refl; exact IH]. Qed.

(* writing one more variable over existing dimensions adds exactly that variable *)
Lemma write_var_exact fmt3 D W at_ name a :
  NoDup (map aname D) -> ~ In name (map aname D) -> ~ In name (map fst W) -> var_ok fmt3 D (name, a) ->
  nc_write_var name a (file_of fmt3 D W at_) = Ok (file_of fmt3 D (W ++ [(name, a)]) at_).
Proof.
  intros Hnd HnD HnW [[Hs Hd] [Hk [Hm Hax]]]. simpl in *. unfold nc_write_var.
  cbn [file_of nf_fmt3]. rewrite (nc_kind_ok _ _ Hk). cbn [bind].
  assert (Hkeys : ~ In name (map fst (map coord D ++ map (fun p => (fst p, mkv (snd p))) W))).
  { rewrite map_app, keys_coord, map_map. simpl. intros Hin. apply in_app_or in Hin. destruct Hin; contradiction. }
  assert (Hnone : assoc name (nf_vars (file_of fmt3 D W at_)) = None) by (apply assoc_none_notin; exact Hkeys).
  rewrite Hnone.
  rewrite fold_present.
  2:{ apply Forall_forall. intros ax Hin. rewrite Forall_forall in Hax. apply has_key_true. simpl. rewrite keys_dim_of. apply in_map. apply Hax. exact Hin. }
  cbn [bind].
  assert (Hhk : has_key name (nf_vars (file_of fmt3 D W at_)) = false) by (apply has_key_false; exact Hkeys).
  rewrite Hhk. cbn [bind].
  set (L := map coord D ++ map (fun p => (fst p, mkv (snd p))) W) in *.
  match goal with |- context [set_var name ?P (file_of fmt3 D W at_)] => set (PH := P) end.
  assert (E1 : set_var name PH (file_of fmt3 D W at_) =
               {| nf_fmt3 := fmt3; nf_dims := map dim_of D; nf_unl := []; nf_vars := L ++ [(name, PH)]; nf_attrs := at_ |}).
  { unfold set_var, file_of. cbn [nf_vars nf_dims nf_fmt3 nf_unl nf_attrs]. fold L. rewrite assoc_set_new by exact Hkeys. reflexivity. }
  rewrite E1. cbn [nf_vars]. rewrite assoc_app.
  assert (Hn1 : assoc name L = None) by (apply assoc_none_notin; exact Hkeys).
  rewrite Hn1. simpl assoc. rewrite String.eqb_refl. change (nv_dims PH) with (dims a). change (nv_kind PH) with (kd (vals a)). change (nv_attrs PH) with (@nil (string * mval)).
  assert (Hmem : forallb (fun d => mem_str d (dims a)) (dims a) = true).
  { apply forallb_forall. intros d Hin. unfold mem_str. apply existsb_exists. exists d. split; [exact Hin | apply String.eqb_refl]. }
  rewrite Hmem. cbn [negb].
  assert (Hshape : map (dim_size {| nf_fmt3 := fmt3; nf_dims := map dim_of D; nf_unl := []; nf_vars := L ++ [(name, PH)]; nf_attrs := at_ |}) (dims a) = sh (vals a)).
  { rewrite <- Hs. unfold dims. rewrite map_map. apply map_ext_in. intros ax Hin. rewrite Forall_forall in Hax.
    unfold dim_size; simpl. unfold dim_of. rewrite (assoc_map_in aname alen D ax Hnd (Hax ax Hin)). reflexivity. }
  rewrite Hshape, list_eqb_nat_refl. cbn [negb].
  rewrite list_eqb_str_refl. cbn [negb]. unfold set_var. cbn [nf_vars nf_dims nf_fmt3 nf_unl nf_attrs].
  f_equal. unfold file_of. f_equal.
  rewrite map_app. simpl. rewrite app_assoc. fold L.
  assert (Hset : forall (v v' : ncvar), assoc_set name v' (L ++ [(name, v)]) = L ++ [(name, v')]).
  { intros v v'. clear -Hkeys. induction L as [|[k x] t IH]; simpl; [rewrite String.eqb_refl; reflexivity|].
    destruct (String.eqb_spec name k) as [E|_]; [exfalso; apply Hkeys; left; symmetry; exact E|].
    rewrite IH; [reflexivity | intros Hin; apply Hkeys; right; exact Hin]. }
  rewrite Hset. unfold mkv. rewrite (attrs_update_nil _ Hm). reflexivity.
Qed.

Lemma vars_pass fmt3 D at_ vars : forall W,
  NoDup (map aname D) -> NoDup (map fst (W ++ vars)) -> (forall k, In k (map fst (W ++ vars)) -> ~ In k (map aname D)) ->
  Forall (var_ok fmt3 D) vars ->
  fold_left (fun acc p => let! g := acc in nc_write_var (fst p) (snd p) g) vars (Ok (file_of fmt3 D W at_)) = Ok (file_of fmt3 D (W ++ vars) at_).
Proof.
  induction vars as [|[k a] t IH]; intros W HD Hnd Hdis Hok; simpl; [rewrite app_nil_r; reflexivity|].
  inversion Hok as [|? ? H1 Hok']; subst.
  rewrite write_var_exact; try assumption.
  - specialize (IH (W ++ [(k, a)])). rewrite <- app_assoc in IH. simpl in IH. apply IH; assumption.
  - apply Hdis. rewrite map_app. apply in_or_app. right. left. reflexivity.
  - rewrite map_app in Hnd. simpl in Hnd. apply NoDup_remove_2 in Hnd. intros Hin. apply Hnd. apply in_or_app. left. exact Hin.
Qed.

(* reading the file back *)
Lemma assoc_coord fmt3 D W at_ ax : NoDup (map aname D) -> In ax D ->
  assoc (aname ax) (nf_vars (file_of fmt3 D W at_)) = Some (snd (coord ax)).
Proof.
  intros Hnd Hin. unfold file_of; simpl. rewrite assoc_app.
  change (map coord D) with (map (fun y => (aname y, snd (coord y))) D).
  rewrite (assoc_map_in aname (fun y => snd (coord y)) D ax Hnd Hin). reflexivity.
Qed.
Lemma nc_axis_file fmt3 D W at_ ax : NoDup (map aname D) -> In ax D -> axis_nc_ok fmt3 ax -> nc_axis (file_of fmt3 D W at_) (aname ax) = ax.
Proof.
  intros Hnd Hin [_ [_ [Hmem Hl]]]. unfold nc_axis. rewrite (assoc_coord fmt3 D W at_ ax Hnd Hin). simpl.
  destruct ax as [n k l m g]. simpl in *. subst g. f_equal.
  rewrite map_map. rewrite <- (map_id l) at 2. apply map_ext_in. intros x Hx. rewrite Forall_forall in Hl. apply Hl. exact Hx.
Qed.

Lemma filter_vars D (W : list (string * darr)) (dimsl : list (string * nat)) :
  map fst dimsl = map aname D -> (forall k, In k (map fst W) -> ~ In k (map aname D)) ->
  filter (fun p : string * ncvar => negb (has_key (fst p) dimsl)) (map coord D ++ map (fun p => (fst p, mkv (snd p))) W)
  = map (fun p => (fst p, mkv (snd p))) W.
Proof.
  intros Hk Hdis. rewrite filter_app.
  assert (E1 : filter (fun p : string * ncvar => negb (has_key (fst p) dimsl)) (map coord D) = []).
  { assert (G : forall D', (forall ax, In ax D' -> In (aname ax) (map aname D)) -> filter (fun p : string * ncvar => negb (has_key (fst p) dimsl)) (map coord D') = []).
    { induction D' as [|ax t IH]; intros H; simpl; [reflexivity|].
      assert (Ht : has_key (aname ax) dimsl = true) by (apply has_key_true; rewrite Hk; apply H; left; reflexivity).
      rewrite Ht. simpl. apply IH. intros x Hx. apply H. right. exact Hx. }
    apply G. intros ax Hin. apply in_map. exact Hin. }
  rewrite E1. simpl.
  induction W as [|[k a] t IH]; simpl; [reflexivity|].
  assert (Hf : has_key k dimsl = false) by (apply has_key_false; rewrite Hk; apply Hdis; left; reflexivity).
  rewrite Hf. simpl. f_equal. apply IH. intros k' Hk'. apply Hdis. right. exact Hk'.
Qed.

Lemma read_var_file fmt3 D W at_ a :
  NoDup (map aname D) -> Forall (axis_nc_ok fmt3) D -> wf_shape a -> Forall (fun ax => In ax D) (axes a) ->
  nc_read_var (file_of fmt3 D W at_) (mkv a) = a.
Proof.
  intros Hnd Hok [Hs Hd] Hax. unfold nc_read_var, mkv. cbn [nv_dims nv_kind nv_data nv_attrs].
  assert (E1 : map (nc_axis (file_of fmt3 D W at_)) (dims a) = axes a).
  { unfold dims. rewrite map_map. rewrite <- (map_id (axes a)) at 2. apply map_ext_in. intros ax Hin.
    rewrite Forall_forall in Hax, Hok. apply nc_axis_file; [exact Hnd | apply Hax; exact Hin | apply Hok; apply Hax; exact Hin]. }
  assert (E2 : map (dim_size (file_of fmt3 D W at_)) (dims a) = sh (vals a)).
  { rewrite <- Hs. unfold dims. rewrite map_map. apply map_ext_in. intros ax Hin. rewrite Forall_forall in Hax.
    apply dim_size_file; [exact Hnd | apply Hax; exact Hin]. }
  rewrite E1, E2. destruct a as [axs [s d k] m]; reflexivity.
Qed.

(* a Dataset: variables over shared axes *)
Definition dataset_ok (fmt3 : bool) (vars : list (string * darr)) (at_ : meta) : Prop :=
  let D := ds_axes vars in
  NoDup (map aname D) /\ Forall (axis_nc_ok fmt3) D /\ NoDup (map fst vars) /\
  (forall k, In k (map fst vars) -> ~ In k (map aname D)) /\ Forall (var_ok fmt3 D) vars /\ meta_ok at_.

(* MAIN: Dataset.write_nc to a new file followed by read_nc gives the dataset back: the same axes in the same order,
   every variable with its values, dtype kind, dims, axes and metadata, and the dataset metadata *)
Theorem write_read_roundtrip fmt3 vars at_ :
  dataset_ok fmt3 vars at_ ->
  exists f, nc_write_ds vars at_ (nc_empty fmt3) = Ok f /\
    nc_read f = {| p_axes := ds_axes vars; p_vars := vars; p_attrs := at_ |}.
Proof.
  intros [HD [Hax [Hnv [Hdis [Hv Hm]]]]]. set (D := ds_axes vars) in *.
  unfold nc_write_ds. fold D.
  change (nc_empty fmt3) with (file_of fmt3 [] [] []).
  rewrite (axes_pass fmt3 [] D [] HD Hax). cbn [bind app].
  rewrite (vars_pass fmt3 D [] vars [] HD Hnv Hdis Hv). cbn [bind app].
  eexists. split; [reflexivity|].
  unfold nc_read. cbn [nf_dims nf_vars nf_attrs nf_fmt3 nf_unl file_of]. rewrite (attrs_update_nil _ Hm). f_equal.
  - rewrite map_map. simpl. rewrite <- (map_id D) at 2. apply map_ext_in. intros ax Hin.
    rewrite Forall_forall in Hax.
    change {| nf_fmt3 := fmt3; nf_dims := map dim_of D; nf_unl := []; nf_vars := map coord D ++ map (fun p => (fst p, mkv (snd p))) vars; nf_attrs := at_ |}
      with (file_of fmt3 D vars at_).
    apply nc_axis_file; [exact HD | exact Hin | apply Hax; exact Hin].
  - rewrite (filter_vars D vars (map dim_of D)); [|apply keys_dim_of | exact Hdis].
    rewrite map_map. simpl. rewrite <- (map_id vars) at 2. apply map_ext_in. intros [k a] Hin. simpl. f_equal.
    change {| nf_fmt3 := fmt3; nf_dims := map dim_of D; nf_unl := []; nf_vars := map coord D ++ map (fun p => (fst p, mkv (snd p))) vars; nf_attrs := at_ |}
      with (file_of fmt3 D vars at_).
    rewrite Forall_forall in Hv. destruct (Hv (k, a) Hin) as [Hw [_ [_ Hin']]]. simpl in *.
    apply read_var_file; assumption.
Qed.
