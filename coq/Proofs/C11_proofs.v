(* C11: flatten, unflatten and reshape group dimensions losslessly. *)
From Coq Require Import Qround Qabs.
From DA Require Import Prelude NDArray Array PyRT.
From DA.Model Require Import Value Reshape SliceSpec Indexing Align Transform Flatten.
From DA.Proofs Require Import ListLemmas C10_proofs.
Open Scope nat_scope.
Open Scope list_scope.

(* ------------------------------------------------------------------ labels of the grouped axis *)
(* the k-th grouped label is the k-th combination of member labels in row-major order of the listed
   members: entry j of that tuple is member j's label at position (unravel k)[j] *)
Definition pick (mems : list (list atom)) (c : list nat) : list atom :=
  map (fun p => nth (snd p) (fst p) ANone) (combine mems c).

Lemma flat_map_seq_nth {A B} (l : list A) (f : A -> list B) d :
  flat_map f l = flat_map (fun i => f (nth i l d)) (seq 0 (List.length l)).
Proof.
  induction l as [|x t IH]; [reflexivity|]. simpl. f_equal.
  rewrite IH. rewrite <- seq_shift. rewrite flat_map_concat_map, flat_map_concat_map, map_map. reflexivity.
Qed.

Lemma map_flat_map {A B C} (g : B -> C) (f : A -> list B) l : map g (flat_map f l) = flat_map (fun x => map g (f x)) l.
Proof. induction l as [|x t IH]; simpl; [reflexivity|]. rewrite map_app, IH. reflexivity. Qed.

Theorem product_labels_coords mems :
  product_labels mems = map (pick mems) (coords (map (@List.length atom) mems)).
Proof.
  induction mems as [|l t IH]; simpl; [reflexivity|].
  rewrite IH. rewrite (flat_map_seq_nth l _ ANone). rewrite map_flat_map.
  apply flat_map_ext. intros i. rewrite !map_map. apply map_ext. intros c. reflexivity.
Qed.

Corollary product_labels_nth mems k :
  k < prod (map (@List.length atom) mems) ->
  nth k (product_labels mems) [] = pick mems (unravel (map (@List.length atom) mems) k).
Proof.
  intros Hk. rewrite product_labels_coords.
  rewrite (nth_map_in _ _ _ []) by (rewrite coords_length; exact Hk). reflexivity.
Qed.

Theorem multi_axis_labels mems g :
  List.length mems <> 1 -> multi_axis mems = Ok g ->
  exists atoms, mapM (fun m => mapM label_atom (alab m)) mems = Ok atoms /\
    aname g = join_names (map aname mems) /\
    alab g = map LTup (product_labels atoms) /\
    amem g = map to_maxis mems.
Proof.
  intros Hl. unfold multi_axis. destruct mems as [|m [|m2 t]]; [discriminate | simpl in Hl; lia |].
  destruct (existsb _ _); [discriminate|].
  destruct (mapM _ (m :: m2 :: t)) as [atoms|] eqn:E; simpl; [|discriminate].
  intros [= <-]. exists atoms. simpl. auto.
Qed.

(* ------------------------------------------------------------------ values under grouping *)
Lemma ravel_single n k : ravel [n] [k] = k.
Proof. simpl. lia. Qed.

(* reshape of contiguous dimensions: the cell at grouped position k is the original cell at the
   coordinates (unravel k) of the members - for any prefix and suffix of other dimensions *)
Theorem ravel_group s1 g s2 c1 k c2 :
  List.length c1 = List.length s1 -> k < prod g ->
  ravel (s1 ++ [prod g] ++ s2) (c1 ++ [k] ++ c2) = ravel (s1 ++ g ++ s2) (c1 ++ unravel g k ++ c2).
Proof.
  intros H1 Hk.
  rewrite (ravel_app s1 ([prod g] ++ s2) c1 ([k] ++ c2) H1).
  rewrite (ravel_app s1 (g ++ s2) c1 (unravel g k ++ c2) H1).
  assert (Hu : List.length (unravel g k) = List.length g) by (apply inb_length, unravel_inb; exact Hk).
  rewrite (ravel_app g s2 (unravel g k) c2 Hu).
  rewrite ravel_unravel by exact Hk.
  rewrite !prod_app.
  change ([prod g] ++ s2) with (prod g :: s2). change ([k] ++ c2) with (k :: c2). simpl. lia.
Qed.

Theorem group_at_spec names ins a r :
  group_at names ins a = Ok r ->
  let k := List.length names in
  let mems := firstn k (skipn ins (axes a)) in
  exists g, multi_axis mems = Ok g /\
    axes r = firstn ins (axes a) ++ [g] ++ skipn (ins + k) (axes a) /\
    attrs r = attrs a /\ dat (vals r) = dat (vals a) /\
    sh (vals r) = map alen (firstn ins (axes a) ++ [g] ++ skipn (ins + k) (axes a)).
Proof.
  unfold group_at. cbv zeta. destruct (multi_axis _) as [g|] eqn:Eg; simpl; [|discriminate].
  destruct (mem_str _ _); [discriminate|].
  intros [= <-]. exists g. simpl. auto.
Qed.

(* same data, and get by the regrouped coordinate *)
Theorem group_get s1 g s2 (d : list cell) c1 k c2 :
  List.length c1 = List.length s1 -> k < prod g ->
  getl CNaN (s1 ++ [prod g] ++ s2) d (c1 ++ [k] ++ c2) = getl CNaN (s1 ++ g ++ s2) d (c1 ++ unravel g k ++ c2).
Proof. intros H1 Hk. unfold getl. rewrite ravel_group by assumption. reflexivity. Qed.

(* ------------------------------------------------------------------ non-contiguous dims: one transpose suffices *)
(* this is the termination argument of the (recursive) source: after transposing to newdims the listed
   dimensions sit contiguously at [ins], so the second call takes the base branch *)
Theorem flatten_newdims_contiguous (others names : list string) ins :
  ins <= List.length others ->
  firstn (List.length names) (skipn ins (firstn ins others ++ names ++ skipn ins others)) = names.
Proof.
  intros H. rewrite skipn_app. rewrite firstn_length_le by exact H. rewrite Nat.sub_diag. simpl skipn at 2.
  rewrite (skipn_all2 (firstn ins others)) by (rewrite firstn_length_le; [lia | exact H]).
  simpl. rewrite firstn_app, Nat.sub_diag. simpl. rewrite app_nil_r. apply firstn_all.
Qed.

(* ------------------------------------------------------------------ unflatten . flatten *)
Lemma of_to_maxis ax : amem ax = [] -> of_maxis (to_maxis ax) = ax.
Proof. destruct ax; simpl. intros ->. reflexivity. Qed.

Lemma unflatten_axes_plain axs : Forall (fun ax => amem ax = []) axs -> unflatten_axes axs = axs.
Proof.
  induction 1 as [|ax t H _ IH]; simpl; [reflexivity|]. rewrite H. f_equal. exact IH.
Qed.

Lemma unflatten_axes_app x y : unflatten_axes (x ++ y) = unflatten_axes x ++ unflatten_axes y.
Proof.
  induction x as [|ax t IH]; simpl; [reflexivity|]. destruct (amem ax); simpl; rewrite IH; [reflexivity|].
  rewrite <- app_assoc. reflexivity.
Qed.

Lemma skipn_skipn_ {A} m n (l : list A) : skipn m (skipn n l) = skipn (n + m) l.
Proof. revert n; induction l as [|x l IH]; intros [|n]; simpl; try reflexivity; [destruct m; reflexivity | apply IH]. Qed.
Lemma in_firstn_ {A} n (l : list A) x : In x (firstn n l) -> In x l.
Proof. revert n; induction l as [|y l IH]; intros [|n]; simpl; try tauto. intros [E|H]; [auto | right; eapply IH; exact H]. Qed.
Lemma in_skipn_ {A} n (l : list A) x : In x (skipn n l) -> In x l.
Proof. revert n; induction l as [|y l IH]; intros [|n]; simpl; try tauto. intros H. right. eapply IH. exact H. Qed.

Lemma existsb_str_In' s l : existsb (String.eqb s) l = true <-> In s l.
Proof.
  rewrite existsb_exists. split.
  - intros [x [Hx E]]. apply String.eqb_eq in E. subst. exact Hx.
  - intros H. exists s. split; [exact H | apply String.eqb_refl].
Qed.
Lemma nodupb_str_NoDup' l : NoDup l -> nodupb String.eqb l = true.
Proof.
  induction 1 as [|x t Hx _ IH]; [reflexivity|]. simpl. rewrite IH, andb_true_r. apply negb_true_iff.
  destruct (existsb (String.eqb x) t) eqn:E; [|reflexivity]. apply existsb_str_In' in E. contradiction.
Qed.

(* grouping plain contiguous axes and then un-grouping restores the axes exactly, and the data *)
Theorem unflatten_group_at names ins a r :
  wf_shape a -> NoDup (dims a) -> Forall (fun ax => amem ax = []) (axes a) ->
  ins + List.length names <= List.length (axes a) -> names <> [] ->
  group_at names ins a = Ok r -> unflatten r = Ok a.
Proof.
  intros [Hsa Hda] Hnd Hplain Hlen Hne H.
  destruct (group_at_spec _ _ _ _ H) as [g [Hg [Hax [Hat [Hd Hs]]]]]. cbv zeta in Hg.
  set (k := List.length names) in *.
  set (mems := firstn k (skipn ins (axes a))) in *.
  assert (Hmem : map of_maxis (amem g) = mems /\ amem g <> []).
  { assert (Hpm : Forall (fun ax => amem ax = []) mems).
    { unfold mems. apply Forall_forall. intros x Hx. rewrite Forall_forall in Hplain. apply Hplain.
      apply (in_skipn_ ins). apply (in_firstn_ k). exact Hx. }
    unfold multi_axis in Hg. destruct mems as [|m [|m2 t]] eqn:Em.
    - discriminate.
    - injection Hg as <-. simpl. inversion Hpm; subst. rewrite of_to_maxis by assumption. split; [reflexivity | discriminate].
    - destruct (existsb _ _); [discriminate|]. destruct (mapM _ _); simpl in Hg; [|discriminate]. injection Hg as <-.
      cbn [amem]. split; [|discriminate].
      inversion Hpm as [|? ? H1 Hpm2]; subst. inversion Hpm2 as [|? ? H2 Hpm3]; subst.
      simpl. rewrite !of_to_maxis by assumption. f_equal. f_equal. rewrite map_map.
      rewrite <- (map_id t) at 2. apply map_ext_in. intros x Hx. apply of_to_maxis.
      rewrite Forall_forall in Hpm3. apply Hpm3. exact Hx. }
  destruct Hmem as [Hmem Hnonempty].
  assert (Hua : unflatten_axes (axes r) = axes a).
  { rewrite Hax, !unflatten_axes_app.
    assert (Hg1 : unflatten_axes [g] = mems).
    { simpl. destruct (amem g) eqn:Eg; [contradiction|]. rewrite app_nil_r. exact Hmem. }
    rewrite Hg1.
    rewrite (unflatten_axes_plain (firstn ins (axes a))).
    - rewrite (unflatten_axes_plain (skipn (ins + k) (axes a))).
      + unfold mems.
        rewrite <- (firstn_skipn ins (axes a)) at 4. f_equal.
        rewrite <- (firstn_skipn k (skipn ins (axes a))) at 2. f_equal.
        rewrite skipn_skipn_. reflexivity.
      + apply Forall_forall. intros x Hx. rewrite Forall_forall in Hplain. apply Hplain. apply (in_skipn_ _ _ _ Hx).
    - apply Forall_forall. intros x Hx. rewrite Forall_forall in Hplain. apply Hplain. apply (in_firstn_ _ _ _ Hx). }
  unfold unflatten. rewrite Hua.
  replace (nodupb String.eqb (map aname (axes a))) with true
    by (symmetry; apply nodupb_str_NoDup'; exact Hnd).
  cbn [negb]. f_equal. apply darr_eq; simpl.
  - reflexivity.
  - apply nd_eq; simpl; [exact Hsa | exact Hd |].
    unfold group_at in H. cbv zeta in H. fold k mems in H. rewrite Hg in H. simpl in H.
    destruct (mem_str _ _); [discriminate|]. injection H as <-. reflexivity.
  - exact Hat.
Qed.
