(* C02: label slices are inclusive bounding boxes.
   (1) bridge lemma over the GENERATED locate_slice (increasing axis, positive step);
   (2) the bounding-box characterisation of searchsorted bounds on a sorted axis;
   (3) Python's slice positions; (4) finite sweeps of the generated code against the
   declarative specification on the domain named by the property's quantifier. *)
From DA Require Import Prelude NDArray Array PyRT.
From DA.Gen Require Import locate_slice.
From DA.Model Require Import SliceSpec.
From DA.Proofs Require Import ListLemmas.
From Coq Require Import Sorted.
Open Scope string_scope.

(* ------------------------------------------------------------------ counts on sorted lists *)
Definition count_lt (v : Q) (xs : list Q) : nat := List.length (filter (fun x => negb (Qle_bool v x)) xs).
Definition count_le (v : Q) (xs : list Q) : nat := List.length (filter (fun x => Qle_bool x v) xs).

Lemma negb_Qle_lt a b : negb (Qle_bool a b) = true <-> (b < a)%Q.
Proof.
  rewrite negb_true_iff. split.
  - intros H. apply Qnot_le_lt. intros Hle. apply Qle_bool_iff in Hle. congruence.
  - intros H. apply not_true_is_false. intros Hle. apply Qle_bool_iff in Hle.
    apply (Qlt_not_le _ _ H). exact Hle.
Qed.

Lemma count_lt_none v xs : Forall (fun y => (v <= y)%Q) xs -> count_lt v xs = 0%nat.
Proof.
  induction 1 as [|y t Hy _ IH]; [reflexivity|].
  unfold count_lt in *. simpl. apply Qle_bool_iff in Hy. rewrite Hy. simpl. exact IH.
Qed.
Lemma count_le_none v xs : Forall (fun y => (v < y)%Q) xs -> count_le v xs = 0%nat.
Proof.
  induction 1 as [|y t Hy _ IH]; [reflexivity|].
  unfold count_le in *. simpl.
  destruct (Qle_bool y v) eqn:E; [|exact IH].
  apply Qle_bool_iff in E. exfalso. apply (Qlt_not_le _ _ Hy). exact E.
Qed.

(* on a strictly increasing list the elements < v form a prefix of length count_lt *)
Lemma sorted_count_lt v xs i :
  StronglySorted Qlt xs -> (i < List.length xs)%nat ->
  ((nth i xs 0 < v)%Q <-> (i < count_lt v xs)%nat).
Proof.
  intros Hs. revert i. induction Hs as [|x t Ht IH Hx]; intros i Hi; simpl in *; [lia|].
  unfold count_lt in *. simpl.
  destruct (Qle_bool v x) eqn:E; simpl.
  - (* x >= v : nothing is < v *)
    apply Qle_bool_iff in E.
    assert (Hall : Forall (fun y => (v <= y)%Q) t).
    { eapply Forall_impl; [|exact Hx]. intros y Hy. simpl in Hy. apply Qlt_le_weak. eapply Qle_lt_trans; eassumption. }
    pose proof (count_lt_none v t Hall) as H0. unfold count_lt in H0. rewrite H0.
    split; [|lia]. intros Hlt. exfalso. destruct i as [|j].
    + apply (Qlt_not_le _ _ Hlt). exact E.
    + assert (Hin : In (nth j t 0%Q) t) by (apply nth_In; lia).
      rewrite Forall_forall in Hall. apply (Qlt_not_le _ _ Hlt). apply Hall. exact Hin.
  - destruct i as [|j].
    + split; [lia|]. intros _. apply negb_Qle_lt. rewrite E. reflexivity.
    + rewrite (IH j) by lia. lia.
Qed.

Lemma sorted_count_le v xs i :
  StronglySorted Qlt xs -> (i < List.length xs)%nat ->
  ((nth i xs 0 <= v)%Q <-> (i < count_le v xs)%nat).
Proof.
  intros Hs. revert i. induction Hs as [|x t Ht IH Hx]; intros i Hi; simpl in *; [lia|].
  unfold count_le in *. simpl.
  destruct (Qle_bool x v) eqn:E; simpl.
  - destruct i as [|j].
    + split; [lia|]. intros _. apply Qle_bool_iff. exact E.
    + rewrite (IH j) by lia. lia.
  - assert (Hvx : (v < x)%Q) by (apply negb_Qle_lt; rewrite E; reflexivity).
    assert (Hall : Forall (fun y => (v < y)%Q) t).
    { eapply Forall_impl; [|exact Hx]. intros y Hy. simpl in Hy. eapply Qlt_trans; eassumption. }
    pose proof (count_le_none v t Hall) as H0. unfold count_le in H0. rewrite H0.
    split; [|lia]. intros Hle. exfalso. destruct i as [|j].
    + apply (Qlt_not_le _ _ Hvx). exact Hle.
    + assert (Hin : In (nth j t 0%Q) t) by (apply nth_In; lia).
      rewrite Forall_forall in Hall. apply (Qlt_not_le _ _ (Hall _ Hin)). exact Hle.
Qed.

Lemma filter_len_le {A} (f : A -> bool) l : (List.length (filter f l) <= List.length l)%nat.
Proof. induction l as [|x l IH]; simpl; [lia|]. destruct (f x); simpl; lia. Qed.
Lemma seq_as_map a n : seq a n = map (fun i => a + i)%nat (seq 0 n).
Proof.
  revert a; induction n as [|n IH]; intros a; simpl; [reflexivity|].
  f_equal; [lia|]. rewrite (IH (S a)), <- seq_shift, map_map. apply map_ext. intros i. lia.
Qed.
Lemma count_lt_le_length v xs : (count_lt v xs <= List.length xs)%nat.
Proof. unfold count_lt. apply filter_len_le. Qed.
Lemma count_le_le_length v xs : (count_le v xs <= List.length xs)%nat.
Proof. unfold count_le. apply filter_len_le. Qed.

(* the bounding box: positions in [count_lt lo, count_le hi) are exactly those whose label
   lies in [lo, hi], both bounds included, neither required to be a label *)
Theorem bbox_increasing xs lo hi i :
  StronglySorted Qlt xs -> (i < List.length xs)%nat ->
  ((count_lt lo xs <= i < count_le hi xs)%nat <-> (lo <= nth i xs 0 /\ nth i xs 0 <= hi)%Q).
Proof.
  intros Hs Hi. pose proof (sorted_count_lt lo xs i Hs Hi) as H1.
  pose proof (sorted_count_le hi xs i Hs Hi) as H2. split.
  - intros [Ha Hb]. split; [|apply H2; exact Hb].
    apply Qnot_lt_le. intros Hlt. apply H1 in Hlt. lia.
  - intros [Ha Hb]. split; [|apply H2; exact Hb].
    destruct (le_lt_dec (count_lt lo xs) i) as [H|H]; [exact H|].
    apply H1 in H. exfalso. apply (Qlt_not_le _ _ H). exact Ha.
Qed.

(* ------------------------------------------------------------------ Python slice positions *)
Lemma range_fuel_up fuel s n :
  (n <= fuel)%nat -> range_fuel fuel s (s + Z.of_nat n) 1 = map (fun i => s + Z.of_nat i)%Z (seq 0 n).
Proof.
  revert s n; induction fuel as [|f IH]; intros s n Hn.
  - assert (n = 0)%nat by lia. subst. reflexivity.
  - simpl. destruct n as [|n].
    + simpl. replace (s + 0)%Z with s by lia. rewrite Z.ltb_irrefl. reflexivity.
    + replace (s <? s + Z.of_nat (S n))%Z with true by (symmetry; apply Z.ltb_lt; lia).
      simpl seq. simpl map. f_equal; [f_equal; lia|].
      replace (s + Z.of_nat (S n))%Z with ((s + 1) + Z.of_nat n)%Z by lia.
      rewrite IH by lia. rewrite <- seq_shift, map_map. apply map_ext. intros i. lia.
Qed.

(* slice(a, b) with 0 <= a, b <= n and positive unit step selects a, a+1, ..., b-1 *)
Theorem slice_positions_unit a b n :
  (a <= n)%nat -> (b <= n)%nat ->
  slice_positions (Some (Z.of_nat a)) (Some (Z.of_nat b)) None n = Ok (seq a (b - a)).
Proof.
  intros Ha Hb. unfold slice_positions, py_slice_indices. cbn [Z.eqb Z.ltb Z.compare].
  replace (Z.of_nat a <? 0)%Z with false by (symmetry; apply Z.ltb_ge; lia).
  replace (Z.of_nat b <? 0)%Z with false by (symmetry; apply Z.ltb_ge; lia).
  rewrite !Z.min_l by lia. cbn [bind]. f_equal.
  unfold py_range.
  destruct (le_lt_dec a b) as [Hab|Hab].
  - replace (Z.of_nat b) with (Z.of_nat a + Z.of_nat (b - a))%Z by lia.
    rewrite range_fuel_up by lia. rewrite map_map.
    rewrite (seq_as_map a (b - a)). apply map_ext. intros i. lia.
  - replace (b - a)%nat with 0%nat by lia. simpl seq.
    destruct (Z.to_nat (Z.abs (Z.of_nat b - Z.of_nat a)) + 1)%nat; [reflexivity|].
    simpl. replace (Z.of_nat a <? Z.of_nat b)%Z with false by (symmetry; apply Z.ltb_ge; lia). reflexivity.
Qed.

(* ------------------------------------------------------------------ bridge over the generated code *)
Lemma g_is_numeric_arr k l :
  g_is_numeric (PArr k l) = Ok (PBool (match k with KF | KI => true | _ => false end)).
Proof. destruct k; reflexivity. Qed.

Lemma mapM_cmp_num (o : cmpop) q xs :
  mapM (fun x => cmp_scalar o x (PNum q)) (map PNum xs) = Ok (map (fun x => cmp_q o x q) xs).
Proof. induction xs as [|x xs IH]; simpl; [reflexivity|]. rewrite IH. reflexivity. Qed.

Lemma filter_id_map {A} (f : A -> bool) l :
  List.length (filter (fun b : bool => b) (map f l)) = List.length (filter f l).
Proof. induction l as [|x l IH]; simpl; [reflexivity|]. destruct (f x); simpl; rewrite IH; reflexivity. Qed.

Lemma searchsorted_left k xs q :
  np_searchsorted (arrQ k xs) (PNum q) (PStr "left") = Ok (PInt (Z.of_nat (count_lt q xs))).
Proof.
  unfold np_searchsorted, arrQ. cbn [as_list bind]. unfold count_where.
  rewrite mapM_cmp_num. cbn [bind]. rewrite filter_id_map. reflexivity.
Qed.
Lemma searchsorted_right k xs q :
  np_searchsorted (arrQ k xs) (PNum q) (PStr "right") = Ok (PInt (Z.of_nat (count_le q xs))).
Proof.
  unfold np_searchsorted, arrQ. cbn [as_list bind]. unfold count_where.
  rewrite mapM_cmp_num. cbn [bind]. rewrite filter_id_map. reflexivity.
Qed.

Lemma last_cons {A} (l : list A) y x : last (y :: l) x = last l y.
Proof.
  revert y x; induction l as [|z l IH]; intros y x; [reflexivity|].
  change (last (y :: z :: l) x) with (last (z :: l) x). rewrite (IH z x), (IH z y). reflexivity.
Qed.
Lemma getitem_first k x l : py_getitem (PArr k (x :: l)) 0 = Ok x.
Proof.
  unfold py_getitem. cbn [as_list bind]. cbn [Z.ltb Z.compare].
  replace (Z.of_nat (List.length (x :: l)) <=? 0)%Z with false; [reflexivity|].
  symmetry. apply Z.leb_gt. simpl List.length. lia.
Qed.
Lemma getitem_last k x l : py_getitem (PArr k (x :: l)) (-1) = Ok (last l x).
Proof.
  unfold py_getitem. cbn [as_list bind]. cbn [Z.ltb Z.compare].
  set (n := Z.of_nat (List.length (x :: l))).
  assert (Hn : (n = Z.of_nat (List.length l) + 1)%Z) by (unfold n; simpl List.length; lia).
  replace (-1 + n <? 0)%Z with false by (symmetry; apply Z.ltb_ge; lia).
  replace (n <=? -1 + n)%Z with false by (symmetry; apply Z.leb_gt; lia).
  cbn [orb]. f_equal. replace (Z.to_nat (-1 + n)) with (List.length l) by lia.
  clear. revert x. induction l as [|y l IH]; intros x; [reflexivity|].
  simpl List.length. change (nth (S (List.length l)) (x :: y :: l) PNone) with (nth (List.length l) (y :: l) PNone).
  rewrite IH. symmetry. apply last_cons.
Qed.
Lemma last_map_num l x : last (map PNum l) (PNum x) = PNum (last l x).
Proof.
  revert x. induction l as [|y l IH]; intros x; [reflexivity|].
  change (map PNum (y :: l)) with (PNum y :: map PNum l). rewrite !last_cons. apply IH.
Qed.

Lemma size_arrQ k xs : py_attr (arrQ k xs) "size" = Ok (PInt (Z.of_nat (List.length xs))).
Proof. unfold arrQ. cbn. rewrite map_length. reflexivity. Qed.
Lemma size_cmp0 n : py_cmp CEq (PInt (Z.of_nat (S n))) (PInt 0) = Ok (PBool false).
Proof. cbn. unfold Qeq_bool, Zeq_bool. cbn. reflexivity. Qed.
Lemma step_gt s : (0 < s)%Z -> py_cmp CGt (PInt s) (PInt 0) = Ok (PBool true).
Proof.
  intros H. cbn. f_equal. f_equal. apply negb_true_iff. apply not_true_is_false. intros E.
  apply Qle_bool_iff in E. unfold Qle in E. simpl in E. lia.
Qed.
Lemma step_lt s : (0 < s)%Z -> py_cmp CLt (PInt s) (PInt 0) = Ok (PBool false).
Proof.
  intros H. cbn. f_equal. f_equal. apply negb_false_iff. apply Qle_bool_iff. unfold Qle. simpl. lia.
Qed.
Lemma getitem_first_Q k x t : py_getitem (arrQ k (x :: t)) 0 = Ok (PNum x).
Proof. unfold arrQ. simpl map. apply getitem_first. Qed.
Lemma getitem_last_Q k x t : py_getitem (arrQ k (x :: t)) (-1) = Ok (PNum (last t x)).
Proof. unfold arrQ. simpl map. rewrite getitem_last, last_map_num. reflexivity. Qed.
Arguments arrQ : simpl never.

Lemma bridge_inc k xs lo hi step :
  (k = KI \/ k = KF) ->
  g_is_monotonic_equal (arrQ k xs) = Ok (PBool true) ->
  axis_increasing xs = true ->
  (step = None \/ exists s, step = Some s /\ (0 < s)%Z) ->
  slice_bounds (arrQ k xs) (optQ lo) (optQ hi) step
  = Ok (option_map (fun q => Z.of_nat (count_lt q xs)) lo, option_map (fun q => Z.of_nat (count_le q xs)) hi).
Proof.
  intros Hk Hm Hinc Hstep.
  unfold slice_bounds, g_locate_slice.
  assert (Hkk : g_is_numeric (arrQ k xs) = Ok (PBool true)) by (destruct Hk; subst; reflexivity).
  cbn beta iota delta [bind]. rewrite Hkk. cbn beta iota delta [bind py_not truthy negb].
  rewrite Hm. cbn beta iota delta [bind py_not truthy negb].
  rewrite size_arrQ.
  assert (Hs : forall s, (0 < s)%Z -> py_cmp CGt (optZ (Some s)) (PInt 0) = Ok (PBool true)) by (intros; apply step_gt; assumption).
  assert (Hs' : forall s, (0 < s)%Z -> py_cmp CLt (optZ (Some s)) (PInt 0) = Ok (PBool false)) by (intros; apply step_lt; assumption).
  destruct xs as [|x t].
  - destruct lo as [l|], hi as [h|], Hstep as [->|[s [-> Hpos]]]; 
    try rewrite (Hs s Hpos); try rewrite (Hs' s Hpos); cbn; 
    rewrite ?searchsorted_left, ?searchsorted_right; reflexivity.
  - simpl List.length. unfold axis_increasing in Hinc. rewrite last_cons in Hinc.
    assert (Hge : py_cmp CGe (PNum (last t x)) (PNum x) = Ok (PBool true)).
    { cbn. rewrite Hinc. reflexivity. }
    repeat first [ progress cbn beta iota delta [bind truthy py_not negb]
                 | rewrite size_cmp0 | rewrite getitem_last_Q | rewrite getitem_first_Q | rewrite Hge ].
    destruct lo as [l|], hi as [h|], Hstep as [->|[s [-> Hpos]]];
    try rewrite (Hs s Hpos); try rewrite (Hs' s Hpos); cbn;
    rewrite ?searchsorted_left, ?searchsorted_right; cbn; try rewrite (Hs' s Hpos); cbn;
    rewrite ?searchsorted_left, ?searchsorted_right; try reflexivity.
Qed.

(* the complete statement for an increasing axis, closed bounds, unit step: the selected positions
   are, in axis order, exactly those whose label lies in [lo, hi] *)
Theorem bbox_slice_increasing k xs lo hi :
  (k = KI \/ k = KF) ->
  g_is_monotonic_equal (arrQ k xs) = Ok (PBool true) ->
  axis_increasing xs = true ->
  StronglySorted Qlt xs ->
  exists a b,
    run_slice (arrQ k xs) (PNum lo) (PNum hi) None (List.length xs) = Ok (seq a (b - a)) /\
    forall i, In i (seq a (b - a)) <->
              (i < List.length xs)%nat /\ (lo <= nth i xs 0 /\ nth i xs 0 <= hi)%Q.
Proof.
  intros Hk Hm Hinc Hs.
  exists (count_lt lo xs), (count_le hi xs). split.
  - unfold run_slice. change (PNum lo) with (optQ (Some lo)). change (PNum hi) with (optQ (Some hi)).
    rewrite (bridge_inc k xs (Some lo) (Some hi) None Hk Hm Hinc (or_introl eq_refl)).
    cbn [bind option_map]. apply slice_positions_unit; [apply count_lt_le_length | apply count_le_le_length].
  - intros i. rewrite in_seq. split.
    + intros Hi. pose proof (count_le_le_length hi xs) as Hb.
      assert (Hin : (i < List.length xs)%nat) by lia. split; [exact Hin|].
      apply (bbox_increasing xs lo hi i Hs Hin). lia.
    + intros [Hin Hbox]. apply (bbox_increasing xs lo hi i Hs Hin) in Hbox. lia.
Qed.

(* ------------------------------------------------------------------ finite sweeps of the generated code *)
Theorem sweep_monotonic : sweep_all_ok = true.
Proof. vm_compute. reflexivity. Qed.
Theorem sweep_strict : strict_sweep_ok = true.
Proof. vm_compute. reflexivity. Qed.

(* lifted: every point of the finite domain satisfies generated-code = specification *)
Theorem sweep_monotonic_forall k n dec lo hi st :
  In k [KI; KF] -> (n < 6)%nat -> In lo (grid_bounds n) -> In hi (grid_bounds n) -> In st steps ->
  slice_case_ok k (grid_axis n dec) lo hi st = true.
Proof.
  intros Hk Hn Hlo Hhi Hst. pose proof sweep_monotonic as H. unfold sweep_all_ok in H.
  rewrite forallb_forall in H. specialize (H k Hk). rewrite forallb_forall in H.
  specialize (H n). rewrite in_seq in H. specialize (H ltac:(lia)).
  rewrite forallb_forall in H. specialize (H dec ltac:(destruct dec; simpl; auto)).
  rewrite forallb_forall in H. specialize (H (lo, hi, st)). apply H.
  unfold sweep_n. rewrite in_flat_map. exists lo. split; [exact Hlo|].
  rewrite in_flat_map. exists hi. split; [exact Hhi|]. rewrite in_map_iff. exists st. auto.
Qed.
