(* List lemmas shared by the proofs. *)
From DA Require Import Prelude NDArray Array.
Open Scope nat_scope.

Lemma index_of_some {A} (p : A -> bool) l i :
  index_of p l = Some i -> i < List.length l /\ (forall d, p (nth i l d) = true)
  /\ forall j d, j < i -> p (nth j l d) = false.
Proof.
  revert i; induction l as [|x l IH]; intros i; simpl; [discriminate|].
  destruct (p x) eqn:Hx.
  - intros [= <-]. split; [lia|]. split; [intros; exact Hx|]. intros; lia.
  - destruct (index_of p l) as [k|]; simpl; [|discriminate]. intros [= <-].
    destruct (IH k eq_refl) as [H1 [H2 H3]]. split; [lia|]. split; [exact H2|].
    intros [|j] d Hj; [exact Hx|]. apply H3. lia.
Qed.

Lemma index_of_none {A} (p : A -> bool) l :
  index_of p l = None -> forall x, In x l -> p x = false.
Proof.
  induction l as [|y l IH]; simpl; [intros _ x []|].
  destruct (p y) eqn:Hy; [discriminate|].
  destruct (index_of p l); [discriminate|]. intros _ x [<-|Hx]; auto.
Qed.

Lemma existsb_nat_In j l : existsb (Nat.eqb j) l = true <-> In j l.
Proof.
  rewrite existsb_exists. split.
  - intros [x [Hx E]]. apply Nat.eqb_eq in E. subst. exact Hx.
  - intros H. exists j. split; [exact H | apply Nat.eqb_refl].
Qed.

Lemma nodupb_nat_NoDup l : nodupb Nat.eqb l = true -> NoDup l.
Proof.
  induction l as [|x l IH]; simpl; [constructor|].
  rewrite andb_true_iff, negb_true_iff. intros [Hx Hl]. constructor; [|apply IH; exact Hl].
  intros Hin. apply existsb_nat_In in Hin. congruence.
Qed.

Lemma index_of_nth_nodup (p : list nat) k :
  NoDup p -> k < List.length p -> index_of (Nat.eqb (nth k p 0)) p = Some k.
Proof.
  revert k; induction p as [|x p IH]; intros k Hnd Hk; simpl in *; [lia|].
  inversion Hnd as [|? ? Hx Hp]; subst.
  destruct k as [|k].
  - rewrite Nat.eqb_refl. reflexivity.
  - destruct (Nat.eqb_spec (nth k p 0) x) as [E|_].
    + exfalso. apply Hx. rewrite <- E. apply nth_In. lia.
    + rewrite IH by (auto; lia). reflexivity.
Qed.

Lemma pos_in_nth (p : list nat) k : NoDup p -> k < List.length p -> pos_in p (nth k p 0) = k.
Proof. intros Hnd Hk. unfold pos_in. rewrite index_of_nth_nodup by assumption. reflexivity. Qed.

Lemma nth_pos_in (p : list nat) j : In j p -> nth (pos_in p j) p 0 = j.
Proof.
  intros Hin. unfold pos_in. destruct (index_of (Nat.eqb j) p) as [k|] eqn:E.
  - destruct (index_of_some _ _ _ E) as [_ [H _]]. specialize (H 0). apply Nat.eqb_eq in H. auto.
  - pose proof (index_of_none _ _ E j Hin) as H. rewrite Nat.eqb_refl in H. discriminate.
Qed.

Lemma map_nth_seq {A} (l : list A) d : map (fun j => nth j l d) (seq 0 (List.length l)) = l.
Proof.
  apply (list_ext d); [rewrite map_length, seq_length; reflexivity|].
  intros i Hi. rewrite map_length, seq_length in Hi.
  rewrite (nth_indep _ d (nth 0 l d)) by (rewrite map_length, seq_length; exact Hi).
  rewrite (map_nth (fun j => nth j l d) (seq 0 (List.length l)) 0 i).
  rewrite seq_nth by exact Hi. reflexivity.
Qed.

Lemma nth_map_in {A B} (f : A -> B) l i da db : i < List.length l -> nth i (map f l) db = f (nth i l da).
Proof.
  intros H. rewrite (nth_indep _ db (f da)) by (rewrite map_length; exact H). apply map_nth.
Qed.

Lemma list_eqb_nat_eq x y : list_eqb Nat.eqb x y = true -> x = y.
Proof.
  revert y; induction x as [|a x IH]; intros [|b y]; simpl; try discriminate; auto.
  rewrite andb_true_iff. intros [E H]. apply Nat.eqb_eq in E. subst. f_equal. apply IH. exact H.
Qed.

Lemma list_eqb_nat_refl x : list_eqb Nat.eqb x x = true.
Proof. induction x as [|a x IH]; simpl; [reflexivity|]. rewrite Nat.eqb_refl. exact IH. Qed.

Lemma list_eqb_str_eq x y : list_eqb String.eqb x y = true -> x = y.
Proof.
  revert y; induction x as [|a x IH]; intros [|b y]; simpl; try discriminate; auto.
  rewrite andb_true_iff. intros [E H]. apply String.eqb_eq in E. subst. f_equal. apply IH. exact H.
Qed.

Lemma set_nth_length {A} n (x : A) l : List.length (set_nth n x l) = List.length l.
Proof. revert n; induction l as [|y l IH]; intros [|n]; simpl; auto. Qed.

Lemma nth_set_nth_eq {A} n (x : A) l d : n < List.length l -> nth n (set_nth n x l) d = x.
Proof. revert n; induction l as [|y l IH]; intros [|n] H; simpl in *; try lia; auto. apply IH. lia. Qed.

Lemma nth_set_nth_neq {A} n m (x : A) l d : n <> m -> nth m (set_nth n x l) d = nth m l d.
Proof.
  revert n m; induction l as [|y l IH]; intros [|n] [|m] H; simpl; auto; try lia.
Qed.

Lemma remove_nth_length {A} n (l : list A) : n < List.length l -> List.length (remove_nth n l) = List.length l - 1.
Proof.
  revert n; induction l as [|y l IH]; intros [|n] H; simpl in *; try lia.
  rewrite IH by lia. lia.
Qed.

Lemma insert_nth_length {A} n (x : A) l : List.length (insert_nth n x l) = S (List.length l).
Proof. revert n; induction l as [|y l IH]; intros [|n]; simpl; auto. Qed.

Lemma remove_insert_nth {A} n (x : A) l : n <= List.length l -> remove_nth n (insert_nth n x l) = l.
Proof.
  revert n; induction l as [|y l IH]; intros [|n] H; simpl in *; auto; try lia.
  f_equal. apply IH. lia.
Qed.

Lemma insert_remove_nth {A} n (l : list A) d : n < List.length l -> insert_nth n (nth n l d) (remove_nth n l) = l.
Proof.
  revert n; induction l as [|y l IH]; intros [|n] H; simpl in *; auto; try lia.
  f_equal. apply IH. lia.
Qed.

Lemma nth_insert_nth_eq {A} n (x : A) l d : n <= List.length l -> nth n (insert_nth n x l) d = x.
Proof. revert n; induction l as [|y l IH]; intros [|n] H; simpl in *; auto; try lia. apply IH. lia. Qed.

Lemma map_remove_nth {A B} (f : A -> B) n l : map f (remove_nth n l) = remove_nth n (map f l).
Proof. revert n; induction l as [|y l IH]; intros [|n]; simpl; auto. f_equal. apply IH. Qed.

Lemma map_insert_nth {A B} (f : A -> B) n x l : map f (insert_nth n x l) = insert_nth n (f x) (map f l).
Proof. revert n; induction l as [|y l IH]; intros [|n]; simpl; auto. f_equal. apply IH. Qed.

Lemma map_set_nth {A B} (f : A -> B) n x l : map f (set_nth n x l) = set_nth n (f x) (map f l).
Proof. revert n; induction l as [|y l IH]; intros [|n]; simpl; auto. f_equal. apply IH. Qed.

Lemma set_nth_same {A} n (l : list A) d : set_nth n (nth n l d) l = l.
Proof. revert n; induction l as [|y l IH]; intros [|n]; simpl; auto. f_equal. apply IH. Qed.

Lemma set_nth_set_nth {A} n (x y : A) l : set_nth n x (set_nth n y l) = set_nth n x l.
Proof. revert n; induction l as [|z l IH]; intros [|n]; simpl; auto. f_equal. apply IH. Qed.

(* shape bookkeeping for coordinates *)
Lemma inb_nth_lt sh c k : inb sh c = true -> k < List.length sh -> nth k c 0 < nth k sh 0.
Proof.
  revert c k; induction sh as [|n sh IH]; intros [|i c] k; simpl; try discriminate; try lia.
  rewrite andb_true_iff, Nat.ltb_lt. intros [Hi Hc] Hk. destruct k as [|k]; [exact Hi|].
  apply IH; [exact Hc | lia].
Qed.

Lemma inb_insert sh c p n i :
  p <= List.length sh -> inb sh c = true -> i < n -> inb (insert_nth p n sh) (insert_nth p i c) = true.
Proof.
  revert c p; induction sh as [|m sh IH]; intros [|j c] [|p] Hp Hc Hi; simpl in *; try discriminate; try lia.
  - rewrite andb_true_iff, Nat.ltb_lt. auto.
  - rewrite andb_true_iff, Nat.ltb_lt. auto.
  - rewrite andb_true_iff in *. destruct Hc as [H1 H2]. split; [exact H1|]. apply IH; auto. lia.
Qed.

Lemma inb_remove sh c p :
  inb sh c = true -> inb (remove_nth p sh) (remove_nth p c) = true.
Proof.
  revert c p; induction sh as [|m sh IH]; intros [|j c] [|p] Hc; simpl in *; try discriminate; auto.
  - rewrite andb_true_iff in Hc. tauto.
  - rewrite andb_true_iff in *. destruct Hc as [H1 H2]. split; [exact H1|]. apply IH; auto.
Qed.

Lemma inb_set sh c p n i :
  inb sh c = true -> i < n -> inb (set_nth p n sh) (set_nth p i c) = true.
Proof.
  revert c p; induction sh as [|m sh IH]; intros [|j c] [|p] Hc Hi; simpl in *; try discriminate; auto.
  - rewrite andb_true_iff, Nat.ltb_lt in *. tauto.
  - rewrite andb_true_iff in *. destruct Hc as [H1 H2]. split; [exact H1|]. apply IH; auto.
Qed.
