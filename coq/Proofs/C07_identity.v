(* C07: "reindexing onto the array's own labels is the identity" *)
From Coq Require Import Permutation.
From DA Require Import Prelude NDArray Array PyRT.
From DA.Model Require Import Value Reshape SliceSpec Indexing Align.
From DA.Proofs Require Import ListLemmas C10_proofs C01_proofs C17_proofs C01_complete C07_proofs.
Open Scope nat_scope.
Open Scope list_scope.

Definition distinct_labels (ls : list label) : Prop :=
  forall p q, p < List.length ls -> q < List.length ls -> label_eqb (nth p ls LNone) (nth q ls LNone) = true -> p = q.

(* the lookup of an axis' own labels returns every position in order *)
Lemma locate_own ls : distinct_labels ls -> locate_many_raw false ls ls = Ok (seq 0 (List.length ls)).
Proof.
  intros Hd. destruct ls as [|l0 lt] eqn:El; [reflexivity|]. rewrite <- El in *.
  rewrite locate_many_raw_nonempty by (rewrite El; discriminate). f_equal.
  apply (list_ext 0); [rewrite map_length, seq_length; reflexivity|].
  intros k Hk. rewrite map_length in Hk. rewrite (nth_map_in _ ls k LNone 0) by exact Hk. rewrite seq_nth by exact Hk. simpl.
  set (v := nth k ls LNone).
  assert (Hex : exists i, i < List.length ls /\ label_eqb (nth i ls LNone) v = true).
  { exists k. split; [exact Hk | apply label_eqb_refl]. }
  destruct (locate_raw_finds ls v Hex) as [Hmin Hv]. cbv zeta in Hmin, Hv.
  change (map (lab ls) (argsort ls)) with (map (fun j => nth j ls LNone) (argsort ls)) in Hmin, Hv.
  rewrite Hmin. set (c := ss_count false (map (fun j => nth j ls LNone) (argsort ls)) v) in *.
  assert (Hc : c < List.length ls) by (assert (0 < List.length ls) by (rewrite El; simpl; lia); lia).
  assert (Hp : nth c (argsort ls) 0 < List.length ls).
  { pose proof (argsort_perm ls) as Hperm. assert (Hin : In (nth c (argsort ls) 0) (argsort ls)).
    { apply nth_In. rewrite (Permutation_length Hperm), seq_length. exact Hc. }
    apply (Permutation_in _ Hperm) in Hin. apply in_seq in Hin. lia. }
  apply Hd; assumption.
Qed.

Lemma map_nth_lab_seq ls : map (nth_lab ls) (seq 0 (List.length ls)) = ls.
Proof. unfold nth_lab. apply map_nth_seq. Qed.

Lemma np_take_all i v : List.length (dat v) = prod (sh v) -> i < List.length (sh v) ->
  np_take (seq 0 (nth i (sh v) 0)) i v = v.
Proof.
  intros Hd Hi. unfold np_take. rewrite seq_length.
  assert (Hsh : set_nth i (nth i (sh v) 0) (sh v) = sh v) by apply set_nth_same.
  apply nd_eq; simpl; [exact Hsh | | reflexivity].
  rewrite Hsh. apply (getl_ext CNaN (sh v)); [apply tab_length | exact Hd |].
  intros c Hc. rewrite get_tab by exact Hc.
  pose proof (inb_nth_lt _ c i Hc Hi) as Hlt. rewrite seq_nth by exact Hlt. simpl.
  rewrite set_nth_same. reflexivity.
Qed.

(* take of every position in order is the array itself *)
Lemma take_all_id i a : wf_shape a -> i < List.length (axes a) -> amem (nth i (axes a) dax0) = [] ->
  take_axis_pos (seq 0 (alen (nth i (axes a) dax0))) i a = a.
Proof.
  intros [Hs Hd] Hi Hm. unfold take_axis_pos. apply darr_eq; simpl.
  - unfold alen. rewrite map_nth_lab_seq.
    replace (with_labels (nth i (axes a) dax0) (akind (nth i (axes a) dax0)) (alab (nth i (axes a) dax0))) with (nth i (axes a) dax0).
    + apply set_nth_same.
    + destruct (nth i (axes a) dax0) as [n k l at_ mem]. simpl in Hm. subst mem. reflexivity.
  - assert (Hn : alen (nth i (axes a) dax0) = nth i (sh (vals a)) 0).
    { rewrite <- Hs. symmetry. apply (nth_map_in alen (axes a) i dax0 0). exact Hi. }
    rewrite Hn. apply np_take_all; [exact Hd|]. rewrite <- Hs, map_length. exact Hi.
  - reflexivity.
Qed.

(* reindexing an axis with distinct labels onto its own labels returns the array itself: same values, same axes
   (labels, kind, metadata), same metadata - for any fill value, raise_error setting, and method None / left *)
Theorem reindex_own_labels newk fill fk re m i a :
  wf_shape a -> i < List.length (axes a) ->
  amem (nth i (axes a) dax0) = [] ->
  distinct_labels (alab (nth i (axes a) dax0)) ->
  m <> MRight ->
  reindex_main newk (alab (nth i (axes a) dax0)) i fill fk re m a = Ok a.
Proof.
  intros Hw Hi Hm Hd Hr. set (ls := alab (nth i (axes a) dax0)).
  assert (Hside : (match m with MRight => true | _ => false end) = false) by (destruct m; try reflexivity; contradiction).
  rewrite (reindex_no_raise newk ls fill fk re m a i (seq 0 (List.length ls))).
  - f_equal. apply take_all_id; assumption.
  - rewrite Hside. apply locate_own. exact Hd.
  - unfold new_mask. apply not_true_is_false. intros Hex. apply existsb_exists in Hex. destruct Hex as [b [Hin Hb]]. subst b.
    apply in_map_iff in Hin. destruct Hin as [[p v] [Hneg Hpv]]. simpl in Hneg.
    apply negb_true_iff in Hneg.
    destruct (In_nth _ _ (0, LNone) Hpv) as [k [Hk Hnth]]. rewrite combine_length, seq_length, Nat.min_id in Hk.
    rewrite combine_nth in Hnth by (rewrite seq_length; reflexivity). rewrite seq_nth in Hnth by exact Hk. simpl in Hnth.
    injection Hnth as <- <-. unfold nth_lab in Hneg. fold ls in Hneg. rewrite label_eqb_refl in Hneg. discriminate.
Qed.
