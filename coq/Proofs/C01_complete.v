(* C01, completeness of the list lookup: argsort + searchsorted + clip finds every label that is on the axis. *)
From Coq Require Import Qround Qabs Permutation.
From DA Require Import Prelude NDArray Array PyRT.
From DA.Model Require Import Value Reshape SliceSpec Indexing Align Transform.
From DA.Proofs Require Import ListLemmas C10_proofs C01_proofs C17_proofs.
Open Scope nat_scope.
Open Scope list_scope.

Fixpoint asc (l : list label) : Prop :=
  match l with x :: ((y :: _) as t) => label_le x y = true /\ asc t | _ => True end.

Lemma asc_tail x t : asc (x :: t) -> asc t.
Proof. destruct t; simpl; tauto. Qed.
Lemma asc_head_le x t z : asc (x :: t) -> In z t -> label_le x z = true.
Proof.
  revert x; induction t as [|y t IH]; intros x H Hin; [destruct Hin|].
  destruct H as [Hxy Ht]. destruct Hin as [->|Hin]; [exact Hxy|].
  eapply label_le_trans; [exact Hxy | apply IH; assumption].
Qed.

Lemma sorted_by_asc ls l : sorted_by ls l -> asc (map (lab ls) l).
Proof.
  induction l as [|j t IH]; intros H; [exact I|]. destruct t as [|j2 t']; [exact I|].
  destruct H as [H1 H2]. split; [exact H1 | apply IH; exact H2].
Qed.

Lemma filter_none {A} (p : A -> bool) l : (forall z, In z l -> p z = false) -> filter p l = [].
Proof.
  induction l as [|z t IH]; intros H; [reflexivity|]. cbn [filter]. rewrite (H z (or_introl eq_refl)).
  apply IH. intros w Hw. apply H. right. exact Hw.
Qed.

(* searchsorted(side='left') on an ascending list lands on an element equal to v whenever there is one *)
Lemma ss_left_finds S v :
  asc S -> (exists x, In x S /\ label_eqb x v = true) ->
  ss_count false S v < List.length S /\ label_eqb (nth (ss_count false S v) S LNone) v = true.
Proof.
  unfold ss_count. induction S as [|x t IH]; intros Hs [y [Hy Ey]]; [destruct Hy|].
  cbn [filter]. destruct (label_ltb x v) eqn:Elt.
  - (* x < v: the equal element is further on *)
    assert (Hyt : In y t).
    { destruct Hy as [<-|Hy]; [|exact Hy]. exfalso. unfold label_ltb in Elt. apply negb_true_iff in Elt.
      unfold label_eqb in Ey. apply andb_true_iff in Ey. destruct Ey as [_ E2]. congruence. }
    destruct (IH (asc_tail _ _ Hs) (ex_intro _ y (conj Hyt Ey))) as [H1 H2].
    cbn [List.length nth]. split; [lia | exact H2].
  - (* v <= x: nothing after x is below v, and x itself equals v *)
    assert (Hvx : label_le v x = true) by (unfold label_ltb in Elt; apply negb_false_iff in Elt; exact Elt).
    rewrite (filter_none (fun z => label_ltb z v) t).
    2:{ intros z Hz. unfold label_ltb. apply negb_false_iff. eapply label_le_trans; [exact Hvx | eapply asc_head_le; eassumption]. }
    cbn [List.length nth]. split; [lia|].
    unfold label_eqb. apply andb_true_iff. split; [|exact Hvx].
    (* x <= v: through the equal element y, which is x or comes after x *)
    unfold label_eqb in Ey. apply andb_true_iff in Ey. destruct Ey as [Eyv _].
    destruct Hy as [<-|Hy]; [exact Eyv|]. eapply label_le_trans; [eapply asc_head_le; eassumption | exact Eyv].
Qed.

(* hence: a label that is on the axis is found, at a position that carries it *)
Theorem locate_raw_finds ls v :
  (exists i, i < List.length ls /\ label_eqb (nth i ls LNone) v = true) ->
  let isort := argsort ls in
  let S := map (lab ls) isort in
  let c := ss_count false S v in
  Nat.min c (List.length ls - 1) = c /\ label_eqb (nth (nth c isort 0) ls LNone) v = true.
Proof.
  intros [i [Hi Ei]]. cbv zeta.
  set (isort := argsort ls). set (S := map (lab ls) isort).
  assert (Hperm : Permutation isort (seq 0 (List.length ls))) by apply argsort_perm.
  assert (Hlen : List.length S = List.length ls).
  { unfold S. rewrite map_length. rewrite (Permutation_length Hperm). apply seq_length. }
  assert (Hin : exists x, In x S /\ label_eqb x v = true).
  { exists (lab ls i). split; [|exact Ei]. unfold S. apply in_map. eapply Permutation_in; [apply Permutation_sym; exact Hperm|]. apply in_seq. lia. }
  destruct (ss_left_finds S v (sorted_by_asc ls isort (argsort_sorted ls)) Hin) as [Hc Hv].
  split; [rewrite Hlen in Hc; lia|].
  unfold S in Hv. rewrite (nth_map_in (lab ls) isort _ 0 LNone) in Hv; [exact Hv|].
  unfold S in Hc. rewrite map_length in Hc. exact Hc.
Qed.

Lemma locate_many_raw_nonempty side ls vs : ls <> [] ->
  locate_many_raw side ls vs =
  Ok (map (fun v => nth (Nat.min (ss_count side (map (fun j => nth j ls LNone) (argsort ls)) v) (List.length ls - 1)) (argsort ls) 0) vs).
Proof. intros H. unfold locate_many_raw. destruct ls; [contradiction|]. destruct vs; reflexivity. Qed.

(* completeness of Axis.loc on a list: when every requested label is on the axis the lookup succeeds
   (with locate_many_sound: and returns, for each, a position carrying that label) *)
Theorem locate_many_complete ls vs :
  (forall v, In v vs -> exists i, i < List.length ls /\ label_eqb (nth i ls LNone) v = true) ->
  exists ms, locate_many ls vs = Ok ms.
Proof.
  intros H. unfold locate_many.
  destruct ls as [|l0 lt] eqn:El.
  - destruct vs as [|v vt]; [simpl; eauto|]. destruct (H v (or_introl eq_refl)) as [i [Hi _]]. simpl in Hi. lia.
  - rewrite <- El in *. rewrite locate_many_raw_nonempty by (rewrite El; discriminate).
    cbn [bind].
    match goal with |- context [forallb ?f ?l] => assert (Hg : forallb f l = true) end.
    { apply forallb_forall. intros [m v] Hmv.
      assert (Hv : In v vs) by (eapply in_combine_r; exact Hmv).
      assert (Hm : m = nth (Nat.min (ss_count false (map (fun j => nth j ls LNone) (argsort ls)) v) (List.length ls - 1)) (argsort ls) 0).
      { clear -Hmv. induction vs as [|w t IH]; [destruct Hmv|]. simpl in Hmv. destruct Hmv as [E|Hmv]; [injection E as <- <-; reflexivity | apply IH; exact Hmv]. }
      destruct (locate_raw_finds ls v (H v Hv)) as [Hmin Hlab]. cbn [fst snd]. rewrite Hm.
      change (map (fun j => nth j ls LNone) (argsort ls)) with (map (lab ls) (argsort ls)). rewrite Hmin. exact Hlab. }
    rewrite Hg. eauto.
Qed.
