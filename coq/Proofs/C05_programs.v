(* C05: well-formedness as an invariant of programs over the covered operation language (one step, then induction
   over the program).  The per-operation lemmas are in C05_proofs.v (single-array operations, align, arithmetic,
   broadcast) and C05_join.v (stack, concatenate). *)
From Coq Require Import Qround Qabs.
From DA Require Import Prelude NDArray Array PyRT.
From DA.Model Require Import Value Reshape SliceSpec Indexing Align Transform Flatten Ops.
From DA.Proofs Require Import ListLemmas C10_proofs C06_proofs C05_proofs C05_join C05_flatten.
Open Scope string_scope.
Open Scope nat_scope.
Open Scope list_scope.

(* ------------------------------------------------------------------ one step and whole programs *)
Definition covered (a : darr) (o : op) : bool :=
  match o with
  | OTranspose _ | OSwapaxes _ _ | ORollaxis _ _ | ORepeat _ _ _ | OSqueeze _
  | OReduce _ _ _ | OFlatten _ _ _ | OPercentile _ _ _ _ | OCum _ _ _ | ODiff _ _ _ _ | OArgExt _ _ | ODropna _ _
  | OGet _ _ _ | OPut _ _ _ _ | OScalarOp _ _ _ _ | ONdarrayOp _ _ | OReindex _ _ _ _ _ _ _ | OReindexAxisObj _ | OReindexLike _
  | OFillna _ _ | OSetna _ | OSetnaMask _ | OPutMask _ _ _ | OTakeAxisLabel _ _ | OTakeAxisPos _ _ | OCompressAxis _ _
  | OSortAxis _ | OSortAxisKey _ _ | OInterp _ _ _ _ _ | OInterpLike _ _ _ | OSetLabel _ _ _ _ | OSetDims _ | OSetAxis _ _ _ _ | OIdentity
  | OAlign _ _ _ | OBinop _ _ | OBinopR _ _ | OBroadcastArrays | OBroadcastTo _ | OConcat _ _ _ => true
  | OStack nm _ _ _ _ => match nm with Some n => negb (String.eqb n "") | None => true end
  | OBroadcast axs => negb (existsb (String.eqb "") (map aname axs))
  | ONewaxis n _ _ => negb (String.eqb n "")
  | OUnflatten => groups_okb a
  | OReshape newdims => groups_okb a && negb (existsb (String.eqb "") (flat_map split_commas newdims))
  | ORenameAxis r n => match axis_info a r with Ok i => negb (mem_str n (remove_nth i (dims a))) | Err _ => true end
  end.

Theorem apply_op_wf ins o a v : Forall WF ins -> WF a -> covered a o = true -> apply_op ins o a = Ok v -> WFv v.
Proof.
  intros Hins Hw Hc H. destruct o; simpl in Hc; try discriminate; simpl in H; unfold arr1 in H.
  - destruct (transpose rs a) eqn:E; simpl in H; [|discriminate]. injection H as <-. eapply transpose_wf; eassumption.
  - destruct (swapaxes r1 r2 a) eqn:E; simpl in H; [|discriminate]. injection H as <-. eapply swapaxes_wf; eassumption.
  - destruct (rollaxis r start a) eqn:E; simpl in H; [|discriminate]. injection H as <-. eapply rollaxis_wf; eassumption.
  - destruct (repeat k labs r a) eqn:E; simpl in H; [|discriminate]. injection H as <-. eapply repeat_wf; eassumption.
  - destruct (newaxis name v0 pos a) eqn:E; simpl in H; [|discriminate]. injection H as <-.
    eapply newaxis_wf; [|exact Hw | exact E]. intros ->. discriminate.
  - destruct (squeeze r a) eqn:E; simpl in H; [|discriminate]. injection H as <-. eapply squeeze_wf; eassumption.
  - destruct (broadcast axs a) eqn:E; simpl in H; [|discriminate]. injection H as <-. eapply broadcast_wf; [|exact Hw | exact E].
    apply negb_true_iff in Hc. intros Hin. apply existsb_str_In in Hin. exact (eq_true_false_abs _ Hin Hc).
  - destruct (broadcast _ a) eqn:E; simpl in H; [|discriminate]. injection H as <-. eapply broadcast_wf; [|exact Hw | exact E].
    destruct (nth_ins_wf ins i Hins) as [_ [_ He]]. exact He.
  - eapply getitem_wf; eassumption.
  - destruct (setitem f tol r cast a) eqn:E; simpl in H; [|discriminate]. injection H as <-. eapply setitem_wf; eassumption.
  - destruct (setmask m r cast a) eqn:E; simpl in H; [|discriminate]. injection H as <-. eapply setmask_wf; eassumption.
  - destruct (reindex_axis k news r fill fk raise_error m a) eqn:E; simpl in H; [|discriminate]. injection H as <-. eapply reindex_axis_wf; eassumption.
  - destruct (reindex_to_axis nx a) eqn:E; simpl in H; [|discriminate]. injection H as <-. eapply reindex_to_axis_wf; eassumption.
  - destruct (reindex_like _ a) eqn:E; simpl in H; [|discriminate]. injection H as <-. eapply reindex_like_wf; eassumption.
  - destruct (align ins j ax sort false) as [l|] eqn:E; simpl in H; [|discriminate]. injection H as <-. simpl. eapply align_wf; eassumption.
  - destruct (operation o a _) eqn:E; simpl in H; [|discriminate]. injection H as <-. eapply operation_wf; [exact Hw | apply nth_ins_wf; exact Hins | exact E].
  - destruct (operation o _ a) eqn:E; simpl in H; [|discriminate]. injection H as <-. eapply operation_wf; [apply nth_ins_wf; exact Hins | exact Hw | exact E].
  - destruct (op_scalar o c k reflected a) eqn:E; simpl in H; [|discriminate]. injection H as <-. eapply op_scalar_wf; eassumption.
  - destruct (op_ndarray o w a) eqn:E; simpl in H; [|discriminate]. injection H as <-. eapply op_ndarray_wf; eassumption.
  - destruct (stack ins name kk keys al sort) as [x|] eqn:E; simpl in H; [|discriminate]. injection H as <-. simpl.
    eapply stack_wf; [exact Hins | | exact E]. destruct name as [n|]; [|discriminate].
    intros [= ->]. simpl in Hc. discriminate.
  - destruct (concatenate ins r al sort) as [x|] eqn:E; simpl in H; [|discriminate]. injection H as <-. simpl.
    eapply concatenate_wf; eassumption.
  - destruct (sort_axis r a) eqn:E; simpl in H; [|discriminate]. injection H as <-. eapply sort_axis_wf; eassumption.
  - destruct (axis_info a r) as [i|]; simpl in H; [|discriminate]. destruct (negb _); [discriminate|]. injection H as <-. apply take_axis_pos_wf. exact Hw.
  - destruct (broadcast_arrays ins) as [l|] eqn:E; simpl in H; [|discriminate]. injection H as <-. simpl. eapply broadcast_arrays_wf; eassumption.
  - eapply reduce_any_wf; eassumption.
  - destruct (cumulative prod skipna r a) eqn:E; simpl in H; [|discriminate]. injection H as <-. eapply cumulative_wf; eassumption.
  - destruct (diff r sc keepaxis n a) eqn:E; simpl in H; [|discriminate]. injection H as <-. eapply diff_wf; eassumption.
  - destruct r; [eapply argext_axis_wf; eassumption | eapply argext_all_wf; eassumption].
  - destruct (dropna r minvalid a) eqn:E; simpl in H; [|discriminate]. injection H as <-. eapply dropna_wf; eassumption.
  - destruct (fillna c k a) eqn:E; simpl in H; [|discriminate]. injection H as <-. eapply fillna_wf; eassumption.
  - destruct (setna vs a) eqn:E; simpl in H; [|discriminate]. injection H as <-. eapply setna_wf; eassumption.
  - destruct (setna_mask m a) eqn:E; simpl in H; [|discriminate]. injection H as <-. eapply setna_mask_wf; eassumption.
  - destruct (take_axis_label ls r a) eqn:E; simpl in H; [|discriminate]. injection H as <-. eapply take_axis_label_wf; eassumption.
  - destruct (take_axis_position zs r a) eqn:E; simpl in H; [|discriminate]. injection H as <-. eapply take_axis_position_wf; eassumption.
  - destruct (axis_info a r) as [i|]; simpl in H; [|discriminate].
    destruct (compress_axis m i a) eqn:E; simpl in H; [|discriminate]. injection H as <-. eapply compress_axis_wf; eassumption.
  - destruct (interp_axis k news r left right a) eqn:E; simpl in H; [|discriminate]. injection H as <-. eapply interp_axis_wf; eassumption.
  - destruct (interp_like others left right a) eqn:E; simpl in H; [|discriminate]. injection H as <-. eapply interp_like_wf; eassumption.
  - destruct (flatten rs as_set insert a) eqn:E; simpl in H; [|discriminate]. injection H as <-. eapply flatten_wf; eassumption.
  - destruct (unflatten a) eqn:E; simpl in H; [|discriminate]. injection H as <-. eapply unflatten_wf; [exact Hw | apply groups_okb_ok; exact Hc | exact E].
  - destruct (reshape newdims a) eqn:E; simpl in H; [|discriminate]. injection H as <-.
    apply andb_true_iff in Hc. destruct Hc as [Hc1 Hc2]. apply negb_true_iff in Hc2.
    eapply reshape_wf; [exact Hw | apply groups_okb_ok; exact Hc1 | | exact E].
    intros Hin. apply existsb_str_In in Hin. exact (eq_true_false_abs _ Hin Hc2).
  - destruct (axis_info a r) as [i|]; simpl in H; [|discriminate]. destruct (String.eqb_spec n ""); [discriminate|].
    injection H as <-. apply rename_axis_wf; [exact Hw | assumption |]. apply negb_true_iff in Hc. apply mem_str_false. exact Hc.
  - destruct (axis_info a r) as [j|]; simpl in H; [|discriminate].
    destruct (py_index _ i) as [p|] eqn:Ep; simpl in H; [|discriminate]. injection H as <-. apply set_label_wf; [exact Hw|].
    apply (py_index_lt _ _ _ Ep).
  - destruct (negb (_ =? _)) eqn:El; [discriminate|]. destruct (negb (distinct_str ns)) eqn:Ed; [discriminate|].
    destruct (existsb _ ns) eqn:Ee; [discriminate|]. injection H as <-.
    apply negb_false_iff in El, Ed. apply Nat.eqb_eq in El. apply set_dims_wf; assumption.
  - destruct (axis_info a r) as [i|] eqn:Ea; simpl in H; [|discriminate].
    destruct name as [n|].
    + destruct (mem_str n (remove_nth i (dims a)) || String.eqb n "") eqn:En; [discriminate|].
      destruct (negb (_ =? _)) eqn:El; [discriminate|]. injection H as <-.
      apply orb_false_iff in En. destruct En as [En1 En2]. apply negb_false_iff, Nat.eqb_eq in El.
      apply set_axis_wf; [exact Hw | apply (axis_info_lt _ _ _ Ea) | exact El | | apply mem_str_false; exact En1].
      intros ->. discriminate.
    + destruct (negb (_ =? _)) eqn:El; [discriminate|]. injection H as <-. apply negb_false_iff, Nat.eqb_eq in El.
      apply set_axis_same_wf; [exact Hw | exact El].
  - injection H as <-. exact Hw.
  - eapply (percentile_wf ins qs scalar kk ax); [exact Hw | exact H].
Qed.

(* programs: every intermediate and the final result are well-formed *)
Fixpoint prog_covered (ins : list darr) (ops : list op) (a : darr) : bool :=
  match ops with
  | [] => true
  | o :: t => covered a o && match apply_op ins o a with Ok (VArr b) => prog_covered ins t b | _ => true end
  end.
Theorem run_ops_wf ins ops : Forall WF ins -> forall a v, WF a -> prog_covered ins ops a = true -> run_ops ins ops a = Ok v -> WFv v.
Proof.
  intros Hins. induction ops as [|o t IH]; intros a v Hw Hc H; simpl in H.
  - injection H as <-. exact Hw.
  - simpl in Hc. apply andb_true_iff in Hc. destruct Hc as [Hc1 Hc2]. destruct t as [|o2 t'].
    + eapply apply_op_wf; eassumption.
    + destruct (apply_op ins o a) as [w|] eqn:E; simpl in H; [|discriminate]. destruct w; try discriminate.
      apply (IH a0); [apply (apply_op_wf ins o a (VArr a0) Hins Hw Hc1 E) | exact Hc2 | exact H].
Qed.


(* the operations whose coverage does not depend on the state: everything except the in-place rename of one axis (a sibling's name
   is accepted, open finding), and unflatten / grouped reshape (which ask for consistent grouped axes); new names must be non-empty *)
Definition static_op (o : op) : bool :=
  match o with
  | ORenameAxis _ _ | OUnflatten | OReshape _ => false
  | OStack nm _ _ _ _ => match nm with Some n => negb (String.eqb n "") | None => true end
  | OBroadcast axs => negb (existsb (String.eqb "") (map aname axs))
  | ONewaxis n _ _ => negb (String.eqb n "")
  | _ => true
  end.
Lemma static_covered a o : static_op o = true -> covered a o = true.
Proof. destruct o; simpl; intros H; try reflexivity; try exact H; discriminate. Qed.
Lemma static_prog_covered ins ops : forall a, forallb static_op ops = true -> prog_covered ins ops a = true.
Proof.
  induction ops as [|o t IH]; intros a H; simpl in *; [reflexivity|].
  apply andb_true_iff in H. destruct H as [H1 H2]. rewrite (static_covered a o H1). simpl.
  destruct (apply_op ins o a) as [w|]; [|reflexivity]. destruct w; try reflexivity. apply IH. exact H2.
Qed.
(* any program over those operations, whatever the arguments: every intermediate and the final result are well-formed *)
Theorem run_ops_wf_static ins ops a v :
  Forall WF ins -> WF a -> forallb static_op ops = true -> run_ops ins ops a = Ok v -> WFv v.
Proof. intros Hins Hw Hs H. eapply run_ops_wf; [exact Hins | exact Hw | apply static_prog_covered; exact Hs | exact H]. Qed.
