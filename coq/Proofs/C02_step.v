(* C02: label slices with a step >= 2 on an increasing axis: every step-th position of the bounding box,
   starting from its first position (unbounded in the axis, the bounds and the step). *)
From DA Require Import Prelude NDArray Array PyRT.
From DA.Gen Require Import locate_slice.
From DA.Model Require Import SliceSpec.
From DA.Proofs Require Import ListLemmas C02_proofs C02_decreasing.
From Coq Require Import Sorted.

(* range(s, e, st) for st > 0 is s, s + st, ..., s + (m-1) st where m is the number of multiples below e *)
Lemma range_fuel_pos m : forall fuel s e st,
  (0 < st)%Z -> (m <= fuel)%nat ->
  (e - s <= Z.of_nat m * st)%Z -> ((0 < m)%nat -> ((Z.of_nat m - 1) * st < e - s)%Z) ->
  range_fuel fuel s e st = map (fun j => s + Z.of_nat j * st)%Z (seq 0 m).
Proof.
  induction m as [|m IH]; intros fuel s e st Hst Hf Hup Hlo.
  - destruct fuel as [|f]; [reflexivity|]. cbn [range_fuel seq map].
    replace (0 <? st)%Z with true by (symmetry; apply Z.ltb_lt; lia).
    replace (s <? e)%Z with false by (symmetry; apply Z.ltb_ge; lia). reflexivity.
  - destruct fuel as [|f]; [lia|]. cbn [range_fuel].
    replace (0 <? st)%Z with true by (symmetry; apply Z.ltb_lt; lia).
    assert (Hm : (0 <= Z.of_nat m * st)%Z) by (apply Z.mul_nonneg_nonneg; lia).
    specialize (Hlo ltac:(lia)).
    replace (Z.of_nat (S m) - 1)%Z with (Z.of_nat m) in Hlo by lia.
    replace (s <? e)%Z with true by (symmetry; apply Z.ltb_lt; lia).
    cbn [seq map]. f_equal; [lia|].
    rewrite (IH f (s + st)%Z e st Hst ltac:(lia)).
    + rewrite <- seq_shift, map_map. apply map_ext. intros j.
      replace (Z.of_nat (S j)) with (Z.of_nat j + 1)%Z by lia. ring.
    + replace (Z.of_nat (S m)) with (Z.of_nat m + 1)%Z in Hup by lia.
      rewrite Z.mul_add_distr_r in Hup. lia.
    + intros Hpos. rewrite Z.mul_sub_distr_r. lia.
Qed.

(* number of selected positions: ceil((b - a) / st) *)
Definition step_count (a b : nat) (st : Z) : nat := Z.to_nat ((Z.of_nat (b - a) + st - 1) / st).

Theorem slice_positions_step a b st n :
  (a <= n)%nat -> (b <= n)%nat -> (0 < st)%Z ->
  slice_positions (Some (Z.of_nat a)) (Some (Z.of_nat b)) (Some st) n
  = Ok (map (fun j => a + j * Z.to_nat st)%nat (seq 0 (step_count a b st))).
Proof.
  intros Ha Hb Hst. unfold slice_positions, py_slice_indices.
  replace (st =? 0)%Z with false by (symmetry; apply Z.eqb_neq; lia).
  replace (st <? 0)%Z with false by (symmetry; apply Z.ltb_ge; lia).
  replace (Z.of_nat a <? 0)%Z with false by (symmetry; apply Z.ltb_ge; lia).
  replace (Z.of_nat b <? 0)%Z with false by (symmetry; apply Z.ltb_ge; lia).
  rewrite !Z.min_l by lia. cbn [bind]. f_equal. unfold py_range.
  set (m := step_count a b st).
  assert (Hq : (Z.of_nat (b - a) <= Z.of_nat m * st /\ ((0 < m)%nat -> (Z.of_nat m - 1) * st < Z.of_nat (b - a)))%Z).
  { unfold m, step_count. set (d := Z.of_nat (b - a)). assert (0 <= d)%Z by lia.
    pose proof (Z.div_mod (d + st - 1) st ltac:(lia)) as Hdm.
    pose proof (Z.mod_pos_bound (d + st - 1) st Hst) as Hr.
    set (q := ((d + st - 1) / st)%Z) in *. set (r := ((d + st - 1) mod st)%Z) in *.
    assert (0 <= q)%Z by (apply Z.div_pos; lia).
    rewrite Z2Nat.id by lia. rewrite (Z.mul_comm q st). split; [lia|].
    intros _. rewrite Z.mul_sub_distr_r. rewrite (Z.mul_comm q st). lia. }
  destruct Hq as [Hq1 Hq2].
  destruct (le_lt_dec a b) as [Hab|Hab].
  - rewrite (range_fuel_pos m); [| exact Hst | | lia | intros Hp; specialize (Hq2 Hp); lia].
    + rewrite map_map. apply map_ext. intros j.
      rewrite <- (Nat2Z.id (a + j * Z.to_nat st)). f_equal.
      rewrite Nat2Z.inj_add, Nat2Z.inj_mul, Z2Nat.id by lia. reflexivity.
    + destruct m as [|m']; [lia|]. specialize (Hq2 ltac:(lia)).
      assert ((Z.of_nat (S m') - 1) <= (Z.of_nat (S m') - 1) * st)%Z by nia. lia.
  - assert (Hm0 : m = 0%nat).
    { unfold m, step_count. replace (b - a)%nat with 0%nat by lia. cbn [Z.of_nat].
      rewrite Z.div_small by lia. reflexivity. }
    rewrite Hm0. cbn [seq map].
    destruct (Z.to_nat (Z.abs (Z.of_nat b - Z.of_nat a)) + 1)%nat; [reflexivity|]. cbn [range_fuel].
    replace (0 <? st)%Z with true by (symmetry; apply Z.ltb_lt; lia).
    replace (Z.of_nat a <? Z.of_nat b)%Z with false by (symmetry; apply Z.ltb_ge; lia). reflexivity.
Qed.

(* membership: exactly the positions of [a, b) congruent to a modulo the step *)
Lemma in_step_positions a b st i :
  (0 < st)%Z ->
  In i (map (fun j => a + j * Z.to_nat st)%nat (seq 0 (step_count a b st)))
  <-> (a <= i < b)%nat /\ exists j, i = (a + j * Z.to_nat st)%nat.
Proof.
  intros Hst. rewrite in_map_iff. unfold step_count.
  set (d := Z.of_nat (b - a)). set (s := Z.to_nat st). assert (Hs : (0 < s)%nat) by (unfold s; lia).
  assert (Hsz : Z.of_nat s = st) by (unfold s; lia).
  pose proof (Z.div_mod (d + st - 1) st ltac:(lia)) as Hdm.
  pose proof (Z.mod_pos_bound (d + st - 1) st Hst) as Hr.
  assert (Hq0 : (0 <= (d + st - 1) / st)%Z) by (apply Z.div_pos; lia).
  set (q := ((d + st - 1) / st)%Z) in *. set (r := ((d + st - 1) mod st)%Z) in *.
  split.
  - intros [j [Hj Hin]]. apply in_seq in Hin. split; [|exists j; lia].
    assert (Hjq : (Z.of_nat j + 1 <= q)%Z) by lia.
    assert (st * (Z.of_nat j + 1) <= st * q)%Z by (apply Z.mul_le_mono_nonneg_l; lia).
    assert (Z.of_nat (j * s) = Z.of_nat j * st)%Z by (rewrite Nat2Z.inj_mul, Hsz; reflexivity).
    assert (Z.of_nat j * st < d)%Z by lia. unfold d in *. lia.
  - intros [[Hai Hib] [j Hj]]. exists j. split; [lia|]. apply in_seq. split; [lia|].
    cbn [plus]. assert (Z.of_nat (j * s) = Z.of_nat j * st)%Z by (rewrite Nat2Z.inj_mul, Hsz; reflexivity).
    assert (Z.of_nat j * st < d)%Z by (unfold d; lia).
    assert (Z.of_nat j < q)%Z.
    { destruct (Z_lt_le_dec (Z.of_nat j) q) as [|Hge]; [assumption|exfalso].
      assert (st * q <= st * Z.of_nat j)%Z by (apply Z.mul_le_mono_nonneg_l; lia). lia. }
    lia.
Qed.

(* end to end: a[lo:hi:s] on an increasing axis = every s-th position of the closed box [lo, hi], from its first *)
Theorem bbox_slice_step_increasing k xs lo hi s :
  (k = KI \/ k = KF) ->
  g_is_monotonic_equal (arrQ k xs) = Ok (PBool true) ->
  axis_increasing xs = true ->
  StronglySorted Qlt xs ->
  (0 < s)%Z ->
  exists a ps,
    run_slice (arrQ k xs) (PNum lo) (PNum hi) (Some s) (List.length xs) = Ok ps /\
    (forall i, (i < a)%nat -> ~ (lo <= nth i xs 0)%Q) /\
    forall i, In i ps <->
              (i < List.length xs)%nat /\ (lo <= nth i xs 0 /\ nth i xs 0 <= hi)%Q /\
              exists j, i = (a + j * Z.to_nat s)%nat.
Proof.
  intros Hk Hm Hinc Hs Hpos.
  exists (count_lt lo xs), (map (fun j => count_lt lo xs + j * Z.to_nat s)%nat
                             (seq 0 (step_count (count_lt lo xs) (count_le hi xs) s))).
  split; [|split].
  - unfold run_slice. change (PNum lo) with (optQ (Some lo)). change (PNum hi) with (optQ (Some hi)).
    rewrite (bridge_inc k xs (Some lo) (Some hi) (Some s) Hk Hm Hinc (or_intror (ex_intro _ s (conj eq_refl Hpos)))).
    cbn [bind option_map]. apply slice_positions_step; [apply count_lt_le_length | apply count_le_le_length | exact Hpos].
  - intros i Hi Hle. pose proof (count_lt_le_length lo xs) as Hl.
    assert (Hin : (i < List.length xs)%nat) by lia.
    pose proof (sorted_count_lt lo xs i Hs Hin) as H1.
    apply H1 in Hi. apply (Qlt_not_le _ _ Hi). exact Hle.
  - intros i. rewrite in_step_positions by exact Hpos. split.
    + intros [Hi Hj]. pose proof (count_le_le_length hi xs) as Hb.
      assert (Hin : (i < List.length xs)%nat) by lia. split; [exact Hin|]. split; [|exact Hj].
      apply (bbox_increasing xs lo hi i Hs Hin). lia.
    + intros [Hin [Hbox Hj]]. split; [|exact Hj]. apply (bbox_increasing xs lo hi i Hs Hin) in Hbox. lia.
Qed.

(* the same on a DECREASING axis: a[lo:hi:s] with lo >= hi = every s-th position of the box, from its first *)
Theorem bbox_slice_step_decreasing k xs lo hi s :
  (k = KI \/ k = KF) ->
  g_is_monotonic_equal (arrQ k xs) = Ok (PBool true) ->
  axis_increasing xs = false ->
  StronglySorted Qgt' xs ->
  (0 < s)%Z ->
  exists a ps,
    run_slice (arrQ k xs) (PNum lo) (PNum hi) (Some s) (List.length xs) = Ok ps /\
    (forall i, (i < a)%nat -> ~ (hi <= nth i xs 0 /\ nth i xs 0 <= lo)%Q) /\
    forall i, In i ps <->
              (i < List.length xs)%nat /\ (hi <= nth i xs 0 /\ nth i xs 0 <= lo)%Q /\
              exists j, i = (a + j * Z.to_nat s)%nat.
Proof.
  intros Hk Hm Hinc Hs Hpos. set (n := List.length xs).
  pose proof (count_le_le_length lo xs) as L1. pose proof (count_lt_le_length hi xs) as L2. fold n in L1, L2.
  exists (n - count_le lo xs)%nat, (map (fun j => (n - count_le lo xs) + j * Z.to_nat s)%nat
                             (seq 0 (step_count (n - count_le lo xs) (n - count_lt hi xs) s))).
  split; [|split].
  - unfold run_slice. change (PNum lo) with (optQ (Some lo)). change (PNum hi) with (optQ (Some hi)).
    rewrite (bridge_dec k xs (Some lo) (Some hi) (Some s) Hk Hm Hinc (or_intror (ex_intro _ s (conj eq_refl Hpos)))).
    cbn [bind option_map]. fold n.
    replace (Z.of_nat n - Z.of_nat (count_le lo xs))%Z with (Z.of_nat (n - count_le lo xs)) by lia.
    replace (Z.of_nat n - Z.of_nat (count_lt hi xs))%Z with (Z.of_nat (n - count_lt hi xs)) by lia.
    apply slice_positions_step; [lia | lia | exact Hpos].
  - intros i Hi Hbox. assert (Hin : (i < n)%nat) by lia.
    apply (bbox_decreasing xs lo hi i Hs Hin) in Hbox. fold n in Hbox. lia.
  - intros i. rewrite in_step_positions by exact Hpos. split.
    + intros [Hi Hj]. assert (Hin : (i < n)%nat) by lia. split; [exact Hin|]. split; [|exact Hj].
      apply (bbox_decreasing xs lo hi i Hs Hin). fold n. lia.
    + intros [Hin [Hbox Hj]]. split; [|exact Hj]. apply (bbox_decreasing xs lo hi i Hs Hin) in Hbox. fold n in Hbox. lia.
Qed.
