(* C18: interp_axis is per-fibre linear interpolation, exact at the nodes. *)
From Coq Require Import Qround Qabs Sorted.
From DA Require Import Prelude NDArray Array PyRT.
From DA.Model Require Import Value Reshape SliceSpec Indexing Align Transform.
From DA.Proofs Require Import ListLemmas C10_proofs C02_proofs C09_proofs.
Open Scope nat_scope.
Open Scope list_scope.

(* outside the label range: the left / right fill *)
Theorem interp1_left x0 xs ys l r x : (x < x0)%Q -> interp1 (x0 :: xs) ys l r x = l.
Proof.
  intros H. unfold interp1. replace (Qle_bool x0 x) with false; [reflexivity|].
  symmetry. apply not_true_is_false. intros E. apply Qle_bool_iff in E. apply (Qlt_not_le _ _ H). exact E.
Qed.
Theorem interp1_right x0 xs ys l r x :
  (x0 <= x)%Q -> (last (x0 :: xs) x0 < x)%Q -> interp1 (x0 :: xs) ys l r x = r.
Proof.
  intros H0 H. unfold interp1. replace (Qle_bool x0 x) with true by (symmetry; apply Qle_bool_iff; exact H0).
  cbn [negb]. replace (Qle_bool x (last (x0 :: xs) x0)) with false; [reflexivity|].
  symmetry. apply not_true_is_false. intros E. apply Qle_bool_iff in E. apply (Qlt_not_le _ _ H). exact E.
Qed.

(* exact at the nodes *)
Lemma sorted_head_le x0 xs i : StronglySorted Qlt (x0 :: xs) -> i < List.length (x0 :: xs) -> (x0 <= nth i (x0 :: xs) 0)%Q.
Proof.
  intros Hs Hi. destruct i as [|i]; [apply Qle_refl|]. simpl. inversion Hs as [|? ? _ Hall]; subst.
  rewrite Forall_forall in Hall. apply Qlt_le_weak. apply Hall. apply nth_In. simpl in Hi. lia.
Qed.

Lemma sorted_le_last x0 xs i :
  StronglySorted Qlt (x0 :: xs) -> i < List.length (x0 :: xs) -> (nth i (x0 :: xs) 0 <= last (x0 :: xs) x0)%Q.
Proof.
  revert x0 i; induction xs as [|x1 xt IH]; intros x0 i Hs Hi.
  - destruct i; [apply Qle_refl | simpl in Hi; lia].
  - inversion Hs as [|? ? Hs' Hall]; subst.
    assert (El : last (x0 :: x1 :: xt) x0 = last (x1 :: xt) x1) by (rewrite !last_cons; reflexivity).
    rewrite El. destruct i as [|i].
    + simpl nth. eapply Qle_trans; [|apply (IH x1 0 Hs'); simpl; lia]. simpl nth.
      apply Qlt_le_weak. rewrite Forall_forall in Hall. apply Hall. left. reflexivity.
    + change (nth (S i) (x0 :: x1 :: xt) 0%Q) with (nth i (x1 :: xt) 0%Q). apply (IH x1 i Hs'). simpl in *. lia.
Qed.

Lemma interp_seg_node xs ys i :
  StronglySorted Qlt xs -> List.length ys = List.length xs -> i < List.length xs ->
  interp_seg xs ys (nth i xs 0%Q) = Some (nth i ys CNaN).
Proof.
  revert ys i; induction xs as [|x0 xs IH]; intros ys i Hs Hl Hi; simpl in Hi; [lia|].
  destruct ys as [|y0 ys]; [discriminate|].
  destruct xs as [|x1 xt].
  - destruct ys; [|discriminate]. destruct i; [|simpl in Hi; lia]. simpl. rewrite Qeq_bool_refl. reflexivity.
  - destruct ys as [|y1 yt]; [discriminate|].
    inversion Hs as [|? ? Hs' Hall]; subst.
    assert (H01 : (x0 < x1)%Q) by (rewrite Forall_forall in Hall; apply Hall; left; reflexivity).
    destruct i as [|i].
    + simpl nth. cbn [interp_seg].
      replace (Qle_bool x0 x0) with true by (symmetry; apply Qle_bool_iff; apply Qle_refl).
      replace (Qle_bool x0 x1) with true by (symmetry; apply Qle_bool_iff; apply Qlt_le_weak; exact H01).
      cbn [andb]. rewrite Qeq_bool_refl. reflexivity.
    + change (nth (S i) (x0 :: x1 :: xt) 0%Q) with (nth i (x1 :: xt) 0%Q).
      change (nth (S i) (y0 :: y1 :: yt) CNaN) with (nth i (y1 :: yt) CNaN).
      set (x := nth i (x1 :: xt) 0%Q).
      assert (Hx1 : (x1 <= x)%Q) by (apply sorted_head_le; [exact Hs' | simpl in *; lia]).
      cbn [interp_seg].
      replace (Qle_bool x0 x) with true
        by (symmetry; apply Qle_bool_iff; apply Qlt_le_weak; eapply Qlt_le_trans; eassumption).
      destruct (Qle_bool x x1) eqn:Ex1; cbn [andb].
      * (* x = x1, i.e. i = 0 *)
        apply Qle_bool_iff in Ex1. assert (Heq : (x == x1)%Q) by (apply Qle_antisym; assumption).
        replace (Qeq_bool x x0) with false.
        -- replace (Qeq_bool x x1) with true by (symmetry; apply Qeq_bool_iff; exact Heq).
           destruct i as [|i]; [reflexivity|].
           (* a later node cannot equal x1 *)
           exfalso. unfold x in Heq. simpl in Heq. inversion Hs' as [|? ? _ Hall']; subst.
           rewrite Forall_forall in Hall'. assert (Hlt : (x1 < nth i xt 0)%Q) by (apply Hall'; apply nth_In; simpl in *; lia).
           rewrite Heq in Hlt. apply (Qlt_irrefl _ Hlt).
        -- symmetry. apply not_true_is_false. intros E. apply Qeq_bool_iff in E.
           rewrite E in Hx1. apply (Qlt_not_le _ _ H01). exact Hx1.
      * apply (IH (y1 :: yt) i Hs'); simpl in *; lia.
Qed.

Theorem interp1_node xs ys l r i :
  StronglySorted Qlt xs -> List.length ys = List.length xs -> i < List.length xs ->
  interp1 xs ys l r (nth i xs 0%Q) = nth i ys CNaN.
Proof.
  intros Hs Hl Hi. destruct xs as [|x0 xs]; [simpl in Hi; lia|]. unfold interp1.
  replace (Qle_bool x0 (nth i (x0 :: xs) 0%Q)) with true
    by (symmetry; apply Qle_bool_iff; apply sorted_head_le; assumption).
  cbn [negb].
  replace (Qle_bool (nth i (x0 :: xs) 0%Q) (last (x0 :: xs) x0)) with true.
  - cbn [negb]. rewrite interp_seg_node by assumption. reflexivity.
  - symmetry. apply Qle_bool_iff. apply sorted_le_last; assumption.
Qed.

(* between two nodes: the straight line through them *)
Theorem interp_seg_between x0 x1 xt (yt : list cell) a b x :
  (x0 < x)%Q -> (x < x1)%Q ->
  interp_seg (x0 :: x1 :: xt) (CNum a :: CNum b :: yt) x = Some (CNum (a + (x - x0) / (x1 - x0) * (b - a))).
Proof.
  intros H0 H1. cbn [interp_seg].
  replace (Qle_bool x0 x) with true by (symmetry; apply Qle_bool_iff; apply Qlt_le_weak; exact H0).
  replace (Qle_bool x x1) with true by (symmetry; apply Qle_bool_iff; apply Qlt_le_weak; exact H1).
  cbn [andb].
  replace (Qeq_bool x x0) with false by (symmetry; apply not_true_is_false; intros E; apply Qeq_bool_iff in E; rewrite E in H0; apply (Qlt_irrefl _ H0)).
  replace (Qeq_bool x x1) with false by (symmetry; apply not_true_is_false; intros E; apply Qeq_bool_iff in E; rewrite E in H1; apply (Qlt_irrefl _ H1)).
  reflexivity.
Qed.

(* the array level: the axis is exactly the new points, other axes and metadata unchanged, every
   fibre along the axis is interpolated independently after sorting the axis if needed *)
Theorem interp_axis_spec newk news r left right a res n0 n1 rest :
  sh (vals a) = n0 :: n1 :: rest ->
  interp_axis newk news r left right a = Ok res ->
  exists i nq a' xq,
    axis_info a r = Ok i /\ labels_q news = Ok nq /\
    a' = (if is_sorted_q (match labels_q (alab (nth i (axes a) dax0)) with Ok q => q | Err _ => [] end)
          then a else take_axis_pos (argsort (alab (nth i (axes a) dax0))) i a) /\
    labels_q (alab (nth i (axes a') dax0)) = Ok xq /\
    attrs res = attrs a' /\
    axes res = set_nth i (ax_new (aname (nth i (axes a') dax0)) (match newk with KI => KI | _ => KF end) news []) (axes a') /\
    forall c, inb (sh (vals res)) c = true ->
      get (vals res) c = nth (nth i c 0) (map (interp1 xq (fibre (vals a') i (remove_nth i c)) left right) nq) CNaN.
Proof.
  intros Hs. unfold interp_axis.
  destruct (axis_info a r) as [i|]; simpl; [|discriminate].
  destruct (labels_q news) as [nq|]; simpl; [|discriminate].
  destruct (labels_q (alab (nth i (axes a) dax0))) as [xq0|] eqn:Ex0; simpl; [|discriminate].
  set (a' := if is_sorted_q xq0 then a else take_axis_pos (argsort (alab (nth i (axes a) dax0))) i a).
  destruct (labels_q (alab (nth i (axes a') dax0))) as [xq|] eqn:Ex; simpl; [|discriminate].
  assert (Hsh : exists m0 m1 mr, sh (vals a') = m0 :: m1 :: mr).
  { unfold a'. destruct (is_sorted_q xq0); [eauto|]. simpl. rewrite Hs.
    destruct i as [|[|i]]; simpl; eauto. }
  destruct Hsh as [m0 [m1 [mr Hsh]]]. rewrite Hsh.
  intros [= <-]. exists i, nq, a', xq. split; [reflexivity|]. split; [reflexivity|]. split; [rewrite Ex0; reflexivity|].
  split; [exact Ex|]. simpl. split; [reflexivity|]. split; [reflexivity|].
  intros c Hc. apply get_along. exact Hc.
Qed.

(* ------------------------------------------------------------------ interp_like *)
(* the dimensions of self that the other object also has, with the other's labels, in self's order *)
Definition shared_axes (others : list (string * kind * list label)) (names : list string) : list (string * kind * list label) :=
  flat_map (fun nm => match find (fun p => String.eqb (fst (fst p)) nm) others with
                      | Some (_, k, news) => [(nm, k, news)] | None => [] end) names.
Definition interp_step (left right : cell) (acc : res darr) (p : string * kind * list label) : res darr :=
  let! o := acc in interp_axis (snd (fst p)) (snd p) (ByName (fst (fst p))) left right o.

Lemma fold_err {A} (f : res darr -> A -> res darr) (Hf : forall e x, f (Err e) x = Err e) l e : fold_left f l (Err e) = Err e.
Proof. induction l as [|x t IH]; simpl; [reflexivity|]. rewrite Hf. exact IH. Qed.

Theorem interp_like_successive others left right a :
  interp_like others left right a = fold_left (interp_step left right) (shared_axes others (map aname (axes a))) (Ok a).
Proof.
  unfold interp_like. generalize (Ok a) as acc. induction (map aname (axes a)) as [|nm t IH]; intros acc; [reflexivity|].
  cbn [fold_left shared_axes flat_map]. fold (shared_axes others t). rewrite fold_left_app. rewrite IH. f_equal.
  unfold like_step. destruct acc as [o|e]; cbn [bind].
  - destruct (find _ others) as [[[n k] news]|]; reflexivity.
  - destruct (find _ others) as [[[n k] news]|]; reflexivity.
Qed.

(* nothing shared: the array is returned as it is *)
Corollary interp_like_disjoint others left right a :
  shared_axes others (map aname (axes a)) = [] -> interp_like others left right a = Ok a.
Proof. intros H. rewrite interp_like_successive, H. reflexivity. Qed.
