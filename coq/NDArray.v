(* N-dimensional arrays as (shape, row-major data): coordinates, ravel, tabulate, get.
   This is the *specification* of what NumPy's memory layout means; every NumPy
   primitive used by dimarray is modelled on top of [tab]/[getl]. *)
From DA Require Import Prelude.

Fixpoint coords (sh : list nat) : list (list nat) :=
  match sh with
  | [] => [[]]
  | n :: sh' => flat_map (fun i => map (cons i) (coords sh')) (seq 0 n)
  end.

Fixpoint ravel (sh c : list nat) : nat :=
  match sh, c with
  | n :: sh', i :: c' => i * prod sh' + ravel sh' c'
  | _, _ => 0
  end.

Fixpoint inb (sh c : list nat) : bool :=
  match sh, c with
  | [], [] => true
  | n :: sh', i :: c' => (i <? n) && inb sh' c'
  | _, _ => false
  end.

Definition unravel (sh : list nat) (i : nat) : list nat := nth i (coords sh) [].

Section ND.
  Context {A : Type}.
  Variable d : A.
  Definition tab (sh : list nat) (f : list nat -> A) : list A := map f (coords sh).
  Definition getl (sh : list nat) (l : list A) (c : list nat) : A := nth (ravel sh c) l d.
End ND.

(* ------------------------------------------------------------------ lemmas *)

Lemma coords_length sh : List.length (coords sh) = prod sh.
Proof.
  induction sh as [|n sh IH]; simpl; [reflexivity|].
  generalize 0 as s. induction n as [|n IHn]; intros s; simpl; [reflexivity|].
  rewrite app_length, map_length, IH, IHn. reflexivity.
Qed.

Lemma nth_flat_map_block {X Y} (f : X -> list Y) (m : nat) (l : list X) (dx : X) (dy : Y) :
  (forall x, List.length (f x) = m) ->
  forall i j, i < List.length l -> j < m ->
  nth (i * m + j) (flat_map f l) dy = nth j (f (nth i l dx)) dy.
Proof.
  intros Hm. induction l as [|x l IH]; intros i j Hi Hj; simpl in *; [lia|].
  destruct i as [|i].
  - simpl. rewrite app_nth1; [reflexivity | rewrite Hm; exact Hj].
  - rewrite app_nth2; rewrite Hm; [|simpl; lia].
    replace (S i * m + j - m) with (i * m + j) by (simpl; lia).
    apply IH; lia.
Qed.

Lemma inb_length sh c : inb sh c = true -> List.length c = List.length sh.
Proof.
  revert c; induction sh as [|n sh IH]; intros [|i c]; simpl; try discriminate; auto.
  rewrite andb_true_iff. intros [_ H]. f_equal. apply IH. exact H.
Qed.

Lemma ravel_lt sh c : inb sh c = true -> ravel sh c < prod sh.
Proof.
  revert c; induction sh as [|n sh IH]; intros [|i c]; simpl; try discriminate; auto.
  rewrite andb_true_iff, Nat.ltb_lt. intros [Hi Hc]. specialize (IH _ Hc).
  nia.
Qed.

Lemma nth_coords sh c dc : inb sh c = true -> nth (ravel sh c) (coords sh) dc = c.
Proof.
  revert c dc; induction sh as [|n sh IH]; intros [|i c] dc; simpl; try discriminate; auto.
  rewrite andb_true_iff, Nat.ltb_lt. intros [Hi Hc].
  rewrite (nth_flat_map_block _ (prod sh) _ 0).
  - rewrite seq_nth by exact Hi. simpl.
    rewrite (nth_indep _ dc (i :: dc)).
    + rewrite map_nth. f_equal. apply IH. exact Hc.
    + rewrite map_length, coords_length. apply ravel_lt. exact Hc.
  - intros x. rewrite map_length. apply coords_length.
  - rewrite seq_length. exact Hi.
  - apply ravel_lt. exact Hc.
Qed.

Theorem get_tab {A} (d : A) sh f c : inb sh c = true -> getl d sh (tab sh f) c = f c.
Proof.
  intros H. unfold getl, tab.
  rewrite (nth_indep _ d (f [])).
  - rewrite map_nth. f_equal. apply nth_coords. exact H.
  - rewrite map_length, coords_length. apply ravel_lt. exact H.
Qed.

Lemma tab_length {A} sh (f : list nat -> A) : List.length (tab sh f) = prod sh.
Proof. unfold tab. rewrite map_length. apply coords_length. Qed.

Lemma in_coords_inb sh c : In c (coords sh) -> inb sh c = true.
Proof.
  revert c; induction sh as [|n sh IH]; intros c; simpl.
  - intros [<-|[]]. reflexivity.
  - rewrite in_flat_map. intros [i [Hi Hc]]. rewrite in_map_iff in Hc.
    destruct Hc as [c' [<- Hc']]. simpl. rewrite in_seq in Hi.
    rewrite andb_true_iff, Nat.ltb_lt. split; [lia | apply IH; exact Hc'].
Qed.

Lemma inb_in_coords sh c : inb sh c = true -> In c (coords sh).
Proof.
  intros H. rewrite <- (nth_coords sh c [] H). apply nth_In.
  rewrite coords_length. apply ravel_lt. exact H.
Qed.

Lemma unravel_inb sh i : i < prod sh -> inb sh (unravel sh i) = true.
Proof.
  intros H. apply in_coords_inb. apply nth_In. rewrite coords_length. exact H.
Qed.

Lemma unravel_cons n sh i :
  i < n * prod sh ->
  unravel (n :: sh) i = (i / prod sh) :: unravel sh (i mod prod sh).
Proof.
  intros Hi. unfold unravel. simpl.
  assert (Hp : prod sh <> 0) by (intros E; rewrite E in Hi; lia).
  pose proof (Nat.div_mod i (prod sh) Hp) as Hdm.
  pose proof (Nat.mod_upper_bound i (prod sh) Hp) as Hmod.
  assert (Hdiv : i / prod sh < n) by (apply Nat.div_lt_upper_bound; [exact Hp | lia]).
  replace i with (i / prod sh * prod sh + i mod prod sh) at 1 by lia.
  rewrite (nth_flat_map_block _ (prod sh) _ 0).
  - rewrite seq_nth by exact Hdiv. simpl.
    rewrite (nth_indep _ [] ((i / prod sh) :: [])).
    + rewrite map_nth. reflexivity.
    + rewrite map_length, coords_length. exact Hmod.
  - intros x. rewrite map_length. apply coords_length.
  - rewrite seq_length. exact Hdiv.
  - exact Hmod.
Qed.

Lemma ravel_unravel sh i : i < prod sh -> ravel sh (unravel sh i) = i.
Proof.
  revert i; induction sh as [|n sh IH]; intros i Hi.
  - simpl in *. unfold unravel. simpl. destruct i; [reflexivity | lia].
  - simpl in Hi. rewrite unravel_cons by exact Hi. simpl.
    assert (Hp : prod sh <> 0) by (intros E; rewrite E in Hi; lia).
    rewrite IH by (apply Nat.mod_upper_bound; exact Hp).
    pose proof (Nat.div_mod i (prod sh) Hp). lia.
Qed.

Lemma list_ext {A} (d : A) (l1 l2 : list A) :
  List.length l1 = List.length l2 ->
  (forall i, i < List.length l1 -> nth i l1 d = nth i l2 d) -> l1 = l2.
Proof.
  revert l2; induction l1 as [|x l1 IH]; intros [|y l2] Hl H; simpl in *; try discriminate; auto.
  f_equal.
  - apply (H 0). lia.
  - apply IH; [lia|]. intros i Hi. apply (H (S i)). lia.
Qed.

(* two arrays of the same shape with equal elements at every in-bounds coordinate are equal *)
Theorem getl_ext {A} (d : A) sh (l1 l2 : list A) :
  List.length l1 = prod sh -> List.length l2 = prod sh ->
  (forall c, inb sh c = true -> getl d sh l1 c = getl d sh l2 c) -> l1 = l2.
Proof.
  intros H1 H2 H. apply (list_ext d); [congruence|].
  intros i Hi. rewrite H1 in Hi.
  specialize (H (unravel sh i) (unravel_inb sh i Hi)).
  unfold getl in H. rewrite ravel_unravel in H by exact Hi. exact H.
Qed.

Theorem tab_getl {A} (d : A) sh (l : list A) :
  List.length l = prod sh -> tab sh (getl d sh l) = l.
Proof.
  intros H. apply (getl_ext d sh); [apply tab_length | exact H |].
  intros c Hc. apply get_tab. exact Hc.
Qed.

Lemma tab_ext {A} sh (f g : list nat -> A) :
  (forall c, inb sh c = true -> f c = g c) -> tab sh f = tab sh g.
Proof.
  intros H. unfold tab. apply map_ext_in. intros c Hc. apply H. apply in_coords_inb. exact Hc.
Qed.

(* row-major grouping: what values.reshape means when adjacent dimensions are merged *)
Lemma prod_app s1 s2 : prod (s1 ++ s2) = prod s1 * prod s2.
Proof. induction s1 as [|n s1 IH]; simpl; [lia|]. rewrite IH. lia. Qed.

Lemma ravel_app s1 s2 c1 c2 :
  List.length c1 = List.length s1 ->
  ravel (s1 ++ s2) (c1 ++ c2) = ravel s1 c1 * prod s2 + ravel s2 c2.
Proof.
  revert c1; induction s1 as [|n s1 IH]; intros [|i c1] H; simpl in *; try discriminate; auto.
  rewrite IH by lia. rewrite prod_app. lia.
Qed.

Lemma inb_app s1 s2 c1 c2 :
  List.length c1 = List.length s1 ->
  inb (s1 ++ s2) (c1 ++ c2) = inb s1 c1 && inb s2 c2.
Proof.
  revert c1; induction s1 as [|n s1 IH]; intros [|i c1] H; simpl in *; try discriminate; auto.
  rewrite IH by lia. rewrite andb_assoc. reflexivity.
Qed.
