(* Arrays with cells, axes, DimArray values; the NumPy primitives dimarray calls,
   each given by its documented meaning on (shape, row-major data). *)
From DA Require Import Prelude NDArray.
Open Scope string_scope.
Open Scope nat_scope.

Record nd := { sh : list nat; dat : list cell; kd : kind }.
Record maxis := { mname : string; mkind : kind; mlab : list label; mattrs : meta }.
(* [amem] is non-empty exactly for a grouped axis (MultiAxis); then [alab] are the
   tuple labels (row-major product of the member labels). *)
Record axis := { aname : string; akind : kind; alab : list label; aattrs : meta; amem : list maxis }.
Record darr := { axes : list axis; vals : nd; attrs : meta }.

Definition get (a : nd) (c : list nat) : cell := getl CNaN (sh a) (dat a) c.
Definition mk (s : list nat) (k : kind) (f : list nat -> cell) : nd :=
  {| sh := s; dat := tab s f; kd := k |}.
Definition ndim (a : nd) : nat := List.length (sh a).
Definition size (a : nd) : nat := prod (sh a).
Definition alen (ax : axis) : nat := List.length (alab ax).
Definition dims (a : darr) : list string := map aname (axes a).
Definition mkaxis (n : string) (k : kind) (l : list label) : axis :=
  {| aname := n; akind := k; alab := l; aattrs := []; amem := [] |}.
Definition with_labels (ax : axis) (k : kind) (l : list label) : axis :=
  {| aname := aname ax; akind := k; alab := l; aattrs := aattrs ax; amem := [] |}.
Definition with_name (ax : axis) (n : string) : axis :=
  {| aname := n; akind := akind ax; alab := alab ax; aattrs := aattrs ax; amem := amem ax |}.

(* well-formedness (C05): one axis per dimension, lengths match, data size matches,
   names distinct and non-empty *)
Definition wf_nd (a : nd) : bool := List.length (dat a) =? prod (sh a).
Definition wfb (a : darr) : bool :=
  list_eqb Nat.eqb (map alen (axes a)) (sh (vals a))
  && wf_nd (vals a)
  && nodupb String.eqb (dims a)
  && forallb (fun s => negb (String.eqb s "")) (dims a).

(* ------------------------------------------------------------------ axis references *)
Inductive axref := ByName (s : string) | ByPos (z : Z).

(* Python list indexing with a possibly negative int *)
Definition py_index (n : nat) (z : Z) : res nat :=
  if (0 <=? z)%Z then (if (z <? Z.of_nat n)%Z then Ok (Z.to_nat z) else Err IndexError)
  else (if (- Z.of_nat n <=? z)%Z then Ok (Z.to_nat (Z.of_nat n + z)) else Err IndexError).

Definition find_dim (ds : list string) (s : string) : option nat := index_of (String.eqb s) ds.

(* _get_axis_info: name -> dims.index(name) (ValueError), int -> self.axes[int] (IndexError) *)
Definition axis_info (a : darr) (r : axref) : res nat :=
  match r with
  | ByName s => match find_dim (dims a) s with Some i => Ok i | None => Err ValueError end
  | ByPos z => py_index (List.length (axes a)) z
  end.

(* ------------------------------------------------------------------ numpy primitives *)
(* position of j in the permutation p *)
Definition pos_in (p : list nat) (j : nat) : nat :=
  match index_of (Nat.eqb j) p with Some k => k | None => 0 end.

(* values.transpose(p): result dim k is source dim p[k] *)
Definition np_transpose (p : list nat) (a : nd) : nd :=
  mk (map (fun j => nth j (sh a) 0) p) (kd a)
     (fun c' => get a (map (fun j => nth (pos_in p j) c' 0) (seq 0 (List.length p)))).

(* numpy accepts p iff it is a permutation of 0..n-1 (the three tests are jointly redundant;
   they are spelled out so that each direction is available to proofs without pigeonhole) *)
Definition is_perm (p : list nat) : bool :=
  forallb (fun j => j <? List.length p) p
  && nodupb Nat.eqb p
  && forallb (fun j => existsb (Nat.eqb j) p) (seq 0 (List.length p)).

(* values.take(idxs, axis) (mode='raise', indices already validated) *)
Definition np_take (idxs : list nat) (ax : nat) (a : nd) : nd :=
  mk (set_nth ax (List.length idxs) (sh a)) (kd a)
     (fun c' => get a (set_nth ax (nth (nth ax c' 0) idxs 0) c')).

(* values.repeat(n, axis) on a singleton axis *)
Definition np_repeat1 (n : nat) (ax : nat) (a : nd) : nd :=
  mk (set_nth ax n (sh a)) (kd a) (fun c' => get a (set_nth ax 0 c')).

(* values[(slice(None),)*pos + (np.newaxis,)] *)
Definition np_expand (pos : nat) (a : nd) : nd :=
  mk (insert_nth pos 1 (sh a)) (kd a) (fun c' => get a (remove_nth pos c')).

(* values.squeeze(axis) *)
Definition np_squeeze1 (pos : nat) (a : nd) : nd :=
  mk (remove_nth pos (sh a)) (kd a) (fun c' => get a (insert_nth pos 0 c')).

(* values.reshape(newshape): same row-major data *)
Definition np_reshape (s : list nat) (a : nd) : nd := {| sh := s; dat := dat a; kd := kd a |}.

(* reduction of every 1-D fibre along [ax] *)
Definition fibre (a : nd) (ax : nat) (c' : list nat) : list cell :=
  map (fun i => get a (insert_nth ax i c')) (seq 0 (nth ax (sh a) 0)).
Definition np_reduce (k : kind) (f : list cell -> cell) (ax : nat) (a : nd) : nd :=
  mk (remove_nth ax (sh a)) k (fun c' => f (fibre a ax c')).

(* transformation of every fibre into a fibre of length m (cumsum, diff, interp ...) *)
Definition np_along (k : kind) (m : nat) (f : list cell -> list cell) (ax : nat) (a : nd) : nd :=
  mk (set_nth ax m (sh a)) k
     (fun c' => nth (nth ax c' 0) (f (fibre a ax (remove_nth ax c'))) CNaN).

(* elementwise *)
Definition np_map (k : kind) (f : cell -> cell) (a : nd) : nd :=
  {| sh := sh a; dat := map f (dat a); kd := k |}.
Definition np_map2 (k : kind) (f : cell -> cell -> cell) (a b : nd) : nd :=
  {| sh := sh a; dat := map (fun p => f (fst p) (snd p)) (combine (dat a) (dat b)); kd := k |}.

(* np.concatenate along [ax] *)
Fixpoint locate_block (lens : list nat) (i : nat) : nat * nat :=
  match lens with
  | [] => (0, i)
  | n :: t => if i <? n then (0, i) else let '(k, j) := locate_block t (i - n) in (S k, j)
  end.
Definition np_concat (k : kind) (ax : nat) (l : list nd) : nd :=
  let lens := map (fun a => nth ax (sh a) 0) l in
  let s0 := match l with a :: _ => sh a | [] => [] end in
  mk (set_nth ax (fold_right Nat.add 0 lens) s0) k
     (fun c' => let '(b, j) := locate_block lens (nth ax c' 0) in
                get (nth b l {| sh := []; dat := []; kd := k |}) (set_nth ax j c')).
(* np.array([a0, a1, ...]) : new leading dimension *)
Definition np_stack (k : kind) (s0 : list nat) (l : list nd) : nd :=
  mk (List.length l :: s0) k
     (fun c' => match c' with
                | b :: c => get (nth b l {| sh := []; dat := []; kd := k |}) c
                | [] => CNaN end).
