(* translation failed: cache changed under a condition the model does not see at line 182: If(test=Compare(left=Name(id='values', ctx=Load()), ops=[IsNot()], comparators=[Attribute(value=Name(id='self', ctx=Load()), attr='_values', ctx=Load())]), body=[Assign(targets=[Attribute(value=Name(i *)
Definition translation_failed := tt.
