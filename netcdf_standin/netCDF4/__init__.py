"""File-backed stand-in for the subset of the netCDF4-python API that dimarray.io.nc uses.

netCDF4 is not installed in the verification sandbox.  This module keeps the data model of a netCDF
file (ordered dimensions - fixed or unlimited -, variables over dimensions, attributes on the file and
on variables) in memory and pickles it to the file name on close()/sync().  It follows netCDF4-python
where dimarray depends on it:
  * orthogonal indexing on Variable.__getitem__/__setitem__ (every index applies to its own dimension,
    integers drop the dimension, boolean arrays select), growth of unlimited dimensions on assignment;
  * attribute typing: str stays str, bool raises TypeError, numbers become numpy scalars, sequences
    become 1-D numpy arrays (length-1 arrays come back as scalars);
  * NETCDF3 formats: no int64, no variable-length strings, one unlimited dimension;
  * mode 'r' needs an existing file, 'w' with clobber=False refuses an existing one, 'a' / 'r+' append.
It is part of the trusted base of C19/C20 (DESIGN.md): the checks show that dimarray.io.nc is right
against THIS behaviour.
"""
import os, pickle, collections
import numpy as np

__version__ = '0.0-standin'
default_fillvals = {'f8': 9.969209968386869e+36, 'f4': 9.969209968386869e+36, 'i8': -9223372036854775806, 'i4': -2147483647, 'i2': -32767, 'i1': -127, 'S1': '\x00'}

class _Attrs(object):
    def _a(self): return self.__dict__['_attrs']
    def ncattrs(self): return list(self._a().keys())
    def setncattr(self, name, value):
        if isinstance(value, (bool, np.bool_)):
            raise TypeError("illegal data type for attribute %r, must be one of dict_keys(['S1', 'i1', 'u1', 'i2', 'u2', 'i4', 'u4', 'i8', 'u8', 'f4', 'f8']), got b1" % name)
        if isinstance(value, (bytes, str)):
            v = value if isinstance(value, str) else value.decode()
        else:
            arr = np.asarray(value)
            if arr.dtype.kind == 'b': raise TypeError('illegal data type for attribute %r, got b1' % name)
            if arr.dtype.kind == 'O': raise TypeError('illegal data type for attribute %r, got object' % name)
            if arr.dtype.kind in 'US':
                if self._format().startswith('NETCDF3') and arr.ndim: raise TypeError('string arrays need NETCDF4')
                v = arr.astype(str) if arr.ndim else str(arr[()])
            else:
                if self._format().startswith('NETCDF3') and arr.dtype == np.int64: arr = arr.astype(np.int32)
                v = arr.reshape(-1).copy() if arr.ndim else arr[()]
        self._a()[name] = v
        self._touch()
    def setncatts(self, d):
        for k in d: self.setncattr(k, d[k])
    def getncattr(self, name):
        try: v = self._a()[name]
        except KeyError: raise AttributeError('NetCDF: Attribute not found: %s' % name)
        if isinstance(v, np.ndarray):
            return v[0] if v.size == 1 else v.copy()
        return v
    def delncattr(self, name):
        try: del self._a()[name]
        except KeyError: raise AttributeError('NetCDF: Attribute not found: %s' % name)
        self._touch()
    def __getattr__(self, name):
        if name.startswith('__') or name == '_attrs': raise AttributeError(name)
        a = self.__dict__.get('_attrs')
        if a is not None and name in a: return self.getncattr(name)
        raise AttributeError(name)

class Dimension(object):
    def __init__(self, ds, name, size):
        self._ds = ds; self.name = name; self._unlimited = size is None or size == 0; self._size = 0 if self._unlimited else int(size)
    def __len__(self): return self._size
    @property
    def size(self): return self._size
    def isunlimited(self): return self._unlimited
    def __repr__(self): return "<standin Dimension %r size=%d%s>" % (self.name, self._size, ' (unlimited)' if self._unlimited else '')

def _norm_dtype(datatype, fmt):
    if datatype is str or datatype == 'str' or (isinstance(datatype, type) and issubclass(datatype, str)):
        if fmt.startswith('NETCDF3') or fmt == 'NETCDF4_CLASSIC':
            raise ValueError("Variable length strings are only supported for the NETCDF4 format")
        return str
    dt = np.dtype(datatype)
    # netCDF4-python: a numpy string dtype of length > 1 and any numpy unicode dtype mean str (variable-length strings)
    if (dt.kind == 'S' and dt.itemsize > 1) or dt.kind == 'U':
        return _norm_dtype(str, fmt)
    if dt.kind in 'OUS' and dt != np.dtype('S1'):
        raise TypeError("illegal primitive data type, must be one of the numeric types or str, got %s" % dt)
    if dt.kind == 'b': raise TypeError("illegal primitive data type, got bool")
    if fmt.startswith('NETCDF3') and dt in (np.dtype('int64'), np.dtype('uint64')):
        raise ValueError("int64 not supported by the NETCDF3 formats")
    return dt

class Variable(_Attrs):
    def __init__(self, ds, name, datatype, dimensions, fill_value=None, **kw):
        d = self.__dict__
        d['_ds'] = ds; d['_name'] = name; d['_attrs'] = collections.OrderedDict()
        d['dimensions'] = tuple(dimensions)
        d['_dt'] = _norm_dtype(datatype, ds.file_format)
        shape = tuple(len(ds.dimensions[n]) for n in dimensions)
        if d['_dt'] is str:
            data = np.empty(shape, dtype=object); data[...] = ''
        elif d['_dt'].kind == 'f':
            data = np.full(shape, np.nan if fill_value is None else fill_value, dtype=d['_dt'])
        else:
            data = np.zeros(shape, dtype=d['_dt'])
            if fill_value is not None: data[...] = fill_value
        d['_data'] = data
        if fill_value is not None: d['_attrs']['_FillValue'] = np.asarray(fill_value)[()]
    def _format(self): return self._ds.file_format
    def _touch(self): self._ds._dirty = True
    @property
    def name(self): return self._name
    @property
    def dtype(self): return self._dt
    @property
    def datatype(self): return self._dt
    @property
    def ndim(self): return len(self.dimensions)
    @property
    def shape(self):
        self._resize()
        return tuple(self._data.shape)
    @property
    def size(self): return int(np.prod(self.shape))
    def __len__(self):
        if not self.dimensions: raise TypeError('len() of unsized object')
        return self.shape[0]
    def group(self): return self._ds
    def set_auto_mask(self, v): pass
    def set_auto_scale(self, v): pass
    def set_auto_maskandscale(self, v): pass
    def _fill(self):
        if self._dt is str: return ''
        if self._dt.kind == 'f': return np.nan
        return 0
    def _resize(self):
        """follow the current length of (unlimited) dimensions"""
        want = tuple(len(self._ds.dimensions[n]) for n in self.dimensions)
        cur = self._data.shape
        if want != cur:
            new = np.empty(want, dtype=self._data.dtype); new[...] = self._fill()
            sl = tuple(slice(0, min(a, b)) for a, b in zip(cur, want))
            new[sl] = self._data[sl]
            self.__dict__['_data'] = new
    def _expand_index(self, idx, for_write=False):
        if not isinstance(idx, tuple): idx = (idx,)
        idx = list(idx)
        if any(i is Ellipsis for i in idx):
            k = [j for j, i in enumerate(idx) if i is Ellipsis][0]
            idx = idx[:k] + [slice(None)] * (self.ndim - (len(idx) - 1)) + idx[k + 1:]
        if len(idx) > self.ndim: raise IndexError('too many indices for a variable of %d dimensions' % self.ndim)
        idx += [slice(None)] * (self.ndim - len(idx))
        out = []
        for ax, i in enumerate(idx):
            dim = self._ds.dimensions[self.dimensions[ax]]
            n = len(dim)
            if isinstance(i, list) and len(i) == 1 and isinstance(i[0], slice): i = i[0]     # dimarray passes [slice(None)] (np.ndim(slice) == 0)
            if isinstance(i, (bool, np.bool_)): raise IndexError('boolean scalar index')
            if isinstance(i, (int, np.integer)):
                i = int(i)
                if i < 0: i += n
                if i < 0 or (i >= n and not (for_write and dim.isunlimited())): raise IndexError('index exceeds dimension bounds')
                out.append(('int', i))
            elif isinstance(i, slice):
                if for_write and dim.isunlimited() and i.stop is not None and i.stop > n and (i.step is None or i.step > 0):
                    out.append(('list', list(range(*i.indices(i.stop)))))
                else:
                    out.append(('list', list(range(*i.indices(n)))))
            else:
                a = np.asarray(i)
                if a.ndim == 0: a = a.reshape(1)
                if a.ndim != 1: raise IndexError('only 1-d index arrays (orthogonal indexing)')
                if a.dtype.kind == 'b':
                    if a.size != n: raise IndexError('boolean index array has the wrong length')
                    out.append(('list', [int(j) for j in np.nonzero(a)[0]]))
                else:
                    if a.size and a.dtype.kind not in 'iu': raise IndexError('index must be integer')
                    l = [int(j) + (n if j < 0 else 0) for j in a.tolist()]
                    if any(j < 0 or (j >= n and not (for_write and dim.isunlimited())) for j in l): raise IndexError('index exceeds dimension bounds')
                    out.append(('list', l))
        return out
    def __getitem__(self, idx):
        self._resize()
        e = self._expand_index(idx)
        r = self._data
        for ax in range(self.ndim - 1, -1, -1):
            kind, v = e[ax]
            r = np.take(r, v, axis=ax) if kind == 'list' else np.take(r, v, axis=ax)
        r = np.array(r, copy=True)
        if self._dt is str and r.ndim == 0: return r[()]        # a single variable-length string comes back as a str
        return r
    def __setitem__(self, idx, values):
        if self._ds._mode == 'r': raise RuntimeError('NetCDF: Write to read only')
        e = self._expand_index(idx, for_write=True)
        # grow unlimited dimensions
        for ax, (kind, v) in enumerate(e):
            dim = self._ds.dimensions[self.dimensions[ax]]
            top = (v if kind == 'int' else (max(v) if v else -1)) + 1
            if top > len(dim):
                if not dim.isunlimited(): raise IndexError('index exceeds dimension bounds')
                dim._size = top
        self._resize()
        sel_shape = tuple(len(v) for kind, v in e if kind == 'list')
        vals = np.asarray(values, dtype=object if self._dt is str else None)
        if self._dt is not str:
            if vals.dtype.kind in 'OUS': raise ValueError('cannot write %s into a %s variable' % (vals.dtype, self._dt))
            vals = vals.astype(self._dt)
        # netCDF4 squeezes / broadcasts the data onto the selection
        if vals.shape != sel_shape:
            if vals.size == int(np.prod(sel_shape)) and vals.size > 0 and tuple(s for s in vals.shape if s != 1) == tuple(s for s in sel_shape if s != 1):
                vals = vals.reshape(sel_shape)
            else:
                vals = np.broadcast_to(vals, sel_shape)
        ix = np.ix_(*[v if kind == 'list' else [v] for kind, v in e]) if e else ()
        full_shape = tuple(len(v) if kind == 'list' else 1 for kind, v in e)
        self._data[ix] = vals.reshape(full_shape) if e else vals
        self._touch()
    def __array__(self, dtype=None, copy=None):
        return np.asarray(self[...], dtype=dtype)
    def __repr__(self): return '<standin Variable %r %s %r>' % (self._name, self._dt, self.dimensions)

class Dataset(_Attrs):
    def __init__(self, filename, mode='r', clobber=True, diskless=False, persist=False, format='NETCDF4', **kw):
        d = self.__dict__
        if mode in ('r+', 'a+'): mode = 'a'
        if mode in ('ws', 'as', 'rs'): mode = mode[0]
        if mode not in ('r', 'w', 'a'): raise ValueError("mode must be 'w', 'r', 'a' or 'r+', got %r" % mode)
        if format not in ('NETCDF4', 'NETCDF4_CLASSIC', 'NETCDF3_CLASSIC', 'NETCDF3_64BIT', 'NETCDF3_64BIT_OFFSET', 'NETCDF3_64BIT_DATA'):
            raise ValueError('unknown format %r' % format)
        d['_filename'] = filename; d['_mode'] = mode; d['_open'] = True; d['_dirty'] = False; d['_diskless'] = diskless and not persist
        d['_attrs'] = collections.OrderedDict(); d['dimensions'] = collections.OrderedDict(); d['variables'] = collections.OrderedDict()
        d['groups'] = collections.OrderedDict()
        if mode == 'w':
            if os.path.exists(filename) and not clobber:
                raise OSError("[Errno 17] File exists: %r" % filename)
            d['file_format'] = format
            d['_dirty'] = True
            if not d['_diskless']: self._save()
        else:
            if not os.path.exists(filename): raise FileNotFoundError("[Errno 2] No such file or directory: %r" % filename)
            with open(filename, 'rb') as f:
                try: st = pickle.load(f)
                except Exception: raise OSError('NetCDF: Unknown file format: %r' % filename)
            d['file_format'] = st['format']
            for name, size, unl in st['dims']:
                dim = Dimension(self, name, None if unl else size); dim._size = size; self.dimensions[name] = dim
            for name, dt, dims, data, attrs in st['vars']:
                v = Variable(self, name, str if dt == 'str' else dt, dims)
                v.__dict__['_data'] = data; v.__dict__['_attrs'] = collections.OrderedDict(attrs); self.variables[name] = v
            d['_attrs'] = collections.OrderedDict(st['attrs'])
            d['_dirty'] = False
    data_model = property(lambda self: self.file_format)
    disk_format = property(lambda self: self.file_format)
    def _format(self): return self.file_format
    def _touch(self): self.__dict__['_dirty'] = True
    def _check_write(self):
        if not self._open: raise RuntimeError('NetCDF: Not a valid ID')
        if self._mode == 'r': raise RuntimeError('NetCDF: Write to read only')
    def setncattr(self, name, value):
        self._check_write(); _Attrs.setncattr(self, name, value)
    def filepath(self): return self._filename
    def isopen(self): return self._open
    def createDimension(self, dimname, size=None):
        self._check_write()
        if dimname in self.dimensions: raise RuntimeError('NetCDF: String match to name in use')
        dim = Dimension(self, dimname, size)
        if dim.isunlimited() and self.file_format.startswith('NETCDF3') and any(x.isunlimited() for x in self.dimensions.values()):
            raise RuntimeError('NetCDF: NC_UNLIMITED size already in use')
        self.dimensions[dimname] = dim; self._touch()
        return dim
    def createVariable(self, varname, datatype, dimensions=(), zlib=False, complevel=4, shuffle=True, fletcher32=False, contiguous=False,
                       chunksizes=None, endian='native', least_significant_digit=None, fill_value=None, **kw):
        self._check_write()
        if varname in self.variables: raise RuntimeError('NetCDF: String match to name in use')
        if isinstance(dimensions, str): dimensions = (dimensions,)
        for n in dimensions:
            if n not in self.dimensions: raise ValueError('cannot find dimension %s in this group or parent groups' % n)
        v = Variable(self, varname, datatype, dimensions, fill_value=fill_value)
        self.variables[varname] = v; self._touch()
        return v
    def renameVariable(self, oldname, newname):
        self._check_write()
        if newname in self.variables: raise RuntimeError('NetCDF: String match to name in use')
        items = [(newname if k == oldname else k, v) for k, v in self.variables.items()]
        if oldname not in self.variables: raise KeyError(oldname)
        self.variables[oldname].__dict__['_name'] = newname
        self.variables.clear(); self.variables.update(items); self._touch()
    def renameDimension(self, oldname, newname):
        self._check_write()
        if newname in self.dimensions: raise RuntimeError('NetCDF: String match to name in use')
        if oldname not in self.dimensions: raise KeyError(oldname)
        self.dimensions[oldname].name = newname
        items = [(newname if k == oldname else k, v) for k, v in self.dimensions.items()]
        self.dimensions.clear(); self.dimensions.update(items)
        for v in self.variables.values():
            v.__dict__['dimensions'] = tuple(newname if n == oldname else n for n in v.dimensions)
        self._touch()
    def _save(self):
        if self._diskless: return
        for v in self.variables.values(): v._resize()
        st = {'format': self.file_format,
              'dims': [(n, len(dm), dm.isunlimited()) for n, dm in self.dimensions.items()],
              'vars': [(n, 'str' if v._dt is str else v._dt.str, v.dimensions, v._data, list(v._attrs.items())) for n, v in self.variables.items()],
              'attrs': list(self._attrs.items())}
        tmp = self._filename + '.tmp~'
        with open(tmp, 'wb') as f: pickle.dump(st, f, protocol=2)
        os.replace(tmp, self._filename)
    def sync(self):
        if self._open and self._mode != 'r' and self._dirty: self._save(); self.__dict__['_dirty'] = False
    def close(self):
        if not self._open: raise RuntimeError('NetCDF: Not a valid ID')
        self.sync(); self.__dict__['_open'] = False
    def __enter__(self): return self
    def __exit__(self, *a): self.close()
    def __repr__(self): return '<standin Dataset %r %s>' % (self._filename, self.file_format)
    def set_auto_mask(self, v): pass
    def set_auto_maskandscale(self, v): pass

class MFDataset(object):
    def __init__(self, *a, **k): raise NotImplementedError('MFDataset is not part of the stand-in')

def num2date(*a, **k): raise NotImplementedError('stand-in: no time conversion')
def date2num(*a, **k): raise NotImplementedError('stand-in: no time conversion')
def chartostring(a, **k): return np.array([''.join(x.astype(str)) for x in a.reshape(-1, a.shape[-1])]).reshape(a.shape[:-1])
def stringtochar(a, **k): return np.array([list(s) for s in a.reshape(-1)], dtype='S1').reshape(a.shape + (-1,))
