"""Shared machinery of the checks: JSON <-> dimarray <-> Coq terms, running the
implementation, running the Coq model on generated case files, evidence."""
import os, sys, json, math, subprocess, hashlib, time, random, shutil, re, fcntl
from fractions import Fraction

VERIF = os.path.dirname(os.path.dirname(os.path.abspath(__file__)))
REPO = os.environ.get('VERIF_REPO', '/repo')
COQ = os.path.join(VERIF, 'coq')
if REPO not in sys.path:
    sys.path.insert(0, REPO)
os.environ.setdefault('PYTHONHASHSEED', '0')

import warnings
warnings.filterwarnings('ignore')
import numpy as np

_da = None
def da():
    global _da
    if _da is None:
        sys.path.insert(0, os.path.join(VERIF, 'netcdf_standin'))
        import io, contextlib
        with contextlib.redirect_stdout(io.StringIO()):
            import dimarray
        _da = dimarray
    return _da

# --------------------------------------------------------------------------- JSON arrays
# JSON array: {"dims": [...], "labels": [[...]], "values": nested, "dtype": "f"|"i"|"b"|"O"|"U",
#              "attrs": {...}, "axattrs": [{...}], "axdtype": [..]}
# a label is a number, a string, None, or a list (tuple label)

def _lab_to_py(l):
    if isinstance(l, list):
        return tuple(_lab_to_py(x) for x in l)
    return l

_DT = {'f': float, 'i': np.int64, 'b': bool, 'O': object, 'U': object}

def _obj_array(lst):
    a = np.empty(len(lst), dtype=object)
    for i, x in enumerate(lst):
        a[i] = x
    return a

def mk_axis(name, labels, dtype, attrs=None):
    D = da()
    if dtype in ('O', 'U') or any(isinstance(l, (list, tuple)) or l is None for l in labels):
        vals = _obj_array([_lab_to_py(l) for l in labels])
    else:
        vals = np.array(labels, dtype=_DT[dtype])
    ax = D.Axis(vals, name)
    if attrs:
        ax.attrs.update(attrs)
    return ax

def mk_array(j):
    """JSON array -> DimArray"""
    D = da()
    shape = [len(l) for l in j['labels']]
    dt = j.get('dtype', 'f')
    flat = j['flat']
    if dt in ('O', 'U'):
        vals = _obj_array(flat).reshape(shape)
    else:
        vals = np.array(flat, dtype=_DT[dt]).reshape(shape)
    axd = j.get('axdtype') or [guess_kind(l) for l in j['labels']]
    axat = j.get('axattrs') or [{} for _ in shape]
    axes = [mk_axis(n, l, k, at) for n, l, k, at in zip(j['dims'], j['labels'], axd, axat)]
    a = D.DimArray(vals, axes=axes)
    for k, v in (j.get('attrs') or {}).items():
        a.attrs[k] = v
    return a

def guess_kind(labels):
    if all(isinstance(l, bool) for l in labels) and labels: return 'b'
    if all(isinstance(l, int) and not isinstance(l, bool) for l in labels): return 'i'
    if all(isinstance(l, (int, float)) and not isinstance(l, bool) for l in labels): return 'f'
    return 'O'

class Unsupported(Exception):
    """the observable value is outside what the model represents (never silently ignored)"""

def _py_scalar(x):
    """numpy scalar -> python scalar (exact)"""
    if isinstance(x, np.generic):
        return x.item()
    return x

def lab_json(x):
    x = _py_scalar(x)
    if isinstance(x, tuple):
        return [lab_json(y) for y in x]
    if isinstance(x, (list, np.ndarray)):
        return [lab_json(y) for y in x]
    if x is None or isinstance(x, (str, bool, int)):
        return x
    if isinstance(x, float):
        if math.isnan(x) or math.isinf(x):
            raise Unsupported('non-finite label')
        return x
    raise Unsupported('label type %r' % type(x))

def kind_of(arr):
    k = arr.dtype.kind
    if k == 'u': k = 'i'
    if k not in 'biOfUS':
        raise Unsupported('dtype kind ' + k)
    return k

def meta_json(d):
    out = {}
    for k, v in d.items():
        v = _py_scalar(v)
        if isinstance(v, np.ndarray): v = v.tolist()
        if isinstance(v, tuple): v = list(v)
        out[str(k)] = v
    return out

def axis_json(ax):
    D = da()
    j = {'name': ax.name, 'labels': [lab_json(v) for v in ax.values], 'kind': kind_of(ax.values),
         'attrs': meta_json(ax.attrs)}
    if isinstance(ax, D.core.axes.MultiAxis):
        j['members'] = [{'name': m.name, 'labels': [lab_json(v) for v in m.values],
                         'kind': kind_of(m.values), 'attrs': meta_json(m.attrs)} for m in ax.axes]
    return j

def cell_json(x):
    x = _py_scalar(x)
    if isinstance(x, float) and math.isnan(x):
        return {'nan': 1}
    if isinstance(x, float) and math.isinf(x):
        return {'inf': 1 if x > 0 else -1}
    if x is None or isinstance(x, (bool, int, float, str)):
        return x
    if isinstance(x, tuple):
        return {'tuple': [cell_json(y) for y in x]}
    raise Unsupported('cell type %r' % type(x))

def arr_json(a):
    """DimArray -> canonical observable JSON"""
    v = a.values
    return {'axes': [axis_json(ax) for ax in a.axes], 'shape': list(v.shape), 'kind': kind_of(v),
            'flat': [cell_json(x) for x in v.ravel().tolist()] if v.dtype.kind != 'O'
                    else [cell_json(x) for x in v.ravel()],
            'attrs': meta_json(a.attrs)}

def in_json(a):
    """DimArray -> input JSON (the form mk_array reads)"""
    v = a.values
    return {'dims': list(a.dims), 'labels': [[lab_json(x) for x in ax.values] for ax in a.axes],
            'axdtype': [kind_of(ax.values) for ax in a.axes],
            'dtype': kind_of(v), 'flat': [_py_scalar(x) for x in v.ravel().tolist()],
            'attrs': meta_json(a.attrs), 'axattrs': [meta_json(ax.attrs) for ax in a.axes]}

def value_json(r):
    """canonical observable form of any result of the implementation"""
    D = da()
    if isinstance(r, D.DimArray):
        return {'t': 'arr', 'v': arr_json(r)}
    if isinstance(r, (list, tuple)) and len(r) > 0 and all(isinstance(x, D.DimArray) for x in r):
        return {'t': 'arrs', 'v': [arr_json(x) for x in r]}
    if isinstance(r, np.ndarray):
        if r.ndim == 0:
            return {'t': 'cell', 'v': cell_json(r[()])}
        if r.ndim == 1:
            return {'t': 'labels', 'v': [lab_json(x) for x in r]}
        raise Unsupported('ndarray result of ndim %d' % r.ndim)
    if isinstance(r, tuple):
        return {'t': 'labels', 'v': [lab_json(x) for x in r]}
    if r is None:
        return {'t': 'unit'}
    return {'t': 'cell', 'v': cell_json(r)}

EXN = {'IndexError': 'IndexError', 'ValueError': 'ValueError', 'TypeError': 'TypeError',
       'KeyError': 'KeyError', 'AssertionError': 'AssertionError', 'AttributeError': 'AttributeError',
       'RecursionError': 'RecursionError'}

def run_impl(fn):
    """run fn() against the implementation; returns ('val', json) | ('err', class) """
    try:
        with warnings.catch_warnings():
            warnings.simplefilter('ignore')
            with np.errstate(all='ignore'):
                r = fn()
        return ('val', value_json(r))
    except Unsupported:
        raise
    except RecursionError:
        return ('err', 'RecursionError')
    except Exception as e:
        n = type(e).__name__
        if n == 'AxisError': n = 'ValueError'
        return ('err', EXN.get(n, 'OtherError'))

# --------------------------------------------------------------------------- Coq terms
def cq_str(s):
    return '"' + s.replace('"', '""') + '"'

def cq_q(x):
    if isinstance(x, bool): raise Unsupported('bool as number')
    if isinstance(x, int):
        fr = Fraction(x)
    elif isinstance(x, float):
        if math.isinf(x) or math.isnan(x): raise Unsupported('non-finite number (the model has exact rationals and NaN only)')
        fr = Fraction(*x.as_integer_ratio())
    elif isinstance(x, Fraction):
        fr = x
    else:
        raise Unsupported('number %r' % (x,))
    n, d = fr.numerator, fr.denominator
    ns = str(n) if n >= 0 else '(%d)' % n
    return '(qz %s %d)' % (ns, d)

def cq_atom(x):
    if x is None: return 'ANone'
    if isinstance(x, str): return '(AStr %s)' % cq_str(x)
    if isinstance(x, bool): return '(ANum %s)' % cq_q(int(x))
    return '(ANum %s)' % cq_q(x)

def cq_label(x):
    if isinstance(x, (list, tuple)):
        return '(LTup [%s])' % '; '.join(cq_atom(y) for y in x)
    return '(LAt %s)' % cq_atom(x)

def cq_list(xs):
    return '[' + '; '.join(xs) + ']'

def cq_kind(k):
    return {'b': 'KB', 'i': 'KI', 'f': 'KF', 'O': 'KO', 'U': 'KU', 'S': 'KS'}[k]

def cq_cell(x):
    if isinstance(x, dict):
        if 'nan' in x: return 'CNaN'
        raise Unsupported('cell %r' % x)
    if x is None: return 'CNone'
    if isinstance(x, bool): return '(CBool %s)' % ('true' if x else 'false')
    if isinstance(x, str): return '(CStr %s)' % cq_str(x)
    if isinstance(x, float) and math.isnan(x): return 'CNaN'
    return '(CNum %s)' % cq_q(x)

def cq_mval(v):
    if isinstance(v, bool): return '(MBool %s)' % ('true' if v else 'false')
    if isinstance(v, str): return '(MStr %s)' % cq_str(v)
    if isinstance(v, (int, float)): return '(MNum %s)' % cq_q(v)
    if isinstance(v, list): return '(MList %s)' % cq_list([cq_q(x) for x in v])
    raise Unsupported('metadata value %r' % (v,))

def cq_meta(d):
    return cq_list(['(%s, %s)' % (cq_str(k), cq_mval(v)) for k, v in d.items()])

def cq_axis_obs(j):
    mem = cq_list(['(Mx %s %s %s %s)' % (cq_str(m['name']), cq_kind(m['kind']),
                                         cq_list([cq_label(l) for l in m['labels']]), cq_meta(m['attrs']))
                   for m in j.get('members', [])])
    return '(Ax %s %s %s %s %s)' % (cq_str(j['name']), cq_kind(j['kind']),
                                    cq_list([cq_label(l) for l in j['labels']]), cq_meta(j['attrs']), mem)

def cq_arr_obs(j):
    """observable JSON (arr_json) -> Coq darr"""
    return '(Arr %s %s %s %s %s)' % (cq_list([cq_axis_obs(a) for a in j['axes']]),
                                     cq_list(['%d' % n for n in j['shape']]), cq_kind(j['kind']),
                                     cq_list([cq_cell(x) for x in j['flat']]), cq_meta(j['attrs']))

def cq_arr_in(j):
    """input JSON -> Coq darr (goes through the implementation so that the model sees exactly
    what the implementation holds)"""
    return cq_arr_obs(arr_json(mk_array(j)))

def cq_value(v):
    t = v['t']
    if t == 'arr': return '(VArr %s)' % cq_arr_obs(v['v'])
    if t == 'arrs': return '(VArrs %s)' % cq_list([cq_arr_obs(x) for x in v['v']])
    if t == 'cell': return '(VCell %s)' % cq_cell(v['v'])
    if t == 'labels': return '(VLabels %s)' % cq_list([cq_label(x) for x in v['v']])
    if t == 'bool': return '(VBool %s)' % ('true' if v['v'] else 'false')
    if t == 'unit': return 'VUnit'
    raise Unsupported('value ' + t)

def cq_expect(res, strict_err=True):
    if res[0] == 'val':
        return '(EVal %s)' % cq_value(res[1])
    if strict_err and res[1] != 'OtherError':
        return '(EErr %s)' % res[1]
    return 'EAnyErr'

def cq_opt(x, f):
    return 'None' if x is None else '(Some %s)' % f(x)

def cq_z(n):
    return '%d%%Z' % n if n >= 0 else '(%d)%%Z' % n

def cq_axref(r):
    if isinstance(r, str): return '(ByName %s)' % cq_str(r)
    return '(ByPos %s)' % cq_z(r)

# --------------------------------------------------------------------------- running Coq
def coqc(vfile, timeout=600):
    p = subprocess.run(['coqc', '-Q', COQ, 'DA', '-w', '-all', vfile], capture_output=True, text=True,
                       timeout=timeout, cwd=os.path.dirname(vfile))
    return p.returncode, p.stdout, p.stderr

def parse_natlist(out):
    """parse '= [1; 2] : list nat' (possibly wrapped)"""
    m = re.search(r'=\s*\[(.*?)\]\s*:\s*list nat', out, re.S)
    if not m:
        return None
    body = m.group(1).strip()
    if not body:
        return []
    return [int(x) for x in body.replace('\n', ' ').split(';')]

def run_model_cases(workdir, header, case_terms, runner, shard=300, jobs=16):
    """case_terms: list of Coq terms of the case type; runner: Coq function case -> bool (true = agrees).
    Returns (list of failing case indices, error text or None)."""
    os.makedirs(workdir, exist_ok=True)
    files = []
    for k in range(0, len(case_terms), shard):
        f = os.path.join(workdir, 'cases_%d.v' % (k // shard))
        with open(f, 'w') as fh:
            fh.write(header + '\n')
            fh.write('Definition cases := [\n' + ';\n'.join(case_terms[k:k + shard]) + '\n].\n')
            fh.write('Eval vm_compute in (failing %s cases).\n' % runner)
        files.append((k, f))
    procs = []
    failing, errors = [], []
    from concurrent.futures import ThreadPoolExecutor
    def one(kf):
        k, f = kf
        try:
            rc, out, err = coqc(f)
        except subprocess.TimeoutExpired:
            return k, None, 'timeout ' + f
        if rc != 0:
            return k, None, err[-2000:]
        lst = parse_natlist(out)
        if lst is None:
            return k, None, 'unparsable output: ' + out[-500:]
        return k, lst, None
    with ThreadPoolExecutor(max_workers=jobs) as ex:
        for k, lst, err in ex.map(one, files):
            if err: errors.append(err)
            else: failing.extend(k + i for i in lst)
    return sorted(failing), ('\n'.join(errors) if errors else None)

def eval_model(workdir, header, term):
    """evaluate one Coq term and return coqc's printed text"""
    os.makedirs(workdir, exist_ok=True)
    f = os.path.join(workdir, 'eval_%d.v' % (abs(hash(term)) % 10**9))
    with open(f, 'w') as fh:
        fh.write(header + '\nEval vm_compute in (%s).\n' % term)
    rc, out, err = coqc(f)
    return (out if rc == 0 else 'coqc error: ' + err[-1500:])
