#!/venv/bin/python
"""Regenerates MANIFEST.json from the table below (kept valid at all times)."""
import json, os
HERE = os.path.dirname(os.path.dirname(os.path.abspath(__file__)))
CLAIMED = {
 'C10': dict(text='Coq theorems (unbounded in dimensions, sizes, labels): coordinate-wise specification of transpose/swapaxes/rollaxis/newaxis/squeeze/repeat/broadcast over the tabulate/get array model, with laws (transpose inverse, swapaxes involution, squeeze-newaxis); hand-written model tied to the code by a differential correspondence check (Coq vm_compute vs implementation) and a label-coordinate oracle.',
             note='Model of reshape.py written by hand (Model/Reshape.v); NumPy transpose/repeat/squeeze/newaxis by specification; correspondence is sampled.', tech='Coq proof over tabulate/get array model + vm_compute correspondence', ref='3.10'),
}
CLAIMED['C02'] = dict(text='Coq theorems over the GENERATED locate_slice (re-translated from indexing.py on every run): unbounded bridge + bounding-box theorem for increasing axes and positive steps (bounds = searchsorted counts, which delimit exactly the labels in [lo,hi]); Python slice positions; plus kernel-checked finite sweeps (vm_compute, bounds stated in the theorem) of generated code = declarative specification over the quantifier\'s whole monotonic grid (both directions, lengths 0-5, steps None,1,2,3,-1,-2) and over all str / non-monotonic axes of length <= 4 (strict rule).',
             note='Negative steps, decreasing axes and the strict rule are proved on the finite grid only (stated in the theorems); np.searchsorted modelled by its contract on sorted input; locate_one hand-modelled.', tech='py2coq translation of locate_slice + Coq bridge/bounding-box proofs + vm_compute sweeps', ref='3.2')
CLAIMED['C01'] = dict(text='Coq theorems (unbounded): first-match/IndexError specification of scalar label lookup; soundness of the argsort+searchsorted+clip+guard list lookup (every returned position carries exactly the requested label, any failure is IndexError, so clip never silently returns a neighbour); masks; the main orthogonal-sampling theorem for every index form (element at result coordinate c = input element at the independently resolved per-dimension positions, scalar dims dropped, kept axes relabelled in requested order, metadata kept, result well-formed). Position mode and slices go through the same theorem (slices through the generated locate_slice of C02).',
             note='Completeness of the list lookup (all labels present implies success) and the tolerance search are validated by correspondence + oracle only, not proved; orthogonal_indexer/np.ix_ modelled by specification (np_outer).', tech='Coq proof over tabulate/get model + vm_compute correspondence', ref='3.1')
CLAIMED['C03'] = dict(text='Coq theorems (unbounded): frame+write theorem for assignment through any index form (labels/dims/metadata/shape untouched, unaddressed cells keep their value, addressed cells receive the broadcast right-hand side), addressed set = read set (box_coord sound and, for duplicate-free lists, complete: read-back returns what was written), N-d boolean masks; cast losslessness decided on the finite kind table of the GENERATED _maybe_cast_type (re-translated from indexing.py on every run).',
             note='numpy value conversion on assignment (cell_to_kind) and broadcasting of the right-hand side are modelled by specification; with repeated positions the last written value wins (stated); inplace=False checked by operand snapshots in the harness.', tech='Coq proof + generated cast table by vm_compute + vm_compute correspondence', ref='3.3')
CLAIMED['C07'] = dict(text='Coq theorems (unbounded): reindex_axis = axis resolution + (main pipeline | empty-axis construction); main theorem: the axis becomes exactly the new labels (pointwise numpy-equal, same order), every slice is the original slice at the found position when that position carries an equal label and the converted fill value otherwise, other axis records / name / metadata untouched; raise_error raises IndexError exactly when a label is missing; all-found (e.g. own labels) = pure positional take for any method; NaN fill promotes int to float (generated cast table).',
             note='method=left/right neighbour choice (np.searchsorted on the argsorted labels) and reindex_like are validated by correspondence only; that locate_many_raw finds every present label (completeness) is not proved, so the theorem is stated relative to the positions it returns.', tech='Coq proof + vm_compute correspondence', ref='3.7')
CLAIMED['C06'] = dict(text='Coq theorems (unbounded): Axis.union label set = set union with each label once for all five branches of the algorithm (incl. sorted merge via np.union1d model and concatenate+isin), sorted-merge branch strictly ascending, Axis.intersection = set intersection in the first axis order; one alignment step sets exactly the common labels on the named dimension and touches nothing else; by induction over the list of common axes every output carries the common labels on every shared dimension (identical axes), unaligned dimensions/metadata/well-formedness preserved; data clause is the C07 theorem for each step. _get_cast_kind is GENERATED.',
             note='That the n-ary fold _common_axis is the n-ary union, the direction clause for the concatenate branch, sort=True and Dataset inputs are validated by correspondence + oracle; inputs-unchanged is checked by operand snapshots (functional model).', tech='Coq proof + generated cast-kind table + vm_compute correspondence', ref='3.6')
CLAIMED['C04'] = dict(text='Coq theorems (unbounded): operation() = NumPy-broadcast elementwise op on the operands after label alignment (C06/C07 theorems) and by-name dimension alignment (reshape to the union of dims); result dims = first operand dims then the new ones; no metadata; exact rational arithmetic where both operands define a coordinate, NaN elsewhere for + - * / //; for ** the full statement is refuted on the faithful model (C04_pow_refuted, NumPy 1**nan = nan**0 = 1) and proved in its partial form; scalar operand in either order = op on values with axes unchanged.',
             note='Open known finding F6 (pow identity) is listed in KNOWN_FINDINGS.txt and reported as KNOWN-FINDING. Arithmetic is over exact rationals (generators produce dyadic data; power with integer exponents); ndarray right operand and reflected operators validated by correspondence.', tech='Coq proof (refinement to align + elementwise op) + vm_compute correspondence', ref='3.4')
CLAIMED['C12'] = dict(text='Coq theorems (unbounded): stack succeeds only when every input, after optional alignment and reordering BY NAME to the first input\'s dimension order, carries the first input\'s labels on every axis; the result\'s first axis is the new one labelled by keys and the slice at key b is exactly arrays[b]; without align differing secondary axes give ValueError; concatenate: labels along the axis concatenated in input order, other axes the first input\'s, the cell at position p comes from the input that owns p (locate_block proved correct), secondary-axis check is a precondition of success.',
             note='align=True variants rest on the C06 theorems for the align step (composition validated by correspondence); np.array([...]) / np.concatenate modelled by specification.', tech='Coq proof + vm_compute correspondence', ref='3.12')
CLAIMED['C08'] = dict(text='Coq theorems (unbounded): a.f(axis=d) drops exactly that axis, keeps the other axis records in order and the metadata, and each result cell is the function applied to the 1-D fibre through that cell in axis order; axis=None / 1-D gives the scalar over the row-major cells; a tuple of dimensions = reduction over the flattened group (C11); d by name or position resolves identically; skipna=False: any NaN in the slice gives NaN (median included); skipna=True: same function on the slice without its NaNs.',
             note='The numerical functions are exact rational models of NumPy (sum, prod, mean, var, std via variance, min, max, ptp, all, any, median); mean/var/std compared with relative 1e-9; _get_func selection table and percentile (np.percentile) are validated by the oracle against NumPy, not modelled; masked all/any with skipna excluded.', tech='Coq proof + vm_compute correspondence + NumPy oracle', ref='3.8')
CLAIMED['C09'] = dict(text='Coq theorems (unbounded): cumsum/cumprod keep all axes and equal the prefix sum/product on NaN-free fibres; diff one step = adjacent differences with the first/last label dropped, keepaxis pads NaN on the corresponding side, centered takes successive midpoints, order n = n successive steps; argmin/argmax position on a non-empty NaN-free fibre is in range, extremal and the first such (full induction with the order laws of Q), what is returned is the label at that position (along an axis and for the whole array in row-major order).',
             note='NaN behaviour of arg-extrema (first NaN wins) and nancum* are validated by correspondence only; default axis=-1 by correspondence.', tech='Coq proof + vm_compute correspondence + NumPy oracle', ref='3.9')
NOT_YET = {}
ALL = ['C%02d' % i for i in range(1, 21)]
def main():
    checks = []
    for pid in ALL:
        if pid not in CLAIMED: continue
        c = CLAIMED[pid]
        checks.append({
            'property_id': pid,
            'quick_cmd': './check %s --tier quick' % pid,
            'thorough_cmd': './check %s --tier thorough' % pid,
            'evidence_file': '/verif/evidence/%s.json' % pid,
            'replay_cmd_template': './check %s --replay {path}' % pid,
            'engine': 'coq-model',
            'level_claimed': {'category': 'proof', 'text': c['text'], 'design_ref': 'DESIGN.md section ' + c['ref']},
            'level_note': c['note'] + ' Trusted base: Coq 8.16.1 kernel + vm_compute; no axioms declared; translator harness/py2coq.py; NumPy model (coq/Array.v); harness generators/canonicaliser/oracles; floating-point rounding and dtype width not modelled.',
            'technique': c['tech'],
        })
    na = [{'property_id': p, 'reason': NOT_YET.get(p, 'not yet claimed: model and theorems for this property are still being built (see DESIGN.md section 9 build order); no check is registered until it is sound')}
          for p in ALL if p not in CLAIMED]
    m = {
        'version': 1,
        'setup_cmd': './setup.sh',
        'hooks': {'guard': 'DIMARRAY_VERIF', 'enable': 'no source hook is needed; all observation is done from the harness (DIMARRAY_VERIF is unused by the source)',
                  'baseline_off_cmd': 'cd /repo && /venv/bin/python -m pytest -ra -q -p no:cacheprovider --timeout=900 --continue-on-collection-errors',
                  'source_commits': [], 'add_only': True},
        'engines': [
            {'name': 'coq-model', 'path': 'coq/', 'serves_properties': sorted(CLAIMED), 'kind_free_text': 'Coq 8.16.1 development: NumPy model, dimarray model, one theorem file per property'},
            {'name': 'py2coq', 'path': 'harness/py2coq.py', 'serves_properties': [p for p in ('C02', 'C03', 'C06', 'C16') if p in CLAIMED], 'kind_free_text': 'fail-closed Python-ast to Gallina translator, run on every check'},
            {'name': 'correspondence', 'path': 'harness/', 'serves_properties': sorted(CLAIMED), 'kind_free_text': 'differential check: Coq model (vm_compute) vs implementation on generated cases; property oracles as failing-input search'},
        ],
        'checks': checks,
        'not_applicable': na,
        'notes': 'Fixes to /repo are unguarded fix: commits listed in KNOWN_FINDINGS.txt; no hooks in the source.',
    }
    json.dump(m, open(os.path.join(HERE, 'MANIFEST.json'), 'w'), indent=1)
if __name__ == '__main__':
    main()
