"""C06 - align() is a set union / intersection that neither invents nor loses data."""
import itertools
from common import *
from gen import *
from oracle_util import *
import ops
import numpy as np
import json

ID = 'C06'
STRICT_ERR = False
N_QUICK = 400
N_THOROUGH = 5000

def gen_family(rng, stats, nmax=4, allow_empty=True, dtype_choices=('f', 'f', 'i'), min_arrays=1, mix_kinds=True, same_ends=False):
    """a list of arrays over a common pool of dimensions with related label sets"""
    pool = rng.sample(DIMPOOL, rng.randint(1, 3))
    uni = {}
    for d in pool:
        k = rng.choice(['i', 'f', 'O'])
        if k == 'i':
            u = rng.sample(range(-3, 12), 6)
            if rng.random() < 0.15:          # integers that float32 cannot hold: a merge with a float axis must not round them
                u = [x + 16777217 for x in u]; stats['big_int_labels']['yes'] += 1
        elif k == 'f': u = [x / 2.0 for x in rng.sample(range(-6, 20), 6)]
        else: u = rng.sample(STRS, 6)
        uni[d] = (k, u)
    narr = rng.randint(min_arrays, nmax)
    arrays = []
    base = {}
    for _ in range(narr):
        ds = rng.sample(pool, rng.randint(1, len(pool)))
        labels, kinds = [], []
        for d in ds:
            k, u = uni[d]
            rel = rng.choice(['equal', 'overlap', 'nested', 'disjoint', 'empty'] if allow_empty else ['equal', 'overlap', 'nested', 'disjoint'])
            if d not in base:
                base[d] = rng.sample(u, rng.randint(1, 4)); rel = 'equal'
            b = base[d]
            if rel == 'equal': l = list(b)
            elif rel == 'overlap': l = rng.sample(b, max(1, len(b) - 1)) + rng.sample([x for x in u if x not in b], rng.randint(1, 2))
            elif rel == 'nested': l = rng.sample(b, rng.randint(1, len(b)))
            elif rel == 'disjoint': l = rng.sample([x for x in u if x not in b], rng.randint(1, 2))
            else: l = []
            stats['label_relation'][rel] += 1
            o = rng.choice(['inc', 'dec', 'shuf'])
            stats['axis_order'][o] += 1
            if o == 'inc': l.sort()
            elif o == 'dec': l.sort(reverse=True)
            else: rng.shuffle(l)
            kk = k
            if mix_kinds and k == 'i' and rng.random() < 0.25:
                l = [float(x) for x in l]; kk = 'f'
                if rng.random() < 0.5:
                    # float labels BETWEEN the integers: merged with an integer axis they must survive as they are (a float axis)
                    l = [x + 0.5 if rng.random() < 0.5 else x for x in l]; stats['fractional_labels_next_to_int_axis']['yes'] += 1
            labels.append(l); kinds.append(kk)
        a = rand_array(rng, dims=ds, lens=[len(l) for l in labels], dtype=rng.choice(dtype_choices), attrs=rng.random() < 0.3)
        a['labels'] = labels; a['axdtype'] = kinds
        arrays.append(a)
    if narr >= 3 and rng.random() < 0.25:
        # three or more inputs sorted the same way along one dimension, several of them with ONE label: the n-ary union is a
        # fold of pairwise unions, and two one-label axes met first have no direction of their own
        d = pool[0]; k, u = uni[d]
        if k != 'O' or True:
            chosen = rng.sample(u, min(len(u), narr + 1)); down = rng.random() < 0.5
            parts = [[chosen[0], chosen[1]]] + [[x] for x in chosen[2:narr + 1]]
            rng.shuffle(parts)
            arrays = []
            for l in parts[:narr]:
                l = sorted(l, reverse=down)
                a = rand_array(rng, dims=[d], lens=[len(l)], dtype='f')
                a['labels'] = [l]; a['axdtype'] = [k]
                arrays.append(a)
            stats['family']['same direction with one-label axes'] += 1
    if same_ends and narr >= 2 and rng.random() < 0.12:
        # the same labels in two different orders that share the FIRST and the LAST label (and the size): only the interior differs,
        # so any test on size / bounds / endpoints takes the two axes for equal
        d = pool[0]; k, u = uni[d]
        l1 = rng.sample(u, rng.randint(4, 5)); l2 = list(l1); l2[1], l2[2] = l2[2], l2[1]
        arrays = []
        for l in (l1, l2):
            ds = [d] if len(pool) == 1 or rng.random() < 0.5 else rng.sample([d, pool[1]], 2)
            a = rand_array(rng, dims=ds, lens=[len(l) if x == d else 2 for x in ds], dtype=rng.choice(dtype_choices))
            a['labels'][ds.index(d)] = list(l); a['axdtype'][ds.index(d)] = k
            if len(ds) == 2:
                e = ds[1 - ds.index(d)]; ke, ue = uni[e]
                a['labels'][ds.index(e)] = sorted(ue[:2]) if ke != 'O' else ue[:2]; a['axdtype'][ds.index(e)] = ke
            arrays.append(a)
        narr = 2
        stats['family']['same labels, same ends, interior permuted'] += 1
    stats['n_arrays'][narr] += 1
    return arrays, pool

def generate(rng, n, tier, stats):
    cases = []
    while len(cases) < n:
        arrays, pool = gen_family(rng, stats)
        join = rng.choice(['outer', 'outer', 'inner']); sort = rng.random() < 0.4
        axis = rng.choice(pool) if rng.random() < 0.25 else None
        stats['join'][join] += 1; stats['sort'][str(sort)] += 1; stats['axis'][str(axis is not None)] += 1
        cases.append({'ins': arrays, 'ops': [['align', join, axis, sort]]})
    return cases

def execute(c):
    ins = [mk_array(j) for j in c['ins']]
    before = [ops.snapshot(x) for x in ins]
    r = run_impl(lambda: ops.run_ops(ins, c['ops']))
    c['_operand_changed'] = [i for i, (b, x) in enumerate(zip(before, ins)) if b != ops.snapshot(x)]
    return r

def num(l): return not isinstance(l, str)

def oracle(case, res):
    ins = case['ins']; _, join, axis, sort = case['ops'][0]
    if case.get('_operand_changed'):
        return 'input array(s) %r were modified by align' % case['_operand_changed']
    # empty label sets on a shared dimension: see KNOWN_FINDINGS (align with an empty axis)
    dims_all = []
    for a in ins:
        for d in a['dims']:
            if d not in dims_all: dims_all.append(d)
    targets = [axis] if axis else dims_all
    if axis and axis not in dims_all: return None
    if res[0] == 'err':
        return 'align raised %s' % res[1]
    outs = res[1]['v']
    if len(outs) != len(ins): return 'number of arrays changed'
    for d in targets:
        have = [(i, a) for i, a in enumerate(ins) if d in a['dims']]
        sets = [[hl(l) for l in a['labels'][a['dims'].index(d)]] for _, a in have]
        if join == 'outer':
            want = []
            for s in sets:
                for l in s:
                    if l not in want: want.append(l)
        else:
            want = [l for l in sets[0] if all(l in s for s in sets[1:])]
        axes_out = []
        for i, a in have:
            o = outs[i]
            if obs_dims(o) != a['dims']: return 'dims of array %d changed' % i
            axes_out.append([hl(l) for l in o['axes'][a['dims'].index(d)]['labels']])
        for ao in axes_out:
            if ao != axes_out[0]: return 'arrays do not share identical axes on %s: %r vs %r' % (d, ao, axes_out[0])
        got = axes_out[0]
        if len(set(got)) != len(got): return 'label repeated on %s: %r' % (d, got)
        if set(got) != set(want): return 'axis %s is %r, expected the %s %r' % (d, got, 'union' if join == 'outer' else 'intersection', want)
        if sort and got != sorted(got): return 'sort=True but axis %s is %r' % (d, got)
        # (an axis of one label is sorted in both directions; an empty one gives way)
        if not sort and join == 'outer' and len(have) > 1 and all(len(s) >= 1 for s in sets):
            inc = all(s == sorted(s) for s in sets); dec = all(s == sorted(s, reverse=True) for s in sets)
            if inc and dec:       # one label each: no direction, any sorted order will do
                if got != sorted(got) and got != sorted(got, reverse=True): return 'single-label inputs on %s but result %r is not sorted' % (d, got)
            elif inc and got != sorted(got): return 'all inputs increasing on %s but result %r' % (d, got)
            elif dec and got != sorted(got, reverse=True): return 'all inputs decreasing on %s but result %r' % (d, got)
    # data: each array keeps its values at its labels, NaN elsewhere; untouched dims keep their axes
    for i, a in enumerate(ins):
        o = outs[i]; obs = arr_json(mk_array(a))
        if o['attrs'] != obs['attrs']: return 'metadata of array %d lost' % i
        ac = cells(obs)
        for j, d in enumerate(a['dims']):
            if d not in targets and not labs_eq(o['axes'][j]['labels'], a['labels'][j]): return 'axis %s of array %d changed although not aligned' % (d, i)
        for c, v in cells(o).items():
            if c in ac:
                w = ac[c]
                ok = (v == w) or (not isinstance(v, (dict, str, bool)) and not isinstance(w, (dict, str, bool)) and float(v) == float(w))
                if not ok: return 'array %d: value at %r is %r, was %r' % (i, c, v, w)
            else:
                if v != {'nan': 1}: return 'array %d: value %r invented at labels %r it did not have' % (i, v, c)
        if join == 'outer':
            oc = cells(o)
            for c in ac:
                if c not in oc: return 'array %d lost its value at %r' % (i, c)
    # Datasets among the inputs: the first array inside a Dataset, after a variable that lacks every aligned dimension,
    # must come out of align() exactly like the array itself
    D = da()
    try:
        arrs = [mk_array(j) for j in ins]
        with warnings.catch_warnings():
            warnings.simplefilter('ignore')
            with np.errstate(all='ignore'):
                ds = D.Dataset(); ds['t0'] = D.DimArray([1.0, 2.0], axes=[[7, 8]], dims=['only_here']); ds['v'] = arrs[0]; ds['v2'] = arrs[0] * 2
                rr = D.align([ds] + arrs[1:], join=join, axis=axis, sort=sort)
                got = arr_json(rr[0]['v']); got2 = arr_json(rr[0]['v2']); t0 = arr_json(rr[0]['t0'])
    except Exception as e:
        return 'align() with the first array inside a Dataset raised %s' % type(e).__name__
    want0 = outs[0]
    def same(x, y): return json.dumps([x['axes'], x['flat'], x['shape']], sort_keys=True, default=str) == json.dumps([y['axes'], y['flat'], y['shape']], sort_keys=True, default=str)
    if not same(got, want0): return 'inside a Dataset the first input aligns to %s, alone to %s' % (json.dumps(got, default=str)[:200], json.dumps(want0, default=str)[:200])
    if got2['axes'] != want0['axes']: return 'a second variable of the Dataset does not receive the common axes'
    for x, y in zip(got2['flat'], want0['flat']):
        if isinstance(x, dict) != isinstance(y, dict) or (not isinstance(x, dict) and not isinstance(y, (str, bool)) and float(x) != 2 * float(y)):
            return 'a later variable of the Dataset is not filled like the first: %r vs 2 * %r' % (x, y)
    if t0['flat'] != [1.0, 2.0]: return 'a variable lacking the aligned dimensions was changed'
    return None

def nontrivial(case, res):
    return res[0] == 'val' and len(case['ins']) > 1 and any(len(o['flat']) > 1 for o in res[1]['v'])
