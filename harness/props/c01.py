"""C01 - label indexing returns exactly the data stored at those labels."""
import itertools
from common import *
from gen import *
from oracle_util import *
import ops
import numpy as np

ID = 'C01'
STRICT_ERR = True
N_QUICK = 600
N_THOROUGH = 8000

def rand_index(rng, labs, kind, mode, stats, allow_slice=True):
    """one per-dimension index in the given mode"""
    n = len(labs)
    ch = rng.choice(['scalar', 'list', 'list', 'mask', 'full', 'absent', 'slice', 'empty', 'repeat'])
    stats['index_kind'][mode + ':' + ch] += 1
    if mode == 'position':
        if ch in ('scalar', 'absent'):
            if n == 0 or ch == 'absent': return {'ps': rng.choice([n, n + 2, -n - 1])}
            return {'ps': rng.randrange(-n, n)}
        if ch in ('list', 'repeat', 'empty'):
            if ch == 'empty' or n == 0: return {'pl': []}
            k = rng.randint(1, 3)
            return {'pl': [rng.randrange(-n, n) for _ in range(k)]}
        if ch == 'mask': return {'m': [rng.random() < 0.5 for _ in range(n)]}
        if ch == 'slice':
            f = lambda: rng.choice([None, 0, 1, 2, -1, n])
            return {'psl': [f(), f(), rng.choice([None, 1, 2, -1])]}
        return 'full'
    absent = {'i': 77, 'f': 0.125, 'O': 'zz'}[kind]
    if kind in 'if' and n and rng.random() < 0.6:
        # an absent value close to / of another numeric type than the labels (e.g. 2001.5 on an int axis)
        absent = rng.choice(labs) + rng.choice([0.5, -0.5, 0.25])
        if absent in labs: absent = 0.125
    if ch == 'scalar':
        return {'s': rng.choice(labs)} if n else {'s': absent}
    if ch == 'absent':
        if rng.random() < 0.25:
            # an absent label of ANOTHER TYPE than the axis' labels (a number on a str axis, a str on a numeric axis)
            absent = rng.choice([1, 2.5]) if kind == 'O' else 'zz'
            stats['absent_label_type']['other type'] += 1
            if rng.random() < 0.6: return {'l': [absent] * rng.randint(1, 2), 'as': rng.choice(['list', 'array'])}   # a list of that type only
        if kind in ('i', 'f') and 0 not in labs and '0' not in [str(x) for x in labs] and rng.random() < 0.35:
            # the absent label is ZERO (a falsy value must not read as "nothing is missing")
            absent = 0 if kind == 'i' else 0.0; stats['absent_label_type']['zero'] += 1
            if n and rng.random() < 0.8: return {'l': rng.choice([[absent], [rng.choice(labs), absent], [absent, rng.choice(labs)]]), 'as': rng.choice(['list', 'array'])}
        if rng.random() < 0.5 or n == 0: return {'s': absent}
        return {'l': [rng.choice(labs), absent] if rng.random() < 0.5 else [absent, rng.choice(labs)]}
    if ch == 'list':
        k = rng.randint(1, min(3, n)) if n else 0
        return {'l': rng.sample(labs, k), 'as': rng.choice(['list', 'array'])}
    if ch == 'repeat':
        if n == 0: return {'l': []}
        x = rng.choice(labs); return {'l': [x, rng.choice(labs), x], 'as': rng.choice(['list', 'array'])}
    if ch == 'empty': return {'l': []}
    if ch == 'mask': return {'m': [rng.random() < 0.5 for _ in range(n)]}
    if ch == 'slice' and allow_slice and n > 0:
        lo, hi = rng.choice([None] + labs), rng.choice([None] + labs)
        return {'sl': [lo, hi, rng.choice([None, 1, 2, -1])]}
    return 'full'

def mixed_valid_indices(rng, a, mode, stats):
    """for an array of 3+ dimensions: per-dimension indices, all valid, mixing at least one scalar, one full slice and one
    list / array / mask in a random arrangement (where numpy's own indexing would move or merge the indexed dimensions)"""
    nd = len(a['dims'])
    roles = ['scalar', 'full', 'adv'] + [rng.choice(['scalar', 'full', 'adv', 'adv']) for _ in range(nd - 3)]
    rng.shuffle(roles)
    if rng.random() < 0.5:
        # the arrangement where numpy moves the indexed dimension to the front: a scalar and ONE list separated by full slices
        roles = ['scalar'] + ['full'] * (nd - 2) + ['adv']
        if rng.random() < 0.5: roles.reverse()
    out = {}
    for i, role in enumerate(roles):
        labs = a['labels'][i]; m = len(labs)
        if role == 'full' or m == 0: continue
        if mode == 'position':
            if role == 'scalar': out[i] = {'ps': rng.randrange(-m, m)}
            elif rng.random() < 0.3: out[i] = {'m': [rng.random() < 0.6 for _ in range(m)]}
            else: out[i] = {'pl': [rng.randrange(-m, m) for _ in range(rng.randint(1, 3))]}
        else:
            if role == 'scalar': out[i] = {'s': rng.choice(labs)}
            elif rng.random() < 0.3: out[i] = {'m': [rng.random() < 0.6 for _ in range(m)]}
            else: out[i] = {'l': [rng.choice(labs) for _ in range(rng.randint(1, 3))], 'as': rng.choice(['list', 'array'])}
    stats['index_kind'][mode + ':mixed scalar/full/list on 3+ dims'] += 1
    return out

def generate(rng, n, tier, stats):
    cases = []
    while len(cases) < n:
        a = rand_array(rng, stats=stats, attrs=rng.random() < 0.3, maxlen=4 if tier == 'quick' else 5)
        nd = len(a['dims'])
        if nd >= 2 and a['flat'] and rng.random() < 0.05:
            # a boolean mask of the full shape: the selected cells in row-major order, each labelled by the tuple of its own labels
            stats['spelling']['n-d mask'] += 1
            cases.append({'ins': [a], 'ops': [['get_ndmask', [rng.random() < 0.5 for _ in a['flat']], rng.choice(['getitem_np', 'getitem_da', 'take', 'compress'])]]})
            continue
        by = 'label' if rng.random() < 0.8 else 'position'
        spelling = rng.choice(['getitem', 'getitem', 'take', 'take', 'loc', 'sel', 'ix', 'iloc', 'isel', 'take_pos', 'take_lab', 'nloc', 'tol', 'tol', 'tol'])
        if by == 'position' and rng.random() < 0.5:
            # under indexing.by = position the accessors keep their meaning (.loc / .sel by label, .iloc / .isel by position) and .ix toggles
            spelling = rng.choice(['ix', 'ix', 'ix', 'sel', 'loc', 'take_lab', 'iloc', 'isel'])
        tol = None
        if spelling == 'tol':
            spelling = 'take'; tol = rng.choice([0.25, 0.5, 1.0, 'inf'])
        mode = ops.effective_mode(spelling, by)
        stats['spelling'][spelling] += 1; stats['by'][by] += 1; stats['mode'][mode] += 1
        k = rng.randint(0, nd)
        which = sorted(rng.sample(range(nd), k))
        def mk_idx(i):
            labs, kind = a['labels'][i], a['axdtype'][i]
            if (tol is not None or spelling == 'nloc') and mode == 'label':
                # tolerance: numeric targets near / far from labels (scalars and lists)
                if kind == 'O' or not labs: return rand_index(rng, labs, kind, mode, stats, allow_slice=False)
                # on either side of a label, inside and outside the tolerance; also beyond both ends of the axis
                t = rng.choice(labs + [min(labs), max(labs)]) + rng.choice([0, 0.25, -0.25, 0.75, -0.75, 1.5, -1.5, 3.5, -3.5])
                stats['tol_target_side']['above nearest' if min(abs(t - l) for l in labs) and t > min(labs, key=lambda l: abs(t - l)) else 'below or on'] += 1
                stats['index_kind']['label:tol'] += 1
                return {'s': t} if rng.random() < 0.6 else {'l': [t, rng.choice(labs)]}
            return rand_index(rng, labs, kind, mode, stats)
        formk = rng.choice(['tuple', 'dict', 'axis'])
        if spelling in ('sel', 'isel'): formk = 'dictname'
        if formk == 'axis' and spelling in ('getitem', 'loc', 'ix', 'iloc', 'nloc'): formk = 'tuple'
        if formk == 'tuple':
            m = (which[-1] + 1) if which else 0
            form = {'tuple': [mk_idx(i) if i in which else 'full' for i in range(m)]}
        elif formk in ('dict', 'dictname'):
            form = {'dict': [[a['dims'][i] if (formk == 'dictname' or rng.random() < 0.6) else i, mk_idx(i)] for i in which]}
        else:
            if nd == 0: continue
            i = rng.randrange(nd)
            r = a['dims'][i] if rng.random() < 0.6 else i
            if r == 0: r = a['dims'][0]      # axis=0 means "no axis given"
            form = {'axis': [r, mk_idx(i)]}
        if nd >= 3 and tol is None and spelling != 'nloc' and rng.random() < 0.35:
            mv = mixed_valid_indices(rng, a, mode, stats)
            if formk == 'tuple' or formk == 'axis': form = {'tuple': [mv.get(j, 'full') for j in range(nd)]}; formk = 'tuple'
            else: form = {'dict': [[a['dims'][j], mv[j]] for j in sorted(mv)]}
        num_dims = [i for i in range(nd) if a['axdtype'][i] in 'if' and a['labels'][i]]
        if mode == 'label' and tol is None and spelling != 'nloc' and num_dims and rng.random() < 0.12:
            # focused family: ONE dimension indexed with a list / array holding a label and a value that is NOT a label but becomes
            # one when cast to the axis' dtype or rounded (2001.5 on an int axis, 2000.9999 ...); every other index is valid
            i = rng.choice(num_dims); labs = a['labels'][i]; x = rng.choice(labs)
            near = x + rng.choice([0.5, -0.5, 0.25, 0.75, -0.25, 1e-9])
            if near in labs: near = x + 0.375
            lst = [rng.choice(labs), near] if rng.random() < 0.5 else [near] + rng.sample(labs, min(len(labs), rng.randint(0, 2)))
            mine = {'l': lst, 'as': rng.choice(['list', 'array'])}
            other = lambda j: 'full' if (rng.random() < 0.6 or not a['labels'][j]) else {'s': rng.choice(a['labels'][j])}
            if formk == 'tuple': form = {'tuple': [mine if j == i else other(j) for j in range(nd)]}
            elif formk in ('dict', 'dictname'): form = {'dict': [[a['dims'][i], mine]]}
            else: form = {'axis': [a['dims'][i], mine]}
            stats['index_kind']['label:near-absent list'] += 1
        stats['form'][formk] += 1
        keepdims = spelling.startswith('take') and rng.random() < 0.15
        # sometimes the axes have answered is_monotonic() before the lookup (any arithmetic / alignment does that): the cached answer
        # ("monotonic, either way") is no licence for a binary search
        warm = [['query', 'monotonic']] if rng.random() < 0.3 else []
        cases.append({'ins': [a], 'ops': warm + [['get', spelling, form, tol, keepdims, by]]})
    return cases

# ---------------------------------------------------------------- oracle
def expected(a, op):
    """(dims, per-dim label lists, cells as nested positions) or 'IndexError' or None (property silent)"""
    _, spelling, form, tol, keepdims, by = op
    mode = ops.effective_mode(spelling, by)
    if spelling == 'nloc': tol = 'inf'
    nd = len(a['dims'])
    per = ['full'] * nd
    if 'tuple' in form:
        if len(form['tuple']) > nd: return None
        for i, ix in enumerate(form['tuple']): per[i] = ix
    elif 'dict' in form:
        for r, ix in form['dict']:
            if isinstance(r, str):
                if r not in a['dims']: return None
                per[a['dims'].index(r)] = ix
            else:
                if not -nd <= r < nd: return None
                per[r] = ix
    else:
        r, ix = form['axis']
        if isinstance(r, str):
            if r not in a['dims']: return None
            per[a['dims'].index(r)] = ix
        else:
            if not -nd <= r < nd: return None
            per[r] = ix
    pos = []
    for i, ix in enumerate(per):
        labs = a['labels'][i]; n = len(labs); kind = a['axdtype'][i]
        if ix == 'full': pos.append(list(range(n))); continue
        if 'm' in ix:
            if len(ix['m']) != n: return None
            pos.append([j for j, b in enumerate(ix['m']) if b]); continue
        if mode == 'position':
            try:
                r = np.arange(n)[py_pos(ix)]
            except IndexError:
                return 'IndexError'
            pos.append(int(r) if np.ndim(r) == 0 else [int(x) for x in r]); continue
        if 'sl' in ix:
            return None   # slices are C02's; here only consistency through the model
        def find(v):
            t = tol if kind in 'if' else None
            if t is None:
                for j, l in enumerate(labs):
                    if type(l) is not str and type(v) is not str and l == v: return j
                    if type(l) is str and type(v) is str and l == v: return j
                return 'IndexError'
            if isinstance(v, str): return None
            if n == 0: return None
            d = [abs(l - v) for l in labs]; m = min(d); j = d.index(m)
            if t != 'inf' and m > t: return 'IndexError'
            return j
        if 's' in ix:
            j = find(ix['s'])
            if j is None or j == 'IndexError': return j
            pos.append(j)
        else:
            js = [find(v) for v in ix['l']]
            if None in js: return None
            if 'IndexError' in js: return 'IndexError'
            pos.append(js)
    if keepdims: pos = [p if isinstance(p, list) else [p] for p in pos]
    return pos

def py_pos(ix):
    if 'ps' in ix: return ix['ps']
    if 'pl' in ix: return np.array(ix['pl'], dtype=int)
    if 'psl' in ix: return slice(*ix['psl'])
    if 'l' in ix: return np.array(ix['l'], dtype=int)
    if 's' in ix: return ix['s']
    raise ValueError(ix)

def oracle(case, res):
    a = case['ins'][0]; op = case['ops'][-1]
    if op[0] == 'get_ndmask':
        if res[0] == 'err': return 'indexing with a boolean mask of the full shape raised %s' % res[1]
        arr = mk_array(a); m = np.array(op[1], dtype=bool).reshape(arr.shape)
        pos = np.argwhere(m)
        want_v = arr.values[m].tolist()
        want_l = [[a['labels'][d][p] for d, p in enumerate(row)] for row in pos.tolist()]
        g = res[1]
        if g['t'] != 'arr': return None if not want_v else 'a scalar came back'
        r = g['v']
        if len(r['axes']) != 1 or r['axes'][0]['name'] != ','.join(a['dims']): return 'dims %r, expected one dimension named %r' % (obs_dims(r), ','.join(a['dims']))
        if len(r['flat']) != len(want_v) or any(not cell_eq(x, y) and not (not isinstance(x, dict) and float(x) == float(y)) for x, y in zip(r['flat'], [cell_json(v) for v in want_v])): return 'values are not the selected cells in row-major order'
        if not labs_eq(r['axes'][0]['labels'], want_l): return 'labels %r, expected the coordinate tuples %r (each label of its own type)' % (r['axes'][0]['labels'][:3], want_l[:3])
        return None
    exp = expected(a, op)
    if exp is None: return None
    if exp == 'IndexError':
        return None if res == ('err', 'IndexError') else 'absent label / out-of-range position did not raise IndexError: got %r' % (res[:2],)
    if res[0] == 'err': return 'valid index raised %s' % res[1]
    arr = mk_array(a)
    kept = [i for i, p in enumerate(exp) if isinstance(p, list)]
    v = arr.values[np.ix_(*[p if isinstance(p, list) else [p] for p in exp])] if exp else arr.values
    v = v.reshape([len(exp[i]) for i in kept])
    g = res[1]
    if not kept:
        if g['t'] != 'cell': return 'all-scalar index did not return a scalar'
        return None if cell_eq(g['v'], cell_json(v[()])) else 'wrong element: got %r expected %r' % (g['v'], v[()])
    if g['t'] != 'arr': return 'expected an array'
    r = g['v']
    if obs_dims(r) != [a['dims'][i] for i in kept]: return 'dims %r' % obs_dims(r)
    for ax, i in zip(r['axes'], kept):
        if not labs_eq(ax['labels'], [a['labels'][i][j] for j in exp[i]]):
            return 'axis %s labels %r, expected %r' % (ax['name'], ax['labels'], [a['labels'][i][j] for j in exp[i]])
    want = [cell_json(x) for x in v.ravel().tolist()]
    if len(want) != len(r['flat']) or not all(cell_eq(x, y) for x, y in zip(want, r['flat'])):
        return 'wrong elements'
    if r['attrs'] != (a.get('attrs') or {}): return 'metadata not kept'
    return None

def nontrivial(case, res):
    return res[0] == 'val' and (res[1]['t'] == 'cell' or len(res[1]['v']['flat']) > 0)
