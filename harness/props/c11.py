"""C11 - flatten, unflatten and reshape group dimensions losslessly."""
import itertools
from common import *
from gen import *
from oracle_util import *
import ops
import numpy as np

ID = 'C11'
STRICT_ERR = False
N_QUICK = 500
N_THOROUGH = 6000

def generate(rng, n, tier, stats):
    cases = []
    while len(cases) < n:
        nd = rng.choice([1, 2, 3, 3, 4, 4, 4])
        a = rand_array(rng, stats=stats, ndim=nd, minlen=1, maxlen=3, attrs=rng.random() < 0.4, dtype=rng.choice(['f', 'i']))
        dims = a['dims']
        fam = rng.choice(['flatten', 'flatten', 'roundtrip', 'reshape', 'reshape', 'reduce_vs_flatten', 'two_groups', 'collision', 'argext'])
        stats['family'][fam] += 1
        if fam == 'argext':
            # argmax / argmin over a tuple of dimensions = arg-extremum over the flattened group: the label tuple lists the
            # members in the order the dimensions were given
            if nd < 2: continue
            k = rng.randint(2, nd); idx = rng.sample(range(nd), k)
            refs = [dims[i] if rng.random() < 0.7 else i for i in idx]
            vals = list(range(len(a['flat']))); rng.shuffle(vals)      # distinct values: one extremum per fibre
            a['flat'] = [float(v) for v in vals] if a['dtype'] == 'f' else vals
            cases.append({'ins': [a], 'ops': [['argext_tuple', rng.random() < 0.5, refs]], 'tag': 'argext'})
            continue
        if fam == 'collision':
            # the grouped axis (or a member put back by unflatten) would take the name another dimension has:
            # the constructor refuses (ValueError), it never returns an array with a repeated dimension name
            if nd < 3 or rng.random() < 0.5: continue
            perm = list(range(nd)); rng.shuffle(perm)
            g = [dims[i] for i in perm[:2]]; other = dims[perm[2]]
            if rng.random() < 0.5:
                cases.append({'ins': [a], 'ops': [['rename_axis', other, ','.join(g)], ['flatten', g, 'tuple', None]], 'tag': 'collision'})
            else:
                cases.append({'ins': [a], 'ops': [['flatten', g, 'tuple', None], ['rename_axis', other, rng.choice(g)], ['unflatten']], 'tag': 'collision'})
            continue
        if fam == 'two_groups':
            # two grouped axes alive at once, then unflatten() / reshape back to plain dimensions
            if nd < 3: continue
            perm = list(range(nd)); rng.shuffle(perm)
            cut = rng.randint(1, nd - 1) if nd < 4 else 2
            g1, g2 = [dims[i] for i in perm[:cut]], [dims[i] for i in perm[cut:]]
            if rng.random() < 0.5:
                cases.append({'ins': [a], 'ops': [['flatten', g1, 'tuple', None], ['flatten', g2, 'tuple', None], ['unflatten']], 'tag': 'roundtrip'})
            else:
                back = list(dims); rng.shuffle(back)
                cases.append({'ins': [a], 'ops': [['reshape', [','.join(g1), ','.join(g2)], False], ['reshape', back, False]], 'tag': 'reshape_back', 'back': back})
            continue
        k = rng.choice([x for x in (1, 2, 2, 3, 3, 3, 4) if x <= nd]); idx = rng.sample(range(nd), k)
        refs = [dims[i] if rng.random() < 0.7 else i for i in idx]
        form = rng.choice(['tuple', 'list', 'set', 'args']) if k > 1 or rng.random() < 0.5 else 'tuple'
        if form == 'set': refs = [dims[i] for i in idx]
        insert = rng.choice([None, None, 0] + list(range(nd - k + 1)))
        contiguous = (sorted(idx) == list(range(min(idx), min(idx) + k))) and idx == sorted(idx)
        stats['subset_size'][k] += 1; stats['contiguous'][str(contiguous)] += 1; stats['form'][form] += 1
        if fam == 'flatten':
            if rng.random() < 0.15: refs, form = [], 'args'       # all dimensions
            cases.append({'ins': [a], 'ops': [['flatten', refs, form, insert]]})
        elif fam == 'roundtrip':
            cases.append({'ins': [a], 'ops': [['flatten', refs, form, insert], ['unflatten']], 'tag': 'roundtrip'})
        elif fam == 'reduce_vs_flatten':
            cases.append({'ins': [a], 'ops': [['flatten', refs, 'tuple', 0], ['reduce', 'sum', False, 0]], 'tag': 'reduce', 'refs': refs})
        else:
            # a target list that regroups / reorders / adds / drops singleton dimensions
            names = list(dims)
            # drop singleton dims sometimes
            names = [d for d, l in zip(dims, a['labels']) if not (len(l) == 1 and rng.random() < 0.4)]
            rng.shuffle(names)
            if rng.random() < 0.3: names.insert(rng.randint(0, len(names)), 'new')
            target = []
            while names:
                g = rng.choice([1, 1, 2, 3])
                target.append(','.join(names[:g])); names = names[g:]
            if not target: continue
            cases.append({'ins': [a], 'ops': [['reshape', target, rng.random() < 0.5]]})
    return cases

def execute(c):
    if c.get('tag') != 'argext':
        ins = [mk_array(j) for j in c['ins']]
        return run_impl(lambda: ops.run_ops(ins, c['ops']))
    a = mk_array(c['ins'][0]); _, mx, refs = c['ops'][0]
    try:
        r = (a.argmax if mx else a.argmin)(axis=tuple(refs))
        if hasattr(r, 'axes'):
            return ('val', {'t': 'raw', 'dims': list(r.dims), 'labels': [[lab_json(x) for x in ax.values] for ax in r.axes],
                            'cells': [lab_json(x) for x in r.values.ravel().tolist()]})
        return ('val', {'t': 'raw', 'dims': [], 'labels': [], 'cells': [lab_json(r)]})
    except Unsupported:
        raise
    except Exception as e:
        return ('err', EXN.get(type(e).__name__, 'OtherError'))

def coq_case(c, res):
    if c.get('tag') == 'argext': raise Unsupported('arg-extremum over a tuple of dimensions is checked by the oracle only')
    return ops.coq_case(c, res, STRICT_ERR)

def expand(o):
    """observable array -> (list of plain dim names, dict labels->cell) with grouped axes decomposed"""
    names = []
    for ax in o['axes']:
        if 'members' in ax and ax['members']: names += [m['name'] for m in ax['members']]
        else: names.append(ax['name'])
    out = {}
    for c, v in cells(o).items():
        key = []
        for ax, l in zip(o['axes'], c):
            if 'members' in ax and len(ax['members']) > 1: key += list(l)
            else: key.append(l)
        out[tuple(key)] = v
    return names, out

def oracle(case, res):
    a = case['ins'][0]; opsl = case['ops']
    obs = arr_json(mk_array(a))
    adims = a['dims']; ac = cells(obs)
    o = opsl[0]
    if case.get('tag') == 'argext':
        _, mx, refs = o
        if res[0] == 'err': return 'arg-extremum over the dimensions %r raised %s' % (refs, res[1])
        r = res[1]
        idx = [adims.index(x) if isinstance(x, str) else x for x in refs]
        rest = [i for i in range(len(adims)) if i not in idx]
        if r['dims'] != [adims[i] for i in rest]: return 'remaining dimensions %r, expected %r' % (r['dims'], [adims[i] for i in rest])
        v = mk_array(a).values
        want = []
        for c in itertools.product(*[range(v.shape[i]) for i in rest]):
            best = None
            for g in itertools.product(*[range(v.shape[i]) for i in idx]):
                full = [0] * v.ndim
                for i, p in zip(rest, c): full[i] = p
                for i, p in zip(idx, g): full[i] = p
                x = v[tuple(full)]
                if best is None or (x > best[0] if mx else x < best[0]): best = (x, g)
            want.append([a['labels'][i][p] for i, p in zip(idx, best[1])])
        got = [list(x) if isinstance(x, (list, tuple)) else [x] for x in r['cells']]
        if len(got) != len(want) or any(not labs_eq(g, w) for g, w in zip(got, want)):
            return 'label tuples %r do not locate the extremum over %r (expected %r)' % (got[:3], refs, want[:3])
        return None
    if case.get('tag') == 'collision':
        if res[0] == 'err': return None if res[1] == 'ValueError' else 'name collision raised %s' % res[1]
        return 'an array with a repeated dimension name was returned: %r' % (obs_dims(res[1]['v']),)
    if o[0] == 'flatten':
        _, refs, form, insert = o
        idx = [adims.index(r) if isinstance(r, str) else r for r in refs] if refs else list(range(len(adims)))
        if form == 'set': idx = sorted(idx)
        names = [adims[i] for i in idx]
        if insert is not None and insert < 0: return None
        if res[0] == 'err': return 'flatten raised %s' % res[1]
        if case.get('tag') == 'reduce':
            want = mk_array(a).values.sum(axis=tuple(idx))
            g = res[1]
            flat = [g['v']] if g['t'] == 'cell' else g['v']['flat']
            w = np.asarray(want).ravel().tolist()
            return None if len(w) == len(flat) and all(float(x) == float(y) for x, y in zip(flat, w)) else 'reducing the flattened group differs from the tuple reduction'
        r = res[1]['v']
        if case.get('tag') == 'roundtrip':
            nm, rc = expand(r)
            if sorted(nm) != sorted(adims) or any('members' in ax and ax['members'] for ax in r['axes']): return 'unflatten did not restore plain axes: %r' % nm
            for ax in r['axes']:
                j = adims.index(ax['name'])
                if not labs_eq(ax['labels'], a['labels'][j]): return 'member axis %s not restored exactly' % ax['name']
                if ax['kind'] != obs['axes'][j]['kind']: return 'member axis %s changed kind' % ax['name']
            for c, v in rc.items():
                cd = dict(zip(nm, c))
                if not cell_eq(ac[tuple(cd[d] for d in adims)], v): return 'element moved: %r' % cd
            if r['attrs'] != obs['attrs']: return 'metadata lost'
            return None
        gname = ','.join(names)
        rd = obs_dims(r)
        if gname not in rd: return 'no axis named %r in %r' % (gname, rd)
        pos = rd.index(gname)
        others = [d for d in adims if d not in names]
        if [d for d in rd if d != gname] != others: return 'other dimensions reordered: %r' % rd
        ins = adims.index(names[0]) if insert is None else insert
        ins = min(ins, len(adims) - len(names))
        if pos != ins: return 'grouped axis at position %d, expected %d' % (pos, ins)
        gax = r['axes'][pos]
        combos = [list(t) for t in itertools.product(*[[hl(l) for l in a['labels'][adims.index(d)]] for d in names])]
        got = [list(l) if isinstance(l, tuple) else [l] for l in [hl(x) for x in gax['labels']]]
        if got != combos: return 'grouped labels are not the row-major combinations of the member labels'
        nm, rc = expand(r)
        for c, v in rc.items():
            cd = dict(zip(nm, c))
            if not cell_eq(ac[tuple(cd[d] for d in adims)], v): return 'value at grouped position differs from the original at %r' % cd
        if r['attrs'] != obs['attrs']: return 'metadata lost'
        return None
    if case.get('tag') == 'reshape_back':
        if res[0] == 'err': return 'reshape into two groups and back raised %s' % res[1]
        r = res[1]['v']
        if obs_dims(r) != case['back']: return 'dims %r, expected %r' % (obs_dims(r), case['back'])
        nm, rc = expand(r)
        if any('members' in ax and ax['members'] for ax in r['axes']): return 'grouped axis left after reshaping back'
        for c, v in rc.items():
            cd = dict(zip(nm, c))
            if not cell_eq(ac[tuple(cd[d] for d in adims)], v): return 'element moved: %r' % cd
        return None if len(rc) == len(ac) else 'number of elements changed'
    if o[0] == 'reshape':
        target = o[1]
        flat = [p for t in target for p in t.split(',')]
        if len(set(flat)) != len(flat): return None
        dropped = [d for d in adims if d not in flat]
        if any(len(a['labels'][adims.index(d)]) != 1 for d in dropped): return None    # only singletons may be dropped
        if res[0] == 'err': return 'valid reshape raised %s' % res[1]
        r = res[1]['v']
        if obs_dims(r) != target: return 'dims %r, expected %r' % (obs_dims(r), target)
        nm, rc = expand(r)
        for c, v in rc.items():
            cd = dict(zip(nm, c))
            src = tuple(cd[d] if d in cd else hl(a['labels'][adims.index(d)][0]) for d in adims)
            if src not in ac or not cell_eq(ac[src], v): return 'element at %r does not come from the same labels' % cd
        if len(rc) != len(ac): return 'number of elements changed'
        if r['attrs'] != obs['attrs']: return 'metadata lost'
        return None
    return None

def nontrivial(case, res):
    return res[0] == 'val' and len(case['ins'][0]['flat']) > 1 or case.get('tag') == 'collision'
