"""C13 - a Dataset's variables always share the Dataset's axes (operation histories)."""
import itertools, copy, json
from common import *
from gen import *
from oracle_util import *
import ops
import numpy as np

ID = 'C13'
N_QUICK = 250
N_THOROUGH = 2500
HEADER = ('From DA Require Import Prelude NDArray Array PyRT.\n'
          'From DA.Model Require Import Value Reshape Indexing Align Dataset.\nOpen Scope string_scope.\n')
RUNNER = 'hist_case_ok'
SHOW = 'hist_case_show'
RULE = ('random histories (length 1-10 quick, 1-30 thorough) over the operation alphabet of the quantifier, generated against the live '
        'dataset so that most assignments are compatible, with rejected assignments (mismatch on the first / a middle / the last '
        'dimension of the new variable, other dimensions possibly new) interleaved; after every step the whole observable state '
        '(dims, axes, every variable, object identity of every variable axis with the dataset axis) is compared with the heap model; '
        'non-trivial = at least 3 successful mutating steps')

def observe(ds):
    out = {'dims': list(ds.dims), 'axes': [axis_json(ax) for ax in ds.axes], 'vars': []}
    for k in ds.keys():
        v = dict.__getitem__(ds, k)
        shared = []
        for ax in v.axes:
            shared.append(bool(ax.name in ds.dims and ax is ds.axes[ax.name]))
        out['vars'].append({'key': k, 'arr': arr_json(v), 'shared': shared})
    return out

def new_array(rng, ds, dims, mismatch_at=None):
    """an array over `dims`, taking the dataset's current labels for existing dimensions"""
    labels, kinds = [], []
    for j, d in enumerate(dims):
        if d in ds.dims:
            l = [lab_json(x) for x in ds.axes[d].values]; k = kind_of(ds.axes[d].values)
            if mismatch_at == j:
                if len(l) and rng.random() < 0.7:
                    l = list(l); i = rng.randrange(len(l)); l[i] = (l[i] + 50) if not isinstance(l[i], str) else l[i] + 'x'
                else:
                    l = l + [999 if k != 'O' else 'zz']
        else:
            k = rng.choice(['i', 'f', 'O']); l = rand_labels(rng, rng.randint(1, 3), k, rng.choice(['inc', 'shuf']))
        labels.append(l); kinds.append(k)
    a = rand_array(rng, dims=list(dims), lens=[len(l) for l in labels], dtype=rng.choice(['f', 'i']), attrs=rng.random() < 0.3)
    a['labels'] = labels; a['axdtype'] = kinds
    return a

def generate(rng, n, tier, stats):
    D = da()
    cases = []
    maxlen = 10 if tier == 'quick' else 30
    while len(cases) < n:
        ds = D.Dataset()
        hist = []
        fresh = iter(['d%d' % i for i in range(100)])
        keys_pool = ['a', 'b', 'c', 'v', 'w']
        if rng.random() < 0.3:
            # start from a constructed dataset: arrays with differing labels are aligned first (outer join)
            import props.c06 as c06
            arrays, _ = c06.gen_family(rng, stats, nmax=3, allow_empty=False, mix_kinds=False)
            op = ['init', [[k, a] for k, a in zip(rng.sample(keys_pool, len(arrays)), arrays)]]
            holder = [ds]
            status = apply_op(holder, op); ds = holder[0]
            hist.append({'op': op, 'status': status, 'obs': observe(ds), 'intended_reject': False})
            stats['history_op']['init'] += 1
        elif rng.random() < 0.3:
            # axes appended to the (still empty) dataset directly: no variable uses them yet
            for d in rng.sample(DIMPOOL, rng.randint(1, 2)):
                k_ = rng.choice(['i', 'f', 'O'])
                op = ['append_axis', {'name': d, 'kind': k_, 'labels': rand_labels(rng, rng.randint(1, 3), k_, rng.choice(['inc', 'shuf']))}]
                holder = [ds]; status = apply_op(holder, op); ds = holder[0]
                hist.append({'op': op, 'status': status, 'obs': observe(ds), 'intended_reject': False})
                stats['history_op']['append_axis'] += 1
        for _ in range(rng.randint(1, maxlen)):
            kinds = ['set_new', 'set_new', 'set_replace', 'reject', 'reject', 'reject', 'del', 'rename_axis', 'var_rename_axis', 'set_dims', 'append_axis',
                     'rename_axes', 'set_label', 'set_axis', 'replace_axis', 'set_axis', 'replace_axis', 'rename_key', 'rename_keys_multi', 'rename_keys_multi', 'var_set_labels']
            # an axis is named by its name or by its POSITION IN THE DATASET (which is not its position in a variable that lacks an
            # earlier dimension or lists its dimensions in another order): positions other than 0 are preferred
            byname = lambda i: rng.random() < (0.3 if i > 0 else 0.5)
            k = rng.choice(kinds)
            have = list(ds.keys()); dims = list(ds.dims)
            op = None
            if k in ('set_new', 'set_replace', 'reject'):
                key = rng.choice(have) if (k == 'set_replace' and have) else rng.choice([x for x in keys_pool if x not in have] or keys_pool)
                nd = rng.randint(0, 3)
                pool = dims + [d for d in DIMPOOL if d not in dims]
                chosen = rng.sample(pool[:max(len(dims) + 2, 3)], min(nd, len(pool)))
                mm = None
                if k == 'reject':
                    ex = [j for j, d in enumerate(chosen) if d in dims]
                    if not ex: continue
                    mm = rng.choice(ex)
                    stats['reject_position'][('first' if mm == 0 else 'last' if mm == len(chosen) - 1 else 'middle')] += 1
                op = ['set', key, new_array(rng, ds, chosen, mm)]
            elif k == 'var_set_labels':
                # the bulk labels setter THROUGH a one-dimensional variable: the shared axis object is relabelled, for everybody
                cands = [x for x in have if dict.__getitem__(ds, x).ndim == 1 and dict.__getitem__(ds, x).axes[0].size <= 6]
                if not cands: continue
                key = rng.choice(cands); ax = dict.__getitem__(ds, key).axes[0]; kk = rng.choice(['i', 'f', 'O'])
                op = ['var_set_labels', key, ax.name, rand_labels(rng, ax.size, kk, 'shuf'), kk]
            elif k == 'append_axis':
                cand = [d for d in DIMPOOL if d not in dims] or DIMPOOL
                d = rng.choice(cand) if rng.random() < 0.85 or not dims else rng.choice(dims)      # (an existing name is refused)
                k_ = rng.choice(['i', 'f', 'O'])
                op = ['append_axis', {'name': d, 'kind': k_, 'labels': rand_labels(rng, rng.randint(1, 3), k_, rng.choice(['inc', 'shuf']))}]
            elif k == 'del':
                if not have: continue
                op = ['del', rng.choice(have + (['nokey'] if rng.random() < 0.1 else []))]
            elif k == 'rename_axis':
                if not dims: continue
                i = rng.randrange(len(dims)); op = ['rename_axis', dims[i] if byname(i) else i, next(fresh)]
            elif k == 'var_rename_axis':
                cands = [x for x in have if dict.__getitem__(ds, x).ndim > 0]
                if not cands: continue
                key = rng.choice(cands); vd = dict.__getitem__(ds, key).dims; i = rng.randrange(len(vd))
                op = ['var_rename_axis', key, vd[i] if rng.random() < 0.5 else i, next(fresh)]
            elif k == 'set_dims':
                if not dims: continue
                u = rng.random()
                if u < 0.45: nm = [next(fresh) for _ in dims]
                elif u < 0.7: nm = list(dims); rng.shuffle(nm)                      # a permutation of the current names
                elif u < 0.85: nm = list(dims[1:]) + [next(fresh)]                   # a shift: every name but the last is a later axis's name
                elif u < 0.93: nm = [next(fresh)] * len(dims)                         # duplicate names (rejected when there are two or more)
                else: nm = [next(fresh)] * (len(dims) + 1)
                stats['set_dims_form']['fresh' if u < 0.45 else 'permute' if u < 0.7 else 'shift' if u < 0.85 else 'duplicates' if u < 0.93 else 'wrong-length'] += 1
                op = ['set_dims', nm]
            elif k == 'rename_axes':
                if not dims: continue
                m = rng.sample(dims, rng.randint(1, len(dims)))
                u = rng.random()
                if u < 0.5 or len(m) < 2: op = ['rename_axes', [[d, next(fresh)] for d in m]]
                elif u < 0.8:
                    # the names are PERMUTED among the renamed dimensions (a swap, a cycle): the renaming is simultaneous
                    tgt = m[1:] + m[:1]; op = ['rename_axes', [[a_, b_] for a_, b_ in zip(m, tgt)]]
                else:
                    # a chain: every name but the last becomes the next dimension's old name
                    tgt = m[1:] + [next(fresh)]; op = ['rename_axes', [[a_, b_] for a_, b_ in zip(m, tgt)]]
                stats['rename_axes_form']['fresh' if u < 0.5 or len(m) < 2 else 'permutation' if u < 0.8 else 'chain'] += 1
            elif k == 'set_label':
                if not dims: continue
                i = rng.randrange(len(dims)); ax = ds.axes[i]
                if ax.size == 0: continue
                j = rng.randrange(ax.size); cur = lab_json(ax.values[j])
                new = rng.choice([cur + 100, cur + 0.5]) if not isinstance(cur, str) else rng.choice([cur + 'q', 5])
                op = ['set_label', dims[i] if byname(i) else i, j, new]
            elif k == 'set_axis':
                if not dims: continue
                i = rng.randrange(len(dims)); ax = ds.axes[i]
                kk = rng.choice(['i', 'f', 'O']); labs = rand_labels(rng, ax.size, kk, 'shuf') if ax.size <= 6 else None
                if labs is None: continue
                u_ = rng.random()
                # the new name: none, a fresh one, the axis' own, or (refused) the name of another dimension
                nm_ = next(fresh) if u_ < 0.35 else dims[i] if u_ < 0.42 else dims[(i + 1) % len(dims)] if (u_ < 0.52 and len(dims) > 1) else None
                op = ['set_axis', dims[i] if byname(i) else i, labs, kk, nm_]
                loose = [d_ for d_ in ds.dims if not any(d_ in dict.__getitem__(ds, k_).dims for k_ in ds.keys())]
                # ds = ds.set_axis(..., inplace=False): the same, on a copy (a copy is built from the variables: it does not carry
                # the axes that were appended directly and that no variable uses, so the variant is kept for datasets without such axes)
                if rng.random() < 0.35 and not loose: op.append('copy')
            elif k == 'replace_axis':
                if not dims: continue
                i = rng.randrange(len(dims)); ax = ds.axes[i]
                kk = rng.choice(['i', 'f', 'O']); n_ = ax.size if rng.random() < 0.9 else ax.size + 1
                if n_ > 6: continue
                # the new Axis keeps the name, or brings a new one (ds.axes[d] = Axis(labels, 'other name'))
                nm = dims[i] if rng.random() < 0.65 else next(fresh)
                stats['replace_axis_name']['same' if nm == dims[i] else 'new'] += 1
                op = ['replace_axis', dims[i] if byname(i) else i, {'name': nm, 'labels': rand_labels(rng, n_, kk, 'shuf'), 'kind': kk}]
            elif k == 'rename_keys_multi':
                if len(have) < 2: continue
                m = rng.sample(have, rng.randint(2, len(have)))
                tgt = m[1:] + (m[:1] if rng.random() < 0.6 else [[x for x in ('z9', 'z8', 'z7', 'z6') if x not in have][0]])
                if rng.random() < 0.4:
                    # two variables sent to the same key: refused (one of them would be lost), the dataset stays as it was
                    tgt = ['z5'] * len(m); stats['rename_keys_many_to_one']['yes'] += 1
                elif len(set(tgt)) != len(tgt) or any(t_ in have and t_ not in m for t_ in tgt): continue
                op = ['rename_keys_multi', [[a_, b_] for a_, b_ in zip(m, tgt)]]
            else:
                if not have: continue
                old = rng.choice(have); op = ['rename_key', old, rng.choice([x for x in keys_pool + ['z1', 'z2'] if x not in have] + [old])]
                if len(have) >= 2 and rng.random() < 0.3:
                    # onto the key of ANOTHER variable, which is thereby replaced (its dimensions go when nothing else uses them)
                    op = ['rename_key', old, rng.choice([x for x in have if x != old])]; stats['rename_key_onto_existing']['yes'] += 1
            stats['history_op'][op[0] + (':reject' if k == 'reject' else '')] += 1
            holder = [ds]
            status = apply_op(holder, op); ds = holder[0]
            hist.append({'op': op, 'status': status, 'obs': observe(ds), 'intended_reject': k == 'reject'})
        have = list(ds.keys())
        if len(have) >= 2 and rng.random() < 0.2:
            # rename_keys with several keys at once, the new names overlapping the old ones (swap / cycle / chain)
            m = rng.sample(have, rng.randint(2, len(have)))
            newname = [x for x in ('z9', 'z8', 'z7', 'z6') if x not in have][0]
            tgt = m[1:] + (m[:1] if rng.random() < 0.6 else [newname])
            op = ['rename_keys_multi', [[a_, b_] for a_, b_ in zip(m, tgt)]]
            before = observe(ds)
            holder = [ds]; status = apply_op(holder, op); ds = holder[0]
            hist.append({'op': op, 'status': status, 'obs': observe(ds), 'intended_reject': False, 'before': before})
            stats['history_op']['rename_keys_multi'] += 1
        stats['history_length'][len(hist)] += 1
        cases.append({'hist': hist})
    return cases

def apply_op(holder, op):
    D = da()
    ds = holder[0]
    try:
        n = op[0]
        if n == 'init':
            holder[0] = D.Dataset(dict((k, mk_array(a)) for k, a in op[1]))
        elif n == 'set':
            # the dataset holds COPIES of the axes of the array it is given: the array itself stays as it is whatever happens to the
            # dataset later (checked after every step, see _alias_check)
            x_ = mk_array(op[2])
            if len(holder) > 1: holder[1].append((x_, _axes_snap(x_)))
            ds[op[1]] = x_
        elif n == 'del': del ds[op[1]]
        elif n == 'rename_axis': ds.axes[op[1]].name = op[2]
        elif n == 'var_rename_axis': dict.__getitem__(ds, op[1]).axes[op[2]].name = op[3]
        elif n == 'set_dims': ds.dims = tuple(op[1])
        elif n == 'rename_axes': ds.rename_axes(dict((a, b) for a, b in op[1]))
        elif n == 'set_label': ds.axes[op[1]][op[2]] = op[3]
        elif n == 'set_axis':
            if len(op) > 5 and op[5] == 'copy': holder[0] = ds.set_axis(ops.labs_np(op[2], op[3]), axis=op[1], name=op[4], inplace=False)
            else: ds.set_axis(ops.labs_np(op[2], op[3]), axis=op[1], name=op[4])
        elif n == 'replace_axis': ds.axes[op[1]] = mk_axis(op[2]['name'], op[2]['labels'], op[2]['kind'])
        elif n == 'rename_key': ds.rename_keys({op[1]: op[2]})
        elif n == 'rename_keys_multi': ds.rename_keys(dict((a, b) for a, b in op[1]))
        elif n == 'append_axis': ds.axes.append(mk_axis(op[1]['name'], op[1]['labels'], op[1]['kind']))
        elif n == 'var_set_labels': dict.__getitem__(ds, op[1]).labels = (ops.labs_np(op[3], op[4]),)
        return None
    except Exception as e:
        nm = type(e).__name__
        return nm if nm in EXN else 'OtherError'

def _axes_snap(x):
    return json.dumps([[ax.name, [lab_json(l) for l in ax.values], kind_of(ax.values), meta_json(ax.attrs)] for ax in x.axes], sort_keys=True, default=str)
def _alias_check(holder):
    for x_, s_ in holder[1]:
        if _axes_snap(x_) != s_: return 'an array that was assigned to the dataset earlier changed with it (its axes are now %s, they were %s)' % (_axes_snap(x_)[:120], s_[:120])
    return None

def execute(c):
    # the history was executed while it was generated (the ops depend on the live state); replay it here so that
    # a replayed / corpus case is re-run against the current implementation
    D = da()
    holder = [D.Dataset(), []]
    out = []
    for st in c['hist']:
        status = apply_op(holder, st['op'])
        out.append({'status': status, 'obs': observe(holder[0]), 'alias': _alias_check(holder)})
    return ('val', out)

def cq_vobs(v):
    return '{| okey := %s; oarr := %s; oshared := %s |}' % (cq_str(v['key']), cq_arr_obs(v['arr']), cq_list(['true' if b else 'false' for b in v['shared']]))
def cq_obs(o):
    return '{| odims := %s; oaxes := %s; ovars := %s |}' % (cq_list([cq_str(d) for d in o['dims']]), cq_list([cq_axis_obs(a) for a in o['axes']]), cq_list([cq_vobs(v) for v in o['vars']]))
def cq_dsop(op):
    n = op[0]
    if n == 'set': return '(DSet %s %s)' % (cq_str(op[1]), cq_arr_in(op[2]))
    if n == 'del': return '(DDel %s)' % cq_str(op[1])
    if n == 'rename_axis': return '(DRenameAxis %s %s)' % (cq_axref(op[1]), cq_str(op[2]))
    if n == 'var_rename_axis': return '(DVarRenameAxis %s %s %s)' % (cq_str(op[1]), cq_axref(op[2]), cq_str(op[3]))
    if n == 'set_dims': return '(DSetDims %s)' % cq_list([cq_str(x) for x in op[1]])
    if n == 'rename_axes': return '(DRenameAxes %s)' % cq_list(['(%s, %s)' % (cq_str(a), cq_str(b)) for a, b in op[1]])
    if n == 'set_label':
        v = op[3]; k = 'i' if isinstance(v, int) else 'f' if isinstance(v, float) else 'U'
        return '(DSetLabel %s %s %s %s)' % (cq_axref(op[1]), cq_z(op[2]), cq_label(v), cq_kind(k))
    if n == 'set_axis': return '(DSetAxis %s %s %s %s)' % (cq_axref(op[1]), cq_kind('U' if op[3] == 'O' else op[3]), ops.cq_labs(op[2]), cq_opt(op[4], cq_str))
    if n == 'replace_axis': return '(DReplaceAxis %s %s)' % (cq_axref(op[1]), ops.cq_axis_in(op[2]))
    if n == 'rename_key': return '(DRenameKey %s %s)' % (cq_str(op[1]), cq_str(op[2]))
    if n == 'rename_keys_multi': return '(DRenameKeys %s)' % cq_list(['(%s, %s)' % (cq_str(a), cq_str(b)) for a, b in op[1]])
    if n == 'append_axis': return '(DAppendAxis %s)' % ops.cq_axis_in(op[1])
    if n == 'var_set_labels': return '(DSetAxis %s %s %s None)' % (cq_axref(op[2]), cq_kind('U' if op[4] == 'O' else op[4]), ops.cq_labs(op[3]))
    if n == 'init': return '(DInit %s)' % cq_list(['(%s, %s)' % (cq_str(k), cq_arr_in(a)) for k, a in op[1]])
    raise Unsupported(n)

def coq_case(c, res):
    items = []
    for st, r in zip(c['hist'], res[1]):
        e = 'None' if r['status'] is None else '(Some %s)' % r['status']
        items.append('(%s, %s, %s)' % (cq_dsop(st['op']), e, cq_obs(r['obs'])))
    return cq_list(items)

def oracle(c, res):
    prev = {'dims': [], 'axes': [], 'vars': []}
    for k, (st, r) in enumerate(zip(c['hist'], res[1])):
        o = r['obs']
        if r.get('alias'): return 'after step %d (%s): %s' % (k, st['op'][0], r['alias'])
        for v in o['vars']:
            if not all(v['shared']):
                return 'after step %d (%s): variable %r does not share the dataset\'s axis object on every dimension (%r)' % (k, st['op'][0], v['key'], v['shared'])
        used = []
        for v in o['vars']:
            for ax in v['arr']['axes']:
                if ax['name'] not in used: used.append(ax['name'])
        # "the dataset's dimensions are exactly those used by its variables (plus axes appended to it directly that no variable
        # has used yet)": every used dimension is a dataset dimension, and the number of unused ones grows by a direct append only
        unused = [d for d in o['dims'] if d not in used]
        prev_used = set(ax['name'] for v in prev['vars'] for ax in v['arr']['axes'])
        prev_unused = [d for d in prev['dims'] if d not in prev_used]
        grown = 1 if (st['op'][0] == 'append_axis' and r['status'] is None) else 0
        if any(d not in o['dims'] for d in used) or len(unused) > len(prev_unused) + grown:
            return 'after step %d (%s): dataset dims %r are not exactly the dimensions used by its variables %r (plus the axes appended directly)' % (k, st['op'][0], o['dims'], used)
        for v in o['vars']:
            for ax in v['arr']['axes']:
                dax = o['axes'][o['dims'].index(ax['name'])]
                if ax != dax: return 'after step %d: variable %r sees an axis different from the dataset\'s' % (k, v['key'])
        if st['op'][0] == 'init' and r['status'] is None:
            for d in o['dims']:
                want = []
                for _, a in st['op'][1]:
                    if d in a['dims']:
                        for l in a['labels'][a['dims'].index(d)]:
                            if hl(l) not in want: want.append(hl(l))
                got = [hl(l) for l in o['axes'][o['dims'].index(d)]['labels']]
                if sorted(map(str, got)) != sorted(map(str, want)) or len(set(got)) != len(got):
                    return 'constructed dataset: axis %s is %r, expected the union %r of the arrays\' labels' % (d, got, want)
        # "a changed axis name is immediately visible from the dataset and from all variables"
        if r['status'] is None and st['op'][0] == 'set_dims' and o['dims'] != list(st['op'][1]):
            return 'after step %d: ds.dims = %r, but the dataset reports dims %r' % (k, st['op'][1], o['dims'])
        if r['status'] is None and st['op'][0] == 'set_dims':
            # variables keep their axes by position: their dims are the old ones mapped through the renaming
            m = dict(zip(prev['dims'], st['op'][1]))
            for v, pv in zip(o['vars'], prev['vars']):
                want = [m.get(ax['name']) for ax in pv['arr']['axes']]
                got = [ax['name'] for ax in v['arr']['axes']]
                if v['key'] == pv['key'] and got != want:
                    return 'after step %d: ds.dims = %r, but variable %r reports dims %r instead of %r' % (k, st['op'][1], v['key'], got, want)
        if r['status'] is None and st['op'][0] == 'rename_axis':
            ref = st['op'][1]; i = ref if isinstance(ref, int) else prev['dims'].index(ref)
            if o['dims'][i] != st['op'][2]: return 'after step %d: axis %r renamed to %r, but the dataset reports dims %r' % (k, ref, st['op'][2], o['dims'])
        if r['status'] is None and st['op'][0] == 'set_axis':
            ref = st['op'][1]; i_ = ref if isinstance(ref, int) else (prev['dims'].index(ref) if ref in prev['dims'] else None)
            if i_ is not None:
                want_dims = list(prev['dims'])
                if st['op'][4]: want_dims[i_] = st['op'][4]
                if o['dims'] != want_dims:
                    return 'after step %d: set_axis(%r%s) - the dataset reports dims %r, expected %r (same dimensions, same order)' % (k, ref, ', inplace=False' if len(st['op']) > 5 else '', o['dims'], want_dims)
        if st['op'][0] == 'rename_keys_multi' and len(set(b_ for a_, b_ in st['op'][1])) != len(st['op'][1]):
            if r['status'] != 'ValueError': return 'rename_keys(%r) sends two variables to one key and gave %r instead of ValueError' % (st['op'][1], r['status'])
            if json.dumps(o, sort_keys=True, default=str) != json.dumps(prev, sort_keys=True, default=str): return 'step %d: the refused rename_keys changed the dataset' % k
        elif st['op'][0] == 'rename_keys_multi':
            if r['status'] is not None: return 'rename_keys(%r) raised %s' % (dict(map(tuple, st['op'][1])), r['status'])
            m = dict(map(tuple, st['op'][1])); pv = {v['key']: v['arr'] for v in prev['vars']}; nv = {v['key']: v['arr'] for v in o['vars']}
            want = {m.get(k_, k_): a_ for k_, a_ in pv.items()}
            if sorted(nv) != sorted(want): return 'rename_keys(%r): keys %r, expected %r' % (m, sorted(nv), sorted(want))
            for k_ in want:
                if json.dumps(nv[k_], sort_keys=True, default=str) != json.dumps(want[k_], sort_keys=True, default=str):
                    return 'rename_keys(%r): variable %r does not hold the data of the variable renamed to it' % (m, k_)
        if st.get('intended_reject'):
            if r['status'] != 'ValueError': return 'step %d: assignment with disagreeing labels gave %r instead of ValueError' % (k, r['status'])
            if json.dumps(o, sort_keys=True, default=str) != json.dumps(prev, sort_keys=True, default=str):
                return 'step %d: the rejected assignment changed the dataset' % k
        prev = o
    return None

def nontrivial(c, res):
    return sum(1 for r in res[1] if r['status'] is None) >= 3
