"""C09 - cumulative, difference and arg-extremum operations keep axis bookkeeping right."""
import itertools, math
from common import *
from gen import *
from oracle_util import *
import ops
import numpy as np

ID = 'C09'
STRICT_ERR = False
N_QUICK = 500
N_THOROUGH = 6000

def generate(rng, n, tier, stats):
    cases = []
    while len(cases) < n:
        fam = rng.choice(['cumsum', 'cumprod', 'diff', 'diff', 'argmin', 'argmax'])
        nd = rng.randint(1, 4)
        lens = [rng.randint(1, 5 if tier == 'thorough' else 4) for _ in range(nd)]
        dtype = rng.choice(['f', 'f', 'i'])
        a = rand_array(rng, stats=stats, dtype=dtype, ndim=nd, lens=lens, attrs=rng.random() < 0.5)
        size = len(a['flat'])
        if dtype == 'f':
            pool = [x / 2.0 for x in range(-5, 9)] if fam != 'cumprod' else [1.0, 2.0, 0.5, -1.0, 0.0]
            a['flat'] = [rng.choice(pool) for _ in range(size)]
            if rng.random() < 0.4: a['flat'] = [float('nan') if rng.random() < 0.2 else v for v in a['flat']]
        else:
            a['flat'] = [rng.choice(range(-3, 5) if fam != 'cumprod' else [1, 2, -1, 0]) for _ in range(size)]
        if fam in ('cumsum', 'cumprod') and rng.random() < 0.15:
            # a boolean mask: the running count (or product) is an integer array, as NumPy gives
            a = rand_array(rng, stats=stats, dtype='b', ndim=nd, lens=lens, attrs=rng.random() < 0.5); dtype = 'b'
            stats['cumulative_of_bool']['yes'] += 1
        i = rng.randrange(nd); r = a['dims'][i] if rng.random() < 0.5 else i
        stats['family'][fam] += 1
        if fam in ('cumsum', 'cumprod'):
            default = rng.random() < 0.25
            if default: r = nd - 1
            cases.append({'ins': [a], 'ops': [['cum', fam == 'cumprod', rng.random() < 0.3 and dtype == 'f', r, default]]})
        elif fam == 'diff':
            sc = rng.choice(['backward', 'forward', 'centered']); keep = rng.random() < 0.4; k = rng.choice([1, 1, 2, 3])
            if rng.random() < 0.12:
                # first difference of a boolean mask (NumPy: elementwise "differs from its neighbour"); with keepaxis the
                # padded result has to become a float array, booleans have no NaN.  Orders n >= 2 are left out: see DESIGN 10.7
                a = rand_array(rng, stats=stats, dtype='b', ndim=nd, lens=lens, attrs=rng.random() < 0.5); dtype = 'b'
                r = a['dims'][i] if isinstance(r, str) else r
                k = 1; sc = rng.choice(['backward', 'forward']); keep = rng.random() < 0.7
                stats['diff_of_bool']['keepaxis' if keep else 'shortened'] += 1
            stats['scheme'][sc + ('/keepaxis' if keep else '')] += 1; stats['order_n'][k] += 1
            cases.append({'ins': [a], 'ops': [['diff', r, sc, keep, k]]})
        else:
            whole = rng.random() < 0.3
            if rng.random() < 0.5:      # force ties
                a['flat'] = [rng.choice([1.0, 2.0] if dtype == 'f' else [1, 2]) if not (isinstance(v, float) and v != v) else v for v in a['flat']]
            cases.append({'ins': [a], 'ops': [['argext', fam == 'argmax', None if whole else r]]})
    return cases

def oracle(case, res):
    a = case['ins'][0]; o = case['ops'][0]
    arr = mk_array(a); obs = arr_json(arr); v = arr.values
    nd = len(a['dims'])
    def pos_of(r): return a['dims'].index(r) if isinstance(r, str) else r
    with np.errstate(all='ignore'):
        if o[0] == 'cum':
            _, prod, skipna, r, default = o
            p = pos_of(r)
            f = (np.nancumprod if prod else np.nancumsum) if skipna else (np.cumprod if prod else np.cumsum)
            want = f(v, axis=p)
            if res[0] == 'err': return 'cumulative op raised %s' % res[1]
            rr = res[1]['v']
            if obs_dims(rr) != a['dims'] or any(not labs_eq(x['labels'], y) for x, y in zip(rr['axes'], a['labels'])): return 'axes changed'
            if rr['attrs'] != obs['attrs']: return 'metadata lost'
            return _cmp(rr['flat'], want)
        if o[0] == 'diff':
            _, r, sc, keep, k = o
            p = pos_of(r); n = len(a['labels'][p])
            if sc == 'centered' and (keep or a['axdtype'][p] == 'O'): return None   # documented errors
            if n - k < 0: return None
            if n == 0: return None
            if res[0] == 'err':
                return 'diff raised %s' % res[1]
            want = np.diff(v, n=k, axis=p)
            rr = res[1]['v']
            labs = a['labels'][p]
            if keep:
                pad = np.full([k if j == p else s for j, s in enumerate(want.shape)], np.nan)
                want = np.concatenate([pad, want] if sc == 'backward' else [want, pad], axis=p)
                wl = labs
            elif sc == 'backward': wl = labs[k:]
            elif sc == 'forward': wl = labs[:len(labs) - k]
            else:
                wl = list(labs)
                for _ in range(k): wl = [(x + y) / 2.0 for x, y in zip(wl, wl[1:])]
            if obs_dims(rr) != a['dims']: return 'dims changed'
            if not labs_eq(rr['axes'][p]['labels'], wl): return 'differenced axis is %r, expected %r' % (rr['axes'][p]['labels'], wl)
            for j, ax in enumerate(rr['axes']):
                if j != p and not labs_eq(ax['labels'], a['labels'][j]): return 'another axis changed'
            if rr['attrs'] != obs['attrs']: return 'metadata lost'
            return _cmp(rr['flat'], want)
        _, mx, r = o
        f = np.nanmax if False else (np.max if mx else np.min)
        if r is None:
            if v.size == 0: return None
            if res[0] == 'err': return 'arg-extremum raised %s' % res[1]
            labs = res[1]['v']
            want = (np.max if mx else np.min)(v)
            cellv = arr[tuple(ops.py_label(l) for l in labs)] if nd else None
            ok = (cellv != cellv and want != want) or float(cellv) == float(want)
            return None if ok else 'a[argext] = %r but the extremum is %r' % (cellv, want)
        p = pos_of(r)
        if len(a['labels'][p]) == 0: return None
        if res[0] == 'err': return 'arg-extremum along an axis raised %s' % res[1]
        want = (np.max if mx else np.min)(v, axis=p)
        g = res[1]
        if g['t'] == 'labels':
            if nd != 1: return 'expected an array'
            cellv = arr[ops.py_label(g['v'][0])]
            ok = (cellv != cellv and want != want) or float(cellv) == float(want)
            return None if ok else 'a[argext] != extremum'
        rr = g['v']
        rest = [j for j in range(nd) if j != p]
        if obs_dims(rr) != [a['dims'][j] for j in rest]: return 'dims %r' % obs_dims(rr)
        for pos, lab in zip(itertools.product(*[range(len(a['labels'][j])) for j in rest]), rr['flat']):
            idx = [None] * nd
            for j, q in zip(rest, pos): idx[j] = q
            try: idx[p] = [hl(l) for l in a['labels'][p]].index(hl(lab))
            except ValueError: return 'returned %r is not a label of the axis' % (lab,)
            cellv = v[tuple(idx)]; w = want[pos]
            if not ((cellv != cellv and w != w) or float(cellv) == float(w)): return 'indexing with the returned label gives %r, extremum is %r' % (cellv, w)
        return None

def _cmp(flat, want):
    w = want.ravel().tolist()
    if len(w) != len(flat): return 'shape differs from NumPy'
    for x, y in zip(flat, w):
        if isinstance(x, dict):
            if y == y: return 'NaN where NumPy gives %r' % y
        elif y != y or float(x) != float(y): return 'value %r, NumPy gives %r' % (x, y)
    return None

def nontrivial(case, res):
    return res[0] == 'val' and len(case['ins'][0]['flat']) > 1
