"""C16 - metadata: attribute routing and propagation rules (two suites)."""
import itertools, copy
from common import *
from gen import *
from oracle_util import *
import ops
import numpy as np

ID = 'C16'
N_QUICK = 800
N_THOROUGH = 6000

# =============================================================== suite 0: routing
class Route:
    HEADER = ('From DA Require Import Prelude NDArray Array PyRT.\nFrom DA.Model Require Import Attrs.\nOpen Scope string_scope.\n')
    RUNNER = 'rcase_ok'
    SHOW = 'rcase_show'
    NAMES = {
        'public_new': ['foo', 'long_name', 'Units', 'x1'],
        'public_existing': ['units'],
        'underscore': ['_x', '__x__', '_private', '_values', '_attrs', '_name'],
        'member': ['values', 'axes', 'dims', 'shape', 'attrs', 'mean', 'T', 'name', 'size', 'labels', 'keys', 'take', 'copy', 'ndim', 'loc', 'tol'],
        'dimension': ['x', 'y'],
    }

    @staticmethod
    def build(cls):
        D = da()
        a = D.DimArray(np.array([[1., 2.], [3., 4.]]), axes=[('x', [10, 20]), ('y', ['a', 'b'])])
        a.attrs['units'] = 'K'
        if cls == 'DimArray': return a
        if cls == 'Dataset':
            ds = D.Dataset(); ds['v'] = a; ds['w'] = a.copy() * 2; ds.attrs['units'] = 'K'; return ds
        ax = D.Axis([10, 20, 30], 'x'); ax.attrs['units'] = 'K'; return ax

    @staticmethod
    def generate(rng, n, tier, stats):
        cases = []
        while len(cases) < n:
            cls = rng.choice(['DimArray', 'Dataset', 'Axis'])
            cat = rng.choice(list(Route.NAMES))
            name = rng.choice(Route.NAMES[cat])
            action = rng.choice(['set', 'get', 'del'])
            if name in ('_values', '_attrs', '_name', '_axes', 'attrs') and action != 'get': continue   # would destroy the object under test / is the attrs dictionary itself
            pre = rng.random() < 0.4      # an entry already stored in attrs under that name
            stats['route_class'][cls] += 1; stats['name_category'][cat] += 1; stats['action'][action] += 1
            cases.append({'cls': cls, 'name': name, 'cat': cat, 'action': action, 'pre_attr': pre})
        return cases

    @staticmethod
    def preds(obj, name):
        t = type(obj)
        hasdims = hasattr(t, 'dims'); hasaxes = hasattr(t, 'axes')
        return {'member': hasattr(t, name), 'private': name.startswith('_'), 'exclude': name in obj.__metadata_exclude__,
                'include': name in obj.__metadata_include__, 'hasdims': hasdims, 'hasaxes': hasaxes,
                'isdim': bool(hasdims and name in obj.dims), 'inattrs': name in obj.attrs, 'instance': name in obj.__dict__}

    @staticmethod
    def labels_of(obj):
        return [list(map(repr, ax.values)) for ax in obj.axes] if hasattr(type(obj), 'axes') else [list(map(repr, obj.values))]

    @staticmethod
    def execute(c):
        obj = Route.build(c['cls']); name = c['name']
        SENT = ['attr-sentinel']
        if c['pre_attr']: obj.attrs[name] = SENT
        p = Route.preds(obj, name); c['_preds'] = p
        attrs0 = dict(obj.attrs); labs0 = Route.labels_of(obj)
        out = {}
        if c['action'] == 'set':
            val = [77, 88] if (p['isdim'] or name in ('x', 'y')) and c['cls'] != 'Axis' else 'newvalue'
            try: setattr(obj, name, val); exc = None
            except Exception as e: exc = type(e).__name__
            attrs1 = dict(obj.attrs); labs1 = Route.labels_of(obj)
            if attrs1 != attrs0 and attrs1.get(name) == val and (name not in attrs0 or attrs0[name] != val): route = 'SAttrs'
            elif labs1 != labs0: route = 'SAxisValues'
            else: route = 'SObject'
            out = {'route': route, 'exc': exc, 'attrs_changed': attrs1 != attrs0}
        elif c['action'] == 'get':
            try:
                v = getattr(obj, name); exc = None
            except AttributeError: v = None; exc = 'AttributeError'
            except Exception as e: v = None; exc = type(e).__name__
            if exc == 'AttributeError': route = 'GError'
            elif exc is None and name in obj.attrs and v is obj.attrs[name]: route = 'GAttrs'
            elif exc is None and p['isdim'] and isinstance(v, np.ndarray) and list(map(repr, v)) == list(map(repr, obj.axes[name].values)): route = 'GAxisValues'
            else: route = 'GNormal'
            out = {'route': route, 'exc': exc}
        else:
            try: delattr(obj, name); exc = None
            except Exception as e: exc = type(e).__name__
            attrs1 = dict(obj.attrs)
            route = 'DAttrs' if (name in attrs0 and name not in attrs1) else 'DObject'
            out = {'route': route, 'exc': exc}
        return ('val', out)

    @staticmethod
    def coq_case(c, res):
        p = c['_preds']; b = lambda x: 'true' if x else 'false'
        pr = '(Pr %s)' % ' '.join(b(p[k]) for k in ['member', 'private', 'exclude', 'include', 'hasdims', 'hasaxes', 'isdim', 'inattrs', 'instance'])
        return '(%s %s %s)' % ({'get': 'RGet', 'set': 'RSet', 'del': 'RDel'}[c['action']], pr, res[1]['route'])

    @staticmethod
    def oracle(c, res):
        r = res[1]['route']; cat = c['cat']; cls = c['cls']
        isdim = cat == 'dimension' and cls != 'Axis'
        is_member = c['_preds']['member']            # a fact about the class under test
        public = cat in ('public_new', 'public_existing') or (cat == 'dimension' and cls == 'Axis' and not is_member) \
                 or (cat == 'member' and not is_member)
        if cat == 'dimension' and is_member: isdim = False
        inattrs = c['pre_attr'] or (c['name'] == 'units')
        if c['action'] == 'set':
            if public: return None if r == 'SAttrs' else 'public non-member name did not go to attrs (%s)' % r
            if isdim: return None if r == 'SAxisValues' else 'dimension name did not write the axis labels (%s)' % r
            return None if r != 'SAttrs' and not res[1]['attrs_changed'] else 'underscore / class-member name entered attrs'
        if c['action'] == 'get':
            if public: return None if r == ('GAttrs' if inattrs else 'GError') else 'public name: expected %s, got %s' % ('attrs value' if inattrs else 'AttributeError', r)
            if isdim: return None if r == 'GAxisValues' else 'dimension name did not read the axis labels (%s)' % r
            return None if r != 'GAttrs' else 'entry stored in attrs under an underscore / member name is reachable through attribute syntax'
        if public: return None if (r == 'DAttrs') == inattrs else 'public name: del route %s with inattrs=%s' % (r, inattrs)
        if isdim: return None
        return None if r != 'DAttrs' else 'entry stored in attrs under an underscore / member name was deleted through attribute syntax'

    @staticmethod
    def nontrivial(c, res): return True

# =============================================================== suite 1: propagation
class Prop:
    RUNNER = 'run_case_approx'      # means and interpolation among the operations: compared within 1e-9 relative
    KEEP = ['get', 'get', 'reduce', 'cum', 'diff', 'transpose', 'swapaxes', 'newaxis', 'squeeze', 'flatten', 'reshape', 'reindex',
            'sort_axis', 'interp', 'take_axis', 'compress_axis', 'dropna', 'fillna', 'setna',
            # reshaping that EXPANDS a singleton dimension (newaxis with values, repeat, broadcast onto more labels), rollaxis, ungrouping
            'newaxis_values', 'repeat', 'broadcast', 'rollaxis', 'unflatten', 'put', 'reshape_plaincomma', 'percentile']
    DROP = ['binop', 'scalar_op', 'stack', 'concatenate', 'compare', 'neg']

    @staticmethod
    def generate(rng, n, tier, stats):
        cases = []
        while len(cases) < n:
            nd = rng.randint(1, 3)
            a = rand_array(rng, ndim=nd, minlen=1, maxlen=3, kinds=('i', 'f'), attrs=True, dtype='f')
            a['attrs'] = {'units': 'K', 'scale': 2.5}
            a['axattrs'] = [{'long_name': 'axis %d' % j, 'count': j + 1} for j in range(nd)]
            if rng.random() < 0.35:
                # values of any type: None and the falsy ones are the values a careless `if v:` / `is not None` loses
                a['attrs'] = {'units': 'K', 'valid_max': None, 'zero': 0, 'empty': '', 'flags': [], 'off': False}
                a['axattrs'] = [dict(m, bounds=None, offset=0) for m in a['axattrs']]
                stats['odd_metadata_values']['yes'] += 1
            if rng.random() < 0.2:
                # metadata stored under names of class members / constructor parameters ("entries stored in attrs under such names")
                for k_ in rng.sample(['dims', 'labels', 'dtype', 'copy', 'values', 'axes', 'shape', '_indexing', 'cls', 'self'], rng.randint(1, 2)):
                    a['attrs'][k_] = {'dtype': 'float64', 'copy': 'no', '_indexing': 'label'}.get(k_, 'kept')
                stats['metadata_member_names']['yes'] += 1
            if rng.random() < 0.2:
                # axis-level metadata stored under names of Axis constructor parameters / members
                for m_ in a['axattrs']:
                    for k_ in rng.sample(['name', 'tol', 'dtype', 'values', 'size'], 1): m_[k_] = {'dtype': 'float32', 'tol': 0.5}.get(k_, 'kept')
                stats['axis_metadata_member_names']['yes'] += 1
            dims = a['dims']; i = rng.randrange(nd); d = dims[i]; labs = a['labels'][i]
            name = rng.choice(Prop.KEEP + Prop.DROP)
            stats['propagation_op'][name] += 1
            ins = [a]; more = []
            if name == 'get':
                # every kind of index: label list, scalar label, 1-d mask on one axis, positions, and (two or more dimensions) a
                # boolean mask of the full shape
                u = rng.random()
                if nd >= 2 and u < 0.3:
                    mask = [rng.random() < 0.5 for _ in a['flat']]
                    op = ['get_ndmask', mask, rng.choice(['getitem_np', 'getitem_da', 'take', 'compress'])]
                elif u < 0.5: op = ['get', 'take', {'dict': [[d, {'l': [labs[0]]}]]}, None, False, 'label']
                elif u < 0.65: op = ['get', 'take', {'dict': [[d, {'s': labs[0]}]]}, None, rng.random() < 0.5, 'label']
                elif u < 0.8: op = ['get', 'take', {'dict': [[d, {'m': [True] + [rng.random() < 0.5 for _ in labs[1:]]}]]}, None, False, 'label']
                else: op = ['get', 'take_pos', {'dict': [[d, {'pl': [len(labs) - 1, 0]}]]}, None, False, 'label']
                stats['propagation_index_form']['ndmask' if op[0] == 'get_ndmask' else list(op[2]['dict'][0][1])[0]] += 1
            elif name == 'percentile': op = ['percentile', rng.choice([50, [25, 75], [5, 50, 95]]), d if rng.random() < 0.5 else i]      # (one percentile or a list of them)
            elif name == 'reshape_plaincomma': op = ['reshape_plaincomma', i, 'reverse' if nd >= 2 and rng.random() < 0.5 else 'newdim']
            elif name == 'reduce': op = ['reduce', rng.choice(['sum', 'mean', 'median', 'max']), False, d]
            elif name == 'cum': op = ['cum', False, False, d, False]
            elif name == 'diff':
                if len(labs) < 2: continue
                op = ['diff', d, 'backward', False, 1]
            elif name == 'transpose': op = ['transpose', dims[::-1]]
            elif name == 'swapaxes': op = ['swapaxes', 0, nd - 1]
            elif name == 'newaxis': op = ['newaxis', 'q', None, None, 0]
            elif name == 'squeeze': op = ['squeeze', None]
            elif name == 'newaxis_values': op = ['newaxis', 'q', [5, 6, 7][:rng.randint(2, 3)], 'i', rng.randint(0, nd)]
            elif name == 'repeat': more = [['newaxis', 'q', None, None, rng.randint(0, nd)]]; op = ['repeat', [5, 6], 'i', 'q']
            elif name == 'broadcast':
                axs = [{'name': x, 'labels': l, 'kind': k} for x, l, k in zip(dims, a['labels'], a['axdtype'])]
                axs.insert(rng.randint(0, nd), {'name': 'q', 'labels': [5, 6], 'kind': 'i'})
                op = ['broadcast', axs]
            elif name == 'rollaxis': op = ['rollaxis', d, rng.randint(0, nd)]
            elif name == 'unflatten': more = [['flatten', dims, 'tuple', None]]; op = ['unflatten']
            elif name == 'put': op = ['put', 'put', {'dict': [[d, {'l': [labs[0]]}]]}, None, {'scalar': 5.0, 'kind': 'f'}, False, False, 'label']
            elif name == 'flatten': op = ['flatten', dims, 'tuple', None]
            elif name == 'reshape': op = ['reshape', [','.join(dims)], False]
            elif name == 'reindex': op = ['reindex', labs[::-1] + [labs[0] + 100], guess_kind(labs + [labs[0] + 100]), d, None, False, None, 'array']
            elif name == 'sort_axis': op = ['sort_axis', d]
            elif name == 'interp': op = ['interp', [float(labs[0])], 'f', d, None, None]
            elif name == 'take_axis': op = ['take_axis', [0], d, 'position']
            elif name == 'compress_axis': op = ['compress_axis', [True] + [False] * (len(labs) - 1), d]
            elif name == 'dropna': op = ['dropna', d, None]
            elif name == 'fillna': op = ['fillna', 0]
            elif name == 'setna': op = ['setna', [a['flat'][0]], False]
            elif name == 'binop': ins = [a, copy.deepcopy(a)]; op = ['binop', rng.choice(['+', '*', '-']), 1, False]
            elif name == 'scalar_op': op = ['scalar_op', '*', 2, rng.random() < 0.5]
            elif name == 'stack':
                # (a list holding a single array is joined like any other: the result is a new array without the operand's metadata)
                ins = [a, copy.deepcopy(a)] if rng.random() < 0.6 else [a]
                op = ['stack', 'k', [1, 2][:len(ins)], 'i', False, False, False]
            elif name == 'concatenate':
                ins = [a, copy.deepcopy(a)] if rng.random() < 0.6 else [a]
                op = ['concatenate', d, False, False]
            elif name == 'compare': op = ['compare', rng.choice(['==', '<', '>=']), 12.0]
            else: op = ['neg']
            cases.append({'ins': ins, 'ops': more + [op], 'kind': 'keep' if name in Prop.KEEP else 'drop', 'axis': d})
        return cases

    @staticmethod
    def oracle(c, res):
        a = c['ins'][0]; op = c['ops'][-1]
        if res[0] == 'err': return '%s raised %s' % (op[0], res[1])
        g = res[1]
        if g['t'] != 'arr': return None
        r = g['v']
        if c['kind'] == 'keep':
            if r['attrs'] != a['attrs']: return '%s: array metadata %r not carried over (got %r)' % (op[0], a['attrs'], r['attrs'])
            if op[0] in ('get', 'reindex', 'take_axis', 'compress_axis', 'sort_axis') and not (op[0] == 'get' and 's' in op[2]['dict'][0][1] and not op[4]):
                for ax in r['axes']:
                    if ax['name'] == c['axis'] and ax['attrs'] != a['axattrs'][a['dims'].index(c['axis'])]:
                        return '%s: metadata of the sliced / reindexed axis lost' % op[0]
        else:
            if r['attrs']: return '%s: operands\' metadata %r carried into the result' % (op[0], r['attrs'])
        return None

    @staticmethod
    def nontrivial(c, res): return res[0] == 'val'

SUITES = [Route, Prop]
RULE = ('suite 0: (class, attribute name category, action, entry pre-stored in attrs) over DimArray/Dataset/Axis, the observed effect '
        'is classified into a route and compared with the GENERATED decision functions evaluated on the predicates computed from the '
        'real object; suite 1: every operation class on arrays carrying array- and axis-level metadata')
def generate(rng, n, tier, stats): raise NotImplementedError
