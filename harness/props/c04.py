"""C04 - arithmetic aligns operands by dimension name and by label."""
import itertools, math
from common import *
from gen import *
from oracle_util import *
import ops
import props.c06 as c06
import numpy as np

ID = 'C04'
STRICT_ERR = False
N_QUICK = 500
N_THOROUGH = 6000
OPS = ['+', '-', '*', '/', '//', '**']

def fill_values(rng, a, op, role):
    """values that keep every result exact in binary64"""
    n = len(a['flat'])
    if op in ('/', '//'):
        pool = [1, 2, 4, -2, 8] if a['dtype'] == 'i' else [1.0, 2.0, 0.5, -4.0, 0.25]
    elif op == '**':
        pool = [0, 1, 2, 3] if a['dtype'] == 'i' else [0.0, 1.0, 2.0, 3.0, 0.5] if role == 'base' else [0.0, 1.0, 2.0, 3.0]
    else:
        pool = list(range(-4, 9)) if a['dtype'] == 'i' else [x / 4.0 for x in range(-8, 20)]
    a['flat'] = [rng.choice(pool) for _ in range(n)]

def generate(rng, n, tier, stats):
    cases = []
    while len(cases) < n:
        fam = rng.choice(['pair', 'pair', 'pair', 'scalar', 'ndarray'])
        op = rng.choice(OPS)
        stats['family'][fam] += 1; stats['operator'][op] += 1
        if fam == 'pair':
            arrays, pool = c06.gen_family(rng, stats, nmax=2, allow_empty=False, dtype_choices=('f', 'i'), min_arrays=2, same_ends=True)
            a, b = arrays
            if rng.random() < 0.15:   # a 0-d operand
                b = rand_array(rng, ndim=0, dtype=rng.choice(['f', 'i']))
            reflected = rng.random() < 0.5
            first, second = (b, a) if reflected else (a, b)
            fill_values(rng, first, op, 'base'); fill_values(rng, second, op, 'exp')
            cases.append({'ins': [a, b], 'ops': [['binop', op, 1, reflected]]})
        elif fam == 'scalar':
            a = rand_array(rng, stats=stats, dtype=rng.choice(['f', 'i']), attrs=rng.random() < 0.4)
            reflected = rng.random() < 0.5
            fill_values(rng, a, op, 'exp' if reflected else 'base')
            v = rng.choice([2, 4, 1, 0.5] if op in ('/', '//') else [2, 4, 1, 0.5, 3] if op != '**' else [0, 1, 2, 3])
            nps = rng.random() < 0.5
            stats['scalar_operand'][('numpy ' if nps else 'python ') + ('left' if reflected else 'right')] += 1
            cases.append({'ins': [a], 'ops': [['scalar_op', op, v, reflected, nps]]})
        else:
            a = rand_array(rng, stats=stats, dtype=rng.choice(['f', 'i']), ndim=rng.randint(1, 3), minlen=1, attrs=rng.random() < 0.4)
            fill_values(rng, a, op, 'base')
            shape = [len(l) for l in a['labels']]
            if rng.random() < 0.3: shape = shape[1:]
            size = 1
            for s in shape: size *= s
            dt = rng.choice(['f', 'i'])
            w = {'shape': shape, 'dtype': dt, 'flat': []}
            tmp = {'flat': [0] * size, 'dtype': dt}; fill_values(rng, tmp, op, 'exp'); w['flat'] = tmp['flat']
            cases.append({'ins': [a], 'ops': [['ndarray_op', op, w]]})
    return cases

def execute(c):
    ins = [mk_array(j) for j in c['ins']]
    before = [ops.snapshot(x) for x in ins]
    r = run_impl(lambda: ops.run_ops(ins, c['ops']))
    c['_operand_changed'] = [i for i, (b, x) in enumerate(zip(before, ins)) if b != ops.snapshot(x)]
    return r

def pyop(op, x, y):
    if op == '+': return x + y
    if op == '-': return x - y
    if op == '*': return x * y
    if op == '/': return x / y
    if op == '//': return math.floor(x / y)
    return x ** y

def oracle(case, res):
    o = case['ops'][0]
    if case.get('_operand_changed'): return 'operand(s) %r modified by the operation' % case['_operand_changed']
    a = arr_json(mk_array(case['ins'][0]))
    if o[0] in ('scalar_op', 'ndarray_op'):
        arr = mk_array(case['ins'][0])
        if o[0] == 'scalar_op':
            want = ops.py_binop(o[1], o[2], arr.values) if o[3] else ops.py_binop(o[1], arr.values, o[2])
        else:
            want = ops.py_binop(o[1], arr.values, ops.py_rhs(o[2]))
        if res[0] == 'err': return 'scalar/ndarray operand raised %s' % res[1]
        if res[1]['t'] != 'arr': return 'the result is not a DimArray (%s): the axes are lost' % res[1]['t']
        r = res[1]['v']
        if obs_dims(r) != obs_dims(a) or any(not labs_eq(x['labels'], y['labels']) for x, y in zip(r['axes'], a['axes'])): return 'axes changed'
        w = [cell_json(x) for x in np.asarray(want).ravel().tolist()]
        if w != r['flat'] and not all(cell_eq(x, y) or (not isinstance(x, dict) and not isinstance(y, dict) and float(x) == float(y)) for x, y in zip(w, r['flat'])):
            return 'values differ from NumPy on .values'
        return None
    _, op, i, reflected = o
    b = arr_json(mk_array(case['ins'][i]))
    first, second = (b, a) if reflected else (a, b)
    if res[0] == 'err': return 'valid operation raised %s' % res[1]
    r = res[1]['v']
    d1, d2 = obs_dims(first), obs_dims(second)
    want_dims = d1 + [d for d in d2 if d not in d1]
    if obs_dims(r) != want_dims: return 'dims %r, expected %r' % (obs_dims(r), want_dims)
    if r['attrs']: return 'operands\' metadata carried over'
    l1 = dict(zip(d1, obs_labels(first))); l2 = dict(zip(d2, obs_labels(second)))
    rl = dict(zip(want_dims, obs_labels(r)))
    for d in want_dims:
        s = list(l1.get(d, [])) + [x for x in l2.get(d, []) if x not in l1.get(d, [])]
        if len(set(rl[d])) != len(rl[d]): return 'label repeated along %s' % d
        if set(rl[d]) != set(s): return 'labels along %s are %r, expected the union %r' % (d, rl[d], s)
    c1, c2 = cells(first), cells(second)
    pow_identity = None
    for c, v in cells(r).items():
        cd = dict(zip(want_dims, c))
        k1 = tuple(cd[d] for d in d1); k2 = tuple(cd[d] for d in d2)
        x = c1.get(k1, {'nan': 1}); y = c2.get(k2, {'nan': 1})
        defined = (k1 in c1) and (k2 in c2)
        if isinstance(x, dict) or isinstance(y, dict):
            if v != {'nan': 1}:
                # NaN (or a coordinate one operand does not define) must give NaN
                if op == '**' and not isinstance(v, dict) and float(v) == 1.0 and \
                        ((not isinstance(x, dict) and float(x) == 1.0) or (not isinstance(y, dict) and float(y) == 0.0)):
                    pow_identity = 'pow-identity: %r ** %r at %r gives 1.0, not NaN' % (x, y, cd)
                    continue
                return 'value %r at %r where an operand is missing/NaN' % (v, cd)
            continue
        w = pyop(op, x, y)
        if isinstance(v, dict) or float(v) != float(w):
            return 'value at %r is %r, expected %r %s %r = %r' % (cd, v, x, op, y, w)
    return pow_identity

def nontrivial(case, res):
    return res[0] == 'val' and len(res[1]['v']['flat']) > 1
